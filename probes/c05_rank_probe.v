From Coq Require Import List Arith Lia ZArith Bool.
Import ListNotations.

(* fitness means as integers here (the framework uses Q; only the order is used) *)
Definition lexlt (m : list Z) (j i : nat) : bool :=
  let a := nth j m 0%Z in let b := nth i m 0%Z in
  (a <? b)%Z || ((a =? b)%Z && (j <? i)).

(* rank i = number of agents strictly before i in (mean, position) order
   = np.argsort(means, stable).argsort()[i] *)
Definition rank (m : list Z) (i : nat) : nat :=
  length (filter (fun j => lexlt m j i) (seq 0 (length m))).

Lemma lexlt_irrefl m i : lexlt m i i = false.
Proof. unfold lexlt. rewrite Z.ltb_irrefl, Nat.ltb_irrefl, andb_false_r. reflexivity. Qed.
Lemma lexlt_trans m a b c : lexlt m a b = true -> lexlt m b c = true -> lexlt m a c = true.
Proof.
  unfold lexlt. intros H1 H2.
  apply orb_true_iff in H1. apply orb_true_iff in H2. apply orb_true_iff.
  rewrite !andb_true_iff, !Z.ltb_lt, !Z.eqb_eq, !Nat.ltb_lt in *. lia.
Qed.
Lemma lexlt_total m a b : a <> b -> lexlt m a b = true \/ lexlt m b a = true.
Proof.
  intros Hne. unfold lexlt. rewrite !orb_true_iff, !andb_true_iff, !Z.ltb_lt, !Z.eqb_eq, !Nat.ltb_lt. lia.
Qed.

Lemma filter_length_le {A} (p q : A -> bool) l :
  (forall x, In x l -> p x = true -> q x = true) ->
  length (filter p l) <= length (filter q l).
Proof.
  induction l as [|a l IH]; intros H; cbn; auto.
  assert (IH' := IH (fun x Hx => H x (or_intror Hx))).
  destruct (p a) eqn:Hp.
  - rewrite (H a (or_introl eq_refl) Hp). cbn. lia.
  - destruct (q a); cbn; lia.
Qed.
Lemma filter_length_lt {A} (p q : A -> bool) l y :
  (forall x, In x l -> p x = true -> q x = true) -> In y l -> p y = false -> q y = true ->
  length (filter p l) < length (filter q l).
Proof.
  induction l as [|a l IH]; intros H Hy Hp Hq; [inversion Hy|].
  cbn. destruct Hy as [->|Hy].
  - rewrite Hp, Hq. cbn. pose proof (filter_length_le p q l (fun x Hx => H x (or_intror Hx))). lia.
  - specialize (IH (fun x Hx => H x (or_intror Hx)) Hy Hp Hq).
    destruct (p a) eqn:Hpa.
    + rewrite (H a (or_introl eq_refl) Hpa). cbn. lia.
    + destruct (q a); cbn; lia.
Qed.

(* rank is an order isomorphism onto 0..n-1 *)
Theorem rank_mono m a b : a < length m -> lexlt m a b = true -> rank m a < rank m b.
Proof.
  intros Ha H. unfold rank. apply (filter_length_lt _ _ _ a).
  - intros x _ Hx. eapply lexlt_trans; eauto.
  - apply in_seq. lia.
  - apply lexlt_irrefl.
  - exact H.
Qed.
Theorem rank_lt_n m i : i < length m -> rank m i < length m.
Proof.
  intros Hi. unfold rank.
  assert (length (filter (fun j => lexlt m j i) (seq 0 (length m))) <
          length (filter (fun _ => true) (seq 0 (length m)))).
  { apply (filter_length_lt _ _ _ i); auto. apply in_seq; lia. apply lexlt_irrefl. }
  assert (E : forall (l : list nat), filter (fun _ => true) l = l) by (induction l; cbn; congruence).
  rewrite E, seq_length in H. exact H.
Qed.
Theorem rank_inj m a b : a < length m -> b < length m -> rank m a = rank m b -> a = b.
Proof.
  intros Ha Hb E. destruct (Nat.eq_dec a b); auto.
  destruct (lexlt_total m a b n) as [H|H]; [pose proof (rank_mono m a b Ha H)|pose proof (rank_mono m b a Hb H)]; lia.
Qed.

(* tournament: the drawn index with the highest rank *)
Fixpoint best (m : list Z) (draws : list nat) (cur : nat) : nat :=
  match draws with
  | [] => cur
  | d :: ds => best m ds (if rank m cur <? rank m d then d else cur)
  end.
Definition tournament (m : list Z) (draws : list nat) : nat :=
  match draws with [] => 0 | d :: ds => best m ds d end.

Lemma best_spec m : forall ds cur,
  let w := best m ds cur in (w = cur \/ In w ds) /\ rank m cur <= rank m w /\ forall d, In d ds -> rank m d <= rank m w.
Proof.
  induction ds as [|d ds IH]; intros cur; cbn [best].
  - repeat split; auto. intros d [].
  - destruct (Nat.ltb_spec (rank m cur) (rank m d)) as [H|H].
    + destruct (IH d) as (H1 & H2 & H3). repeat split.
      * destruct H1 as [->|H1]; [right; left; auto | right; right; auto].
      * lia.
      * intros x [<-|Hx]; auto.
    + destruct (IH cur) as (H1 & H2 & H3). repeat split.
      * destruct H1 as [H1|H1]; [left; auto | right; right; auto].
      * lia.
      * intros x [<-|Hx]; [lia | auto].
Qed.

Theorem winner_best_of_drawn m d ds :
  let w := tournament m (d :: ds) in
  In w (d :: ds) /\ forall x, In x (d :: ds) -> rank m x <= rank m w.
Proof.
  cbn [tournament]. destruct (best_spec m ds d) as (H1 & H2 & H3). split.
  - destruct H1 as [->|H1]; [left; auto | right; auto].
  - intros x [<-|Hx]; auto.
Qed.

(* the elite (rank n-1) has a maximal mean *)
Theorem elite_is_best m e : e < length m -> rank m e = length m - 1 ->
  forall j, j < length m -> (nth j m 0 <= nth e m 0)%Z.
Proof.
  intros He Hr j Hj. destruct (Z.le_gt_cases (nth j m 0%Z) (nth e m 0%Z)) as [|Hgt]; auto.
  assert (lexlt m e j = true) by (unfold lexlt; apply orb_true_iff; left; apply Z.ltb_lt; lia).
  pose proof (rank_mono m e j He H). pose proof (rank_lt_n m j Hj). lia.
Qed.
Print Assumptions elite_is_best.
Print Assumptions winner_best_of_drawn.
