From Coq Require Import List Arith Lia ZArith Bool.
Import ListNotations.
Local Open Scope Z_scope.

(* extended values: None is -infinity (masked_fill(-inf) / masked-array fill value) *)
Definition olt (a b : option Z) : bool :=
  match a, b with
  | None, Some _ => true
  | Some x, Some y => x <? y
  | _, None => false
  end.

(* argmax returning the FIRST maximal index (torch.argmax / np.argmax) *)
Fixpoint argmax_go (l : list (option Z)) (i : nat) (bi : nat) (bv : option Z) : nat :=
  match l with
  | [] => bi
  | x :: l' => if olt bv x then argmax_go l' (S i) i x else argmax_go l' (S i) bi bv
  end.
Definition argmax (l : list (option Z)) : nat :=
  match l with [] => 0%nat | x :: l' => argmax_go l' 1 0 x end.

Definition fill (q : list Z) (mask : list bool) : list (option Z) :=
  map (fun '(v, m) => if (m : bool) then Some v else None) (combine q mask).
Definition dqn_policy (q : list Z) (mask : list bool) : nat := argmax (fill q mask).

Lemma argmax_go_spec : forall l i bi bv full,
  (bi < i)%nat -> length full = i -> nth_error full bi = Some bv ->
  (forall j x, nth_error full j = Some x -> olt bv x = false) ->
  let r := argmax_go l i bi bv in
  exists rv, nth_error (full ++ l) r = Some rv /\
             forall j x, nth_error (full ++ l) j = Some x -> olt rv x = false.
Proof.
  induction l as [|x l IH]; intros i bi bv full Hbi Hlen Hb Hmax; cbn [argmax_go].
  - rewrite app_nil_r. eauto.
  - destruct (olt bv x) eqn:Hx.
    + specialize (IH (S i) i x (full ++ [x])). rewrite <- app_assoc in IH. cbn [app] in IH.
      apply IH.
      * lia.
      * rewrite app_length; cbn; lia.
      * rewrite nth_error_app2 by lia. rewrite Hlen, Nat.sub_diag. reflexivity.
      * intros j y Hj. destruct (Nat.lt_ge_cases j i) as [Hlt|Hge].
        -- rewrite nth_error_app1 in Hj by lia. specialize (Hmax j y Hj).
           destruct bv as [b|], x as [x0|], y as [y0|]; cbn in *; try congruence; auto.
           rewrite Z.ltb_lt in Hx. rewrite Z.ltb_ge in *. lia.
        -- rewrite nth_error_app2 in Hj by lia. rewrite Hlen in Hj.
           destruct (j - i)%nat as [|k]; cbn in Hj; [|destruct k; discriminate].
           injection Hj as <-. destruct x; cbn; auto. apply Z.ltb_irrefl.
    + specialize (IH (S i) bi bv (full ++ [x])). rewrite <- app_assoc in IH. cbn [app] in IH.
      apply IH.
      * lia.
      * rewrite app_length; cbn; lia.
      * rewrite nth_error_app1 by lia. exact Hb.
      * intros j y Hj. destruct (Nat.lt_ge_cases j i) as [Hlt|Hge].
        -- rewrite nth_error_app1 in Hj by lia. eauto.
        -- rewrite nth_error_app2 in Hj by lia. rewrite Hlen in Hj.
           destruct (j - i)%nat as [|k]; cbn in Hj; [|destruct k; discriminate].
           injection Hj as <-. exact Hx.
Qed.

Theorem argmax_max l : l <> [] ->
  exists rv, nth_error l (argmax l) = Some rv /\ forall j x, nth_error l j = Some x -> olt rv x = false.
Proof.
  destruct l as [|x l]; [congruence|]. intros _. unfold argmax.
  apply (argmax_go_spec l 1 0 x [x]); auto.
  intros [|j] y Hj; cbn in Hj; [injection Hj as <-|destruct j; discriminate].
  destruct x; cbn; auto. apply Z.ltb_irrefl.
Qed.

(* greedy branch: with at least one legal action the chosen action is legal and best among legal *)
Theorem greedy_legal_and_best q mask k :
  length q = length mask -> nth_error mask k = Some true ->
  let a := dqn_policy q mask in
  nth_error mask a = Some true /\
  forall j v, nth_error mask j = Some true -> nth_error q j = Some v ->
              exists va, nth_error q a = Some va /\ v <= va.
Proof.
  intros Hlen Hk a.
  assert (Hnth : forall j, nth_error (fill q mask) j =
            match nth_error q j, nth_error mask j with
            | Some v, Some m => Some (if m then Some v else None) | _, _ => None end).
  { clear. unfold fill. revert mask; induction q as [|v q IH]; intros [|m mask] [|j]; cbn; auto.
    - destruct (nth_error q j); auto. }
  assert (Hne : fill q mask <> []).
  { intro E. specialize (Hnth k). rewrite E in Hnth. rewrite Hk in Hnth.
    destruct (nth_error q k) eqn:Hq; [destruct k; discriminate|].
    apply nth_error_None in Hq. assert (k < length mask)%nat by (apply nth_error_Some; congruence). lia. }
  destruct (argmax_max _ Hne) as (rv & Hr & Hmax). fold (dqn_policy q mask) in Hr. fold a in Hr.
  rewrite Hnth in Hr.
  destruct (nth_error q a) as [va|] eqn:Hqa; [|discriminate].
  destruct (nth_error mask a) as [ma|] eqn:Hma; [|discriminate]. injection Hr as <-.
  assert (Hk' : exists vk, nth_error q k = Some vk).
  { destruct (nth_error q k) eqn:E; eauto. apply nth_error_None in E.
    assert (k < length mask)%nat by (apply nth_error_Some; congruence). lia. }
  destruct Hk' as [vk Hvk].
  assert (ma = true).
  { destruct ma; auto. specialize (Hmax k (Some vk)). rewrite Hnth, Hvk, Hk in Hmax. specialize (Hmax eq_refl). discriminate. }
  subst ma. split; auto.
  intros j v Hj Hv. exists va. split; auto.
  specialize (Hmax j (Some v)). rewrite Hnth, Hv, Hj in Hmax. specialize (Hmax eq_refl). cbn in Hmax.
  apply Z.ltb_ge in Hmax. exact Hmax.
Qed.

(* random branch of DQN: argmax (u_i * mask_i); a zero draw ties with the masked zeros *)
Definition dqn_random (u : list Z) (mask : list bool) : nat :=
  argmax (map (fun '(x, m) => Some (if (m : bool) then x else 0)) (combine u mask)).
Theorem dqn_random_zero_draw_refuted :
  exists u mask, In true mask /\ nth_error mask (dqn_random u mask) = Some false.
Proof. exists [0; 0], [false; true]. split; [right; left; auto | reflexivity]. Qed.
Print Assumptions greedy_legal_and_best.
