From Coq Require Import List ZArith QArith Qround Lia Lqa.
Import ListNotations.
Local Open Scope Q_scope.

Lemma inj_minus x y : inject_Z (x - y) = inject_Z x - inject_Z y.
Proof. unfold Z.sub. rewrite inject_Z_plus, inject_Z_opp. reflexivity. Qed.
Ltac zq := repeat first [rewrite inj_minus in * | rewrite inject_Z_plus in *];
           change (inject_Z 1) with 1 in *; change (inject_Z 0) with 0 in *; change (inject_Z 2) with 2 in *.
Ltac absq := repeat match goal with
  | |- context [inject_Z ?z] => let q := fresh "q" in set (q := inject_Z z) in *; clearbody q
  | H : context [inject_Z ?z] |- _ => let q := fresh "q" in set (q := inject_Z z) in *; clearbody q
  end.
Ltac qlra := absq; lra.
Lemma Zlt_of_Q x y : inject_Z x < inject_Z y -> (x < y)%Z.
Proof. rewrite <- Zlt_Qlt; auto. Qed.
Lemma Zle_of_Q x y : inject_Z x <= inject_Z y -> (x <= y)%Z.
Proof. rewrite <- Zle_Qle; auto. Qed.

Definition lu (N : Z) (b : Q) : Z * Z :=
  let l := Qfloor b in let u := Qceiling b in
  let l1 := if ((0 <? u) && (l =? u))%Z then (l - 1)%Z else l in
  let u1 := if ((l1 <? N - 1) && (l1 =? u))%Z then (u + 1)%Z else u in
  (l1, u1).

Lemma floor_ceiling_cases b :
  (Qfloor b = Qceiling b /\ b == inject_Z (Qfloor b)) \/
  ((Qceiling b = Qfloor b + 1)%Z /\ inject_Z (Qfloor b) < b < inject_Z (Qfloor b) + 1).
Proof.
  pose proof (Qfloor_le b) as H1. pose proof (Qlt_floor b) as H2.
  pose proof (Qle_ceiling b) as H3. pose proof (Qceiling_lt b) as H4. zq.
  assert (A : (Qfloor b <= Qceiling b)%Z) by (apply Zle_of_Q; qlra).
  assert (B : (Qceiling b < Qfloor b + 2)%Z) by (apply Zlt_of_Q; zq; qlra).
  destruct (Z.eq_dec (Qfloor b) (Qceiling b)) as [E|NE].
  - left. split; auto. rewrite <- E in *. qlra.
  - right. assert (E : (Qceiling b = Qfloor b + 1)%Z) by lia. split; auto.
    rewrite E in *. zq. split; [|qlra].
    destruct (Qlt_le_dec (inject_Z (Qfloor b)) b); auto. qlra.
Qed.

Theorem lu_spec N b : (2 <= N)%Z -> 0 <= b <= inject_Z (N - 1) ->
  let '(l, u) := lu N b in
  (0 <= l)%Z /\ (u <= N - 1)%Z /\ (u = l + 1)%Z /\ inject_Z l <= b <= inject_Z l + 1.
Proof.
  intros HN [Hb0 HbN]. unfold lu.
  pose proof (Qfloor_le b) as H1. pose proof (Qlt_floor b) as H2.
  pose proof (Qle_ceiling b) as H3. pose proof (Qceiling_lt b) as H4. zq.
  assert (F0 : (0 <= Qfloor b)%Z).
  { assert (-1 < Qfloor b)%Z by (apply Zlt_of_Q; change (inject_Z (-1)) with (-1); qlra). lia. }
  assert (CN : (Qceiling b <= N - 1)%Z).
  { assert (Qceiling b < N - 1 + 1)%Z by (apply Zlt_of_Q; zq; qlra). lia. }
  destruct (floor_ceiling_cases b) as [[E Eb]|[E [Lb Ub]]]; cbv zeta;
  repeat (match goal with
  | |- context [Z.eqb ?x ?y] => destruct (Z.eqb_spec x y)
  | |- context [Z.ltb ?x ?y] => destruct (Z.ltb_spec x y)
  end; cbn [andb] in *); try lia;
  repeat split; try lia; zq;
  try (replace (Qceiling b) with (Qfloor b) in * by lia);
  try (replace (Qceiling b) with (Qfloor b + 1)%Z in * by lia); zq; try qlra.
Qed.

Corollary lu_weights N b : (2 <= N)%Z -> 0 <= b <= inject_Z (N - 1) ->
  let '(l, u) := lu N b in
  (inject_Z u - b) + (b - inject_Z l) == 1 /\
  inject_Z l * (inject_Z u - b) + inject_Z u * (b - inject_Z l) == b /\
  0 <= inject_Z u - b /\ 0 <= b - inject_Z l.
Proof.
  intros HN Hb. pose proof (lu_spec N b HN Hb) as H. destruct (lu N b) as [l u].
  destruct H as (H0 & H1 & E & Hl & Hu). subst u. zq.
  repeat split; qlra.
Qed.
Print Assumptions lu_weights.
