From Coq Require Import List ZArith Lia Arith.
Import ListNotations.
Local Open Scope Z_scope.

Definition get (l : list Z) (i : nat) : Z := nth i l 0.
Fixpoint upd (l : list Z) (i : nat) (v : Z) : list Z :=
  match l, i with
  | [], _ => []
  | _ :: t, O => v :: t
  | h :: t, S j => h :: upd t j v
  end.

Lemma upd_length l i v : length (upd l i v) = length l.
Proof. revert i; induction l as [|a l IH]; intros [|i]; simpl; auto. Qed.
Lemma get_upd_same l i v : (i < length l)%nat -> get (upd l i v) i = v.
Proof. unfold get; revert i; induction l as [|a l IH]; intros [|i] H; simpl in *; try lia; auto. apply IH; lia. Qed.
Lemma get_upd_other l i j v : i <> j -> get (upd l i v) j = get l j.
Proof. unfold get; revert i j; induction l as [|a l IH]; intros [|i] [|j] H; simpl; auto; try congruence. Qed.

Fixpoint fixup (fuel i : nat) (l : list Z) : list Z :=
  match fuel with
  | O => l
  | S f => if (i <? 1)%nat then l
           else fixup f (i / 2) (upd l i (get l (2*i) + get l (2*i+1)))
  end.

Definition setitem (c : nat) (l : list Z) (idx : nat) (v : Z) : list Z :=
  let p := (idx + c)%nat in fixup p (p / 2) (upd l p v).

Fixpoint retrieve_go (fuel idx c : nat) (l : list Z) (ub : Z) : nat :=
  match fuel with
  | O => (idx - c)%nat
  | S f => if (idx <? c)%nat then
             if ub <? get l (2*idx) then retrieve_go f (2*idx) c l ub
             else retrieve_go f (2*idx+1) c l (ub - get l (2*idx))
           else (idx - c)%nat
  end.

Definition eqn (l : list Z) (j : nat) : Prop := get l j = get l (2*j) + get l (2*j+1).
Definition Inv (c : nat) (l : list Z) : Prop :=
  length l = (2*c)%nat /\ forall j, (1 <= j < c)%nat -> eqn l j.

Inductive anc : nat -> nat -> Prop :=
| anc_refl i : anc i i
| anc_step i j : (1 <= i)%nat -> anc (i / 2) j -> anc i j.

Lemma anc0 j : anc 0 j -> j = 0%nat.
Proof. inversion 1; subst; auto; lia. Qed.

Lemma fixup_length fuel : forall i l, length (fixup fuel i l) = length l.
Proof. induction fuel as [|f IH]; intros i l; cbn [fixup]; auto. destruct (i <? 1)%nat; auto. rewrite IH, upd_length; auto. Qed.

Lemma fixup_ok c fuel : forall i l,
  length l = (2*c)%nat -> (i < c)%nat -> (i <= fuel)%nat ->
  (forall j, (1 <= j < c)%nat -> ~ anc i j -> eqn l j) ->
  forall j, (1 <= j < c)%nat -> eqn (fixup fuel i l) j.
Proof.
  induction fuel as [|f IH]; intros i l Hlen Hi Hf H j Hj; cbn [fixup].
  - apply H; auto. intro A. assert (i = 0)%nat by lia. subst. apply anc0 in A. lia.
  - destruct (Nat.ltb_spec i 1) as [Hlt|Hge].
    + apply H; auto. intro A. assert (i = 0)%nat by lia. subst. apply anc0 in A. lia.
    + assert (Hdiv : (i / 2 < i)%nat) by (apply Nat.div_lt; lia).
      apply IH; [rewrite upd_length; exact Hlen | lia | lia | | exact Hj].
      * intros k Hk Hna. unfold eqn.
        destruct (Nat.eq_dec k i) as [->|Hne].
        -- rewrite get_upd_same by lia.
           rewrite !get_upd_other by lia. reflexivity.
        -- assert (~ anc i k).
           { intro A. inversion A; subst; auto. }
           specialize (H k Hk H0). unfold eqn in H.
           rewrite get_upd_other by auto.
           assert ((2*k)%nat <> i).
           { intro E. apply Hna. replace (i/2)%nat with k. constructor. subst i. symmetry. rewrite Nat.mul_comm. apply Nat.div_mul. lia. }
           assert ((2*k+1)%nat <> i).
           { intro E. apply Hna. replace (i/2)%nat with k. constructor. subst i. symmetry.
             rewrite Nat.mul_comm, Nat.div_add_l by lia. simpl. lia. }
           rewrite !get_upd_other by auto. exact H.
Qed.

Theorem setitem_inv c l idx v : Inv c l -> (idx < c)%nat -> Inv c (setitem c l idx v).
Proof.
  intros [Hlen H] Hidx. unfold setitem. split.
  - rewrite fixup_length, upd_length; auto.
  - assert (Hp : ((idx + c) / 2 < c)%nat) by (apply Nat.div_lt_upper_bound; lia).
    apply fixup_ok.
    + rewrite upd_length; auto.
    + exact Hp.
    + apply Nat.div_le_upper_bound; lia.
    + intros j Hj Hna. unfold eqn.
      rewrite get_upd_other by lia.
      assert ((2*j)%nat <> (idx + c)%nat).
      { intro E. apply Hna. rewrite <- E. rewrite Nat.mul_comm, Nat.div_mul by lia. constructor. }
      assert ((2*j+1)%nat <> (idx + c)%nat).
      { intro E. apply Hna. rewrite <- E. rewrite Nat.mul_comm, Nat.div_add_l by lia. simpl. rewrite Nat.add_0_r. constructor. }
      rewrite !get_upd_other by auto. apply H; auto.
Qed.

(* leaves are not touched by the climb *)
Lemma fixup_leaves c fuel : forall i l k, (i < c)%nat -> (c <= k)%nat ->
  get (fixup fuel i l) k = get l k.
Proof.
  induction fuel as [|f IH]; intros i l k Hi Hk; cbn [fixup]; auto.
  destruct (Nat.ltb_spec i 1); auto.
  assert ((i / 2 < i)%nat) by (apply Nat.div_lt; lia).
  rewrite IH by lia. apply get_upd_other. lia.
Qed.

Lemma setitem_leaf_same c l idx v : length l = (2*c)%nat -> (idx < c)%nat ->
  get (setitem c l idx v) (c + idx) = v.
Proof.
  intros Hl Hi. unfold setitem.
  assert (((idx + c) / 2 < c)%nat) by (apply Nat.div_lt_upper_bound; lia).
  rewrite (fixup_leaves c) by lia.
  replace (c + idx)%nat with (idx + c)%nat by lia. apply get_upd_same. lia.
Qed.

Lemma setitem_leaf_other c l idx v k : (idx < c)%nat -> (k < c)%nat -> k <> idx ->
  get (setitem c l idx v) (c + k) = get l (c + k).
Proof.
  intros Hi Hk Hne. unfold setitem.
  assert (((idx + c) / 2 < c)%nat) by (apply Nat.div_lt_upper_bound; lia).
  rewrite (fixup_leaves c) by lia. apply get_upd_other. lia.
Qed.

(* sum of n leaves starting at leaf lo *)
Fixpoint lsum (l : list Z) (c lo n : nat) : Z :=
  match n with O => 0 | S m => get l (c + lo) + lsum l c (S lo) m end.

Lemma lsum_app l c : forall n lo m, lsum l c lo (n + m) = lsum l c lo n + lsum l c (lo + n) m.
Proof.
  induction n as [|n IH]; intros lo m; cbn [lsum Nat.add].
  - rewrite Nat.add_0_r. lia.
  - rewrite IH. replace (S lo + n)%nat with (lo + S n)%nat by lia. lia.
Qed.

Lemma lsum_nonneg l c : (forall k, (k < c)%nat -> 0 <= get l (c + k)) ->
  forall n lo, (lo + n <= c)%nat -> 0 <= lsum l c lo n.
Proof.
  intros Hnn; induction n as [|n IH]; intros lo H; cbn [lsum]; [lia|].
  specialize (Hnn lo ltac:(lia)). specialize (IH (S lo) ltac:(lia)). lia.
Qed.

Lemma node_val c l : Inv c l -> forall h idx lo,
  (idx * 2 ^ h = c + lo)%nat -> (lo + 2 ^ h <= c)%nat ->
  get l idx = lsum l c lo (2 ^ h).
Proof.
  intros [Hlen H]; induction h as [|h IH]; intros idx lo E R.
  - cbn [Nat.pow lsum] in *. replace idx with (c + lo)%nat by lia. lia.
  - rewrite Nat.pow_succ_r' in *. set (P := (2 ^ h)%nat) in *.
    assert (1 <= P)%nat by (unfold P; pose proof (Nat.pow_nonzero 2 h); lia).
    assert (1 <= idx < c)%nat by nia.
    rewrite (H idx) by auto.
    rewrite (IH (2*idx)%nat lo) by (fold P; nia).
    rewrite (IH (2*idx+1)%nat (lo + P)%nat) by (fold P; nia).
    fold P. replace (2 * P)%nat with (P + P)%nat by lia. rewrite lsum_app. reflexivity.
Qed.

Theorem retrieve_spec c l : Inv c l ->
  (forall k, (k < c)%nat -> 0 <= get l (c + k)) ->
  forall h fuel idx lo ub,
  (idx * 2 ^ h = c + lo)%nat -> (lo + 2 ^ h <= c)%nat -> (h <= fuel)%nat ->
  0 <= ub < get l idx ->
  let r := retrieve_go fuel idx c l ub in
  (lo <= r < lo + 2 ^ h)%nat /\
  lsum l c lo (r - lo) <= ub < lsum l c lo (r - lo) + get l (c + r).
Proof.
  intros HI Hnn; induction h as [|h IH]; intros fuel idx lo ub E R Hf Hub r.
  - cbn [Nat.pow] in *. assert (idx = c + lo)%nat by lia. subst idx.
    assert (r = lo).
    { unfold r. destruct fuel; cbn [retrieve_go]; [lia|].
      destruct (Nat.ltb_spec (c + lo) c); lia. }
    rewrite H. replace (lo - lo)%nat with 0%nat by lia. cbn [lsum]. split; [lia|]. lia.
  - destruct fuel as [|f]; [lia|].
    rewrite Nat.pow_succ_r' in *. set (P := (2 ^ h)%nat) in *.
    assert (1 <= P)%nat by (unfold P; pose proof (Nat.pow_nonzero 2 h); lia).
    assert (Hidx : (1 <= idx < c)%nat) by nia.
    destruct HI as [Hlen Heq]. pose proof (Heq idx Hidx) as Hn. unfold eqn in Hn.
    pose proof (node_val c l (conj Hlen Heq) h (2*idx)%nat lo ltac:(fold P; nia) ltac:(fold P; nia)) as HL.
    fold P in HL.
    unfold r; cbn [retrieve_go].
    destruct (Nat.ltb_spec idx c) as [_|]; [|lia].
    destruct (Z.ltb_spec ub (get l (2*idx))) as [Hlt|Hge].
    + destruct (IH f (2*idx)%nat lo ub ltac:(fold P; nia) ltac:(fold P; nia) ltac:(lia) ltac:(lia)) as [Hr Hs].
      fold P in Hr. split; [lia|exact Hs].
    + destruct (IH f (2*idx+1)%nat (lo+P)%nat (ub - get l (2*idx)) ltac:(fold P; nia) ltac:(fold P; nia) ltac:(lia) ltac:(lia)) as [Hr Hs].
      fold P in Hr. set (r' := retrieve_go f (2*idx+1) c l (ub - get l (2*idx))) in *.
      split; [lia|].
      replace (r' - lo)%nat with (P + (r' - (lo + P)))%nat by lia.
      rewrite lsum_app, <- HL. lia.
Qed.

(* top-level: capacity 2^d, root = node 1 *)
Corollary retrieve_top d l ub : let c := (2 ^ d)%nat in
  Inv c l -> (forall k, (k < c)%nat -> 0 <= get l (c + k)) ->
  0 <= ub < get l 1 ->
  let r := retrieve_go c 1 c l ub in
  (r < c)%nat /\ lsum l c 0 r <= ub < lsum l c 0 r + get l (c + r) /\ 0 < get l (c + r).
Proof.
  intros c HI Hnn Hub r.
  assert (Hd : (d <= c)%nat).
  { unfold c. clear. induction d; cbn [Nat.pow]; [lia|]. pose proof (Nat.pow_nonzero 2 d). lia. }
  destruct (retrieve_spec c l HI Hnn d c 1%nat 0%nat ub) as [Hr Hs]; try lia; auto.
  fold r in Hr, Hs. rewrite Nat.sub_0_r in Hs. fold c in Hr. split; [lia|]. split; [exact Hs|lia].
Qed.
Print Assumptions retrieve_top.
Print Assumptions setitem_inv.
