From Coq Require Import List ZArith Lia Bool Arith.
Import ListNotations.
Local Open Scope Z_scope.

Record cfg := { min_layers : nat; max_layers : nat; min_nodes : Z; max_nodes : Z }.
Inductive meth := AddLayer | RemoveLayer | AddNode (layer : nat) (n : Z) | RemoveNode (layer : nat) (n : Z).

Fixpoint upd (l : list Z) (i : nat) (f : Z -> Z) : list Z :=
  match l, i with [], _ => [] | x :: t, O => f x :: t | x :: t, S j => x :: upd t j f end.

(* hidden_layer = min(hidden_layer, len - 1); guarded update; returns the method really applied *)
Definition add_node (c : cfg) (h : list Z) (layer : nat) (n : Z) : list Z :=
  let i := Nat.min layer (length h - 1) in
  if nth i h 0 + n <=? max_nodes c then upd h i (fun x => x + n) else h.
Definition remove_node (c : cfg) (h : list Z) (layer : nat) (n : Z) : list Z :=
  let i := Nat.min layer (length h - 1) in
  if min_nodes c <? nth i h 0 - n then upd h i (fun x => x - n) else h.

(* fall-backs: add_layer at the maximum and remove_layer at the minimum both turn into add_node
   (whose arguments are then drawn at random: passed in as fb_layer, fb_n) *)
Definition step (c : cfg) (h : list Z) (m : meth) (fb_layer : nat) (fb_n : Z) : list Z * meth :=
  match m with
  | AddLayer => if (length h <? max_layers c)%nat then (h ++ [last h 0], AddLayer)
                else (add_node c h fb_layer fb_n, AddNode fb_layer fb_n)
  | RemoveLayer => if (min_layers c <? length h)%nat then (removelast h, RemoveLayer)
                   else (add_node c h fb_layer fb_n, AddNode fb_layer fb_n)
  | AddNode l n => (add_node c h l n, m)
  | RemoveNode l n => (remove_node c h l n, m)
  end.

Definition InBounds (c : cfg) (h : list Z) : Prop :=
  (min_layers c <= length h <= max_layers c)%nat /\ Forall (fun x => min_nodes c <= x <= max_nodes c) h.

Lemma upd_length l : forall i f, length (upd l i f) = length l.
Proof. induction l; intros [|i] f; cbn; auto. Qed.
Lemma upd_forall (P : Z -> Prop) l : forall i f,
  Forall P l -> P (f (nth i l 0)) -> Forall P (upd l i f).
Proof.
  induction l as [|x l IH]; intros [|i] f H Hf; cbn in *; auto; inversion H; subst; constructor; auto.
Qed.

Theorem bounds_inv c h m fl fn : (1 <= min_layers c)%nat -> 0 <= fn ->
  (match m with AddNode _ n | RemoveNode _ n => 0 <= n | _ => True end) ->
  InBounds c h -> InBounds c (fst (step c h m fl fn)).
Proof.
  intros Hmin Hfn Hn [HL HF].
  assert (Hadd : forall l n, 0 <= n -> InBounds c (add_node c h l n)).
  { intros l n H0. unfold add_node. destruct (Z.leb_spec (nth (Nat.min l (length h - 1)) h 0 + n) (max_nodes c)).
    - split; [rewrite upd_length; auto|]. apply upd_forall; auto.
      assert (In (nth (Nat.min l (length h - 1)) h 0) h) by (apply nth_In; lia).
      rewrite Forall_forall in HF. specialize (HF _ H1). lia.
    - split; auto. }
  destruct m as [| |l n|l n]; cbn [step].
  - destruct (Nat.ltb_spec (length h) (max_layers c)); cbn [fst]; auto.
    split; [rewrite app_length; cbn; lia|].
    apply Forall_app; split; auto. constructor; auto.
    destruct h as [|x h']; [cbn in HL; lia|].
    assert (In (last (x :: h') 0) (x :: h')).
    { clear. revert x; induction h' as [|y h' IH]; intros x; [left; auto|]. right. apply IH. }
    rewrite Forall_forall in HF. apply HF. exact H0.
  - destruct (Nat.ltb_spec (min_layers c) (length h)); cbn [fst]; auto.
    split.
    + destruct h as [|x h']; [cbn in *; lia|]. rewrite removelast_firstn_len, firstn_length. cbn [length] in *. lia.
    + rewrite Forall_forall in *. intros y Hy. apply HF.
      destruct h as [|x h']; [inversion Hy|]. rewrite (app_removelast_last 0 (l:=x::h')) by discriminate.
      apply in_or_app. left. exact Hy.
  - cbn [fst]. apply Hadd. exact Hn.
  - cbn [fst]. unfold remove_node.
    destruct (Z.ltb_spec (min_nodes c) (nth (Nat.min l (length h - 1)) h 0 - n)).
    + split; [rewrite upd_length; auto|]. apply upd_forall; auto.
      assert (In (nth (Nat.min l (length h - 1)) h 0) h) by (apply nth_In; lia).
      rewrite Forall_forall in HF. specialize (HF _ H0). lia.
    + split; auto.
Qed.

(* lift to every chain of mutations *)
Definition ok_op (o : meth * nat * Z) : Prop :=
  let '(m, _, fn) := o in 0 <= fn /\ match m with AddNode _ n | RemoveNode _ n => 0 <= n | _ => True end.
Theorem bounds_inv_chain c : (1 <= min_layers c)%nat -> forall ops h,
  Forall ok_op ops -> InBounds c h ->
  InBounds c (fold_left (fun h '(m, fl, fn) => fst (step c h m fl fn)) ops h).
Proof.
  intros Hmin. induction ops as [|o ops IH]; intros h HF HI; cbn [fold_left]; auto.
  destruct o as [[m fl] fn]. inversion HF as [|? ? Hok HF']; subst. cbn [ok_op] in Hok. destruct Hok as [H1 H2]. apply IH; auto. apply bounds_inv; auto.
Qed.

(* an advertised mutation that is not stopped by a bound really changes the architecture *)
Theorem add_layer_effective c h fl fn : (length h < max_layers c)%nat ->
  length (fst (step c h AddLayer fl fn)) = S (length h) /\ snd (step c h AddLayer fl fn) = AddLayer.
Proof.
  intros H. cbn [step]. destruct (Nat.ltb_spec (length h) (max_layers c)); [|lia].
  cbn. rewrite app_length. cbn. split; [lia|reflexivity].
Qed.
Print Assumptions bounds_inv_chain.
