From Coq Require Import List ZArith PrimFloat Lia String.
Import ListNotations.
Section Tree.
  Variable T : Type.
  Variables (op : T -> T -> T) (zero : T) (ltb : T -> T -> bool) (sub : T -> T -> T).
  Record st := { cap : nat; tree : list T }.
  Definition get (l : list T) (i : nat) := nth i l zero.
  Fixpoint set_nth (l : list T) (i : nat) (v : T) : list T :=
    match l, i with
    | [], _ => []
    | _ :: t, O => v :: t
    | h :: t, S j => h :: set_nth t j v
    end.
  Fixpoint fixup (fuel i : nat) (l : list T) : list T :=
    match fuel with
    | O => l
    | S f => if Nat.ltb i 1 then l
             else fixup f (Nat.div2 i) (set_nth l i (op (get l (2*i)) (get l (2*i+1))))
    end.
  Definition setitem (s : st) (idx : nat) (v : T) : st :=
    let p := idx + cap s in
    {| cap := cap s; tree := fixup p (Nat.div2 p) (set_nth (tree s) p v) |}.
  Fixpoint retrieve_go (fuel idx : nat) (c : nat) (l : list T) (ub : T) : nat :=
    match fuel with
    | O => idx - c
    | S f => if Nat.ltb idx c then
               let left := 2*idx in
               if ltb ub (get l left) then retrieve_go f left c l ub
               else retrieve_go f (left+1) c l (sub ub (get l left))
             else idx - c
    end.
  Definition retrieve (s : st) (ub : T) := retrieve_go (cap s) 1 (cap s) (tree s) ub.
  Definition init (c : nat) : st := {| cap := c; tree := repeat zero (2*c) |}.
End Tree.
Definition zt := init Z 0%Z 4.
Definition zs := fold_left (fun s '(i,v) => setitem Z Z.add 0%Z s i v) [(0,1%Z);(1,2%Z);(2,7%Z)] zt.
Eval vm_compute in (tree Z zs, map (retrieve Z 0%Z Z.ltb Z.sub zs) [0;1;2;3;9]%Z).
Definition ft := init float 0%float 4.
Definition fs := fold_left (fun s '(i,v) => setitem float PrimFloat.add 0%float s i v) [(0,0x1.0624dd2f1a9fcp-10%float);(1,0.2%float);(2,0.7%float)] ft.
Eval vm_compute in (tree float fs, retrieve float 0%float PrimFloat.ltb PrimFloat.sub fs 0.9009999999999999%float).
