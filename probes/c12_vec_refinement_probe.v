From Coq Require Import List Arith Lia ZArith Bool.
Import ListNotations.

(* scripted single-agent-group environment: episode e lasts (len e) steps *)
Record senv := { eid : nat; len : nat -> nat }.
Record sstate := { ep : nat; t : nat }.
Definition obs := (nat * nat * nat)%type.                 (* (eid, episode, t) *)
Record out := { o_obs : obs; o_rew : nat; o_done : bool }.

Definition observe (E : senv) (s : sstate) : obs := (eid E, ep s, t s).
Definition reset (s : sstate) : sstate := {| ep := S (ep s); t := 0 |}.
Definition raw_step (E : senv) (s : sstate) (a : nat) : sstate * out :=
  let s' := {| ep := ep s; t := S (t s) |} in
  (s', {| o_obs := observe E s'; o_rew := S (t s) * 8 + a; o_done := len E (ep s) <=? S (t s) |}).

(* reference: environment stepped alone under auto-reset; the observation returned after the
   last step of an episode is the FIRST observation of the new episode *)
Definition single_step (E : senv) (s : sstate) (a : nat) : sstate * out :=
  let '(s', o) := raw_step E s a in
  if o_done o then let s'' := reset s' in (s'', {| o_obs := observe E s''; o_rew := o_rew o; o_done := true |})
  else (s', o).

(* the worker of the pinned code: the transition is captured BEFORE the reset and unpacked after it *)
Definition worker_step_code (E : senv) (s : sstate) (a : nat) : sstate * out :=
  let '(s', o) := raw_step E s a in
  let captured := o in
  if o_done o then (reset s', captured) else (s', captured).
(* repaired worker: capture after the reset *)
Definition worker_step_fixed (E : senv) (s : sstate) (a : nat) : sstate * out := single_step E s a.

(* vectorised step: one worker per environment, results gathered by position *)
Fixpoint vec_step (step : senv -> sstate -> nat -> sstate * out)
         (Es : list senv) (ss : list sstate) (acts : list nat) : list sstate * list out :=
  match Es, ss, acts with
  | E :: Es', s :: ss', a :: acts' =>
      let '(s', o) := step E s a in
      let '(rs, ro) := vec_step step Es' ss' acts' in (s' :: rs, o :: ro)
  | _, _, _ => ([], [])
  end.

Fixpoint vec_run step Es ss (actss : list (list nat)) : list sstate * list (list out) :=
  match actss with
  | [] => (ss, [])
  | acts :: rest => let '(ss', os) := vec_step step Es ss acts in
                    let '(ssf, oss) := vec_run step Es ss' rest in (ssf, os :: oss)
  end.
Fixpoint single_run step (E : senv) (s : sstate) (acts : list nat) : sstate * list out :=
  match acts with
  | [] => (s, [])
  | a :: rest => let '(s', o) := step E s a in let '(sf, os) := single_run step E s' rest in (sf, o :: os)
  end.

Lemma vec_step_nth step : forall Es ss acts i E s a,
  nth_error Es i = Some E -> nth_error ss i = Some s -> nth_error acts i = Some a ->
  length Es = length ss -> length Es = length acts ->
  nth_error (fst (vec_step step Es ss acts)) i = Some (fst (step E s a)) /\
  nth_error (snd (vec_step step Es ss acts)) i = Some (snd (step E s a)).
Proof.
  induction Es as [|E0 Es IH]; intros ss acts i E s a HE Hs Ha L1 L2.
  - destruct i; discriminate.
  - destruct ss as [|s0 ss]; [discriminate|]. destruct acts as [|a0 acts]; [discriminate|].
    cbn [vec_step]. destruct (step E0 s0 a0) as [s0' o0] eqn:E0s.
    destruct (vec_step step Es ss acts) as [rs ro] eqn:Ev.
    destruct i as [|i]; cbn [nth_error fst snd] in *.
    + injection HE as <-. injection Hs as <-. injection Ha as <-. rewrite E0s. auto.
    + specialize (IH ss acts i E s a HE Hs Ha ltac:(cbn in L1; lia) ltac:(cbn in L2; lia)).
      rewrite Ev in IH. exact IH.
Qed.

(* position i of the vectorised run = environment i run alone, for every number of environments,
   every episode-length script (so resets interleave arbitrarily) and every action sequence *)
Theorem vec_refines_singles step : forall actss Es ss i E s,
  nth_error Es i = Some E -> nth_error ss i = Some s -> length Es = length ss ->
  Forall (fun acts => length acts = length Es) actss ->
  nth_error (fst (vec_run step Es ss actss)) i
    = Some (fst (single_run step E s (map (fun acts => nth i acts 0) actss))) /\
  map (fun os => nth_error os i) (snd (vec_run step Es ss actss))
    = map Some (snd (single_run step E s (map (fun acts => nth i acts 0) actss))).
Proof.
  induction actss as [|acts rest IH]; intros Es ss i E s HE Hs L HF.
  - cbn. auto.
  - inversion HF as [|? ? Hl HF']; subst. cbn [vec_run single_run map].
    assert (Ha : nth_error acts i = Some (nth i acts 0)).
    { apply nth_error_nth'. rewrite Hl. apply nth_error_Some. congruence. }
    destruct (vec_step_nth step Es ss acts i E s _ HE Hs Ha L (eq_sym Hl)) as [H1 H2].
    destruct (vec_step step Es ss acts) as [ss' os] eqn:Ev. cbn [fst snd] in H1, H2.
    destruct (step E s (nth i acts 0)) as [s' o] eqn:Es'. cbn [fst snd] in H1, H2.
    assert (L' : length Es = length ss').
    { clear - Ev L Hl. revert ss acts ss' os Ev L Hl. induction Es as [|E0 Es IHE]; intros.
      - cbn in Ev. injection Ev as <- <-. reflexivity.
      - destruct ss as [|s0 ss]; [discriminate|]. destruct acts as [|a0 acts]; [discriminate|].
        cbn [vec_step] in Ev. destruct (step E0 s0 a0). destruct (vec_step step Es ss acts) eqn:E2.
        injection Ev as <- <-. cbn. f_equal. eapply IHE; eauto. }
    specialize (IH Es ss' i E s' HE H1 L' HF').
    destruct (vec_run step Es ss' rest) as [ssf oss]. 
    destruct (single_run step E s' (map (fun acts0 => nth i acts0 0) rest)) as [sf os1].
    cbn [fst snd map] in *. destruct IH as [I1 I2]. split; auto. rewrite H2, I2. reflexivity.
Qed.

(* the pinned worker returns the terminal observation instead of the first one of the new episode *)
Definition E1 : senv := {| eid := 0; len := fun _ => 2 |}.
Theorem autoreset_obs_refuted :
  exists E s acts, snd (single_run worker_step_code E s acts) <> snd (single_run single_step E s acts).
Proof. exists E1, {| ep := 0; t := 0 |}, [0; 0]. vm_compute. intro H. inversion H. Qed.
Theorem fixed_worker_is_reference E s acts :
  single_run worker_step_fixed E s acts = single_run single_step E s acts.
Proof. reflexivity. Qed.
Print Assumptions vec_refines_singles.
