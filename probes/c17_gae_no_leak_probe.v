From Coq Require Import List ZArith QArith Lia Lqa Setoid.
Import ListNotations.
Local Open Scope Q_scope.

(* one column of the rollout; returns (advantages, V_t of the head, d_t of the head) *)
Fixpoint gae (g l : Q) (rs vs ds : list Q) (nv nd : Q) : list Q * Q * Q :=
  match rs, vs, ds with
  | r :: rs', v :: vs', d :: ds' =>
      let '(advs, v1, d1) := gae g l rs' vs' ds' nv nd in
      let last := match advs with a :: _ => a | [] => 0 end in
      let nnt := 1 - d1 in
      let delta := r + g * v1 * nnt - v in
      ((delta + g * l * nnt * last) :: advs, v, d)
  | _, _, _ => ([], nv, nd)
  end.

Definition advs_of (x : list Q * Q * Q) : list Q := fst (fst x).
Definition eqlQ := Forall2 Qeq.

(* the definition of the property, as a function of t (for the correspondence with gae) *)
Definition nth0 (l : list Q) (t : nat) (dflt : Q) := nth t l dflt.

Lemma gae_cons g l r rs v vs d ds nv nd :
  gae g l (r :: rs) (v :: vs) (d :: ds) nv nd =
  let '(advs, v1, d1) := gae g l rs vs ds nv nd in
  let last := match advs with a :: _ => a | [] => 0 end in
  ((r + g * v1 * (1 - d1) - v + g * l * (1 - d1) * last) :: advs, v, d).
Proof. reflexivity. Qed.

Definition bd (ds : list Q) (nd : Q) : Q := match ds with d :: _ => d | [] => nd end.

Lemma gae_head_vd g l rs vs ds nv nd :
  length rs = length vs -> length rs = length ds ->
  snd (gae g l rs vs ds nv nd) = bd ds nd.
Proof.
  destruct rs, vs, ds; cbn [length]; intros; try discriminate; auto.
  rewrite gae_cons. destruct (gae g l rs vs ds nv nd) as [[a v1] d1]. reflexivity.
Qed.

Theorem gae_no_leak g l : forall r1 v1 d1 r2 v2 d2 nv nd r2' v2' d2' nv' nd',
  length r1 = length v1 -> length r1 = length d1 -> r1 <> [] ->
  length r2 = length v2 -> length r2 = length d2 ->
  length r2' = length v2' -> length r2' = length d2' ->
  bd d2 nd == 1 -> bd d2' nd' == 1 ->
  eqlQ (firstn (length r1) (advs_of (gae g l (r1 ++ r2) (v1 ++ v2) (d1 ++ d2) nv nd)))
       (firstn (length r1) (advs_of (gae g l (r1 ++ r2') (v1 ++ v2') (d1 ++ d2') nv' nd'))).
Proof.
  induction r1 as [|r r1 IH]; intros v1 d1 r2 v2 d2 nv nd r2' v2' d2' nv' nd' L1 L2 NE T1 T2 T1' T2' B B'.
  - congruence.
  - destruct v1 as [|v v1]; [discriminate|]. destruct d1 as [|d d1]; [discriminate|].
    cbn [length] in L1, L2. injection L1 as L1. injection L2 as L2.
    cbn [app]. rewrite !gae_cons.
    destruct r1 as [|r' r1].
    + (* boundary: the tail starts right after this element *)
      destruct v1; [|discriminate]. destruct d1; [|discriminate]. cbn [app length firstn].
      pose proof (gae_head_vd g l r2 v2 d2 nv nd T1 T2) as H.
      pose proof (gae_head_vd g l r2' v2' d2' nv' nd' T1' T2') as H'.
      destruct (gae g l r2 v2 d2 nv nd) as [[a w] e].
      destruct (gae g l r2' v2' d2' nv' nd') as [[a' w'] e'].
      cbn [snd] in H, H'. subst e e'. cbn [advs_of fst firstn].
      constructor; [|constructor].
      rewrite B, B'. ring.
    + specialize (IH v1 d1 r2 v2 d2 nv nd r2' v2' d2' nv' nd' L1 L2 ltac:(discriminate) T1 T2 T1' T2' B B').
      destruct v1 as [|v' v1]; [discriminate|]. destruct d1 as [|d' d1]; [discriminate|].
      cbn [app] in *. rewrite !gae_cons in *.
      destruct (gae g l (r1 ++ r2) (v1 ++ v2) (d1 ++ d2) nv nd) as [[a w] e].
      destruct (gae g l (r1 ++ r2') (v1 ++ v2') (d1 ++ d2') nv' nd') as [[a' w'] e'].
      cbn [advs_of fst length firstn] in *.
      inversion IH as [|x y lx ly Hxy Hrest]; subst.
      constructor.
      * rewrite Hxy. reflexivity.
      * constructor; assumption.
Qed.
Print Assumptions gae_no_leak.
