From Coq Require Import List Arith Lia Bool.
Import ListNotations.

Inductive pst := DEFAULT | W_RESET | W_STEP | W_CALL.
Inductive kind := KReset | KStep | KCall.
Definition wst (k : kind) := match k with KReset => W_RESET | KStep => W_STEP | KCall => W_CALL end.
Definition pst_eqb (a b : pst) : bool :=
  match a, b with DEFAULT, DEFAULT | W_RESET, W_RESET | W_STEP, W_STEP | W_CALL, W_CALL => true | _, _ => false end.

Inductive behav := Normal | Raise (e : nat) | Sleep | Die.
Inductive slot := Ready (ok : bool) | Late (ok : bool).
Record worker := { alive : bool; nseen : nat; plan : nat -> behav; outq : list slot }.
Inductive pipe := POpen | PNone.
Record env := { st : pst; closed : bool; pipes : list pipe; ws : list worker; errq : list (nat * nat) }.

Inductive outcome := Ok | AlreadyPending | NoAsyncCall | ClosedErr | Exc (e : nat) | Timeout
                   | BrokenPipe | EOFErr | AttrErr | Hang.

(* a worker receives one command *)
Definition deliver (i : nat) (w : worker) (q : list (nat * nat)) : worker * list (nat * nat) :=
  match plan w (nseen w) with
  | Normal  => ({| alive := true;  nseen := S (nseen w); plan := plan w; outq := outq w ++ [Ready true] |}, q)
  | Raise e => ({| alive := false; nseen := S (nseen w); plan := plan w; outq := outq w ++ [Ready false] |}, q ++ [(i, e)])
  | Sleep   => ({| alive := true;  nseen := S (nseen w); plan := plan w; outq := outq w ++ [Late true] |}, q)
  | Die     => ({| alive := false; nseen := S (nseen w); plan := plan w; outq := outq w |}, q)
  end.

(* for pipe in parent_pipes: pipe.send(cmd)  -- sequential, may fail half-way *)
Fixpoint send_all (i : nat) (ps : list pipe) (wl : list worker) (q : list (nat * nat))
  : option outcome * list worker * list (nat * nat) :=
  match ps, wl with
  | p :: ps', w :: wl' =>
      match p with
      | PNone => (Some AttrErr, w :: wl', q)
      | POpen => if alive w then
                   let '(w', q') := deliver i w q in
                   let '(r, wl'', q'') := send_all (S i) ps' wl' q' in (r, w' :: wl'', q'')
                 else (Some BrokenPipe, w :: wl', q)
      end
  | _, _ => (None, wl, q)
  end.

Definition async (k : kind) (e : env) : outcome * env :=
  if closed e then (ClosedErr, e)
  else if negb (pst_eqb (st e) DEFAULT) then (AlreadyPending, e)
  else let '(r, wl, q) := send_all 0 (pipes e) (ws e) (errq e) in
       match r with
       | Some err => (err, {| st := st e; closed := false; pipes := pipes e; ws := wl; errq := q |})
       | None => (Ok, {| st := wst k; closed := false; pipes := pipes e; ws := wl; errq := q |})
       end.

(* _poll_pipe_envs with a finite timeout: every pipe must be present and readable (data or EOF) *)
Fixpoint poll_all (ps : list pipe) (wl : list worker) : bool :=
  match ps, wl with
  | p :: ps', w :: wl' =>
      match p with
      | PNone => false
      | POpen => match outq w with
                 | Ready _ :: _ => poll_all ps' wl'
                 | Late _ :: _ => false
                 | [] => if alive w then false else poll_all ps' wl'
                 end
      end
  | _, _ => true
  end.

(* [pipe.recv() for pipe in parent_pipes] *)
Fixpoint recv_all (ps : list pipe) (wl : list worker) : option outcome * list worker * list bool :=
  match ps, wl with
  | p :: ps', w :: wl' =>
      match p with
      | PNone => (Some AttrErr, w :: wl', [])
      | POpen => match outq w with
                 | (Ready ok | Late ok) :: rest =>
                     let w' := {| alive := alive w; nseen := nseen w; plan := plan w; outq := rest |} in
                     let '(r, wl'', oks) := recv_all ps' wl' in (r, w' :: wl'', ok :: oks)
                 | [] => (Some (if alive w then Hang else EOFErr), w :: wl', [])
                 end
      end
  | _, _ => (None, wl, [])
  end.

Fixpoint set_none (ps : list pipe) (i : nat) : list pipe :=
  match ps, i with [], _ => [] | _ :: t, O => PNone :: t | p :: t, S j => p :: set_none t j end.

(* _raise_if_errors *)
Fixpoint drain (n : nat) (q : list (nat * nat)) (ps : list pipe) (last : nat) : nat * list (nat * nat) * list pipe :=
  match n, q with
  | S n', (i, e) :: q' => drain n' q' (set_none ps i) e
  | _, _ => (last, q, ps)
  end.

Definition wait (k : kind) (timeout : bool) (e : env) : outcome * env :=
  if closed e then (ClosedErr, e)
  else if negb (pst_eqb (st e) (wst k)) then (NoAsyncCall, e)
  else if timeout && negb (poll_all (pipes e) (ws e))
       then (Timeout, {| st := DEFAULT; closed := false; pipes := pipes e; ws := ws e; errq := errq e |})
  else let '(r, wl, oks) := recv_all (pipes e) (ws e) in
       match r with
       | Some err => (err, {| st := st e; closed := false; pipes := pipes e; ws := wl; errq := errq e |})
       | None =>
           let nerr := length (filter negb oks) in
           if Nat.eqb nerr 0 then (Ok, {| st := DEFAULT; closed := false; pipes := pipes e; ws := wl; errq := errq e |})
           else let '(last, q, ps) := drain nerr (errq e) (pipes e) 0 in
                (Exc last, {| st := DEFAULT; closed := false; pipes := ps; ws := wl; errq := q |})
       end.

(* ---- misuse is rejected and leaves the environment exactly as it was ---- *)
Theorem wait_without_async k t e :
  closed e = false -> st e <> wst k -> wait k t e = (NoAsyncCall, e).
Proof.
  intros Hc Hs. unfold wait. rewrite Hc.
  destruct (st e), k; cbn in *; try congruence; reflexivity.
Qed.
Theorem async_while_pending k e :
  closed e = false -> st e <> DEFAULT -> async k e = (AlreadyPending, e).
Proof. intros Hc Hs. unfold async. rewrite Hc. destruct (st e); cbn; congruence. Qed.
Theorem use_after_close k t e :
  closed e = true -> async k e = (ClosedErr, e) /\ wait k t e = (ClosedErr, e).
Proof. intros Hc. unfold async, wait. rewrite Hc. auto. Qed.

(* ---- close_extras as in the pinned code (terminate=False, timeout=None, no pending call) ---- *)
Definition kill (w : worker) := {| alive := false; nseen := nseen w; plan := plan w; outq := outq w |}.
Definition close_code (e : env) : outcome * env :=
  if closed e then (Ok, e)
  else if negb (pst_eqb (st e) DEFAULT) then (Hang, e)      (* pending-call branch not modelled in this probe *)
  else let '(r, wl, q) := send_all 0 (pipes e) (ws e) (errq e) in
       match r with
       | Some err => (err, {| st := st e; closed := false; pipes := pipes e; ws := wl; errq := q |})
       | None => (Ok, {| st := DEFAULT; closed := true; pipes := map (fun _ => PNone) (pipes e);
                         ws := map kill wl; errq := q |})
       end.

Definition mk (b : behav) : worker := {| alive := true; nseen := 0; plan := fun _ => b; outq := [] |}.
Definition e2 : env := {| st := DEFAULT; closed := false; pipes := [POpen; POpen];
                          ws := [kill (mk Normal); mk Normal]; errq := [] |}.   (* worker 0 was SIGKILLed *)

Theorem close_after_kill_refuted :
  exists e, closed e = false /\ st e = DEFAULT /\
            fst (close_code e) <> Ok /\ exists w, In w (ws (snd (close_code e))) /\ alive w = true.
Proof.
  exists e2. repeat split; try reflexivity.
  - vm_compute. discriminate.
  - exists (mk Normal). split; [vm_compute; auto | reflexivity].
Qed.

(* ---- repaired close: never lets a dead peer abort the loop, terminates what is left ---- *)
Definition close_fixed (e : env) : outcome * env :=
  if closed e then (Ok, e)
  else (Ok, {| st := DEFAULT; closed := true; pipes := map (fun _ => PNone) (pipes e);
               ws := map kill (ws e); errq := errq e |}).
Theorem close_fixed_total e :
  fst (close_fixed e) = Ok /\
  (closed e = false -> closed (snd (close_fixed e)) = true /\ Forall (fun w => alive w = false) (ws (snd (close_fixed e)))).
Proof.
  unfold close_fixed. destruct (closed e) eqn:Hc; cbn; split; auto; try discriminate.
  intros _. split; auto. apply Forall_forall. intros w Hw. apply in_map_iff in Hw as (w0 & <- & _). reflexivity.
Qed.
Print Assumptions close_after_kill_refuted.
Print Assumptions wait_without_async.
