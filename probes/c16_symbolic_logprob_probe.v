From Coq Require Import List Arith Bool String.
Import ListNotations.

(* symbolic expressions: the model computes FORMULAS, Python evaluates them in float64 *)
Inductive expr :=
| Var (name : string) (i : nat)          (* logit_i, action_i, sampled_i, log_std_i *)
| Add (a b : expr) | Sub (a b : expr) | SumL (l : list expr)
| NormalLogPdf (mu logstd x : expr)      (* log N(x; mu, exp(logstd)) *)
| Log1mSq (x : expr)                     (* log(1 - x^2 + 1e-6) *)
| Tanh (x : expr) | Atanh (x : expr)
| LogSoftmaxAt (logits : list expr) (k : expr).

Definition mu i := Var "logit" i.
Definition ls i := Var "log_std" i.
Definition idx (d : nat) := seq 0 d.

(* state of the distribution object after forward(): the cached pre-squash sample *)
Definition sampled i := Var "sampled" i.

(* ---- the code: TorchDistribution.log_prob for a Box space of dimension d ---- *)
(* pinned code: with squashing the PASSED action is ignored for the Gaussian term *)
Definition code_logprob_box (d : nat) (squash : bool) (action : nat -> expr) : expr :=
  let inner i := if squash then sampled i else action i in
  let base := SumL (map (fun i => NormalLogPdf (mu i) (ls i) (inner i)) (idx d)) in
  if squash then Sub base (SumL (map (fun i => Log1mSq (action i)) (idx d))) else base.

(* repaired code: invert the squashing of the passed action *)
Definition code_logprob_box_fixed (d : nat) (squash : bool) (action : nat -> expr) : expr :=
  let inner i := if squash then Atanh (action i) else action i in
  let base := SumL (map (fun i => NormalLogPdf (mu i) (ls i) (inner i)) (idx d)) in
  if squash then Sub base (SumL (map (fun i => Log1mSq (action i)) (idx d))) else base.

(* ---- the definition: independent components summed, change of variables for tanh ---- *)
Definition spec_logprob_box (d : nat) (squash : bool) (action : nat -> expr) : expr :=
  if squash
  then Sub (SumL (map (fun i => NormalLogPdf (mu i) (ls i) (Atanh (action i))) (idx d)))
           (SumL (map (fun i => Log1mSq (action i)) (idx d)))
  else SumL (map (fun i => NormalLogPdf (mu i) (ls i) (action i)) (idx d)).

(* stored action re-evaluated later: for every dimension, squash setting and action *)
Theorem logprob_is_spec_stored_fixed d squash action :
  code_logprob_box_fixed d squash action = spec_logprob_box d squash action.
Proof. unfold code_logprob_box_fixed, spec_logprob_box. destruct squash; reflexivity. Qed.

(* freshly sampled action a_i = tanh(sampled_i): equal modulo atanh (tanh x) = x *)
Fixpoint simp (e : expr) : expr :=
  match e with
  | Atanh (Tanh x) => simp x
  | Add a b => Add (simp a) (simp b) | Sub a b => Sub (simp a) (simp b)
  | SumL l => SumL (map simp l)
  | NormalLogPdf m s x => NormalLogPdf (simp m) (simp s) (simp x)
  | Log1mSq x => Log1mSq (simp x) | Tanh x => Tanh (simp x) | Atanh x => Atanh (simp x)
  | LogSoftmaxAt l k => LogSoftmaxAt (map simp l) (simp k)
  | Var n i => Var n i
  end.
Theorem logprob_is_spec_fresh d squash :
  simp (code_logprob_box d squash (fun i => Tanh (sampled i)))
  = simp (spec_logprob_box d squash (fun i => if squash then Tanh (sampled i) else Tanh (sampled i))).
Proof.
  unfold code_logprob_box, spec_logprob_box. destruct squash; cbn [simp]; rewrite ?map_map; reflexivity.
Qed.

(* the pinned code on a stored action: the formula does not even mention the action in the
   Gaussian term, so it differs from the definition *)
Theorem squash_reeval_refuted :
  exists d action, code_logprob_box d true action <> spec_logprob_box d true action.
Proof. exists 1, (fun i => Var "action" i). vm_compute. intro H. inversion H. Qed.

(* sum over components, never over the batch: the SumL ranges over idx d of ONE row *)
Theorem sum_over_components d action :
  exists terms, spec_logprob_box d false action = SumL terms /\ List.length terms = d.
Proof. eexists; split; [reflexivity|]. rewrite map_length. apply seq_length. Qed.
