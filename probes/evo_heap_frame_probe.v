From Coq Require Import List Arith Lia.
Import ListNotations.

(* ---------- heap of cells with content identifiers ---------- *)
Definition loc := nat.
Definition cval := nat.                       (* content identifier; equal ids = equal values *)
Definition heap := loc -> cval.
Definition upd (h : heap) (l : loc) (c : cval) : heap := fun x => if Nat.eqb x l then c else h x.

Record agent := { nets : list (list loc);      (* parameter cells per network *)
                  ostate : list (list loc);    (* optimizer state cells per optimizer *)
                  orefs : list (list loc) }.   (* parameter references held by optimizers *)
Definition owned (a : agent) : list loc := concat (nets a) ++ concat (ostate a).

Record world := { next : loc; fresh : cval; hp : heap; pop : list agent }.
Definition all_owned (w : world) := concat (map owned (pop w)).
Definition WF (w : world) : Prop :=
  NoDup (all_owned w) /\ Forall (fun l => l < next w) (all_owned w).

(* ---------- allocation of a copy of a list of cells ---------- *)
Fixpoint copy_cells (h : heap) (n : loc) (ls : list loc) : heap * list loc :=
  match ls with
  | [] => (h, [])
  | l :: ls' => let '(h', out) := copy_cells (upd h n (h l)) (S n) ls' in (h', n :: out)
  end.

Lemma copy_cells_locs h n ls : snd (copy_cells h n ls) = seq n (length ls).
Proof.
  revert h n; induction ls as [|l ls IH]; intros h n; cbn [copy_cells length seq]; auto.
  specialize (IH (upd h n (h l)) (S n)). destruct (copy_cells (upd h n (h l)) (S n) ls) as [h' out]. cbn [snd] in *. rewrite IH. reflexivity.
Qed.

Lemma copy_cells_frame h n ls x : x < n -> fst (copy_cells h n ls) x = h x.
Proof.
  revert h n; induction ls as [|l ls IH]; intros h n Hx; cbn [copy_cells]; auto.
  specialize (IH (upd h n (h l)) (S n) ltac:(lia)). destruct (copy_cells (upd h n (h l)) (S n) ls). cbn in *.
  rewrite IH. unfold upd. destruct (Nat.eqb_spec x n); auto; lia.
Qed.

Lemma copy_cells_content h n ls : Forall (fun l => l < n) ls ->
  map (fst (copy_cells h n ls)) (snd (copy_cells h n ls)) = map h ls.
Proof.
  revert h n; induction ls as [|l ls IH]; intros h n Hall; cbn [copy_cells map]; auto.
  inversion Hall as [|? ? Hl Hls]; subst.
  pose proof (IH (upd h n (h l)) (S n)) as IH'.
  pose proof (copy_cells_frame (upd h n (h l)) (S n) ls n ltac:(lia)) as Hf.
  destruct (copy_cells (upd h n (h l)) (S n) ls) as [h' out]. cbn [fst snd map] in *.
  rewrite Hf. unfold upd at 1. rewrite Nat.eqb_refl. f_equal.
  rewrite IH'.
  - apply map_ext_in. intros x Hx. unfold upd. destruct (Nat.eqb_spec x n); auto.
    rewrite Forall_forall in Hls. specialize (Hls x Hx). lia.
  - eapply Forall_impl; [|exact Hls]. cbn. lia.
Qed.

(* learn on agent a: every owned cell of a gets fresh content; nothing else is written *)
Fixpoint write_all (h : heap) (c : cval) (ls : list loc) : heap :=
  match ls with [] => h | l :: ls' => write_all (upd h l c) (S c) ls' end.

Lemma write_all_frame ls : forall h c x, ~ In x ls -> write_all h c ls x = h x.
Proof.
  induction ls as [|l ls IH]; intros h c x Hx; cbn [write_all]; auto.
  rewrite IH by (intro; apply Hx; right; auto).
  unfold upd. destruct (Nat.eqb_spec x l); auto. subst. exfalso. apply Hx. left; auto.
Qed.

Definition learn (w : world) (i : nat) : world :=
  match nth_error (pop w) i with
  | None => w
  | Some a => {| next := next w; fresh := fresh w + length (owned a);
                 hp := write_all (hp w) (fresh w) (owned a); pop := pop w |}
  end.

Lemma NoDup_app_inv (l l' : list loc) : NoDup (l ++ l') ->
  NoDup l /\ NoDup l' /\ forall x, In x l -> ~ In x l'.
Proof.
  induction l as [|a l IH]; cbn [app]; intros ND.
  - repeat split; auto. constructor.
  - inversion ND as [|? ? Hn ND']; subst. destruct (IH ND') as (N1 & N2 & D).
    repeat split; auto.
    + constructor; auto. intro; apply Hn; apply in_or_app; auto.
    + intros x [->|Hx]; auto. intro; apply Hn; apply in_or_app; auto.
Qed.

Lemma NoDup_concat_disjoint (ls : list (list loc)) : forall i j a b x,
  NoDup (concat ls) -> nth_error ls i = Some a -> nth_error ls j = Some b -> i <> j ->
  In x a -> ~ In x b.
Proof.
  induction ls as [|l ls IH]; intros i j a b x ND Hi Hj Hne Ha Hb.
  - destruct i; discriminate.
  - cbn [concat] in ND. destruct (NoDup_app_inv _ _ ND) as (N1 & N2 & D).
    destruct i as [|i], j as [|j]; cbn [nth_error] in *; try congruence.
    + injection Hi as <-. apply (D x Ha). apply in_concat. exists b. split; auto. eapply nth_error_In; eauto.
    + injection Hj as <-. apply (D x Hb). apply in_concat. exists a. split; auto. eapply nth_error_In; eauto.
    + eapply (IH i j a b x); eauto.
Qed.

(* frame theorem: training agent i leaves every cell of every other agent unchanged *)
Theorem learn_frame w i j b x :
  WF w -> i <> j -> nth_error (pop w) j = Some b -> In x (owned b) ->
  hp (learn w i) x = hp w x.
Proof.
  intros [ND _] Hne Hj Hx. unfold learn.
  destruct (nth_error (pop w) i) as [a|] eqn:Hi; auto. cbn [hp].
  apply write_all_frame. intro Ha.
  unfold all_owned in ND.
  eapply (NoDup_concat_disjoint (map owned (pop w)) j i (owned b) (owned a) x); eauto.
  - rewrite nth_error_map, Hj; reflexivity.
  - rewrite nth_error_map, Hi; reflexivity.
Qed.
Print Assumptions learn_frame.
Print Assumptions copy_cells_content.
