From Coq Require Import List Arith Lia.
Import ListNotations.

(* ---------- heap of cells with content identifiers ---------- *)
Definition loc := nat.
Definition cval := nat.                       (* content identifier; equal ids = equal values *)
Definition heap := loc -> cval.
Definition upd (h : heap) (l : loc) (c : cval) : heap := fun x => if Nat.eqb x l then c else h x.

Record agent := { nets : list (list loc);      (* parameter cells per network *)
                  ostate : list (list loc);    (* optimizer state cells per optimizer *)
                  orefs : list (list loc) }.   (* parameter references held by optimizers *)
Definition owned (a : agent) : list loc := concat (nets a) ++ concat (ostate a).

Record world := { next : loc; fresh : cval; hp : heap; pop : list agent }.
Definition all_owned (w : world) := concat (map owned (pop w)).
Definition WF (w : world) : Prop :=
  NoDup (all_owned w) /\ Forall (fun l => l < next w) (all_owned w).

(* ---------- allocation of a copy of a list of cells ---------- *)
Fixpoint copy_cells (h : heap) (n : loc) (ls : list loc) : heap * list loc :=
  match ls with
  | [] => (h, [])
  | l :: ls' => let '(h', out) := copy_cells (upd h n (h l)) (S n) ls' in (h', n :: out)
  end.

Lemma copy_cells_locs h n ls : snd (copy_cells h n ls) = seq n (length ls).
Proof.
  revert h n; induction ls as [|l ls IH]; intros h n; cbn [copy_cells length seq]; auto.
  specialize (IH (upd h n (h l)) (S n)). destruct (copy_cells (upd h n (h l)) (S n) ls) as [h' out]. cbn [snd] in *. rewrite IH. reflexivity.
Qed.

Lemma copy_cells_frame h n ls x : x < n -> fst (copy_cells h n ls) x = h x.
Proof.
  revert h n; induction ls as [|l ls IH]; intros h n Hx; cbn [copy_cells]; auto.
  specialize (IH (upd h n (h l)) (S n) ltac:(lia)). destruct (copy_cells (upd h n (h l)) (S n) ls). cbn in *.
  rewrite IH. unfold upd. destruct (Nat.eqb_spec x n); auto; lia.
Qed.

Lemma copy_cells_content h n ls : Forall (fun l => l < n) ls ->
  map (fst (copy_cells h n ls)) (snd (copy_cells h n ls)) = map h ls.
Proof.
  revert h n; induction ls as [|l ls IH]; intros h n Hall; cbn [copy_cells map]; auto.
  inversion Hall as [|? ? Hl Hls]; subst.
  pose proof (IH (upd h n (h l)) (S n)) as IH'.
  pose proof (copy_cells_frame (upd h n (h l)) (S n) ls n ltac:(lia)) as Hf.
  destruct (copy_cells (upd h n (h l)) (S n) ls) as [h' out]. cbn [fst snd map] in *.
  rewrite Hf. unfold upd at 1. rewrite Nat.eqb_refl. f_equal.
  rewrite IH'.
  - apply map_ext_in. intros x Hx. unfold upd. destruct (Nat.eqb_spec x n); auto.
    rewrite Forall_forall in Hls. specialize (Hls x Hx). lia.
  - eapply Forall_impl; [|exact Hls]. cbn. lia.
Qed.

(* learn on agent a: every owned cell of a gets fresh content; nothing else is written *)
Fixpoint write_all (h : heap) (c : cval) (ls : list loc) : heap :=
  match ls with [] => h | l :: ls' => write_all (upd h l c) (S c) ls' end.

Lemma write_all_frame ls : forall h c x, ~ In x ls -> write_all h c ls x = h x.
Proof.
  induction ls as [|l ls IH]; intros h c x Hx; cbn [write_all]; auto.
  rewrite IH by (intro; apply Hx; right; auto).
  unfold upd. destruct (Nat.eqb_spec x l); auto. subst. exfalso. apply Hx. left; auto.
Qed.

Definition learn (w : world) (i : nat) : world :=
  match nth_error (pop w) i with
  | None => w
  | Some a => {| next := next w; fresh := fresh w + length (owned a);
                 hp := write_all (hp w) (fresh w) (owned a); pop := pop w |}
  end.

Lemma NoDup_app_inv (l l' : list loc) : NoDup (l ++ l') ->
  NoDup l /\ NoDup l' /\ forall x, In x l -> ~ In x l'.
Proof.
  induction l as [|a l IH]; cbn [app]; intros ND.
  - repeat split; auto. constructor.
  - inversion ND as [|? ? Hn ND']; subst. destruct (IH ND') as (N1 & N2 & D).
    repeat split; auto.
    + constructor; auto. intro; apply Hn; apply in_or_app; auto.
    + intros x [->|Hx]; auto. intro; apply Hn; apply in_or_app; auto.
Qed.

Lemma NoDup_concat_disjoint (ls : list (list loc)) : forall i j a b x,
  NoDup (concat ls) -> nth_error ls i = Some a -> nth_error ls j = Some b -> i <> j ->
  In x a -> ~ In x b.
Proof.
  induction ls as [|l ls IH]; intros i j a b x ND Hi Hj Hne Ha Hb.
  - destruct i; discriminate.
  - cbn [concat] in ND. destruct (NoDup_app_inv _ _ ND) as (N1 & N2 & D).
    destruct i as [|i], j as [|j]; cbn [nth_error] in *; try congruence.
    + injection Hi as <-. apply (D x Ha). apply in_concat. exists b. split; auto. eapply nth_error_In; eauto.
    + injection Hj as <-. apply (D x Hb). apply in_concat. exists a. split; auto. eapply nth_error_In; eauto.
    + eapply (IH i j a b x); eauto.
Qed.

(* frame theorem: training agent i leaves every cell of every other agent unchanged *)
Theorem learn_frame w i j b x :
  WF w -> i <> j -> nth_error (pop w) j = Some b -> In x (owned b) ->
  hp (learn w i) x = hp w x.
Proof.
  intros [ND _] Hne Hj Hx. unfold learn.
  destruct (nth_error (pop w) i) as [a|] eqn:Hi; auto. cbn [hp].
  apply write_all_frame. intro Ha.
  unfold all_owned in ND.
  eapply (NoDup_concat_disjoint (map owned (pop w)) j i (owned b) (owned a) x); eauto.
  - rewrite nth_error_map, Hj; reflexivity.
  - rewrite nth_error_map, Hi; reflexivity.
Qed.
Print Assumptions learn_frame.
Print Assumptions copy_cells_content.

(* ---------- cloning a whole agent: every cell list is copied into fresh cells ---------- *)
Fixpoint copy_lists (h : heap) (n : loc) (lss : list (list loc)) : heap * loc * list (list loc) :=
  match lss with
  | [] => (h, n, [])
  | ls :: rest =>
      let '(h1, out) := copy_cells h n ls in
      let '(h2, n2, outs) := copy_lists h1 (n + length ls) rest in
      (h2, n2, out :: outs)
  end.

Lemma copy_lists_locs : forall lss h n,
  concat (snd (copy_lists h n lss)) = seq n (length (concat lss)) /\
  snd (fst (copy_lists h n lss)) = n + length (concat lss).
Proof.
  induction lss as [|ls rest IH]; intros h n; cbn [copy_lists concat length].
  - cbn. split; auto.
  - pose proof (copy_cells_locs h n ls) as Hl.
    destruct (copy_cells h n ls) as [h1 out] eqn:E1. cbn [snd] in Hl.
    specialize (IH h1 (n + length ls)).
    destruct (copy_lists h1 (n + length ls) rest) as [[h2 n2] outs]. cbn [fst snd concat] in *.
    destruct IH as [I1 I2]. rewrite app_length, seq_app, Hl, I1. split; [reflexivity|lia].
Qed.

Lemma copy_lists_frame : forall lss h n x, x < n -> fst (fst (copy_lists h n lss)) x = h x.
Proof.
  induction lss as [|ls rest IH]; intros h n x Hx; cbn [copy_lists]; auto.
  pose proof (copy_cells_frame h n ls x Hx) as Hf.
  destruct (copy_cells h n ls) as [h1 out]. cbn [fst] in Hf.
  specialize (IH h1 (n + length ls) x ltac:(lia)).
  destruct (copy_lists h1 (n + length ls) rest) as [[h2 n2] outs]. cbn [fst] in *. congruence.
Qed.

(* clone with the REPAIRED semantics: networks and optimizer state are both copied *)
Definition clone_agent (h : heap) (n : loc) (a : agent) : heap * loc * agent :=
  let '(h1, n1, nets') := copy_lists h n (nets a) in
  let '(h2, n2, st') := copy_lists h1 n1 (ostate a) in
  (h2, n2, {| nets := nets'; ostate := st'; orefs := nets' |}).

(* clone with the PINNED semantics: optimizer.load_state_dict aliases the state tensors *)
Definition clone_agent_code (h : heap) (n : loc) (a : agent) : heap * loc * agent :=
  let '(h1, n1, nets') := copy_lists h n (nets a) in
  (h1, n1, {| nets := nets'; ostate := ostate a; orefs := nets' |}).

Definition clone_into (w : world) (i : nat) (cl : heap -> loc -> agent -> heap * loc * agent) : world :=
  match nth_error (pop w) i with
  | None => w
  | Some a => let '(h', n', a') := cl (hp w) (next w) a in
              {| next := n'; fresh := fresh w; hp := h'; pop := pop w ++ [a'] |}
  end.

Lemma owned_clone h n a :
  owned (snd (clone_agent h n a)) = seq n (length (owned a)).
Proof.
  unfold clone_agent, owned.
  pose proof (copy_lists_locs (nets a) h n) as [L1 N1].
  destruct (copy_lists h n (nets a)) as [[h1 n1] nets'] eqn:E1. cbn [fst snd] in L1, N1.
  pose proof (copy_lists_locs (ostate a) h1 n1) as [L2 N2].
  destruct (copy_lists h1 n1 (ostate a)) as [[h2 n2] st']. cbn [fst snd nets ostate] in *.
  rewrite L1, L2, N1, app_length, seq_app. reflexivity.
Qed.

Lemma NoDup_app_intro (l l' : list loc) :
  NoDup l -> NoDup l' -> (forall x, In x l -> ~ In x l') -> NoDup (l ++ l').
Proof.
  induction l as [|a l IH]; intros N1 N2 D; cbn [app]; auto.
  inversion N1; subst. constructor.
  - intro Hin. apply in_app_or in Hin as [Hin|Hin]; auto. apply (D a); [left|]; auto.
  - apply IH; auto. intros x Hx. apply D. right; auto.
Qed.

(* the repaired clone keeps the population separated: every reachable population is separated *)
Theorem clone_preserves_WF w i : WF w -> WF (clone_into w i clone_agent).
Proof.
  intros [ND LT]. unfold clone_into. destruct (nth_error (pop w) i) as [a|] eqn:Hi; [|split; auto].
  pose proof (owned_clone (hp w) (next w) a) as Ho.
  assert (Hn : snd (fst (clone_agent (hp w) (next w) a)) = next w + length (owned a)).
  { unfold clone_agent, owned.
    pose proof (copy_lists_locs (nets a) (hp w) (next w)) as [_ N1].
    destruct (copy_lists (hp w) (next w) (nets a)) as [[h1 n1] nets']. cbn [fst snd] in N1.
    pose proof (copy_lists_locs (ostate a) h1 n1) as [_ N2].
    destruct (copy_lists h1 n1 (ostate a)) as [[h2 n2] st']. cbn [fst snd] in *.
    rewrite app_length. lia. }
  destruct (clone_agent (hp w) (next w) a) as [[h' n'] a']. cbn [fst snd] in *.
  unfold WF, all_owned in *. cbn [pop next]. rewrite map_app, concat_app. cbn [map concat].
  rewrite app_nil_r, Ho. split.
  - apply NoDup_app_intro; auto.
    + apply seq_NoDup.
    + intros x Hx Hs. apply in_seq in Hs. rewrite Forall_forall in LT. specialize (LT x Hx). lia.
  - apply Forall_app. split.
    + eapply Forall_impl; [|exact LT]. cbn. intros; lia.
    + apply Forall_forall. intros x Hx. apply in_seq in Hx. lia.
Qed.

(* the pinned clone does not: parent and clone share the optimizer state cells *)
Definition w0 : world := {| next := 3; fresh := 10; hp := fun _ => 0;
                            pop := [ {| nets := [[0; 1]]; ostate := [[2]]; orefs := [[0; 1]] |} ] |}.
Theorem clone_code_breaks_separation :
  exists w i, WF w /\ ~ NoDup (all_owned (clone_into w i clone_agent_code)).
Proof.
  exists w0, 0. split.
  - split; cbn; repeat constructor; cbn; intuition lia.
  - vm_compute. intro H.
    repeat match goal with H : NoDup (_ :: _) |- _ => inversion H; clear H; subst end.
    cbn in *. intuition.
Qed.
Print Assumptions clone_preserves_WF.
Print Assumptions clone_code_breaks_separation.
