From Coq Require Import Arith Lia List.
Import ListNotations.

(* generation loop of the train_* functions, accounting only:
   while all(steps < max): every agent += S; fitness += 1; steps.append(steps[-1]) *)
Fixpoint run (fuel S mx steps gens : nat) : option (nat * nat) :=
  if steps <? mx then
    match fuel with
    | O => None                                           (* out of fuel: excluded by the theorems *)
    | S f => run f S mx (steps + S) (gens + 1)
    end
  else Some (steps, gens).

Lemma run_spec S mx : 0 < S -> forall fuel steps gens,
  steps = gens * S -> mx <= fuel + steps ->
  (gens = 0 \/ (gens - 1) * S < mx) ->
  exists st g, run fuel S mx steps gens = Some (st, g) /\
               st = g * S /\ mx <= st /\ (g = 0 \/ (g - 1) * S < mx) /\ gens <= g.
Proof.
  intros HS. induction fuel as [|f IH]; intros steps gens E F P;
  cbn [run]; destruct (Nat.ltb_spec steps mx) as [Hlt|Hge]; try lia.
  - exists steps, gens. repeat split; auto.
  - destruct (IH (steps + S) (gens + 1)) as (st & g & R & A & B & C & D).
    + subst. lia.
    + lia.
    + right. replace (gens + 1 - 1) with gens by lia. lia.
    + exists st, g. repeat split; auto; lia.
  - exists steps, gens. repeat split; auto. 
Qed.

(* training stops in the FIRST generation in which the budget is met; every agent's counter is
   (number of generations) x (steps per generation); one fitness entry per generation *)
Theorem terminates_at S mx : 0 < S ->
  exists G, run (mx + 1) S mx 0 0 = Some (G * S, G) /\ mx <= G * S /\ (G = 0 \/ (G - 1) * S < mx).
Proof.
  intros HS. destruct (run_spec S mx HS (mx + 1) 0 0) as (st & g & R & A & B & C & _); try lia.
  exists g. subst st. auto.
Qed.

(* S = 0 (evo_steps < num_envs in the off-policy loop): no progress, the loop never ends *)
Theorem no_progress_never_terminates mx : 0 < mx -> forall fuel gens, run fuel 0 mx 0 gens = None.
Proof.
  intros H. induction fuel as [|f IH]; intros gens; cbn [run];
  destruct (Nat.ltb_spec 0 mx); try lia; auto.
Qed.
Print Assumptions terminates_at.
