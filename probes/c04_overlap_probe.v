From Coq Require Import List ZArith Lia.
Import ListNotations.

Inductive tensor := Sc (z : Z) | Dim (l : list tensor).

(* nested induction principle *)
Fixpoint tensor_ind' (P : tensor -> Prop) (Hs : forall z, P (Sc z))
  (Hd : forall l, Forall P l -> P (Dim l)) (t : tensor) : P t :=
  match t with
  | Sc z => Hs z
  | Dim l => Hd l ((fix go (l : list tensor) : Forall P l :=
                      match l with [] => Forall_nil P | x :: xs => Forall_cons x (tensor_ind' P Hs Hd x) (go xs) end) l)
  end.

(* multi-index lookup *)
Fixpoint get (t : tensor) (ix : list nat) : option Z :=
  match t, ix with
  | Sc z, [] => Some z
  | Dim l, i :: ix' => match nth_error l i with Some t' => get t' ix' | None => None end
  | _, _ => None
  end.

(* copy the overlapping slice of old into new (preserve_parameters for differing shapes) *)
Fixpoint overlap (o n : tensor) : tensor :=
  match o, n with
  | Sc a, Sc _ => Sc a
  | Dim lo, Dim ln =>
      Dim ((fix zip (lo ln : list tensor) : list tensor :=
              match lo, ln with
              | a :: lo', b :: ln' => overlap a b :: zip lo' ln'
              | _, ln => ln          (* old exhausted: keep the fresh entries; new exhausted: [] = ln *)
              end) lo ln)
  | _, n => n
  end.

Fixpoint zipo (lo ln : list tensor) : list tensor :=
  match lo, ln with
  | a :: lo', b :: ln' => overlap a b :: zipo lo' ln'
  | _, ln => ln
  end.
Lemma overlap_dim lo ln : overlap (Dim lo) (Dim ln) = Dim (zipo lo ln).
Proof. reflexivity. Qed.

Lemma zipo_nth lo : forall ln i,
  nth_error (zipo lo ln) i =
    match nth_error lo i, nth_error ln i with
    | Some a, Some b => Some (overlap a b)
    | _, r => r
    end.
Proof.
  induction lo as [|a lo IH]; intros ln i.
  - cbn [zipo]. assert (E : nth_error (@nil tensor) i = None) by (destruct i; reflexivity). rewrite E. reflexivity.
  - destruct ln as [|b ln].
    + cbn [zipo]. destruct i; cbn [nth_error]; [reflexivity|]. destruct (nth_error lo i); reflexivity.
    + cbn [zipo]. destruct i as [|i]; cbn [nth_error]; [reflexivity|]. apply IH.
Qed.

(* index inside both tensors: value comes from old; inside new only: value stays new's *)
Theorem overlap_spec : forall o n ix,
  match get o ix, get n ix with
  | Some a, Some _ => get (overlap o n) ix = Some a
  | None, r => True
  | Some _, None => True
  end.
Proof.
  induction o as [a|lo IH] using tensor_ind'; intros n ix.
  - destruct n, ix; cbn; auto.
  - destruct n as [b|ln].
    + destruct ix; cbn; auto. destruct (nth_error lo n); auto. destruct (get t ix); auto.
    + rewrite overlap_dim. destruct ix as [|i ix]; cbn [get]; auto.
      rewrite zipo_nth.
      destruct (nth_error lo i) as [a|] eqn:Ha; auto.
      destruct (nth_error ln i) as [b|] eqn:Hb.
      * rewrite Forall_forall in IH. specialize (IH a (nth_error_In _ _ Ha) b ix). exact IH.
      * destruct (get a ix); auto.
Qed.
Print Assumptions overlap_spec.
