From Coq Require Import List Arith Lia ZArith Bool.
Import ListNotations.

(* a tensor = shape + row-major data *)
Record tz := { shp : list nat; dat : list Z }.
Definition prod (l : list nat) := fold_right Nat.mul 1 l.

Definition squeeze_all (t : tz) : tz := {| shp := filter (fun d => negb (d =? 1)) (shp t); dat := dat t |}.
Definition unsqueeze0 (t : tz) : tz := {| shp := 1 :: shp t; dat := dat t |}.
Definition view_rows (t : tz) (space_shape : list nat) : tz :=
  {| shp := (length (dat t) / prod space_shape) :: space_shape; dat := dat t |}.

Fixpoint one_hot_row (n : nat) (k : Z) (i : nat) : list Z :=
  match n with O => [] | S n' => (if Z.eqb k (Z.of_nat i) then 1%Z else 0%Z) :: one_hot_row n' k (S i) end.
Definition one_hot (n : nat) (t : tz) : tz :=
  {| shp := shp t ++ [n]; dat := flat_map (fun k => one_hot_row n k 0) (dat t) |}.

Inductive res := OK (t : tz) | Err.
(* maybe_add_batch_dim *)
Definition add_batch_dim (t : tz) (space_shape : list nat) : res :=
  let r := length (shp t) in let s := length space_shape in
  if r =? s then OK (unsqueeze0 t)
  else if r =? s + 2 then OK (view_rows t space_shape)
  else if r =? s + 1 then OK t else Err.

(* preprocess_observation for Discrete(n) *)
Definition prep_discrete (n : nat) (t : tz) : res :=
  let o := one_hot n t in
  let o := if 1 <? n then squeeze_all o else o in
  add_batch_dim o [n].

(* rows of a prepared batch *)
Fixpoint chunks (k : nat) (fuel : nat) (l : list Z) : list (list Z) :=
  match fuel with O => [] | S f => match l with [] => [] | _ => firstn k l :: chunks k f (skipn k l) end end.
Definition rows (r : res) : option (list (list Z)) :=
  match r with OK t => match shp t with _ :: rest => Some (chunks (prod rest) (length (dat t)) (dat t)) | [] => None end | Err => None end.

(* property: preparing a batch = preparing each element (as a scalar observation) *)
Definition single (n : nat) (k : Z) : option (list Z) :=
  match rows (prep_discrete n {| shp := []; dat := [k] |}) with Some [r] => Some r | _ => None end.
Definition rowwise_ok (n : nat) (t : tz) : bool :=
  match rows (prep_discrete n t) with
  | Some rs => (length rs =? length (dat t)) &&
               forallb (fun '(r, k) => match single n k with Some r' => if list_eq_dec Z.eq_dec r r' then true else false | None => false end)
                       (combine rs (dat t))
  | None => false
  end.

Definition shapes_for (b : nat) : list (list nat) := [[b]; [b;1]; [1;b]; [b;1;1]].
Definition grid : list (nat * tz) :=
  flat_map (fun n => flat_map (fun b => map (fun s => (n, {| shp := s; dat := map Z.of_nat (map (fun i => i mod n) (seq 0 b)) |})) (shapes_for b)) [1;2;3;4])
           [1;2;3;5].
Eval vm_compute in (length grid, filter (fun '(n,t) => negb (rowwise_ok n t)) grid).
(* (T,E)-shaped inputs *)
Definition grid2 : list (nat * tz) :=
  flat_map (fun n => flat_map (fun T => map (fun E => (n, {| shp := [T;E]; dat := map Z.of_nat (map (fun i => i mod n) (seq 0 (T*E))) |})) [1;2;3]) [1;2;3]) [1;2;3].
Eval vm_compute in (length grid2, map (fun '(n,t) => (n, shp t)) (filter (fun '(n,t) => negb (rowwise_ok n t)) grid2)).
