From Coq Require Import List QArith Lqa.
Import ListNotations.
Local Open Scope Q_scope.

Definition bellman (r g d q : Q) : Q := r + g * q * (1 - d).
Theorem done_masks_next r g q q' : bellman r g 1 q == bellman r g 1 q'.
Proof. unfold bellman. ring. Qed.
Theorem done_target_is_reward r g q : bellman r g 1 q == r.
Proof. unfold bellman. ring. Qed.

(* soft update over the zipped (online, target) cells, as the code iterates *)
Fixpoint soft (tau : Q) (online target : list Q) : list Q :=
  match online, target with
  | e :: es, t :: ts => (tau * e + (1 - tau) * t) :: soft tau es ts
  | _, _ => []                                   (* zip stops at the shorter list *)
  end.
Theorem soft_update_spec tau : forall online target i e t,
  length online = length target ->
  nth_error online i = Some e -> nth_error target i = Some t ->
  nth_error (soft tau online target) i = Some (tau * e + (1 - tau) * t).
Proof.
  induction online as [|e0 es IH]; intros target i e t L He Ht; [destruct i; discriminate|].
  destruct target as [|t0 ts]; [discriminate|]. destruct i as [|i]; cbn in *.
  - injection He as <-. injection Ht as <-. reflexivity.
  - apply IH; auto.
Qed.
(* the DQN situation of the pinned tree: the target exposes no parameters, the zip is empty *)
Theorem soft_update_vacuous tau online : soft tau online [] = [].
Proof. destruct online; reflexivity. Qed.
(* tau = 1 copies the online network *)
Theorem soft_tau_one : forall online target, length online = length target ->
  Forall2 Qeq (soft 1 online target) online.
Proof.
  induction online as [|e es IH]; intros [|t ts] L; try discriminate; cbn; constructor.
  - ring.
  - apply IH. cbn in L. congruence.
Qed.
