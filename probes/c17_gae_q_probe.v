From Coq Require Import QArith Qround List ZArith Lia.
Import ListNotations.
Open Scope Q_scope.
(* GAE backward recursion over Q *)
Fixpoint gae (g l : Q) (rs vs ds : list Q) (nv nd : Q) : list Q * Q * Q :=
  (* returns (advs, next value seen, next done seen) ; rs vs ds aligned; ds = d_t *)
  match rs, vs, ds with
  | r :: rs', v :: vs', d :: ds' =>
      let '(advs, v1, d1) := gae g l rs' vs' ds' nv nd in
      let last := match advs with a :: _ => a | [] => 0 end in
      let nnt := 1 - d1 in
      let delta := r + g * v1 * nnt - v in
      (Qred (delta + g * l * nnt * last) :: advs, v, d)
  | _, _, _ => ([], nv, nd)
  end.
Eval vm_compute in (gae (99#100) (95#100) [1;2;3;4;5;6;7;8] [1#2;1#3;1#4;1#5;1#6;1#7;1#8;1#9] [0;0;0;1;0;0;0;0] (1#3) 0).
Eval vm_compute in (Qfloor (7#2), Qceiling (7#2)).
