From Coq Require Import ZArith QArith Qround Lia Lqa Bool.
Local Open Scope Q_scope.

(* RLParameter.mutate, branch by branch; grow? is the coin; int dtype casts by truncation *)
Definition qmax (a b : Q) : Q := if Qlt_le_dec a b then b else a.   (* Python max(a, b): b if b > a *)
Definition qmin (a b : Q) : Q := if Qlt_le_dec b a then b else a.   (* Python min(a, b): b if b < a *)
Definition mutate_value (mn mx shrink grow : Q) (coin_grow : bool) (v : Q) : Q :=
  let nv := if coin_grow
            then (if Qlt_le_dec (v * grow) mx then v * grow else mx)
            else (if Qlt_le_dec mn (v * shrink) then v * shrink else mn) in
  qmin (qmax nv mn) mx.
Definition qtrunc (x : Q) : Z := if Qlt_le_dec x 0 then Qceiling x else Qfloor x.   (* int(x) *)

Theorem mutate_in_range mn mx s g c v : mn <= mx ->
  mn <= mutate_value mn mx s g c v <= mx.
Proof.
  intros H. unfold mutate_value, qmin, qmax.
  repeat match goal with |- context [Qlt_le_dec ?a ?b] => destruct (Qlt_le_dec a b) end; lra.
Qed.

Theorem mutate_is_scaled_clip mn mx s g (c : bool) v : mn <= mx ->
  mutate_value mn mx s g c v == qmin (qmax (v * (if c then g else s)) mn) mx.
Proof.
  intros H. unfold mutate_value, qmin, qmax. destruct c.
  - set (p := v * g). clearbody p.
    repeat match goal with
    | |- context [Qlt_le_dec ?a ?b] => destruct (Qlt_le_dec a b)
    | H0 : context [Qlt_le_dec ?a ?b] |- _ => destruct (Qlt_le_dec a b)
    end; lra.
  - set (p := v * s). clearbody p.
    repeat match goal with
    | |- context [Qlt_le_dec ?a ?b] => destruct (Qlt_le_dec a b)
    | H0 : context [Qlt_le_dec ?a ?b] |- _ => destruct (Qlt_le_dec a b)
    end; lra.
Qed.

(* integer dtype with integer bounds: the truncated value is still in range *)
Theorem int_cast_in_range (mn mx : Z) (x : Q) :
  inject_Z mn <= x <= inject_Z mx -> (mn <= qtrunc x <= mx)%Z.
Proof.
  intros [H1 H2]. unfold qtrunc. destruct (Qlt_le_dec x 0).
  - split.
    + apply Qceiling_resp_le in H1. rewrite Qceiling_Z in H1. exact H1.
    + pose proof (Qceiling_lt x). assert (inject_Z (Qceiling x - 1) < inject_Z mx) by lra.
      rewrite <- Zlt_Qlt in H0. lia.
  - split.
    + pose proof (Qlt_floor x). assert (inject_Z mn < inject_Z (Qfloor x + 1)) by lra.
      rewrite <- Zlt_Qlt in H0. lia.
    + apply Qfloor_resp_le in H2. rewrite Qfloor_Z in H2. exact H2.
Qed.
(* the integer-bounds hypothesis is needed: min = 3/2, x = 8/5 truncates below the minimum *)
Example int_cast_refuted_for_fractional_min : inject_Z (qtrunc (8#5)) < 3#2.
Proof. vm_compute. reflexivity. Qed.
Print Assumptions mutate_in_range.
