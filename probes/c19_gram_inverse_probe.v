From mathcomp Require Import all_ssreflect all_algebra.
Set Implicit Arguments.
Unset Strict Implicit.
Unset Printing Implicit Defensive.
Import Order.Theory GRing.Theory Num.Theory.
Local Open Scope ring_scope.

Section SM.
Variable F : realFieldType.
Variable n : nat.
Variable lam : F.
Hypothesis lam_gt0 : 0 < lam.
Implicit Types (A S : 'M[F]_n) (v x : 'cV[F]_n).

Definition quad S v : F := (v^T *m S *m v) 0 0.
Definition sm_update S v : 'M[F]_n :=
  S - (1 + quad S v)^-1 *: (S *m v *m v^T *m S).

Lemma quad_scalar S v : v^T *m S *m v = (quad S v)%:M.
Proof. by rewrite [LHS]mx11_scalar. Qed.

Lemma sherman_morrison A S v :
  A *m S = 1%:M -> 1 + quad S v != 0 ->
  (A + v *m v^T) *m sm_update S v = 1%:M.
Proof.
move=> AS nz; rewrite /sm_update.
set c := quad S v. set k := (1 + c)^-1.
pose P := v *m v^T *m S.
have E1 : A *m (S *m v *m v^T *m S) = P by rewrite !mulmxA AS mul1mx.
have E2 : v *m v^T *m (S *m v *m v^T *m S) = c *: P.
  have -> : v *m v^T *m (S *m v *m v^T *m S) = v *m (v^T *m S *m v) *m (v^T *m S).
    by rewrite !mulmxA.
  by rewrite quad_scalar -/c mul_mx_scalar -scalemxAl /P mulmxA.
rewrite mulmxBr -scalemxAr mulmxDl AS mulmxDl E1 E2 -/P.
rewrite scalerDr scalerA opprD addrA.
rewrite -[1%:M + P - _]addrA -[_ + (P - _) - _]addrA.
have -> : P - k *: P - (k * c) *: P = (1 - k - k * c) *: P.
  by rewrite !scalerBl scale1r.
have -> : 1 - k - k * c = 0.
  by rewrite -addrA -opprD -{1}[k]mulr1 -mulrDr /k mulVf // subrr.
by rewrite scale0r addr0.
Qed.

Fixpoint gram (vs : seq 'cV[F]_n) : 'M[F]_n :=
  if vs is v :: vs' then gram vs' + v *m v^T else lam%:M.
Fixpoint sinv (vs : seq 'cV[F]_n) : 'M[F]_n :=
  if vs is v :: vs' then sm_update (sinv vs') v else (lam^-1)%:M.

Lemma sq_ge0 m (x : 'cV[F]_m) : 0 <= (x^T *m x) 0 0.
Proof.
rewrite mxE; apply: sumr_ge0 => i _; rewrite mxE; exact: sqr_ge0.
Qed.

Lemma quad_gram_ge0 vs x : 0 <= quad (gram vs) x.
Proof.
rewrite /quad; elim: vs => [|v vs IH] /=.
  by rewrite mul_mx_scalar -scalemxAl mxE mulr_ge0 ?sq_ge0 // ltW.
rewrite mulmxDr mulmxDl mxE addr_ge0 //.
have -> : x^T *m (v *m v^T) *m x = (v^T *m x)^T *m (v^T *m x).
  by rewrite trmx_mul trmxK !mulmxA.
exact: sq_ge0.
Qed.

Theorem gram_inverse vs :
  [/\ gram vs *m sinv vs = 1%:M, (sinv vs)^T = sinv vs & forall x, 0 <= quad (sinv vs) x].
Proof.
elim: vs => [|v vs [IH1 IH2 IH3]] /=.
  split.
  - by rewrite -scalar_mxM mulfV // gt_eqF.
  - by rewrite tr_scalar_mx.
  - by move=> x; rewrite /quad mul_mx_scalar -scalemxAl mxE mulr_ge0 ?sq_ge0 // invr_ge0 ltW.
have nz : 1 + quad (sinv vs) v != 0.
  by rewrite gt_eqF // ltr_paddr ?ltr01 ?IH3.
have H1 := sherman_morrison IH1 nz.
have Hsym : (sm_update (sinv vs) v)^T = sm_update (sinv vs) v.
  rewrite /sm_update linearB /= linearZ /= !trmx_mul trmxK IH2.
  by rewrite !mulmxA.
split=> // x.
(* x^T S' x = (S' x)^T G' (S' x) *)
set S' := sm_update (sinv vs) v. set G' := gram vs + v *m v^T.
have H2 : S' *m G' = 1%:M by apply: mulmx1C.
have -> : quad S' x = quad (gram (v :: vs)) (S' *m x).
  rewrite /quad /= -/G' trmx_mul Hsym.
  have -> : x^T *m S' *m G' *m (S' *m x) = x^T *m (S' *m G') *m S' *m x by rewrite !mulmxA.
  by rewrite H2 mulmx1.
exact: quad_gram_ge0.
Qed.
End SM.
Print Assumptions gram_inverse.
