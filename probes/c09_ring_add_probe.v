From Coq Require Import List Arith Lia ZArith.
Import ListNotations.

Lemma modc cap cur i : cur < cap -> i < cap ->
  (i + cap - cur) mod cap = if i <? cur then i + cap - cur else i - cur.
Proof.
  intros Hc Hi. destruct (Nat.ltb_spec i cur).
  - apply Nat.mod_small; lia.
  - replace (i + cap - cur) with ((i - cur) + 1 * cap) by lia.
    rewrite Nat.mod_add by lia. apply Nat.mod_small; lia.
Qed.

Section RB.
Variable A : Type.
Variable dflt : A.
Notation nth' i l := (nth i l dflt).

Lemma nth_firstn_lt (l : list A) : forall n i, i < n -> nth' i (firstn n l) = nth' i l.
Proof. induction l as [|a l IH]; intros [|n] [|i] H; cbn; auto; try lia. apply IH; lia. Qed.
Lemma nth_skipn' (l : list A) : forall n i, nth' i (skipn n l) = nth' (n + i) l.
Proof. induction l as [|a l IH]; intros [|n] i; cbn; auto. destruct i; auto. Qed.

(* the code: one slice, or two slices when the batch crosses the end of the storage *)
Definition add_batch (cap cur : nat) (l xs : list A) : list A :=
  let n := length xs in
  let e := cur + n in
  if cap <? e then
    let k := cap - cur in
    let l1 := firstn cur l ++ firstn k xs in          (* storage[start:] = data[:k]     *)
    skipn k xs ++ skipn (n - k) l1                    (* storage[:n-k]   = data[k:]     *)
  else firstn cur l ++ xs ++ skipn e l.               (* storage[start:end] = data      *)

Definition next_cursor (cap cur n : nat) := (cur + n) mod cap.
Definition next_size (cap size n : nat) := Nat.min (size + n) cap.

Lemma add_batch_length cap cur l xs :
  length l = cap -> cur < cap -> length xs <= cap -> length (add_batch cap cur l xs) = cap.
Proof.
  intros Hl Hc Hn. unfold add_batch.
  destruct (Nat.ltb_spec cap (cur + length xs)).
  - rewrite !app_length, !skipn_length, !app_length, !firstn_length. lia.
  - rewrite !app_length, skipn_length, firstn_length. lia.
Qed.

(* position-wise characterisation: slot i holds batch element (i - cur) mod cap if that is < n *)
Ltac len := rewrite ?app_length, ?skipn_length, ?firstn_length in *.
Ltac step := first
  [ rewrite app_nth1 by (len; lia)
  | rewrite app_nth2 by (len; lia)
  | rewrite nth_skipn'
  | rewrite nth_firstn_lt by (len; lia) ].

Theorem add_batch_nth cap cur l xs i :
  length l = cap -> cur < cap -> length xs <= cap -> i < cap ->
  nth' i (add_batch cap cur l xs) =
    let j := (i + cap - cur) mod cap in
    if j <? length xs then nth' j xs else nth' i l.
Proof.
  intros Hl Hc Hn Hi. cbv zeta. rewrite (modc cap cur i Hc Hi). unfold add_batch.
  remember (length xs) as n eqn:En.
  destruct (Nat.ltb_spec i cur) as [Hic|Hic];
  match goal with |- context [?a <? n] => destruct (Nat.ltb_spec a n) end;
  destruct (Nat.ltb_spec cap (cur + n));
  repeat step; len; try lia; try reflexivity; f_equal; lia.
Qed.
End RB.
Print Assumptions add_batch_nth.
