From Coq Require Import List ZArith QArith Lia Lqa Bool.
Import ListNotations.
Local Open Scope Q_scope.

(* one environment; a raw transition: step id (identifies obs/action/next_obs), reward, done *)
Record tr := { sid : nat; rw : Q; dn : bool }.
(* fused record: first step id, n-step reward, step id whose next_obs/done were taken, done flag *)
Record fused := { f_first : nat; f_rew : Q; f_last : nat; f_done : bool }.

(* the loop over window[1:] of _get_n_step_info: accumulate gamma^i * r_i, overwrite next/done, break on done *)
Fixpoint accum (g : Q) (gi : Q) (acc : fused) (rest : list tr) : fused :=
  match rest with
  | [] => acc
  | t :: rest' =>
      let acc' := {| f_first := f_first acc; f_rew := f_rew acc + rw t * gi;
                     f_last := sid t; f_done := dn t |} in
      if dn t then acc' else accum g (gi * g) acc' rest'
  end.

Definition start (t : tr) : fused := {| f_first := sid t; f_rew := rw t; f_last := sid t; f_done := dn t |}.

(* faithful to the pinned code: the first transition's done flag is never inspected *)
Definition fuse_code (g : Q) (w : list tr) : option fused :=
  match w with [] => None | t :: rest => Some (accum g g (start t) rest) end.

(* repaired: a window that starts on a terminal step is not extended *)
Definition fuse_fixed (g : Q) (w : list tr) : option fused :=
  match w with [] => None | t :: rest => Some (if dn t then start t else accum g g (start t) rest) end.

(* specification: sum gamma^i r_i over the prefix that ends at the first done (inclusive) *)
Fixpoint spec_from (g : Q) (gi : Q) (w : list tr) : option (Q * nat * bool) :=
  match w with
  | [] => None
  | t :: rest =>
      if dn t then Some (rw t * gi, sid t, true)
      else match spec_from g (gi * g) rest with
           | None => Some (rw t * gi, sid t, false)
           | Some (r, l, d) => Some (rw t * gi + r, l, d)
           end
  end.

Definition spec (g : Q) (w : list tr) : option (Q * nat * bool) :=
  match w with
  | [] => None
  | t :: rest =>
      if dn t then Some (rw t, sid t, true)
      else match spec_from g g rest with
           | None => Some (rw t, sid t, false)
           | Some (r, l, d) => Some (rw t + r, l, d)
           end
  end.

Definition agrees (f : fused) (s : Q * nat * bool) : Prop :=
  let '(r, l, d) := s in f_rew f == r /\ f_last f = l /\ f_done f = d.

Lemma accum_spec g : forall rest gi acc,
  f_done acc = false ->
  match spec_from g gi rest with
  | None => accum g gi acc rest = acc
  | Some (r, l, d) => let f := accum g gi acc rest in
                      f_rew f == f_rew acc + r /\ f_last f = l /\ f_done f = d /\ f_first f = f_first acc
  end.
Proof.
  induction rest as [|t rest IH]; intros gi acc Hacc; cbn [spec_from accum]; auto.
  destruct (dn t) eqn:Hd.
  - cbn. repeat split; auto; try reflexivity.
  - specialize (IH (gi * g) {| f_first := f_first acc; f_rew := f_rew acc + rw t * gi; f_last := sid t; f_done := false |} eq_refl).
    destruct (spec_from g (gi * g) rest) as [[[r l] d]|].
    + cbn [f_rew f_last f_done f_first] in IH. destruct IH as (H1 & H2 & H3 & H4). cbv zeta. cbn [f_rew f_last f_done f_first]. repeat split; auto. rewrite H1. ring.
    + rewrite IH. cbn. repeat split; auto; try reflexivity.
Qed.

Theorem fuse_fixed_is_spec g w f :
  fuse_fixed g w = Some f ->
  exists s, spec g w = Some s /\ agrees f s /\ f_first f = match w with t :: _ => sid t | [] => 0%nat end.
Proof.
  destruct w as [|t rest]; cbn [fuse_fixed spec]; [discriminate|]. intros [= <-].
  destruct (dn t) eqn:Hd.
  - eexists; split; [reflexivity|]. cbn. rewrite Hd. repeat split; auto; reflexivity.
  - pose proof (accum_spec g rest g (start t) Hd) as H.
    destruct (spec_from g g rest) as [[[r l] d]|].
    + destruct H as (H1 & H2 & H3 & H4). eexists; split; [reflexivity|].
      cbn [agrees]. repeat split; auto.
    + rewrite H. eexists; split; [reflexivity|]. cbn. rewrite Hd. repeat split; auto; reflexivity.
Qed.

(* the pinned code violates the specification: window starting on a terminal step *)
Definition w_bad := [ {| sid := 1; rw := 2; dn := true |}; {| sid := 2; rw := 4; dn := false |};
                      {| sid := 3; rw := 8; dn := false |} ].
Theorem fuse_code_refuted :
  exists g w f s, fuse_code g w = Some f /\ spec g w = Some s /\ ~ agrees f s.
Proof.
  exists (1#2), w_bad. eexists. eexists. split; [reflexivity|]. split; [reflexivity|].
  cbn. intros (H & _). vm_compute in H. discriminate.
Qed.
Print Assumptions fuse_fixed_is_spec.
Print Assumptions fuse_code_refuted.
