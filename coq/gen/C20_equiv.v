(* C20 — translation tie.  GenC20.v is regenerated from /repo's CURRENT source of agilerl/training/train_off_policy.py
   and train_on_policy.py by harness/pytrans.py on every run of ./check C20: the STEP-COUNT ARITHMETIC in the loop
   headers, translated as expression segments:
     train_off_policy   range(evo_steps // num_envs)                 iterations of the rollout loop
                        agent.learn_step // num_envs                  the learning period in iterations
     train_on_policy    range(-(evo_steps // -agent.learn_step))      outer iterations  (ceiling division)
                        range(-(agent.learn_step // -num_envs))       inner iterations  (ceiling division)
   This committed file proves that, for positive divisors, they are the counts the model of C20/Model.v iterates:
   evo_steps / num_envs, ls / num_envs and  cdiv a b = (a + b - 1) / b  (Python's  -(a // -b)  is the ceiling).
   Only these expressions are translated: the loops themselves are dominated by calls (env, agent, memory) and stay
   tied by the correspondence check alone. *)
From Coq Require Import List Arith Bool ZArith Lia.
Import ListNotations.
From AgileV Require Import TR.PyLib C20.Model.
From AgileGen Require Import GenC20.

Lemma zfloordiv_nat (a b : nat) : (0 < b)%nat -> zfloordiv (Z.of_nat a) (Z.of_nat b) = Ok (Z.of_nat (a / b)).
Proof.
  intros H. unfold zfloordiv. destruct (Z.eqb_spec (Z.of_nat b) 0); [lia|]. rewrite Nat2Z.inj_div. reflexivity.
Qed.

(* -(a // -b) with Python's floor division is the ceiling of a / b *)
Lemma neg_floordiv_neg (a b : nat) : (0 < b)%nat ->
  bind (zfloordiv (Z.of_nat a) (- Z.of_nat b)) (fun t => Ok (- t)%Z) = Ok (Z.of_nat (cdiv a b)).
Proof.
  intros H. unfold zfloordiv, cdiv. destruct (Z.eqb_spec (- Z.of_nat b) 0); [lia|]. cbn [bind]. f_equal.
  rewrite Nat2Z.inj_div, Nat2Z.inj_sub, Nat2Z.inj_add by lia. cbn [Z.of_nat Pos.of_succ_nat].
  set (x := Z.of_nat a). set (y := Z.of_nat b). assert (0 < y)%Z by lia. assert (0 <= x)%Z by lia.
  replace (x / - y)%Z with ((- x) / y)%Z by (rewrite <- (Z.div_opp_opp (- x) y) by lia; rewrite Z.opp_involutive; reflexivity).
  Z.div_mod_to_equations. nia.
Qed.

Theorem C20_translated_off_rollout_steps_is_model :
  forall (evo ne : nat), (0 < ne)%nat -> off_policy_rollout_steps (Z.of_nat evo) (Z.of_nat ne) = Ok (Z.of_nat (evo / ne)).
Proof. intros. unfold off_policy_rollout_steps. apply zfloordiv_nat. assumption. Qed.
Print Assumptions C20_translated_off_rollout_steps_is_model.

Theorem C20_translated_off_learn_every_is_model :
  forall (ls ne : nat), (0 < ne)%nat -> off_policy_learn_every (Z.of_nat ls) (Z.of_nat ne) = Ok (Z.of_nat (ls / ne)).
Proof. intros. unfold off_policy_learn_every. apply zfloordiv_nat. assumption. Qed.
Print Assumptions C20_translated_off_learn_every_is_model.

Theorem C20_translated_on_outer_is_model :
  forall (evo ls : nat), (0 < ls)%nat ->
    on_policy_outer_iterations (Z.of_nat ls) (Z.of_nat evo) = Ok (Z.of_nat (cdiv evo ls)).
Proof. intros. unfold on_policy_outer_iterations. apply neg_floordiv_neg. assumption. Qed.
Print Assumptions C20_translated_on_outer_is_model.

Theorem C20_translated_on_inner_is_model :
  forall (ls ne : nat), (0 < ne)%nat ->
    on_policy_inner_iterations (Z.of_nat ls) (Z.of_nat ne) = Ok (Z.of_nat (cdiv ls ne)).
Proof. intros. unfold on_policy_inner_iterations. apply neg_floordiv_neg. assumption. Qed.
Print Assumptions C20_translated_on_inner_is_model.
