(* C03 — translation tie.  GenC03.v is regenerated from /repo's CURRENT source of
   agilerl/utils/evolvable_networks.py (calc_max_kernel_sizes) by harness/pytrans.py on every run of ./check C03.
   This committed file proves that for every input shape ending in (h, w), all kernel / stride lists as long as the
   channel list and all non-zero strides, the code-as-translated returns exactly the model's
   [max_kernels h w kernels strides] (C03/ModelCnn.v): feature-map sizes 1 + floor((x - k) / s) layer after layer,
   a quarter of the smaller side truncated toward zero, clipped to [1, 9]; no IndexError, no division by zero.
   Table entries this relies on (harness/pytrans.py, design.d/TR.md): np.floor(a / b) on int-valued operands is floor
   division on Z, x * 0.25 followed by int() is truncation of x / 4 toward zero.
   The proofs mention generated names only through the function name [calc_max_kernel_sizes]. *)
From Coq Require Import List Arith Bool ZArith Lia.
Import ListNotations.
From AgileV Require Import TR.PyLib C03.ModelCnn C03.ProofsCnn.
From AgileGen Require Import GenC03.
Local Open Scope Z_scope.

Lemma zget_ok {A} (l : list A) (i : Z) (d : A) :
  0 <= i < Z.of_nat (length l) -> zget l i = Ok (nth (Z.to_nat i) l d).
Proof.
  intros H. unfold zget. destruct (Z.ltb_spec i 0); [lia|].
  destruct (nth_error l (Z.to_nat i)) eqn:E.
  - rewrite (nth_error_nth _ _ d E). reflexivity.
  - apply nth_error_None in E. lia.
Qed.

Lemma zlast2_app {A} (pre : list A) (a b : A) : zlast2 (pre ++ [a; b]) = Ok (a, b).
Proof. unfold zlast2. rewrite rev_app_distr. reflexivity. Qed.

Lemma for_go_S {S : Type} (k : nat) (i : Z) (body : Z -> S -> res (S + S)) (s : S) :
  for_go (Datatypes.S k) i body s =
  bind (body i s) (fun r => match r with inl s' => for_go k (i + 1) body s' | inr s' => Ok s' end).
Proof. reflexivity. Qed.

Theorem C03_translated_calc_max_kernel_sizes_is_model :
  forall (chs ks ss pre : list Z) (h w : Z),
    length ks = length chs -> length ss = length chs -> Forall (fun s => s <> 0) ss ->
    calc_max_kernel_sizes chs ks ss (pre ++ [h; w]) = Ok (max_kernels h w ks ss).
Proof.
  intros chs ks ss pre h w Hk Hs Hnz.
  unfold calc_max_kernel_sizes. rewrite zlast2_app. cbn [bind].
  unfold for_range, zlen. rewrite Z.sub_0_r, Nat2Z.id.
  match goal with |- context [for_go _ _ ?body _] => set (BODY := body) end.
  (* the loop from layer |ks1| on: the list built so far is extended by the model's answer for the remaining layers *)
  assert (L : forall ks2 ks1 ss1 ss2 acc h0 w0,
             ks = ks1 ++ ks2 -> ss = ss1 ++ ss2 -> length ss1 = length ks1 -> length ss2 = length ks2 ->
             exists hf wf, for_go (length ks2) (Z.of_nat (length ks1)) BODY (acc, h0, w0)
                           = Ok (acc ++ max_kernels h0 w0 ks2 ss2, hf, wf)).
  { induction ks2 as [|k ks2 IH]; intros ks1 ss1 ss2 acc h0 w0 Ek Es Hl1 Hl2.
    - exists h0, w0. destruct ss2; [|discriminate]. cbn. rewrite app_nil_r. reflexivity.
    - destruct ss2 as [|s ss2]; [discriminate|]. cbn [length]. rewrite for_go_S. unfold BODY at 1.
      assert (Nk : nth (length ks1) ks 0 = k) by (rewrite Ek, app_nth2, Nat.sub_diag by lia; reflexivity).
      assert (Ns : nth (length ks1) ss 0 = s) by (rewrite Es, app_nth2, <- Hl1, Nat.sub_diag by lia; reflexivity).
      assert (Hs0 : s <> 0).
      { rewrite Forall_forall in Hnz. apply Hnz. rewrite Es. apply in_or_app. right. left. reflexivity. }
      assert (Hlk : (length ks1 < length ks)%nat) by (rewrite Ek, app_length; cbn [length]; lia).
      assert (Hls : (length ks1 < length ss)%nat) by (rewrite Es, app_length; cbn [length]; lia).
      repeat (rewrite (zget_ok _ _ 0) by lia; cbn [bind]).
      rewrite !Nat2Z.id, Nk, Ns.
      unfold zfloordiv. destruct (Z.eqb_spec s 0) as [E0|_]; [contradiction|]. cbn [bind]. cbv zeta.
      replace (Z.of_nat (length ks1) + 1) with (Z.of_nat (length (ks1 ++ [k]))) by (rewrite app_length; cbn [length]; lia).
      match goal with |- context [for_go _ _ BODY (?acc', ?h', ?w')] =>
        destruct (IH (ks1 ++ [k]) (ss1 ++ [s]) ss2 acc' h' w') as (hf & wf & E) end.
      + rewrite <- app_assoc. exact Ek.
      + rewrite <- app_assoc. exact Es.
      + rewrite !app_length. cbn [length]. lia.
      + cbn [length] in Hl2. lia.
      + exists hf, wf. rewrite E. rewrite <- app_assoc. cbn [app].
        unfold max_kernels. cbn [fmaps map fst snd]. unfold conv_out, clip_kernel. cbv zeta.
        (* whatever way the source writes the numerator (x + 2 * 0 - k today), it is x - k *)
        repeat match goal with
               | |- context [Z.div ?a s] =>
                   lazymatch a with
                   | (h0 - k) => fail
                   | (w0 - k) => fail
                   | _ => first [ replace a with (h0 - k) by lia | replace a with (w0 - k) by lia ]
                   end
               end.
        reflexivity. }
  destruct (L ks [] [] ss [] h w) as (hf & wf & E); try reflexivity; [lia|].
  cbn [length Z.of_nat] in E. rewrite <- Hk, E. reflexivity.
Qed.
Print Assumptions C03_translated_calc_max_kernel_sizes_is_model.

(* transfer: every entry of the list the real function returns lies in [1, 9] (props: kernels chosen by a mutation) *)
Theorem C03_translated_max_kernels_in_range :
  forall (chs ks ss pre : list Z) (h w : Z) (r : list Z),
    length ks = length chs -> length ss = length chs -> Forall (fun s => s <> 0) ss ->
    calc_max_kernel_sizes chs ks ss (pre ++ [h; w]) = Ok r -> Forall (fun k => 1 <= k <= 9) r.
Proof.
  intros chs ks ss pre h w r Hk Hs Hnz E.
  rewrite C03_translated_calc_max_kernel_sizes_is_model in E by assumption.
  injection E as <-. apply max_kernels_range.
Qed.
Print Assumptions C03_translated_max_kernels_in_range.
