(* C15 — translation tie.  GenC15.v is regenerated from /repo's CURRENT source of agilerl/utils/algo_utils.py
   (maybe_add_batch_dim) by harness/pytrans.py on every run of ./check C15.  The generated function is the RANK
   DISPATCH of the function — which of the three cases (no batch dimension / two leading dimensions / anything
   else but one) is tested in which order, what is done in each, when ValueError is raised, for numpy arrays and
   torch tensors alike — over abstract array operations (obs.shape, isinstance(obs, np.ndarray),
   np.expand_dims(obs, 0), obs.unsqueeze(0), obs.reshape(-1, *shape), obs.view(-1, *shape); harness/pytrans.py,
   C15 table).  This committed file interprets those operations on the model's tensors (shape + row-major data;
   the numpy and the torch variant of an operation have the same interpretation) and proves that for every
   tensor, every space shape and both kinds of array the code-as-translated returns exactly what the model's
   [add_batch_dim] returns, an error exactly where the model has none.  Hence add_batch_dim_spec of
   coq/props/C15.v is a theorem about the translated source (restated at the end).
   The proofs mention generated names only through the function name. *)
From Coq Require Import List Arith Bool ZArith QArith Lia.
Import ListNotations.
From AgileV Require Import TR.PyLib C15.Model C15.Proofs.
From AgileGen Require Import GenC15.
Open Scope nat_scope.

(* ---- interpretation of the abstract array operations on the model's tensors ---- *)
Definition tshape (t : tq) : list Z := map Z.of_nat (shp t).
Definition rows_of (t : tq) (s : list Z) : res tq :=
  match view_rows t (map Z.to_nat s) with Some t' => Ok t' | None => PyErr ValueError end.

Definition translated_add_batch_dim (is_np : bool) (t : tq) (s : list nat) : res tq :=
  maybe_add_batch_dim tshape (fun _ => is_np) unsqueeze0 unsqueeze0 rows_of rows_of t (map Z.of_nat s).

Lemma to_of_nat_list (s : list nat) : map Z.to_nat (map Z.of_nat s) = s.
Proof. induction s as [|a s IH]; cbn; [reflexivity|]. rewrite Nat2Z.id, IH. reflexivity. Qed.

Theorem C15_translated_maybe_add_batch_dim_is_model :
  forall (is_np : bool) (t : tq) (s : list nat),
    match add_batch_dim t s with
    | Some t' => translated_add_batch_dim is_np t s = Ok t'
    | None => exists e, translated_add_batch_dim is_np t s = PyErr e
    end.
Proof.
  intros is_np t s.
  unfold translated_add_batch_dim, maybe_add_batch_dim, add_batch_dim, rank, tshape, zlen.
  rewrite !map_length.
  assert (R : rows_of t (map Z.of_nat s)
              = match view_rows t s with Some t' => Ok t' | None => PyErr ValueError end).
  { unfold rows_of. rewrite to_of_nat_list. reflexivity. }
  (* the model's three rank tests, then whatever integer tests the source makes (in whatever form and order) *)
  destruct (Nat.eqb_spec (length (shp t)) (length s)) as [E1|E1];
    [|destruct (Nat.eqb_spec (length (shp t)) (length s + 2)) as [E2|E2];
      [|destruct (Nat.eqb_spec (length (shp t)) (length s + 1)) as [E3|E3]]];
    repeat (match goal with
            | |- context [Z.eqb ?a ?b] => destruct (Z.eqb_spec a b)
            | |- context [Z.ltb ?a ?b] => destruct (Z.ltb_spec a b)
            | |- context [Z.leb ?a ?b] => destruct (Z.leb_spec a b)
            end; cbn [negb andb orb]);
    try lia;
    destruct is_np; rewrite ?R; destruct (view_rows t s); first [reflexivity | eexists; reflexivity].
Qed.
Print Assumptions C15_translated_maybe_add_batch_dim_is_model.

(* transfer: add_batch_dim_spec (props/C15.v) on the translated code *)
Theorem C15_translated_add_batch_dim_spec :
  forall (is_np : bool) (t : tq) (s lead : list nat),
    shp t = lead ++ s -> length lead <= 2 -> (length lead = 2 -> prod s <> 0) ->
    translated_add_batch_dim is_np t s = Ok (T (prod lead :: s) (dat t)).
Proof.
  intros is_np t s lead H1 H2 H3.
  pose proof (C15_translated_maybe_add_batch_dim_is_model is_np t s) as E.
  rewrite (add_batch_dim_spec t s lead H1 H2 H3) in E. exact E.
Qed.
Print Assumptions C15_translated_add_batch_dim_spec.
