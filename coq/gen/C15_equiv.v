(* C15 — translation tie.  GenC15.v is regenerated from /repo's CURRENT source of agilerl/utils/algo_utils.py
   (maybe_add_batch_dim) by harness/pytrans.py on every run of ./check C15.  The generated function is the RANK
   DISPATCH of the function — which of the three cases (no batch dimension / two leading dimensions / anything
   else but one) is tested in which order, what is done in each, when ValueError is raised, for numpy arrays and
   torch tensors alike — over abstract array operations (obs.shape, isinstance(obs, np.ndarray),
   np.expand_dims(obs, 0), obs.unsqueeze(0), obs.reshape(-1, *shape), obs.view(-1, *shape); harness/pytrans.py,
   C15 table).  This committed file interprets those operations on the model's tensors (shape + row-major data;
   the numpy and the torch variant of an operation have the same interpretation) and proves that for every
   tensor, every space shape and both kinds of array the code-as-translated returns exactly what the model's
   [add_batch_dim] returns, an error exactly where the model has none.  Hence add_batch_dim_spec of
   coq/props/C15.v is a theorem about the translated source (restated at the end).
   The proofs mention generated names only through the function name. *)
From Coq Require Import List Arith Bool ZArith QArith Lia.
Import ListNotations.
From AgileV Require Import TR.PyLib C15.Model C15.Proofs.
From AgileGen Require Import GenC15.
Open Scope nat_scope.

(* ---- interpretation of the abstract array operations on the model's tensors ---- *)
Definition tshape (t : tq) : list Z := map Z.of_nat (shp t).
Definition rows_of (t : tq) (s : list Z) : res tq :=
  match view_rows t (map Z.to_nat s) with Some t' => Ok t' | None => PyErr ValueError end.

Definition translated_add_batch_dim (is_np : bool) (t : tq) (s : list nat) : res tq :=
  maybe_add_batch_dim tshape (fun _ => is_np) unsqueeze0 unsqueeze0 rows_of rows_of t (map Z.of_nat s).

Lemma to_of_nat_list (s : list nat) : map Z.to_nat (map Z.of_nat s) = s.
Proof. induction s as [|a s IH]; cbn; [reflexivity|]. rewrite Nat2Z.id, IH. reflexivity. Qed.

Theorem C15_translated_maybe_add_batch_dim_is_model :
  forall (is_np : bool) (t : tq) (s : list nat),
    match add_batch_dim t s with
    | Some t' => translated_add_batch_dim is_np t s = Ok t'
    | None => exists e, translated_add_batch_dim is_np t s = PyErr e
    end.
Proof.
  intros is_np t s.
  unfold translated_add_batch_dim, maybe_add_batch_dim, add_batch_dim, rank, tshape, zlen.
  rewrite !map_length.
  assert (R : rows_of t (map Z.of_nat s)
              = match view_rows t s with Some t' => Ok t' | None => PyErr ValueError end).
  { unfold rows_of. rewrite to_of_nat_list. reflexivity. }
  (* the model's three rank tests, then whatever integer tests the source makes (in whatever form and order) *)
  destruct (Nat.eqb_spec (length (shp t)) (length s)) as [E1|E1];
    [|destruct (Nat.eqb_spec (length (shp t)) (length s + 2)) as [E2|E2];
      [|destruct (Nat.eqb_spec (length (shp t)) (length s + 1)) as [E3|E3]]];
    repeat (match goal with
            | |- context [Z.eqb ?a ?b] => destruct (Z.eqb_spec a b)
            | |- context [Z.ltb ?a ?b] => destruct (Z.ltb_spec a b)
            | |- context [Z.leb ?a ?b] => destruct (Z.leb_spec a b)
            end; cbn [negb andb orb]);
    try lia;
    destruct is_np; rewrite ?R; destruct (view_rows t s); first [reflexivity | eexists; reflexivity].
Qed.
Print Assumptions C15_translated_maybe_add_batch_dim_is_model.

(* transfer: add_batch_dim_spec (props/C15.v) on the translated code *)
Theorem C15_translated_add_batch_dim_spec :
  forall (is_np : bool) (t : tq) (s lead : list nat),
    shp t = lead ++ s -> length lead <= 2 -> (length lead = 2 -> prod s <> 0) ->
    translated_add_batch_dim is_np t s = Ok (T (prod lead :: s) (dat t)).
Proof.
  intros is_np t s lead H1 H2 H3.
  pose proof (C15_translated_maybe_add_batch_dim_is_model is_np t s) as E.
  rewrite (add_batch_dim_spec t s lead H1 H2 H3) in E. exact E.
Qed.
Print Assumptions C15_translated_add_batch_dim_spec.

(* ================================ get_vect_dim ================================================= *)
(* The generated function is the DISPATCH of get_vect_dim over the kind of space (Dict: recurse into the first item
   of the observation and the member space of that key; Tuple: first members; MultiBinary and everything else: the
   leading extent if the observation has more dimensions than the space, else 1) over abstract space / observation
   operations, interpreted here on the model's spaces and observations. *)
Definition sp_is_dict (sp : space) : bool := match sp with DictS _ => true | _ => false end.
Definition sp_is_tuple (sp : space) : bool := match sp with TupleS _ => true | _ => false end.
Definition sp_is_multibinary (sp : space) : bool := match sp with Leaf (MultiBinary _) => true | _ => false end.
Definition sp_shape (sp : space) : list Z := match sp with Leaf l => map Z.of_nat (space_shape l) | _ => [] end.
Definition ob_shape (o : obs) : list Z := match o with OLeaf t => map Z.of_nat (shp t) | _ => [] end.
Definition ob_first_item (o : obs) : res (nat * obs) :=
  match o with ODict ((k, t) :: _) => Ok (k, OLeaf t) | _ => PyErr ValueError end.
Definition sp_get (sp : space) (k : nat) : res space :=
  match sp with
  | DictS fields => match lookup k fields with Some l => Ok (Leaf l) | None => PyErr IndexError end
  | _ => PyErr ValueError
  end.
Definition ob_first (o : obs) : res obs := match o with OTuple (t :: _) => Ok (OLeaf t) | _ => PyErr IndexError end.
Definition sp_first (sp : space) : res space := match sp with TupleS (l :: _) => Ok (Leaf l) | _ => PyErr IndexError end.

Definition translated_vect_dim (fuel : nat) (o : obs) (sp : space) : res Z :=
  get_vect_dim sp_is_dict sp_is_tuple sp_is_multibinary sp_shape ob_shape ob_first_item sp_get ob_first sp_first
               fuel o sp.

Lemma leaf_case (fuel : nat) (l : leaf) (t : tq) (n : nat) :
  vect_dim_leaf true l t = Some n -> translated_vect_dim (S fuel) (OLeaf t) (Leaf l) = Ok (Z.of_nat n).
Proof.
  intros H. unfold translated_vect_dim. cbn [get_vect_dim sp_is_dict sp_is_tuple].
  assert (E : Some (if length (space_shape l) <? rank t then hd 1 (shp t) else 1) = Some n)
    by (destruct l; exact H).
  injection E as <-. clear H.
  unfold sp_shape, ob_shape, zlen, rank. rewrite !map_length. cbv zeta.
  assert (G : (if (Z.of_nat (length (space_shape l)) <? Z.of_nat (length (shp t)))%Z
               then zget (map Z.of_nat (shp t)) 0%Z else Ok 1%Z)
              = Ok (Z.of_nat (if length (space_shape l) <? length (shp t) then hd 1 (shp t) else 1))).
  { destruct (Nat.ltb_spec (length (space_shape l)) (length (shp t)));
      destruct (Z.ltb_spec (Z.of_nat (length (space_shape l))) (Z.of_nat (length (shp t)))); try lia; [|reflexivity].
    destruct (shp t) as [|b r]; [cbn in *; lia|]. reflexivity. }
  destruct (sp_is_multibinary (Leaf l)); exact G.
Qed.

Theorem C15_translated_get_vect_dim_is_model :
  forall (sp : space) (o : obs) (n fuel : nat),
    2 <= fuel -> vect_dim true sp o = Some n -> translated_vect_dim fuel o sp = Ok (Z.of_nat n).
Proof.
  intros sp o n fuel Hf H.
  destruct fuel as [|[|fuel]]; try lia.
  destruct sp as [l|fields|members]; cbn [vect_dim] in H.
  - destruct o as [t|ditems|titems]; try discriminate. apply (leaf_case (S fuel)). exact H.
  - destruct o as [t|ditems|titems]; try discriminate.
    destruct ditems as [|[k t] items']; [discriminate|].
    destruct (lookup k fields) as [l|] eqn:El; [|discriminate].
    unfold translated_vect_dim. cbn [get_vect_dim sp_is_dict ob_first_item bind sp_get]. rewrite El. cbn [bind].
    apply (leaf_case fuel). exact H.
  - destruct members as [|l members']; [destruct o; discriminate|].
    destruct o as [t|ditems|titems]; try discriminate.
    destruct titems as [|t items']; [discriminate|].
    unfold translated_vect_dim. cbn [get_vect_dim sp_is_dict sp_is_tuple ob_first sp_first bind].
    apply (leaf_case fuel). exact H.
Qed.
Print Assumptions C15_translated_get_vect_dim_is_model.
