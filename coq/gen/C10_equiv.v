(* C10 — translation tie.  GenC10.v is regenerated from /repo's CURRENT source of
   agilerl/components/replay_buffer.py (MultiStepReplayBuffer._get_n_step_info) by harness/pytrans.py on every run
   of ./check C10.  The generated function is the LOOP STRUCTURE of the method — which transitions are fused, in
   which order, with which power of gamma, where the loop stops, that the first transition's done flag is looked
   at before anything is fused, which entries of the copy of the first transition are overwritten — over abstract
   tensor operations (td[key], td[key] = t, t.bool().any(), t + u, t * float, gamma ** k; harness/pytrans.py, C10
   table).  This committed file interprets those operations on the model's vectorised transitions (a transition =
   one cell per environment, a tensor = the column of one field) and proves that for every discount, every
   non-empty window whose transitions all have the same number of environments, the code-as-translated returns
   exactly the model's [n_step_info] (C10/Model.v): no IndexError.  Hence the theorems of coq/props/C10.v about
   n_step_info are theorems about the translated loop.
   The proofs mention generated names only through the function name. *)
From Coq Require Import List Arith Bool ZArith QArith Lia.
Import ListNotations.
From AgileV Require Import Base.Prelude C09.Model TR.PyLib C10.Model.
From AgileGen Require Import GenC10.

(* ---- interpretation of the abstract tensor operations on the model's data ---- *)
Inductive key := KReward | KDone | KNs.
Inductive ten := TQ (l : list Q) | TB (l : list bool) | TN (l : list nat).

Definition tget (k : key) (v : vtr) : ten :=
  match k with KReward => TQ (map rw v) | KDone => TB (map dn v) | KNs => TN (map nx v) end.

Definition set_rw (c : cell) (q : Q) : cell := C (ob c) (ac c) q (nx c) (dn c).
Definition set_dn (c : cell) (b : bool) : cell := C (ob c) (ac c) (rw c) (nx c) b.
Definition set_nx (c : cell) (n : nat) : cell := C (ob c) (ac c) (rw c) n (dn c).
Definition zipw {A B X} (f : A -> B -> X) (l : list A) (m : list B) : list X :=
  map (fun p => f (fst p) (snd p)) (combine l m).

Definition tset (k : key) (v : vtr) (t : ten) : vtr :=
  match k, t with
  | KReward, TQ l => zipw set_rw v l
  | KDone, TB l => zipw set_dn v l
  | KNs, TN l => zipw set_nx v l
  | _, _ => v                         (* a tensor of another field's type: never produced by the translated code *)
  end.

Definition tany (t : ten) : bool := match t with TB l => existsb (fun b => b) l | _ => false end.
Definition tadd (a b : ten) : ten := match a, b with TQ x, TQ y => TQ (zipw Qplus x y) | _, _ => a end.
Definition tscale (a : ten) (w : Q) : ten := match a with TQ x => TQ (map (fun q => Qmult q w) x) | _ => a end.
Definition gpow (g : Q) (k : Z) : Q := qpow g (Z.to_nat k).

(* super().add(td) on the parent part of the buffer: the C09 ring-buffer model *)
Definition padd (b : rb cell) (v : vtr) : rb cell := rb_add b v.

Definition translated_info (g : Q) (w : list vtr) : res vtr :=
  MultiStepReplayBuffer_get_n_step_info KReward KDone KNs tget tset tany tadd tscale (gpow g) padd w.

Definition translated_add (g : Q) (n : nat) (w : list vtr) (b : rb cell) (t : vtr)
  : res (option vtr * list vtr * rb cell) :=
  MultiStepReplayBuffer_add KReward KDone KNs tget tset tany tadd tscale (gpow g) padd (Z.of_nat n) w b t.

(* ---- list facts ---- *)
Lemma zget_ok {A} (l : list A) (i : Z) (d : A) :
  (0 <= i < Z.of_nat (length l))%Z -> zget l i = Ok (nth (Z.to_nat i) l d).
Proof.
  intros H. unfold zget. destruct (Z.ltb_spec i 0); [lia|].
  destruct (nth_error l (Z.to_nat i)) eqn:E.
  - rewrite (nth_error_nth _ _ d E). reflexivity.
  - apply nth_error_None in E. lia.
Qed.

Lemma for_go_S {S : Type} (k : nat) (i : Z) (body : Z -> S -> res (S + S)) (s : S) :
  for_go (Datatypes.S k) i body s =
  bind (body i s) (fun r => match r with inl s' => for_go k (i + 1)%Z body s' | inr s' => Ok s' end).
Proof. reflexivity. Qed.

Lemma tany_done (v : vtr) : tany (tget KDone v) = any_done v.
Proof. unfold tany, tget, any_done. induction v as [|c v IH]; cbn; [reflexivity|]. rewrite IH. reflexivity. Qed.

(* the loop state (copy of the first transition with next_obs / done overwritten, separate reward column) represents
   the model's accumulator *)
Definition repr (ft : vtr) (rs : list Q) : vtr := zipw set_rw ft rs.

Lemma repr_init (v : vtr) : repr v (map rw v) = v.
Proof. unfold repr, zipw. induction v as [|c v IH]; cbn; [reflexivity|]. rewrite IH. destruct c; reflexivity. Qed.

Lemma fuse_repr (w : Q) : forall (ft : vtr) (rs : list Q) (t : vtr),
  length rs = length ft -> length t = length ft ->
  fuse_step w (repr ft rs) t
  = repr (zipw set_dn (zipw set_nx ft (map nx t)) (map dn t))
         (zipw Qplus rs (map (fun q => Qmult q w) (map rw t))).
Proof.
  unfold fuse_step, repr, zipw.
  induction ft as [|c ft IH]; intros [|r rs] [|x t] H1 H2; cbn in *; try discriminate; try reflexivity.
  rewrite IH by lia. reflexivity.
Qed.

(* the two overwrites of the copied first transition are independent: canonical order = done outermost *)
Lemma zipw_nx_dn_comm : forall (ft : vtr) (a : list bool) (b : list nat),
  zipw set_nx (zipw set_dn ft a) b = zipw set_dn (zipw set_nx ft b) a.
Proof.
  unfold zipw. induction ft as [|c ft IH]; intros [|x a] [|y b]; cbn; try reflexivity.
  rewrite IH. reflexivity.
Qed.

Lemma zipw_length {A B X} (f : A -> B -> X) l m : length m = length l -> length (zipw f l m) = length l.
Proof. intros H. unfold zipw. rewrite map_length, combine_length. lia. Qed.

Theorem C10_translated_n_step_info_is_model :
  forall (g : Q) (E : nat) (first : vtr) (rest : list vtr),
    Forall (fun t => length t = E) (first :: rest) ->
    translated_info g (first :: rest) = Ok (n_step_info g (first :: rest)).
Proof.
  intros g E first rest HE. inversion HE as [|? ? Hf Hr]; subst.
  unfold translated_info, MultiStepReplayBuffer_get_n_step_info, n_step_info.
  rewrite (zget_ok _ _ first) by (cbn [length]; lia). cbn [bind Z.to_nat nth]. cbv zeta.
  rewrite tany_done.
  (* the window that is fused: nothing when the first transition is terminal, else the rest *)
  set (following := if any_done first then [] else rest).
  assert (Efol : (if any_done first then Ok nil else zslice (first :: rest) (Some 1%Z) None) = Ok following).
  { unfold following. destruct (any_done first); [reflexivity|].
    unfold zslice, zlen. cbn [orb Z.ltb Z.compare]. 
    destruct (Z.ltb_spec (Z.of_nat (length (first :: rest))) 0); [lia|]. cbn [orb].
    replace (Z.to_nat 1) with 1%nat by reflexivity. cbn [skipn]. rewrite firstn_all2; [reflexivity|].
    cbn [length]. lia. }
  rewrite Efol. cbn [bind].
  assert (Hfol : Forall (fun t => length t = length first) following).
  { unfold following. destruct (any_done first); [constructor|exact Hr]. }
  clearbody following. clear Efol.
  unfold for_range, zlen. rewrite Z.sub_0_r, Nat2Z.id.
  match goal with |- context [for_go _ _ ?body _] => set (BODY := body) end.
  (* the loop over fol2 = the not yet visited part of the window; i = number of transitions already fused *)
  assert (L : forall fol2 fol1 ft rs,
             following = fol1 ++ fol2 -> length rs = length ft -> length ft = length first ->
             exists ft' rs', for_go (length fol2) (Z.of_nat (length fol1)) BODY (ft, TQ rs) = Ok (ft', TQ rs')
                             /\ repr ft' rs' = accum g (length fol1) (repr ft rs) fol2).
  { induction fol2 as [|t fol2 IH]; intros fol1 ft rs Efol Hrs Hft.
    - exists ft, rs. split; reflexivity.
    - cbn [length]. rewrite for_go_S. unfold BODY at 1.
      assert (Ht : length t = length first).
      { rewrite Forall_forall in Hfol. apply Hfol. rewrite Efol. apply in_or_app. right. left. reflexivity. }
      rewrite (zget_ok _ _ t) by (rewrite Efol, app_length; cbn [length]; lia). cbn [bind]. cbv zeta.
      rewrite Nat2Z.id. rewrite Efol, app_nth2, Nat.sub_diag by lia. cbn [nth].
      rewrite tany_done. cbn [accum].
      unfold gpow. replace (Z.to_nat (Z.of_nat (length fol1) + 1)) with (S (length fol1)) by lia.
      rewrite (fuse_repr _ ft rs t) by lia.
      cbn [tget tscale tadd tset]. rewrite ?zipw_nx_dn_comm.
      destruct (any_done t).
      + cbn [bind]. eexists _, _. split; reflexivity.
      + cbn [bind].
        replace (Z.of_nat (length fol1) + 1)%Z with (Z.of_nat (length (fol1 ++ [t]))) by (rewrite app_length; cbn [length]; lia).
        match goal with |- context [for_go _ _ BODY (?ft1, TQ ?rs1)] =>
          destruct (IH (fol1 ++ [t]) ft1 rs1) as (ft' & rs' & E1 & E2) end.
        * rewrite <- app_assoc. exact Efol.
        * rewrite !zipw_length; rewrite ?map_length; try lia. rewrite zipw_length; rewrite ?map_length; lia.
        * rewrite !zipw_length; rewrite ?map_length; try lia. rewrite zipw_length; rewrite ?map_length; lia.
        * exists ft', rs'. split; [exact E1|]. rewrite E2. rewrite app_length. cbn [length].
          replace (length fol1 + 1)%nat with (S (length fol1)) by lia. reflexivity. }
  destruct (L following [] first (map rw first)) as (ft' & rs' & E1 & E2);
    [reflexivity | apply map_length | reflexivity |].
  cbn [length Z.of_nat] in E1. cbn [tget].
  match goal with |- bind ?x _ = _ => replace x with (Ok (ft', TQ rs') : res (vtr * ten)) by (symmetry; exact E1) end.
  cbn [bind tset].
  fold (repr ft' rs'). rewrite E2. cbn [length]. rewrite repr_init. reflexivity.
Qed.
Print Assumptions C10_translated_n_step_info_is_model.

(* transfer: nstep_window_matches_spec (props/C10.v) on the translated code — on window k of any stream the real
   loop returns, for every environment, the record the property describes *)
From AgileV Require Import C10.Proofs.
Lemma firstn_In {A} (n : nat) (l : list A) (x : A) : In x (firstn n l) -> In x l.
Proof. revert l. induction n as [|n IH]; intros [|a l] H; cbn in *; try contradiction. destruct H; [left; assumption | right; apply IH; assumption]. Qed.
Lemma skipn_In {A} (n : nat) (l : list A) (x : A) : In x (skipn n l) -> In x l.
Proof. revert l. induction n as [|n IH]; intros [|a l] H; cbn in *; try assumption. right. apply IH. assumption. Qed.

Theorem C10_translated_window_matches_spec :
  forall g E n xs k e,
    (1 <= n)%nat -> (k + n <= length xs)%nat -> width E xs -> (e < E)%nat ->
    exists v, translated_info g (window n xs k) = Ok v /\
      let r := nth e v dcell in
      let m := cut (window n xs k) in
      length v = E /\ ok_window n xs e k m /\
      ob r = ob (cellat xs k e) /\ ac r = ac (cellat xs k e) /\
      (rw r == disc_sum g xs k e m)%Q /\
      nx r = nx (cellat xs (k + m - 1) e) /\ dn r = dn (cellat xs (k + m - 1) e).
Proof.
  intros g E n xs k e Hn Hk Hw He.
  exists (n_step_info g (window n xs k)). split; [|apply info_window_spec; assumption].
  assert (HW : Forall (fun t => length t = E) (window n xs k)).
  { unfold window, width in *. rewrite Forall_forall in *. intros t Ht. apply Hw.
    apply firstn_In in Ht. apply skipn_In in Ht. exact Ht. }
  assert (Hlen : length (window n xs k) = n).
  { unfold window. rewrite firstn_length, skipn_length. lia. }
  destruct (window n xs k) as [|first rest] eqn:Ew; [cbn in Hlen; lia|].
  apply (C10_translated_n_step_info_is_model g E first rest HW).
Qed.
Print Assumptions C10_translated_window_matches_spec.

(* ================================ MultiStepReplayBuffer.add ===================================== *)
(* deque append, the `not full yet` test, the fusion of the window, the hand-over to ReplayBuffer.add (the parent
   part, abstract operation interpreted as C09's rb_add) and the returned oldest raw transition *)
Lemma Forall_skipn {A} (P : A -> Prop) : forall (k : nat) (l : list A), Forall P l -> Forall P (skipn k l).
Proof. induction k as [|k IH]; intros [|a l] H; cbn; auto. apply IH. inversion H; assumption. Qed.

Theorem C10_translated_add_is_model :
  forall (g : Q) (n E : nat) (w : list vtr) (b : rb cell) (t : vtr),
    (1 <= n)%nat -> Forall (fun v => length v = E) (w ++ [t]) ->
    translated_add g n w b t
    = Ok (let '(w', b', r) := ns_add (n_step_info g) n w b t in (r, w', b')).
Proof.
  intros g n E w b t Hn HE. unfold translated_add, MultiStepReplayBuffer_add, ns_add, dq_append, lastn, zdq_append.
  cbv zeta. rewrite Nat2Z.id. unfold zlen.
  set (w' := skipn (length (w ++ [t]) - n) (w ++ [t])).
  assert (HW : Forall (fun v => length v = E) w') by (apply Forall_skipn; exact HE).
  destruct (Nat.ltb_spec (length w') n); destruct (Z.ltb_spec (Z.of_nat (length w')) (Z.of_nat n)); try lia.
  - reflexivity.
  - destruct w' as [|first rest] eqn:Ew; [cbn [length] in *; lia|].
    fold (translated_info g (first :: rest)).
    rewrite (C10_translated_n_step_info_is_model g E first rest HW). cbn [bind hd]. reflexivity.
Qed.
Print Assumptions C10_translated_add_is_model.
