(* C05 — translation tie.  GenC05.v is regenerated from /repo's CURRENT source of agilerl/hpo/tournament.py
   (TournamentSelection._tournament and TournamentSelection.select) by harness/pytrans.py on every run of
   ./check C05.  The generated functions are (i) the tournament: the drawn indices, the look-up of their ranks, the
   winner = drawn index at the arg-max position; (ii) the INDEX BOOK-KEEPING of select: the elite slot first when
   elitism is on, population_size (- 1) tournaments, max_id incremented BEFORE each clone, parent = population[winner],
   the order of the new population — over abstract operations (np.argmax, self._elitism, the two forms of clone;
   the random draws are inputs: one list of indices per tournament; harness/pytrans.py, C05 table).
   This committed file interprets them on C05/Model.v (ranks are naturals, an agent is the model's agent, clone is
   the model's clone) and proves that the code-as-translated produces exactly the members of the model's
   [select_plan]: same parents, same new indices, same order.  Hence winner_best_of_drawn, size_exact and
   indices_fresh of coq/props/C05.v, which speak about tournament / select_plan, are about the translated source.
   The proofs mention generated names only through the function names. *)
From Coq Require Import List Arith Bool ZArith QArith Lia.
Import ListNotations.
From AgileV Require Import TR.PyLib C05.Model C05.Proofs.
From AgileGen Require Import GenC05.
Local Open Scope nat_scope.

Definition zs (l : list nat) : list Z := map Z.of_nat l.
Definition amax (l : list nat) : Z := Z.of_nat (argmax l).

Lemma for_go_S {S : Type} (k : nat) (i : Z) (body : Z -> S -> res (S + S)) (s : S) :
  for_go (Datatypes.S k) i body s =
  bind (body i s) (fun r => match r with inl s' => for_go k (i + 1)%Z body s' | inr s' => Ok s' end).
Proof. reflexivity. Qed.

Lemma zgets_nat {A} (d : A) (l : list A) : forall ds : list nat, Forall (fun i => i < length l) ds ->
  zgets l (zs ds) = Ok (map (fun i => nth i l d) ds).
Proof.
  induction ds as [|i ds IH]; intros H; [reflexivity|]. inversion H; subst.
  cbn [zs map zgets]. rewrite (zget_nat l i d) by assumption. cbn [bind].
  fold (zs ds). rewrite IH by assumption. reflexivity.
Qed.

(* the winner of a tournament is the model's [tournament] on the same draws (whatever the other operations are) *)
Theorem C05_translated_tournament_is_model :
  forall (Ag : Type) (eo : list Ag -> Ag * list nat * Z) (cs : Ag -> Ag) (ca : Ag -> Z -> Ag)
         (tsize : Z) (rk ds : list nat), ds <> [] -> Forall (fun i => i < length rk) ds ->
    TournamentSelection_tournament amax eo cs ca tsize rk (zs ds) = Ok (Z.of_nat (tournament rk ds)).
Proof.
  intros Ag eo cs ca tsize rk ds Hne Hin. unfold TournamentSelection_tournament, tournament. cbv zeta.
  rewrite (zgets_nat 0 rk ds Hin). cbn [bind]. unfold amax.
  set (vals := map (fun i => nth i rk 0) ds).
  assert (Hlt : argmax vals < length ds).
  { replace (length ds) with (length vals) by (unfold vals; apply map_length).
    apply argmax_spec. unfold vals. destruct ds; [congruence|discriminate]. }
  unfold zs. rewrite (zget_nat _ _ 0%Z) by (rewrite map_length; exact Hlt).
  f_equal. rewrite <- (map_nth Z.of_nat). reflexivity.
Qed.
Print Assumptions C05_translated_tournament_is_model.

Lemma tournament_in_range (rk ds : list nat) : ds <> [] -> Forall (fun i => i < length rk) ds ->
  tournament rk ds < length rk.
Proof.
  intros Hne Hin. unfold tournament. rewrite Forall_forall in Hin. apply Hin. apply nth_In.
  replace (length ds) with (length (map (fun i => nth i rk 0) ds)) by apply map_length.
  apply argmax_spec. destruct ds; [congruence|discriminate].
Qed.

Section Sel.
Context {P : Type}.
Notation agent := (@agent P).

Definition translated_select (c : cfg) (elite : agent) (rk : list nat) (max_id : Z) (pop : list agent)
           (draws : list (list nat)) : res (agent * list agent) :=
  TournamentSelection_select amax (fun _ : list agent => (elite, rk, max_id))
    (fun a => clone a None) (fun a i => clone a (Some i))
    (Z.of_nat (tsize c)) (elitism c) (Z.of_nat (psize c)) pop (map zs draws).

(* how select_with turns a planned member into an agent *)
Definition member_agent (elite : agent) (pop : list agent) (a0 : agent) (m : nat * option Z) : agent :=
  match snd m with
  | None => clone elite None
  | Some i => clone (nth (fst m) pop a0) (Some i)
  end.

Theorem C05_translated_select_is_model :
  forall (c : cfg) (elite a0 : agent) (rk : list nat) (max_id : Z) (pop : list agent) (draws : list (list nat)),
    length rk = length pop -> nsel c <= length draws ->
    Forall (fun ds => ds <> [] /\ Forall (fun i => i < length rk) ds) draws ->
    translated_select c elite rk max_id pop draws
    = Ok (elite, map (member_agent elite pop a0) (p_members (select_plan rk c max_id draws))).
Proof.
  intros c elite a0 rk max_id pop draws Hrk Hn Hd.
  unfold translated_select, TournamentSelection_select, select_plan. cbv zeta. cbn [p_members].
  set (f := fun j : nat => clone (nth (tournament rk (nth j draws [])) pop a0) (Some (max_id + 1 + Z.of_nat j)%Z)).
  match goal with |- context [for_range _ _ ?body _] => set (BODY := body) end.
  assert (L : forall n i acc, i + n <= length draws ->
             for_go n (Z.of_nat i) BODY ((max_id + Z.of_nat i)%Z, acc)
             = Ok ((max_id + Z.of_nat (i + n))%Z, acc ++ map f (seq i n))).
  { induction n as [|n IH]; intros i acc Hi.
    - cbn [for_go seq map]. rewrite Nat.add_0_r, app_nil_r. reflexivity.
    - rewrite for_go_S. unfold BODY at 1. cbv zeta.
      rewrite (zget_nat _ _ []) by (rewrite map_length; lia). cbn [bind].
      change (@nil Z) with (zs []). rewrite (map_nth zs).
      assert (Hdi : nth i draws [] <> [] /\ Forall (fun k => k < length rk) (nth i draws [])).
      { rewrite Forall_forall in Hd. apply Hd. apply nth_In. lia. }
      destruct Hdi as [Hne Hin].
      rewrite C05_translated_tournament_is_model by assumption. cbn [bind].
      rewrite (zget_nat _ _ a0) by (rewrite <- Hrk; apply tournament_in_range; assumption). cbn [bind].
      replace (Z.of_nat i + 1)%Z with (Z.of_nat (S i)) by lia.
      replace (max_id + Z.of_nat i + 1)%Z with (max_id + Z.of_nat (S i))%Z by lia.
      rewrite IH by lia. cbn [seq map]. rewrite <- app_assoc. cbn [app].
      unfold f at 2. replace (max_id + 1 + Z.of_nat i)%Z with (max_id + Z.of_nat (S i))%Z by lia.
      replace (S i + n) with (i + S n) by lia. reflexivity. }
  unfold nsel in *. destruct (elitism c) eqn:El; cbv beta iota zeta; unfold for_range; rewrite Z.sub_0_r.
  - replace (Z.to_nat (Z.of_nat (psize c) - 1)) with (psize c - 1) by lia.
    pose proof (L (psize c - 1) 0 ([] ++ [clone elite None])) as HL.
    cbn [Z.of_nat] in HL. rewrite Z.add_0_r in HL. rewrite HL by lia. cbn [bind app map].
    rewrite map_map. reflexivity.
  - rewrite Nat2Z.id.
    pose proof (L (psize c) 0 []) as HL.
    cbn [Z.of_nat] in HL. rewrite Z.add_0_r in HL. rewrite HL by lia. cbn [bind app map].
    rewrite map_map. reflexivity.
Qed.
End Sel.
Print Assumptions C05_translated_select_is_model.
