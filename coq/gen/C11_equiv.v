(* C11 — translation tie.  GenC11.v is regenerated from /repo's CURRENT source of
   agilerl/components/segment_tree.py (SegmentTree.__setitem__, _operate_helper, operate; SumSegmentTree.sum,
   retrieve) by harness/pytrans.py on every run of ./check C11.  This committed file proves, for every carrier,
   every operation, every tree array of the right length and all indices / bounds inside the guards the code
   itself states, that the code-as-translated returns [Ok] of what the hand-written model C11/Model.v computes:
   no IndexError, no negative index, and the explicit fuel of the loops / the recursion is never exhausted
   (fuel >= idx + capacity for the climb, fuel > log2 capacity for the descent and the range query).
   Python ints are Z in the generated code and nat in the model: the theorems relate them through Z.of_nat.
   Hence the theorems of coq/props/C11.v about setitem / operate / root / retrieve are theorems about the
   translated source; two are transferred explicitly at the end.
   The proofs mention generated names only through the function names; loop bodies are picked up from the goal
   ([set (STEP := ...)]), recursive calls are found by matching on the function name. *)
From Coq Require Import List Arith Bool ZArith Lia.
Import ListNotations.
From AgileV Require Import TR.PyLib C11.Model C11.TreeProofs C11.GenericProofs.
From AgileGen Require Import GenC11.

Lemma zget_ok {A} (l : list A) (i : Z) (d : A) :
  (0 <= i < Z.of_nat (length l))%Z -> zget l i = Ok (nth (Z.to_nat i) l d).
Proof.
  intros H. unfold zget. destruct (Z.ltb_spec i 0); [lia|].
  destruct (nth_error l (Z.to_nat i)) eqn:E.
  - rewrite (nth_error_nth _ _ d E). reflexivity.
  - apply nth_error_None in E. lia.
Qed.

Lemma zset_ok {A} (l : list A) (i : Z) (v : A) :
  (0 <= i < Z.of_nat (length l))%Z -> zset l i v = Ok (upd l (Z.to_nat i) v).
Proof.
  intros H. unfold zset, zlen. destruct (Z.ltb_spec i 0); [lia|].
  destruct (Z.ltb_spec i (Z.of_nat (length l))); [|lia].
  f_equal. generalize (Z.to_nat i). clear. induction l; destruct n; simpl; auto. f_equal. auto.
Qed.

Lemma Zdiv2_nat i : (Z.of_nat i / 2)%Z = Z.of_nat (i / 2).
Proof. rewrite Nat2Z.inj_div. reflexivity. Qed.

Section Tree.
Context {T : Type} (op : T -> T -> T) (dflt : T).

Theorem C11_translated_setitem_is_model :
  forall (c : nat) (l : list T) (idx : nat) (v : T) (fuel : nat),
    length l = 2 * c -> idx < c -> idx + c <= fuel ->
    SegmentTree_setitem fuel (Z.of_nat c) l op (Z.of_nat idx) v = Ok (setitem op dflt c l idx v).
Proof.
  intros c l idx v fuel Hlen Hidx Hfuel.
  unfold SegmentTree_setitem, setitem.
  rewrite <- Nat2Z.inj_add.
  rewrite zset_ok by lia. cbn [bind]. rewrite Nat2Z.id, Zdiv2_nat.
  match goal with |- context [while_loop _ ?step _] => set (STEP := step) end.
  assert (L : forall n fuelG fuelM i l0 zi, i <= n -> i < fuelG -> i <= fuelM -> i < c -> length l0 = 2 * c ->
             zi = Z.of_nat i ->
             exists z, while_loop fuelG STEP (l0, zi) = Ok (fixup op dflt fuelM i l0, z)).
  { induction n as [|n IH]; intros fuelG fuelM i l0 zi Hn HG HM Hi Hl0 ->;
      (destruct fuelG as [|fuelG]; [lia|]); rewrite while_loop_S; unfold STEP at 1.
    - assert (i = 0) by lia. subst i. cbn [Z.of_nat Z.leb Z.compare bind].
      eexists. destruct fuelM; reflexivity.
    - destruct (Z.leb_spec 1 (Z.of_nat i)) as [H1|H1].
      + rewrite (zget_ok l0 _ dflt) by lia. cbn [bind].
        rewrite (zget_ok l0 _ dflt) by lia. cbn [bind].
        rewrite zset_ok by lia. cbn [bind].
        destruct fuelM as [|fuelM]; [lia|]. cbn [fixup].
        destruct (Nat.ltb_spec i 1) as [H2|H2]; [lia|].
        assert (i / 2 < i) by (apply Nat.div_lt; lia).
        destruct (IH fuelG fuelM (i / 2) (upd l0 i (op (get dflt l0 (2 * i)) (get dflt l0 (2 * i + 1)))) (Z.of_nat i / 2)%Z)
          as [z Hz]; try lia; [rewrite upd_length; exact Hl0 | apply Zdiv2_nat |].
        exists z. rewrite <- Hz. unfold get. repeat f_equal; clear; lia.
      + assert (i = 0) by lia. subst i. cbn [bind]. eexists. destruct fuelM; reflexivity. }
  assert (D1 : (idx + c) / 2 < c) by (apply Nat.div_lt_upper_bound; lia).
  assert (D2 : (idx + c) / 2 <= idx + c) by (apply Nat.div_le_upper_bound; lia).
  set (i0 := (idx + c) / 2) in *.
  destruct (L i0 fuel (idx + c) i0 (upd l (idx + c) v) (Z.of_nat i0)) as [z Hz];
    try lia; try reflexivity; try (rewrite upd_length; exact Hlen).
  rewrite Hz. reflexivity.
Qed.

Lemma mid_of_node ns P : 1 <= P -> (ns + (ns + 2 * P - 1)) / 2 = ns + P - 1.
Proof.
  intros HP. replace (ns + (ns + 2 * P - 1)) with (1 + (ns + P - 1) * 2) by lia.
  rewrite Nat.div_add by lia. cbn. lia.
Qed.

Ltac cmp_cases :=
  repeat (match goal with
          | |- context [Z.eqb ?x ?y] => destruct (Z.eqb_spec x y)
          | |- context [Z.leb ?x ?y] => destruct (Z.leb_spec x y)
          | |- context [Z.ltb ?x ?y] => destruct (Z.ltb_spec x y)
          | |- context [Nat.eqb ?x ?y] => destruct (Nat.eqb_spec x y)
          | |- context [Nat.leb ?x ?y] => destruct (Nat.leb_spec x y)
          | |- context [Nat.ltb ?x ?y] => destruct (Nat.ltb_spec x y)
          end; cbn [andb orb negb] in *).

Ltac call_IH IH fG fM n' ns' s' e' :=
  match goal with
  | |- context [SegmentTree_operate_helper fG ?zc ?l ?op ?zs ?ze ?zn ?za ?zb] =>
      rewrite (IH fG fM n' ns' s' e' zs ze zn za zb) by (lia || nia)
  end.

Lemma operate_helper_equiv (c : nat) (l : list T) : length l = 2 * c ->
  forall h fuelG fuelM node ns s e zs ze znode zns zne,
    node * 2 ^ h = c + ns -> ns + 2 ^ h <= c -> h < fuelG -> h < fuelM ->
    ns <= s -> s <= e -> e <= ns + 2 ^ h - 1 ->
    zs = Z.of_nat s -> ze = Z.of_nat e -> znode = Z.of_nat node -> zns = Z.of_nat ns ->
    zne = Z.of_nat (ns + 2 ^ h - 1) ->
    SegmentTree_operate_helper fuelG (Z.of_nat c) l op zs ze znode zns zne
    = Ok (operate_helper op dflt fuelM l s e node ns (ns + 2 ^ h - 1)).
Proof.
  intros Hlen. induction h as [|h IH]; intros fuelG fuelM node ns s e zs ze znode zns zne E R HG HM H1 H2 H3 -> -> -> -> ->;
    (destruct fuelG as [|fG]; [lia|]); (destruct fuelM as [|fM]; [lia|]);
    cbn [SegmentTree_operate_helper operate_helper].
  - cbn [Nat.pow] in *. assert (s = ns) by lia. assert (e = ns) by lia. subst s e.
    replace (ns + 1 - 1) with ns by lia. rewrite !Z.eqb_refl, !Nat.eqb_refl. cbn [andb].
    rewrite (zget_ok l _ dflt) by lia. unfold get. repeat f_equal; lia.
  - rewrite Nat.pow_succ_r' in *. set (P := 2 ^ h) in *.
    assert (HP : 1 <= P) by (unfold P; pose proof (Nat.pow_nonzero 2 h); lia).
    assert (Hnode : 1 <= node) by nia.
    assert (Hmid : ((Z.of_nat ns + Z.of_nat (ns + 2 * P - 1)) / 2)%Z = Z.of_nat (ns + P - 1)).
    { rewrite <- Nat2Z.inj_add, Zdiv2_nat, mid_of_node by exact HP. reflexivity. }
    rewrite Hmid, (mid_of_node ns P HP).
    destruct (Nat.eqb_spec s ns) as [Es|Es]; destruct (Nat.eqb_spec e (ns + 2 * P - 1)) as [Ee|Ee];
      cmp_cases; try lia; cbn [andb].
    all: try (rewrite (zget_ok l _ dflt) by nia; unfold get; repeat f_equal; lia).
    all: replace (ns + P - 1 + 1) with (ns + P) by lia; replace (ns + 2 * P - 1) with (ns + P + P - 1) by lia.
    all: repeat first [ call_IH IH fG fM (2 * node) ns s e | call_IH IH fG fM (2 * node) ns s (ns + P - 1)
                      | call_IH IH fG fM (2 * node + 1) (ns + P) s e
                      | call_IH IH fG fM (2 * node + 1) (ns + P) (ns + P) e ]; cbn [bind]; reflexivity.
Qed.

Theorem C11_translated_operate_is_model :
  forall (d c : nat) (l : list T) (s e fuel : nat),
    c = 2 ^ d -> length l = 2 * c -> d < fuel -> s < (if e =? 0 then c else e) -> e <= c ->
    SegmentTree_operate fuel (Z.of_nat c) l op (Z.of_nat s) (Z.of_nat e) = Ok (operate op dflt c l s e).
Proof.
  intros d c l s e fuel Hcd Hlen Hf Hs He.
  assert (Hc : 1 <= c) by (subst c; pose proof (Nat.pow_nonzero 2 d); lia).
  assert (Hd : d < S c) by (pose proof (Nat.pow_gt_lin_r 2 d); lia).
  unfold SegmentTree_operate, operate.
  replace (c - 1) with (0 + 2 ^ d - 1) by lia.
  destruct (Nat.eqb_spec e 0) as [E0|E0].
  - subst e. cbn [Z.of_nat Z.leb Z.compare].
    apply (operate_helper_equiv c l Hlen d); lia.
  - destruct (Z.leb_spec (Z.of_nat e) 0); [lia|].
    apply (operate_helper_equiv c l Hlen d); lia.
Qed.
End Tree.

Section Sum.
Variable C : carrier.

Theorem C11_translated_sum_is_model :
  forall (d c : nat) (l : list C) (s e fuel : nat),
    c = 2 ^ d -> length l = 2 * c -> d < fuel -> s < (if e =? 0 then c else e) -> e <= c ->
    SumSegmentTree_sum C fuel (Z.of_nat c) l (Z.of_nat s) (Z.of_nat e) = Ok (operate (c_add C) (c_zero C) c l s e).
Proof. intros d c l s e fuel Hcd. intros. unfold SumSegmentTree_sum. apply (C11_translated_operate_is_model _ _ d); assumption. Qed.

Theorem C11_translated_retrieve_is_model :
  forall (d c : nat) (l : list C) (ub : C) (fuel : nat),
    c = 2 ^ d -> length l = 2 * c -> d < fuel ->
    SumSegmentTree_retrieve C fuel (Z.of_nat c) l ub
    = match retrieve C c l ub with Some k => Ok (Z.of_nat k) | None => PyErr AssertionError end.
Proof.
  intros d c l ub fuel Hcd Hlen Hf.
  assert (Hc : 1 <= c) by (subst c; pose proof (Nat.pow_nonzero 2 d); lia).
  unfold SumSegmentTree_retrieve, retrieve, root.
  change 0%Z with (Z.of_nat 0).
  rewrite (C11_translated_sum_is_model d c l 0 0 fuel Hcd) by (cbn [Nat.eqb]; lia). cbn [bind].
  destruct (c_leb C (c_zero C) ub); cbn [andb bind]; [|reflexivity].
  destruct (c_leb C ub (c_add C (operate (c_add C) (c_zero C) c l 0 0) (c_eps C))); [|reflexivity].
  match goal with |- context [while_loop _ ?step _] => set (STEP := step) end.
  assert (L : forall n fuelG fuelM idx u zi, 1 <= idx -> idx < 2 * c -> c <= idx * 2 ^ n -> n < fuelG -> n <= fuelM ->
             zi = Z.of_nat idx ->
             exists u' zf, while_loop fuelG STEP (u, zi) = Ok (u', zf)
                           /\ (zf - Z.of_nat c)%Z = Z.of_nat (retrieve_go C fuelM idx c l u)).
  { induction n as [|n IH]; intros fuelG fuelM idx u zi H1 H2 H3 HG HM ->;
      (destruct fuelG as [|fG]; [lia|]); rewrite while_loop_S; unfold STEP at 1.
    - cbn [Nat.pow] in H3. destruct (Z.ltb_spec (Z.of_nat idx) (Z.of_nat c)); [lia|]. cbn [bind].
      exists u, (Z.of_nat idx). split; [reflexivity|].
      destruct fuelM; cbn [retrieve_go]; [lia|]. destruct (Nat.ltb_spec idx c); lia.
    - destruct (Z.ltb_spec (Z.of_nat idx) (Z.of_nat c)) as [Hlt|Hge].
      + rewrite !(zget_ok l _ (c_zero C)) by lia. cbn [bind].
        destruct fuelM as [|fM]; [lia|]. cbn [retrieve_go].
        destruct (Nat.ltb_spec idx c); [|lia].
        repeat match goal with |- context [Z.to_nat ?z] => replace (Z.to_nat z) with (2 * idx) by lia end.
        unfold get. rewrite Nat.pow_succ_r' in H3.
        destruct (c_ltb C u (nth (2 * idx) l (c_zero C))); cbn [bind].
        * apply (IH fG fM (2 * idx)); lia.
        * apply (IH fG fM (2 * idx + 1)); lia.
      + cbn [bind]. exists u, (Z.of_nat idx). split; [reflexivity|].
        destruct fuelM; cbn [retrieve_go]; [lia|]. destruct (Nat.ltb_spec idx c); lia. }
  destruct (L d fuel c 1 ub 1%Z) as (u' & zf & Hw & Hz); try lia.
  { pose proof (Nat.pow_gt_lin_r 2 d). lia. }
  rewrite Hw. cbn [bind]. rewrite Hz. reflexivity.
Qed.
End Sum.

(* the recursive range query, stated for the node that covers the leaves ns .. ns + 2^h - 1 (node * 2^h = c + ns) *)
Theorem C11_translated_operate_helper_is_model :
  forall (T : Type) (op : T -> T -> T) (dflt : T) (c : nat) (l : list T), length l = 2 * c ->
  forall h fuelG fuelM node ns s e,
    node * 2 ^ h = c + ns -> ns + 2 ^ h <= c -> h < fuelG -> h < fuelM ->
    ns <= s -> s <= e -> e <= ns + 2 ^ h - 1 ->
    SegmentTree_operate_helper fuelG (Z.of_nat c) l op (Z.of_nat s) (Z.of_nat e) (Z.of_nat node) (Z.of_nat ns)
                               (Z.of_nat (ns + 2 ^ h - 1))
    = Ok (operate_helper op dflt fuelM l s e node ns (ns + 2 ^ h - 1)).
Proof. intros. eapply operate_helper_equiv; eauto. Qed.

(* ---- transfer: theorems of props/C11.v restated on the translated code ---- *)
(* tree_inv + the written leaf: the real __setitem__ re-establishes the tree invariant *)
Theorem C11_translated_setitem_keeps_invariant :
  forall (T : Type) (op : T -> T -> T) (dflt : T) (c : nat) (l : list T) (idx : nat) (v : T) (fuel : nat),
    Inv op dflt c l -> idx < c -> idx + c <= fuel ->
    exists l', SegmentTree_setitem fuel (Z.of_nat c) l op (Z.of_nat idx) v = Ok l'
               /\ Inv op dflt c l' /\ leaf dflt c l' idx = v.
Proof.
  intros T op dflt c l idx v fuel HI Hi Hf. exists (setitem op dflt c l idx v). split; [|split].
  - apply C11_translated_setitem_is_model; [apply HI | exact Hi | exact Hf].
  - apply setitem_inv; assumption.
  - apply setitem_leaf_same; [apply HI | exact Hi].
Qed.

(* retrieve_in_tree: whatever the carrier (binary64 included), the real retrieve returns a leaf index *)
Theorem C11_translated_retrieve_in_tree :
  forall (C : carrier) (d c : nat) (l : list C) (ub : C) (fuel : nat) (k : Z),
    c = 2 ^ d -> length l = 2 * c -> d < fuel ->
    SumSegmentTree_retrieve C fuel (Z.of_nat c) l ub = Ok k -> (0 <= k < Z.of_nat c)%Z.
Proof.
  intros C d c l ub fuel k Hc Hl Hf H.
  rewrite (C11_translated_retrieve_is_model C d c l ub fuel Hc Hl Hf) in H.
  destruct (retrieve C c l ub) as [r|] eqn:E; [|discriminate].
  injection H as <-. subst c. apply retrieve_in_tree in E. lia.
Qed.

Print Assumptions C11_translated_setitem_is_model.
Print Assumptions C11_translated_operate_helper_is_model.
Print Assumptions C11_translated_operate_is_model.
Print Assumptions C11_translated_sum_is_model.
Print Assumptions C11_translated_retrieve_is_model.
Print Assumptions C11_translated_setitem_keeps_invariant.
Print Assumptions C11_translated_retrieve_in_tree.

(* ---- PrioritizedReplayBuffer.__init__: tree_capacity = 1; while tree_capacity < max_size: tree_capacity *= 2 ---- *)
Theorem C11_translated_tree_capacity_is_model :
  forall (m fuel : nat), m < fuel ->
    PrioritizedReplayBuffer_tree_capacity fuel (Z.of_nat m) = Ok (Z.of_nat (tree_capacity m)).
Proof.
  intros m fuel Hf. unfold PrioritizedReplayBuffer_tree_capacity, tree_capacity. cbv zeta.
  match goal with |- context [while_loop _ ?step _] => set (STEP := step) end.
  assert (L : forall n fuelG fuelM c zc, 1 <= c -> m <= c + n -> n < fuelG -> n <= fuelM -> zc = Z.of_nat c ->
             while_loop fuelG STEP zc = Ok (Z.of_nat (tcap_go fuelM c m))).
  { induction n as [|n IH]; intros fuelG fuelM c zc Hc Hm HG HM ->;
      (destruct fuelG as [|fG]; [lia|]); rewrite while_loop_S; unfold STEP at 1; cbn [bind].
    - destruct (Z.ltb_spec (Z.of_nat c) (Z.of_nat m)); [lia|]. cbn [bind].
      destruct fuelM; cbn [tcap_go]; [reflexivity|]. destruct (Nat.ltb_spec c m); [lia|reflexivity].
    - destruct (Z.ltb_spec (Z.of_nat c) (Z.of_nat m)) as [Hlt|Hge]; cbn [bind].
      + destruct fuelM as [|fM]; [lia|]. cbn [tcap_go]. destruct (Nat.ltb_spec c m); [|lia].
        apply (IH fG fM (2 * c)); lia.
      + destruct fuelM; cbn [tcap_go]; [reflexivity|]. destruct (Nat.ltb_spec c m); [lia|reflexivity]. }
  apply (L m fuel m 1); lia.
Qed.
Print Assumptions C11_translated_tree_capacity_is_model.
