(* C11 — translation tie.  GenC11.v is regenerated from /repo's CURRENT source of
   agilerl/components/segment_tree.py (SegmentTree.__setitem__, _operate_helper, operate; SumSegmentTree.sum,
   retrieve) by harness/pytrans.py on every run of ./check C11.  This committed file proves, for every carrier,
   every operation, every tree array of the right length and all indices / bounds inside the guards the code
   itself states, that the code-as-translated returns [Ok] of what the hand-written model C11/Model.v computes:
   no IndexError, no negative index, and the explicit fuel of the loops / the recursion is never exhausted
   (fuel >= idx + capacity for the climb, fuel > log2 capacity for the descent and the range query).
   Python ints are Z in the generated code and nat in the model: the theorems relate them through Z.of_nat.
   Hence the theorems of coq/props/C11.v about setitem / operate / root / retrieve are theorems about the
   translated source; two are transferred explicitly at the end.
   The proofs mention generated names only through the function names; loop bodies are picked up from the goal
   ([set (STEP := ...)]), recursive calls are found by matching on the function name. *)
From Coq Require Import List Arith Bool ZArith Lia.
Import ListNotations.
From AgileV Require Import TR.PyLib C11.Model C11.TreeProofs C11.GenericProofs C11.Strict.
From AgileGen Require Import GenC11.

Lemma zget_ok {A} (l : list A) (i : Z) (d : A) :
  (0 <= i < Z.of_nat (length l))%Z -> zget l i = Ok (nth (Z.to_nat i) l d).
Proof.
  intros H. unfold zget. destruct (Z.ltb_spec i 0); [lia|].
  destruct (nth_error l (Z.to_nat i)) eqn:E.
  - rewrite (nth_error_nth _ _ d E). reflexivity.
  - apply nth_error_None in E. lia.
Qed.

Lemma zset_ok {A} (l : list A) (i : Z) (v : A) :
  (0 <= i < Z.of_nat (length l))%Z -> zset l i v = Ok (upd l (Z.to_nat i) v).
Proof.
  intros H. unfold zset, zlen. destruct (Z.ltb_spec i 0); [lia|].
  destruct (Z.ltb_spec i (Z.of_nat (length l))); [|lia].
  f_equal. generalize (Z.to_nat i). clear. induction l; destruct n; simpl; auto. f_equal. auto.
Qed.

Lemma Zdiv2_nat i : (Z.of_nat i / 2)%Z = Z.of_nat (i / 2).
Proof. rewrite Nat2Z.inj_div. reflexivity. Qed.

Section Tree.
Context {T : Type} (op : T -> T -> T) (dflt : T).

Theorem C11_translated_setitem_is_model :
  forall (c : nat) (l : list T) (idx : nat) (v : T) (fuel : nat),
    length l = 2 * c -> idx < c -> idx + c <= fuel ->
    SegmentTree_setitem fuel (Z.of_nat c) l op (Z.of_nat idx) v = Ok (setitem op dflt c l idx v).
Proof.
  intros c l idx v fuel Hlen Hidx Hfuel.
  unfold SegmentTree_setitem, setitem.
  rewrite <- Nat2Z.inj_add.
  rewrite zset_ok by lia. cbn [bind]. rewrite Nat2Z.id, Zdiv2_nat.
  match goal with |- context [while_loop _ ?step _] => set (STEP := step) end.
  assert (L : forall n fuelG fuelM i l0 zi, i <= n -> i < fuelG -> i <= fuelM -> i < c -> length l0 = 2 * c ->
             zi = Z.of_nat i ->
             exists z, while_loop fuelG STEP (l0, zi) = Ok (fixup op dflt fuelM i l0, z)).
  { induction n as [|n IH]; intros fuelG fuelM i l0 zi Hn HG HM Hi Hl0 ->;
      (destruct fuelG as [|fuelG]; [lia|]); rewrite while_loop_S; unfold STEP at 1.
    - assert (i = 0) by lia. subst i. cbn [Z.of_nat Z.leb Z.compare bind].
      eexists. destruct fuelM; reflexivity.
    - destruct (Z.leb_spec 1 (Z.of_nat i)) as [H1|H1].
      + rewrite (zget_ok l0 _ dflt) by lia. cbn [bind].
        rewrite (zget_ok l0 _ dflt) by lia. cbn [bind].
        rewrite zset_ok by lia. cbn [bind].
        destruct fuelM as [|fuelM]; [lia|]. cbn [fixup].
        destruct (Nat.ltb_spec i 1) as [H2|H2]; [lia|].
        assert (i / 2 < i) by (apply Nat.div_lt; lia).
        destruct (IH fuelG fuelM (i / 2) (upd l0 i (op (get dflt l0 (2 * i)) (get dflt l0 (2 * i + 1)))) (Z.of_nat i / 2)%Z)
          as [z Hz]; try lia; [rewrite upd_length; exact Hl0 | apply Zdiv2_nat |].
        exists z. rewrite <- Hz. unfold get. repeat f_equal; clear; lia.
      + assert (i = 0) by lia. subst i. cbn [bind]. eexists. destruct fuelM; reflexivity. }
  assert (D1 : (idx + c) / 2 < c) by (apply Nat.div_lt_upper_bound; lia).
  assert (D2 : (idx + c) / 2 <= idx + c) by (apply Nat.div_le_upper_bound; lia).
  set (i0 := (idx + c) / 2) in *.
  destruct (L i0 fuel (idx + c) i0 (upd l (idx + c) v) (Z.of_nat i0)) as [z Hz];
    try lia; try reflexivity; try (rewrite upd_length; exact Hlen).
  rewrite Hz. reflexivity.
Qed.

Lemma mid_of_node ns P : 1 <= P -> (ns + (ns + 2 * P - 1)) / 2 = ns + P - 1.
Proof.
  intros HP. replace (ns + (ns + 2 * P - 1)) with (1 + (ns + P - 1) * 2) by lia.
  rewrite Nat.div_add by lia. cbn. lia.
Qed.

Ltac cmp_cases :=
  repeat (match goal with
          | |- context [Z.eqb ?x ?y] => destruct (Z.eqb_spec x y)
          | |- context [Z.leb ?x ?y] => destruct (Z.leb_spec x y)
          | |- context [Z.ltb ?x ?y] => destruct (Z.ltb_spec x y)
          | |- context [Nat.eqb ?x ?y] => destruct (Nat.eqb_spec x y)
          | |- context [Nat.leb ?x ?y] => destruct (Nat.leb_spec x y)
          | |- context [Nat.ltb ?x ?y] => destruct (Nat.ltb_spec x y)
          end; cbn [andb orb negb] in *).

Ltac call_IH IH fG fM n' ns' s' e' :=
  match goal with
  | |- context [SegmentTree_operate_helper fG ?zc ?l ?op ?zs ?ze ?zn ?za ?zb] =>
      rewrite (IH fG fM n' ns' s' e' zs ze zn za zb) by (lia || nia)
  end.

Lemma operate_helper_equiv (c : nat) (l : list T) : length l = 2 * c ->
  forall h fuelG fuelM node ns s e zs ze znode zns zne,
    node * 2 ^ h = c + ns -> ns + 2 ^ h <= c -> h < fuelG -> h < fuelM ->
    ns <= s -> s <= e -> e <= ns + 2 ^ h - 1 ->
    zs = Z.of_nat s -> ze = Z.of_nat e -> znode = Z.of_nat node -> zns = Z.of_nat ns ->
    zne = Z.of_nat (ns + 2 ^ h - 1) ->
    SegmentTree_operate_helper fuelG (Z.of_nat c) l op zs ze znode zns zne
    = Ok (operate_helper op dflt fuelM l s e node ns (ns + 2 ^ h - 1)).
Proof.
  intros Hlen. induction h as [|h IH]; intros fuelG fuelM node ns s e zs ze znode zns zne E R HG HM H1 H2 H3 -> -> -> -> ->;
    (destruct fuelG as [|fG]; [lia|]); (destruct fuelM as [|fM]; [lia|]);
    cbn [SegmentTree_operate_helper operate_helper].
  - cbn [Nat.pow] in *. assert (s = ns) by lia. assert (e = ns) by lia. subst s e.
    replace (ns + 1 - 1) with ns by lia. rewrite !Z.eqb_refl, !Nat.eqb_refl. cbn [andb].
    rewrite (zget_ok l _ dflt) by lia. unfold get. repeat f_equal; lia.
  - rewrite Nat.pow_succ_r' in *. set (P := 2 ^ h) in *.
    assert (HP : 1 <= P) by (unfold P; pose proof (Nat.pow_nonzero 2 h); lia).
    assert (Hnode : 1 <= node) by nia.
    assert (Hmid : ((Z.of_nat ns + Z.of_nat (ns + 2 * P - 1)) / 2)%Z = Z.of_nat (ns + P - 1)).
    { rewrite <- Nat2Z.inj_add, Zdiv2_nat, mid_of_node by exact HP. reflexivity. }
    rewrite Hmid, (mid_of_node ns P HP).
    destruct (Nat.eqb_spec s ns) as [Es|Es]; destruct (Nat.eqb_spec e (ns + 2 * P - 1)) as [Ee|Ee];
      cmp_cases; try lia; cbn [andb].
    all: try (rewrite (zget_ok l _ dflt) by nia; unfold get; repeat f_equal; lia).
    all: replace (ns + P - 1 + 1) with (ns + P) by lia; replace (ns + 2 * P - 1) with (ns + P + P - 1) by lia.
    all: repeat first [ call_IH IH fG fM (2 * node) ns s e | call_IH IH fG fM (2 * node) ns s (ns + P - 1)
                      | call_IH IH fG fM (2 * node + 1) (ns + P) s e
                      | call_IH IH fG fM (2 * node + 1) (ns + P) (ns + P) e ]; cbn [bind]; reflexivity.
Qed.

Theorem C11_translated_operate_is_model :
  forall (d c : nat) (l : list T) (s e fuel : nat),
    c = 2 ^ d -> length l = 2 * c -> d < fuel -> s < (if e =? 0 then c else e) -> e <= c ->
    SegmentTree_operate fuel (Z.of_nat c) l op (Z.of_nat s) (Z.of_nat e) = Ok (operate op dflt c l s e).
Proof.
  intros d c l s e fuel Hcd Hlen Hf Hs He.
  assert (Hc : 1 <= c) by (subst c; pose proof (Nat.pow_nonzero 2 d); lia).
  assert (Hd : d < S c) by (pose proof (Nat.pow_gt_lin_r 2 d); lia).
  unfold SegmentTree_operate, operate.
  replace (c - 1) with (0 + 2 ^ d - 1) by lia.
  destruct (Nat.eqb_spec e 0) as [E0|E0].
  - subst e. cbn [Z.of_nat Z.leb Z.compare].
    apply (operate_helper_equiv c l Hlen d); lia.
  - destruct (Z.leb_spec (Z.of_nat e) 0); [lia|].
    apply (operate_helper_equiv c l Hlen d); lia.
Qed.
End Tree.

Section Sum.
Variable C : carrier.

Theorem C11_translated_sum_is_model :
  forall (d c : nat) (l : list C) (s e fuel : nat),
    c = 2 ^ d -> length l = 2 * c -> d < fuel -> s < (if e =? 0 then c else e) -> e <= c ->
    SumSegmentTree_sum C fuel (Z.of_nat c) l (Z.of_nat s) (Z.of_nat e) = Ok (operate (c_add C) (c_zero C) c l s e).
Proof. intros d c l s e fuel Hcd. intros. unfold SumSegmentTree_sum. apply (C11_translated_operate_is_model _ _ d); assumption. Qed.

Theorem C11_translated_retrieve_is_model :
  forall (d c : nat) (l : list C) (ub : C) (fuel : nat),
    c = 2 ^ d -> length l = 2 * c -> d < fuel ->
    SumSegmentTree_retrieve C fuel (Z.of_nat c) l ub
    = match retrieve C c l ub with Some k => Ok (Z.of_nat k) | None => PyErr AssertionError end.
Proof.
  intros d c l ub fuel Hcd Hlen Hf.
  assert (Hc : 1 <= c) by (subst c; pose proof (Nat.pow_nonzero 2 d); lia).
  unfold SumSegmentTree_retrieve, retrieve, root.
  change 0%Z with (Z.of_nat 0).
  rewrite (C11_translated_sum_is_model d c l 0 0 fuel Hcd) by (cbn [Nat.eqb]; lia). cbn [bind].
  destruct (c_leb C (c_zero C) ub); cbn [andb bind]; [|reflexivity].
  destruct (c_leb C ub (c_add C (operate (c_add C) (c_zero C) c l 0 0) (c_eps C))); [|reflexivity].
  match goal with |- context [while_loop _ ?step _] => set (STEP := step) end.
  assert (L : forall n fuelG fuelM idx u zi, 1 <= idx -> idx < 2 * c -> c <= idx * 2 ^ n -> n < fuelG -> n <= fuelM ->
             zi = Z.of_nat idx ->
             exists u' zf, while_loop fuelG STEP (u, zi) = Ok (u', zf)
                           /\ (zf - Z.of_nat c)%Z = Z.of_nat (retrieve_go C fuelM idx c l u)).
  { induction n as [|n IH]; intros fuelG fuelM idx u zi H1 H2 H3 HG HM ->;
      (destruct fuelG as [|fG]; [lia|]); rewrite while_loop_S; unfold STEP at 1.
    - cbn [Nat.pow] in H3. destruct (Z.ltb_spec (Z.of_nat idx) (Z.of_nat c)); [lia|]. cbn [bind].
      exists u, (Z.of_nat idx). split; [reflexivity|].
      destruct fuelM; cbn [retrieve_go]; [lia|]. destruct (Nat.ltb_spec idx c); lia.
    - destruct (Z.ltb_spec (Z.of_nat idx) (Z.of_nat c)) as [Hlt|Hge].
      + rewrite !(zget_ok l _ (c_zero C)) by lia. cbn [bind].
        destruct fuelM as [|fM]; [lia|]. cbn [retrieve_go].
        destruct (Nat.ltb_spec idx c); [|lia].
        repeat match goal with |- context [Z.to_nat ?z] => replace (Z.to_nat z) with (2 * idx) by lia end.
        unfold get. rewrite Nat.pow_succ_r' in H3.
        destruct (c_ltb C u (nth (2 * idx) l (c_zero C))); cbn [bind].
        * apply (IH fG fM (2 * idx)); lia.
        * apply (IH fG fM (2 * idx + 1)); lia.
      + cbn [bind]. exists u, (Z.of_nat idx). split; [reflexivity|].
        destruct fuelM; cbn [retrieve_go]; [lia|]. destruct (Nat.ltb_spec idx c); lia. }
  destruct (L d fuel c 1 ub 1%Z) as (u' & zf & Hw & Hz); try lia.
  { pose proof (Nat.pow_gt_lin_r 2 d). lia. }
  rewrite Hw. cbn [bind]. rewrite Hz. reflexivity.
Qed.
End Sum.

(* the recursive range query, stated for the node that covers the leaves ns .. ns + 2^h - 1 (node * 2^h = c + ns) *)
Theorem C11_translated_operate_helper_is_model :
  forall (T : Type) (op : T -> T -> T) (dflt : T) (c : nat) (l : list T), length l = 2 * c ->
  forall h fuelG fuelM node ns s e,
    node * 2 ^ h = c + ns -> ns + 2 ^ h <= c -> h < fuelG -> h < fuelM ->
    ns <= s -> s <= e -> e <= ns + 2 ^ h - 1 ->
    SegmentTree_operate_helper fuelG (Z.of_nat c) l op (Z.of_nat s) (Z.of_nat e) (Z.of_nat node) (Z.of_nat ns)
                               (Z.of_nat (ns + 2 ^ h - 1))
    = Ok (operate_helper op dflt fuelM l s e node ns (ns + 2 ^ h - 1)).
Proof. intros. eapply operate_helper_equiv; eauto. Qed.

(* ---- transfer: theorems of props/C11.v restated on the translated code ---- *)
(* tree_inv + the written leaf: the real __setitem__ re-establishes the tree invariant *)
Theorem C11_translated_setitem_keeps_invariant :
  forall (T : Type) (op : T -> T -> T) (dflt : T) (c : nat) (l : list T) (idx : nat) (v : T) (fuel : nat),
    Inv op dflt c l -> idx < c -> idx + c <= fuel ->
    exists l', SegmentTree_setitem fuel (Z.of_nat c) l op (Z.of_nat idx) v = Ok l'
               /\ Inv op dflt c l' /\ leaf dflt c l' idx = v.
Proof.
  intros T op dflt c l idx v fuel HI Hi Hf. exists (setitem op dflt c l idx v). split; [|split].
  - apply C11_translated_setitem_is_model; [apply HI | exact Hi | exact Hf].
  - apply setitem_inv; assumption.
  - apply setitem_leaf_same; [apply HI | exact Hi].
Qed.

(* retrieve_in_tree: whatever the carrier (binary64 included), the real retrieve returns a leaf index *)
Theorem C11_translated_retrieve_in_tree :
  forall (C : carrier) (d c : nat) (l : list C) (ub : C) (fuel : nat) (k : Z),
    c = 2 ^ d -> length l = 2 * c -> d < fuel ->
    SumSegmentTree_retrieve C fuel (Z.of_nat c) l ub = Ok k -> (0 <= k < Z.of_nat c)%Z.
Proof.
  intros C d c l ub fuel k Hc Hl Hf H.
  rewrite (C11_translated_retrieve_is_model C d c l ub fuel Hc Hl Hf) in H.
  destruct (retrieve C c l ub) as [r|] eqn:E; [|discriminate].
  injection H as <-. subst c. apply retrieve_in_tree in E. lia.
Qed.

Print Assumptions C11_translated_setitem_is_model.
Print Assumptions C11_translated_operate_helper_is_model.
Print Assumptions C11_translated_operate_is_model.
Print Assumptions C11_translated_sum_is_model.
Print Assumptions C11_translated_retrieve_is_model.
Print Assumptions C11_translated_setitem_keeps_invariant.
Print Assumptions C11_translated_retrieve_in_tree.

(* ---- PrioritizedReplayBuffer.__init__: tree_capacity = 1; while tree_capacity < max_size: tree_capacity *= 2 ---- *)
Theorem C11_translated_tree_capacity_is_model :
  forall (m fuel : nat), m < fuel ->
    PrioritizedReplayBuffer_tree_capacity fuel (Z.of_nat m) = Ok (Z.of_nat (tree_capacity m)).
Proof.
  intros m fuel Hf. unfold PrioritizedReplayBuffer_tree_capacity, tree_capacity. cbv zeta.
  match goal with |- context [while_loop _ ?step _] => set (STEP := step) end.
  assert (L : forall n fuelG fuelM c zc, 1 <= c -> m <= c + n -> n < fuelG -> n <= fuelM -> zc = Z.of_nat c ->
             while_loop fuelG STEP zc = Ok (Z.of_nat (tcap_go fuelM c m))).
  { induction n as [|n IH]; intros fuelG fuelM c zc Hc Hm HG HM ->;
      (destruct fuelG as [|fG]; [lia|]); rewrite while_loop_S; unfold STEP at 1; cbn [bind].
    - destruct (Z.ltb_spec (Z.of_nat c) (Z.of_nat m)); [lia|]. cbn [bind].
      destruct fuelM; cbn [tcap_go]; [reflexivity|]. destruct (Nat.ltb_spec c m); [lia|reflexivity].
    - destruct (Z.ltb_spec (Z.of_nat c) (Z.of_nat m)) as [Hlt|Hge]; cbn [bind].
      + destruct fuelM as [|fM]; [lia|]. cbn [tcap_go]. destruct (Nat.ltb_spec c m); [|lia].
        apply (IH fG fM (2 * c)); lia.
      + destruct fuelM; cbn [tcap_go]; [reflexivity|]. destruct (Nat.ltb_spec c m); [lia|reflexivity]. }
  apply (L m fuel m 1); lia.
Qed.
Print Assumptions C11_translated_tree_capacity_is_model.

(* =================== the PrioritizedReplayBuffer methods over abstract tree objects ================== *)
(* _update_priority, the priority loop of add, update_priorities and _sample_proportional are translated with the two
   segment trees as ABSTRACT objects (operations: tree[idx] = x, sum(), retrieve(x); also x ** alpha, float (op) int,
   super().add, data.shape[0]; harness/pytrans.py, C11 PER table).  Here the operations are interpreted by the model's
   tree functions (setitem / root / retrieve on the tree arrays of capacity tc — the functions the theorems above tie to
   the translated SegmentTree code) and the translated methods are proved equal to the model's update_priority /
   add_loop / per_update / sample_proportional: same assert, both trees written with priority ** alpha, max_priority
   the running maximum, tree_ptr advancing modulo max_size, priorities floored at 1e-5, stratified upper bounds
   u * (b - a) + a with a = segment * i and b = segment * (i + 1). *)
(* C11.PerProofs (imported through GenericProofs) makes the carrier implicit in the projections of [per]; this part
   was written against C11.Model alone *)
Arguments max_size : clear implicits. Arguments tcap : clear implicits. Arguments size : clear implicits.
Arguments cursor : clear implicits. Arguments tree_ptr : clear implicits. Arguments max_prio : clear implicits.
Arguments sumt : clear implicits. Arguments mint : clear implicits.
Section PerEquiv.
Variable C : carrier.
Variables (powa powb : C -> C).
Variable tc : nat.     (* the capacity of the two trees (a power of two >= max_size; fixed by __init__) *)

(* ---- interpretation of the abstract tree operations by the model's tree functions ---- *)
Definition i_sum_set (i : Z) (t : list C) (v : C) : list C := setitem (c_add C) (c_zero C) tc t (Z.to_nat i) v.
Definition i_min_set (i : Z) (t : list (option C)) (v : C) : list (option C) := setitem (omin C) None tc t (Z.to_nat i) (Some v).
Definition i_sum_total (t : list C) : C := root (c_add C) (c_zero C) tc t.
Definition i_sum_retrieve (t : list C) (ub : C) : res Z :=
  match retrieve C tc t ub with Some k => Ok (Z.of_nat k) | None => PyErr AssertionError end.
Definition i_sum_get (t : list C) (i : Z) : res C :=
  if ((0 <=? i) && (i <? Z.of_nat tc))%Z then Ok (leaf (c_zero C) tc t (Z.to_nat i)) else PyErr AssertionError.
Definition i_min_min (t : list (option C)) : res C :=
  match root (omin C) None tc t with Some m => Ok m | None => PyErr ValueError end.
Definition i_mul_z (a : C) (i : Z) : C := c_mul C a (c_of_nat C (Z.to_nat i)).
Definition i_div_z (a : C) (i : Z) : C := c_div C a (c_of_nat C (Z.to_nat i)).

(* the ReplayBuffer part of the object, as far as these methods look at it: the number of stored transitions.
   super().add(data) makes it min(size + rows, max_size) (C09: rb_add), self.size reads it *)
Definition i_padd (M : nat) (sz rows : nat) : nat := Nat.min (sz + rows) M.

Definition per_fields (s : per C) : list C * list (option C) * C := (sumt C s, mint C s, max_prio C s).

Definition t_update (s : per C) (idx : Z) (p : C) :=
  PER_update_priority C powa powb i_sum_get i_min_min i_sum_set i_min_set i_sum_total i_sum_retrieve i_mul_z i_div_z
    (i_padd (max_size C s)) Z.of_nat Z.of_nat
    (Z.of_nat (max_size C s)) (sumt C s) (mint C s) (max_prio C s) (size C s) idx p.

(* against the model with the REPAIRED assertion (fix 123e2e4: 0 <= idx < self.size), C11/Strict.v with strict = true *)
Theorem C11_translated_update_priority_is_model :
  forall (s : per C) (idx : nat) (p : C), tcap C s = tc ->
    t_update s (Z.of_nat idx) p
    = match update_priority_g C powa true s idx p with Some s' => Ok (per_fields s') | None => PyErr AssertionError end.
Proof.
  intros s idx p Htc. unfold t_update, PER_update_priority, update_priority_g, idx_bound. cbv zeta.
  destruct (Z.leb_spec 0 (Z.of_nat idx)); [|lia].
  destruct (Nat.ltb_spec idx (size C s)); destruct (Z.ltb_spec (Z.of_nat idx) (Z.of_nat (size C s))); try lia;
    cbn [andb]; [|reflexivity].
  unfold per_fields, i_sum_set, i_min_set, py_max. cbn [sumt mint max_prio]. rewrite Nat2Z.id, Htc. reflexivity.
Qed.

Lemma for_go_S {S : Type} (k : nat) (i : Z) (body : Z -> S -> res (S + S)) (s : S) :
  for_go (Datatypes.S k) i body s =
  bind (body i s) (fun r => match r with inl s' => for_go k (i + 1)%Z body s' | inr s' => Ok s' end).
Proof. reflexivity. Qed.

Definition t_add (s : per C) (n : nat) :=
  PER_add C powa powb i_sum_get i_min_min i_sum_set i_min_set i_sum_total i_sum_retrieve i_mul_z i_div_z
    (i_padd (max_size C s)) Z.of_nat Z.of_nat
    (Z.of_nat (max_size C s)) (sumt C s) (mint C s) (max_prio C s) (size C s) (Z.of_nat (tree_ptr C s)) n.

Definition per_fields_ptr (s : per C) := (sumt C s, mint C s, max_prio C s, Z.of_nat (tree_ptr C s)).

Lemma update_keeps (s s' : per C) idx p : update_priority_g C powa true s idx p = Some s' ->
  max_size C s' = max_size C s /\ tcap C s' = tcap C s /\ tree_ptr C s' = tree_ptr C s /\ size C s' = size C s /\
  idx < size C s.
Proof.
  unfold update_priority_g, idx_bound. destruct (Nat.ltb_spec idx (size C s)); [|discriminate].
  intros E. injection E as <-. cbn. auto.
Qed.

(* add: super().add(data) first (the stored count becomes min(size + n, max_size)), then n new entries get the current
   maximal priority at tree_ptr, which wraps at max_size; every one of them must be a stored slot *)
Theorem C11_translated_per_add_is_model :
  forall (s : per C) (n : nat), tcap C s = tc ->
    t_add s n = match per_add_g C powa true s n with
                | Some s' => Ok (sumt C s', mint C s', max_prio C s', Z.of_nat (tree_ptr C s'), size C s')
                | None => PyErr AssertionError
                end.
Proof.
  intros s n Htc. unfold t_add, PER_add, per_add_g.
  set (s0 := {| max_size := max_size C s; tcap := tcap C s; size := Nat.min (size C s + n) (max_size C s);
                cursor := (cursor C s + n) mod max_size C s; tree_ptr := tree_ptr C s; max_prio := max_prio C s;
                sumt := sumt C s; mint := mint C s |}).
  cbv zeta. unfold for_range. rewrite Z.sub_0_r, Nat2Z.id.
  set (M := max_size C s). unfold i_padd. set (SZ := Nat.min (size C s + n) M).
  match goal with |- context [for_go _ _ ?body _] => set (BODY := body) end.
  assert (L : forall k i s1, tcap C s1 = tc -> max_size C s1 = M -> size C s1 = SZ ->
             for_go k i BODY (per_fields_ptr s1)
             = match add_loop_g C powa true k s1 with Some s' => Ok (per_fields_ptr s') | None => PyErr AssertionError end).
  { induction k as [|k IH]; intros i s1 H1 H2 H3; [reflexivity|].
    rewrite for_go_S. unfold BODY at 1. unfold per_fields_ptr at 1.
    pose proof (C11_translated_update_priority_is_model s1 (tree_ptr C s1) (max_prio C s1) H1) as HU.
    unfold t_update in HU. rewrite H2, H3 in HU. unfold i_padd in HU. fold M in HU. rewrite HU. clear HU. cbn [add_loop_g].
    destruct (update_priority_g C powa true s1 (tree_ptr C s1) (max_prio C s1)) as [s2|] eqn:EU; [|reflexivity].
    destruct (update_keeps _ _ _ _ EU) as (K1 & K2 & K3 & K4 & K5).
    unfold per_fields. cbn [bind]. unfold zmod.
    assert (0 < M) by (unfold SZ in H3; lia).
    destruct (Z.eqb_spec (Z.of_nat M) 0); [lia|]. cbn [bind].
    rewrite <- (IH (i + 1)%Z (set_ptr C s2 ((tree_ptr C s1 + 1) mod max_size C s1))) by (cbn; congruence).
    unfold per_fields_ptr, set_ptr. cbn [sumt mint max_prio tree_ptr].
    rewrite H2. rewrite Nat2Z.inj_mod, Nat2Z.inj_add. reflexivity. }
  pose proof (L n 0%Z s0 Htc eq_refl eq_refl) as HL. unfold per_fields_ptr at 1 in HL. cbn [sumt mint max_prio tree_ptr s0] in HL.
  rewrite HL.
  assert (KS : forall k s1 s', add_loop_g C powa true k s1 = Some s' -> size C s' = size C s1).
  { induction k as [|k IHk]; intros s1 s' E; cbn [add_loop_g] in E; [injection E as <-; reflexivity|].
    destruct (update_priority_g C powa true s1 (tree_ptr C s1) (max_prio C s1)) as [s2|] eqn:EU; [|discriminate].
    destruct (update_keeps _ _ _ _ EU) as (_ & _ & _ & K4 & _). apply IHk in E. cbn [set_ptr size] in E. congruence. }
  destruct (add_loop_g C powa true n s0) as [s'|] eqn:EA; [|reflexivity].
  rewrite (KS _ _ _ EA). reflexivity.
Qed.

Lemma zget_mid {A} (pre : list A) (x : A) (r : list A) : zget (pre ++ x :: r) (Z.of_nat (length pre)) = Ok x.
Proof.
  unfold zget. destruct (Z.ltb_spec (Z.of_nat (length pre)) 0); [lia|].
  rewrite Nat2Z.id, nth_error_app2, Nat.sub_diag by lia. reflexivity.
Qed.

Definition zs (l : list nat) : list Z := map Z.of_nat l.

Definition t_update_all (s : per C) (idxs : list nat) (prios : list C) :=
  PER_update_priorities C powa powb i_sum_get i_min_min i_sum_set i_min_set i_sum_total i_sum_retrieve i_mul_z i_div_z
    (i_padd (max_size C s)) Z.of_nat Z.of_nat
    (Z.of_nat (max_size C s)) (sumt C s) (mint C s) (max_prio C s) (size C s) (zs idxs) prios.

(* update_priorities: index / priority pairs in step, every priority floored at 1e-5, the first failing assert stops *)
Theorem C11_translated_update_priorities_is_model :
  forall (s : per C) (idxs : list nat) (prios : list C), tcap C s = tc ->
    t_update_all s idxs prios
    = match per_update_g C powa true s (combine idxs prios) with
      | (s', false) => Ok (per_fields s')
      | (_, true) => PyErr AssertionError
      end.
Proof.
  intros s idxs prios Htc. unfold t_update_all, PER_update_priorities. cbv zeta.
  unfold for_range, zlen, zs. rewrite Z.sub_0_r, map_length, <- Nat2Z.inj_min, Nat2Z.id.
  set (M := max_size C s).
  match goal with |- context [for_go _ _ ?body _] => set (BODY := body) end.
  assert (L : forall irest ipre ppre prest s1, idxs = ipre ++ irest -> prios = ppre ++ prest ->
             length ppre = length ipre -> tcap C s1 = tc -> max_size C s1 = M -> size C s1 = size C s ->
             for_go (Nat.min (length irest) (length prest)) (Z.of_nat (length ipre)) BODY (per_fields s1)
             = match per_update_g C powa true s1 (combine irest prest) with
               | (s', false) => Ok (per_fields s') | (_, true) => PyErr AssertionError end).
  { induction irest as [|i irest IH]; intros ipre ppre prest s1 Hi Hp Hl H1 H2 H3; [reflexivity|].
    destruct prest as [|p prest]; [reflexivity|].
    cbn [length Nat.min combine per_update_g]. rewrite for_go_S. unfold BODY at 1. unfold per_fields at 1.
    rewrite Hi at 1. rewrite map_app. cbn [map].
    replace (Z.of_nat (length ipre)) with (Z.of_nat (length (map Z.of_nat ipre))) at 1 by (rewrite map_length; reflexivity).
    rewrite zget_mid. cbn [bind]. cbv zeta.
    rewrite Hp at 1. rewrite <- Hl at 1. rewrite zget_mid. cbn [bind].
    pose proof (C11_translated_update_priority_is_model s1 i (floor_prio C p) H1) as HU.
    unfold t_update, floor_prio in HU. rewrite H2, H3 in HU. unfold py_max at 1. rewrite HU. clear HU.
    fold (floor_prio C p).
    destruct (update_priority_g C powa true s1 i (floor_prio C p)) as [s2|] eqn:EU; [|reflexivity].
    destruct (update_keeps _ _ _ _ EU) as (K1 & K2 & K3 & K4 & K5). cbn [bind].
    replace (Z.of_nat (length ipre) + 1)%Z with (Z.of_nat (length (ipre ++ [i]))) by (rewrite app_length; cbn [length]; lia).
    apply (IH (ipre ++ [i]) (ppre ++ [p]) prest s2); try congruence.
    - rewrite <- app_assoc. exact Hi.
    - rewrite <- app_assoc. exact Hp.
    - rewrite !app_length. cbn [length]. lia. }
  pose proof (L idxs [] [] prios s eq_refl eq_refl eq_refl Htc eq_refl eq_refl) as HL.
  cbn [length Z.of_nat] in HL. unfold per_fields at 1 in HL. rewrite HL.
  destruct (per_update_g C powa true s (combine idxs prios)) as [s' [|]]; reflexivity.
Qed.

Lemma upd_nat_mid {A} (pre : list A) (x v : A) (r : list A) : upd_nat (pre ++ x :: r) (length pre) v = pre ++ v :: r.
Proof. induction pre as [|a pre IH]; cbn; [reflexivity|]. rewrite IH. reflexivity. Qed.
Lemma zset_mid {A} (pre : list A) (x v : A) (r : list A) :
  zset (pre ++ x :: r) (Z.of_nat (length pre)) v = Ok (pre ++ v :: r).
Proof.
  unfold zset, zlen. destruct (Z.ltb_spec (Z.of_nat (length pre)) 0); [lia|].
  rewrite app_length. cbn [length].
  destruct (Z.ltb_spec (Z.of_nat (length pre)) (Z.of_nat (length pre + S (length r)))); [|lia].
  rewrite Nat2Z.id, upd_nat_mid. reflexivity.
Qed.

Definition t_sample (s : per C) (us : list C) :=
  PER_sample_proportional C powa powb i_sum_get i_min_min i_sum_set i_min_set i_sum_total i_sum_retrieve i_mul_z i_div_z
    (i_padd (max_size C s)) Z.of_nat Z.of_nat (sumt C s) (Z.of_nat (length us)) us.

(* _sample_proportional(batch_size) with the batch_size uniform draws us: one stratum per draw, upper bound
   u * (b - a) + a with a = segment * i, b = segment * (i + 1), the retrieved leaf stored at position i *)
Theorem C11_translated_sample_proportional_is_model :
  forall (s : per C) (us : list C), tcap C s = tc ->
    t_sample s us = match sample_proportional C s us with
                    | Some ks => Ok (zs ks)
                    | None => PyErr AssertionError
                    end.
Proof.
  intros s us Htc. unfold t_sample, PER_sample_proportional, sample_proportional. cbv zeta.
  unfold for_range, zzeros, i_div_z, i_sum_total. rewrite Z.sub_0_r, !Nat2Z.id, <- Htc.
  set (seg := c_div C (root (c_add C) (c_zero C) (tcap C s) (sumt C s)) (c_of_nat C (length us))).
  match goal with |- context [for_go _ _ ?body _] => set (BODY := body) end.
  assert (L : forall urest upre kpre, us = upre ++ urest -> length kpre = length upre ->
             for_go (length urest) (Z.of_nat (length upre)) BODY (zs kpre ++ repeat 0%Z (length urest))
             = match sample_go C s seg (length upre) urest with
               | Some ks => Ok (zs kpre ++ zs ks) | None => PyErr AssertionError end).
  { induction urest as [|u urest IH]; intros upre kpre Hu Hk; [reflexivity|].
    cbn [length repeat sample_go]. rewrite for_go_S. unfold BODY at 1. cbv zeta.
    rewrite Hu at 1. rewrite zget_mid. cbn [bind].
    unfold i_mul_z, i_sum_retrieve, upper_bound.
    replace (Z.to_nat (Z.of_nat (length upre) + 1)) with (length upre + 1) by lia. rewrite Nat2Z.id. rewrite Htc.
    destruct (retrieve C tc (sumt C s) _) as [k|] eqn:ER; [|reflexivity]. cbn [bind].
    replace (Z.of_nat (length upre)) with (Z.of_nat (length (zs kpre))) at 1 by (unfold zs; rewrite map_length; lia).
    rewrite zset_mid. cbn [bind].
    replace (Z.of_nat (length upre) + 1)%Z with (Z.of_nat (length (upre ++ [u]))) by (rewrite app_length; cbn [length]; lia).
    replace (zs kpre ++ Z.of_nat k :: repeat 0%Z (length urest)) with (zs (kpre ++ [k]) ++ repeat 0%Z (length urest))
      by (unfold zs; rewrite map_app, <- app_assoc; reflexivity).
    rewrite (IH (upre ++ [u]) (kpre ++ [k])) by (try (rewrite <- app_assoc; exact Hu); rewrite !app_length; cbn [length]; lia).
    replace (length (upre ++ [u])) with (S (length upre)) by (rewrite app_length; cbn [length]; lia).
    destruct (sample_go C s seg (S (length upre)) urest) as [ks|]; [|reflexivity].
    unfold zs. rewrite map_app, <- app_assoc. reflexivity. }
  pose proof (L us [] [] eq_refl eq_refl) as HL. cbn [length Z.of_nat zs map app] in HL. rewrite HL.
  destruct (sample_go C s seg 0 us); reflexivity.
Qed.

Definition t_weights (s : per C) (idxs : list nat) :=
  PER_calculate_weights C powa powb i_sum_get i_min_min i_sum_set i_min_set i_sum_total i_sum_retrieve i_mul_z i_div_z
    (i_padd (max_size C s)) Z.of_nat Z.of_nat (sumt C s) (mint C s) (Z.of_nat (size C s)) (zs idxs).

(* _calculate_weights: p_min from the min tree, max_weight = (p_min * size) ** -beta, per index
   ((leaf / total) * size) ** -beta / max_weight; an empty buffer (min = +inf, the model's None) and an index outside
   the tree (the assert of __getitem__) are errors on both sides *)
Theorem C11_translated_calculate_weights_is_model :
  forall (s : per C) (idxs : list nat), tcap C s = tc ->
    match calculate_weights C powb s idxs with
    | Some ws => t_weights s idxs = Ok ws
    | None => exists e, t_weights s idxs = PyErr e
    end.
Proof.
  intros s idxs Htc. unfold t_weights, PER_calculate_weights, calculate_weights. cbv zeta.
  unfold i_min_min. rewrite Htc.
  destruct (root (omin C) None tc (mint C s)) as [m|]; [|eexists; reflexivity]. cbn [bind].
  unfold for_range, zlen, zs, tzeros. rewrite Z.sub_0_r, map_length, !Nat2Z.id.
  set (total := i_sum_total (sumt C s)). unfold i_mul_z. rewrite Nat2Z.id.
  set (maxw := powb (c_mul C (c_div C m total) (c_of_nat C (size C s)))).
  match goal with |- context [for_go _ _ ?body _] => set (BODY := body) end.
  assert (W : forall i, weight_of C powb s (root (c_add C) (c_zero C) tc (sumt C s)) maxw i
                        = c_div C (powb (c_mul C (c_div C (leaf (c_zero C) tc (sumt C s) i) total) (c_of_nat C (size C s)))) maxw).
  { intros i. unfold weight_of. rewrite Htc. reflexivity. }
  assert (L : forall irest ipre wpre, idxs = ipre ++ irest -> length wpre = length ipre ->
             for_go (length irest) (Z.of_nat (length ipre)) BODY (wpre ++ repeat (c_zero C) (length irest))
             = if forallb (fun i => i <? tc) irest
               then Ok (wpre ++ map (weight_of C powb s (root (c_add C) (c_zero C) tc (sumt C s)) maxw) irest)
               else PyErr AssertionError).
  { induction irest as [|i irest IH]; intros ipre wpre Hi Hw; [reflexivity|].
    cbn [length repeat forallb map]. rewrite for_go_S. unfold BODY at 1. cbv zeta.
    rewrite Hi at 1. rewrite map_app. cbn [map].
    replace (Z.of_nat (length ipre)) with (Z.of_nat (length (map Z.of_nat ipre))) at 1 by (rewrite map_length; reflexivity).
    rewrite zget_mid. cbn [bind]. unfold i_sum_get.
    destruct (Z.leb_spec 0 (Z.of_nat i)); [|lia].
    destruct (Nat.ltb_spec i tc); destruct (Z.ltb_spec (Z.of_nat i) (Z.of_nat tc)); try lia; cbn [andb bind]; [|reflexivity].
    rewrite Nat2Z.id.
    replace (Z.of_nat (length ipre)) with (Z.of_nat (length wpre)) at 1 by lia.
    rewrite zset_mid. cbn [bind].
    replace (Z.of_nat (length ipre) + 1)%Z with (Z.of_nat (length (ipre ++ [i]))) by (rewrite app_length; cbn [length]; lia).
    rewrite <- W.
    set (wi := weight_of C powb s (root (c_add C) (c_zero C) tc (sumt C s)) maxw i).
    replace (wpre ++ wi :: repeat (c_zero C) (length irest)) with ((wpre ++ [wi]) ++ repeat (c_zero C) (length irest))
      by (rewrite <- app_assoc; reflexivity).
    rewrite (IH (ipre ++ [i]) (wpre ++ [wi])) by (try (rewrite <- app_assoc; exact Hi); rewrite !app_length; cbn [length]; lia).
    destruct (forallb (fun i0 => i0 <? tc) irest); [|reflexivity]. rewrite <- app_assoc. reflexivity. }
  pose proof (L idxs [] [] eq_refl eq_refl) as HL. cbn [length Z.of_nat app] in HL. rewrite HL.
  fold total. unfold maxw, total, i_sum_total.
  destruct (forallb (fun i => i <? tc) idxs); [reflexivity | eexists; reflexivity].
Qed.
End PerEquiv.

Print Assumptions C11_translated_update_priority_is_model.
Print Assumptions C11_translated_per_add_is_model.
Print Assumptions C11_translated_update_priorities_is_model.
Print Assumptions C11_translated_sample_proportional_is_model.
Print Assumptions C11_translated_calculate_weights_is_model.
