(* C08 — translation tie.  GenC08.v is regenerated from /repo's CURRENT source of agilerl/algorithms/{dqn,ddpg,td3}.py
   (soft_update) by harness/pytrans.py on every run of ./check C08.  The generated functions are the ZIP LOOP of the
   three methods — online and target parameters walked in step, as far as the shorter list goes, each target
   parameter overwritten in place by  tau * online + (1 - tau) * target  — over abstract tensor operations
   (python float * tensor, tensor + tensor, python float - python float; harness/pytrans.py, C08 table;
   <net>.parameters() is the list of parameter tensors, <p>.data is the tensor, <p>.data.copy_(e) overwrites it).
   This committed file interprets a parameter cell as a rational (as C08/Model.v does) and proves for every tau and
   all parameter lists, of any two lengths, that the code-as-translated leaves exactly the model's
   [soft_zip tau online target] in the target.  Hence soft_update_spec & co. of coq/props/C08.v are theorems about
   the translated source.  The proofs mention generated names only through the function names. *)
From Coq Require Import List Arith Bool ZArith QArith Lia.
Import ListNotations.
From AgileV Require Import TR.PyLib C08.Model.
From AgileGen Require Import GenC08.

Lemma zget_mid {A} (pre : list A) (x : A) (r : list A) : zget (pre ++ x :: r) (Z.of_nat (length pre)) = Ok x.
Proof.
  unfold zget. destruct (Z.ltb_spec (Z.of_nat (length pre)) 0); [lia|].
  rewrite Nat2Z.id, nth_error_app2, Nat.sub_diag by lia. reflexivity.
Qed.

Lemma upd_nat_mid {A} (pre : list A) (x v : A) (r : list A) : upd_nat (pre ++ x :: r) (length pre) v = pre ++ v :: r.
Proof. induction pre as [|a pre IH]; cbn; [reflexivity|]. rewrite IH. reflexivity. Qed.

Lemma zset_mid {A} (pre : list A) (x v : A) (r : list A) :
  zset (pre ++ x :: r) (Z.of_nat (length pre)) v = Ok (pre ++ v :: r).
Proof.
  unfold zset, zlen. destruct (Z.ltb_spec (Z.of_nat (length pre)) 0); [lia|].
  rewrite app_length. cbn [length].
  destruct (Z.ltb_spec (Z.of_nat (length pre)) (Z.of_nat (length pre + S (length r)))); [|lia].
  rewrite Nat2Z.id, upd_nat_mid. reflexivity.
Qed.

Lemma for_go_S {S : Type} (k : nat) (i : Z) (body : Z -> S -> res (S + S)) (s : S) :
  for_go (Datatypes.S k) i body s =
  bind (body i s) (fun r => match r with inl s' => for_go k (i + 1)%Z body s' | inr s' => Ok s' end).
Proof. reflexivity. Qed.

(* the proof is the same for the three generated functions: after unfolding, the goal is a for_range over
   min(len online, len target) whose body reads online[i], target[i] and overwrites target[i] *)
Ltac soft_proof tau online target :=
  cbv zeta; unfold for_range, zlen; rewrite Z.sub_0_r, <- Nat2Z.inj_min, Nat2Z.id;
  match goal with
  | |- context [for_go _ _ ?body _] =>
    assert (L : forall orest opre pre trest, online = opre ++ orest -> length opre = length pre ->
               for_go (Nat.min (length orest) (length trest)) (Z.of_nat (length pre)) body (pre ++ trest)
               = Ok (pre ++ soft_zip tau orest trest));
    [ intros orest; induction orest as [|e orest IH]; intros opre pre trest Ho Hl;
      [ reflexivity
      | destruct trest as [|t trest];
        [ cbn [length Nat.min for_go soft_zip]; reflexivity
        | cbn [length Nat.min]; rewrite for_go_S; cbv beta;
          rewrite Ho at 1; rewrite <- Hl at 1; rewrite zget_mid; cbn [bind]; cbv zeta;
          rewrite zget_mid; cbn [bind]; rewrite zset_mid; cbn [bind];
          change (tau * e + (1 - tau) * t)%Q with (lerp tau e t);
          replace (Z.of_nat (length pre) + 1)%Z with (Z.of_nat (length (pre ++ [lerp tau e t])))
            by (rewrite app_length; cbn [length]; lia);
          replace (pre ++ lerp tau e t :: trest) with ((pre ++ [lerp tau e t]) ++ trest)
            by (rewrite <- app_assoc; reflexivity);
          rewrite (IH (opre ++ [e]) (pre ++ [lerp tau e t]) trest)
            by (try (rewrite <- app_assoc; exact Ho); rewrite !app_length; cbn [length]; lia);
          cbn [soft_zip]; rewrite <- app_assoc; reflexivity ] ]
    | exact (L online [] [] target eq_refl eq_refl) ]
  end.

Theorem C08_translated_dqn_soft_update_is_model :
  forall (tau : Q) (online target : list Q),
    DQN_soft_update Qmult Qplus Qminus 1%Q tau online target = Ok (soft_zip tau online target).
Proof. intros tau online target. unfold DQN_soft_update. soft_proof tau online target. Qed.
Print Assumptions C08_translated_dqn_soft_update_is_model.

Theorem C08_translated_ddpg_soft_update_is_model :
  forall (tau : Q) (online target : list Q),
    DDPG_soft_update Qmult Qplus Qminus 1%Q tau online target = Ok (soft_zip tau online target).
Proof. intros tau online target. unfold DDPG_soft_update. soft_proof tau online target. Qed.
Print Assumptions C08_translated_ddpg_soft_update_is_model.

Theorem C08_translated_td3_soft_update_is_model :
  forall (tau : Q) (online target : list Q),
    TD3_soft_update Qmult Qplus Qminus 1%Q tau online target = Ok (soft_zip tau online target).
Proof. intros tau online target. unfold TD3_soft_update. soft_proof tau online target. Qed.
Print Assumptions C08_translated_td3_soft_update_is_model.

(* ---- the Bellman target line  y_j = ...  of DQN.update / DDPG.learn / TD3.learn (one-statement segments) ----
   The tensor operations are element-wise: interpreted on ONE cell (a rational), the translated line is the model's
   per-row target formula, with the association the source uses. *)
Definition zsub (z : Z) (t : Q) : Q := inject_Z z - t.

Theorem C08_translated_dqn_target_is_model :
  forall (g r q d : Q), DQN_update_y Qplus Qmult Qmult Qmult zsub g r q d = Ok (bellman r g d q).
Proof. intros. reflexivity. Qed.
Print Assumptions C08_translated_dqn_target_is_model.

Theorem C08_translated_ddpg_target_is_model :
  forall (g r q d : Q), DDPG_learn_y Qplus Qmult Qmult Qmult zsub g r q d = Ok (bellman_ac r g d q).
Proof. intros. reflexivity. Qed.
Print Assumptions C08_translated_ddpg_target_is_model.

Theorem C08_translated_td3_target_is_model :
  forall (g r q d : Q), TD3_learn_y Qplus Qmult Qmult Qmult zsub g r q d = Ok (bellman_ac r g d q).
Proof. intros. reflexivity. Qed.
Print Assumptions C08_translated_td3_target_is_model.

(* transfer: done_masks_next (props/C08.v) on the translated DQN line — a terminal transition's target is its reward *)
Theorem C08_translated_dqn_target_done_masks_next :
  forall (g r q : Q), exists y, DQN_update_y Qplus Qmult Qmult Qmult zsub g r q 1 = Ok y /\ (y == r)%Q.
Proof. intros. eexists. split; [reflexivity|]. unfold bellman, zsub. cbn [inject_Z]. ring. Qed.
Print Assumptions C08_translated_dqn_target_done_masks_next.
