(* C12 — translation tie.  GenC12.v is regenerated from /repo's CURRENT source of agilerl/vector/pz_async_vec_env.py
   (write_to_shared_memory) by harness/pytrans.py on every run of ./check C12: the statement that writes one
   environment's (flattened) observation into the shared buffer of a plain (non Dict / Tuple) space,
       np.copyto(dest[index * size : (index + 1) * size], np.asarray(obs, dtype=dtype).flatten())
   translated as a one-statement segment (np.copyto(dest[a:b], src) read as the slice assignment dest[a:b] = src).
   This committed file proves that for every buffer, worker index and row of exactly `size` elements that fit into the
   buffer it is the model's [write_row index size row flat] of C12/Model.v — the slice of worker `index`, nothing
   else touched, no shape error.  Hence shm_write_read and the disjointness lemmas of coq/props/C12.v, which are
   about write_row / read_row, are about the translated statement.
   (The Dict / Tuple branches contain the same statement with obs[key] / obs[i] as the row; the loops around them are
   dict / dtype plumbing and stay tied by the correspondence check alone.) *)
From Coq Require Import List Arith Bool ZArith Lia.
Import ListNotations.
From AgileV Require Import TR.PyLib C12.Model.
From AgileGen Require Import GenC12.

Definition oz (o : option Z) (d : Z) : Z := match o with Some x => x | None => d end.

Lemma zslice_assign_ok {A} (l xs : list A) (a b : option Z) (lo hi : nat) :
  (0 <= oz a 0)%Z -> (0 <= oz b (zlen l))%Z ->
  lo = Z.to_nat (oz a 0) -> hi = Z.to_nat (oz b (zlen l)) -> lo <= hi -> hi <= length l -> hi - lo = length xs ->
  zslice_assign l a b xs = Ok (firstn lo l ++ xs ++ skipn hi l).
Proof.
  intros Ha Hb -> -> H1 H2 H3. unfold zslice_assign, oz in *.
  destruct a, b; repeat match goal with |- context [(?x <? 0)%Z] => destruct (Z.ltb_spec x 0); try lia end;
    cbn [orb];
    match goal with |- context [Nat.eqb ?p ?q] => replace (Nat.eqb p q) with true by (symmetry; apply Nat.eqb_eq; lia) end;
    repeat f_equal; lia.
Qed.

Theorem C12_translated_write_row_is_model :
  forall (i size : nat) (row flat : list Z),
    length row = size -> (i + 1) * size <= length flat ->
    write_to_shared_memory_leaf (Z.of_nat i) (Z.of_nat size) flat row = Ok (write_row i size row flat).
Proof.
  intros i size row flat Hr Hf. unfold write_to_shared_memory_leaf, write_row.
  (* however the source writes the two bounds, they are i * size and (i + 1) * size *)
  apply zslice_assign_ok; cbn [oz]; unfold zlen; try nia.
Qed.
Print Assumptions C12_translated_write_row_is_model.
