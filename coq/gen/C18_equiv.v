(* C18 — translation tie.  GenC18.v is regenerated from /repo's CURRENT source of agilerl/algorithms/dqn_rainbow.py
   (RainbowDQN._dqn_loss) by harness/pytrans.py on every run of ./check C18: the INDEX ARITHMETIC of the categorical
   projection, translated as a segment (from `t_z = rewards + (1 - dones) * gamma * self.support` to the second
   fix-up `u[...] += 1`): the Bellman-shifted atoms clamped to [v_min, v_max], the fractional index b clamped to
   [0, N-1], L = floor b, u = ceil b, and the two masked fix-ups IN THIS ORDER (the second test sees the new L) —
   over abstract element-wise tensor operations (harness/pytrans.py, C18 table).
   The operations are element-wise: interpreted on ONE cell (a rational / an integer / a boolean mask entry) the
   translated segment is exactly the model's  bfrac (tz ...)  and  lu (N-1) b  of C18/Model.v.  Hence b_in_range and
   the lu lemmas behind mass_conserved / mean_conserved of coq/props/C18.v are about the translated source.
   Not translated: the two index_add_ on the flattened view with the batch offsets (torch.linspace / view / expand).
   The proofs mention generated names only through the function name. *)
From Coq Require Import List Arith Bool ZArith QArith Qround Lia.
Import ListNotations.
From AgileV Require Import TR.PyLib C18.Model.
From AgileGen Require Import GenC18.

Definition translated_indices (c : cfg) (g r d z : Q) : res (Q * Z * Z) :=
  RainbowDQN_projection_indices Qplus Qmult (fun k t => inject_Z k - t)%Q Qmult Qminus Qdiv
    (fun lo hi x => Qclamp lo hi x) (fun lo hi x => Qclamp (inject_Z lo) (inject_Z hi) x)
    Qfloor Qceiling (fun l k => Z.ltb k l) (fun l k => Z.ltb l k) Z.eqb andb
    (fun x (m : bool) k => if m then (x - k)%Z else x) (fun x (m : bool) k => if m then (x + k)%Z else x)
    z (vmin c) (vmax c) (delta c) (Z.of_nat (natoms c)) r d g.

Theorem C18_translated_projection_indices_is_model :
  forall (c : cfg) (g r d z : Q),
    let b := bfrac c (tz c r d g z) in
    translated_indices c g r d z = Ok (b, fst (lu (nm1 c) b), snd (lu (nm1 c) b)).
Proof. intros. reflexivity. Qed.
Print Assumptions C18_translated_projection_indices_is_model.

(* transfer: b_in_range (props/C18.v) on the translated segment — the indices the real code computes are adjacent,
   inside the support and bracket b *)
From AgileV Require Import C18.Proofs.
Theorem C18_translated_indices_in_range :
  forall (c : cfg) (g r d z : Q), valid c ->
    exists b l u, translated_indices c g r d z = Ok (b, l, u) /\
      (0 <= b <= inject_Z (nm1 c))%Q /\ (0 <= l)%Z /\ (u <= nm1 c)%Z /\ (u = l + 1)%Z /\
      (inject_Z l <= b <= inject_Z l + 1)%Q.
Proof.
  intros c g r d z Hv.
  pose proof (b_in_range_lemma c r d g z Hv) as H. cbv zeta in H.
  set (b := bfrac c (tz c r d g z)) in *.
  exists b, (fst (lu (nm1 c) b)), (snd (lu (nm1 c) b)). split; [reflexivity|].
  destruct H as [Hb H]. destruct (lu (nm1 c) b) as [l u]. cbn [fst snd]. tauto.
Qed.
Print Assumptions C18_translated_indices_in_range.
