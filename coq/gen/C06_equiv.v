(* C06 — translation tie.  GenC06.v is regenerated from /repo's CURRENT source of
   agilerl/algorithms/core/registry.py (RLParameter.mutate) by harness/pytrans.py on every run of
   ./check C06; this committed file proves that the code-as-translated IS the hand-written model, for every
   number carrier (so for the rational instance the theorems are about and for the binary64 instance that
   runs), every configuration, every current value and every draw.  Hence every theorem of coq/props/C06.v
   about [mutate_value] is a theorem about the translated source; two of them are transferred explicitly.
   The proofs mention generated names only through the function name [RLParameter_mutate]. *)
From Coq Require Import List ZArith Bool QArith.
From AgileV Require Import TR.PyLib C06.Model C06.Proofs.
From AgileGen Require Import GenC06.

(* case analysis on the atomic tests of every [if], whatever boolean structure the source puts around them *)
Ltac cond_atom c :=
  match c with
  | negb ?a => cond_atom a
  | andb ?a _ => cond_atom a
  | orb ?a _ => cond_atom a
  | (if ?a then _ else _) => cond_atom a
  | _ => let E := fresh "E" in destruct c eqn:E
  end.
Ltac no_if c := lazymatch c with context [if _ then _ else _] => fail | _ => idtac end.
Ltac py_cases :=
  repeat (match goal with |- context [if ?c then _ else _] => no_if c; cond_atom c end; cbn [negb andb orb] in * ).

(* RLParameter.mutate(self) with  self.min/max/shrink_factor/grow_factor/dtype  = p,  self.value = v  and the
   draw  torch.rand(1).item() = u  returns  mutate_value p u v  and leaves exactly that in self.value;
   it never raises. *)
Theorem C06_translated_mutate_is_model :
  forall (T : Type) (O : numops T) (p : param T) (v u : T),
    RLParameter_mutate O (p_min p) (p_max p) (p_shrink p) (p_grow p) (p_int p) v u
    = Ok (mutate_value O p u v, mutate_value O p u v).
Proof.
  intros. destruct p as [mn mx sh gr it].
  unfold RLParameter_mutate, mutate_value, mutate_raw, cast, pymin, pymax, py_min, py_max, coin_shrink.
  cbn [p_min p_max p_shrink p_grow p_int].
  cbv zeta. first [ reflexivity | py_cases; first [reflexivity | congruence] ].
Qed.
Print Assumptions C06_translated_mutate_is_model.

(* transfer: the range theorem and the scaled-clip theorem of props/C06.v, stated on the translated code *)
Theorem C06_translated_mutate_in_range :
  forall (p : param Q) (v u : Q), range_ok p ->
    exists r : Q, RLParameter_mutate QOps (p_min p) (p_max p) (p_shrink p) (p_grow p) (p_int p) v u = Ok (r, r)
                  /\ (p_min p <= r <= p_max p)%Q.
Proof.
  intros p v u H. exists (mutate_value QOps p u v). split.
  - apply C06_translated_mutate_is_model.
  - apply mutate_value_in_range; exact H.
Qed.
Print Assumptions C06_translated_mutate_in_range.

Theorem C06_translated_mutate_is_scaled_clip :
  forall (p : param Q) (v u : Q), (p_min p <= p_max p)%Q ->
    exists r : Q, RLParameter_mutate QOps (p_min p) (p_max p) (p_shrink p) (p_grow p) (p_int p) v u = Ok (r, r)
                  /\ (r == castQ p (clipQ (p_min p) (p_max p) (v * factor p u)))%Q.
Proof.
  intros p v u H. exists (mutate_value QOps p u v). split.
  - apply C06_translated_mutate_is_model.
  - apply mutate_value_is_cast_clip; exact H.
Qed.
Print Assumptions C06_translated_mutate_is_scaled_clip.
