(* C17 — translation tie.  GenC17.v is regenerated from /repo's CURRENT source of agilerl/algorithms/ppo.py (PPO.learn)
   and agilerl/algorithms/ippo.py (IPPO._learn_individual) by harness/pytrans.py on every run of ./check C17: the
   BACKWARD GAE LOOP  `for t in reversed(range(num_steps)): ...`  of both methods, translated as a one-statement
   segment.  The generated functions are the loop structure and the recurrence — t runs from num_steps-1 down to 0,
   the last step bootstraps from next_value / next_done and every other step from values[t+1] / dones[t+1],
   delta = r_t + gamma * nextvalue * nonterminal - v_t, advantages[t] = last = delta + gamma * lambda * nonterminal * last
   with the source's association — over abstract element-wise row operations (harness/pytrans.py, C17 table).
   This committed file interprets a row (all environments at one time step) as a list of rationals and proves, for
   every gamma, lambda, every T >= 0 and all row lists of equal length T, that the code-as-translated leaves in
   `advantages` exactly  advs_of (gae_rows gamma lambda rewards values dones next_value next_done)  of C17/Model.v
   (whatever `advantages` held before; `last_gae_lambda = 0` is read as the zero row, as the model does).
   Hence gae_rows_is_def / gae_rows_is_columnwise of coq/props/C17.v are theorems about the translated loops.
   The proofs mention generated names only through the function names. *)
From Coq Require Import List Arith Bool ZArith QArith Lia.
Import ListNotations.
From AgileV Require Import TR.PyLib C17.Model.
From AgileGen Require Import GenC17.

Definition row := list Q.
Definition zipw (f : Q -> Q -> Q) (a b : row) : row := map (fun p => f (fst p) (snd p)) (combine a b).

Lemma zget_mid {A} (pre : list A) (x : A) (r : list A) : zget (pre ++ x :: r) (Z.of_nat (length pre)) = Ok x.
Proof.
  unfold zget. destruct (Z.ltb_spec (Z.of_nat (length pre)) 0); [lia|].
  rewrite Nat2Z.id, nth_error_app2, Nat.sub_diag by lia. reflexivity.
Qed.
Lemma upd_nat_mid {A} (pre : list A) (x v : A) (r : list A) : upd_nat (pre ++ x :: r) (length pre) v = pre ++ v :: r.
Proof. induction pre as [|a pre IH]; cbn; [reflexivity|]. rewrite IH. reflexivity. Qed.
Lemma zset_mid {A} (pre : list A) (x v : A) (r : list A) :
  zset (pre ++ x :: r) (Z.of_nat (length pre)) v = Ok (pre ++ v :: r).
Proof.
  unfold zset, zlen. destruct (Z.ltb_spec (Z.of_nat (length pre)) 0); [lia|].
  rewrite app_length. cbn [length].
  destruct (Z.ltb_spec (Z.of_nat (length pre)) (Z.of_nat (length pre + S (length r)))); [|lia].
  rewrite Nat2Z.id, upd_nat_mid. reflexivity.
Qed.
Lemma for_go_S {S : Type} (k : nat) (i : Z) (body : Z -> S -> res (S + S)) (s : S) :
  for_go (Datatypes.S k) i body s =
  bind (body i s) (fun r => match r with inl s' => for_go k (i + 1)%Z body s' | inr s' => Ok s' end).
Proof. reflexivity. Qed.

(* one time step: the element-wise row expression of the source is zip5 (adv_step g l) *)
Lemma row_step (g l : Q) : forall r v v1 d1 last : row,
  zipw Qplus (zipw Qminus (zipw Qplus r (zipw Qmult (map (Qmult g) v1) (map (fun x => 1 - x) d1))) v)
             (zipw Qmult (map (Qmult (g * l)) (map (fun x => 1 - x) d1)) last)
  = zip5 (adv_step g l) r v v1 d1 last.
Proof.
  unfold zipw. induction r as [|x r IH]; intros [|y v] [|z v1] [|u d1] [|w last];
    repeat (simpl; rewrite ?combine_nil); try reflexivity.
  rewrite IH. reflexivity.
Qed.

(* what gae_rows hands to the previous time step *)
Lemma gae_rows_cons (g l : Q) r rs v vs d ds nv nd :
  gae_rows g l (r :: rs) (v :: vs) (d :: ds) nv nd =
  (let '(advs, v1, d1) := gae_rows g l rs vs ds nv nd in
   let last := match advs with a :: _ => a | [] => map (fun _ => 0%Q) r end in
   (zip5 (adv_step g l) r v v1 d1 last :: advs, v, d)).
Proof. reflexivity. Qed.

Lemma gae_rows_next (g l : Q) : forall rs vs ds nv nd, length vs = length rs -> length ds = length rs ->
  snd (fst (gae_rows g l rs vs ds nv nd)) = match vs with v :: _ => v | [] => nv end /\
  snd (gae_rows g l rs vs ds nv nd) = match ds with d :: _ => d | [] => nd end.
Proof.
  intros [|r rs] [|v vs] [|d ds] nv nd H1 H2; cbn in *; try discriminate; [split; reflexivity|].
  destruct (gae_rows g l rs vs ds nv nd) as [[a b] c]. split; reflexivity.
Qed.

Definition interp_gae (F : (row -> row -> row) -> (row -> row -> row) -> (row -> row -> row) ->
                           (Q -> row -> row) -> (Q -> row -> row) -> (Q -> Q -> Q) -> Q -> (row -> row) ->
                           Q -> Q -> Z -> list row -> list row -> list row -> row -> row -> list row -> row -> res (list row))
  (g l : Q) (rs vs ds : list row) (nv nd : row) (adv0 : list row) (last0 : row) : res (list row) :=
  F (zipw Qplus) (zipw Qminus) (zipw Qmult) (fun s t => map (fun x => s - x) t) (fun s t => map (Qmult s) t) Qmult 1
    (fun t => t) g l (Z.of_nat (length rs)) rs vs ds nv nd adv0 last0.

Theorem C17_translated_ppo_gae_is_model :
  forall (g l : Q) (rs vs ds : list row) (nv nd : row) (adv0 : list row) (last0 : row),
    length vs = length rs -> length ds = length rs -> length adv0 = length rs ->
    last0 = map (fun _ => 0%Q) (last rs []) ->
    interp_gae (@PPO_learn_gae row Q) g l rs vs ds nv nd adv0 last0 = Ok (advs_of (gae_rows g l rs vs ds nv nd)).
Proof.
  intros g l rs vs ds nv nd adv0 last0 Hv Hd Ha Hl. unfold interp_gae, PPO_learn_gae.
  cbv zeta. unfold for_range. rewrite Z.sub_0_r, Nat2Z.id.
  match goal with |- context [for_go _ _ ?body _] => set (BODY := body) end.
  assert (L : forall m rs1 rs2 vs1 vs2 ds1 ds2 pre,
             rs = rs1 ++ rs2 -> vs = vs1 ++ vs2 -> ds = ds1 ++ ds2 ->
             length rs1 = m -> length vs1 = m -> length ds1 = m -> length pre = m ->
             length vs2 = length rs2 -> length ds2 = length rs2 ->
             exists lf,
               for_go m (Z.of_nat (length rs - m)) BODY
                      (pre ++ advs_of (gae_rows g l rs2 vs2 ds2 nv nd),
                       match advs_of (gae_rows g l rs2 vs2 ds2 nv nd) with a :: _ => a | [] => last0 end)
               = Ok (advs_of (gae_rows g l rs vs ds nv nd), lf)).
  { induction m as [|m IH]; intros rs1 rs2 vs1 vs2 ds1 ds2 pre Hr Hvs Hds L1 L2 L3 L4 L5 L6.
    - destruct rs1, vs1, ds1, pre; try discriminate. cbn [app] in *. subst rs2 vs2 ds2. eexists. reflexivity.
    - destruct (exists_last (l := rs1)) as (rs1' & r & ->); [intro E; subst; discriminate|].
      destruct (exists_last (l := vs1)) as (vs1' & v & ->); [intro E; subst; discriminate|].
      destruct (exists_last (l := ds1)) as (ds1' & d & ->); [intro E; subst; discriminate|].
      destruct (exists_last (l := pre)) as (pre' & x & ->); [intro E; subst; discriminate|].
      rewrite app_length in L1, L2, L3, L4. cbn [length] in L1, L2, L3, L4.
      rewrite <- app_assoc in Hr, Hvs, Hds. cbn [app] in Hr, Hvs, Hds.
      assert (HT : length rs = (m + 1 + length rs2)%nat) by (rewrite Hr, app_length; cbn [length]; lia).
      rewrite for_go_S. unfold BODY at 1. cbv zeta.
      replace (Z.of_nat (length rs) - 1 - Z.of_nat (length rs - S m))%Z with (Z.of_nat (length rs1')) by lia.
      pose proof (gae_rows_next g l rs2 vs2 ds2 nv nd L5 L6) as [N1 N2].
      destruct (IH rs1' (r :: rs2) vs1' (v :: vs2) ds1' (d :: ds2) pre') as [lf HIH];
        try assumption; try lia; try (cbn [length]; lia).
      rewrite gae_rows_cons in HIH.
      destruct (gae_rows g l rs2 vs2 ds2 nv nd) as [[A v1] d1] eqn:EG. cbn [fst snd advs_of] in *.
      exists lf. rewrite <- HIH. clear HIH IH.
      replace (Z.of_nat (length rs - S m) + 1)%Z with (Z.of_nat (length rs - m)) by lia.
      destruct rs2 as [|r2 rs2'].
      + (* the last time step: bootstrap from next_value / next_done *)
        destruct vs2; [|discriminate]. destruct ds2; [|discriminate].
        cbn [gae_rows] in EG. injection EG as <- <- <-.
        destruct (Z.eqb_spec (Z.of_nat (length rs1')) (Z.of_nat (length rs) - 1)); [|cbn [length] in HT; lia].
        cbn [bind].
        rewrite Hr at 1. rewrite zget_mid. cbn [bind].
        replace (Z.of_nat (length rs1')) with (Z.of_nat (length vs1')) by lia.
        rewrite Hvs at 1. rewrite zget_mid. cbn [bind].
        replace (Z.of_nat (length vs1')) with (Z.of_nat (length pre')) by lia.
        rewrite <- app_assoc. cbn [app]. rewrite zset_mid. cbn [bind].
        rewrite row_step. rewrite Hl, Hr, last_last. reflexivity.
      + destruct vs2 as [|v2 vs2']; [discriminate|]. destruct ds2 as [|d2 ds2']; [discriminate|].
        destruct (Z.eqb_spec (Z.of_nat (length rs1')) (Z.of_nat (length rs) - 1)); [cbn [length] in HT; lia|].
        subst v1 d1.
        rewrite Hds at 1.
        replace (Z.of_nat (length rs1') + 1)%Z with (Z.of_nat (length (ds1' ++ [d]))) by (rewrite app_length; cbn [length]; lia).
        replace (ds1' ++ d :: d2 :: ds2') with ((ds1' ++ [d]) ++ d2 :: ds2') by (rewrite <- app_assoc; reflexivity).
        rewrite zget_mid. cbn [bind].
        rewrite Hvs at 1.
        replace (Z.of_nat (length (ds1' ++ [d]))) with (Z.of_nat (length (vs1' ++ [v]))) by (rewrite !app_length; cbn [length]; lia).
        replace (vs1' ++ v :: v2 :: vs2') with ((vs1' ++ [v]) ++ v2 :: vs2') by (rewrite <- app_assoc; reflexivity).
        rewrite zget_mid. cbn [bind].
        rewrite Hr at 1. rewrite zget_mid. cbn [bind].
        replace (Z.of_nat (length rs1')) with (Z.of_nat (length vs1')) by lia.
        rewrite Hvs at 1. rewrite zget_mid. cbn [bind].
        replace (Z.of_nat (length vs1')) with (Z.of_nat (length pre')) by lia.
        rewrite <- app_assoc. cbn [app]. rewrite zset_mid. cbn [bind].
        rewrite row_step. destruct A; [|reflexivity].
        exfalso. rewrite gae_rows_cons in EG. destruct (gae_rows g l rs2' vs2' ds2' nv nd) as [[? ?] ?]. discriminate. }
  destruct (L (length rs) rs [] vs [] ds [] adv0 (eq_sym (app_nil_r rs)) (eq_sym (app_nil_r vs)) (eq_sym (app_nil_r ds))
              eq_refl Hv Hd Ha eq_refl eq_refl) as [lf HL].
  rewrite Nat.sub_diag in HL. cbn [gae_rows advs_of fst app] in HL. rewrite app_nil_r in HL.
  cbn [Z.of_nat] in HL.
  match goal with |- bind ?x _ = _ => replace x with (Ok (advs_of (gae_rows g l rs vs ds nv nd), lf) : res (list row * row)) by (symmetry; exact HL) end.
  reflexivity.
Qed.
Print Assumptions C17_translated_ppo_gae_is_model.

Theorem C17_translated_ippo_gae_is_model :
  forall (g l : Q) (rs vs ds : list row) (nv nd : row) (adv0 : list row) (last0 : row),
    length vs = length rs -> length ds = length rs -> length adv0 = length rs ->
    last0 = map (fun _ => 0%Q) (last rs []) ->
    interp_gae (@IPPO_learn_gae row Q) g l rs vs ds nv nd adv0 last0 = Ok (advs_of (gae_rows g l rs vs ds nv nd)).
Proof.
  intros g l rs vs ds nv nd adv0 last0 Hv Hd Ha Hl. unfold interp_gae, IPPO_learn_gae.
  cbv zeta. unfold for_range. rewrite Z.sub_0_r, Nat2Z.id.
  match goal with |- context [for_go _ _ ?body _] => set (BODY := body) end.
  assert (L : forall m rs1 rs2 vs1 vs2 ds1 ds2 pre,
             rs = rs1 ++ rs2 -> vs = vs1 ++ vs2 -> ds = ds1 ++ ds2 ->
             length rs1 = m -> length vs1 = m -> length ds1 = m -> length pre = m ->
             length vs2 = length rs2 -> length ds2 = length rs2 ->
             exists lf,
               for_go m (Z.of_nat (length rs - m)) BODY
                      (pre ++ advs_of (gae_rows g l rs2 vs2 ds2 nv nd),
                       match advs_of (gae_rows g l rs2 vs2 ds2 nv nd) with a :: _ => a | [] => last0 end)
               = Ok (advs_of (gae_rows g l rs vs ds nv nd), lf)).
  { induction m as [|m IH]; intros rs1 rs2 vs1 vs2 ds1 ds2 pre Hr Hvs Hds L1 L2 L3 L4 L5 L6.
    - destruct rs1, vs1, ds1, pre; try discriminate. cbn [app] in *. subst rs2 vs2 ds2. eexists. reflexivity.
    - destruct (exists_last (l := rs1)) as (rs1' & r & ->); [intro E; subst; discriminate|].
      destruct (exists_last (l := vs1)) as (vs1' & v & ->); [intro E; subst; discriminate|].
      destruct (exists_last (l := ds1)) as (ds1' & d & ->); [intro E; subst; discriminate|].
      destruct (exists_last (l := pre)) as (pre' & x & ->); [intro E; subst; discriminate|].
      rewrite app_length in L1, L2, L3, L4. cbn [length] in L1, L2, L3, L4.
      rewrite <- app_assoc in Hr, Hvs, Hds. cbn [app] in Hr, Hvs, Hds.
      assert (HT : length rs = (m + 1 + length rs2)%nat) by (rewrite Hr, app_length; cbn [length]; lia).
      rewrite for_go_S. unfold BODY at 1. cbv zeta.
      replace (Z.of_nat (length rs) - 1 - Z.of_nat (length rs - S m))%Z with (Z.of_nat (length rs1')) by lia.
      pose proof (gae_rows_next g l rs2 vs2 ds2 nv nd L5 L6) as [N1 N2].
      destruct (IH rs1' (r :: rs2) vs1' (v :: vs2) ds1' (d :: ds2) pre') as [lf HIH];
        try assumption; try lia; try (cbn [length]; lia).
      rewrite gae_rows_cons in HIH.
      destruct (gae_rows g l rs2 vs2 ds2 nv nd) as [[A v1] d1] eqn:EG. cbn [fst snd advs_of] in *.
      exists lf. rewrite <- HIH. clear HIH IH.
      replace (Z.of_nat (length rs - S m) + 1)%Z with (Z.of_nat (length rs - m)) by lia.
      destruct rs2 as [|r2 rs2'].
      + (* the last time step: bootstrap from next_value / next_done *)
        destruct vs2; [|discriminate]. destruct ds2; [|discriminate].
        cbn [gae_rows] in EG. injection EG as <- <- <-.
        destruct (Z.eqb_spec (Z.of_nat (length rs1')) (Z.of_nat (length rs) - 1)); [|cbn [length] in HT; lia].
        cbn [bind].
        rewrite Hr at 1. rewrite zget_mid. cbn [bind].
        replace (Z.of_nat (length rs1')) with (Z.of_nat (length vs1')) by lia.
        rewrite Hvs at 1. rewrite zget_mid. cbn [bind].
        replace (Z.of_nat (length vs1')) with (Z.of_nat (length pre')) by lia.
        rewrite <- app_assoc. cbn [app]. rewrite zset_mid. cbn [bind].
        rewrite row_step. rewrite Hl, Hr, last_last. reflexivity.
      + destruct vs2 as [|v2 vs2']; [discriminate|]. destruct ds2 as [|d2 ds2']; [discriminate|].
        destruct (Z.eqb_spec (Z.of_nat (length rs1')) (Z.of_nat (length rs) - 1)); [cbn [length] in HT; lia|].
        subst v1 d1.
        rewrite Hds at 1.
        replace (Z.of_nat (length rs1') + 1)%Z with (Z.of_nat (length (ds1' ++ [d]))) by (rewrite app_length; cbn [length]; lia).
        replace (ds1' ++ d :: d2 :: ds2') with ((ds1' ++ [d]) ++ d2 :: ds2') by (rewrite <- app_assoc; reflexivity).
        rewrite zget_mid. cbn [bind].
        rewrite Hvs at 1.
        replace (Z.of_nat (length (ds1' ++ [d]))) with (Z.of_nat (length (vs1' ++ [v]))) by (rewrite !app_length; cbn [length]; lia).
        replace (vs1' ++ v :: v2 :: vs2') with ((vs1' ++ [v]) ++ v2 :: vs2') by (rewrite <- app_assoc; reflexivity).
        rewrite zget_mid. cbn [bind].
        rewrite Hr at 1. rewrite zget_mid. cbn [bind].
        replace (Z.of_nat (length rs1')) with (Z.of_nat (length vs1')) by lia.
        rewrite Hvs at 1. rewrite zget_mid. cbn [bind].
        replace (Z.of_nat (length vs1')) with (Z.of_nat (length pre')) by lia.
        rewrite <- app_assoc. cbn [app]. rewrite zset_mid. cbn [bind].
        rewrite row_step. destruct A; [|reflexivity].
        exfalso. rewrite gae_rows_cons in EG. destruct (gae_rows g l rs2' vs2' ds2' nv nd) as [[? ?] ?]. discriminate. }
  destruct (L (length rs) rs [] vs [] ds [] adv0 (eq_sym (app_nil_r rs)) (eq_sym (app_nil_r vs)) (eq_sym (app_nil_r ds))
              eq_refl Hv Hd Ha eq_refl eq_refl) as [lf HL].
  rewrite Nat.sub_diag in HL. cbn [gae_rows advs_of fst app] in HL. rewrite app_nil_r in HL.
  cbn [Z.of_nat] in HL.
  match goal with |- bind ?x _ = _ => replace x with (Ok (advs_of (gae_rows g l rs vs ds nv nd), lf) : res (list row * row)) by (symmetry; exact HL) end.
  reflexivity.
Qed.
Print Assumptions C17_translated_ippo_gae_is_model.

