(* C13 — translation tie.  GenC13.v is regenerated from /repo's CURRENT source of
   agilerl/vector/pz_async_vec_env.py (AsyncPettingZooVecEnv._poll_pipe_envs, the case timeout is not None) by
   harness/pytrans.py on every run of ./check C13.  The generated function is the SHARED-DEADLINE LOOP: one
   end_time = clock + timeout computed before the loop, per pipe delta = max(end_time - clock, 0), the order of the
   tests (None, closed, poll(delta)), False on the first pipe that fails, True after the last — over abstract
   inputs: the clock readings (one before the loop, one per iteration), float seconds with + - <, and the pipe
   operations `is None`, `.closed`, `.poll(delta)` (harness/pytrans.py, C13 table).
   This committed file interprets them as C13/Model.v reads time: times are integers, pipe i becomes readable at
   time d_i, a poll started at time `now` with budget delta succeeds iff d_i <= now + delta and then returns at
   max(now, d_i); the clock read in iteration i is the time at which the previous polls returned.  It proves that
   for every timeout T and all readiness times the code-as-translated returns exactly
   fst (poll_loop false T 0 ds) — the model's loop with ONE deadline.  Hence poll_deadline_spec & co. of
   coq/props/C13.v are theorems about the translated source, and a loop that hands every pipe the full timeout
   (poll_loop true) breaks this proof obligation.
   The proofs mention generated names only through the function name. *)
From Coq Require Import List Arith Bool ZArith Lia.
Import ListNotations.
From AgileV Require Import C13.Model C13.ProofsTimed.
From AgileV Require Import TR.PyLib.   (* last: its [Ok] is the one meant below (C13.Model has an outcome Ok) *)
From AgileGen Require Import GenC13.

(* ---- interpretation ---- *)
(* the clock reading at the start of every iteration, as the model lets time pass *)
Fixpoint nows (now : nat) (ds : list nat) : list nat :=
  match ds with [] => [] | d :: r => now :: nows (Nat.max now d) r end.
(* a pipe = (is None, is closed, time at which it becomes readable, time at which it is polled) *)
Record pipe := { p_none : bool; p_closed : bool; p_ready : nat; p_at : nat }.
Definition pipe_poll (p : pipe) (delta : Z) : bool := (Z.of_nat (p_ready p) <=? Z.of_nat (p_at p) + delta)%Z.
Fixpoint mk_pipes (fl : list (bool * bool)) (ds ts : list nat) : list pipe :=
  match fl, ds, ts with
  | (n, c) :: fl', d :: ds', t :: ts' => Build_pipe n c d t :: mk_pipes fl' ds' ts'
  | _, _, _ => []
  end.

(* the model's loop (one deadline) extended by what the model leaves out: a pipe that is None or closed makes the
   wait fail at once.  With no such pipe it IS fst (poll_loop false ...) (lemma below). *)
Fixpoint poll_flags (T now : nat) (fl : list (bool * bool)) (ds : list nat) : bool :=
  match fl, ds with
  | (n, c) :: fl', d :: ds' =>
      if n then false else if c then false
      else if Nat.leb d (now + (T - now)) then poll_flags T (Nat.max now d) fl' ds' else false
  | _, _ => true
  end.

Lemma poll_flags_is_poll_loop T : forall ds now,
  poll_flags T now (map (fun _ => (false, false)) ds) ds = fst (poll_loop false T now ds).
Proof.
  induction ds as [|d ds IH]; intros now; cbn [map poll_flags poll_loop]; [reflexivity|].
  destruct (Nat.leb d (now + (T - now))); [apply IH|reflexivity].
Qed.

Definition translated_poll_flags (T : nat) (fl : list (bool * bool)) (ds : list nat) : res bool :=
  poll_pipe_envs Z.add Z.sub Z.ltb 0%Z p_none p_closed pipe_poll
                 (mk_pipes fl ds (nows 0 ds)) (Z.of_nat T) 0%Z (map Z.of_nat (nows 0 ds)).
Definition translated_poll (T : nat) (ds : list nat) : res bool :=
  translated_poll_flags T (map (fun _ => (false, false)) ds) ds.

Lemma skipn_cons {A} : forall (l : list A) (i : nat) (x : A) (r : list A),
  skipn i l = x :: r -> nth_error l i = Some x /\ skipn (S i) l = r.
Proof.
  induction l as [|a l IH]; intros [|i] x r H; cbn in *; try discriminate.
  - injection H as -> ->. split; reflexivity.
  - apply IH. exact H.
Qed.

Lemma zget_nth {A} (l : list A) (i : nat) (x : A) : nth_error l i = Some x -> zget l (Z.of_nat i) = Ok x.
Proof. intros H. unfold zget. destruct (Z.ltb_spec (Z.of_nat i) 0); [lia|]. rewrite Nat2Z.id, H. reflexivity. Qed.

Lemma for_go_S {S : Type} (k : nat) (i : Z) (body : Z -> S -> res (S + S)) (s : S) :
  for_go (Datatypes.S k) i body s =
  bind (body i s) (fun r => match r with inl s' => for_go k (i + 1)%Z body s' | inr s' => Ok s' end).
Proof. reflexivity. Qed.

Lemma nows_length : forall ds now, length (nows now ds) = length ds.
Proof. induction ds as [|d ds IH]; intros now; cbn [nows length]; [reflexivity|]. rewrite IH. reflexivity. Qed.

Lemma mk_pipes_length : forall fl ds ts, length fl = length ds -> length ts = length ds ->
  length (mk_pipes fl ds ts) = length ds.
Proof.
  induction fl as [|[n c] fl IH]; intros [|d ds] [|t ts] H1 H2; cbn in *; try discriminate; try reflexivity.
  rewrite IH by lia. reflexivity.
Qed.

(* the translated loop on pipes of which some may be None / closed *)
Theorem C13_translated_poll_flags_is_model :
  forall (T : nat) (fl : list (bool * bool)) (ds : list nat), length fl = length ds ->
    translated_poll_flags T fl ds = Ok (poll_flags T 0 fl ds).
Proof.
  intros T fl ds Hfl. unfold translated_poll_flags, poll_pipe_envs. cbv zeta.
  unfold for_range, zlen. rewrite Z.sub_0_r, Nat2Z.id.
  match goal with |- context [for_go _ _ ?body _] => set (BODY := body) end.
  set (P := mk_pipes fl ds (nows 0 ds)). set (C := map Z.of_nat (nows 0 ds)).
  assert (L : forall ds2 fl2 now i, length fl2 = length ds2 -> now <= T ->
             skipn i P = mk_pipes fl2 ds2 (nows now ds2) -> skipn i C = map Z.of_nat (nows now ds2) ->
             for_go (length ds2) (Z.of_nat i) BODY None
             = Ok (if poll_flags T now fl2 ds2 then None else Some false)).
  { induction ds2 as [|d ds2 IH]; intros [|[n c] fl2] now i Hl HT HP HC; cbn [length] in Hl; try discriminate.
    - reflexivity.
    - cbn [length]. rewrite for_go_S. unfold BODY at 1.
      cbn [nows mk_pipes map] in HP, HC.
      apply skipn_cons in HP. destruct HP as [HP1 HP2]. apply skipn_cons in HC. destruct HC as [HC1 HC2].
      fold P. fold C. rewrite (zget_nth _ _ _ HP1). cbn [bind]. rewrite (zget_nth _ _ _ HC1). cbn [bind]. cbv zeta.
      unfold py_max, pipe_poll. cbn [p_none p_closed p_ready p_at]. cbn [poll_flags].
      replace (Z.of_nat i + 1)%Z with (Z.of_nat (S i)) by lia.
      destruct n; [reflexivity|]. destruct c; cbn [orb negb]; [reflexivity|].
      repeat match goal with
             | |- context [Z.ltb ?a ?b] => destruct (Z.ltb_spec a b)
             | |- context [Z.leb ?a ?b] => destruct (Z.leb_spec a b)
             end; cbn [negb orb bind];
        destruct (Nat.leb_spec d (now + (T - now))); try lia; try reflexivity;
        apply IH; try assumption; lia. }
  replace (length P) with (length ds) by (unfold P; rewrite mk_pipes_length; rewrite ?nows_length; lia).
  pose proof (L ds fl 0 0 Hfl (Nat.le_0_l T) eq_refl eq_refl) as HL. cbn [Z.of_nat] in HL. rewrite HL. cbn [bind].
  destruct (poll_flags T 0 fl ds); reflexivity.
Qed.
Print Assumptions C13_translated_poll_flags_is_model.

Theorem C13_translated_poll_is_model :
  forall (T : nat) (ds : list nat), translated_poll T ds = Ok (fst (poll_loop false T 0 ds)).
Proof.
  intros T ds. unfold translated_poll.
  rewrite C13_translated_poll_flags_is_model by apply map_length.
  rewrite poll_flags_is_poll_loop. reflexivity.
Qed.
Print Assumptions C13_translated_poll_is_model.

(* transfer: the deadline theorem of props/C13.v on the translated loop — it reports success exactly when every pipe
   is readable by the ONE deadline T, however the waiting times add up *)
Theorem C13_translated_poll_shared_deadline :
  forall (T : nat) (ds : list nat),
    (translated_poll T ds = Ok true <-> Forall (fun d => d <= T) ds) /\
    (Exists (fun d => T < d) ds -> translated_poll T ds = Ok false).
Proof.
  intros T ds. rewrite C13_translated_poll_is_model.
  destruct (poll_shared_spec T ds 0 (Nat.le_0_l T)) as (A & _ & _).
  split.
  - split; intros H.
    + apply A. injection H as H. exact H.
    + f_equal. apply A. exact H.
  - intros He. destruct (fst (poll_loop false T 0 ds)) eqn:E; [|reflexivity].
    exfalso. assert (E' : Forall (fun d => d <= T) ds) by (apply A; reflexivity). clear E. rename E' into E. rewrite Forall_forall in E. apply Exists_exists in He. destruct He as (d & Hin & Hd).
    specialize (E d Hin). lia.
Qed.
Print Assumptions C13_translated_poll_shared_deadline.
