(* C14 — translation tie.  GenC14.v is regenerated from /repo's CURRENT source of agilerl/networks/actors.py
   (DeterministicActor.rescale_action, StochasticActor.scale_action) by harness/pytrans.py on every run of
   ./check C14.  The generated functions are the BRANCH STRUCTURE and the FORMULAS of the two methods — which output
   activations are rescaled from which interval, that an unbounded action space returns the action unchanged, the
   affine maps  low + (high - low) * (a - pmin) / (pmax - pmin)  and  low + 0.5 * (a + 1) * (high - low)  with their
   association — over abstract element-wise tensor / scalar operations (harness/pytrans.py, C14 table).
   This committed file interprets those operations on rows of optional rationals (None = an infinite bound, as in
   C14/Model.v) and proves, for every activation name, every box and every row of the same width, that the
   code-as-translated returns exactly the model's [rescale_vec] / [scale_vec].  Hence rescale_in_box / clip theorems
   of coq/props/C14.v that speak about rescale_vec / scale_vec are theorems about the translated source.
   The proofs mention generated names only through the function names. *)
From Coq Require Import List Arith Bool ZArith QArith String Lia.
Import ListNotations.
From AgileV Require Import TR.PyLib C14.Model.
From AgileGen Require Import GenC14.
Local Open Scope Q_scope.

(* ---- interpretation: a tensor row = list of optional rationals (None = +-inf) ---- *)
Definition ten := list (option Q).
Definition lift2 (f : Q -> Q -> Q) (a b : ten) : ten :=
  map (fun p => match p with (Some x, Some y) => Some (f x y) | _ => None end) (combine a b).
Definition lift_s (f : Q -> Q) (a : ten) : ten := map (option_map f) a.
Definition t_any_inf (a : ten) : bool := existsb (fun o => match o with None => true | Some _ => false end) a.

Definition pm1 : Q * Q := act_range ActPM1.
Definition z01 : Q * Q := act_range Act01.

Definition translated_rescale (action low high : ten) (s : string) : res ten :=
  DeterministicActor_rescale_action (lift2 Qplus) (lift2 Qminus) (lift2 Qmult)
    (fun a s => lift_s (fun x => x / s) a) (fun a s => lift_s (fun x => x - s) a) (fun a s => lift_s (fun x => x + s) a)
    (fun s a => lift_s (fun x => s * x) a) Qminus (fst pm1) (fst z01) (snd pm1) (1 # 2)
    t_any_inf (fun _ => true) (fun a => a) action low high s.

Definition translated_scale (is_t : bool) (low high action : ten) : res ten :=
  StochasticActor_scale_action (lift2 Qplus) (lift2 Qminus) (lift2 Qmult)
    (fun a s => lift_s (fun x => x / s) a) (fun a s => lift_s (fun x => x - s) a) (fun a s => lift_s (fun x => x + s) a)
    (fun s a => lift_s (fun x => s * x) a) Qminus (fst pm1) (fst z01) 1 (1 # 2)
    t_any_inf (fun _ => is_t) (fun a => a) low high action.

(* the activation class of a name, as rescale_action classifies it *)
Definition act_of (s : string) : act :=
  if (String.eqb s "Tanh" || String.eqb s "Softsign")%bool then ActPM1
  else if (String.eqb s "Sigmoid" || String.eqb s "Softmax" || String.eqb s "GumbelSoftmax")%bool then Act01
  else ActOther.

Definition lows (box : list bounds) : ten := map fst box.
Definition highs (box : list bounds) : ten := map snd box.

Lemma any_inf_finite (box : list bounds) :
  (t_any_inf (lows box) || t_any_inf (highs box))%bool = negb (finite_box box).
Proof.
  unfold t_any_inf, lows, highs, finite_box.
  induction box as [|[[lo|] [hi|]] box IH]; cbn [map existsb forallb fst snd negb andb orb]; try reflexivity.
  - exact IH.
  - rewrite orb_true_r. reflexivity.
Qed.

Lemma rescale_rows (pmin pmax : Q) : forall (box : list bounds) (xs : list Q),
  finite_box box = true ->
  lift2 Qplus (lows box)
    (lift_s (fun x => x / (pmax - pmin))
       (lift2 Qmult (lift2 Qminus (highs box) (lows box)) (lift_s (fun x => x - pmin) (map Some xs))))
  = map Some (map (fun '(b, x) => rescale1 pmin pmax b x) (combine box xs)).
Proof.
  unfold lift2, lift_s, lows, highs.
  induction box as [|b box IH]; intros xs H; [reflexivity|].
  destruct b as [[lo|] [hi|]]; cbn [finite_box forallb andb] in H; try discriminate.
  destruct xs as [|x xs]; [reflexivity|].
  cbn [map combine fst snd option_map rescale1]. f_equal. apply IH. exact H.
Qed.

Theorem C14_translated_rescale_action_is_model :
  forall (s : string) (box : list bounds) (xs : list Q),
    translated_rescale (map Some xs) (lows box) (highs box) s = Ok (map Some (rescale_vec (act_of s) box xs)).
Proof.
  intros s box xs. unfold translated_rescale, DeterministicActor_rescale_action, act_of, rescale_vec. cbv zeta.
  pose proof (any_inf_finite box) as HI.
  (* whichever way the source combines the two infinity tests, their values follow from finite_box *)
  destruct (String.eqb s "Tanh" || String.eqb s "Softsign")%bool;
    [|destruct (String.eqb s "Sigmoid" || String.eqb s "Softmax" || String.eqb s "GumbelSoftmax")%bool; [|reflexivity]];
    cbn [pm1 z01 act_range fst snd];
    (destruct (finite_box box) eqn:F; cbn [negb] in HI;
     destruct (t_any_inf (lows box)), (t_any_inf (highs box)); cbn [orb] in HI; try discriminate;
     cbn [orb negb]; try reflexivity; f_equal).
  - apply (rescale_rows (-1) 1); exact F.
  - apply (rescale_rows 0 1); exact F.
Qed.
Print Assumptions C14_translated_rescale_action_is_model.

Lemma scale_rows : forall (box : list bounds) (ts : list Q),
  finite_box box = true ->
  lift2 Qplus (lows box)
    (lift2 Qmult (lift_s (fun x => (1 # 2) * x) (lift_s (fun x => x + 1) (map Some ts)))
       (lift2 Qminus (highs box) (lows box)))
  = map Some (scale_vec box ts).
Proof.
  unfold lift2, lift_s, lows, highs, scale_vec.
  induction box as [|b box IH]; intros ts H; [reflexivity|].
  destruct b as [[lo|] [hi|]]; cbn [finite_box forallb andb] in H; try discriminate.
  destruct ts as [|x ts]; [reflexivity|].
  cbn [map combine fst snd option_map scale1]. f_equal. apply IH. exact H.
Qed.

Theorem C14_translated_scale_action_is_model :
  forall (is_t : bool) (box : list bounds) (ts : list Q), finite_box box = true ->
    translated_scale is_t (lows box) (highs box) (map Some ts) = Ok (map Some (scale_vec box ts)).
Proof.
  intros is_t box ts F. unfold translated_scale, StochasticActor_scale_action. cbv zeta.
  destruct is_t; cbv beta iota; f_equal; apply scale_rows; exact F.
Qed.
Print Assumptions C14_translated_scale_action_is_model.
