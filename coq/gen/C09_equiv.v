(* C09 — translation tie.  GenC09.v is regenerated from /repo's CURRENT source of
   agilerl/components/replay_buffer.py (ReplayBuffer.add: the cursor / size / slice-bound arithmetic, the branch
   structure and the slice assignments; the device move, the reshape of 1-D fields and the lazy allocation of the
   storage are recognised statement shapes that are abstracted — harness/pytrans.py, C09_ADD_SKIPPED) by
   harness/pytrans.py on every run of ./check C09.  This committed file proves that for every capacity, every
   cursor inside the buffer, every storage of capacity rows and every batch of at most capacity rows the
   code-as-translated performs exactly the model's [rb_add]: same storage ([add_batch], one or two slices), same
   cursor, same size; it raises nothing (no shape mismatch in a slice assignment, no negative bound, no division
   by zero).  Hence the theorems of coq/props/C09.v, which are about [rb_add] / [add_batch], are theorems about
   the translated source; the invariant step is transferred explicitly.
   Slices follow coq/theories/TR/PyLib.v (zslice / zslice_assign).  The proofs mention generated names only
   through the function name [ReplayBuffer_add]. *)
From Coq Require Import List Arith Bool ZArith Lia.
Import ListNotations.
From AgileV Require Import Base.Prelude TR.PyLib C09.Model C09.Proofs.
From AgileGen Require Import GenC09.

Definition oz (o : option Z) (d : Z) : Z := match o with Some x => x | None => d end.

Lemma zslice_ok {A} (l : list A) (a b : option Z) :
  (0 <= oz a 0)%Z -> (0 <= oz b (zlen l))%Z ->
  zslice l a b = Ok (firstn (Z.to_nat (oz b (zlen l)) - Z.to_nat (oz a 0)) (skipn (Z.to_nat (oz a 0)) l)).
Proof.
  intros Ha Hb. unfold zslice, oz in *.
  destruct a, b; repeat match goal with |- context [(?x <? 0)%Z] => destruct (Z.ltb_spec x 0); try lia end;
    cbn [orb]; reflexivity.
Qed.

Lemma zslice_assign_ok {A} (l xs : list A) (a b : option Z) (lo hi : nat) :
  (0 <= oz a 0)%Z -> (0 <= oz b (zlen l))%Z ->
  lo = Z.to_nat (oz a 0) -> hi = Z.to_nat (oz b (zlen l)) -> lo <= hi -> hi <= length l -> hi - lo = length xs ->
  zslice_assign l a b xs = Ok (firstn lo l ++ xs ++ skipn hi l).
Proof.
  intros Ha Hb -> -> H1 H2 H3. unfold zslice_assign, oz in *.
  destruct a, b; repeat match goal with |- context [(?x <? 0)%Z] => destruct (Z.ltb_spec x 0); try lia end;
    cbn [orb];
    match goal with |- context [Nat.eqb ?p ?q] => replace (Nat.eqb p q) with true by (symmetry; apply Nat.eqb_eq; lia) end;
    repeat f_equal; lia.
Qed.

Section Add.
Context {A : Type}.

(* ReplayBuffer.add(data) on a buffer with max_size = cap, _cursor = cur, _size = sz, counter = cnt and the rows
   l in _storage: the new _storage, _cursor, _size (and counter) *)
Theorem C09_translated_add_is_model :
  forall (cap cur sz : nat) (cnt : Z) (l xs : list A),
    0 < cap -> cur < cap -> length l = cap -> length xs <= cap ->
    ReplayBuffer_add (Z.of_nat cap) (Z.of_nat cur) (Z.of_nat sz) cnt l xs
    = Ok (add_batch cap cur l xs,
          Z.of_nat ((cur + length xs) mod cap),
          Z.of_nat (Nat.min (sz + length xs) cap),
          (cnt + Z.of_nat (length xs))%Z).
Proof.
  intros cap cur sz cnt l xs Hcap Hcur Hl Hn.
  unfold ReplayBuffer_add, add_batch, zlen. cbv zeta.
  set (n := length xs) in *.
  assert (Emod : zmod (Z.of_nat cur + Z.of_nat n) (Z.of_nat cap) = Ok (Z.of_nat ((cur + n) mod cap))).
  { unfold zmod. destruct (Z.eqb_spec (Z.of_nat cap) 0); [lia|].
    rewrite <- Nat2Z.inj_add, <- Nat2Z.inj_mod. reflexivity. }
  assert (Emin : Z.min (Z.of_nat sz + Z.of_nat n) (Z.of_nat cap) = Z.of_nat (Nat.min (sz + n) cap)) by lia.
  destruct (Nat.ltb_spec cap (cur + n)) as [Hw|Hw];
    (destruct (Z.ltb_spec (Z.of_nat cap) (Z.of_nat cur + Z.of_nat n)); [|try lia]); try lia.
  - (* the batch crosses the end: two slices *)
    rewrite zslice_ok by (cbn [oz]; unfold zlen; lia). cbn [bind oz].
    rewrite (zslice_assign_ok l _ _ _ cur cap) by
      (cbn [oz]; unfold zlen; rewrite ?firstn_length, ?skipn_length; cbn [skipn]; lia).
    cbn [bind].
    rewrite zslice_ok by (cbn [oz]; unfold zlen; lia). cbn [bind oz].
    erewrite (zslice_assign_ok _ _ _ _ 0 (n - (cap - cur))) by
      (cbn [oz]; unfold zlen; rewrite ?app_length, ?firstn_length, ?skipn_length; cbn [skipn length]; fold n; lia).
    cbn [bind]. rewrite Emod. cbn [bind]. rewrite Emin.
    cbn [firstn app].
    replace (Z.to_nat 0) with 0 by reflexivity. cbn [skipn].
    rewrite (skipn_all2 l) by lia. rewrite app_nil_r.
    replace (Z.to_nat (Z.of_nat cap - Z.of_nat cur) - 0) with (cap - cur) by lia.
    replace (Z.to_nat (Z.of_nat cap - Z.of_nat cur)) with (cap - cur) by lia.
    unfold zlen. fold n. rewrite Nat2Z.id.
    rewrite (firstn_all2 (skipn (cap - cur) xs)) by (rewrite skipn_length; fold n; lia).
    reflexivity.
  - (* one slice *)
    rewrite (zslice_assign_ok l xs _ _ cur (cur + n)) by (cbn [oz]; unfold zlen; fold n; lia).
    cbn [bind]. rewrite Emod. cbn [bind]. rewrite Emin. reflexivity.
Qed.
End Add.
Print Assumptions C09_translated_add_is_model.

(* the same statement on the model's buffer record: add = rb_add *)
Theorem C09_translated_add_is_rb_add :
  forall (A : Type) (b : rb A) (cnt : Z) (xs : list A),
    0 < cap b -> cursor b < cap b -> length (store b) = cap b -> length xs <= cap b ->
    exists cnt',
      ReplayBuffer_add (Z.of_nat (cap b)) (Z.of_nat (cursor b)) (Z.of_nat (size b)) cnt (store b) (map Some xs)
      = Ok (store (rb_add b xs), Z.of_nat (cursor (rb_add b xs)), Z.of_nat (size (rb_add b xs)), cnt').
Proof.
  intros A b cnt xs H0 H1 H2 H3. eexists.
  rewrite C09_translated_add_is_model by (rewrite ?map_length; assumption).
  unfold rb_add. cbn [store cursor size]. rewrite map_length. reflexivity.
Qed.
Print Assumptions C09_translated_add_is_rb_add.

(* transfer: one step of the refinement invariant of props/C09.v (rb_refines_spec), on the translated code *)
Theorem C09_translated_add_keeps_invariant :
  forall (A : Type) (c : nat) (h : list A) (b : rb A) (cnt : Z) (xs : list A),
    0 < c -> length xs <= c -> Inv c h b ->
    exists st cu si cnt',
      ReplayBuffer_add (Z.of_nat (cap b)) (Z.of_nat (cursor b)) (Z.of_nat (size b)) cnt (store b) (map Some xs)
      = Ok (st, Z.of_nat cu, Z.of_nat si, cnt')
      /\ Inv c (h ++ xs) {| cap := cap b; cursor := cu; size := si; store := st |}.
Proof.
  intros A c h b cnt xs Hc Hn HI.
  pose proof (inv_add c h b xs Hc Hn HI) as HI'.
  destruct HI as [Hcap Hlen Hcur Hsz _ _].
  destruct (C09_translated_add_is_rb_add A b cnt xs) as [cnt' E]; try (rewrite ?Hcap; lia).
  { rewrite Hcur, Hcap. apply Nat.mod_upper_bound. lia. }
  exists (store (rb_add b xs)), (cursor (rb_add b xs)), (size (rb_add b xs)), cnt'. split; [exact E|].
  exact HI'.
Qed.
Print Assumptions C09_translated_add_keeps_invariant.
