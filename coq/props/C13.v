(* C13 — property theorems only. Each is closed by [exact] of a lemma proved in C13/Proofs*.v. *)
From Coq Require Import List Arith Bool.
Import ListNotations.
From AgileV Require Import C13.Model C13.Proofs C13.ProofsInv C13.ProofsSurface C13.ProofsGenuine C13.ProofsTimed C13.ProofsDeath C13.ProofsSync C13.ProofsKill.

(* Misuse — waiting without a pending call, a second call (or set_attr) while one is pending, any call after
   close() — returns the documented error and leaves the whole state (parent and workers) unchanged,
   for every state whatsoever (hence for every history and every fault plan) and every version of close. *)
Theorem misuse_rejected : forall v e o r, misuse e o = Some r -> step_gen v e o = (r, e).
Proof. exact misuse_step. Qed.
Print Assumptions misuse_rejected.

(* ... so the environment stays usable: the rest of any run behaves as if the misuse had not happened. *)
Theorem misuse_transparent : forall v e o r ops,
  misuse e o = Some r ->
  run_gen v e (o :: ops) = (r :: fst (run_gen v e ops), snd (run_gen v e ops)).
Proof. exact misuse_run. Qed.
Print Assumptions misuse_transparent.

Theorem wait_without_async_rejected : forall v k fin e,
  closed e = false -> st e <> wst k -> step_gen v e (OWait k fin) = (NoAsyncCall, e).
Proof. exact wait_without_async. Qed.
Print Assumptions wait_without_async_rejected.

Theorem call_while_pending_rejected : forall v e o,
  closed e = false -> st e <> DEFAULT ->
  (exists k, o = OAsync k) \/ o = OCallBad \/ o = OSetAttr ->
  step_gen v e o = (AlreadyPending, e).
Proof. exact call_while_pending. Qed.
Print Assumptions call_while_pending_rejected.

Theorem use_after_close_rejected : forall v e o,
  closed e = true ->
  match o with
  | ORelease | OKill _ => True
  | OClose _ _ => step_gen v e o = (Ok, e)
  | _ => step_gen v e o = (ClosedErr, e)
  end.
Proof. exact use_after_close. Qed.
Print Assumptions use_after_close_rejected.

(* Faults surface. In a clean environment (open, nothing pending, nothing in flight, any number of workers) where
   every sub-environment either answers or raises on its next command and at least one raises: X_async succeeds and
   the matching X_wait (with or without timeout) re-raises the exception type of a failing worker (the last one
   drained from the error queue, i.e. the failing worker with the highest index), and the state is DEFAULT again. *)
Theorem fault_surfaces : forall k fin e,
  clean e -> Forall calm (ws e) -> raised (ws e) <> [] ->
  fst (async k e) = Ok /\
  let r := wait k fin (snd (async k e)) in
  fst r = Exc (last (map snd (raised (ws e))) 0) /\ In (last (map snd (raised (ws e))) 0) (map snd (raised (ws e))) /\
  st (snd r) = DEFAULT /\ closed (snd r) = false.
Proof. exact fault_surfaces_lemma. Qed.
Print Assumptions fault_surfaces.

(* A healthy round returns exactly the answers of this round (command numbers = the workers' counters) and leaves
   a clean environment ... *)
Theorem healthy_round : forall k fin e,
  clean e -> Forall (fun w => next w = Normal) (ws e) ->
  fst (async k e) = Ok /\
  let r := wait k fin (snd (async k e)) in
  fst r = Ok /\ clean (snd r) /\ got (snd r) = map nseen (ws e) /\
  map nseen (ws (snd r)) = map S (map nseen (ws e)) /\ map plan (ws (snd r)) = map plan (ws e) /\
  ws (snd r) = map emptied (ws e).
Proof. exact healthy_round_lemma. Qed.
Print Assumptions healthy_round.

(* ... so after ANY number of healthy rounds of any kinds the environment is clean again with every worker's command
   counter advanced by the number of rounds: fault_surfaces / timeout_reported apply at every command number. *)
Theorem healthy_rounds : forall ks e,
  clean e -> healthy_for (length ks) e ->
  clean (rounds ks e) /\
  Forall2 (fun w w' => plan w' = plan w /\ nseen w' = nseen w + length ks /\ idx w' = idx w) (ws e) (ws (rounds ks e)).
Proof. exact healthy_rounds_lemma. Qed.
Print Assumptions healthy_rounds.

Theorem fresh_environment_clean : forall plans, clean (init plans).
Proof. exact init_clean. Qed.
Print Assumptions fresh_environment_clean.

(* the same for set_attr (send and receive in one call) and for a remote call of a forbidden name (every worker
   raises ValueError itself): all four command kinds reach the caller *)
Theorem set_attr_fault_surfaces : forall e,
  clean e -> Forall calm (ws e) -> raised (ws e) <> [] ->
  fst (set_attr e) = Exc (last (map snd (raised (ws e))) 0) /\ st (snd (set_attr e)) = DEFAULT /\
  closed (snd (set_attr e)) = false.
Proof. exact set_attr_fault_surfaces_lemma. Qed.
Print Assumptions set_attr_fault_surfaces.

Theorem set_attr_healthy : forall e,
  clean e -> Forall (fun w => next w = Normal) (ws e) ->
  fst (set_attr e) = Ok /\ st (snd (set_attr e)) = DEFAULT /\ ws (snd (set_attr e)) = map emptied (ws e).
Proof. exact set_attr_healthy_lemma. Qed.
Print Assumptions set_attr_healthy.

Theorem forbidden_call_surfaces : forall fin e,
  clean e -> ws e <> [] ->
  fst (call_bad e) = Ok /\
  let r := wait KCall fin (snd (call_bad e)) in
  fst r = Exc EValueError /\ st (snd r) = DEFAULT /\ closed (snd r) = false.
Proof. exact forbidden_call_surfaces_lemma. Qed.
Print Assumptions forbidden_call_surfaces.

(* The death of a worker with a call pending surfaces whatever the victim's index (first, middle, last; any number
   of workers): in a clean environment where on the pending command every sub-environment answers, raises or dies
   without a word (SIGKILL) and at least one dies, X_async succeeds and the matching X_wait (with or without timeout)
   returns EOFError at once — never Hang, never a silent Ok; close_total then cleans up. *)
Theorem death_surfaces : forall k fin e,
  clean e -> Forall mortal (ws e) -> Exists (fun w => next w = Die) (ws e) ->
  fst (async k e) = Ok /\
  let r := wait k fin (snd (async k e)) in
  fst r = EOFErr /\ st (snd r) = wst k /\ closed (snd r) = false.
Proof. exact death_surfaces_lemma. Qed.
Print Assumptions death_surfaces.

(* ... and conversely, in EVERY run (any calls, misuse, stale answers, kills, wake-ups, any plans): an exception type that
   any call re-raises was raised by some sub-environment according to its plan, or is the workers' own ValueError
   (type 0) for a forbidden remote call — no invented or mixed-up types. *)
Theorem exception_is_genuine : forall plans ops x,
  In (Exc x) (fst (run (init plans) ops)) ->
  x = EValueError \/ exists p n, In p plans /\ p n = Raise x.
Proof. exact exception_is_genuine_lemma. Qed.
Print Assumptions exception_is_genuine.

(* A sub-environment that sleeps past a finite timeout: the wait reports Timeout (and resets the state). *)
Theorem timeout_reported : forall k e,
  clean e -> Exists (fun w => next w = Sleep) (ws e) ->
  fst (async k e) = Ok /\
  let r := wait k true (snd (async k e)) in fst r = Timeout /\ st (snd r) = DEFAULT /\ closed (snd r) = false.
Proof. exact timeout_reported_lemma. Qed.
Print Assumptions timeout_reported.

(* The timeout path of a wait changes nothing but the state: it happens only with a finite timeout and an unreadable
   pipe, and every queued answer stays where it was (the cause of the separately reported stale-answers clause). *)
Theorem timeout_only_resets_state : forall fin e,
  fst (wait_core fin e) = Timeout ->
  snd (wait_core fin e) = mkE DEFAULT (closed e) (ws e) (eq e) (got e) /\ fin = true /\ poll_all (ws e) = false.
Proof. exact timeout_only_resets_state_lemma. Qed.
Print Assumptions timeout_only_resets_state.

(* The poll loop of a wait shares ONE deadline among the pipes. poll_loop makes time explicit: ds = time at which each
   pipe's answer becomes readable (any number of workers, any times, pipe order). With the shared budget the loop
   succeeds iff EVERY answer arrives by T (the maximum counts, not a per-pipe allowance) and otherwise gives up exactly
   at time T ... *)
Theorem poll_deadline : forall T ds,
  (fst (poll_loop false T 0 ds) = true <-> Forall (fun d => d <= T) ds) /\
  (Exists (fun d => T < d) ds -> poll_loop false T 0 ds = (false, T)).
Proof. exact poll_deadline_lemma. Qed.
Print Assumptions poll_deadline.

(* ... so X_wait(T) with staggered answers reports Timeout (at time T, nothing consumed, state DEFAULT) as soon as one
   worker answers after T, however the others are staggered, and never reports Timeout when all answer by T. *)
Theorem timeout_reported_staggered : forall k T ds e,
  closed e = false -> st e = wst k ->
  (Exists (fun d => T < d) ds ->
     wait_timed false k T ds e = (Timeout, mkE DEFAULT (closed e) (ws e) (eq e) (got e)) /\
     snd (poll_loop false T 0 ds) = T) /\
  (Forall (fun d => d <= T) ds -> fst (wait_timed false k T ds e) <> Timeout).
Proof. exact timeout_reported_staggered_lemma. Qed.
Print Assumptions timeout_reported_staggered.

(* the variant that polls every pipe with the full timeout misses the timeout for staggered readiness *)
Theorem per_pipe_budget_refuted : exists T ds,
  Exists (fun d => T < d) ds /\ poll_loop true T 0 ds = (true, 230) /\ poll_loop false T 0 ds = (false, T).
Proof. exact per_pipe_budget_refuted_lemma. Qed.
Print Assumptions per_pipe_budget_refuted.

(* close() is total (current tree, with 3d4be93 and 8e80bc4): from every state reachable from a fresh environment
   by ANY sequence of interface calls (legal or misuse), harness kills and wake-ups, under ANY fault plans of any
   number of workers, close(timeout?, terminate?) returns normally (never Hang, never an exception),
   the environment is closed and no worker is alive. *)
Theorem close_total : forall plans ops fin term,
  let e := snd (run (init plans) ops) in
  fst (close fin term e) = Ok /\ closed (snd (close fin term e)) = true /\
  Forall (fun w => stat w = Dead) (ws (snd (close fin term e))).
Proof. exact close_total_lemma. Qed.
Print Assumptions close_total.

(* the invariant behind it holds in every reachable state: a dropped pipe belongs to a dead worker, every failure
   message still in a pipe has its error record in the error queue (so _raise_if_errors never blocks on the queue),
   error records name dead workers, and while a call is pending either some worker is dead or every worker has an
   answer outstanding or is still busy (so the pending *_wait cannot block for ever) *)
Theorem reachable_invariant : forall plans ops, Inv (snd (run (init plans) ops)).
Proof. exact (fun plans ops => run_Inv ops (init plans) (init_Inv plans)). Qed.
Print Assumptions reachable_invariant.

(* a pending *_wait never hangs unless a worker died without answering *)
Theorem pending_wait_no_hang : forall fin e,
  InvOpen e -> st e <> DEFAULT -> existsb (fun w => is_dead (stat w)) (ws e) = false ->
  fst (wait_core fin e) <> Hang.
Proof. exact (fun fin e HI => proj2 (wait_core_inv fin e HI)). Qed.
Print Assumptions pending_wait_no_hang.

(* Workers may be killed (SIGKILL) and sleepers may wake up at ANY moment between X_async and the matching X_wait —
   any number of times, any indices, in any reachable open state, under any plans: the wait never hangs (it returns
   answers, re-raises an exception, reports a timeout or reports the death), it is not mistaken for misuse, and
   close() afterwards is total. *)
Theorem kill_any_time_no_hang : forall k fin ops e,
  closed e = false -> InvOpen e -> fst (async k e) = Ok -> Forall harness_op ops ->
  let e2 := snd (run (snd (async k e)) ops) in
  fst (wait k fin e2) <> Hang /\ fst (wait k fin e2) <> NoAsyncCall /\ fst (wait k fin e2) <> ClosedErr /\
  fst (close false false (snd (wait k fin e2))) = Ok.
Proof. exact kill_any_time_no_hang_lemma. Qed.
Print Assumptions kill_any_time_no_hang.

(* the reason: while every worker is dead, has an answer outstanding or is still busy, a wait cannot hang *)
Theorem wait_no_hang_when_all_dead_or_ready : forall fin e,
  InvOpen e -> all_dor e -> fst (wait_core fin e) <> Hang.
Proof. exact wait_core_dor_no_hang. Qed.
Print Assumptions wait_no_hang_when_all_dead_or_ready.

(* ---- the synchronous wrappers reset() / step() / call() = X_async, then X_wait() without timeout ---- *)
Theorem sync_misuse_rejected : forall k e,
  (closed e = true -> sync k e = (ClosedErr, e)) /\
  (closed e = false -> st e <> DEFAULT -> sync k e = (AlreadyPending, e)).
Proof. exact sync_misuse_rejected_lemma. Qed.
Print Assumptions sync_misuse_rejected.

Theorem sync_healthy : forall k e,
  clean e -> Forall (fun w => next w = Normal) (ws e) ->
  fst (sync k e) = Ok /\ clean (snd (sync k e)) /\ got (snd (sync k e)) = map nseen (ws e) /\
  ws (snd (sync k e)) = map emptied (ws e).
Proof. exact sync_healthy_lemma. Qed.
Print Assumptions sync_healthy.

Theorem sync_fault_surfaces : forall k e,
  clean e -> Forall calm (ws e) -> raised (ws e) <> [] ->
  fst (sync k e) = Exc (last (map snd (raised (ws e))) 0) /\ st (snd (sync k e)) = DEFAULT /\
  closed (snd (sync k e)) = false.
Proof. exact sync_fault_surfaces_lemma. Qed.
Print Assumptions sync_fault_surfaces.

Theorem sync_death_surfaces : forall k e,
  clean e -> Forall mortal (ws e) -> Exists (fun w => next w = Die) (ws e) ->
  fst (sync k e) = EOFErr /\ st (snd (sync k e)) = wst k /\ closed (snd (sync k e)) = false.
Proof. exact sync_death_surfaces_lemma. Qed.
Print Assumptions sync_death_surfaces.

(* a wrapper never leaves a call pending, except when a worker is gone / a pipe was dropped / it never returned *)
Theorem sync_leaves_nothing_pending : forall k e,
  closed e = false -> st e = DEFAULT -> st (snd (sync k e)) <> DEFAULT ->
  fst (sync k e) = EOFErr \/ fst (sync k e) = Hang \/ fst (sync k e) = AttrErr.
Proof. exact sync_leaves_nothing_pending_lemma. Qed.
Print Assumptions sync_leaves_nothing_pending.

(* the wrappers keep the invariant of reachable states, and close() is total from ANY state that satisfies it: so
   close_total extends to every mix of asynchronous calls, wrappers, misuse, kills and wake-ups *)
Theorem sync_keeps_invariant : forall k e, Inv e -> Inv (snd (sync k e)).
Proof. exact sync_Inv_lemma. Qed.
Print Assumptions sync_keeps_invariant.

Theorem step_keeps_invariant : forall e o, Inv e -> Inv (snd (step e o)).
Proof. exact step_Inv. Qed.
Print Assumptions step_keeps_invariant.

Theorem close_total_from_invariant : forall fin term e, Inv e ->
  fst (close fin term e) = Ok /\ closed (snd (close fin term e)) = true /\
  Forall (fun w => stat w = Dead) (ws (snd (close fin term e))).
Proof. exact close_total_from_inv_lemma. Qed.
Print Assumptions close_total_from_invariant.

Theorem sync_exception_is_genuine : forall plans0 k e, Inv e -> GI plans0 e ->
  GI plans0 (snd (sync k e)) /\ (forall x, fst (sync k e) = Exc x -> real plans0 x).
Proof. exact sync_genuine_lemma. Qed.
Print Assumptions sync_exception_is_genuine.

(* calls rejected for their arguments (set_attr with the wrong number of values, reset_async with the wrong number of
   seeds) change nothing, so the environment stays usable *)
Theorem arg_rejected_unchanged : forall e,
  snd (arg_rejected e) = e /\ (closed e = false -> fst (fst (arg_rejected e)) = true) /\
  (closed e = true -> fst (arg_rejected e) = (false, ClosedErr)).
Proof. exact arg_rejected_unchanged_lemma. Qed.
Print Assumptions arg_rejected_unchanged.

(* ---- refutations of the earlier behaviours (concrete runs of the model of that code) ---- *)
Theorem close_after_kill_refuted : exists plans ops,
  let '(rs, e) := run_gen V_pinned (init plans) ops in
  In BrokenPipe rs /\ closed e = false /\ all_dead e = false.
Proof. exact close_after_kill_refuted_lemma. Qed.
Print Assumptions close_after_kill_refuted.

(* tree with 3d4be93 but without 8e80bc4: a worker dies during a pending step, step_wait fails half-way,
   close() then waits for ever for an answer that was already consumed *)
Theorem close_hang_refuted : exists plans ops,
  let '(rs, e) := run_gen V_3d4be93 (init plans) ops in
  In Hang rs /\ closed e = false /\ all_dead e = false.
Proof. exact close_hang_refuted_lemma. Qed.
Print Assumptions close_hang_refuted.

(* current tree, reported separately (known finding): after a timeout the state is DEFAULT while answers are in
   flight; the step_wait of the next call returns the answers of the reset (command number 0, not 1) *)
Theorem timeout_stale_refuted : exists plans ops,
  let '(rs, e) := run_gen V_current (init plans) ops in
  rs = [Ok; Timeout; Ok; Ok; Ok] /\ ops = [OAsync KReset; OWait KReset true; ORelease; OAsync KStep; OWait KStep false] /\
  got e = [0; 0] /\ map nseen (ws e) = [2; 2].
Proof. exact timeout_stale_refuted_lemma. Qed.
Print Assumptions timeout_stale_refuted.

(* non-vacuity: the hypotheses of the misuse theorems are satisfiable in reachable states, and close_total's
   run can contain faults of every kind *)
Example misuse_nonvacuous :
  let e := snd (run (init [plan_of []; plan_of [Normal; Raise 2]]) [OAsync KReset]) in
  misuse e (OWait KStep false) = Some NoAsyncCall /\ misuse e (OAsync KStep) = Some AlreadyPending /\
  misuse e OSetAttr = Some AlreadyPending /\ misuse e (OWait KReset true) = None.
Proof. vm_compute. auto. Qed.

Example close_total_nonvacuous :
  let plans := [plan_of [Normal; Raise 1]; plan_of [Sleep; Die]; plan_of []] in
  let ops := [OAsync KReset; OWait KReset true; OSetAttr; ORelease; OAsync KStep; OKill 2; OWait KStep false; OCallBad] in
  map (fun o => match o with Ok => 0 | Timeout => 1 | AlreadyPending => 2 | BrokenPipe => 3 | EOFErr => 4 | _ => 9 end)
      (fst (run (init plans) ops)) = [0; 1; 0; 0; 3; 0; 9; 3] /\
  fst (close false false (snd (run (init plans) ops))) = Ok.
Proof. vm_compute. auto. Qed.

Example fault_surfaces_nonvacuous :
  let e := rounds [KReset; KStep] (init [plan_of [Normal; Normal; Raise 1]; plan_of []; plan_of [Normal; Normal; Raise 3]]) in
  clean e /\ Forall calm (ws e) /\ raised (ws e) = [(0, 1); (2, 3)] /\
  fst (wait KCall true (snd (async KCall e))) = Exc 3.
Proof.
  split; [|split; [|split; vm_compute; reflexivity]].
  - apply healthy_rounds; [apply fresh_environment_clean|].
    repeat constructor; intros [|[|j]] Hj; try reflexivity; cbn in Hj; exfalso; apply (PeanoNat.Nat.nlt_0_r j);
      apply PeanoNat.Nat.succ_lt_mono, PeanoNat.Nat.succ_lt_mono; exact Hj.
  - vm_compute. constructor; [right; eexists; reflexivity|]. constructor; [left; reflexivity|].
    constructor; [right; eexists; reflexivity|]. constructor.
Qed.

Example sync_nonvacuous :
  let e0 := init [plan_of [Normal; Raise 4]; plan_of [Normal; Normal; Die]; plan_of []] in
  let '(o1, e1) := sync KReset e0 in let '(o2, e2) := sync KStep e1 in
  let '(o3, e3) := sync KCall e2 in let '(o4, e4) := sync KCall e3 in
  (o1, o2, o3, o4) = (Ok, Exc 4, AttrErr, AttrErr) /\ got e1 = [0; 0; 0] /\ fst (close false false e4) = Ok.
Proof. vm_compute. auto. Qed.

Example kill_any_time_nonvacuous :
  let e := init [plan_of [Sleep]; plan_of []; plan_of [Raise 2]] in
  let ops := [OKill 1; ORelease; OKill 0] in
  Forall harness_op ops /\ fst (async KStep e) = Ok /\
  fst (wait KStep false (snd (run (snd (async KStep e)) ops))) = Exc 2 /\
  fst (wait KStep false (snd (run (snd (async KStep e)) [OKill 1; OKill 0]))) = EOFErr.
Proof. vm_compute. repeat split; auto; repeat constructor. Qed.
