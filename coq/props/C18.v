(* C18 — property theorems only. Each is closed by [exact] of a lemma proved in C18/Proofs.v.
   Model: C18/Model.v (exact rationals).  valid c := 2 <= num_atoms /\ v_min < v_max.
   wf_trans c t := the target distribution of transition t has num_atoms entries (they need not sum to one:
   the network clamps probabilities at 1e-3).  project_flat c g ts is the flat (batch*atoms) array produced by
   the two index_add_ calls of _dqn_loss with batch offsets; None models IndexError. *)
From Coq Require Import List ZArith QArith Qround Qabs Bool.
Import ListNotations.
From AgileV Require Import C18.Model C18.Proofs C18.Kernel C18.Deepen C18.FloatB C18.HeadLoss C18.Dueling.
Local Open Scope Q_scope.

(* For every support with at least two atoms and v_min < v_max, every reward, done flag, discount and atom:
   the fractional index b lies in [0, N-1], and after the two fix-ups the neighbouring indices are two
   adjacent in-range atoms l, u = l + 1 with l <= b <= u. *)
Theorem b_in_range : forall c r d g z, valid c ->
  let b := bfrac c (tz c r d g z) in
  0 <= b <= inject_Z (nm1 c) /\
  let '(l, u) := lu (nm1 c) b in
  (0 <= l)%Z /\ (u <= nm1 c)%Z /\ (u = l + 1)%Z /\ inject_Z l <= b <= inject_Z l + 1.
Proof. exact b_in_range_lemma. Qed.
Print Assumptions b_in_range.

(* In exact arithmetic the clamp of b (c92d5ae) is the identity — the defect it repairs is a float32 effect:
   b = (t_z - v_min) / delta_z already lies in [0, N-1], and v_min + b * delta_z = t_z. *)
Theorem b_unclamped_in_range : forall c t, valid c -> vmin c <= t <= vmax c ->
  0 <= (t - vmin c) / delta c <= inject_Z (nm1 c).
Proof. exact b_unclamped_in_range_lemma. Qed.
Print Assumptions b_unclamped_in_range.

Theorem b_clamp_is_identity : forall c t, valid c -> vmin c <= t <= vmax c ->
  bfrac c t == (t - vmin c) / delta c /\ vmin c + bfrac c t * delta c == t.
Proof. exact bfrac_exact. Qed.
Print Assumptions b_clamp_is_identity.

(* The batch projection never indexes outside the flat array (no IndexError) for any batch. *)
Theorem projection_total : forall c g ts, valid c ->
  project_flat c g ts = Some (scatter (repeat 0 (length ts * natoms c)) (all_ops c g ts)).
Proof. exact project_flat_some. Qed.
Print Assumptions projection_total.

(* Row k of the flat result is the projection of transition k alone (batch offsets never leak). *)
Theorem rows_independent : forall c g ts flat k t i, valid c ->
  project_flat c g ts = Some flat -> nth_error ts k = Some t ->
  nth i (row_slice (natoms c) k flat) 0 == nth i (project_row c g t) 0.
Proof. exact rows_independent_lemma. Qed.
Print Assumptions rows_independent.

(* Total mass of row k = total mass of the target distribution of transition k. *)
Theorem mass_conserved : forall c g ts flat k t, valid c -> wf_trans c t ->
  project_flat c g ts = Some flat -> nth_error ts k = Some t ->
  Qsum (row_slice (natoms c) k flat) == Qsum (pnext t).
Proof. exact mass_conserved_lemma. Qed.
Print Assumptions mass_conserved.

(* Mean of row k over the support = sum_j p_j * clamp(r + (1 - done) * gamma * z_j). *)
Theorem mean_conserved : forall c g ts flat k t, valid c -> wf_trans c t ->
  project_flat c g ts = Some flat -> nth_error ts k = Some t ->
  dot (row_slice (natoms c) k flat) (support c) == dot (pnext t) (map (tz_atom c g t) (seq 0 (natoms c))).
Proof. exact mean_conserved_lemma. Qed.
Print Assumptions mean_conserved.

(* A non-negative source distribution is projected onto non-negative entries. *)
Theorem projection_nonneg : forall c g ts flat k t i, valid c -> (forall x, In x (pnext t) -> 0 <= x) ->
  project_flat c g ts = Some flat -> nth_error ts k = Some t ->
  0 <= nth i (row_slice (natoms c) k flat) 0.
Proof. exact nonneg_lemma. Qed.
Print Assumptions projection_nonneg.

(* non-vacuity: a concrete configuration satisfies the hypotheses, and the conclusion is not trivial *)
Example c18_nonvacuous :
  let c := {| natoms := 5; vmin := 0; vmax := 4 |} in
  let t0 := {| rew := 1 # 2; done := 0; pnext := [1#10; 2#10; 3#10; 3#10; 1#10] |} in
  let t1 := {| rew := 9; done := 1; pnext := [1#5; 1#5; 1#5; 1#5; 1#5] |} in
  valid c /\ wf_trans c t0 /\ wf_trans c t1 /\
  exists flat, project_flat c (1 # 2) [t0; t1] = Some flat /\
    map Qred (row_slice 5 1 flat) = [0; 0; 0; 0; 1] /\ Qsum (row_slice 5 0 flat) == 1 /\
    map Qred (row_slice 5 0 flat) = [1#20; 2#5; 1#2; 1#20; 0].
Proof.
  cbv zeta. split; [split; [cbn; auto | reflexivity]|]. split; [reflexivity|]. split; [reflexivity|].
  eexists. split; [vm_compute; reflexivity|]. vm_compute. repeat split.
Qed.

(* The element-wise loss that learn(per=True) returns as new priority (minus prior_eps) is the cross-entropy between
   the projection of that row alone and the online log-distribution of the action taken: 1-step, n-step (discount
   gamma^n) and combined (sum of both). *)
Theorem priority_is_ce : forall c gamma n eps ss1 ssn, valid c ->
  let gn := Qpower gamma (Z.of_nat n) in
  (exists P, learn_priorities c gamma n eps OneStep ss1 ssn = Some P /\
             Forall2 (fun x s => x == ce_row c gamma s + eps) P ss1) /\
  (exists P, learn_priorities c gamma n eps NStep ss1 ssn = Some P /\
             Forall2 (fun x s => x == ce_row c gn s + eps) P ssn) /\
  (exists P, learn_priorities c gamma n eps Combined ss1 ssn = Some P /\
             Forall2 (fun x p => x == ce_row c gamma (fst p) + ce_row c gn (snd p) + eps) P (combine ss1 ssn)).
Proof. exact priority_is_ce_lemma. Qed.
Print Assumptions priority_is_ce.

(* The source distribution is the target network's distribution of the greedy next action: the first action
   maximising the online expectation sum_i p_i z_i. *)
Theorem greedy_is_argmax : forall c s, s_online s <> [] ->
  let a := greedy c s in
  (a < length (s_online s))%nat /\
  (forall a', (a' < length (s_online s))%nat ->
     qvalue c (nth a' (s_online s) []) <= qvalue c (nth a (s_online s) [])) /\
  (forall a', (a' < a)%nat -> qvalue c (nth a' (s_online s) []) < qvalue c (nth a (s_online s) [])).
Proof. exact greedy_is_argmax_lemma. Qed.
Print Assumptions greedy_is_argmax.

(* Behaviour before fix c92d5ae (b not clamped): with the float32 value b = 50 + 2^-18 > N-1 that the code computed for
   51 atoms on [0, 13.1], the last row raises (None) and any other row leaks mass into the next row. *)
Theorem unclamped_float_b_refuted :
  inject_Z 50 < b_float_witness /\
  project_flat_b 51 [[(b_float_witness, 1)]] = None /\
  exists flat, project_flat_b 51 [[(b_float_witness, 1)]; [(0, 1)]] = Some flat /\
               ~ Qsum (row_slice 51 0 flat) == 1 /\ ~ Qsum (row_slice 51 1 flat) == 1.
Proof. exact unclamped_float_b_refuted_lemma. Qed.
Print Assumptions unclamped_float_b_refuted.

(* Each entry of row k is the triangular-kernel redistribution of transition k's source distribution:
   proj_k[i] = sum_j p_j * max(0, 1 - |b_j - i|)  (the categorical projection of Bellemare et al.). *)
Theorem projection_is_triangular_kernel : forall c g ts flat k t i, valid c ->
  project_flat c g ts = Some flat -> nth_error ts k = Some t ->
  nth i (row_slice (natoms c) k flat) 0 == kernel_entry c g t i.
Proof. exact triangular_kernel_lemma. Qed.
Print Assumptions projection_is_triangular_kernel.

(* Justification of the correspondence tolerance: if every fractional index moves by at most d (float32 rounding of b),
   every entry of the kernel sum moves by at most d * sum_j |p_j|. *)
Theorem kernel_lipschitz : forall i d (l l' : list (Q * Q)),
  Forall2 (fun bp bp' => snd bp == snd bp' /\ Qabs (fst bp - fst bp') <= d) l l' ->
  Qabs (ksum i l - ksum i l') <= d * lsum (fun bp => Qabs (snd bp)) l.
Proof. exact kernel_lipschitz_lemma. Qed.
Print Assumptions kernel_lipschitz.

(* The support is the N-point equally spaced grid from v_min to v_max. *)
Theorem support_spec : forall c, valid c ->
  length (support c) = natoms c /\ zat c 0 == vmin c /\ zat c (natoms c - 1) == vmax c /\
  forall j, zat c (S j) - zat c j == delta c.
Proof. exact support_spec_lemma. Qed.
Print Assumptions support_spec.

(* non-vacuity of priority_is_ce / greedy_is_argmax: concrete samples (3 atoms on [0,2], 2 actions, gamma = 1/2, n = 2,
   prior_eps = 1/100); greedy picks action 1 for the 1-step row and the first of two tied actions for the n-step row *)
Example c18_priority_nonvacuous :
  let c := {| natoms := 3; vmin := 0; vmax := 2 |} in
  let s1 := {| s_rew := 1#2; s_done := 0; s_online := [[1#2;1#4;1#4];[1#4;1#4;1#2]]; s_target := [[1#3;1#3;1#3];[1#5;3#5;1#5]];
               s_logp := [[-(1);-(2);-(3)];[-(2);-(1);-(1)]]; s_act := 1%nat |} in
  let sn := {| s_rew := 3; s_done := 1; s_online := [[1#2;1#4;1#4];[1#2;1#4;1#4]]; s_target := [[1#2;1#4;1#4];[1#5;3#5;1#5]];
               s_logp := [[-(1);-(2);-(3)];[-(2);-(1);-(1)]]; s_act := 0%nat |} in
  valid c /\ s_online s1 <> [] /\ greedy c s1 = 1%nat /\ greedy c sn = 0%nat /\
  option_map (map Qred) (project_flat c (1#2) [to_trans c s1]) = Some [1#10; 4#5; 1#10] /\
  option_map (map Qred) (learn_priorities c (1#2) 2 (1#100) OneStep [s1] [sn]) = Some [111#100] /\
  option_map (map Qred) (learn_priorities c (1#2) 2 (1#100) NStep [s1] [sn]) = Some [301#100] /\
  option_map (map Qred) (learn_priorities c (1#2) 2 (1#100) Combined [s1] [sn]) = Some [411#100].
Proof.
  cbv zeta. split; [split; [cbn; auto | reflexivity]|]. split; [discriminate|].
  repeat split; vm_compute; reflexivity.
Qed.

(* ---- deepening round ---- *)

(* Masked bootstrap.  When (1 - done) * discount = 0 — a terminal transition, in particular an n-step record whose window was
   cut by the end of the episode (MultiStepReplayBuffer stores done = 1 for it and the reward summed up to the cut; the
   window length m < n is NOT stored and learn uses gamma^n regardless), or discount 0 — the mean of the projected row is
   mass * clamp(reward): the discount exponent is irrelevant exactly where it would be wrong.  For windows that are not cut
   (done = 0) the record spans n steps and mean_conserved with g = gamma^n is the n-step Bellman target. *)
Theorem masked_bootstrap_mean : forall c g ts flat k t, valid c -> wf_trans c t -> (1 - done t) * g == 0 ->
  project_flat c g ts = Some flat -> nth_error ts k = Some t ->
  dot (row_slice (natoms c) k flat) (support c) == Qsum (pnext t) * Qclamp (vmin c) (vmax c) (rew t).
Proof. exact masked_mean_lemma. Qed.
Print Assumptions masked_bootstrap_mean.

(* ... and the whole projected row is the same for any two discounts that are both masked (gamma vs gamma^n, done = 1). *)
Theorem masked_bootstrap_projection : forall c g g' t i, valid c -> (1 - done t) * g == 0 -> (1 - done t) * g' == 0 ->
  nth i (project_row c g t) 0 == nth i (project_row c g' t) 0.
Proof. exact masked_projection_lemma. Qed.
Print Assumptions masked_bootstrap_projection.

(* The batch offset the model uses for row k (k * num_atoms) is what the code computes:
   torch.linspace(0, (batch_size - 1) * num_atoms, batch_size).long()[k]  (exact linspace; also batch_size = 1). *)
Theorem offsets_are_linspace : forall B N k, (k < B)%nat -> offset_code B N k = (Z.of_nat k * Z.of_nat N)%Z.
Proof. exact offset_code_lemma. Qed.
Print Assumptions offsets_are_linspace.

(* With a source distribution of mass one (the head renormalises since 92c49c5) every projected row has mass one. *)
Theorem unit_mass_preserved : forall c g ts flat k t, valid c -> wf_trans c t -> Qsum (pnext t) == 1 ->
  project_flat c g ts = Some flat -> nth_error ts k = Some t ->
  Qsum (row_slice (natoms c) k flat) == 1.
Proof. exact unit_mass_lemma. Qed.
Print Assumptions unit_mass_preserved.

Example c18_masked_nonvacuous :
  let c := {| natoms := 5; vmin := 0; vmax := 4 |} in
  let t := {| rew := 9; done := 1; pnext := [1#5; 1#5; 1#5; 1#5; 1#5] |} in
  valid c /\ wf_trans c t /\ (1 - done t) * (1#2) == 0 /\ Qsum (pnext t) == 1 /\
  map Qred (project_row c (1#2) t) = [0; 0; 0; 0; 1] /\ offset_code 3 5 2 = 10%Z /\ offset_code 1 5 0 = 0%Z.
Proof. cbv zeta. split; [split; [cbn; auto | reflexivity]|]. repeat split; vm_compute; reflexivity. Qed.

(* Robustness to the rounding of b (the named float gap).  The code computes b in float32 and then clamps it into [0, N-1]
   (c92d5ae).  For ANY fractional indices inside [0, N-1] — not only the exact ones — the floor/ceil + fix-up + two scatter-add
   kernel with batch offsets never leaves the flat array, ... *)
Theorem float_b_projection_total : forall n rows, (2 <= n)%nat -> Forall (brow_ok n) rows ->
  project_flat_b n rows = Some (scatter (repeat 0 (length rows * n)) (b_ops n rows)).
Proof. exact b_project_some. Qed.
Print Assumptions float_b_projection_total.

(* ... row k receives exactly the mass of transition k, and its index-mean is sum_j p_j * b_j: an error e in b_j moves the
   mean by p_j * e * delta_z and nothing else (compare unclamped_float_b_refuted for b outside the range). *)
Theorem float_b_mass_and_mean : forall n rows flat k row, (2 <= n)%nat -> Forall (brow_ok n) rows ->
  project_flat_b n rows = Some flat -> nth_error rows k = Some row ->
  Qsum (row_slice n k flat) == lsum (fun bp => snd bp) row /\
  dotf (fun i => inject_Z (Z.of_nat i)) (row_slice n k flat) == lsum (fun bp => snd bp * fst bp) row.
Proof. exact float_b_mass_lemma. Qed.
Print Assumptions float_b_mass_and_mean.

Example c18_float_b_nonvacuous :
  Forall (brow_ok 51) [[(50, 1)]; [(1 # 3, 1 # 2); (0, 1 # 2)]] /\
  option_map (fun f => (Qred (Qsum (row_slice 51 0 f)), Qred (Qsum (row_slice 51 1 f))))
             (project_flat_b 51 [[(50, 1)]; [(1 # 3, 1 # 2); (0, 1 # 2)]]) = Some (1, 1).
Proof.
  split; [|vm_compute; reflexivity].
  assert (R : forall b, Qle_bool 0 b && Qle_bool b (inject_Z (Z.of_nat 51 - 1)) = true -> 0 <= b <= inject_Z (Z.of_nat 51 - 1)).
  { intros b H. apply andb_true_iff in H. destruct H as [A B]. split; apply Qle_bool_iff; assumption. }
  constructor; [|constructor; [|constructor]]; intros bp Hbp; cbn in Hbp.
  - destruct Hbp as [<-|[]]. apply R. reflexivity.
  - destruct Hbp as [<-|[<-|[]]]; apply R; reflexivity.
Qed.

(* ---- round 3 ---- *)

(* The scalar loss that learn(per=True) minimises is the batch mean of  importance weight_k * element-wise loss_k, where the
   element-wise losses are the cross-entropies of priority_is_ce (1-step, n-step with gamma^n, combined): the importance
   weights enter the loss and ONLY the loss — learn_priorities has no weight argument. *)
Theorem loss_is_weighted_mean : forall c gamma n ss1 ssn ws, valid c ->
  let gn := Qpower gamma (Z.of_nat n) in
  (exists el, learn_elementwise c gamma n OneStep ss1 ssn = Some el /\
     loss_spec (ce_row c gamma) ss1 ws el (learn_loss c gamma n OneStep ss1 ssn ws)) /\
  (exists el, learn_elementwise c gamma n NStep ss1 ssn = Some el /\
     loss_spec (ce_row c gn) ssn ws el (learn_loss c gamma n NStep ss1 ssn ws)) /\
  (exists el, learn_elementwise c gamma n Combined ss1 ssn = Some el /\
     loss_spec (fun p => ce_row c gamma (fst p) + ce_row c gn (snd p)) (combine ss1 ssn) ws el
               (learn_loss c gamma n Combined ss1 ssn ws)).
Proof. exact learn_loss_lemma. Qed.
Print Assumptions loss_is_weighted_mean.

(* The head (q=False): clamp(softmax, 1e-3) renormalised has as many entries as atoms, total mass one, and no entry below
   1e-3 / (sum of the clamped values) — for every non-empty softmax vector. *)
Theorem head_distribution : forall soft, soft <> [] ->
  length (head_dist soft) = length soft /\ Qsum (head_dist soft) == 1 /\
  forall x, In x (head_dist soft) -> (1 # 1000) / Qsum (clamp_min (1 # 1000) soft) <= x.
Proof. exact head_dist_lemma. Qed.
Print Assumptions head_distribution.

Example c18_round3_nonvacuous :
  map Qred (head_dist [1 # 2; 1 # 2; 0]) = [500 # 1001; 500 # 1001; 1 # 1001] /\
  let c := {| natoms := 3; vmin := 0; vmax := 2 |} in
  let s1 := {| s_rew := 1#2; s_done := 0; s_online := [[1#2;1#4;1#4];[1#4;1#4;1#2]]; s_target := [[1#3;1#3;1#3];[1#5;3#5;1#5]];
               s_logp := [[-(1);-(2);-(3)];[-(2);-(1);-(1)]]; s_act := 1%nat |} in
  valid c /\ option_map Qred (learn_loss c (1#2) 2 OneStep [s1; s1] [] [1#2; 1#4]) = Some (33 # 80).
Proof. split; [vm_compute; reflexivity|]. cbv zeta. split; [split; [cbn; auto|reflexivity]|]. vm_compute. reflexivity. Qed.

(* The dueling combination of the head (value + advantage - mean advantage over the actions): averaged over the actions the
   logits are the value stream, atom by atom, and each action's logits are the value plus its centred advantage. *)
Theorem dueling_mean_is_value : forall v adv i, adv <> [] -> (i < length v)%nat -> col_mean (dueling v adv) i == nth i v 0.
Proof. exact dueling_mean_lemma. Qed.
Print Assumptions dueling_mean_is_value.

Theorem dueling_entry : forall v adv a i, (a < length adv)%nat -> (i < length v)%nat ->
  nth i (nth a (dueling v adv) []) 0 == nth i v 0 + (nth i (nth a adv []) 0 - col_mean adv i).
Proof. exact dueling_entry_lemma. Qed.
Print Assumptions dueling_entry.

Example c18_dueling_nonvacuous :
  map (map Qred) (dueling [1; 2] [[1; 0]; [3; 4]]) = [[0; 0]; [2; 4]] /\ Qred (col_mean (dueling [1; 2] [[1; 0]; [3; 4]]) 1) = 2.
Proof. split; vm_compute; reflexivity. Qed.
