(* C10 — property theorems only. Each is closed by [exact] of a lemma proved in C10/Proofs.v. *)
From Coq Require Import List Arith QArith.
Import ListNotations.
From AgileV Require Import Base.Prelude C09.Model C09.Proofs C10.Model C10.Proofs C10.ProofsResets C10.ProofsClear.
Local Open Scope nat_scope.

(* Vocabulary (C10/Model.v, C10/Proofs.v).  A stream xs is a list of raw vectorised transitions, one
   [cell] per environment (width E xs: all have E environments).  cellat xs k e = what env e
   contributed to raw step k.  window n xs k = raw steps k .. k+n-1.  cut w = number of steps of the
   window that are summed (up to and including the first step at which some environment is done).
   ok_window n xs e k m = the window lengths the property allows: 1 <= m <= n, env e has no done
   flag at steps k .. k+m-2, and m < n only if some environment ended at step k+m-1.
   disc_sum g xs k e m = sum_{i<m} g^i * r_{k+i,e}.
   pair_run (n_step_info g) n c xs = state of (n_step_memory, memory) of capacity c after feeding xs
   through `one = n_step_memory.add(t); if one is not None: memory.add(one)`. *)

(* _get_n_step_info on window k of any stream: for any n >= 1, discount, number of environments. *)
Theorem nstep_window_matches_spec : forall g E n xs k e,
  1 <= n -> k + n <= length xs -> width E xs -> e < E ->
  let r := nth e (n_step_info g (window n xs k)) dcell in
  let m := cut (window n xs k) in
  length (n_step_info g (window n xs k)) = E /\
  ok_window n xs e k m /\
  ob r = ob (cellat xs k e) /\ ac r = ac (cellat xs k e) /\
  (rw r == disc_sum g xs k e m)%Q /\
  nx r = nx (cellat xs (k + m - 1) e) /\ dn r = dn (cellat xs (k + m - 1) e).
Proof. exact info_window_spec. Qed.
Print Assumptions nstep_window_matches_spec.

(* The stored data after ANY stream, including wrap-around of both ring buffers: for every complete
   window k that is still among the last c rows and every environment e, slot (k*E+e) mod c of the
   n-step buffer holds the record the property describes, and the same slot of the 1-step buffer
   holds raw transition k of environment e. *)
Theorem nstep_matches_spec : forall g n c E xs k e,
  0 < E -> E <= c -> 1 <= n -> width E xs ->
  k + n <= length xs -> e < E -> count n xs * E <= (k * E + e) + c ->
  let s := pair_run (n_step_info g) n c xs in
  let slot := (k * E + e) mod c in
  let m := cut (window n xs k) in
  exists r,
    nth slot (store (nbuf s)) None = Some r /\
    nth slot (store (mem s)) None = Some (cellat xs k e) /\
    ok_window n xs e k m /\
    ob r = ob (cellat xs k e) /\ ac r = ac (cellat xs k e) /\
    (rw r == disc_sum g xs k e m)%Q /\
    nx r = nx (cellat xs (k + m - 1) e) /\ dn r = dn (cellat xs (k + m - 1) e).
Proof. exact stored_spec. Qed.
Print Assumptions nstep_matches_spec.

(* the k-th n-step record and the k-th 1-step record sit at the same storage index and describe the
   same (observation, action) — also after wrap-around *)
Theorem aligned : forall g n c E xs k e,
  0 < E -> E <= c -> 1 <= n -> width E xs ->
  k + n <= length xs -> e < E -> count n xs * E <= (k * E + e) + c ->
  let s := pair_run (n_step_info g) n c xs in
  let slot := (k * E + e) mod c in
  exists r y,
    nth slot (store (nbuf s)) None = Some r /\ nth slot (store (mem s)) None = Some y /\
    y = cellat xs k e /\ ob r = ob y /\ ac r = ac y.
Proof. exact aligned_lemma. Qed.
Print Assumptions aligned.

(* the converse: EVERY live slot i of the buffers holds the record of some complete window k and
   environment e of the stream, with the raw transition (k, e) in the same slot of the 1-step buffer *)
Theorem every_stored_record_spec : forall g n c E xs i,
  0 < E -> E <= c -> 1 <= n -> width E xs ->
  let s := pair_run (n_step_info g) n c xs in
  i < size (mem s) ->
  exists k e r,
    k + n <= length xs /\ e < E /\
    nth i (store (nbuf s)) None = Some r /\
    nth i (store (mem s)) None = Some (cellat xs k e) /\
    let m := cut (window n xs k) in
    ok_window n xs e k m /\
    ob r = ob (cellat xs k e) /\ ac r = ac (cellat xs k e) /\
    (rw r == disc_sum g xs k e m)%Q /\
    nx r = nx (cellat xs (k + m - 1) e) /\ dn r = dn (cellat xs (k + m - 1) e).
Proof. exact every_slot_spec. Qed.
Print Assumptions every_stored_record_spec.

(* what Rainbow's combined loss receives: sampling both buffers with the same live indices gives,
   row by row, records that describe the same (observation, action) *)
Theorem sampled_aligned : forall g n c E xs idx,
  0 < E -> E <= c -> 1 <= n -> width E xs ->
  let s := pair_run (n_step_info g) n c xs in
  Forall (fun i => i < size (mem s)) idx ->
  Forall2 (fun a b => exists r y, a = Some r /\ b = Some y /\ ob r = ob y /\ ac r = ac y)
          (gather (store (nbuf s)) idx) (gather (store (mem s)) idx).
Proof. exact sampled_aligned_lemma. Qed.
Print Assumptions sampled_aligned.

(* the whole state is tied to the stream by the C09 ring-buffer invariant, for both buffers *)
Theorem pair_refines_streams : forall g n c E xs,
  0 < E -> E <= c -> 1 <= n -> width E xs ->
  RunInv g n c xs (pair_run (n_step_info g) n c xs).
Proof. exact run_inv. Qed.
Print Assumptions pair_refines_streams.

(* lengths agree, = min(#windows * E, c); cursors agree; add returns None until n transitions were
   seen and raw transition |xs| - n afterwards *)
Theorem lens_and_return : forall g n c E xs,
  0 < E -> E <= c -> 1 <= n -> width E xs ->
  let s := pair_run (n_step_info g) n c xs in
  size (nbuf s) = Nat.min (count n xs * E) c /\ size (mem s) = Nat.min (count n xs * E) c /\
  cursor (nbuf s) = cursor (mem s) /\
  ret s = if length xs <? n then None else Some (nth (length xs - n) xs []).
Proof. exact C10.Proofs.lens_and_return. Qed.
Print Assumptions lens_and_return.

(* every stored record starts from an observed (observation, action) pair *)
Theorem starts_observed : forall g E n xs k,
  0 < E -> 1 <= n -> width E xs -> k + n <= length xs ->
  map obac (nth k (hist_n g n xs) []) = map obac (nth k xs []).
Proof. exact starts_observed_lemma. Qed.
Print Assumptions starts_observed.

(* nothing that happened after a terminal step is mixed in: two streams that agree up to and
   including a terminal step j of some environment give the same fused record for every window
   that starts at or before j and contains j — whatever follows j *)
Theorem no_leak : forall g n xs ys j k e,
  firstn (S j) xs = firstn (S j) ys -> dn (cellat xs j e) = true ->
  k <= j -> j < k + n ->
  n_step_info g (window n xs k) = n_step_info g (window n ys k).
Proof. exact no_leak_window. Qed.
Print Assumptions no_leak.

Theorem no_leak_stored : forall g n xs ys j k e,
  firstn (S j) xs = firstn (S j) ys -> dn (cellat xs j e) = true ->
  k <= j -> j < k + n -> k + n <= length xs -> k + n <= length ys ->
  nth k (hist_n g n xs) [] = nth k (hist_n g n ys) [].
Proof. exact C10.Proofs.no_leak_stored. Qed.
Print Assumptions no_leak_stored.

(* the weights are exactly the powers gamma^i of the standard library, i = 0 for the first reward *)
Theorem discount_powers : forall g xs k e m,
  (disc_sum g xs k e m ==
   fold_right Qplus 0 (map (fun i => g ^ Z.of_nat i * rw (cellat xs (k + i) e)) (seq 0 m)))%Q.
Proof. exact disc_sum_powers. Qed.
Print Assumptions discount_powers.

(* n = 1 stores the raw transition; the repair 6825082 only affects windows that start on a
   terminal transition, and for those the record is the first transition, untouched *)
Theorem nstep_one_is_identity : forall g t, n_step_info g [t] = t.
Proof. exact info_single. Qed.
Print Assumptions nstep_one_is_identity.

Theorem repair_is_local : forall g w,
  any_done (hd [] w) = false -> n_step_info_pinned g w = n_step_info g w.
Proof. exact pinned_agrees. Qed.
Print Assumptions repair_is_local.

Theorem terminal_start_is_kept : forall g t r, any_done t = true -> n_step_info g (t :: r) = t.
Proof. exact info_terminal_start. Qed.
Print Assumptions terminal_start_is_kept.

(* the pinned loop (before fix 6825082) violates the property: a window that starts on a terminal
   step takes its next observation and part of its reward from the next episode *)
Theorem nstep_leak_refuted :
  exists g n xs k e, 1 <= n /\ k + n <= length xs /\ width 1 xs /\ e < 1 /\
    dn (cellat xs k e) = true /\
    let r := nth e (n_step_info_pinned g (window n xs k)) dcell in
    nx r <> nx (cellat xs k e) /\ ~ (rw r == rw (cellat xs k e))%Q.
Proof. exact pinned_leaks. Qed.
Print Assumptions nstep_leak_refuted.

(* layout of the two batches handed to the learner when the 1-step buffer is prioritised (shape
   model only; tied to the code by the oracle clause learner-batch-shape, not by K): the tree's
   sample_from_indices returns batch shape [B;1] next to [B] — refuted; with the drafted repair
   (flattened indices) the shapes agree for every B *)
Theorem per_batch_shape_refuted :
  exists B, from_indices_shape_pinned (per_idxs_shape B) <> per_rows_shape B.
Proof. exact shape_pinned_differs. Qed.
Print Assumptions per_batch_shape_refuted.

Theorem per_batch_shape_repaired :
  forall B, from_indices_shape_repaired (per_idxs_shape B) = per_rows_shape B.
Proof. exact shape_repaired_agrees. Qed.
Print Assumptions per_batch_shape_repaired.

(* ---------- several rollouts: env.reset() between the turns of the agents of a population ----------
   evs_of b segs = Reset b :: steps of rollout 1 ++ Reset b :: steps of rollout 2 ...; b = true: the
   n-step deque is emptied at the reset (the repair), b = false: it survives (the tree). *)

(* with emptied deques both ring buffers receive, rollout by rollout, only windows that lie inside
   one rollout (C09 invariant w.r.t. seg_hist_n / seg_hist_1), for any number and length of rollouts *)
Theorem rollouts_refine_streams : forall g n c E segs,
  0 < E -> E <= c -> 1 <= n -> Forall (width E) segs ->
  let s := ev_run (n_step_info g) n c (evs_of true segs) in
  Inv c (seg_hist_n g n segs) (nbuf s) /\ Inv c (seg_hist_1 n segs) (mem s).
Proof. exact segs_inv. Qed.
Print Assumptions rollouts_refine_streams.

(* ... hence no stored record spans a reset: the record stored for window k of rollout [seg] is
   described by [seg] alone (rewards, next observation, done flag all from [seg]), and stays aligned
   with the 1-step buffer *)
Theorem no_record_spans_a_reset : forall g n c E pre seg post k e,
  0 < E -> E <= c -> 1 <= n -> Forall (width E) (pre ++ seg :: post) ->
  k + n <= length seg -> e < E ->
  let segs := pre ++ seg :: post in
  let p := length (seg_hist_n g n pre) + (k * E + e) in
  length (seg_hist_n g n segs) <= p + c ->
  let s := ev_run (n_step_info g) n c (evs_of true segs) in
  let m := cut (window n seg k) in
  exists r,
    nth (p mod c) (store (nbuf s)) None = Some r /\
    nth (p mod c) (store (mem s)) None = Some (cellat seg k e) /\
    ok_window n seg e k m /\
    ob r = ob (cellat seg k e) /\ ac r = ac (cellat seg k e) /\
    (rw r == disc_sum g seg k e m)%Q /\
    nx r = nx (cellat seg (k + m - 1) e) /\ dn r = dn (cellat seg (k + m - 1) e).
Proof. exact segs_stored_spec. Qed.
Print Assumptions no_record_spans_a_reset.

(* a reset that leaves the deque alone is invisible to the buffers: same state as feeding the
   concatenated rollouts, so all theorems above apply to the concatenation — windows are formed
   across the reset *)
Theorem surviving_deque_ignores_reset : forall info n segs s,
  fold_left (ev_step info n) (evs_of false segs) s = fold_left (pair_step info n) (concat segs) s.
Proof. exact evs_false_is_concat. Qed.
Print Assumptions surviving_deque_ignores_reset.

(* the tree: a record starting in the first rollout carries next observation and reward of the second *)
Theorem reset_span_refuted :
  let s := ev_run (n_step_info 1) 3 4 (evs_of false [seg_a; seg_b]) in
  exists r, nth 0 (store (nbuf s)) None = Some r /\
            ob r = ob (cellat seg_a 0 0) /\ nx r = nx (cellat seg_b 0 0) /\ (rw r == 1 + 2 + 4)%Q /\
  size (nbuf (ev_run (n_step_info 1) 3 4 (evs_of true [seg_a; seg_b]))) = 0.
Proof. exact reset_span. Qed.
Print Assumptions reset_span_refuted.

(* the stored record does not determine how many steps were summed (cut by another environment,
   done = false): a learner that bootstraps with gamma^n cannot tell m < n from m = n *)
Theorem stored_record_carries_no_m :
  exists g n xs ys e,
    width 2 xs /\ width 2 ys /\ e < 2 /\
    cut (window n xs 0) <> cut (window n ys 0) /\
    let r1 := nth e (n_step_info g (window n xs 0)) dcell in
    let r2 := nth e (n_step_info g (window n ys 0)) dcell in
    ob r1 = ob r2 /\ ac r1 = ac r2 /\ (rw r1 == rw r2)%Q /\ nx r1 = nx r2 /\ dn r1 = dn r2 /\ dn r1 = false.
Proof. exact record_has_no_m. Qed.
Print Assumptions stored_record_carries_no_m.

(* the prioritised path at the model level: sample_from_indices with the (B,1) index column that
   PrioritizedReplayBuffer.sample reports returns the same rows, with the same leading shape [B], as
   with the flat (B,) indices — so sampled_aligned applies to both *)
Theorem column_indices_same_rows : forall st idx, gather_col st (map (fun i => [i]) idx) = gather st idx.
Proof. exact gather_col_flat. Qed.
Print Assumptions column_indices_same_rows.

Theorem column_indices_same_shape : forall B,
  from_indices_shape_repaired [B] = [B] /\ from_indices_shape_repaired [B; 1] = [B].
Proof. exact shape_flat_and_col. Qed.
Print Assumptions column_indices_same_shape.

(* ---------- clear() of both buffers in the middle of a stream ----------
   ReplayBuffer.clear() (inherited by MultiStepReplayBuffer) resets storage, cursor and size but not
   the deque of raw transitions.  After any stream xs0, a clear of both buffers and any continuation
   ys: the deque is the last n of xs0 ++ ys and both ring buffers hold (C09 invariant) exactly the
   batches count n xs0, count n xs0 + 1, ... of the whole stream's histories. *)
Theorem clear_then_continue : forall g n c E xs0 ys,
  0 < E -> E <= c -> 1 <= n -> width E (xs0 ++ ys) ->
  RunInvD g n c (count n xs0) (xs0 ++ ys)
    (op_run (n_step_info g) n c (map OStep xs0 ++ OClear :: map OStep ys)).
Proof. exact clear_then_continue_op. Qed.
Print Assumptions clear_then_continue.

(* ... and the j-th batch stored after the clear is window (count n xs0 + j) of the WHOLE stream (it may
   start up to n-1 transitions before the clear; nstep_window_matches_spec describes it) next to the raw
   transition it starts from in the 1-step buffer: still aligned *)
Theorem clear_keeps_alignment : forall g n xs0 ys j,
  1 <= n -> count n xs0 + j < count n (xs0 ++ ys) ->
  nth j (skipn (count n xs0) (hist_n g n (xs0 ++ ys))) [] = n_step_info g (window n (xs0 ++ ys) (count n xs0 + j)) /\
  nth j (skipn (count n xs0) (hist_1 n (xs0 ++ ys))) [] = nth (count n xs0 + j) (xs0 ++ ys) [].
Proof. exact clear_keeps_alignment_lemma. Qed.
Print Assumptions clear_keeps_alignment.

(* a clear that also emptied the deque would make the pair behave exactly as a new one, after any
   history of steps, resets and clears (model of a possible change of clear(); the harness observes
   which of the two the code does) *)
Theorem clear_all_is_fresh : forall info n c ops ys,
  let s := op_run info n c (ops ++ OClearAll :: map OStep ys) in
  let f := pair_run info n c ys in
  win s = win f /\ nbuf s = nbuf f /\ mem s = mem f.
Proof. exact clear_all_fresh. Qed.
Print Assumptions clear_all_is_fresh.

(* ---------- non-vacuity ---------- *)
(* two environments, n = 3, capacity 4 (both buffers wrap): env 1 ends at step 1, env 0 at step 3 *)
Definition ex_stream : list vtr :=
  [ [C 1 1 1 1 false; C 2 2 (1#2) 2 false];
    [C 3 3 2 3 false; C 4 4 1 4 true];
    [C 5 5 4 5 false; C 6 6 2 6 false];
    [C 7 7 8 7 true;  C 8 8 4 8 false];
    [C 9 9 16 9 false; C 10 10 8 10 false] ].

Example hypotheses_satisfiable :
  width 2 ex_stream /\ count 3 ex_stream = 3 /\
  (* window 0 is cut after 2 steps because env 1 ended: admissible for env 0 with m = 2 < n *)
  cut (window 3 ex_stream 0) = 2 /\ ok_window 3 ex_stream 0 0 2 /\
  (* window 1 starts on a terminal step of env 1: one step only *)
  cut (window 3 ex_stream 1) = 1 /\
  (* 6 rows were written into 4 slots: rows 2..5 survive; row 4 = (window 2, env 0) sits in slot 0 *)
  map (option_map obac) (store (nbuf (pair_run (n_step_info (1#2)) 3 4 ex_stream))) =
    [Some (5, 5); Some (6, 6); Some (3, 3); Some (4, 4)] /\
  map (option_map obac) (store (mem (pair_run (n_step_info (1#2)) 3 4 ex_stream))) =
    [Some (5, 5); Some (6, 6); Some (3, 3); Some (4, 4)].
Proof.
  split; [repeat constructor|]. split; [reflexivity|]. split; [reflexivity|].
  split; [exact (window_ok 3 ex_stream 0 0 ltac:(auto) ltac:(cbn; auto with arith))|].
  split; [reflexivity|]. split; vm_compute; reflexivity.
Qed.

Example stored_spec_instance :
  exists r, nth 0 (store (nbuf (pair_run (n_step_info (1#2)) 3 4 ex_stream))) None = Some r /\
            ob r = 5 /\ (rw r == 4 + (1#2) * 8)%Q /\ nx r = 7 /\ dn r = true.
Proof.
  destruct (nstep_matches_spec (1#2) 3 4 2 ex_stream 2 0) as (r & H1 & _ & _ & H2 & _ & H3 & H4 & H5);
    try (cbn; auto with arith); [repeat constructor|].
  exists r. split; [exact H1|]. split; [exact H2|]. split; [rewrite H3; vm_compute; reflexivity|].
  split; [exact H4|exact H5].
Qed.

(* non-vacuity for clear(): after 4 transitions (2 windows stored), clear, 1 more transition: one row,
   it is window 2 = steps 2..4 (two of them from before the clear), aligned with raw transition 2 *)
Example clear_instance :
  let s := op_run (n_step_info (1#2)) 3 4 (map OStep (firstn 4 ex_stream) ++ OClear :: map OStep (skipn 4 ex_stream)) in
  size (nbuf s) = 2 /\ size (mem s) = 2 /\
  map (option_map obac) (store (nbuf s)) = [Some (5, 5); Some (6, 6); None; None] /\
  map (option_map obac) (store (mem s)) = [Some (5, 5); Some (6, 6); None; None] /\
  RunInvD (1#2) 3 4 (count 3 (firstn 4 ex_stream)) ex_stream s.
Proof.
  cbv zeta. split; [vm_compute; reflexivity|]. split; [vm_compute; reflexivity|].
  split; [vm_compute; reflexivity|]. split; [vm_compute; reflexivity|].
  change ex_stream with (firstn 4 ex_stream ++ skipn 4 ex_stream) at 2.
  apply (clear_then_continue (1#2) 3 4 2); try (cbn; auto with arith). repeat constructor.
Qed.
