(* C16 — property theorems only. Each is closed by [exact] of a lemma proved in C16/Proofs.v.
   All statements are about the symbolic model C16/Model.v: tensors are lists of formulas, the logits,
   masks, random draws, stored actions, log_std and Box bounds are arbitrary formulas (universally
   quantified), batch size and every dimension are unbounded. *)
From Coq Require Import List Arith Bool String.
Import ListNotations.
From Coq Require Import QArith Permutation.
From AgileV Require Import C16.Model C16.Proofs C16.Check C16.CheckProofs.
Open Scope nat_scope.

(* Re-evaluating ANY well-shaped action tensor (e.g. a stored rollout action) after ANY forward pass gives,
   row by row, the textbook log-probability of that action under the distribution of that forward pass:
   one categorical term (Discrete), the sum over components of one row (MultiDiscrete, MultiBinary, Box)
   and, with squashing, the Gaussian term at atanh(clamp(a)) minus the sum of log(1 - a^2 + 1e-6).
   With squashing the statement needs the cached-sample test to fail (it does for every tensor that is not
   the tanh of the last draw, see [stored_nonvacuous]); the hit case is [logprob_is_spec_fresh]. *)
Theorem logprob_is_spec_stored : forall ed lg mask dr ed' a lp ent act B,
  ed_ok ed -> space_ok (ed_space ed) -> wf_rows B (flatdim (ed_space ed)) lg -> mask_ok (ed_space ed) B mask ->
  wf_action (ed_space ed) B act ->
  ed_forward ed lg mask dr = Some (ed', a, lp, ent) ->
  (ed_squash ed = false \/ forall d1, ed_dist ed' = Some d1 -> cache_hit d1 act = false) ->
  ed_log_prob ed' act = spec_logprob (ed_space ed) (ed_squash ed) (eff_logits lg mask) (ed_log_std ed) act.
Proof. exact logprob_is_spec_stored_lemma. Qed.
Print Assumptions logprob_is_spec_stored.

(* The log-probability returned by forward() for the action it has just sampled is the definition at that
   action: exactly without squashing; with squashing up to the rewrite atanh(clamp(tanh x)) = x (the code
   reuses the cached pre-squash draw instead of inverting the tanh). *)
Theorem logprob_is_spec_fresh : forall ed lg mask dr ed' a lp ent B,
  ed_ok ed -> space_ok (ed_space ed) -> wf_rows B (flatdim (ed_space ed)) lg -> mask_ok (ed_space ed) B mask ->
  wf_draws (ed_space ed) B dr ->
  ed_forward ed lg mask dr = Some (ed', a, lp, ent) ->
  tmap simp lp = tmap simp (spec_logprob (ed_space ed) (ed_squash ed) (eff_logits lg mask) (ed_log_std ed) a)
  /\ (ed_squash ed = false -> lp = spec_logprob (ed_space ed) false (eff_logits lg mask) (ed_log_std ed) a).
Proof. exact logprob_is_spec_fresh_lemma. Qed.
Print Assumptions logprob_is_spec_fresh.

(* entropy: the definition, summed over the components of one row; None with squashing *)
Theorem entropy_is_spec : forall ed lg mask dr ed' a lp ent B,
  space_ok (ed_space ed) -> wf_rows B (flatdim (ed_space ed)) lg -> mask_ok (ed_space ed) B mask ->
  ed_forward ed lg mask dr = Some (ed', a, lp, ent) ->
  ent = if ed_squash ed then None else Some (spec_entropy (ed_space ed) (eff_logits lg mask) (ed_log_std ed)).
Proof. exact entropy_is_spec_lemma. Qed.
Print Assumptions entropy_is_spec.

(* MultiCategorical handler: split(dim=1) / unbind(dim=1) / per-component log_prob / stack(dim=1) / sum(dim=1)
   is the per-row sum over components — never a sum over the batch. *)
Theorem multidiscrete_sums_components : forall nv lg ls am B,
  nv <> [] -> List.length lg = B -> wf_rows B (List.length nv) am ->
  h_log_prob (DMulti (split_dim1 nv lg)) (T2 am) = spec_logprob (MultiDiscrete nv) false lg ls (T2 am).
Proof. exact multi_is_spec. Qed.
Print Assumptions multidiscrete_sums_components.

Theorem sum_over_components : forall sp lrow ls arow,
  List.length lrow = flatdim sp -> List.length ls = flatdim sp -> List.length arow = ncomp sp ->
  match sp with
  | Discrete _ => True
  | _ => exists terms, spec_logprob_row sp false lrow ls arow = SumL terms /\ List.length terms = ncomp sp
  end.
Proof. exact sum_over_components_lemma. Qed.
Print Assumptions sum_over_components.

Theorem one_logprob_per_row : forall sp sq lg ls act B,
  List.length lg = B -> wf_action sp B act ->
  exists v, spec_logprob sp sq lg ls act = T1 v /\ List.length v = B.
Proof. exact spec_logprob_rows. Qed.
Print Assumptions one_logprob_per_row.

(* masking: split / where / cat of apply_mask is the element-wise where(mask, logit, -1e8) ... *)
Theorem apply_mask_spec : forall ed lg mk B,
  is_box (ed_space ed) = false -> space_ok (ed_space ed) ->
  wf_rows B (flatdim (ed_space ed)) lg -> wf_rows B (flatdim (ed_space ed)) mk ->
  apply_mask ed lg mk = Some (masked_spec lg mk).
Proof. exact apply_mask_elementwise. Qed.
Print Assumptions apply_mask_spec.

(* ... so the logit the distribution sees for action i of row b is MaskFill mask[b,i] logit[b,i]: -1e8 when masked.
   That exp(-1e8 - logsumexp) is exactly 0 in float32 is the named numerical assumption (checked by K / oracle). *)
Theorem masked_zero_prob : forall lg mk B D b i,
  wf_rows B D lg -> wf_rows B D mk -> b < B -> i < D ->
  nth i (nth b (masked_spec lg mk) []) dflt = MaskFill (nth i (nth b mk []) dflt) (nth i (nth b lg []) dflt).
Proof. exact masked_entry. Qed.
Print Assumptions masked_zero_prob.

(* PPO.evaluate_actions: the log-probability of the passed (stored) actions under the CURRENT forward pass *)
Theorem ppo_evaluate_is_spec : forall ac lg dr actions ac' lp ent B,
  ed_ok (ac_head ac) -> space_ok (ed_space (ac_head ac)) -> wf_rows B (flatdim (ed_space (ac_head ac))) lg ->
  wf_action (ed_space (ac_head ac)) B actions ->
  ppo_evaluate_actions ac lg dr actions = Some (ac', lp, ent) ->
  (ed_squash (ac_head ac) = false \/ forall d1, ed_dist (ac_head ac') = Some d1 -> cache_hit d1 actions = false) ->
  lp = spec_logprob (ed_space (ac_head ac)) (ed_squash (ac_head ac)) lg (ed_log_std (ac_head ac)) actions.
Proof. exact ppo_evaluate_is_spec_lemma. Qed.
Print Assumptions ppo_evaluate_is_spec.

(* the pinned (pre-fix fd023a3) log_prob ignores the passed action with squashing: refuted *)
Theorem squash_reeval_refuted :
  exists B d lg1 lg2 dr1 dr2 act ed1 ed2 x1 x2 x3 y1 y2 y3,
    wf_rows B d lg1 /\ wf_rows B d lg2 /\ wf_action (Box d) B act /\
    ed_forward (ed_init (Box d) true) lg1 None dr1 = Some (ed1, x1, x2, x3) /\
    ed_forward ed1 lg2 None dr2 = Some (ed2, y1, y2, y3) /\
    ed_log_prob_pinned ed2 act <> spec_logprob (Box d) true lg2 (ed_log_std ed2) act.
Proof. exact squash_reeval_refuted_lemma. Qed.
Print Assumptions squash_reeval_refuted.

(* learn(): batch_actions.squeeze() followed by the restored component axis hands evaluate_actions /
   action_log_prob exactly the stored actions, for every space and every number of components *)
Theorem learn_actions_id : forall sp B a, wf_action sp B a -> learn_actions sp a = a.
Proof. exact learn_actions_id_lemma. Qed.
Print Assumptions learn_actions_id.

(* without the restored axis (the code before fixes/C16-learn-keeps-component-axis.patch) a one-component Box
   policy gets, for every row, the sum of the log-densities of ALL stored actions of the minibatch: refuted *)
Theorem learn_squeeze_refuted :
  exists sp B lg dr stored ac1 r, wf_rows B (flatdim sp) lg /\ wf_action sp B stored /\ 1 < B /\
    actor_forward (actor_init sp false) lg None dr = Some ac1 /\
    ppo_learn_evaluate_pinned (fst (fst (fst ac1))) lg dr stored = Some r /\
    snd (fst r) <> spec_logprob sp false lg (ed_log_std (ac_head (actor_init sp false))) stored.
Proof. exact learn_squeeze_refuted_lemma. Qed.
Print Assumptions learn_squeeze_refuted.

(* "summed over independent components, never over the batch": row b of the log-probability tensor the code
   returns for a (stored) action has one entry per row of the batch, and that entry reads only row b of the
   logits, of the mask and of the action (and the row-free parameters log_std / low / high) *)
Theorem stored_rows_independent : forall ed lg mask dr ed' a lp ent act B b,
  ed_ok ed -> space_ok (ed_space ed) -> wf_rows B (flatdim (ed_space ed)) lg -> mask_ok (ed_space ed) B mask ->
  wf_action (ed_space ed) B act -> 0 < ncomp (ed_space ed) ->
  ed_forward ed lg mask dr = Some (ed', a, lp, ent) ->
  (ed_squash ed = false \/ forall d1, ed_dist ed' = Some d1 -> cache_hit d1 act = false) ->
  local2 lg -> (forall mk, mask = Some mk -> local2 mk) -> local2 (rows_of act) ->
  (forall b', Forall (fun e => only_row b' e = true) (ed_log_std ed)) ->
  b < B ->
  match ed_log_prob ed' act with T1 v => List.length v = B /\ only_row b (nth b v dflt) = true | _ => False end.
Proof. exact stored_rows_independent_lemma. Qed.
Print Assumptions stored_rows_independent.

(* the rewrite used by [logprob_is_spec_fresh] does not change values: for EVERY interpretation of the primitives
   (any carrier, any functions) in which atanh (clamp (tanh x)) = x *)
Theorem simp_sound : forall (T : Type) (P : prims T) (rho : string -> nat -> nat -> T),
  (forall x, p_atanh T P (p_clamp T P (p_tanh T P x)) = x) ->
  forall e, denote T P rho (simp e) = denote T P rho e.
Proof. exact simp_sound_e. Qed.
Print Assumptions simp_sound.

(* hence the VALUE of the log-probability forward() reports for the action it returns is the value of the
   definition at that action, in every such interpretation and for every assignment of the variables *)
Theorem fresh_logprob_value : forall (T : Type) (P : prims T) (rho : string -> nat -> nat -> T) ed lg mask dr ed' a lp ent B,
  (forall x, p_atanh T P (p_clamp T P (p_tanh T P x)) = x) ->
  ed_ok ed -> space_ok (ed_space ed) -> wf_rows B (flatdim (ed_space ed)) lg -> mask_ok (ed_space ed) B mask ->
  wf_draws (ed_space ed) B dr ->
  ed_forward ed lg mask dr = Some (ed', a, lp, ent) ->
  tdenote T P rho lp = tdenote T P rho (spec_logprob (ed_space ed) (ed_squash ed) (eff_logits lg mask) (ed_log_std ed) a).
Proof. exact fresh_logprob_value_lemma. Qed.
Print Assumptions fresh_logprob_value.

(* support with squashing: StochasticActor.forward returns, component by component, Scale low_i high_i (tanh u_i) of the
   draw u — a point of [low_i, high_i] — while the reported log-probability is the one of forward() above; no
   analytic entropy is reported *)
Theorem squashed_action_is_scaled_tanh : forall d lg um ac' a lp ent B,
  wf_rows B d lg ->
  actor_forward (actor_init (Box d) true) lg None (DrOne (T2 um)) = Some (ac', a, lp, ent) ->
  a = T2 (map (fun urow => zip3With Scale (map (fun i => Var "low" 0 i) (seq 0 d)) (map (fun i => Var "high" 0 i) (seq 0 d))
                                     (map Tanh urow)) um)
  /\ ent = None.
Proof. exact squashed_action_lemma. Qed.
Print Assumptions squashed_action_is_scaled_tanh.

(* correspondence check: the number Coq compares with the implementation's tensor entry is the value of the WHOLE
   formula, where Add/Sub/Neg/SumL/MeanL are exact rational arithmetic and every primitive atom a has the supplied
   value phi a (the float64 value computed by the trusted evaluator) *)
Theorem ev_sound : forall (phi : expr -> Q) e rest,
  exists q, ev e (map phi (atoms e) ++ rest) = Some (q, rest) /\ (q == denoteQ phi e)%Q.
Proof. exact ev_sound_lemma. Qed.
Print Assumptions ev_sound.

(* the formula that K evaluates against the real code in the stored-action scenario (forward on batch 1, forward on
   batch 2, action_log_prob of the stored actions) IS the definition under batch 2's logits and mask — for every space,
   every size, every batch, masked or not, squashed or not: K compares the implementation with the definition itself *)
Theorem scenario_stored_formula : forall sp squash masked B,
  space_ok sp -> 0 < B -> 0 < ncomp sp -> (masked = true -> is_box sp = false) ->
  run_scenario ScStored sp squash masked B false
  = named "lp2"%string
          (spec_logprob sp (squash && is_box sp)
                        (eff_logits (var_t2 "logit2"%string B (flatdim sp)) (opt_mask masked "mask2"%string sp B))
                        (ed_log_std (ed_init sp squash)) (var_action "action"%string sp B)).
Proof. exact scenario_stored_formula_lemma. Qed.
Print Assumptions scenario_stored_formula.

(* ... and the same for PPO: get_action on batch 1, then evaluate_actions(batch 2, stored actions): log-probability =
   definition under batch 2's (unmasked) logits; entropy = definition, or -mean(log-probability) with squashing *)
Theorem scenario_ppo_eval_formula : forall sp squash masked B,
  space_ok sp -> 0 < B -> 0 < ncomp sp -> (masked = true -> is_box sp = false) ->
  let S := spec_logprob sp (squash && is_box sp) (var_t2 "logit2"%string B (flatdim sp)) (ed_log_std (ed_init sp squash))
                        (var_action "action"%string sp B) in
  run_scenario ScPPOEval sp squash masked B false
  = oapp (named "lp2"%string S)
         (named "ent2"%string
                (ppo_entropy S (if squash && is_box sp then None
                                else Some (spec_entropy sp (var_t2 "logit2"%string B (flatdim sp)) (ed_log_std (ed_init sp squash)))))).
Proof. exact scenario_ppo_eval_formula_lemma. Qed.
Print Assumptions scenario_ppo_eval_formula.

(* learn(): with the restored component axis, the formula of the learn() scenario is the formula of evaluate_actions,
   hence (previous theorem) the definition — for one-component spaces too *)
Theorem scenario_ppo_learn_formula : forall sp squash masked B,
  run_scenario ScPPOLearn sp squash masked B false = run_scenario ScPPOEval sp squash masked B false.
Proof. exact scenario_ppo_learn_formula_lemma. Qed.
Print Assumptions scenario_ppo_learn_formula.

(* IPPO._learn_individual (actor(batch_states), then action_log_prob of the minibatch actions): definition, and the entropy *)
Theorem scenario_ippo_learn_formula : forall sp squash masked B,
  space_ok sp -> 0 < B -> 0 < ncomp sp -> (masked = true -> is_box sp = false) ->
  run_scenario ScIPPOLearn sp squash masked B false
  = oapp (named "lp2"%string (spec_logprob sp (squash && is_box sp) (var_t2 "logit2"%string B (flatdim sp))
                                            (ed_log_std (ed_init sp squash)) (var_action "action"%string sp B)))
         (if squash && is_box sp then Some [("ent2"%string, [])]
          else named "ent2"%string (spec_entropy sp (var_t2 "logit2"%string B (flatdim sp)) (ed_log_std (ed_init sp squash)))).
Proof. exact scenario_ippo_learn_formula_lemma. Qed.
Print Assumptions scenario_ippo_learn_formula.

(* DEEPENING: the stored-action theorem WITHOUT the cache-miss guard.  Whatever well-shaped tensor is passed after whatever
   forward pass - a stored action, the fresh one, or a stored tensor that happens to be bit-identical to tanh of the last
   draw - log_prob is the definition at that tensor modulo atanh(clamp(tanh x)) -> x (uses soundness of the syntactic
   torch.equal test: expr_eqb x y = true -> x = y) ... *)
Theorem logprob_is_spec_any : forall ed lg mask dr ed' a lp ent act B,
  ed_ok ed -> space_ok (ed_space ed) -> wf_rows B (flatdim (ed_space ed)) lg -> mask_ok (ed_space ed) B mask ->
  wf_action (ed_space ed) B act ->
  ed_forward ed lg mask dr = Some (ed', a, lp, ent) ->
  tmap simp (ed_log_prob ed' act)
  = tmap simp (spec_logprob (ed_space ed) (ed_squash ed) (eff_logits lg mask) (ed_log_std ed) act).
Proof. exact logprob_is_spec_any_lemma. Qed.
Print Assumptions logprob_is_spec_any.

(* ... hence its VALUE is the value of the definition, unconditionally, in every interpretation with atanh(clamp(tanh x)) = x *)
Theorem stored_logprob_value : forall (T : Type) (P : prims T) (rho : string -> nat -> nat -> T) ed lg mask dr ed' a lp ent act B,
  (forall x, p_atanh T P (p_clamp T P (p_tanh T P x)) = x) ->
  ed_ok ed -> space_ok (ed_space ed) -> wf_rows B (flatdim (ed_space ed)) lg -> mask_ok (ed_space ed) B mask ->
  wf_action (ed_space ed) B act ->
  ed_forward ed lg mask dr = Some (ed', a, lp, ent) ->
  tdenote T P rho (ed_log_prob ed' act)
  = tdenote T P rho (spec_logprob (ed_space ed) (ed_squash ed) (eff_logits lg mask) (ed_log_std ed) act).
Proof. exact stored_logprob_value_lemma. Qed.
Print Assumptions stored_logprob_value.

(* DEEPENING: IPPO's mask plumbing.  Whatever key order the caller chose for the infos dictionary (any permutation),
   policy group g receives, row by row, the mask of the agent whose observation is stacked in that row (the members
   of the group in agent_ids order) - so every agent is masked with its OWN mask *)
Theorem ippo_masks_follow_observations : forall (V : Type) (ids : list agent) (infos infos' : list (agent * V)) (g : nat),
  NoDup (map fst infos) -> Permutation infos infos' ->
  ippo_masks ids infos' g = ippo_masks ids infos g /\
  List.length (ippo_masks ids infos g) = List.length (group_members ids g) /\
  (forall r a, nth_error (group_members ids g) r = Some a -> nth_error (ippo_masks ids infos' g) r = Some (lookup_agent a infos)).
Proof. exact @ippo_masks_follow_observations_lemma. Qed.
Print Assumptions ippo_masks_follow_observations.

(* the code before 0c075e0 collected the masks in the caller's key order: refuted (two agents of one group listed in the other order) *)
Theorem ippo_masks_pinned_refuted :
  exists (ids : list agent) (infos infos' : list (agent * nat)) g,
    NoDup (map fst infos) /\ Permutation infos infos' /\ ippo_masks_pinned infos' g <> ippo_masks ids infos g.
Proof. exact ippo_masks_pinned_refuted_lemma. Qed.
Print Assumptions ippo_masks_pinned_refuted.

(* DEEPENING 3.  State across calls: forward() overwrites the distribution state completely - whatever an earlier forward
   (on this or another batch) left behind has no influence on its outputs nor on the state log_prob will read *)
Theorem forward_forgets_history : forall ed ed0 lg mask dr,
  ed_space ed = ed_space ed0 -> ed_squash ed = ed_squash ed0 -> ed_log_std ed = ed_log_std ed0 ->
  ed_forward ed lg mask dr = ed_forward ed0 lg mask dr.
Proof. exact forward_forgets_history_lemma. Qed.
Print Assumptions forward_forgets_history.

(* a forward that raises (mask on a Box space) produces no new state *)
Theorem failed_forward_is_noop : forall ed lg mk dr, is_box (ed_space ed) = true -> ed_forward ed lg (Some mk) dr = None.
Proof. exact failed_forward_is_noop_lemma. Qed.
Print Assumptions failed_forward_is_noop.

(* entropy: one value per row, reading only that row of the logits (and the row-free log_std) *)
Theorem entropy_rows_independent : forall sp lg ls b,
  local2 lg -> (forall b', Forall (fun e => only_row b' e = true) ls) -> b < List.length lg ->
  match spec_entropy sp lg ls with
  | T1 v => List.length v = List.length lg /\ only_row b (nth b v dflt) = true
  | _ => False
  end.
Proof. exact entropy_rows_independent_lemma. Qed.
Print Assumptions entropy_rows_independent.

(* masking with a mask whose entries all mean "legal" changes no value (any interpretation in which maskfill(legal, v) = v) *)
Theorem ones_mask_identity : forall (T : Type) (P : prims T) (rho : string -> nat -> nat -> T) lg mk,
  List.length mk = List.length lg ->
  Forall (fun p => List.length (snd p) = List.length (fst p) /\ Forall (legal T P rho) (snd p)) (combine lg mk) ->
  map (map (denote T P rho)) (masked_spec lg mk) = map (map (denote T P rho)) lg.
Proof. exact ones_mask_identity_lemma. Qed.
Print Assumptions ones_mask_identity.

(* vectorised IPPO (E sub-environments): whatever the key order of the caller's dictionary, row k*E + e of a policy group's
   stacked tensor (masks as well as observations - the same stacking) is row e of the k-th member of the group in
   agent_ids order: mask row and observation row with the same index belong to the same agent and sub-environment *)
Theorem stack_rows_agent_major : forall (R : Type) (E : nat) (ids : list agent) (d d' : list (agent * list R)) (g : nat),
  NoDup (map fst d) -> Permutation d d' ->
  (forall a, In a (group_members ids g) -> exists rows, lookup_agent a d = Some rows /\ List.length rows = E) ->
  stack_rows ids d' g = stack_rows ids d g /\
  forall k a e, nth_error (group_members ids g) k = Some a -> e < E ->
    nth_error (stack_rows ids d' g) (k * E + e) = match lookup_agent a d with Some rows => nth_error rows e | None => None end.
Proof. exact @stack_rows_agent_major_lemma. Qed.
Print Assumptions stack_rows_agent_major.

(* env-major stacking (a seeded round-3 change) is refuted *)
Theorem stack_rows_env_major_refuted :
  exists (ids : list agent) (d : list (agent * list nat)) g E,
    stack_rows_env_major E ids d g <> map Some (stack_rows ids d g).
Proof. exact stack_rows_env_major_refuted_lemma. Qed.
Print Assumptions stack_rows_env_major_refuted.

(* ---- non-vacuity: concrete states satisfy the hypotheses ---- *)
Open Scope string_scope.
(* a stored action (plain variables) misses the cache after two forwards of a squashed Box policy, and the theorem applies *)
Example stored_nonvacuous :
  let ed := ed_init (Box 2) true in
  let lg := var_t2 "logit" 3 2 in
  match ed_forward ed lg None (var_draws "sampled" (Box 2) 3) with
  | Some (ed', _, _, _) =>
      (forall d1, ed_dist ed' = Some d1 -> cache_hit d1 (var_action "action" (Box 2) 3) = false) /\
      ed_log_prob ed' (var_action "action" (Box 2) 3)
      = spec_logprob (Box 2) true lg (ed_log_std ed) (var_action "action" (Box 2) 3)
  | None => False
  end.
Proof. vm_compute. split; [intros d1 H; injection H as <-; reflexivity|reflexivity]. Qed.

(* the variable tensors of the K scenarios are row-local, so [stored_rows_independent] applies to them *)
Example locality_nonvacuous :
  local2 (var_t2 "logit" 3 5) /\ local2 (var_t2 "mask" 3 5) /\ local2 (rows_of (var_action "action" (MultiDiscrete [2;3]) 3)) /\
  (forall b', Forall (fun e => only_row b' e = true) (ed_log_std (ed_init (Box 2) true))).
Proof.
  repeat split; try apply var_t2_local.
  intro b'. repeat constructor.
Qed.

Example masked_multidiscrete_nonvacuous :
  let ed := ed_init (MultiDiscrete [2;3]) false in
  ed_ok ed /\ space_ok (ed_space ed) /\ wf_rows 2 5 (var_t2 "logit" 2 5) /\
  mask_ok (ed_space ed) 2 (Some (var_t2 "mask" 2 5)) /\ wf_draws (ed_space ed) 2 (var_draws "sampled" (MultiDiscrete [2;3]) 2) /\
  ed_forward ed (var_t2 "logit" 2 5) (Some (var_t2 "mask" 2 5)) (var_draws "sampled" (MultiDiscrete [2;3]) 2) <> None.
Proof.
  cbv zeta. split; [apply ed_init_ok|]. split; [discriminate|].
  repeat split; try (repeat constructor; fail); discriminate.
Qed.

(* deepening 3: the hypotheses of [stack_rows_agent_major] hold for 2 groups x 2 members x 2 envs listed in another key order *)
Example stack_rows_nonvacuous :
  let ids := [(1, 1); (0, 0); (1, 0); (0, 1)] in
  let d := [((0, 0), [1; 2]); ((0, 1), [3; 4]); ((1, 0), [5; 6]); ((1, 1), [7; 8])] in
  NoDup (map fst d) /\ (forall a, In a (group_members ids 1) -> exists rows, lookup_agent a d = Some rows /\ List.length rows = 2) /\
  stack_rows ids d 1 = [7; 8; 5; 6].
Proof.
  cbv zeta. repeat split.
  - repeat constructor; cbn; intuition discriminate.
  - intros a [<-|[<-|[]]]; eexists; split; reflexivity.
Qed.
