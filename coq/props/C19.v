(* C19 — property theorems only. Each is closed by [exact] of a lemma proved in C19/SM.v (mathcomp,
   any real field, any dimension) or C19/Proofs.v (stdlib, the executable agent model). *)
From mathcomp Require Import all_ssreflect all_algebra.
From AgileV Require Import C19.Model C19.Proofs C19.SM.
Import GRing.Theory Num.Theory.
Local Open Scope ring_scope.

(* One rank-one update: if S is the inverse of A then the updated matrix
     S - (S v v^T S) / (1 + v^T S v)      (the last statement of get_action)
   is the inverse of A + v v^T. *)
Theorem sherman_morrison : forall (F : realFieldType) (n : nat) (A S : 'M[F]_n) (v : 'cV[F]_n),
  A *m S = 1%:M -> 1 + qform S v != 0 -> (A + v *m v^T) *m sm_update S v = 1%:M.
Proof. exact SM.sherman_morrison. Qed.
Print Assumptions sherman_morrison.

(* After ANY sequence of chosen features (newest first in [vs]), starting from 1/lambda * I:
   the maintained matrix times (lambda I + sum v v^T) is the identity, it is symmetric, and every
   quadratic form x^T S x — in particular the radicand of every arm's exploration bonus — is >= 0. *)
Theorem gram_inverse_inv : forall (F : realFieldType) (n : nat) (lam : F), 0 < lam ->
  forall vs : seq 'cV[F]_n,
  [/\ gram lam vs *m sinv lam vs = 1%:M, (sinv lam vs)^T = sinv lam vs
    & forall x, 0 <= qform (sinv lam vs) x].
Proof. exact SM.gram_inverse. Qed.
Print Assumptions gram_inverse_inv.

(* ... hence it IS the inverse matrix of the regularised Gram matrix, which is invertible *)
Theorem sigma_is_the_inverse : forall (F : realFieldType) (n : nat) (lam : F), 0 < lam ->
  forall vs : seq 'cV[F]_n, gram lam vs \in unitmx /\ sinv lam vs = invmx (gram lam vs).
Proof. exact SM.sinv_is_invmx. Qed.
Print Assumptions sigma_is_the_inverse.

(* positive definite, both the Gram matrix and the maintained inverse *)
Theorem gram_posdef : forall (F : realFieldType) (n : nat) (lam : F), 0 < lam ->
  forall (vs : seq 'cV[F]_n) x, x != 0 -> 0 < qform (gram lam vs) x.
Proof. exact SM.quad_gram_gt0. Qed.
Print Assumptions gram_posdef.

Theorem sigma_posdef : forall (F : realFieldType) (n : nat) (lam : F), 0 < lam ->
  forall (vs : seq 'cV[F]_n) x, x != 0 -> 0 < qform (sinv lam vs) x.
Proof. exact SM.sinv_posdef. Qed.
Print Assumptions sigma_posdef.

(* the update never divides by zero: its denominator is >= 1 along every history *)
Theorem update_denominator_ge1 : forall (F : realFieldType) (n : nat) (lam : F), 0 < lam ->
  forall (vs : seq 'cV[F]_n) v, 1 <= 1 + qform (sinv lam vs) v.
Proof. exact SM.denominator_ge1. Qed.
Print Assumptions update_denominator_ge1.

(* the initial value before the fix commits ca382d7 / 2aab0c8 (lambda * I) is NOT the inverse of the
   empty regularised Gram matrix unless lambda = 1 *)
Theorem init_lambda_refuted : forall (F : realFieldType) (n : nat) (lam : F), 0 < lam ->
  (0 < n)%N -> lam != 1 -> gram lam [::] *m lam%:M != 1%:M :> 'M[F]_n.
Proof. exact SM.init_lambda_refuted. Qed.
Print Assumptions init_lambda_refuted.

(* ---- the executable agent model (any carrier): sizes along every history ---- *)
(* numel = number of trainable parameters of the live output layer and sigma_inv is square of that
   size, after construction and after any history of decisions, learn steps, mutations (ending with
   the init_params hook), direct parameter/activation mutations (layer shape unchanged), clones and
   checkpoint reloads. *)
Theorem size_inv : forall (T : Type) (zero one : T) (add sub mul div : T -> T -> T) (rr : bool)
  (ops : seq (@op T)) (s : @bstate T),
  size_ok s -> ops_ok zero one add sub mul div rr s ops ->
  size_ok (run zero one add sub mul div rr s ops).
Proof. exact @size_inv_lemma. Qed.
Print Assumptions size_inv.

Theorem init_size : forall (T : Type) (zero one : T) (div : T -> T -> T) l ly,
  size_ok (init_params zero one div l ly).
Proof. exact @init_size_ok. Qed.
Print Assumptions init_size.

(* histories made of public operations only need no guard at all *)
Theorem public_histories_ok : forall (T : Type) (zero one : T) (add sub mul div : T -> T -> T) rr
  (ops : seq (@op T)) s, List.forallb public_op ops = true -> ops_ok zero one add sub mul div rr s ops.
Proof. exact @public_ops_ok. Qed.
Print Assumptions public_histories_ok.

(* exp_layer stays the live output layer when a reload re-binds it (repaired semantics) ... *)
Theorem exp_layer_bound_inv : forall (T : Type) (zero one : T) (add sub mul div : T -> T -> T)
  (ops : seq (@op T)) (s : @bstate T),
  bound s = true -> bound (run zero one add sub mul div true s ops) = true.
Proof. exact @bound_inv_repaired. Qed.
Print Assumptions exp_layer_bound_inv.

(* ... and on a tree without that repair a single checkpoint reload leaves a stale exp_layer *)
Theorem reload_unbinds_refuted : exists (ops : seq (@op nat)) (s : @bstate nat),
  bound s = true /\ bound (run 0%N 1%N PeanoNat.Nat.add PeanoNat.Nat.sub PeanoNat.Nat.mul PeanoNat.Nat.div false s ops) = false.
Proof. exact reload_unbinds_witness. Qed.
Print Assumptions reload_unbinds_refuted.

(* ---- the executable model's own code, instantiated at ANY real field (C19/Refine.v) ---- *)
From AgileV Require Import C19.Refine.

(* one step of the list model = the Sherman–Morrison update on matrices *)
Theorem model_step_is_sherman_morrison : forall (F : realFieldType) (n : nat) (S : seq (seq F)) (v : seq F),
  wf n S -> size v = n ->
  wf n (sm_step 0 1 +%R (@fsub F) *%R (@fdiv F) S v) /\
  mx_of n (sm_step 0 1 +%R (@fsub F) *%R (@fdiv F) S v) = sm_update (mx_of n S) (cv_of n v).
Proof. exact Refine.sm_step_refines_wf. Qed.
Print Assumptions model_step_is_sherman_morrison.

(* After ANY sequence of well-sized features the matrix computed by the model's sigma_run is the
   inverse of the regularised Gram matrix computed by the model's gram, it is symmetric, and the
   radicand of every arm's bonus, as computed by the model's quad, is >= 0. *)
Theorem model_gram_inverse : forall (F : realFieldType) (n : nat) (lam : F), 0 < lam ->
  forall vs : seq (seq F), all (fun v => size v == n) vs ->
  let S := sigma_run 0 1 +%R (@fsub F) *%R (@fdiv F) lam n vs in
  [/\ mx_of n (Model.gram 0 +%R *%R lam n vs) *m mx_of n S = 1%:M,
      (mx_of n S)^T = mx_of n S
    & forall g, size g = n -> 0 <= Model.quad 0 +%R *%R S g].
Proof. exact Refine.model_gram_inverse. Qed.
Print Assumptions model_gram_inverse.

Theorem model_denominator_ge1 : forall (F : realFieldType) (n : nat) (lam : F), 0 < lam ->
  forall (vs : seq (seq F)) (v : seq F), all (fun v => size v == n) vs -> size v = n ->
  1 <= 1 + dot 0 +%R *%R (vmat 0 +%R *%R v (sigma_run 0 1 +%R (@fsub F) *%R (@fdiv F) lam n vs)) v.
Proof. exact Refine.model_denominator_ge1. Qed.
Print Assumptions model_denominator_ge1.

(* non-vacuity: the hypotheses are satisfiable over the rationals, dimension 2, three features *)
Example model_nonvacuous :
  (0 < 2%:R :> rat) /\ all (fun v : seq rat => size v == 2%N) [:: [:: 1; 2%:R]; [:: 0; 1]; [:: 1; 1]].
Proof. by []. Qed.

(* ---- Mutations._reinit_bandit_grads between Linear output layers (C19/ResizeProofs.v) ---- *)
From AgileV Require Import C19.ResizeProofs.

(* size clause of the helper: for every pair of Linear output layers (w weights + bias -> w' weights + bias)
   a square matrix of the old size becomes a square matrix of the new size *)
Theorem resize_linear_size : forall (T : Type) (zero : T) (w w' : nat) (dval : T) (M : seq (seq T)),
  square (w + 1) M -> square (w' + 1) (reinit_bandit_grads zero true (lin w) (lin w') dval M).
Proof. exact @resize_linear_square. Qed.
Print Assumptions resize_linear_size.

(* what Mutations.architecture_mutate really does: it passes the ALREADY mutated layer as the old one,
   so the helper is the identity (and the init_params hook then re-initialises) *)
Theorem resize_same_layer_is_identity : forall (T : Type) (zero : T) (w : nat) (dval : T) (M : seq (seq T)),
  reinit_bandit_grads zero true (lin w) (lin w) dval M = M.
Proof. exact @reinit_same_lemma. Qed.
Print Assumptions resize_same_layer_is_identity.

(* growth by k >= 1: k zero rows/columns before the bias coordinate, dval on the k new diagonal entries *)
Theorem resize_grow_spec : forall (T : Type) (zero : T) (w k : nat) (dval : T) (M : seq (seq T)),
  square (w + 1) M -> (0 < k)%coq_nat ->
  reinit_bandit_grads zero true (lin w) (lin (w + k)) dval M = grown zero w k dval M.
Proof. exact @reinit_grow_lemma. Qed.
Print Assumptions resize_grow_spec.

(* ... in particular EVERY coordinate that did not exist before gets dval (1/lambda) on the diagonal *)
Theorem resize_new_diagonal : forall (T : Type) (zero : T) (w k : nat) (dval d : T) (M : seq (seq T)) (j : nat),
  square (w + 1) M -> (j < k)%coq_nat ->
  List.nth (w + j) (List.nth (w + j) (reinit_bandit_grads zero true (lin w) (lin (w + k)) dval M) [::]) d = dval.
Proof. exact @resize_new_diagonal_lemma. Qed.
Print Assumptions resize_new_diagonal.

(* shrinking by k >= 1: rows and columns w .. w+k-1 are deleted (a principal submatrix) *)
Theorem resize_shrink_spec : forall (T : Type) (zero : T) (w k : nat) (dval : T) (M : seq (seq T)),
  (0 < k)%coq_nat -> reinit_bandit_grads zero true (lin (w + k)) (lin w) dval M = shrunk w k M.
Proof. exact @reinit_shrink_lemma. Qed.
Print Assumptions resize_shrink_spec.

(* so the guard of size_inv for a Resize between Linear layers follows from the invariant itself *)
Theorem resize_guard_linear : forall (T : Type) (zero one : T) (div : T -> T -> T) (s : @bstate T) (w w' : nat),
  live s = lin w -> size_ok s -> op_ok zero one div s (Resize (lin w')).
Proof. exact @resize_guard_linear_lemma. Qed.
Print Assumptions resize_guard_linear.

(* the tree without fixes/C19-resize-diagonal.patch: growing by two weights leaves a zero on the
   diagonal (singular matrix); the repaired index arithmetic puts dval on both new entries *)
Theorem resize_pinned_refuted :
  let M := [:: [:: 5; 1; 1]; [:: 1; 5; 1]; [:: 1; 1; 5]]%N in
  List.nth 3 (List.nth 3 (reinit_bandit_grads 0%N false (lin 2) (lin 4) 7%N M) [::]) 99%N = 0%N /\
  List.nth 3 (List.nth 3 (reinit_bandit_grads 0%N true (lin 2) (lin 4) 7%N M) [::]) 99%N = 7%N /\
  reinit_bandit_grads 0%N true (lin 2) (lin 4) 7%N M =
    [:: [:: 5; 1; 0; 0; 1]; [:: 1; 5; 0; 0; 1]; [:: 0; 0; 7; 0; 0]; [:: 0; 0; 0; 7; 0]; [:: 1; 1; 0; 0; 5]]%N.
Proof. exact resize_pinned_witness. Qed.
Print Assumptions resize_pinned_refuted.

(* ---- agent level: the sentence of the property, for every history ---- *)
(* After construction and ANY history of decisions, learn steps, mutations (hook), direct mutations,
   clones and reloads, sigma_inv is the Sherman–Morrison run over exactly the features chosen since
   the matrix was last initialised ([segment] = current dimension and those features). Any carrier. *)
Theorem agent_sigma_is_run : forall (T : Type) (zero one : T) (add sub mul div : T -> T -> T) (rr : bool)
  (l : T) (ly : layer) (ops : seq (@op T)),
  List.forallb no_resize ops = true -> lam_clean ops = true ->
  sig (run zero one add sub mul div rr (init_params zero one div l ly) ops) =
  sigma_run zero one add sub mul div (cur_lam l ops) (segment ly ops).1 (segment ly ops).2.
Proof. exact @Proofs.agent_sigma_is_run. Qed.
Print Assumptions agent_sigma_is_run.

(* ... hence, over any real field, for every such history whose decisions hand in features of the current
   size: sigma_inv times (lambda I + sum of outer products of the features chosen since the last
   initialisation) is the identity, sigma_inv is symmetric, and every arm's bonus radicand is >= 0. *)
Theorem agent_gram_inverse : forall (F : realFieldType) (lam : F)
  (ly : layer) (ops : seq (@op F)) (rr : bool),
  List.forallb no_resize ops = true -> lam_clean ops = true -> 0 < cur_lam lam ops ->
  feats_ok (layer_numel ly, [::]) ops ->
  let n := (segment ly ops).1 in
  let vs := (segment ly ops).2 in
  let S := sig (run 0 1 +%R (@fsub F) *%R (@fdiv F) rr (init_params 0 1 (@fdiv F) lam ly) ops) in
  [/\ mx_of n (Model.gram 0 +%R *%R (cur_lam lam ops) n vs) *m mx_of n S = 1%:M,
      (mx_of n S)^T = mx_of n S
    & forall g, size g = n -> 0 <= Model.quad 0 +%R *%R S g].
Proof. exact Refine.agent_gram_inverse. Qed.
Print Assumptions agent_gram_inverse.

(* non-vacuity: a history with two decisions, a mutation that resizes the layer, and one more decision *)
Example agent_nonvacuous :
  let ops : seq (@op rat) := [:: Act [:: 1; 0; 1]; Learn; Act [:: 0; 1; 1]; Clone; SetLam 2%:R; MutHook (lin 3); Reload; Act [:: 1; 1; 0; 1]] in
  List.forallb no_resize ops = true /\ lam_clean ops = true /\ cur_lam (1 : rat) ops = 2%:R /\
  feats_ok (layer_numel (lin 2), [::]) ops /\
  segment (lin 2) ops = (4%N, [:: [:: 1; 1; 0; 1]]).
Proof. by []. Qed.

(* an RL-hyperparameter mutation of lambda that is NOT followed by a re-initialisation (Mutations.mutation skipping the
   hook for hyperparameter mutations) leaves the agent with lambda = 2 and the matrix of lambda = 1: (lambda I) * sigma_inv
   is 2, not 1; with the hook (a MutHook op) the matrix is re-initialised with the new lambda (1/2) *)
Theorem setlam_without_init_refuted :
  let q := fun z => QArith_base.Qmake z BinNums.xH in
  let s := List.fold_left Qstep [:: SetLam (q (BinNums.Zpos (BinNums.xO BinNums.xH)))] (Qinit (q (BinNums.Zpos BinNums.xH)) [:: (0%N, 1%N)]) in
  lam s = q (BinNums.Zpos (BinNums.xO BinNums.xH)) /\
  Qmatmul (@scal_id QArith_base.Q (q BinNums.Z0) 1 (lam s)) (sig s) = [:: [:: q (BinNums.Zpos (BinNums.xO BinNums.xH))]] /\
  sig (List.fold_left Qstep [:: SetLam (q (BinNums.Zpos (BinNums.xO BinNums.xH))); MutHook [:: (0%N, 1%N)]] (Qinit (q (BinNums.Zpos BinNums.xH)) [:: (0%N, 1%N)]))
    = [:: [:: QArith_base.Qmake (BinNums.Zpos BinNums.xH) (BinNums.xO BinNums.xH)]].
Proof. exact setlam_without_init_witness. Qed.
Print Assumptions setlam_without_init_refuted.

(* ---- the instance the correspondence check EXECUTES (generic model over Bignums' BigQ, C19/Check.v) ----
   read through CoqEAL's proven interpretation bigQ2rat : bigQ -> rat (C19/Exec.v). These two theorems depend on
   the standard library's axiomatisation of 63-bit machine integers (Uint63 / PrimInt63), on which BigQ is built. *)
From Bignums Require Import BigQ.
From CoqEAL Require Import binrat.
From AgileV Require Import C19.Check C19.Exec.

Theorem executed_gram_inverse : forall (lam : bigQ) (n : nat) (vs : seq (seq bigQ)),
  0 < bigQ2rat lam -> all (fun v => size v == n) vs ->
  let S := sigma_run B0 B1 BigQ.add_norm BigQ.sub_norm BigQ.mul_norm BigQ.div_norm lam n vs in
  [/\ mx_of n (map (map bigQ2rat) (Model.gram B0 BigQ.add_norm BigQ.mul_norm lam n vs)) *m mx_of n (map (map bigQ2rat) S) = 1%:M,
      (mx_of n (map (map bigQ2rat) S))^T = mx_of n (map (map bigQ2rat) S)
    & forall g, size g = n -> bq_le B0 (Bquad S g)].
Proof. exact Exec.executed_gram_inverse. Qed.
Print Assumptions executed_gram_inverse.

Theorem executed_agent_sigma : forall (rr : bool) (lam : bigQ) (ly : layer) (ops : seq (@op bigQ)),
  List.forallb no_resize ops = true -> lam_clean ops = true ->
  sig (List.fold_left (Bstep rr) ops (Binit lam ly)) =
  sigma_run B0 B1 BigQ.add_norm BigQ.sub_norm BigQ.mul_norm BigQ.div_norm (cur_lam lam ops) (segment ly ops).1 (segment ly ops).2.
Proof. exact Exec.executed_agent_sigma. Qed.
Print Assumptions executed_agent_sigma.

(* non-vacuity: lambda = 1/2 as a BigQ value is positive under the interpretation, three 2-sized features *)
Example executed_nonvacuous :
  let lam := BigQ.of_Q (QArith_base.Qmake (BinNums.Zpos BinNums.xH) (BinNums.xO BinNums.xH)) in
  0 < bigQ2rat lam /\
  all (fun v : seq bigQ => size v == 2%N) [:: [:: B1; lam]; [:: B0; B1]; [:: lam; lam]].
Proof. split; [exact: q2r_gt0 | by []]. Qed.

(* ---- which arm get_action returns (C19/ChoiceProofs.v): masked argmax of the action values ---- *)
From AgileV Require Import C19.ChoiceProofs.

(* any strict total order on action values: the returned arm is legal, no legal arm has a strictly larger value,
   and every legal arm before it has a strictly smaller one (first maximum) *)
Theorem masked_argmax_spec : forall (T : Type) (ltb : T -> T -> bool),
  (forall a b c, ltb a b = true -> ltb b c = true -> ltb a c = true) ->
  (forall a, ltb a a = false) ->
  (forall a b c, ltb a c = true -> ltb a b = true \/ ltb b c = true) ->
  forall (d : T) (vals : seq T) (legal : seq bool),
  List.length vals = List.length legal ->
  (exists j, (j < List.length vals)%coq_nat /\ List.nth j legal false = true) ->
  let r := masked_argmax ltb vals legal in
  (r < List.length vals)%coq_nat /\ List.nth r legal false = true /\
  (forall j, (j < List.length vals)%coq_nat -> List.nth j legal false = true ->
             ltb (List.nth r vals d) (List.nth j vals d) = false) /\
  (forall j, (j < r)%coq_nat -> List.nth j legal false = true -> ltb (List.nth j vals d) (List.nth r vals d) = true).
Proof. exact @masked_argmax_spec_lemma. Qed.
Print Assumptions masked_argmax_spec.

(* with every arm masked numpy (and the model) return arm 0 *)
Theorem masked_argmax_all_masked : forall (T : Type) (ltb : T -> T -> bool),
  (forall a b c, ltb a b = true -> ltb b c = true -> ltb a c = true) ->
  (forall a, ltb a a = false) ->
  (forall a b c, ltb a c = true -> ltb a b = true \/ ltb b c = true) ->
  forall (d : T) (vals : seq T) (legal : seq bool),
  List.length vals = List.length legal ->
  (forall j, (j < List.length vals)%coq_nat -> List.nth j legal false = false) -> masked_argmax ltb vals legal = 0%N.
Proof. exact @masked_argmax_none_lemma. Qed.
Print Assumptions masked_argmax_all_masked.

(* the instance K executes on the float action values (exact rationals) *)
Theorem action_choice_spec : forall (vals : seq QArith_base.Q) (legal : seq bool),
  List.length vals = List.length legal ->
  (exists j, (j < List.length vals)%coq_nat /\ List.nth j legal false = true) ->
  let r := Qmasked_argmax vals legal in
  (r < List.length vals)%coq_nat /\ List.nth r legal false = true /\
  (forall j, (j < List.length vals)%coq_nat -> List.nth j legal false = true ->
             QArith_base.Qle (List.nth j vals (QArith_base.Qmake BinNums.Z0 BinNums.xH)) (List.nth r vals (QArith_base.Qmake BinNums.Z0 BinNums.xH))) /\
  (forall j, (j < r)%coq_nat -> List.nth j legal false = true ->
             QArith_base.Qlt (List.nth j vals (QArith_base.Qmake BinNums.Z0 BinNums.xH)) (List.nth r vals (QArith_base.Qmake BinNums.Z0 BinNums.xH))).
Proof. exact Qmasked_argmax_spec_lemma. Qed.
Print Assumptions action_choice_spec.

(* latent, outside the layers the library can build: parameter set changes while another parameter grows —
   the helper loses the retained entry (expected [[5;0;0];[0;7;0];[0;0;7]]) *)
Theorem resize_general_layer_refuted :
  reinit_bandit_grads 0%N true [:: (0%N, 1%N); (1%N, 1%N)] [:: (0%N, 3%N)] 7%N [:: [:: 5; 1]; [:: 1; 9]]%N
  = [:: [:: 0; 0; 0]; [:: 0; 7; 0]; [:: 0; 0; 0]]%N.
Proof. exact resize_general_layer_witness. Qed.
Print Assumptions resize_general_layer_refuted.

(* ---- population level (C19/PopProofs.v): members are created by cloning, every operation acts on one member ---- *)
From AgileV Require Import C19.PopProofs.

(* every member of the population is the founder run through ITS OWN lineage (ancestors' operations before each clone,
   then its own) — for every sequence of member operations and clonings, any carrier *)
Theorem pop_lineage : forall (T : Type) (zero one : T) (add sub mul div : T -> T -> T) (rr : bool) (s0 : @bstate T)
  (pos : seq (@pop_op T)) (j : nat),
  List.length (prun zero one add sub mul div rr s0 pos) = List.length (lineages pos) /\
  List.nth j (prun zero one add sub mul div rr s0 pos) s0 = run zero one add sub mul div rr s0 (List.nth j (lineages pos) [::]).
Proof. exact @pop_lineage_lemma. Qed.
Print Assumptions pop_lineage.

(* frame: an operation on member i leaves every other member unchanged (no aliasing between parent and clone) *)
Theorem pop_frame : forall (T : Type) (zero one : T) (add sub mul div : T -> T -> T) (rr : bool) (s0 : @bstate T)
  (pop : seq (@bstate T)) (i : nat) (o : @op T) (j : nat),
  j <> i -> List.nth j (pstep zero one add sub mul div rr s0 pop (On i o)) s0 = List.nth j pop s0.
Proof. exact @pop_frame_lemma. Qed.
Print Assumptions pop_frame.

(* a clone joins with a copy of its parent's matrix and every existing member keeps its state *)
Theorem pop_clone : forall (T : Type) (zero one : T) (add sub mul div : T -> T -> T) (rr : bool) (s0 : @bstate T)
  (pop : seq (@bstate T)) (i : nat),
  (i < List.length pop)%coq_nat ->
  sig (List.nth (List.length pop) (pstep zero one add sub mul div rr s0 pop (CloneOf i)) s0) = sig (List.nth i pop s0) /\
  forall j, (j < List.length pop)%coq_nat -> List.nth j (pstep zero one add sub mul div rr s0 pop (CloneOf i)) s0 = List.nth j pop s0.
Proof. exact @pop_clone_lemma. Qed.
Print Assumptions pop_clone.

(* so each member's matrix is the Sherman–Morrison run, for its current lambda, over the features chosen in its own lineage
   since its last initialisation *)
Theorem pop_member_sigma : forall (T : Type) (zero one : T) (add sub mul div : T -> T -> T) (rr : bool) (l : T) (ly : layer)
  (pos : seq (@pop_op T)) (j : nat),
  let h := List.nth j (lineages pos) [::] in
  List.forallb no_resize h = true -> lam_clean h = true ->
  sig (List.nth j (prun zero one add sub mul div rr (init_params zero one div l ly) pos) (init_params zero one div l ly)) =
  sigma_run zero one add sub mul div (cur_lam l h) (segment ly h).1 (segment ly h).2.
Proof. exact @pop_member_sigma_lemma. Qed.
Print Assumptions pop_member_sigma.

(* non-vacuity: founder decides, is cloned, parent and clone decide differently, the clone is mutated (new lambda) and cloned *)
Example pop_nonvacuous :
  let pos : seq (@pop_op rat) := [:: On 0 (Act [:: 1; 0; 1]); CloneOf 0; On 0 (Act [:: 0; 1; 1]); On 1 (Act [:: 1; 1; 1]);
                                    On 1 (SetLam 2%:R); On 1 (MutHook (lin 3)); CloneOf 1; On 2 (Act [:: 1; 0; 0; 1])] in
  lineages pos = [:: [:: Act [:: 1; 0; 1]; Act [:: 0; 1; 1]];
                     [:: Act [:: 1; 0; 1]; Clone; Act [:: 1; 1; 1]; SetLam 2%:R; MutHook (lin 3)];
                     [:: Act [:: 1; 0; 1]; Clone; Act [:: 1; 1; 1]; SetLam 2%:R; MutHook (lin 3); Clone; Act [:: 1; 0; 0; 1]]] /\
  List.forallb (fun h => List.forallb no_resize h && lam_clean h) (lineages pos) = true.
Proof. by []. Qed.

(* ---- the whole tail of get_action over any real field: choose the arm, update with THAT arm's feature (C19/Refine.v) ---- *)
Theorem decide_spec : forall (F : realFieldType) (n : nat) (A : 'M[F]_n) (S : seq (seq F)) (arms : seq (seq F))
  (vals : seq F) (legal : seq bool),
  wf n S -> A *m mx_of n S = 1%:M -> (forall x, 0 <= qform (mx_of n S) x) ->
  all (fun g => size g == n) arms -> size arms = size vals -> List.length vals = List.length legal ->
  (exists j, (j < List.length vals)%coq_nat /\ List.nth j legal false = true) ->
  let a := (decide S arms vals legal).1 in
  let g := cv_of n (nth [::] arms a) in
  [/\ (a < size vals)%N, List.nth a legal false = true,
      forall j, (j < List.length vals)%coq_nat -> List.nth j legal false = true -> (List.nth a vals 0 < List.nth j vals 0) = false
    & (A + g *m g^T) *m mx_of n (decide S arms vals legal).2 = 1%:M].
Proof. exact Refine.decide_spec. Qed.
Print Assumptions decide_spec.

(* non-vacuity: 2x2 identity, three arms, arm 1 has the largest value but is masked: arm 2 is returned *)
Example decide_nonvacuous :
  (@decide rat_realFieldType [:: [:: 1; 0]; [:: 0; 1]] [:: [:: 1; 0]; [:: 0; 1]; [:: 1; 1]] [:: 1; 3%:R; 2%:R] [:: true; false; true]).1 = 2%N :> nat
  /\ wf 2 [:: [:: 1; 0]; [:: 0; (1 : rat)]].
Proof. by []. Qed.
