(* C04 — property theorems only. Each is closed by [exact] of a lemma proved in C04/Proofs.v.
   The model (C04/Model.v) transcribes EvolvableModule.preserve_parameters,
   EvolvableCNN.shrink_preserve_parameters, and load_state_dict as used by clone / reinit_from_mutated.
   All statements hold for tensors of any rank and size and for any scalar type A. *)
From Coq Require Import String.
From Coq Require Import List Arith Bool.
Import ListNotations.
From AgileV Require Import C04.Model C04.Proofs.

(* The slice copy param.data[slices] = old.data[slices], completely characterised index by index:
   the result is defined exactly where the new tensor is; there it carries the old value wherever the
   old tensor has that index, and the new (freshly initialised) value elsewhere. *)
Theorem overlap_spec : forall (A : Type) (o n : tensor A) ix,
  get (overlap o n) ix =
    match get n ix with
    | None => None
    | Some b => match get o ix with Some a => Some a | None => Some b end
    end.
Proof. exact @overlap_get. Qed.
Print Assumptions overlap_spec.

(* ... and it has the new size, whatever the old tensor was *)
Theorem overlap_shape : forall (A : Type) (o n : tensor A) s,
  has_shape n s = true -> has_shape (overlap o n) s = true.
Proof. exact @overlap_has_shape. Qed.
Print Assumptions overlap_shape.

(* preserve_parameters: every parameter name present before and after keeps its value on every
   multi-index that exists in both tensors — for ALL names (normalisation layers included). *)
Theorem preserve_keeps_common : forall (A : Type) (old new : named A) k op p,
  lookup k old = Some op -> lookup k new = Some p ->
  exists rp, lookup k (preserve old new) = Some rp /\
    forall ix a b, get (p_data op) ix = Some a -> get (p_data p) ix = Some b -> get (p_data rp) ix = Some a.
Proof. exact @preserve_keeps_common_lemma. Qed.
Print Assumptions preserve_keeps_common.

(* the same in the words of the property: any index inside the range the two sizes have in common *)
Theorem preserve_keeps_common_range : forall (A : Type) (old new : named A) k op p ix,
  wf_named old -> wf_named new ->
  lookup k old = Some op -> lookup k new = Some p ->
  in_range ix (p_size op) = true -> in_range ix (p_size p) = true ->
  exists rp a, lookup k (preserve old new) = Some rp /\ p_size rp = p_size p /\
    get (p_data op) ix = Some a /\ get (p_data rp) ix = Some a.
Proof. exact @preserve_keeps_common_range_lemma. Qed.
Print Assumptions preserve_keeps_common_range.

(* only new units are freshly initialised: outside the old size the constructor's value stays *)
Theorem preserve_new_units : forall (A : Type) (old new : named A) k op p ix,
  wf_named old -> wf_named new ->
  lookup k old = Some op -> lookup k new = Some p ->
  in_range ix (p_size op) = false ->
  exists rp, lookup k (preserve old new) = Some rp /\ get (p_data rp) ix = get (p_data p) ix.
Proof. exact @preserve_new_units_lemma. Qed.
Print Assumptions preserve_new_units.

Theorem preserve_fresh_names : forall (A : Type) (old new : named A) k,
  lookup k old = None -> lookup k (preserve old new) = lookup k new.
Proof. exact @preserve_fresh_lemma. Qed.
Print Assumptions preserve_fresh_names.

(* the re-created network has the names, sizes and well-shapedness of the new architecture *)
Theorem preserve_signature : forall (A : Type) (old new : named A),
  map fst (preserve old new) = map fst new /\
  map (fun kp => p_size (snd kp)) (preserve old new) = map (fun kp => p_size (snd kp)) new /\
  (wf_named old -> wf_named new -> wf_named (preserve old new)).
Proof. intros A old new. exact (conj (preserve_names old new) (conj (preserve_sizes old new) (preserve_wf_lemma old new))). Qed.
Print Assumptions preserve_signature.

(* an unchanged architecture (same names, same sizes) gets exactly the old parameters back ... *)
Theorem same_arch_same_params : forall (A : Type) (old new : named A),
  NoDup (map fst old) -> same_sig old new -> preserve old new = old.
Proof. exact @same_arch_same_params_lemma. Qed.
Print Assumptions same_arch_same_params.

(* ... hence computes the same function, the forward pass being a function of the named parameters *)
Theorem same_arch_same_function : forall (A X Y : Type) (forward : named A -> X -> Y) (old new : named A),
  NoDup (map fst old) -> same_sig old new -> forall x, forward (preserve old new) x = forward old x.
Proof. exact @same_arch_same_function_lemma. Qed.
Print Assumptions same_arch_same_function.

(* clone(): a module rebuilt from the same init_dict (same names and sizes) loads every parameter
   without error and is parameter-wise equal; reinit_from_mutated likewise *)
Theorem clone_same : forall (A : Type) (self fresh : named A),
  NoDup (map fst self) -> same_sig self fresh ->
  clone self fresh = self /\ load_error self fresh = false.
Proof. exact @clone_same_lemma. Qed.
Print Assumptions clone_same.

Theorem reinit_same : forall (A : Type) (self fresh : named A),
  NoDup (map fst self) -> same_sig self fresh -> reinit_from_mutated self fresh = Some self.
Proof. exact @reinit_same_lemma. Qed.
Print Assumptions reinit_same.

(* shrink_preserve_parameters (first two axes sliced, the rest written whole): whenever it succeeds
   on well-shaped parameters it is the full slice copy, so it keeps the common slices too; and it
   succeeds whenever the sizes beyond the second axis agree *)
Theorem shrink_eq_preserve : forall (A : Type) (old new r : named A),
  wf_named old -> wf_named new -> shrink_preserve old new = Some r -> r = preserve old new.
Proof. exact @shrink_eq_preserve_lemma. Qed.
Print Assumptions shrink_eq_preserve.

Theorem shrink_keeps_common : forall (A : Type) (old new r : named A) k op p,
  wf_named old -> wf_named new -> shrink_preserve old new = Some r ->
  lookup k old = Some op -> lookup k new = Some p ->
  exists rp, lookup k r = Some rp /\
    forall ix a b, get (p_data op) ix = Some a -> get (p_data p) ix = Some b -> get (p_data rp) ix = Some a.
Proof. exact @shrink_keeps_common_lemma. Qed.
Print Assumptions shrink_keeps_common.

Theorem shrink_total : forall (A : Type) (old new : named A),
  (forall k op p, lookup k old = Some op -> In (k, p) new ->
     p_size op = p_size p \/ shrink_guard (p_size op) (p_size p) = true) ->
  exists r, shrink_preserve old new = Some r.
Proof. exact @shrink_total_lemma. Qed.
Print Assumptions shrink_total.

(* the form in which the end-to-end correspondence check uses the model: the result of a
   re-creation is a fixed point of [preserve old], and every fixed point keeps the common slices *)
Theorem preserve_idem : forall (A : Type) (old new : named A),
  preserve old (preserve old new) = preserve old new.
Proof. exact @preserve_idem_lemma. Qed.
Print Assumptions preserve_idem.

Theorem fixpoint_keeps_common : forall (A : Type) (old r : named A),
  preserve old r = r ->
  forall k op rp, lookup k old = Some op -> lookup k r = Some rp ->
  forall ix a b, get (p_data op) ix = Some a -> get (p_data rp) ix = Some b -> b = a.
Proof. exact @fixpoint_keeps_common_lemma. Qed.
Print Assumptions fixpoint_keeps_common.

(* mutation chains of any length: a weight survives as long as its index exists in every
   intermediate architecture *)
Theorem chain_keeps : forall (A : Type) (fs : list (named A)) (old : named A) k op ix a,
  lookup k old = Some op -> get (p_data op) ix = Some a ->
  Forall (fun f => exists p b, lookup k f = Some p /\ get (p_data p) ix = Some b) fs ->
  exists rp, lookup k (run_chain old fs) = Some rp /\ get (p_data rp) ix = Some a.
Proof. exact @chain_keeps_lemma. Qed.
Print Assumptions chain_keeps.

(* module-wise re-creation (encoder, head, each feature extractor separately, local names) equals
   re-creation of the whole network's named parameters (names behind per-module prefixes) *)
Theorem preserve_modulewise : forall (A : Type) (o1 o2 n1 n2 : named A),
  (forall k, In k (map fst n1) -> ~ In k (map fst o2)) ->
  (forall k, In k (map fst n2) -> ~ In k (map fst o1)) ->
  preserve (o1 ++ o2) (n1 ++ n2) = preserve o1 n1 ++ preserve o2 n2.
Proof. exact @preserve_app_lemma. Qed.
Print Assumptions preserve_modulewise.

Theorem preserve_prefix : forall (A : Type) (pre : string) (old new : named A),
  preserve (rename (String.append pre) old) (rename (String.append pre) new) =
  rename (String.append pre) (preserve old new).
Proof. intros A pre old new. apply preserve_rename_lemma. intros a b. apply append_inj. Qed.
Print Assumptions preserve_prefix.

(* the behaviour before the repairs 99d19d3 / 6cedd7f (resized "norm" parameters skipped) violates
   the property: LayerNorm weight 2 -> 3 loses its learned values *)
Theorem preserve_norm_refuted :
  exists (old new : named nat) k op p rp ix a b,
    lookup k old = Some op /\ lookup k new = Some p /\ lookup k (preserve_pinned old new) = Some rp /\
    get (p_data op) ix = Some a /\ get (p_data p) ix = Some b /\ get (p_data rp) ix <> Some a.
Proof. exact preserve_norm_refuted_lemma. Qed.
Print Assumptions preserve_norm_refuted.

(* EvolvableBERT.recreate_network on the current tree (re-initialise, then copy) does not even give an
   unchanged architecture its parameters back — contrast same_arch_same_params; known finding, repair in
   fixes/C04-bert-reset-parameters.patch *)
Theorem bert_reset_refuted :
  exists (init : param nat -> param nat) (old fresh : named nat),
    NoDup (map fst old) /\ same_sig old fresh /\ recreate_bert_pinned init old fresh <> old.
Proof. exact bert_reset_refuted_lemma. Qed.
Print Assumptions bert_reset_refuted.

(* load_state_dict without error: every entry of the rebuilt module carries the original's value *)
Theorem load_no_error_faithful : forall (A : Type) (src dst : named A) k p,
  load_error src dst = false -> lookup k dst = Some p ->
  exists sp, lookup k src = Some sp /\ p_size sp = p_size p /\ lookup k (load_params src dst) = Some sp.
Proof. exact @load_no_error_faithful_lemma. Qed.
Print Assumptions load_no_error_faithful.

(* ... whereas clone() swallows the error: with a mismatching signature (init_dict out of step with the
   network) it silently returns freshly initialised values, where reinit_from_mutated fails loudly *)
Theorem clone_swallow_refuted :
  exists self fresh : named nat, NoDup (map fst self) /\ load_error self fresh = true /\
    clone self fresh = fresh /\ clone self fresh <> self /\ reinit_from_mutated self fresh = None.
Proof. exact clone_swallow_refuted_lemma. Qed.
Print Assumptions clone_swallow_refuted.

(* ---- deepening round ---------------------------------------------------------------------------- *)
(* the guard of shrink_preserve_parameters is not an assumption for the shrinking mutations: it holds for
   every parameter of rank <= 2 and for convolution kernels whose kernel dimensions are unchanged ... *)
Theorem shrink_guard_rank_le2 : forall so sn : list nat,
  length so = length sn -> length so <= 2 -> shrink_guard so sn = true.
Proof. exact shrink_guard_rank_le2_lemma. Qed.
Print Assumptions shrink_guard_rank_le2.

Theorem shrink_guard_same_kernel : forall (co ci co' ci' : nat) (kernel : list nat),
  shrink_guard (co :: ci :: kernel) (co' :: ci' :: kernel) = true.
Proof. exact shrink_guard_same_kernel_lemma. Qed.
Print Assumptions shrink_guard_same_kernel.

(* ... so on a network all of whose resized parameters are of these kinds (CNN / ResNet under
   remove_layer, remove_channel, remove_block) it succeeds and equals preserve_parameters *)
Theorem shrink_on_cnn : forall (A : Type) (old new : named A),
  wf_named old -> wf_named new ->
  (forall k op p, lookup k old = Some op -> In (k, p) new -> shrinkable (p_size op) (p_size p)) ->
  shrink_preserve old new = Some (preserve old new).
Proof. exact @shrink_on_cnn_lemma. Qed.
Print Assumptions shrink_on_cnn.

(* a growing mutation (every axis of the old size fits into the new one) loses nothing at all *)
Theorem grow_keeps_everything : forall (A : Type) (old new : named A) k op p,
  wf_named old -> wf_named new ->
  lookup k old = Some op -> lookup k new = Some p -> size_le (p_size op) (p_size p) = true ->
  exists rp, lookup k (preserve old new) = Some rp /\
    forall ix a, get (p_data op) ix = Some a -> get (p_data rp) ix = Some a.
Proof. exact @grow_keeps_everything_lemma. Qed.
Print Assumptions grow_keeps_everything.

(* state = named entries (parameters and buffers) + training flag: an unchanged architecture is
   re-created to exactly the old state and a clone computes the same function IN THE SAME MODE, for any
   forward pass that depends on the whole state *)
Theorem recreate_state_same_function :
  forall (A X Y : Type) (forward : mstate A -> X -> Y) (old fresh : mstate A),
  NoDup (map fst (st_named old)) -> same_sig (st_named old) (st_named fresh) ->
  recreate_state false old fresh = Some old /\
  (forall x, forward (clone_state old fresh) x = forward old x).
Proof. exact @recreate_state_same_function_lemma. Qed.
Print Assumptions recreate_state_same_function.

(* the behaviour before 1205c28 (the fresh module's training flag survives) is refuted *)
Theorem mode_lost_refuted :
  exists old fresh : mstate nat, same_sig (st_named old) (st_named fresh) /\ NoDup (map fst (st_named old)) /\
    recreate_state_pinned old fresh <> old.
Proof. exact mode_lost_refuted_lemma. Qed.
Print Assumptions mode_lost_refuted.

(* ---- deepening round 3 -------------------------------------------------------------------------- *)
(* a purely shrinking mutation introduces no fresh value at all *)
Theorem shrink_all_from_old : forall (A : Type) (old new : named A) k op p,
  wf_named old -> wf_named new ->
  lookup k old = Some op -> lookup k new = Some p -> size_le (p_size p) (p_size op) = true ->
  exists rp, lookup k (preserve old new) = Some rp /\
    forall ix b, get (p_data rp) ix = Some b -> get (p_data op) ix = Some b.
Proof. exact @shrink_all_from_old_lemma. Qed.
Print Assumptions shrink_all_from_old.

(* tied weights (two names bound to one tensor) whose size is unchanged stay bound to one tensor *)
Theorem preserve_keeps_ties : forall (A : Type) (old new : named A) k1 k2 op p1 p2,
  lookup k1 old = Some op -> lookup k2 old = Some op ->
  lookup k1 new = Some p1 -> lookup k2 new = Some p2 ->
  p_size p1 = p_size op -> p_size p2 = p_size op ->
  lookup k1 (preserve old new) = Some op /\ lookup k2 (preserve old new) = Some op.
Proof. exact @preserve_keeps_ties_lemma. Qed.
Print Assumptions preserve_keeps_ties.

(* after a chain of re-creations of any length the names and sizes are those of the last architecture *)
Theorem chain_signature : forall (A : Type) (fs : list (named A)) (old : named A),
  sig_of (run_chain old fs) = sig_of (last fs old).
Proof. exact @chain_signature_lemma. Qed.
Print Assumptions chain_signature.

(* a chain of clone() calls of any length returns the parameters of the first ancestor *)
Theorem clone_chain : forall (A : Type) (freshes : list (named A)) (self : named A),
  NoDup (map fst self) -> Forall (same_sig self) freshes ->
  fold_left (fun cur fresh => clone cur fresh) freshes self = self.
Proof. exact @clone_chain_lemma. Qed.
Print Assumptions clone_chain.

(* ---- non-vacuity ---------------------------------------------------------------------------- *)
Definition ex_old : named nat :=
  [("l.weight"%string, {| p_size := [2;2]; p_data := Dim [Dim [Sc 1; Sc 2]; Dim [Sc 3; Sc 4]] |});
   ("l.bias"%string,   {| p_size := [2];   p_data := Dim [Sc 5; Sc 6] |})].
Definition ex_new : named nat :=
  [("l.weight"%string, {| p_size := [3;1]; p_data := Dim [Dim [Sc 0]; Dim [Sc 0]; Dim [Sc 0]] |});
   ("l.bias"%string,   {| p_size := [3];   p_data := Dim [Sc 0; Sc 0; Sc 0] |});
   ("m.weight"%string, {| p_size := [1];   p_data := Dim [Sc 9] |})].

(* grown in one axis, shrunk in the other, plus a new layer: hypotheses of the theorems hold and the result is the expected one *)
Example preserve_nonvacuous :
  wf_named ex_old /\ wf_named ex_new /\ NoDup (map fst ex_old) /\
  preserve ex_old ex_new =
    [("l.weight"%string, {| p_size := [3;1]; p_data := Dim [Dim [Sc 1]; Dim [Sc 3]; Dim [Sc 0]] |});
     ("l.bias"%string,   {| p_size := [3];   p_data := Dim [Sc 5; Sc 6; Sc 0] |});
     ("m.weight"%string, {| p_size := [1];   p_data := Dim [Sc 9] |})] /\
  shrink_preserve ex_old ex_new = Some (preserve ex_old ex_new) /\
  in_range [1;0] [2;2] = true /\ in_range [1;0] [3;1] = true /\ in_range [2;0] [2;2] = false.
Proof.
  repeat split; try reflexivity.
  - repeat constructor.
  - repeat constructor.
  - repeat constructor; cbn; intuition discriminate.
Qed.

Example same_sig_nonvacuous : same_sig ex_old ex_old /\ clone ex_old ex_old = ex_old.
Proof. split; [repeat constructor|reflexivity]. Qed.

Example shrinkable_nonvacuous :
  shrinkable [5;2;3;3] [3;2;3;3] /\ shrinkable [5] [3] /\ shrinkable [4;48] [4;27] /\
  shrink_guard [5;2;3;3] [3;2;2;2] = false /\ size_le [2;3] [4;3] = true.
Proof.
  repeat split; try reflexivity.
  - right; right. exists 5, 2, 3, 2, [3;3]. split; reflexivity.
  - right; left. split; cbn; auto.
  - right; left. split; cbn; auto.
Qed.

Definition tie_old : named nat :=
  [("wte.weight"%string, {| p_size := [2]; p_data := Dim [Sc 4; Sc 5] |});
   ("h.w"%string, {| p_size := [3]; p_data := Dim [Sc 1; Sc 2; Sc 3] |});
   ("lm_head.weight"%string, {| p_size := [2]; p_data := Dim [Sc 4; Sc 5] |})].
Definition tie_new : named nat :=
  [("wte.weight"%string, {| p_size := [2]; p_data := Dim [Sc 0; Sc 0] |});
   ("h.w"%string, {| p_size := [2]; p_data := Dim [Sc 0; Sc 0] |});
   ("lm_head.weight"%string, {| p_size := [2]; p_data := Dim [Sc 9; Sc 9] |})].
(* a tied pair survives while another parameter shrinks (and takes only old values); the signature is the new one *)
Example round3_nonvacuous :
  lookup "wte.weight"%string (preserve tie_old tie_new) = lookup "lm_head.weight"%string (preserve tie_old tie_new) /\
  lookup "h.w"%string (preserve tie_old tie_new) = Some {| p_size := [2]; p_data := Dim [Sc 1; Sc 2] |} /\
  size_le [2] [3] = true /\ sig_of (run_chain tie_old [tie_new; tie_old; tie_new]) = sig_of tie_new /\
  fold_left (fun cur fresh => clone cur fresh) [tie_old; tie_old] tie_old = tie_old.
Proof. repeat split; reflexivity. Qed.
