(* C08 — property theorems only. Each is closed by [exact] of a lemma proved in C08/Proofs.v. *)
From Coq Require Import List QArith Qminmax Qround ZArith Arith.
Import ListNotations.
From AgileV Require Import C08.Model C08.Proofs.
Local Open Scope Q_scope.

(* ---------------------------------------------------------------- done masks the next observation *)
(* A transition marked done has target = reward, whatever the target network says about the next observation. *)
Theorem done_target_is_reward : forall r g d q, d == 1 -> bellman r g d q == r /\ bellman_ac r g d q == r.
Proof. exact done_target_is_reward_thm. Qed.
Print Assumptions done_target_is_reward.

(* DQN / double DQN, for ARBITRARY online and target networks and every batch: replacing the next
   observation of every done transition by anything at all leaves the minimised loss unchanged. *)
Theorem done_masks_next_dqn : forall (Obs : Type) (Qon Qtg : Obs -> list Q) g double (alt : dtrans Obs -> Obs) batch,
  dqn_loss_net Obs Qon Qtg g double (map (dreplace_next Obs alt) batch) == dqn_loss_net Obs Qon Qtg g double batch.
Proof. exact dqn_done_masks_next_net. Qed.
Print Assumptions done_masks_next_dqn.

Theorem done_masks_next_cqn : forall (Obs : Type) (Qon Qtg : Obs -> list Q) g double (alt : dtrans Obs -> Obs) batch lse,
  cqn_loss_net Obs Qon Qtg g double (map (dreplace_next Obs alt) batch) lse == cqn_loss_net Obs Qon Qtg g double batch lse.
Proof. exact cqn_done_masks_next_net. Qed.
Print Assumptions done_masks_next_cqn.

(* DDPG / TD3 / MADDPG / MATD3 critic loss, for arbitrary target policy, any number of (target) critics,
   any noise, clip and action bounds. *)
Theorem done_masks_next_actor_critic :
  forall (Obs : Type) (PiT : Obs -> list Q) (Crit CritT : list (Obs -> list Q -> Q)) c lo hi g (alt : atrans Obs -> Obs) batch,
  ac_loss_net Obs PiT Crit CritT c lo hi g (map (areplace_next Obs alt) batch) == ac_loss_net Obs PiT Crit CritT c lo hi g batch.
Proof. exact ac_done_masks_next_net. Qed.
Print Assumptions done_masks_next_actor_critic.

(* the same on evaluated rows (this is the form the correspondence check evaluates) *)
Theorem done_masks_next_rows : forall g double n rows rows' arows arows' lse,
  Forall2 drow_same_but_next rows rows' -> Forall2 arow_same_but_next arows arows' ->
  dqn_loss g double rows == dqn_loss g double rows' /\ cqn_loss g double rows lse == cqn_loss g double rows' lse /\
  ac_loss g n arows == ac_loss g n arows'.
Proof. exact done_masks_next_rows_thm. Qed.
Print Assumptions done_masks_next_rows.

(* Rainbow (C51): for a done transition the element-wise cross-entropy depends on the next observation's
   target distribution only through its total mass (which is 1 for every softmax output): any other
   next observation gives the same loss. *)
Theorem done_masks_next_rainbow : forall g vmin vmax dz support x x',
  r_d x == 1 -> r_r x = r_r x' -> r_d x = r_d x' -> r_logp x = r_logp x' ->
  length (r_p x) = length support -> length (r_p x') = length support -> qsum (r_p x) == qsum (r_p x') ->
  rb_elem g vmin vmax dz support x == rb_elem g vmin vmax dz support x'.
Proof. exact rb_elem_done_masks. Qed.
Print Assumptions done_masks_next_rainbow.

(* ... because every cell of the projected distribution is (total mass) x (a weight that depends on the reward only) *)
Theorem rainbow_done_projection : forall g vmin vmax dz r d support p k, d == 1 -> length p = length support ->
  nth k (rb_project g vmin vmax dz r d support p) 0 == qsum p * rb_contrib g vmin vmax dz (length support) r d (0, 1) k.
Proof. exact rb_project_done_cells. Qed.
Print Assumptions rainbow_done_projection.

(* ---------------------------------------------------------------- the loss is the defining expression *)
(* DQN: mean over the batch of (Q(s,a) - (r + gamma (1 - d) V(s')))^2 ... *)
Theorem loss_is_definition_dqn : forall g double rows,
  dqn_loss g double rows ==
  qmean (map (fun x => sq (nthq (d_qe x) (d_a x) - (d_r x + g * (1 - d_d x) * dqn_next double x))) rows).
Proof. exact dqn_loss_is_def. Qed.
Print Assumptions loss_is_definition_dqn.

(* ... where V(s') is the maximum of the target network's row (plain) ... *)
Theorem next_value_plain_is_target_max : forall x, d_qtn x <> [] ->
  In (dqn_next false x) (d_qtn x) /\ Forall (fun q => q <= dqn_next false x) (d_qtn x).
Proof. exact dqn_next_plain_is_max. Qed.
Print Assumptions next_value_plain_is_target_max.

(* ... or the target network's value at the online network's greedy action (double). *)
Theorem next_value_double_is_target_at_online_argmax : forall x, d_qon x <> [] ->
  dqn_next true x = nthq (d_qtn x) (argmax (d_qon x)) /\
  forall j, (j < length (d_qon x))%nat -> nthq (d_qon x) j <= nthq (d_qon x) (argmax (d_qon x)).
Proof. exact dqn_next_double_is_target_at_online_argmax. Qed.
Print Assumptions next_value_double_is_target_at_online_argmax.

Theorem argmax_is_first_maximum : forall l, l <> [] ->
  (argmax l < length l)%nat /\
  (forall j, (j < length l)%nat -> nthq l j <= nthq l (argmax l)) /\
  (forall j, (j < argmax l)%nat -> nthq l j < nthq l (argmax l)).
Proof. exact argmax_spec. Qed.
Print Assumptions argmax_is_first_maximum.

Theorem loss_is_definition_cqn : forall g double rows lse,
  cqn_loss g double rows lse == (qmean lse - qmean (concat (map d_qe rows))) + (1 # 2) * dqn_loss g double rows.
Proof. exact cqn_loss_is_def. Qed.
Print Assumptions loss_is_definition_cqn.

(* actor-critic: one MSE per critic against the same target, built from the minimum of the target critics *)
Theorem loss_is_definition_actor_critic : forall g rows,
  ac_loss g 1 rows == mse (map (fun x => nthq (a_qs x) 0) rows) (map (ac_y g) rows) /\
  ac_loss g 2 rows == mse (map (fun x => nthq (a_qs x) 0) rows) (map (ac_y g) rows)
                    + mse (map (fun x => nthq (a_qs x) 1) rows) (map (ac_y g) rows).
Proof. exact loss_is_definition_actor_critic_thm. Qed.
Print Assumptions loss_is_definition_actor_critic.

Theorem target_uses_min_of_target_critics : forall g x, a_qns x <> [] ->
  ac_y g x == a_r x + (1 - a_d x) * g * qmin_list (a_qns x) /\
  In (qmin_list (a_qns x)) (a_qns x) /\ Forall (fun q => qmin_list (a_qns x) <= q) (a_qns x).
Proof. exact ac_y_uses_min. Qed.
Print Assumptions target_uses_min_of_target_critics.

Theorem next_action_stays_in_box : forall c lo hi pi noise,
  Forall2 Qle lo hi -> length pi = length lo -> length noise = length lo ->
  Forall2 Qle lo (next_action c lo hi pi noise) /\ Forall2 Qle (next_action c lo hi pi noise) hi.
Proof. exact next_action_in_box. Qed.
Print Assumptions next_action_stays_in_box.

(* ---------------------------------------------------------------- soft update *)
(* after soft_update every parameter cell of the target holds tau * online + (1 - tau) * previous,
   the number of cells is unchanged and nothing else of the target changes *)
Theorem soft_update_spec : forall tau online target,
  length (exposed online) = length (exposed target) ->
  (forall i e t, nth_error (exposed online) i = Some e -> nth_error (exposed target) i = Some t ->
                 nth_error (exposed (soft_update tau online target)) i = Some (lerp tau e t)) /\
  length (exposed (soft_update tau online target)) = length (exposed target) /\
  hidden (soft_update tau online target) = hidden target.
Proof. exact soft_update_spec_lemma. Qed.
Print Assumptions soft_update_spec.

(* the target really tracks: its distance to the online value shrinks by (1 - tau), it stays between the two,
   tau = 1 copies the online network *)
Theorem soft_update_tracks : forall tau e t,
  lerp tau e t - e == (1 - tau) * (t - e) /\
  (0 <= tau -> tau <= 1 -> Qmin e t <= lerp tau e t /\ lerp tau e t <= Qmax e t) /\ lerp 1 e t == e.
Proof. exact soft_update_tracks_thm. Qed.
Print Assumptions soft_update_tracks.

(* k consecutive learn calls, any policy delay: every target cell follows the recurrence over the calls that
   update (all of them when policy_freq = 1), whose closed form over those m calls is
   (1 - tau)^m * t0 + tau * sum_j (1 - tau)^(m-j) * online_j *)
Theorem soft_update_k_fold : forall tau pf onlines c target i t,
  nth_error target i = Some t -> Forall (fun e => (i < length e)%nat) onlines ->
  let es := map (fun e => nth i e 0) (select_updates pf c onlines) in
  nth_error (run_soft tau pf c target onlines) i = Some (cell_run tau t es) /\
  cell_run tau t es == qpow (1 - tau) (length es) * t + wsum tau es /\
  select_updates 1 c onlines = onlines.
Proof. exact soft_update_k_fold_thm. Qed.
Print Assumptions soft_update_k_fold.

(* policy delay: over any number of learn calls the targets are soft-updated exactly at the calls whose
   counter is a multiple of policy_freq, (c+k)/pf - c/pf times, and are untouched at the other calls *)
Theorem soft_update_policy_delay : forall tau pf onlines c target,
  run_soft tau pf c target onlines = fold_left (fun t e => soft_zip tau e t) (select_updates pf c onlines) target /\
  ((0 < pf)%nat -> length (select_updates pf c onlines) = ((c + length onlines) / pf - c / pf)%nat) /\
  (forall online, (S c mod pf <> 0)%nat -> delayed_soft tau pf c online target = (S c, target)) /\
  (forall online, (S c mod pf = 0)%nat -> delayed_soft tau pf c online target = (S c, soft_zip tau online target)).
Proof. exact soft_update_policy_delay_thm. Qed.
Print Assumptions soft_update_policy_delay.

(* the pinned (pre-fix) DQN: a target whose tensors are not parameters never moves, even with tau = 1 *)
Theorem soft_update_vacuous_refuted :
  (forall tau online w, weights (soft_update tau online (pinned_dqn_target w)) = w) /\
  exists online w, length (weights online) = length w /\
    ~ Forall2 Qeq (weights (soft_update 1 online (pinned_dqn_target w))) (weights online).
Proof. exact soft_update_vacuous_refuted_thm. Qed.
Print Assumptions soft_update_vacuous_refuted.

(* the pinned Rainbow PER loss (importance weights delivered as a (B,1) column, broadcast to (B,B)) is NOT the
   mean of the individually weighted losses: witness weights [1/4; 1], losses [1; 3] *)
Theorem rainbow_per_broadcast_refuted :
  exists weights elems, length weights = length elems /\
    ~ rb_loss_pinned_broadcast weights elems == rb_loss weights elems.
Proof. exact rainbow_per_broadcast_refuted_lemma. Qed.
Print Assumptions rainbow_per_broadcast_refuted.

(* ... but it coincides with it whenever all importance weights are equal — which is why a test with uniform
   weights cannot see the difference *)
Theorem rainbow_per_broadcast_invisible_for_equal_weights : forall c ws es,
  Forall (fun w => w == c) ws -> length ws = length es -> es <> [] ->
  rb_loss_pinned_broadcast ws es == rb_loss ws es.
Proof. exact rb_loss_pinned_equal_weights. Qed.
Print Assumptions rainbow_per_broadcast_invisible_for_equal_weights.

(* ---------------------------------------------------------------- non-vacuity *)
Example rows_related_nonvacuous :
  let x  := {| d_qe := [1; 2]; d_a := 1%nat; d_r := 3; d_d := 1; d_qon := [5; 0]; d_qtn := [7; 9] |} in
  let x' := {| d_qe := [1; 2]; d_a := 1%nat; d_r := 3; d_d := 1; d_qon := [0; 4]; d_qtn := [100; -3] |} in
  drow_same_but_next x x' /\ dqn_loss (1 # 2) true [x] == 1 /\ dqn_loss (1 # 2) true [x'] == 1.
Proof. split; [repeat split; left; reflexivity|]. split; vm_compute; reflexivity. Qed.

Example loss_values :
  let x := {| d_qe := [1; 2]; d_a := 0%nat; d_r := 1; d_d := 0; d_qon := [5; 0]; d_qtn := [2; 4] |} in
  dqn_loss (1 # 2) false [x] == 4 /\ dqn_loss (1 # 2) true [x] == 1.
Proof. split; vm_compute; reflexivity. Qed.

Example soft_delay_values :
  map Qred (run_soft (1 # 2) 2 0 [0] [[8]; [8]; [8]; [8]]) = [6] /\ select_updates 2 0 [[1]; [2]; [3]; [4]] = [[2]; [4]].
Proof. split; vm_compute; reflexivity. Qed.

(* hypotheses of done_masks_next_rainbow are satisfiable by two genuinely different next distributions,
   and a row that is NOT done distinguishes them *)
Example rainbow_done_nonvacuous :
  let sup := [-2; -1; 0; 1; 2] in
  let x  := {| r_r := 1 # 2; r_d := 1; r_p := [1 # 2; 1 # 2; 0; 0; 0]; r_logp := [-1; -2; -3; -4; -5] |} in
  let x' := {| r_r := 1 # 2; r_d := 1; r_p := [0; 0; 0; 1 # 4; 3 # 4]; r_logp := [-1; -2; -3; -4; -5] |} in
  let y  := {| r_r := 1 # 2; r_d := 0; r_p := r_p x;  r_logp := r_logp x |} in
  let y' := {| r_r := 1 # 2; r_d := 0; r_p := r_p x'; r_logp := r_logp x |} in
  qsum (r_p x) == qsum (r_p x') /\
  rb_elem (1 # 2) (-2) 2 1 sup x == 7 # 2 /\ rb_elem (1 # 2) (-2) 2 1 sup x' == 7 # 2 /\
  ~ rb_elem (1 # 2) (-2) 2 1 sup y == rb_elem (1 # 2) (-2) 2 1 sup y'.
Proof. cbv zeta. repeat split; try (vm_compute; reflexivity). vm_compute. discriminate. Qed.

Example soft_update_values :
  let online := {| exposed := [1; 2]; hidden := [9] |} in
  let target := {| exposed := [0; 4]; hidden := [7] |} in
  map Qred (weights (soft_update (1 # 4) online target)) = [1 # 4; 7 # 2; 7] /\
  Qred (cell_run (1 # 2) 0 [8; 8]) = 6 /\ Qred (qpow (1 - (1 # 2)) 2 * 0 + wsum (1 # 2) [8; 8]) = 6.
Proof. repeat split; vm_compute; reflexivity. Qed.

(* ================================================================ multi-agent learners (deepening round) *)
From Coq Require Import Permutation.
From AgileV Require Import C08.ModelMA C08.ProofsMA.

(* stacking per-agent dictionaries in agent_ids order does not depend on the key order of the dictionaries *)
Theorem stacking_is_key_order_independent : forall ids (d d' : adict),
  NoDup (map fst d) -> Permutation d d' -> stack_ids ids d = stack_ids ids d'.
Proof. exact stack_ids_perm. Qed.
Print Assumptions stacking_is_key_order_independent.

(* MADDPG / MATD3 critic loss (repaired code: observations, actions and next actions all stacked in agent_ids order),
   for arbitrary target actors, any number of (target) critics, every batch: handing the experiences over with the
   dictionaries in any other key order gives the same loss *)
Theorem ma_loss_is_key_order_independent :
  forall ids (PiT : nat -> list Q -> list Q) (Crit CritT : list (list Q -> list Q -> Q)) g batch batch',
  Forall2 mtrans_perm batch batch' ->
  ma_loss_net ids PiT Crit CritT g batch = ma_loss_net ids PiT Crit CritT g batch'.
Proof. exact ma_loss_key_order_independent. Qed.
Print Assumptions ma_loss_is_key_order_independent.

(* done masking for the multi-agent critic loss is the actor-critic theorem on the evaluated rows
   (done_masks_next_rows); the pinned code (actions stacked with list(actions.values())) agrees with the repaired one
   exactly when the action dictionaries are in agent_ids order ... *)
Theorem ma_pinned_stacking_invisible_in_canonical_order :
  forall ids (PiT : nat -> list Q -> list Q) (Crit CritT : list (list Q -> list Q -> Q)) g batch,
  Forall (fun t => map fst (m_a t) = ids /\ NoDup ids) batch ->
  ma_loss_net_pinned ids PiT Crit CritT g batch = ma_loss_net ids PiT Crit CritT g batch.
Proof. exact ma_loss_pinned_canonical. Qed.
Print Assumptions ma_pinned_stacking_invisible_in_canonical_order.

(* ... and is order dependent otherwise *)
Theorem ma_pinned_stacking_order_dependent_refuted :
  exists d d' : adict, Permutation d d' /\ NoDup (map fst d) /\ stack_values d <> stack_values d'.
Proof. exact stack_values_order_dependent_refuted_lemma. Qed.
Print Assumptions ma_pinned_stacking_order_dependent_refuted.

(* MATD3 gates its soft updates with the learn counter of the agent its loop variable was left on; since every learn
   call increments every agent's counter, after any number k of calls from equal counters c this is the single-agent
   delay condition (k + c) mod policy_freq = 0 of soft_update_policy_delay *)
Theorem matd3_gate_is_policy_delay : forall pf c cs k, cs <> [] -> counters_all c cs ->
  matd3_gate pf (Nat.iter k matd3_counters_step cs) = ((k + c) mod pf =? 0)%nat.
Proof. exact matd3_gate_is_delay. Qed.
Print Assumptions matd3_gate_is_policy_delay.

Example ma_key_order_nonvacuous :
  let d  : adict := [(0%nat, [1; 2]); (1%nat, [3])] in
  let d' : adict := [(1%nat, [3]); (0%nat, [1; 2])] in
  Permutation d d' /\ stack_ids [0%nat; 1%nat] d' = [1; 2; 3] /\ stack_values d' = [3; 1; 2] /\
  matd3_gate 2 (Nat.iter 3 matd3_counters_step [(0%nat, 1%nat); (1%nat, 1%nat)]) = true.
Proof. split; [apply perm_swap|]. repeat split; vm_compute; reflexivity. Qed.

(* ================================================================ Rainbow: the clamped, un-renormalised distribution *)
From AgileV Require Import C08.ProofsRB.

(* the element-wise loss of a done row is (total mass of the next observation's target distribution) x (a quantity
   that depends on the reward and the log-probabilities only) ... *)
Theorem rainbow_done_loss_is_mass_times_reward_term : forall g vmin vmax dz support x,
  r_d x == 1 -> length (r_p x) = length support -> length (r_logp x) = length support ->
  rb_elem g vmin vmax dz support x
  == qsum (r_p x) * - qsum (map2 Qmult (rb_unit_cells g vmin vmax dz (length support) (r_r x) (r_d x)) (r_logp x)).
Proof. exact rb_elem_done_is_mass_times_unit. Qed.
Print Assumptions rainbow_done_loss_is_mass_times_reward_term.

(* ... so two done rows that differ only in the next observation have losses in the ratio of those masses *)
Theorem rainbow_done_losses_in_mass_ratio : forall g vmin vmax dz support x x',
  r_d x == 1 -> r_r x = r_r x' -> r_d x = r_d x' -> r_logp x = r_logp x' ->
  length (r_p x) = length support -> length (r_p x') = length support -> length (r_logp x) = length support ->
  rb_elem g vmin vmax dz support x * qsum (r_p x') == rb_elem g vmin vmax dz support x' * qsum (r_p x).
Proof. exact rb_elem_done_ratio. Qed.
Print Assumptions rainbow_done_losses_in_mass_ratio.

(* softmax(...).clamp(min=1e-3) without renormalisation: the mass is between the original one and 1e-3 per atom more;
   renormalising restores mass 1 *)
Theorem rainbow_clamp_mass_bounds : forall p, Forall (fun x => 0 <= x) p ->
  psum p <= psum (clamp_dist p) /\ psum (clamp_dist p) <= psum p + inject_Z (Z.of_nat (length p)) * (1 # 1000).
Proof. exact clamp_dist_mass_bounds. Qed.
Print Assumptions rainbow_clamp_mass_bounds.

Theorem rainbow_renormalised_mass_is_one : forall p, ~ qsum p == 0 -> qsum (renorm p) == 1.
Proof. exact renorm_mass. Qed.
Print Assumptions rainbow_renormalised_mass_is_one.

(* the pinned network: two next observations with proper (mass 1) softmax outputs get different masses from the clamp and
   the done row's loss differs; after renormalisation it does not *)
Theorem rainbow_clamped_mass_leaks_next_obs_refuted :
  exists (p p' logp : list Q) (sup : list Q),
    qsum p == 1 /\ qsum p' == 1 /\ length p = length sup /\ length p' = length sup /\
    let x  := {| r_r := 0; r_d := 1; r_p := clamp_dist p;  r_logp := logp |} in
    let x' := {| r_r := 0; r_d := 1; r_p := clamp_dist p'; r_logp := logp |} in
    ~ rb_elem (1 # 2) (-1) 1 1 sup x == rb_elem (1 # 2) (-1) 1 1 sup x' /\
    rb_elem (1 # 2) (-1) 1 1 sup {| r_r := 0; r_d := 1; r_p := renorm (clamp_dist p); r_logp := logp |}
    == rb_elem (1 # 2) (-1) 1 1 sup {| r_r := 0; r_d := 1; r_p := renorm (clamp_dist p'); r_logp := logp |}.
Proof. exact rainbow_clamped_mass_leaks_next_obs_refuted_lemma. Qed.
Print Assumptions rainbow_clamped_mass_leaks_next_obs_refuted.

(* ================================================================ round 4: learn() must not write into its arguments *)
From AgileV Require Import C08.ProofsR4.

(* a learner that accumulates its Bellman target in place into the caller's reward tensor: the k+1-th call that sees the
   same storage uses  r + gamma(1-d)(Q'_1 + ... + Q'_k) + gamma(1-d)Q'_new ; correct on first use and for terminal
   transitions, wrong otherwise (witness) — whereas the code that never writes uses the defined target on every sweep *)
Theorem inplace_target_accumulates : forall g r d qs q,
  target_inplace g r d qs q == bellman r g d q + g * (1 - d) * psum qs /\
  target_inplace g r d [] q == bellman r g d q /\ (d == 1 -> target_inplace g r d qs q == r) /\
  target_pure g r d qs q == bellman r g d q.
Proof.
  intros g r d qs q.
  exact (conj (target_inplace_closed g r d qs q) (conj (target_inplace_first_use g r d q)
          (conj (target_inplace_terminal g r d qs q) (target_pure_is_bellman g r d qs q)))).
Qed.
Print Assumptions inplace_target_accumulates.

Theorem inplace_target_refuted : exists g r d q1 q2, ~ target_inplace g r d [q1] q2 == bellman r g d q2.
Proof. exact target_inplace_refuted_lemma. Qed.
Print Assumptions inplace_target_refuted.

(* ================================================================ round 5: a learn() call that raises is a no-op *)
From AgileV Require Import C08.ProofsR5.

(* any history of completed and failed learn calls, any policy delay: counter and targets after it are those of the
   history with the failed calls removed (so the targets move exactly at every policy_freq-th COMPLETED call) *)
Theorem failed_calls_are_noops : forall tau pf cs c t,
  run_calls tau pf c t cs = (c + length (completed cs), run_soft tau pf c t (completed cs))%nat.
Proof. exact failed_calls_are_noops_lemma. Qed.
Print Assumptions failed_calls_are_noops.

(* the seeded change v2 (phase counter advanced at the top of learn) agrees with this on histories without failures ... *)
Theorem counter_first_same_without_failures : forall tau pf es c t,
  run_calls_v2 tau pf c t (map Done es) = run_calls tau pf c t (map Done es).
Proof. exact v2_same_without_failures. Qed.
Print Assumptions counter_first_same_without_failures.

(* ... and shifts the phase after a failed call (witness: policy_freq 2, [Raised; Done; Done]) *)
Theorem counter_first_shifts_phase_refuted :
  exists tau pf t e1 e2,
    snd (run_calls tau pf 0 t [Raised; Done e1; Done e2]) <> snd (run_calls_v2 tau pf 0 t [Raised; Done e1; Done e2]) /\
    snd (run_calls tau pf 0 t [Done e1; Done e2]) = snd (run_calls_v2 tau pf 0 t [Done e1; Done e2]).
Proof. exact v2_shifts_phase_refuted_lemma. Qed.
Print Assumptions counter_first_shifts_phase_refuted.
