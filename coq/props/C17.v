(* C17 — property theorems only. Each is closed by [exact] of a lemma proved in C17/Proofs.v. *)
From Coq Require Import List Arith ZArith QArith Lia Permutation.
Import ListNotations.
From AgileV Require Import C17.Model C17.Proofs.
Local Open Scope Q_scope.

(* The backward loop computes the generalised advantage estimate of the property: for every rollout length,
   gamma, lambda, rewards, values, dones, next_value, next_done, the t-th advantage is A_t with
   A_t = delta_t + gamma lambda (1 - d_{t+1}) A_{t+1},  delta_t = r_t + gamma V_{t+1} (1 - d_{t+1}) - V_t,
   where V_T = next_value and d_T = next_done (ext appends them), and A_T = 0. *)
Theorem gae_is_def : forall g l rs vs ds nv nd t,
  length rs = length vs -> length rs = length ds ->
  nth t (advs_of (gae_col g l rs vs ds nv nd)) 0 ==
  adv_def g l (fun i => nth i rs 0) (ext vs nv) (ext ds nd) (length rs - t) t.
Proof. exact gae_is_def_lemma. Qed.
Print Assumptions gae_is_def.

(* the same, as one unfolding of the recursion in the words of the property *)
Theorem gae_recursion : forall g l rs vs ds nv nd t,
  length rs = length vs -> length rs = length ds -> (t < length rs)%nat ->
  let A := fun t => nth t (advs_of (gae_col g l rs vs ds nv nd)) 0 in
  let V := ext vs nv in let d := ext ds nd in
  A t == (nth t rs 0 + g * V (S t) * (1 - d (S t)) - V t) + g * l * (1 - d (S t)) * A (S t)
  /\ A (length rs) == 0.
Proof. exact gae_unfold_lemma. Qed.
Print Assumptions gae_recursion.

(* The loop as the code runs it (whole rows of all environments / agents at once) is that recursion in every
   column: column c of the advantages is the estimate computed from column c of rewards, values, dones and
   entry c of next_value, next_done. *)
Theorem gae_rows_is_columnwise : forall g l C rs vs ds nv nd c,
  wf C rs -> wf C vs -> wf C ds -> length nv = C -> length nd = C ->
  length rs = length vs -> length rs = length ds -> (c < C)%nat ->
  col 0 c (advs_of (gae_rows g l rs vs ds nv nd)) =
    advs_of (gae_col g l (col 0 c rs) (col 0 c vs) (col 0 c ds) (nth c nv 0) (nth c nd 0))
  /\ wf C (advs_of (gae_rows g l rs vs ds nv nd))
  /\ length (advs_of (gae_rows g l rs vs ds nv nd)) = length rs.
Proof. exact gae_rows_col_advs. Qed.
Print Assumptions gae_rows_is_columnwise.

(* ... hence, for the tensor the code calls `advantages`: entry [t][c] is the estimate A_t of column c, for every
   number of columns (environments, agents x environments), every rollout length, gamma and lambda *)
Theorem gae_rows_is_def : forall g l C rs vs ds nv nd c t,
  wf C rs -> wf C vs -> wf C ds -> length nv = C -> length nd = C ->
  length rs = length vs -> length rs = length ds -> (c < C)%nat -> (t < length rs)%nat ->
  nth c (nth t (advs_of (gae_rows g l rs vs ds nv nd)) []) 0 ==
  adv_def g l (fun i => nth c (nth i rs []) 0)
              (ext (col 0 c vs) (nth c nv 0)) (ext (col 0 c ds) (nth c nd 0)) (length rs - t) t.
Proof. exact gae_rows_is_def_lemma. Qed.
Print Assumptions gae_rows_is_def.

(* Episode boundaries, one column, split form: if a new episode starts right after the block r1 (the done flag
   that follows it is 1), the estimates of r1 do not depend on anything that comes after it
   (rewards, values, dones, rollout length, next_value, next_done). *)
Theorem gae_no_leak : forall g l r1 v1 d1 r2 v2 d2 nv nd r2' v2' d2' nv' nd',
  length r1 = length v1 -> length r1 = length d1 -> r1 <> [] ->
  length r2 = length v2 -> length r2 = length d2 ->
  length r2' = length v2' -> length r2' = length d2' ->
  bd d2 nd == 1 -> bd d2' nd' == 1 ->
  eqlQ (firstn (length r1) (advs_of (gae_col g l (r1 ++ r2) (v1 ++ v2) (d1 ++ d2) nv nd)))
       (firstn (length r1) (advs_of (gae_col g l (r1 ++ r2') (v1 ++ v2') (d1 ++ d2') nv' nd'))).
Proof. exact gae_no_leak_lemma. Qed.
Print Assumptions gae_no_leak.

(* Episode boundaries for whole rollouts: two rollouts (possibly of different lengths) that agree in column c up
   to step k, and in which a new episode starts at k+1 in that column, have the same estimates in column c up to
   step k — whatever the later steps and all other columns (environments, agents) contain. *)
Theorem gae_rows_no_leak : forall g l C rs vs ds nv nd rs' vs' ds' nv' nd' c k,
  wf C rs -> wf C vs -> wf C ds -> length nv = C -> length nd = C -> length rs = length vs -> length rs = length ds ->
  wf C rs' -> wf C vs' -> wf C ds' -> length nv' = C -> length nd' = C -> length rs' = length vs' -> length rs' = length ds' ->
  (c < C)%nat -> (k < length rs)%nat -> (k < length rs')%nat ->
  firstn (S k) (col 0 c rs) = firstn (S k) (col 0 c rs') ->
  firstn (S k) (col 0 c vs) = firstn (S k) (col 0 c vs') ->
  firstn (S k) (col 0 c ds) = firstn (S k) (col 0 c ds') ->
  ext (col 0 c ds) (nth c nd 0) (S k) == 1 -> ext (col 0 c ds') (nth c nd' 0) (S k) == 1 ->
  eqlQ (firstn (S k) (col 0 c (advs_of (gae_rows g l rs vs ds nv nd))))
       (firstn (S k) (col 0 c (advs_of (gae_rows g l rs' vs' ds' nv' nd')))).
Proof. exact gae_rows_no_leak_lemma. Qed.
Print Assumptions gae_rows_no_leak.

Theorem gae_columns_independent : forall g l C rs vs ds nv nd rs' vs' ds' nv' nd' c,
  wf C rs -> wf C vs -> wf C ds -> length nv = C -> length nd = C -> length rs = length vs -> length rs = length ds ->
  wf C rs' -> wf C vs' -> wf C ds' -> length nv' = C -> length nd' = C -> length rs' = length vs' -> length rs' = length ds' ->
  (c < C)%nat ->
  col 0 c rs = col 0 c rs' -> col 0 c vs = col 0 c vs' -> col 0 c ds = col 0 c ds' ->
  nth c nv 0 = nth c nv' 0 -> nth c nd 0 = nth c nd' 0 ->
  col 0 c (advs_of (gae_rows g l rs vs ds nv nd)) = col 0 c (advs_of (gae_rows g l rs' vs' ds' nv' nd')).
Proof. exact gae_rows_columns_independent_lemma. Qed.
Print Assumptions gae_columns_independent.

(* PPO.learn, rows handed to the minibatch loop: row e*T + t holds the observation, action and old log-prob of
   (step t, env e), the estimate A_t of env e, the return A_t + V_t and the old value V_t. *)
Theorem ppo_rows_aligned : forall E g l obs act lp R V D nv nd T,
  length R = T -> length V = T -> length D = T -> length obs = T -> length act = T -> length lp = T ->
  wf E R -> wf E V -> wf E D -> length nv = E -> length nd = E ->
  forall t e, (t < T)%nat -> (e < E)%nat ->
  nth (e * T + t) (ppo_rows true E g l obs act lp R V D nv nd) dflt6 =
    let A := nth t (advs_of (gae_col g l (col 0 e R) (col 0 e V) (col 0 e D) (nth e nv 0) (nth e nd 0))) 0 in
    let v := nth e (nth t V []) 0 in
    (nth e (nth t obs []) 0%Z, nth e (nth t act []) 0%Z, nth e (nth t lp []) 0%Z, A, A + v, v).
Proof. exact ppo_rows_spec_lemma. Qed.
Print Assumptions ppo_rows_aligned.

(* ... these are all the rows, each position of the rollout in exactly one of them *)
Theorem ppo_rows_complete : forall E g l obs act lp R V D nv nd T,
  length R = T -> length V = T -> length D = T -> length obs = T -> length act = T -> length lp = T ->
  wf E R -> wf E V -> wf E D -> length nv = E -> length nd = E -> (0 < E)%nat ->
  length (ppo_rows true E g l obs act lp R V D nv nd) = (E * T)%nat.
Proof. exact ppo_rows_length. Qed.
Print Assumptions ppo_rows_complete.

Theorem ppo_row_index_bijective : forall T E r, (r < E * T)%nat ->
  exists t e, (t < T)%nat /\ (e < E)%nat /\ r = (e * T + t)%nat /\
  forall t' e', (t' < T)%nat -> r = (e' * T + t')%nat -> t' = t /\ e' = e.
Proof. exact ppo_index_bij. Qed.
Print Assumptions ppo_row_index_bijective.

(* rollouts without an environment axis are not reshaped: the same rows as with one environment *)
Theorem ppo_rows_unvectorised : forall g l obs act lp R V D nv nd,
  ppo_rows false 1 g l obs act lp R V D nv nd = ppo_rows true 1 g l obs act lp R V D nv nd.
Proof. exact ppo_rows_unvectorised_lemma. Qed.
Print Assumptions ppo_rows_unvectorised.

(* IPPO._learn_individual for nA agents sharing a policy: row a*(T*E) + t*E + e holds the observation, action and old
   log-prob of (agent a, step t, env e), the estimate A_t of that agent in that env — bootstrapped from that agent's
   next value and next_done in that env — the return A_t + V_t and the old value V_t. *)
Theorem ippo_rows_aligned : forall nA E T g l obs act lp R V D nv nd,
  length R = nA -> length V = nA -> length D = nA -> length obs = nA -> length act = nA -> length lp = nA ->
  length nv = nA -> length nd = nA ->
  wf3 T E R -> wf3 T E V -> wf3 T E D -> wf3 T E obs -> wf3 T E act -> wf3 T E lp ->
  Forall (fun x => length x = E) nv -> Forall (fun x => length x = E) nd ->
  forall a t e, (a < nA)%nat -> (t < T)%nat -> (e < E)%nat ->
  nth (a * (T * E) + (t * E + e)) (ippo_rows nA E T g l obs act lp R V D nv nd) dflt6 =
    let cq := fun Ms : list (list (list Q)) => col 0 e (nth a Ms []) in
    let A := nth t (advs_of (gae_col g l (cq R) (cq V) (cq D) (nth e (nth a nv []) 0) (nth e (nth a nd []) 0))) 0 in
    let v := nth e (nth t (nth a V []) []) 0 in
    (nth e (nth t (nth a obs []) []) 0%Z, nth e (nth t (nth a act []) []) 0%Z, nth e (nth t (nth a lp []) []) 0%Z,
     A, A + v, v).
Proof. exact ippo_rows_spec_lemma. Qed.
Print Assumptions ippo_rows_aligned.

Theorem ippo_row_index_bijective : forall nA T E r, (r < nA * (T * E))%nat ->
  exists a t e, (a < nA)%nat /\ (t < T)%nat /\ (e < E)%nat /\ r = (a * (T * E) + (t * E + e))%nat /\
  forall a' t' e', (t' < T)%nat -> (e' < E)%nat -> r = (a' * (T * E) + (t' * E + e'))%nat -> a' = a /\ t' = t /\ e' = e.
Proof. exact ippo_index_bij. Qed.
Print Assumptions ippo_row_index_bijective.

(* the two flattening routes of IPPO agree: per-agent data sent through concatenate_experiences_into_batches
   (observations, actions) and through vectorize_experiences_by_agent + flatten_by_agent (log-probs, values,
   advantages) end up in the same row *)
Theorem ippo_two_routes_agree : forall (X : Type) (d : X) T E (Ms : list (list (list X))) a t e,
  wf3 T E Ms -> (a < length Ms)%nat -> (t < T)%nat -> (e < E)%nat ->
  nth (a * (T * E) + (t * E + e)) (flat_obs Ms) d = nth e (nth t (nth a Ms []) []) d /\
  nth (a * (T * E) + (t * E + e)) (flat_ippo d (length Ms) E (vectorize T Ms)) d = nth e (nth t (nth a Ms []) []) d.
Proof. exact ippo_two_routes_lemma. Qed.
Print Assumptions ippo_two_routes_agree.

(* get_experiences_samples indexes all six tensors with the same index array: a minibatch consists of whole rows *)
Theorem minibatch_rows_aligned : forall idx a b c d e f,
  length b = length a -> length c = length a -> length d = length a -> length e = length a -> length f = length a ->
  Forall (fun i => (i < length a)%nat) idx ->
  minibatch idx a b c d e f = gather dflt6 idx (combine6 a b c d e f).
Proof. exact minibatch_rows_lemma. Qed.
Print Assumptions minibatch_rows_aligned.

(* Inside a minibatch: position j of the six tensors the loss works on belongs to row idx[j]; normalising the advantages
   (shift and scale by numbers m, s that depend on the whole minibatch — any functions) changes the value, not the row. *)
Theorem minibatch_body_rows_aligned : forall m s idx a b c d e f j,
  length b = length a -> length c = length a -> length d = length a -> length e = length a -> length f = length a ->
  Forall (fun i => (i < length a)%nat) idx -> (j < length idx)%nat ->
  let i := nth j idx 0%nat in
  let batch_advs := gather 0 idx d in
  nth j (minibatch_body m s idx a b c d e f) dflt6 =
    (nth i a 0%Z, nth i b 0%Z, nth i c 0%Z, (nth i d 0 - m batch_advs) * s batch_advs, nth i e 0, nth i f 0).
Proof. exact minibatch_body_lemma. Qed.
Print Assumptions minibatch_body_rows_aligned.

(* The epoch / minibatch loop: whatever the shuffles (any permutations p_k, applied in place one after the other) and
   whatever batch_size >= 1 (dividing the number of rows or not), every epoch hands every row index to exactly one
   minibatch (the minibatches of an epoch, concatenated, are a permutation of 0..N-1), no minibatch is empty or larger
   than batch_size, there is one epoch per shuffle.  With minibatch_rows_aligned: every estimate, old log-prob and old
   value is used, in every epoch, exactly once and together with its own observation and action. *)
Theorem every_epoch_visits_every_row_once : forall N B perms, (1 <= B)%nat ->
  Forall (fun p => Permutation p (seq 0 N)) perms ->
  Forall (fun ep => Permutation (concat ep) (seq 0 N) /\ Forall (fun c => (1 <= length c <= B)%nat) ep)
         (learn_minibatch_idxs N B perms).
Proof. exact learn_minibatches_lemma. Qed.
Print Assumptions every_epoch_visits_every_row_once.

Theorem one_epoch_per_shuffle : forall N B perms, length (learn_minibatch_idxs N B perms) = length perms.
Proof. exact learn_minibatches_count. Qed.
Print Assumptions one_epoch_per_shuffle.

(* range(0, N, batch_size) slicing: the slices concatenate to the array, all but the last have batch_size entries *)
Theorem minibatch_slices : forall B l, (1 <= B)%nat ->
  concat (chunks B l) = l /\
  forall i, (S i < length (chunks B l))%nat -> length (nth i (chunks B l) []) = B.
Proof. exact minibatch_slices_lemma. Qed.
Print Assumptions minibatch_slices.

(* The training loops record, at step t, the done flag returned by the previous step (zeros at the start of
   a rollout) and pass the last one as next_done; so the flag d_{t+1} of the recursion is the flag the
   environment returned for step t: "the episode ended with step t, a new one starts at t+1". *)
Theorem done_convention : forall env_dones t,
  let '(ds, nd) := record_dones 0 env_dones in
  ext ds nd (S t) = nth t env_dones 0 /\ length ds = length env_dones.
Proof. exact done_convention_lemma. Qed.
Print Assumptions done_convention.

(* Both halves composed, in the words of the property: if the environment ended an episode with step k (of one
   column), then the estimates of steps 0..k computed from the rollout recorded by the training loop depend only on the
   rewards and values of steps 0..k and the flags of steps 0..k-1 — on nothing that follows the start of the new
   episode (later rewards, values, flags, rollout length, next_value). *)
Theorem episode_end_cuts_estimates : forall g l rs vs env_dones nv rs' vs' env_dones' nv' k,
  length rs = length vs -> length rs = length env_dones ->
  length rs' = length vs' -> length rs' = length env_dones' ->
  (k < length rs)%nat -> (k < length rs')%nat ->
  firstn (S k) rs = firstn (S k) rs' -> firstn (S k) vs = firstn (S k) vs' ->
  firstn k env_dones = firstn k env_dones' ->
  nth k env_dones 0 == 1 -> nth k env_dones' 0 == 1 ->
  let '(ds, nd) := record_dones 0 env_dones in
  let '(ds', nd') := record_dones 0 env_dones' in
  eqlQ (firstn (S k) (advs_of (gae_col g l rs vs ds nv nd)))
       (firstn (S k) (advs_of (gae_col g l rs' vs' ds' nv' nd'))).
Proof. exact episode_end_cuts_estimates_lemma. Qed.
Print Assumptions episode_end_cuts_estimates.

(* The estimate as a function of its inputs.  Homogeneity: scaling rewards, values and the bootstrap value by any c
   scales every estimate by c — nothing in the recursion clips, normalises or depends on the magnitude. *)
Theorem gae_scale : forall g l c rs vs ds nv nd t,
  length rs = length vs -> length rs = length ds ->
  nth t (advs_of (gae_col g l (map (Qmult c) rs) (map (Qmult c) vs) ds (c * nv) nd)) 0 ==
  c * nth t (advs_of (gae_col g l rs vs ds nv nd)) 0.
Proof. exact gae_scale_lemma. Qed.
Print Assumptions gae_scale.

(* lambda = 0: the one-step TD error *)
Theorem gae_lambda0_is_td_error : forall g rs vs ds nv nd t,
  length rs = length vs -> length rs = length ds -> (t < length rs)%nat ->
  nth t (advs_of (gae_col g 0 rs vs ds nv nd)) 0 ==
  nth t rs 0 + g * ext vs nv (S t) * (1 - ext ds nd (S t)) - ext vs nv t.
Proof. exact gae_lambda0_lemma. Qed.
Print Assumptions gae_lambda0_is_td_error.

(* an episode end right after step t: the estimate is r_t - V_t, whatever gamma, lambda and the rest of the rollout *)
Theorem gae_at_episode_end : forall g l rs vs ds nv nd t,
  length rs = length vs -> length rs = length ds -> (t < length rs)%nat ->
  ext ds nd (S t) == 1 ->
  nth t (advs_of (gae_col g l rs vs ds nv nd)) 0 == nth t rs 0 - ext vs nv t.
Proof. exact gae_all_done_lemma. Qed.
Print Assumptions gae_at_episode_end.

(* gamma = lambda = 1, no episode end in the rollout: the sum of the remaining rewards plus the bootstrap value, minus V_t *)
Theorem gae_monte_carlo : forall rs vs ds nv nd t,
  length rs = length vs -> length rs = length ds -> (t < length rs)%nat ->
  Forall (fun x => x == 0) ds -> nd == 0 ->
  nth t (advs_of (gae_col 1 1 rs vs ds nv nd)) 0 ==
  rsum (fun i => nth i rs 0) (length rs - t) t + nv - nth t vs 0.
Proof. exact gae_monte_carlo_lemma. Qed.
Print Assumptions gae_monte_carlo.

(* Rollout lists whose entries have different Python / numpy number types (int or bool first, floats later): np.stack
   converts them to the common type, which keeps every recorded VALUE; so the estimates are those of the recorded values,
   whatever the types were. *)
Theorem stack_keeps_values : forall l, map num_val (stack_nums l) = map num_val l.
Proof. exact stack_nums_values. Qed.
Print Assumptions stack_keeps_values.

Theorem gae_after_stack : forall g l rs vs ds nv nd,
  gae_col g l (map num_val (stack_nums rs)) (map num_val (stack_nums vs)) (map num_val (stack_nums ds)) nv nd =
  gae_col g l (map num_val rs) (map num_val vs) (map num_val ds) nv nd.
Proof. exact gae_after_stack_lemma. Qed.
Print Assumptions gae_after_stack.

(* a stacking that keeps the type of the first entry truncates later fractional entries: different estimates *)
Theorem stack_first_kind_refuted :
  exists rs : list num,
    map num_val (stack_first_kind rs) <> map num_val rs /\
    let zeros := [0; 0; 0; 0] in
    nth 0 (advs_of (gae_col 1 1 (map num_val (stack_first_kind rs)) zeros zeros 0 0)) 0 == 1 /\
    nth 0 (advs_of (gae_col 1 1 (map num_val (stack_nums rs)) zeros zeros 0 0)) 0 == 9 # 4.
Proof. exact stack_first_kind_wrong. Qed.
Print Assumptions stack_first_kind_refuted.

(* behaviours that violate the property (each found on a tree of /repo, see DESIGN / design.d/C17.md) *)
Theorem ippo_old_order_refuted :
  exists (obs : list (list (list Z))) (R : list (list (list Q))) (nv : list (list Q)),
    wf3 2 1 obs /\ wf3 2 1 R /\
    match nth 1 (ippo_rows_old 2 1 2 1 1 obs obs obs R R R nv nv) dflt6 with
    | (o, a, lp, _, _, _) => o = 65%Z /\ a = 65%Z /\ lp = 9%Z
    end.
Proof. exact ippo_old_order_misaligned. Qed.
Print Assumptions ippo_old_order_refuted.

Theorem ippo_next_done_order_refuted :
  exists (tg : list (list (list Z))) (R V D : list (list (list Q))) (nv nd : list (list Q)),
    wf3 1 2 R /\ wf3 1 2 V /\ wf3 1 2 D /\ Forall (fun x => length x = 2%nat) nv /\ Forall (fun x => length x = 2%nat) nd /\
    match nth 1 (ippo_rows_pinned 2 2 1 1 1 tg tg tg R V D nv nd) dflt6,
          nth 1 (ippo_rows 2 2 1 1 1 tg tg tg R V D nv nd) dflt6 with
    | (o, _, _, adv, _, _), (o', _, _, adv', _, _) => o = 2%Z /\ o' = 2%Z /\ adv == 0 /\ adv' == 1 /\ ~ adv == adv'
    end.
Proof. exact ippo_next_done_pinned_wrong. Qed.
Print Assumptions ippo_next_done_order_refuted.

(* ... and exactly there: with one agent per policy, or with one environment, the pinned layout is the right one *)
Theorem ippo_next_done_order_invisible_when : forall nA E T g l obs act lp R V D nv nd,
  (nA = 1%nat /\ (exists x, nd = [x] /\ length x = E)) \/ (E = 1%nat /\ Forall (fun x => length x = 1%nat) nd) ->
  ippo_rows_pinned nA E T g l obs act lp R V D nv nd = ippo_rows nA E T g l obs act lp R V D nv nd.
Proof. exact ippo_pinned_same_when_one_agent_or_env. Qed.
Print Assumptions ippo_next_done_order_invisible_when.

(* non-vacuity: concrete rollouts satisfy the hypotheses; the estimates are the expected numbers *)
Example gae_example :
  (* gamma = 1/2, lambda = 1, r = [1;1;1], V = [0;0;0], episode ends after step 1 (d_2 = 1), next_value = 8 *)
  advs_of (gae_col (1#2) 1 [1; 1; 1] [0; 0; 0] [0; 0; 1] 8 0) = [adv_step (1#2) 1 1 0 0 0 (adv_step (1#2) 1 1 0 0 1 (adv_step (1#2) 1 1 0 8 0 0));
                                                                   adv_step (1#2) 1 1 0 0 1 (adv_step (1#2) 1 1 0 8 0 0);
                                                                   adv_step (1#2) 1 1 0 8 0 0]
  /\ nth 0 (advs_of (gae_col (1#2) 1 [1; 1; 1] [0; 0; 0] [0; 0; 1] 8 0)) 0 == 3#2
  /\ nth 2 (advs_of (gae_col (1#2) 1 [1; 1; 1] [0; 0; 0] [0; 0; 1] 8 0)) 0 == 5.
Proof. repeat split; reflexivity. Qed.

Example no_leak_nonvacuous :
  eqlQ (firstn 2 (advs_of (gae_col (1#2) 1 ([1; 1] ++ [1]) ([0; 0] ++ [0]) ([0; 0] ++ [1]) 8 0)))
       (firstn 2 (advs_of (gae_col (1#2) 1 ([1; 1] ++ [7; 7]) ([0; 0] ++ [3; 3]) ([0; 0] ++ [1; 0]) 100 1))).
Proof. apply (gae_no_leak (1#2) 1 [1; 1] [0; 0] [0; 0]); try reflexivity; discriminate. Qed.

Example episode_end_nonvacuous :
  (* the environment ends an episode with step 1; everything afterwards differs, also the rollout length *)
  let '(ds, nd) := record_dones 0 [0; 1; 0] in
  let '(ds', nd') := record_dones 0 [0; 1; 1; 0; 1] in
  eqlQ (firstn 2 (advs_of (gae_col (1#2) (3#4) [1; 2; 3] [4; 5; 6] ds 7 nd)))
       (firstn 2 (advs_of (gae_col (1#2) (3#4) [1; 2; 9; 9; 9] [4; 5; 8; 8; 8] ds' 70 nd'))).
Proof.
  apply (episode_end_cuts_estimates (1#2) (3#4) [1; 2; 3] [4; 5; 6] [0; 1; 0] 7 [1; 2; 9; 9; 9] [4; 5; 8; 8; 8] [0; 1; 1; 0; 1] 70 1);
    try reflexivity; cbn; lia.
Qed.

Example special_cases_example :
  (* r = [1;2;3], V = [4;5;6], next value 7: Monte-Carlo estimate at t = 0 is 1+2+3+7-4 = 9; with lambda = 0 and
     gamma = 1/2 it is 1 + 5/2 - 4; scaled by 1024 it is 1024 times as large *)
  nth 0 (advs_of (gae_col 1 1 [1; 2; 3] [4; 5; 6] [0; 0; 0] 7 0)) 0 == 9 /\
  nth 0 (advs_of (gae_col (1#2) 0 [1; 2; 3] [4; 5; 6] [0; 0; 0] 7 0)) 0 == -(1#2) /\
  nth 0 (advs_of (gae_col 1 1 (map (Qmult 1024) [1; 2; 3]) (map (Qmult 1024) [4; 5; 6]) [0; 0; 0] (1024 * 7) 0)) 0 == 9216.
Proof. repeat split; reflexivity. Qed.

Example minibatches_example :
  (* 5 rows, batch_size 2, two epochs; the second shuffle acts on the already shuffled array *)
  learn_minibatch_idxs 5 2 [[4; 0; 3; 1; 2]; [1; 0; 2; 4; 3]]%nat = [[[4; 0]; [3; 1]; [2]]; [[0; 4]; [3; 2]; [1]]]%nat.
Proof. reflexivity. Qed.

Example ippo_rows_example :
  (* T = 2, two agents, one env: rows are (agent 0, t 0), (agent 0, t 1), (agent 1, t 0), (agent 1, t 1) *)
  map (fun r => match r with (o, _, lp, _, _, v) => (o, lp, v) end)
      (ippo_rows 2 1 2 1 1 [[[1%Z]; [65%Z]]; [[9%Z]; [73%Z]]] [[[1%Z]; [65%Z]]; [[9%Z]; [73%Z]]] [[[1%Z]; [65%Z]]; [[9%Z]; [73%Z]]]
                 [[[0]; [0]]; [[0]; [0]]] [[[1]; [2]]; [[3]; [4]]] [[[0]; [0]]; [[0]; [0]]] [[0]; [0]] [[0]; [0]])
  = [(1%Z, 1%Z, 1); (65%Z, 65%Z, 2); (9%Z, 9%Z, 3); (73%Z, 73%Z, 4)].
Proof. reflexivity. Qed.
