(* C03 — property theorems only. Each is closed by [exact] of a lemma proved in C03/Proofs*.v. *)
From Coq Require Import List ZArith Bool String Lia.
Import ListNotations.
From AgileV Require Import C03.Model C03.ModelCnn C03.ModelNet C03.ModelMulti C03.ModelMulti2 C03.ModelCnn3d C03.Proofs C03.ProofsS C03.ProofsCnn C03.ProofsCnn2 C03.ProofsCnn3 C03.ProofsCnnFix C03.ProofsChains C03.ProofsNet C03.ProofsMulti C03.ProofsMulti2 C03.ProofsShape C03.ProofsShapeCnn.
Local Open Scope Z_scope.

(* ======================= EvolvableMLP ======================= *)
(* One mutation call (any advertised method, any arguments >= 0, any draws) keeps the number of layers
   and every layer width inside the declared bounds. *)
Theorem bounds_inv_mlp : forall c h m r1 r2,
  1 <= m_min_layers c -> mlp_meth_ok m -> mlp_in_bounds c h -> mlp_in_bounds c (arch_of (mlp_step c h m r1 r2)).
Proof. exact mlp_bounds_inv. Qed.
Print Assumptions bounds_inv_mlp.

(* ... and so does every chain of mutation calls. *)
Theorem bounds_chain_mlp : forall c, 1 <= m_min_layers c -> forall ops h,
  Forall mlp_op_ok ops -> mlp_in_bounds c h -> mlp_in_bounds c (mlp_run c h ops).
Proof. exact mlp_bounds_chain. Qed.
Print Assumptions bounds_chain_mlp.

(* A start outside the bounds never moves further out (per quantity). *)
Theorem never_further_out_mlp : forall c h m r1 r2,
  mlp_meth_ok m -> h <> [] ->
  let h' := arch_of (mlp_step c h m r1 r2) in
  Forall (between (lmin h (m_min_nodes c)) (lmax h (m_max_nodes c))) h' /\
  Z.min (zlen h) (m_min_layers c) <= zlen h' <= Z.max (zlen h) (m_max_layers c).
Proof. exact mlp_never_further_out. Qed.
Print Assumptions never_further_out_mlp.

(* The architecture stays constructible: at least one hidden layer, every width positive. *)
Theorem valid_inv_mlp : forall c h m r1 r2,
  1 <= m_min_layers c -> 0 <= m_min_nodes c -> mlp_meth_ok m -> mlp_valid h ->
  mlp_valid (arch_of (mlp_step c h m r1 r2)).
Proof. exact mlp_valid_inv. Qed.
Print Assumptions valid_inv_mlp.

Theorem valid_chain_mlp : forall c, 1 <= m_min_layers c -> 0 <= m_min_nodes c -> forall ops h,
  Forall mlp_op_ok ops -> mlp_valid h -> mlp_valid (mlp_run c h ops).
Proof. exact mlp_valid_chain. Qed.
Print Assumptions valid_chain_mlp.

(* After every chain the torch module is the one built for the current descriptor, and the constructor
   description (init_dict) is accepted by the constructor and rebuilds exactly that module
   (same parameter names and shapes = strict load_state_dict succeeds). *)
Theorem rebuild_exact_mlp : forall s c h0 ops,
  mlp_cfg_ok s c -> mlp_valid h0 -> Forall mlp_op_ok ops ->
  let st := mlp_state_run s c (mlp_build s h0) ops in
  mlp_of_ctor (mlp_ctor_of s c st) = Some st /\ mlp_built st = mlp_shapes s (mlp_hidden st).
Proof. exact mlp_rebuild_exact. Qed.
Print Assumptions rebuild_exact_mlp.

(* Advertised mutations are effective when not stopped by a bound; the method reported as applied is
   the one that was applied (add_layer / remove_layer fall back on add_node at the bound). *)
Theorem add_layer_effective_mlp : forall c h r1 r2,
  zlen h < m_max_layers c ->
  mlp_step c h MAddLayer r1 r2 = (h ++ [last h 0], "add_layer"%string, []) /\
  zlen (arch_of (mlp_step c h MAddLayer r1 r2)) = zlen h + 1.
Proof. exact mlp_add_layer_effective. Qed.
Print Assumptions add_layer_effective_mlp.

Theorem add_layer_fallback_mlp : forall c h r1 r2,
  m_max_layers c <= zlen h ->
  mlp_step c h MAddLayer r1 r2 = mlp_add_node c h None None r1 r2 /\
  name_of (mlp_step c h MAddLayer r1 r2) = "add_node"%string.
Proof. exact mlp_add_layer_fallback. Qed.
Print Assumptions add_layer_fallback_mlp.

Theorem remove_layer_effective_mlp : forall c h r1 r2,
  m_min_layers c < zlen h ->
  mlp_step c h MRemoveLayer r1 r2 = (removelast h, "remove_layer"%string, []) /\
  (h <> [] -> zlen (arch_of (mlp_step c h MRemoveLayer r1 r2)) = zlen h - 1).
Proof. exact mlp_remove_layer_effective. Qed.
Print Assumptions remove_layer_effective_mlp.

Theorem remove_layer_fallback_mlp : forall c h r1 r2,
  zlen h <= m_min_layers c ->
  mlp_step c h MRemoveLayer r1 r2 = mlp_add_node c h None None r1 r2 /\
  name_of (mlp_step c h MRemoveLayer r1 r2) = "add_node"%string.
Proof. exact mlp_remove_layer_fallback. Qed.
Print Assumptions remove_layer_fallback_mlp.

Theorem add_node_effective_mlp : forall c h hl nn r1 r2,
  let '(i, n) := mlp_node_args h hl nn r1 r2 in
  0 <= i < zlen h -> znth h i + n <= m_max_nodes c ->
  let h' := arch_of (mlp_step c h (MAddNode hl nn) r1 r2) in
  znth h' i = znth h i + n /\ (forall j, j <> Z.to_nat i -> nth j h' 0 = nth j h 0) /\ zlen h' = zlen h /\
  name_of (mlp_step c h (MAddNode hl nn) r1 r2) = "add_node"%string /\ (0 < n -> h' <> h).
Proof. exact mlp_add_node_effective. Qed.
Print Assumptions add_node_effective_mlp.

Theorem remove_node_effective_mlp : forall c h hl nn r1 r2,
  let '(i, n) := mlp_node_args h hl nn r1 r2 in
  0 <= i < zlen h -> m_min_nodes c < znth h i - n ->
  let h' := arch_of (mlp_step c h (MRemoveNode hl nn) r1 r2) in
  znth h' i = znth h i - n /\ (forall j, j <> Z.to_nat i -> nth j h' 0 = nth j h 0) /\ zlen h' = zlen h /\
  name_of (mlp_step c h (MRemoveNode hl nn) r1 r2) = "remove_node"%string /\ (0 < n -> h' <> h).
Proof. exact mlp_remove_node_effective. Qed.
Print Assumptions remove_node_effective_mlp.

(* the layer index a node mutation resolves to is always an existing layer *)
Theorem node_index_valid_mlp : forall h hl nn r1 r2,
  h <> [] -> (match hl with Some l => 0 <= l | None => True end) ->
  0 <= fst (mlp_node_args h hl nn r1 r2) < zlen h.
Proof. exact mlp_node_args_index. Qed.
Print Assumptions node_index_valid_mlp.

(* Behaviour before fix a443ae2 (modules built from one configuration shared the hidden_size list):
   a sibling's descriptor changes without its module being rebuilt. *)
Theorem shared_config_refuted_mlp :
  exists s c a b hl nn r1 r2,
    mlp_built b = mlp_shapes s (mlp_hidden b) /\
    let b' := snd (shared_add_node s c a b hl nn r1 r2) in
    mlp_built b' <> mlp_shapes s (mlp_hidden b').
Proof. exact mlp_shared_config_refuted. Qed.
Print Assumptions shared_config_refuted_mlp.

(* ======================= EvolvableLSTM / EvolvableSimBa / EvolvableResNet ======================= *)
(* one machine, instantiated with the comparison operators of each class (lstm_params, simba_params,
   resnet_params); the theorems hold for every parameter set with non-negative amounts to draw from *)
Theorem bounds_inv_scalar : forall p c a m r,
  choices_ok p -> smeth_ok m -> s_in_bounds c a -> s_in_bounds c (arch_of (s_step p c a m r)).
Proof. exact s_bounds_inv. Qed.
Print Assumptions bounds_inv_scalar.

Theorem bounds_chain_scalar : forall p c, choices_ok p -> forall ops a,
  Forall s_op_ok ops -> s_in_bounds c a -> s_in_bounds c (s_run p c a ops).
Proof. exact s_bounds_chain. Qed.
Print Assumptions bounds_chain_scalar.

Theorem bounds_chain_lstm : forall c ops a,
  Forall s_op_ok ops -> s_in_bounds c a -> s_in_bounds c (s_run lstm_params c a ops).
Proof. exact (fun c => s_bounds_chain lstm_params c lstm_choices_ok). Qed.
Print Assumptions bounds_chain_lstm.
Theorem bounds_chain_simba : forall c ops a,
  Forall s_op_ok ops -> s_in_bounds c a -> s_in_bounds c (s_run simba_params c a ops).
Proof. exact (fun c => s_bounds_chain simba_params c simba_choices_ok). Qed.
Print Assumptions bounds_chain_simba.
Theorem bounds_chain_resnet : forall c ops a,
  Forall s_op_ok ops -> s_in_bounds c a -> s_in_bounds c (s_run resnet_params c a ops).
Proof. exact (fun c => s_bounds_chain resnet_params c resnet_choices_ok). Qed.
Print Assumptions bounds_chain_resnet.

Theorem never_further_out_scalar : forall p c a m r,
  choices_ok p -> smeth_ok m ->
  let a' := arch_of (s_step p c a m r) in
  Z.min (s_width a) (s_min_width c) <= s_width a' <= Z.max (s_width a) (s_max_width c) /\
  Z.min (s_layers a) (s_min_layers c) <= s_layers a' <= Z.max (s_layers a) (s_max_layers c).
Proof. exact s_never_further_out. Qed.
Print Assumptions never_further_out_scalar.

Theorem valid_inv_scalar : forall p c a m r,
  choices_ok p -> smeth_ok m -> 1 <= s_min_layers c ->
  (if sp_rem_strict p then 0 <= s_min_width c else 1 <= s_min_width c) ->
  s_valid a -> s_valid (arch_of (s_step p c a m r)).
Proof. exact s_valid_inv. Qed.
Print Assumptions valid_inv_scalar.

Theorem valid_chain_scalar : forall p c, choices_ok p -> 1 <= s_min_layers c ->
  (if sp_rem_strict p then 0 <= s_min_width c else 1 <= s_min_width c) ->
  forall ops a, Forall s_op_ok ops -> s_valid a -> s_valid (s_run p c a ops).
Proof. exact s_valid_chain. Qed.
Print Assumptions valid_chain_scalar.

Theorem add_layer_effective_scalar : forall p c a r,
  s_layers a < s_max_layers c ->
  s_step p c a SAddLayer r = ({| s_layers := s_layers a + 1; s_width := s_width a |}, sp_add_layer p, []).
Proof. exact s_add_layer_effective. Qed.
Print Assumptions add_layer_effective_scalar.

Theorem remove_layer_effective_scalar : forall p c a r,
  s_min_layers c < s_layers a ->
  s_step p c a SRemoveLayer r = ({| s_layers := s_layers a - 1; s_width := s_width a |}, sp_remove_layer p, []).
Proof. exact s_remove_layer_effective. Qed.
Print Assumptions remove_layer_effective_scalar.

Theorem layer_fallback_scalar : forall p c a r,
  (s_max_layers c <= s_layers a -> s_step p c a SAddLayer r = s_add_node p c a None r) /\
  (s_layers a <= s_min_layers c -> s_step p c a SRemoveLayer r = s_add_node p c a None r) /\
  name_of (s_add_node p c a None r) = sp_add_node p.
Proof. exact s_layer_fallback. Qed.
Print Assumptions layer_fallback_scalar.

Theorem add_node_effective_scalar : forall p c a nn r,
  let n := arg nn (choose (sp_choices p) r) in
  (if sp_add_strict p then s_width a + n < s_max_width c else s_width a + n <= s_max_width c) ->
  s_step p c a (SAddNode nn) r = ({| s_layers := s_layers a; s_width := s_width a + n |}, sp_add_node p, [n]).
Proof. exact s_add_node_effective. Qed.
Print Assumptions add_node_effective_scalar.

Theorem remove_node_effective_scalar : forall p c a nn r,
  let n := arg nn (choose (sp_choices p) r) in
  (if sp_rem_strict p then s_min_width c < s_width a - n else s_min_width c <= s_width a - n) ->
  s_step p c a (SRemoveNode nn) r = ({| s_layers := s_layers a; s_width := s_width a - n |}, sp_remove_node p, [n]).
Proof. exact s_remove_node_effective. Qed.
Print Assumptions remove_node_effective_scalar.

Theorem rebuild_exact_scalar : forall p shapes c ops st,
  s_built st = shapes (s_arch st) ->
  let st' := s_state_run p true shapes c st ops in
  s_built st' = shapes (s_arch st') /\ s_arch st' = s_run p c (s_arch st) ops /\ (s_pyint st = true -> s_pyint st' = true).
Proof. exact s_rebuild_exact. Qed.
Print Assumptions rebuild_exact_scalar.

(* EvolvableResNet's constructor (isinstance(channel_size, int), num_blocks >= 1) accepts the
   description of every reachable module ... *)
Theorem ctor_accepts_resnet : forall shapes c ops a0,
  1 <= s_min_layers c -> 1 <= s_layers a0 ->
  resnet_ctor_ok (s_state_run resnet_params true shapes c (s_build shapes a0 true) ops) = true.
Proof. exact resnet_ctor_accepts. Qed.
Print Assumptions ctor_accepts_resnet.

(* ... which was false before fix f0602d4 (channel_size became a numpy integer). *)
Theorem rebuild_refuted_resnet_prefix :
  exists shapes c a0 m r,
    s_in_bounds c a0 /\ (resnet_ctor_ok (s_build shapes a0 true) = true) /\
    (resnet_ctor_ok (fst (fst (s_mutate resnet_params false shapes c (s_build shapes a0 true) m r))) = false).
Proof. exact resnet_rebuild_refuted. Qed.
Print Assumptions rebuild_refuted_resnet_prefix.

(* ======================= EvolvableCNN ======================= *)
(* the three per-layer lists keep the same length *)
Theorem wf_inv_cnn : forall st c a m r1 r2, cnn_wf a -> cnn_wf (arch_of (cnn_step st c a m r1 r2)).
Proof. exact cnn_wf_inv_fix. Qed.
Print Assumptions wf_inv_cnn.

(* channels / number of layers: every interval containing the declared one is invariant
   (inside stays inside; outside never moves further out) *)
Theorem channels_inv_cnn : forall st c a m r1 r2 lo hi,
  lo <= c_min_ch c -> c_max_ch c <= hi -> cnn_meth_ok m -> channels a <> [] ->
  Forall (between lo hi) (channels a) -> Forall (between lo hi) (channels (arch_of (cnn_step st c a m r1 r2))).
Proof. exact cnn_channels_inv_fix. Qed.
Print Assumptions channels_inv_cnn.

Theorem layers_inv_cnn : forall st c a m r1 r2 lo hi,
  lo <= c_min_layers c -> c_max_layers c <= hi -> 1 <= lo ->
  lo <= zlen (channels a) <= hi -> lo <= zlen (channels (arch_of (cnn_step st c a m r1 r2))) <= hi.
Proof. exact cnn_layers_inv_fix. Qed.
Print Assumptions layers_inv_cnn.

(* kernel sizes chosen by a mutation lie in [1, 9]; strides in [1, stride of the layer before] *)
Theorem kernels_inv_cnn : forall st c a m r1 r2 K,
  9 <= K -> cnn_meth_ok m -> cnn_wf a ->
  Forall (between 1 K) (kernels a) -> Forall (between 1 K) (kernels (arch_of (cnn_step st c a m r1 r2))).
Proof. exact cnn_kernels_inv_fix. Qed.
Print Assumptions kernels_inv_cnn.

Theorem strides_inv_cnn : forall st c a m r1 r2 S,
  strides a <> [] -> Forall (between 1 S) (strides a) -> Forall (between 1 S) (strides (arch_of (cnn_step st c a m r1 r2))).
Proof. exact cnn_strides_inv_fix. Qed.
Print Assumptions strides_inv_cnn.

(* all quantities together, over every chain of mutation calls *)
Theorem bounds_inv_cnn : forall st c K S a m r1 r2,
  1 <= c_min_layers c -> 9 <= K -> cnn_meth_ok m ->
  cnn_in_bounds c K S a -> cnn_in_bounds c K S (arch_of (cnn_step st c a m r1 r2)).
Proof. exact cnn_bounds_inv_fix. Qed.
Print Assumptions bounds_inv_cnn.

Theorem bounds_chain_cnn : forall st c K S, 1 <= c_min_layers c -> 9 <= K -> forall ops a,
  Forall (fun o : cnn_op => cnn_meth_ok (fst (fst o))) ops -> cnn_in_bounds c K S a -> cnn_in_bounds c K S (cnn_run st c a ops).
Proof. exact cnn_bounds_chain_fix. Qed.
Print Assumptions bounds_chain_cnn.

(* Validity (every layer's input is at least as large as its kernel, so torch can build and run the network) is preserved
   by ALL five methods, hence over every chain: since fix 0a5e775 change_kernel rolls the kernel back when a later layer
   would no longer fit (_kernels_fit). *)
Theorem valid_inv_cnn : forall st c a m r1 r2,
  1 <= c_min_layers c -> 1 <= c_min_ch c -> cnn_meth_ok m ->
  cnn_ok st a -> cnn_ok st (arch_of (cnn_step st c a m r1 r2)).
Proof. exact cnn_valid_inv. Qed.
Print Assumptions valid_inv_cnn.

Theorem valid_chain_cnn : forall st c, 1 <= c_min_layers c -> 1 <= c_min_ch c -> forall ops a,
  Forall (fun o : cnn_op => cnn_meth_ok (fst (fst o))) ops -> cnn_ok st a -> cnn_ok st (cnn_run st c a ops).
Proof. exact cnn_valid_chain. Qed.
Print Assumptions valid_chain_cnn.

(* Behaviour before fix 0a5e775 (pinned model cnn_step_prefix: no roll back): change_kernel did NOT preserve validity ... *)
Theorem change_kernel_valid_refuted_cnn_prefix :
  exists st c a r1 r2,
    cnn_ok st a /\ cnn_meth_ok (CChangeKernel None None) /\
    cnn_valid st (arch_of (cnn_step_prefix st c a (CChangeKernel None None) r1 r2)) = false.
Proof. exact cnn_change_kernel_valid_refuted. Qed.
Print Assumptions change_kernel_valid_refuted_cnn_prefix.

(* ... and an unbuildable architecture was reachable from a one-layer CNN with the default bounds by eleven drawn mutations,
   each inside the range the method itself draws from, every intermediate architecture valid (on the real pre-fix module:
   RuntimeError "Kernel size can't be greater than actual input size"; corpus/C03/cnn-change-kernel-chain-*.json). *)
Theorem change_kernel_unbuildable_reachable_refuted_cnn_prefix :
  let st := {| cs_in_ch := 3; cs_h := 32; cs_w := 32; cs_out := 16; cs_layer_norm := false |} in
  let c := {| c_min_layers := 1; c_max_layers := 6; c_min_ch := 32; c_max_ch := 256 |} in
  let a0 := {| channels := [32]; kernels := [5]; strides := [1] |} in
  cnn_ok st a0 /\ cnn_in_bounds c 9 1 a0 /\
  Forall (fun o : cnn_op => cnn_meth_ok (fst (fst o))) unbuildable_chain /\
  cnn_ok st (cnn_run_prefix st c a0 (removelast unbuildable_chain)) /\
  kernels (cnn_run_prefix st c a0 unbuildable_chain) = [5; 7; 7; 7; 7; 5] /\
  cnn_valid st (cnn_run_prefix st c a0 unbuildable_chain) = false.
Proof. exact cnn_unbuildable_reachable. Qed.
Print Assumptions change_kernel_unbuildable_reachable_refuted_cnn_prefix.

(* the same chain on the current model: the last change is rolled back, the network stays buildable *)
Example unbuildable_chain_now_rolled_back :
  let st := {| cs_in_ch := 3; cs_h := 32; cs_w := 32; cs_out := 16; cs_layer_norm := false |} in
  let c := {| c_min_layers := 1; c_max_layers := 6; c_min_ch := 32; c_max_ch := 256 |} in
  let a0 := {| channels := [32]; kernels := [5]; strides := [1] |} in
  kernels (cnn_run st c a0 unbuildable_chain) = [5; 1; 7; 7; 7; 5] /\ cnn_valid st (cnn_run st c a0 unbuildable_chain) = true.
Proof. cbv zeta. split; vm_compute; reflexivity. Qed.

(* kernels_fit (and therefore the roll-back decision, compared with the real module on every run) follows the STRIDED feature
   maps: 32x32 input, kernels [4;3], strides [4;1] — layer 1 sees an 8x8 map, so kernel 8 is installed and 9 is rolled back
   (a stride-1 map of 29 would accept it) *)
Example strided_kernel_rolled_back :
  let st := {| cs_in_ch := 3; cs_h := 32; cs_w := 32; cs_out := 16; cs_layer_norm := false |} in
  let c := {| c_min_layers := 1; c_max_layers := 6; c_min_ch := 32; c_max_ch := 256 |} in
  let a := {| channels := [32; 32]; kernels := [4; 3]; strides := [4; 1] |} in
  cnn_step st c a (CChangeKernel (Some 9) (Some 1)) 0 0 = (a, "change_kernel"%string, [1; 3]) /\
  kernels (arch_of (cnn_step st c a (CChangeKernel (Some 8) (Some 1)) 0 0)) = [4; 8] /\
  kernels_fit 32 32 [4; 9] [4; 1] = false /\ kernels_fit 32 32 [4; 9] [1; 1] = true.
Proof. cbv zeta. repeat split; reflexivity. Qed.

Theorem add_layer_effective_cnn : forall st c a r1 r2,
  let mk := last (max_kernels (cs_h st) (cs_w st) (kernels a) (strides a)) 1 in
  zlen (channels a) < c_max_layers c -> 2 < fst (last_fmap (cs_h st) (cs_w st) (kernels a) (strides a)) ->
  2 < snd (last_fmap (cs_h st) (cs_w st) (kernels a) (strides a)) -> 2 < mk ->
  let a' := arch_of (cnn_step st c a CAddLayer r1 r2) in
  name_of (cnn_step st c a CAddLayer r1 r2) = "add_layer"%string /\
  channels a' = channels a ++ [last (channels a) 0] /\
  kernels a' = kernels a ++ [pick 2 (mk + 1) r1] /\ strides a' = strides a ++ [pick 1 (last (strides a) 0 + 1) r2].
Proof. exact cnn_add_layer_effective. Qed.
Print Assumptions add_layer_effective_cnn.

Theorem remove_layer_effective_cnn : forall st c a r1 r2,
  c_min_layers c < zlen (channels a) ->
  cnn_step st c a CRemoveLayer r1 r2 =
  ({| channels := removelast (channels a); kernels := removelast (kernels a); strides := removelast (strides a) |},
   "remove_layer"%string, []).
Proof. exact cnn_remove_layer_effective. Qed.
Print Assumptions remove_layer_effective_cnn.

Theorem layer_fallback_cnn : forall st c a r1 r2,
  (c_max_layers c <= zlen (channels a) -> cnn_step st c a CAddLayer r1 r2 = cnn_add_channel c a None None r1 r2) /\
  (zlen (channels a) <= c_min_layers c -> cnn_step st c a CRemoveLayer r1 r2 = cnn_add_channel c a None None r1 r2) /\
  name_of (cnn_add_channel c a None None r1 r2) = "add_channel"%string.
Proof. exact cnn_layer_fallback. Qed.
Print Assumptions layer_fallback_cnn.

Theorem change_kernel_effective_cnn : forall st c a ks hl r1 r2,
  1 < zlen (channels a) ->
  let '(i, r) := match hl with Some l => (l, r1) | None => (pick 1 (Z.min 4 (zlen (channels a))) r1, r2) end in
  let k := match ks with Some k => k | None => pick 1 (znth (max_kernels (cs_h st) (cs_w st) (kernels a) (strides a)) i + 1) r end in
  let new := updz (kernels a) i (fun _ => k) in
  cnn_step st c a (CChangeKernel ks hl) r1 r2 =
  (if kernels_fit (cs_h st) (cs_w st) new (strides a)
   then ({| channels := channels a; kernels := new; strides := strides a |}, "change_kernel"%string, [i; k])
   else (a, "change_kernel"%string, [i; znth (kernels a) i])) /\
  (hl = None -> 1 <= i < zlen (channels a)).
Proof. exact cnn_change_kernel_effective_fix. Qed.
Print Assumptions change_kernel_effective_cnn.

Theorem add_channel_effective_cnn : forall c a hl nn r1 r2,
  let '(i, n) := cnn_channel_args (channels a) hl nn r1 r2 in
  znth (channels a) i + n <= c_max_ch c ->
  cnn_add_channel c a hl nn r1 r2 =
  ({| channels := updz (channels a) i (fun x => x + n); kernels := kernels a; strides := strides a |}, "add_channel"%string, [i; n]).
Proof. exact cnn_add_channel_effective. Qed.
Print Assumptions add_channel_effective_cnn.

Theorem remove_channel_effective_cnn : forall c a hl nn r1 r2,
  let '(i, n) := cnn_channel_args (channels a) hl nn r1 r2 in
  c_min_ch c <= znth (channels a) i - n ->
  cnn_remove_channel c a hl nn r1 r2 =
  ({| channels := updz (channels a) i (fun x => x - n); kernels := kernels a; strides := strides a |}, "remove_channel"%string, [i; n]).
Proof. exact cnn_remove_channel_effective. Qed.
Print Assumptions remove_channel_effective_cnn.

(* the module is rebuilt after every mutation; a valid architecture's description is accepted by the
   constructor and rebuilds exactly that module *)
Theorem rebuild_exact_cnn : forall st c s m r1 r2,
  let s' := fst (fst (cnn_mutate st c s m r1 r2)) in
  cnn_built s' = cnn_shapes st (cnn_arch_of s') /\
  (0 < cs_out st -> c_min_layers c < c_max_layers c -> c_min_ch c < c_max_ch c -> cnn_ok st (cnn_arch_of s') ->
   cnn_of_ctor st c (cnn_arch_of s') = Some s').
Proof. exact cnn_rebuild_exact. Qed.
Print Assumptions rebuild_exact_cnn.

(* ======================= networks: encoder + head + latent width ======================= *)
Theorem latent_inv_net : forall s c a m r1 r2 lo hi,
  lo <= n_min_latent c -> n_max_latent c <= hi -> net_meth_ok m ->
  lo <= n_latent a <= hi -> lo <= n_latent (arch_of (net_step s c a m r1 r2)) <= hi.
Proof. exact net_latent_inv. Qed.
Print Assumptions latent_inv_net.

Theorem bounds_inv_net : forall s c a m r1 r2,
  1 <= m_min_layers (n_head_cfg c) -> net_meth_ok m -> net_in_bounds c a -> net_in_bounds c (arch_of (net_step s c a m r1 r2)).
Proof. exact net_bounds_inv. Qed.
Print Assumptions bounds_inv_net.

Theorem bounds_chain_net : forall s c, 1 <= m_min_layers (n_head_cfg c) -> forall ops a,
  Forall (fun o : net_op => net_meth_ok (fst (fst o))) ops -> net_in_bounds c a -> net_in_bounds c (net_run s c a ops).
Proof. exact net_bounds_chain. Qed.
Print Assumptions bounds_chain_net.

Theorem latent_effective_net : forall s c a nn r1 r2,
  let n := arg nn (choose latent_choices r2) in
  (n_latent a + n < n_max_latent c ->
   net_step s c a (NAddLatent nn) r1 r2 =
   ({| n_latent := n_latent a + n; n_enc := n_enc a; n_head := n_head a |}, "add_latent_node"%string, [n])) /\
  (n_min_latent c < n_latent a - n ->
   net_step s c a (NRemoveLatent nn) r1 r2 =
   ({| n_latent := n_latent a - n; n_enc := n_enc a; n_head := n_head a |}, "remove_latent_node"%string, [n])).
Proof. exact net_latent_effective. Qed.
Print Assumptions latent_effective_net.

(* a head mutation is the MLP step on the head (so the MLP theorems apply) and reports "head_net.<method applied>" —
   also when the head is wrapped by an EvolvableWrapper (StochasticActor), since fix 108ea35 *)
Theorem head_step_net : forall s c a hm r1 r2,
  let a' := arch_of (net_step s c a (NHead hm) r1 r2) in
  n_head a' = arch_of (mlp_step (n_head_cfg c) (n_head a) hm r1 r2) /\ n_enc a' = n_enc a /\ n_latent a' = n_latent a /\
  name_of (net_step s c a (NHead hm) r1 r2) = String.append "head_net." (name_of (mlp_step (n_head_cfg c) (n_head a) hm r1 r2)).
Proof. exact net_head_step. Qed.
Print Assumptions head_step_net.

Theorem rebuild_exact_net : forall s c st m r1 r2,
  let st' := fst (fst (net_mutate s c st m r1 r2)) in net_built st' = net_shapes s (net_arch_of st').
Proof. exact net_rebuild_exact. Qed.
Print Assumptions rebuild_exact_net.

(* Behaviour before fix 108ea35 (pinned model net_step_prefix): the StochasticActor advertised the head's mutation methods
   through an EvolvableWrapper, but such a call changed nothing and reported no applied method although no bound stopped it. *)
Theorem advertised_effective_wrapped_head_refuted :
  exists s c a r1 r2,
    ns_wrapped_head s = true /\ zlen (n_head a) < m_max_layers (n_head_cfg c) /\
    net_step_prefix s c a (NHead MAddLayer) r1 r2 = (a, ""%string, []).
Proof. exact wrapped_head_mutation_ineffective_refuted. Qed.
Print Assumptions advertised_effective_wrapped_head_refuted.

(* completing a (possibly partial) encoder configuration and reading it back from init_dict is a fixed
   point: the rebuilt network has the same activations / normalisation as the original ... *)
Theorem ctor_idempotent : forall u, complete_cfg true (ctor_cfg (complete_cfg true u)) = complete_cfg true u.
Proof. exact ctor_idempotent_lemma. Qed.
Print Assumptions ctor_idempotent.

(* ... which was false before fix 882173d (R20): clone() computed a different function *)
Theorem ctor_not_idempotent_refuted_prefix :
  exists u, complete_cfg false (ctor_cfg (complete_cfg false u)) <> complete_cfg false u.
Proof. exact ctor_not_idempotent_refuted_lemma. Qed.
Print Assumptions ctor_not_idempotent_refuted_prefix.

(* ======================= EvolvableMultiInput (Dict / Tuple observations) ======================= *)
Theorem latent_inv_multi : forall s c a m r1 r2 lo hi,
  lo <= mu_min_latent c -> mu_max_latent c <= hi -> multi_meth_ok m ->
  lo <= mu_latent a <= hi -> lo <= mu_latent (arch_of (multi_step s c a m r1 r2)) <= hi.
Proof. exact multi_latent_inv. Qed.
Print Assumptions latent_inv_multi.

(* a mutation of the image feature extractor is the CNN step on it (the CNN theorems apply); latent mutations leave it alone *)
Theorem cnn_step_multi : forall s c a m r1 r2,
  mu_cnn (arch_of (multi_step s c a m r1 r2)) =
  match m with
  | MuCnn cm => arch_of (cnn_step (mu_cnn_static s (mu_latent a)) (mu_cnn_cfg c) (mu_cnn a) cm r1 r2)
  | _ => mu_cnn a
  end.
Proof. exact multi_cnn_step. Qed.
Print Assumptions cnn_step_multi.

Theorem bounds_inv_multi : forall s c a m r1 r2,
  1 <= c_min_layers (mu_cnn_cfg c) -> multi_meth_ok m -> multi_in_bounds c a -> multi_in_bounds c (arch_of (multi_step s c a m r1 r2)).
Proof. exact multi_bounds_inv. Qed.
Print Assumptions bounds_inv_multi.

Theorem rebuild_exact_multi : forall s c st m r1 r2,
  let st' := fst (fst (multi_mutate s c st m r1 r2)) in multi_built st' = multi_shapes s (multi_arch_of st').
Proof. exact multi_rebuild_exact. Qed.
Print Assumptions rebuild_exact_multi.

(* EvolvableMultiInput with vector_space_mlp = True (Tuple / Dict spaces): every step is the step of the part it addresses
   (latent width / image extractor, or the vector MLP), so the bounds of both parts are kept over every chain *)
Theorem step_parts_multi_mlp : forall s c a m r1 r2,
  let a' := arch_of (multi2_step s c a m r1 r2) in
  match m with
  | M2Core _ cm => m2_core a' = arch_of (multi_step (m2_base s) (m2_cfg c) (m2_core a) cm r1 r2) /\ m2_mlp a' = m2_mlp a
  | M2Mlp hm => m2_mlp a' = arch_of (mlp_step (m2_mlp_cfg c) (m2_mlp a) hm r1 r2) /\ m2_core a' = m2_core a
  end.
Proof. exact multi2_step_parts. Qed.
Print Assumptions step_parts_multi_mlp.

Theorem bounds_chain_multi_mlp : forall s c,
  1 <= c_min_layers (mu_cnn_cfg (m2_cfg c)) -> 1 <= m_min_layers (m2_mlp_cfg c) -> forall ops a,
  Forall (fun o : multi2_op => multi2_meth_ok (fst (fst o))) ops -> multi2_in_bounds c a -> multi2_in_bounds c (multi2_run s c a ops).
Proof. exact multi2_bounds_chain. Qed.
Print Assumptions bounds_chain_multi_mlp.

Theorem rebuild_exact_multi_mlp : forall s c st m r1 r2,
  let st' := fst (fst (multi2_mutate s c st m r1 r2)) in multi2_built st' = multi2_shapes s (multi2_arch_of st').
Proof. exact multi2_rebuild_exact. Qed.
Print Assumptions rebuild_exact_multi_mlp.

(* ======================= declared output shape ======================= *)
(* shape-level forward pass of the linear / normalisation stacks: a batch [b; num_inputs] is mapped to
   [b; num_outputs] for EVERY architecture (any hidden sizes, any number of layers / blocks) *)
Theorem shape_out_mlp : forall s h b,
  ms_noisy s = false -> forward_shape (mlp_shapes s h) [b; ms_in s] = Some [b; ms_out s].
Proof. exact mlp_forward_shape. Qed.
Print Assumptions shape_out_mlp.

Theorem shape_out_simba : forall s a b,
  forward_shape (simba_shapes s a) [b; ss_in s] = Some [b; ss_out s].
Proof. exact simba_forward_shape. Qed.
Print Assumptions shape_out_simba.

(* a batch [b; C; H; W] goes through the convolution stack, nn.Flatten and the final linear layer (whose in_features was fixed
   when the module was built) for EVERY valid CNN architecture *)
Theorem shape_out_cnn : forall st a b,
  cnn_ok st a -> cnn_forward_shape st a [b; cs_in_ch st; cs_h st; cs_w st] = Some [b; cs_out st].
Proof. exact cnn_forward_shape_ok. Qed.
Print Assumptions shape_out_cnn.

(* stacked LSTM layers (four gates each), last time step, output layer: [b; seq; input_size] -> [b; num_outputs] *)
Theorem shape_out_lstm : forall s a b t,
  1 <= s_layers a -> lstm_forward_shape (lstm_shapes s a) [b; t; ls_in s] = Some [b; ls_out s].
Proof. exact lstm_forward_shape_ok. Qed.
Print Assumptions shape_out_lstm.

(* ResNet: padded input convolution, residual blocks that keep the spatial size (replicate padding (k-1)//2 | k//2), linear *)
Theorem shape_out_resnet : forall s a b,
  1 <= rs_kernel s -> resnet_forward_shape s a [b; rs_in_ch s; rs_h s; rs_w s] = Some [b; rs_out s].
Proof. exact resnet_forward_shape_ok. Qed.
Print Assumptions shape_out_resnet.

(* ======================= non-vacuity ======================= *)
Example mlp_nonvacuous :
  let c := {| m_min_layers := 1; m_max_layers := 3; m_min_nodes := 64; m_max_nodes := 500 |} in
  mlp_in_bounds c [64; 64] /\ mlp_valid [64; 64] /\
  mlp_run c [64; 64] [(MAddLayer, 0, 0); (MAddNode None None, 2, 1); (MAddLayer, 1, 2); (MRemoveNode (Some 0) (Some 16), 0, 0)]
    = [64; 128; 96].
Proof.
  cbv zeta. split; [|split; [|reflexivity]].
  - split; [cbn; lia|]. repeat constructor; cbn; lia.
  - split; [discriminate|]. repeat constructor.
Qed.
Example scalar_nonvacuous :
  let c := {| s_min_layers := 1; s_max_layers := 2; s_min_width := 32; s_max_width := 64 |} in
  s_in_bounds c {| s_layers := 1; s_width := 32 |} /\
  s_run resnet_params c {| s_layers := 1; s_width := 32 |} [(SAddLayer, 0); (SAddLayer, 1); (SAddNode None, 2); (SRemoveNode (Some 8), 0)]
    = {| s_layers := 2; s_width := 40 |}.
Proof. cbv zeta. split; [unfold s_in_bounds; cbn; lia|reflexivity]. Qed.

Example cnn_nonvacuous :
  let st := {| cs_in_ch := 3; cs_h := 32; cs_w := 32; cs_out := 16; cs_layer_norm := false |} in
  let c := {| c_min_layers := 1; c_max_layers := 6; c_min_ch := 32; c_max_ch := 256 |} in
  let a := {| channels := [32; 32]; kernels := [3; 3]; strides := [1; 1] |} in
  cnn_ok st a /\ cnn_wf a /\
  arch_of (cnn_step st c a CAddLayer 1 0) = {| channels := [32; 32; 32]; kernels := [3; 3; 3]; strides := [1; 1; 1] |} /\
  cnn_ok st (arch_of (cnn_step st c a CAddLayer 1 0)).
Proof. cbv zeta. repeat split; reflexivity. Qed.
Example net_nonvacuous :
  let c := {| n_min_latent := 8; n_max_latent := 128;
              n_enc_cfg := KMlp {| m_min_layers := 1; m_max_layers := 3; m_min_nodes := 64; m_max_nodes := 500 |};
              n_head_cfg := {| m_min_layers := 1; m_max_layers := 3; m_min_nodes := 64; m_max_nodes := 500 |} |} in
  net_in_bounds c {| n_latent := 32; n_enc := EMlp [64; 64]; n_head := [64] |}.
Proof.
  cbv zeta. split; [cbn; lia|]. split; (split; [cbn; lia|repeat constructor; cbn; lia]).
Qed.
