(* C03 — property theorems only. Each is closed by [exact] of a lemma proved in C03/Proofs*.v. *)
From Coq Require Import List ZArith Bool String Lia.
Import ListNotations.
From AgileV Require Import C03.Model C03.Proofs C03.ProofsS.
Local Open Scope Z_scope.

(* ======================= EvolvableMLP ======================= *)
(* One mutation call (any advertised method, any arguments >= 0, any draws) keeps the number of layers
   and every layer width inside the declared bounds. *)
Theorem bounds_inv_mlp : forall c h m r1 r2,
  1 <= m_min_layers c -> mlp_meth_ok m -> mlp_in_bounds c h -> mlp_in_bounds c (arch_of (mlp_step c h m r1 r2)).
Proof. exact mlp_bounds_inv. Qed.
Print Assumptions bounds_inv_mlp.

(* ... and so does every chain of mutation calls. *)
Theorem bounds_chain_mlp : forall c, 1 <= m_min_layers c -> forall ops h,
  Forall mlp_op_ok ops -> mlp_in_bounds c h -> mlp_in_bounds c (mlp_run c h ops).
Proof. exact mlp_bounds_chain. Qed.
Print Assumptions bounds_chain_mlp.

(* A start outside the bounds never moves further out (per quantity). *)
Theorem never_further_out_mlp : forall c h m r1 r2,
  mlp_meth_ok m -> h <> [] ->
  let h' := arch_of (mlp_step c h m r1 r2) in
  Forall (between (lmin h (m_min_nodes c)) (lmax h (m_max_nodes c))) h' /\
  Z.min (zlen h) (m_min_layers c) <= zlen h' <= Z.max (zlen h) (m_max_layers c).
Proof. exact mlp_never_further_out. Qed.
Print Assumptions never_further_out_mlp.

(* The architecture stays constructible: at least one hidden layer, every width positive. *)
Theorem valid_inv_mlp : forall c h m r1 r2,
  1 <= m_min_layers c -> 0 <= m_min_nodes c -> mlp_meth_ok m -> mlp_valid h ->
  mlp_valid (arch_of (mlp_step c h m r1 r2)).
Proof. exact mlp_valid_inv. Qed.
Print Assumptions valid_inv_mlp.

(* After every chain the torch module is the one built for the current descriptor, and the constructor
   description (init_dict) is accepted by the constructor and rebuilds exactly that module
   (same parameter names and shapes = strict load_state_dict succeeds). *)
Theorem rebuild_exact_mlp : forall s c h0 ops,
  mlp_cfg_ok s c -> mlp_valid h0 -> Forall mlp_op_ok ops ->
  let st := mlp_state_run s c (mlp_build s h0) ops in
  mlp_of_ctor (mlp_ctor_of s c st) = Some st /\ mlp_built st = mlp_shapes s (mlp_hidden st).
Proof. exact mlp_rebuild_exact. Qed.
Print Assumptions rebuild_exact_mlp.

(* Advertised mutations are effective when not stopped by a bound; the method reported as applied is
   the one that was applied (add_layer / remove_layer fall back on add_node at the bound). *)
Theorem add_layer_effective_mlp : forall c h r1 r2,
  zlen h < m_max_layers c ->
  mlp_step c h MAddLayer r1 r2 = (h ++ [last h 0], "add_layer"%string, []) /\
  zlen (arch_of (mlp_step c h MAddLayer r1 r2)) = zlen h + 1.
Proof. exact mlp_add_layer_effective. Qed.
Print Assumptions add_layer_effective_mlp.

Theorem add_layer_fallback_mlp : forall c h r1 r2,
  m_max_layers c <= zlen h ->
  mlp_step c h MAddLayer r1 r2 = mlp_add_node c h None None r1 r2 /\
  name_of (mlp_step c h MAddLayer r1 r2) = "add_node"%string.
Proof. exact mlp_add_layer_fallback. Qed.
Print Assumptions add_layer_fallback_mlp.

Theorem remove_layer_effective_mlp : forall c h r1 r2,
  m_min_layers c < zlen h ->
  mlp_step c h MRemoveLayer r1 r2 = (removelast h, "remove_layer"%string, []) /\
  (h <> [] -> zlen (arch_of (mlp_step c h MRemoveLayer r1 r2)) = zlen h - 1).
Proof. exact mlp_remove_layer_effective. Qed.
Print Assumptions remove_layer_effective_mlp.

Theorem remove_layer_fallback_mlp : forall c h r1 r2,
  zlen h <= m_min_layers c ->
  mlp_step c h MRemoveLayer r1 r2 = mlp_add_node c h None None r1 r2 /\
  name_of (mlp_step c h MRemoveLayer r1 r2) = "add_node"%string.
Proof. exact mlp_remove_layer_fallback. Qed.
Print Assumptions remove_layer_fallback_mlp.

Theorem add_node_effective_mlp : forall c h hl nn r1 r2,
  let '(i, n) := mlp_node_args h hl nn r1 r2 in
  0 <= i < zlen h -> znth h i + n <= m_max_nodes c ->
  let h' := arch_of (mlp_step c h (MAddNode hl nn) r1 r2) in
  znth h' i = znth h i + n /\ (forall j, j <> Z.to_nat i -> nth j h' 0 = nth j h 0) /\ zlen h' = zlen h /\
  name_of (mlp_step c h (MAddNode hl nn) r1 r2) = "add_node"%string /\ (0 < n -> h' <> h).
Proof. exact mlp_add_node_effective. Qed.
Print Assumptions add_node_effective_mlp.

Theorem remove_node_effective_mlp : forall c h hl nn r1 r2,
  let '(i, n) := mlp_node_args h hl nn r1 r2 in
  0 <= i < zlen h -> m_min_nodes c < znth h i - n ->
  let h' := arch_of (mlp_step c h (MRemoveNode hl nn) r1 r2) in
  znth h' i = znth h i - n /\ (forall j, j <> Z.to_nat i -> nth j h' 0 = nth j h 0) /\ zlen h' = zlen h /\
  name_of (mlp_step c h (MRemoveNode hl nn) r1 r2) = "remove_node"%string /\ (0 < n -> h' <> h).
Proof. exact mlp_remove_node_effective. Qed.
Print Assumptions remove_node_effective_mlp.

(* the layer index a node mutation resolves to is always an existing layer *)
Theorem node_index_valid_mlp : forall h hl nn r1 r2,
  h <> [] -> (match hl with Some l => 0 <= l | None => True end) ->
  0 <= fst (mlp_node_args h hl nn r1 r2) < zlen h.
Proof. exact mlp_node_args_index. Qed.
Print Assumptions node_index_valid_mlp.

(* Behaviour before fix a443ae2 (modules built from one configuration shared the hidden_size list):
   a sibling's descriptor changes without its module being rebuilt. *)
Theorem shared_config_refuted_mlp :
  exists s c a b hl nn r1 r2,
    mlp_built b = mlp_shapes s (mlp_hidden b) /\
    let b' := snd (shared_add_node s c a b hl nn r1 r2) in
    mlp_built b' <> mlp_shapes s (mlp_hidden b').
Proof. exact mlp_shared_config_refuted. Qed.
Print Assumptions shared_config_refuted_mlp.

(* ======================= EvolvableLSTM / EvolvableSimBa / EvolvableResNet ======================= *)
(* one machine, instantiated with the comparison operators of each class (lstm_params, simba_params,
   resnet_params); the theorems hold for every parameter set with non-negative amounts to draw from *)
Theorem bounds_inv_scalar : forall p c a m r,
  choices_ok p -> smeth_ok m -> s_in_bounds c a -> s_in_bounds c (arch_of (s_step p c a m r)).
Proof. exact s_bounds_inv. Qed.
Print Assumptions bounds_inv_scalar.

Theorem bounds_chain_scalar : forall p c, choices_ok p -> forall ops a,
  Forall s_op_ok ops -> s_in_bounds c a -> s_in_bounds c (s_run p c a ops).
Proof. exact s_bounds_chain. Qed.
Print Assumptions bounds_chain_scalar.

Theorem bounds_chain_lstm : forall c ops a,
  Forall s_op_ok ops -> s_in_bounds c a -> s_in_bounds c (s_run lstm_params c a ops).
Proof. exact (fun c => s_bounds_chain lstm_params c lstm_choices_ok). Qed.
Print Assumptions bounds_chain_lstm.
Theorem bounds_chain_simba : forall c ops a,
  Forall s_op_ok ops -> s_in_bounds c a -> s_in_bounds c (s_run simba_params c a ops).
Proof. exact (fun c => s_bounds_chain simba_params c simba_choices_ok). Qed.
Print Assumptions bounds_chain_simba.
Theorem bounds_chain_resnet : forall c ops a,
  Forall s_op_ok ops -> s_in_bounds c a -> s_in_bounds c (s_run resnet_params c a ops).
Proof. exact (fun c => s_bounds_chain resnet_params c resnet_choices_ok). Qed.
Print Assumptions bounds_chain_resnet.

Theorem never_further_out_scalar : forall p c a m r,
  choices_ok p -> smeth_ok m ->
  let a' := arch_of (s_step p c a m r) in
  Z.min (s_width a) (s_min_width c) <= s_width a' <= Z.max (s_width a) (s_max_width c) /\
  Z.min (s_layers a) (s_min_layers c) <= s_layers a' <= Z.max (s_layers a) (s_max_layers c).
Proof. exact s_never_further_out. Qed.
Print Assumptions never_further_out_scalar.

Theorem valid_inv_scalar : forall p c a m r,
  choices_ok p -> smeth_ok m -> 1 <= s_min_layers c ->
  (if sp_rem_strict p then 0 <= s_min_width c else 1 <= s_min_width c) ->
  s_valid a -> s_valid (arch_of (s_step p c a m r)).
Proof. exact s_valid_inv. Qed.
Print Assumptions valid_inv_scalar.

Theorem add_layer_effective_scalar : forall p c a r,
  s_layers a < s_max_layers c ->
  s_step p c a SAddLayer r = ({| s_layers := s_layers a + 1; s_width := s_width a |}, sp_add_layer p, []).
Proof. exact s_add_layer_effective. Qed.
Print Assumptions add_layer_effective_scalar.

Theorem remove_layer_effective_scalar : forall p c a r,
  s_min_layers c < s_layers a ->
  s_step p c a SRemoveLayer r = ({| s_layers := s_layers a - 1; s_width := s_width a |}, sp_remove_layer p, []).
Proof. exact s_remove_layer_effective. Qed.
Print Assumptions remove_layer_effective_scalar.

Theorem layer_fallback_scalar : forall p c a r,
  (s_max_layers c <= s_layers a -> s_step p c a SAddLayer r = s_add_node p c a None r) /\
  (s_layers a <= s_min_layers c -> s_step p c a SRemoveLayer r = s_add_node p c a None r) /\
  name_of (s_add_node p c a None r) = sp_add_node p.
Proof. exact s_layer_fallback. Qed.
Print Assumptions layer_fallback_scalar.

Theorem add_node_effective_scalar : forall p c a nn r,
  let n := arg nn (choose (sp_choices p) r) in
  (if sp_add_strict p then s_width a + n < s_max_width c else s_width a + n <= s_max_width c) ->
  s_step p c a (SAddNode nn) r = ({| s_layers := s_layers a; s_width := s_width a + n |}, sp_add_node p, [n]).
Proof. exact s_add_node_effective. Qed.
Print Assumptions add_node_effective_scalar.

Theorem remove_node_effective_scalar : forall p c a nn r,
  let n := arg nn (choose (sp_choices p) r) in
  (if sp_rem_strict p then s_min_width c < s_width a - n else s_min_width c <= s_width a - n) ->
  s_step p c a (SRemoveNode nn) r = ({| s_layers := s_layers a; s_width := s_width a - n |}, sp_remove_node p, [n]).
Proof. exact s_remove_node_effective. Qed.
Print Assumptions remove_node_effective_scalar.

Theorem rebuild_exact_scalar : forall p shapes c ops st,
  s_built st = shapes (s_arch st) ->
  let st' := s_state_run p true shapes c st ops in
  s_built st' = shapes (s_arch st') /\ s_arch st' = s_run p c (s_arch st) ops /\ (s_pyint st = true -> s_pyint st' = true).
Proof. exact s_rebuild_exact. Qed.
Print Assumptions rebuild_exact_scalar.

(* EvolvableResNet's constructor (isinstance(channel_size, int), num_blocks >= 1) accepts the
   description of every reachable module ... *)
Theorem ctor_accepts_resnet : forall shapes c ops a0,
  1 <= s_min_layers c -> 1 <= s_layers a0 ->
  resnet_ctor_ok (s_state_run resnet_params true shapes c (s_build shapes a0 true) ops) = true.
Proof. exact resnet_ctor_accepts. Qed.
Print Assumptions ctor_accepts_resnet.

(* ... which was false before fix f0602d4 (channel_size became a numpy integer). *)
Theorem rebuild_refuted_resnet_prefix :
  exists shapes c a0 m r,
    s_in_bounds c a0 /\ (resnet_ctor_ok (s_build shapes a0 true) = true) /\
    (resnet_ctor_ok (fst (fst (s_mutate resnet_params false shapes c (s_build shapes a0 true) m r))) = false).
Proof. exact resnet_rebuild_refuted. Qed.
Print Assumptions rebuild_refuted_resnet_prefix.

(* ======================= non-vacuity ======================= *)
Example mlp_nonvacuous :
  let c := {| m_min_layers := 1; m_max_layers := 3; m_min_nodes := 64; m_max_nodes := 500 |} in
  mlp_in_bounds c [64; 64] /\ mlp_valid [64; 64] /\
  mlp_run c [64; 64] [(MAddLayer, 0, 0); (MAddNode None None, 2, 1); (MAddLayer, 1, 2); (MRemoveNode (Some 0) (Some 16), 0, 0)]
    = [64; 128; 96].
Proof.
  cbv zeta. split; [|split; [|reflexivity]].
  - split; [cbn; lia|]. repeat constructor; cbn; lia.
  - split; [discriminate|]. repeat constructor.
Qed.
Example scalar_nonvacuous :
  let c := {| s_min_layers := 1; s_max_layers := 2; s_min_width := 32; s_max_width := 64 |} in
  s_in_bounds c {| s_layers := 1; s_width := 32 |} /\
  s_run resnet_params c {| s_layers := 1; s_width := 32 |} [(SAddLayer, 0); (SAddLayer, 1); (SAddNode None, 2); (SRemoveNode (Some 8), 0)]
    = {| s_layers := 2; s_width := 40 |}.
Proof. cbv zeta. split; [unfold s_in_bounds; cbn; lia|reflexivity]. Qed.
