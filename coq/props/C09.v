(* C09 — property theorems only. Each is closed by [exact] of a lemma proved in C09/Proofs.v. *)
From Coq Require Import List Arith Permutation.
Import ListNotations.
From AgileV Require Import Base.Prelude C09.Model C09.Proofs C09.ProofsFull.

(* After any sequence of add / sample / clear with batch widths <= capacity, the buffer state is
   tied to the history of additions since the last clear: reported length = min(k, cap); the
   transition added p-th sits in slot p mod cap for as long as it is among the last cap; slots that
   were never written are empty; the cursor is k mod cap. *)
Theorem rb_refines_spec : forall (A : Type) (c : nat) (ops : list (op A)),
  0 < c -> Forall (width_ok c) ops -> Inv c (spec_run ops) (rb_run c ops).
Proof. exact @rb_refines_spec_lemma. Qed.
Print Assumptions rb_refines_spec.

(* The stored rows, read from the oldest to the newest, are exactly the last min(cap, k) additions. *)
Theorem rb_contents_are_last : forall (A : Type) (c : nat) (h : list A) (b : rb A),
  0 < c -> Inv c h b ->
  rb_contents b = map Some (lastn (Nat.min (length h) c) h) /\ size b = Nat.min (length h) c.
Proof. exact @contents_are_last. Qed.
Print Assumptions rb_contents_are_last.

(* Every field column is written with the same slices: projecting a field after writing whole
   transitions equals writing the projected column. *)
Theorem fields_together : forall (T U : Type) (f : T -> U) cap cur l xs,
  map f (add_batch cap cur l xs) = add_batch cap cur (map f l) (map f xs).
Proof. exact @add_batch_map. Qed.
Print Assumptions fields_together.

(* sample(): indices distinct, all < len, every row is one of the last min(cap,k) additions *)
Theorem sample_sound : forall (A : Type) c (h : list A) (b : rb A) perm bs,
  0 < c -> Inv c h b -> Permutation perm (seq 0 (size b)) ->
  let '(idx, rows) := rb_sample b perm bs in
  NoDup idx /\ Forall (fun i => i < size b) idx /\ length rows = Nat.min bs (size b) /\
  Forall (fun r => exists x, r = Some x /\ In x (lastn (Nat.min (length h) c) h)) rows.
Proof. exact @sample_sound_lemma. Qed.
Print Assumptions sample_sound.

(* a sample as wide as the buffer's length returns every stored transition exactly once: as a multiset it is
   the stored contents, i.e. the last min(cap,k) additions — nothing lost, nothing duplicated *)
Theorem sample_complete : forall (A : Type) c (h : list A) (b : rb A) perm bs,
  0 < c -> Inv c h b -> Permutation perm (seq 0 (size b)) -> size b <= bs ->
  Permutation (snd (rb_sample b perm bs)) (rb_contents b) /\
  Permutation (snd (rb_sample b perm bs)) (map Some (lastn (Nat.min (length h) c) h)).
Proof. exact @sample_complete_lemma. Qed.
Print Assumptions sample_complete.

(* non-vacuity of sample_complete: a wrapped buffer sampled at full width *)
Example sample_complete_nonvacuous :
  snd (rb_sample (rb_run 3 [Add [1;2]; Add [3;4;5]]) [2;0;1] 3) = [Some 3; Some 4; Some 5].
Proof. reflexivity. Qed.

Theorem clear_spec : forall (A : Type) c (ops1 ops2 : list (op A)),
  rb_run c (ops1 ++ Clear :: ops2) = rb_run c ops2 /\ spec_run (ops1 ++ Clear :: ops2) = spec_run ops2.
Proof. exact @clear_spec_lemma. Qed.
Print Assumptions clear_spec.

(* multi-agent buffer: deque(maxlen=c) after appending xs holds the last c of everything appended *)
Theorem deque_spec : forall (T : Type) c (xs l h : list T),
  l = lastn c h -> dq_extend c l xs = lastn c (h ++ xs).
Proof. exact @dq_extend_spec. Qed.
Print Assumptions deque_spec.

(* the deque never exceeds its maxlen, has exactly min(c, everything appended) entries, and holds only appended experiences *)
Theorem deque_bounded : forall (T : Type) c (xs l h : list T),
  l = lastn c h ->
  length (dq_extend c l xs) = Nat.min c (length h + length xs) /\
  length (dq_extend c l xs) <= c /\
  (forall x, In x (dq_extend c l xs) -> In x (h ++ xs)).
Proof. exact @dq_extend_bounded. Qed.
Print Assumptions deque_bounded.

Theorem reorganize_spec : forall (X : Type) (args : list (@field X)) e fi f a v,
  e < num_entries args -> nth_error args fi = Some f -> In (a, v) f ->
  exists ex sf, nth_error (reorganize args) e = Some ex /\ nth_error ex fi = Some sf /\ In (a, at_env e v) sf.
Proof. exact @reorganize_entry. Qed.
Print Assumptions reorganize_spec.

(* non-vacuity: a concrete wrapped buffer satisfies the invariant *)
Example inv_nonvacuous :
  Inv 3 [1;2;3;4;5] (rb_run 3 [Add [1;2]; Sample [1;0] 1; Add [3;4;5]]) /\
  store (rb_run 3 [Add [1;2]; Add [3;4;5]]) = [Some 4; Some 5; Some 3].
Proof.
  split; [|reflexivity].
  apply (rb_refines_spec nat 3 [Add [1;2]; Sample [1;0] 1; Add [3;4;5]]); [auto|].
  repeat constructor; cbn; auto.
Qed.

(* multi-agent sample(): entry i of what is reported for (field fi, agent a) is the value stored for that field and
   agent in the experience drawn i-th — fields and agents of one sampled experience stay together *)
Theorem ma_sample_sound : forall (X : Type) (mem : list (list (@sfield X))) idx nf agents fi a j i e f,
  fi < nf -> nth_error agents j = Some a -> nth_error idx i = Some e -> nth_error mem e = Some f ->
  exists row vals, nth_error (ma_sample mem idx nf agents) fi = Some row /\
    nth_error row j = Some (a, vals) /\
    nth_error vals i = Some (match nth_error f fi with Some fd => lookup a fd | None => None end).
Proof. exact @ma_sample_spec. Qed.
Print Assumptions ma_sample_sound.
