(* C11 — property theorems only. Each is closed by [exact] of a lemma proved in coq/theories/C11.
   Carrier of the theorems: exact rationals (instance QC of the carrier-generic model); the generic
   tree theorems hold for every carrier, hence also for the binary64 instance FC that the
   correspondence check runs bit-exactly against the implementation. *)
From Coq Require Import List Arith Lia ZArith QArith PrimFloat Morphisms.
Import ListNotations.
From AgileV Require Import Base.Prelude.
From AgileV Require C09.Model C09.Proofs.
From AgileV Require Import C11.Model C11.TreeProofs C11.SumProofs C11.MinProofs C11.RangeProofs C11.PerProofs C11.UpdateProofs C11.GenericProofs C11.Joint C11.JointProofs C11.Strict C11.StrictProofs C11.PowProofs C11.Round3Proofs.
Local Open Scope nat_scope.

(* ---------------------------------------------------------------- the segment trees ------- *)
(* SegmentTree.__setitem__ keeps every internal node equal to the operation applied to its two
   children — for EVERY carrier and operation (sum tree, min tree, rationals or binary64). *)
Theorem tree_inv : forall (T : Type) (op : T -> T -> T) (dflt : T) c l idx v,
  Inv op dflt c l -> idx < c -> Inv op dflt c (setitem op dflt c l idx v).
Proof. exact @setitem_inv. Qed.
Print Assumptions tree_inv.

(* sum()/min() read the root, and the root is the balanced fold of all leaves (any carrier) *)
Theorem root_is_fold : forall (T : Type) (op : T -> T -> T) (dflt : T) d l,
  Inv op dflt (2 ^ d) l -> root op dflt (2 ^ d) l = bfold op dflt (2 ^ d) l d 0.
Proof. exact @root_is_bfold. Qed.
Print Assumptions root_is_fold.

(* the running total agrees with a direct computation over the leaves *)
Theorem total_is_sum : forall d l, Inv Qplus 0%Q (2 ^ d) l ->
  (root Qplus 0%Q (2 ^ d) l == lsum (2 ^ d) l 0 (2 ^ d))%Q.
Proof. exact root_is_sum. Qed.
Print Assumptions total_is_sum.

(* the running minimum is below every leaf and is one of the leaves (None = +infinity) *)
Theorem min_is_min : forall d l, Inv (omin QC) None (2 ^ d) l ->
  (forall k, k < 2 ^ d -> ole (root (omin QC) None (2 ^ d) l) (leaf None (2 ^ d) l k)) /\
  (exists k, k < 2 ^ d /\ root (omin QC) None (2 ^ d) l = leaf None (2 ^ d) l k).
Proof. exact root_is_min. Qed.
Print Assumptions min_is_min.

(* SegmentTree.operate / _operate_helper (sum(start, end), min(start, end); end exclusive, 0 = up to
   the capacity): the recursive range query equals the direct computation over leaves start..end-1 *)
Theorem range_sum : forall d l s e, let c := 2 ^ d in
  Inv Qplus 0%Q c l -> s < e -> e <= c ->
  (operate Qplus 0%Q c l s e == lsum c l s (e - s))%Q /\
  (operate Qplus 0%Q c l s 0 == lsum c l s (c - s))%Q.
Proof. exact operate_is_range_sum. Qed.
Print Assumptions range_sum.

Theorem range_min : forall d l s e, let c := 2 ^ d in
  Inv (omin QC) None c l -> s < e -> e <= c ->
  let r := operate (omin QC) None c l s e in
  (forall k, s <= k < e -> ole r (leaf None c l k)) /\ (exists k, s <= k < e /\ r = leaf None c l k).
Proof. exact operate_is_range_min. Qed.
Print Assumptions range_min.

(* SumSegmentTree.retrieve: a query mass 0 <= ub < total is mapped to the index whose prefix-sum
   interval contains it, and that index has positive priority (the assertion does not fire) *)
Theorem retrieve_spec : forall d l ub, let c := 2 ^ d in
  Inv Qplus 0%Q c l -> (forall k, k < c -> (0 <= leaf 0%Q c l k)%Q) ->
  (0 <= ub)%Q -> (ub < root Qplus 0%Q c l)%Q ->
  exists r, retrieve QC c l ub = Some r /\ r < c /\
    (lsum c l 0 r <= ub)%Q /\ (ub < lsum c l 0 r + leaf 0%Q c l r)%Q /\ (0 < leaf 0%Q c l r)%Q.
Proof. exact SumProofs.retrieve_spec. Qed.
Print Assumptions retrieve_spec.

(* converse: index i is returned for exactly the query masses of an interval of length priority_i
   — a uniform query mass picks i with probability priority_i^alpha / total *)
Theorem retrieve_interval : forall d l ub i, let c := 2 ^ d in
  Inv Qplus 0%Q c l -> (forall k, k < c -> (0 <= leaf 0%Q c l k)%Q) ->
  i < c -> (lsum c l 0 i <= ub)%Q -> (ub < lsum c l 0 i + leaf 0%Q c l i)%Q ->
  retrieve QC c l ub = Some i.
Proof. exact SumProofs.retrieve_interval. Qed.
Print Assumptions retrieve_interval.

(* _sample_proportional: for every batch size, stratum and draw u in [0,1) (u = 0 included) the
   query mass u*(b-a)+a lies in its stratum [k*total/B, (k+1)*total/B) and in [0, total) *)
Theorem stratified : forall (total : Q) (B k : nat) (u : Q),
  (0 < total)%Q -> k < B -> (0 <= u)%Q -> (u < 1)%Q ->
  let seg := c_div QC total (c_of_nat QC B) in
  let ub := upper_bound QC seg k u in
  (seg * inject_Z (Z.of_nat k) <= ub)%Q /\ (ub < seg * inject_Z (Z.of_nat (k + 1)))%Q /\
  (0 <= ub)%Q /\ (ub < total)%Q.
Proof. exact stratum_bounds. Qed.
Print Assumptions stratified.

(* ---------------------------------------------------------------- the buffer --------------- *)
(* Every interleaving of add (any width, with wrap-around) / update_priorities (of stored indices,
   any values) / sample / clear from a new buffer of any max_size >= 1 (power of two or not) keeps:
   both trees consistent, positive priority <-> index < len(buffer) (unstored and padding leaves are
   0 in the sum tree and inf in the min tree, both trees hold the same priorities), tree_ptr =
   cursor, tree_ptr = len while not full, max_priority >= 1. *)
Theorem per_invariant : forall powa : Q -> Q, (forall x, (0 < x)%Q -> (0 < powa x)%Q) ->
  forall m ops, 0 < m -> run_ok powa (per_init QC m) ops -> per_inv (per_run QC powa m ops).
Proof. exact per_run_inv. Qed.
Print Assumptions per_invariant.

(* ... hence sample() only ever returns indices of stored transitions: for every batch size and
   every draw of the stratified uniforms it succeeds, returns one index < len per stratum, and the
   k-th index is the one whose prefix-sum interval contains the query mass of stratum k *)
Theorem sampled_are_stored : forall powa powb : Q -> Q, (forall x, (0 < x)%Q -> (0 < powa x)%Q) ->
  forall m ops us, 0 < m -> run_ok powa (per_init QC m) ops ->
  let s := per_run QC powa m ops in
  0 < size s -> Forall draw_ok us ->
  exists idxs ws, per_sample QC powb s us = Some (idxs, ws) /\
    length idxs = length us /\ length ws = length us /\
    Forall (fun i => i < size s) idxs /\
    forall k u, nth_error us k = Some u -> exists r, nth_error idxs k = Some r /\ hit s (length us) k u r.
Proof. exact sampled_are_stored_lemma. Qed.
Print Assumptions sampled_are_stored.

(* ... and the rows behind those indices are stored transitions. The buffer together with its storage
   (ReplayBuffer.add = the C09 ring buffer, then the priority loop): after any interleaving with
   batch widths <= max_size, len(buffer) is the ring buffer's size, the slot written next is the leaf
   written next, and every sampled index addresses a slot holding one of the last
   min(max_size, k) transitions added since the last clear *)
Theorem sampled_rows_are_stored : forall (A : Type) (powa : Q -> Q), (forall x, (0 < x)%Q -> (0 < powa x)%Q) ->
  forall (powb : Q -> Q) m (ops : list (@jop A)) us, 0 < m -> jrun_ok powa m (jinit m) ops ->
  let '(b, s) := jrun powa m ops in
  let h := jspec ops in
  0 < size s -> Forall draw_ok us ->
  exists idxs ws, per_sample QC powb s us = Some (idxs, ws) /\ length idxs = length us /\
    Forall (fun i => i < C09.Model.size b /\
              exists x, nth i (C09.Model.store b) None = Some x /\ In x (lastn (Nat.min (length h) m) h)) idxs.
Proof. exact @sampled_rows_are_stored_lemma. Qed.
Print Assumptions sampled_rows_are_stored.

(* ---- the assertion of _update_priority: idx < max_size (code as it is) vs idx < len (repair) ---- *)
(* The code as it is accepts a priority for a slot that holds no transition; sample then returns it.
   KNOWN FINDING update-unstored-accepted (fixes/C11-update-priority-stored-index.patch). *)
Theorem unstored_update_refuted : exists m ops us idxs,
  let s := per_run QC (fun x => x) m ops in
  option_map fst (per_sample QC Qinv s us) = Some idxs /\ exists i, In i idxs /\ size s <= i.
Proof.
  exists 2, [Add 1; @Update QC [(0, 2%Q); (1, 3%Q)]], [(15 # 16)%Q], [1]. split; [vm_compute; reflexivity|].
  exists 1. split; [left; reflexivity|vm_compute; lia].
Qed.
Print Assumptions unstored_update_refuted.

(* the parametrised model at strict = false IS the model of the code as it is *)
Theorem strict_false_is_model : forall (C : carrier) (powa : C -> C) m ops,
  per_run_g C powa false m ops = per_run C powa m ops.
Proof. exact per_run_g_false. Qed.
Print Assumptions strict_false_is_model.

(* with the repaired assertion the invariant holds after EVERY interleaving, whatever indices
   update_priorities is given (no guard), add() never trips the assertion, ... *)
Theorem strict_invariant : forall powa : Q -> Q, (forall x, (0 < x)%Q -> (0 < powa x)%Q) ->
  forall m ops, 0 < m -> per_inv (per_run_g QC powa true m ops).
Proof. exact strict_run_inv. Qed.
Print Assumptions strict_invariant.

(* ... sample only returns stored indices, ... *)
Theorem strict_sampled_are_stored : forall powa : Q -> Q, (forall x, (0 < x)%Q -> (0 < powa x)%Q) ->
  forall (powb : Q -> Q) m ops us, 0 < m ->
  let s := per_run_g QC powa true m ops in
  0 < size s -> Forall draw_ok us ->
  exists idxs ws, per_sample QC powb s us = Some (idxs, ws) /\
    length idxs = length us /\ Forall (fun i => i < size s) idxs.
Proof. exact StrictProofs.strict_sampled_are_stored. Qed.
Print Assumptions strict_sampled_are_stored.

(* ... and an update of an empty slot raises, leaving the state as it was *)
Theorem strict_rejects_unstored : forall (powa : Q -> Q) s i p r, size s <= i ->
  per_update_g QC powa true s ((i, p) :: r) = (s, true).
Proof. exact StrictProofs.strict_rejects_unstored. Qed.
Print Assumptions strict_rejects_unstored.

(* ---- what holds in EVERY arithmetic, in particular for the binary64 instance the check runs ---- *)
(* retrieve never leaves the tree (no rounding can produce an out-of-range index) *)
Theorem retrieve_in_tree : forall (C : carrier) d l ub r, retrieve C (2 ^ d) l ub = Some r -> r < 2 ^ d.
Proof. exact GenericProofs.retrieve_in_tree. Qed.
Print Assumptions retrieve_in_tree.

(* the structural part of the invariant: both trees consistent, capacity 2^d >= max_size, len <= max_size,
   tree_ptr < max_size, tree_ptr = cursor, tree_ptr = len while not full, leaves >= len are exactly 0 / inf,
   min-tree leaf = sum-tree leaf below len; no assertion fires *)
Theorem structure_any_carrier : forall (C : carrier) (powa : C -> C),
  c_add C (c_zero C) (c_zero C) = c_zero C ->
  forall m, 0 < m -> forall ops, grun_ok C powa (per_init C m) ops -> gper_inv C (per_run C powa m ops).
Proof. exact grun_inv. Qed.
Print Assumptions structure_any_carrier.

(* the binary64 instance FC (the one the correspondence check runs against the implementation)
   satisfies the hypothesis 0 + 0 = 0, so the structural invariant holds for it. Stated as an Example
   because it mentions the kernel's primitive floats (listed by Print Assumptions as primitives). *)
Example structure_binary64 : forall (tab : list (float * float)) m, 0 < m ->
  forall ops, grun_ok FC (tab_pow tab) (per_init FC m) ops -> gper_inv FC (per_run FC (tab_pow tab) m ops).
Proof. exact (fun tab => grun_inv FC (tab_pow tab) float_add_zero_zero). Qed.

(* so in binary64 a sampled index is always inside the tree, and it can only be an unstored one if
   the descent ended in a leaf that is exactly 0 (the named rounding gap, Example retrieve_float_gap) *)
Theorem sampled_in_tree_any_carrier : forall (C : carrier) (s : per C) us idxs ws powb, gper_inv C s ->
  per_sample C powb s us = Some (idxs, ws) ->
  Forall (fun i => i < tcap s /\ (size s <= i -> leaf (c_zero C) (tcap s) (sumt s) i = c_zero C)) idxs.
Proof. exact gsampled_in_tree. Qed.
Print Assumptions sampled_in_tree_any_carrier.

(* the n-step buffer paired with the prioritised buffer (train_off_policy: both written in lockstep, n-step
   rows gathered by Sampler.sample_n_step -> sample_from_indices with the indices sampled from the
   prioritised buffer): every such index addresses in BOTH ring buffers the record of the same stream
   position p (slot p mod capacity), and the gather returns one row per index *)
Theorem paired_rows_aligned : forall (A B : Type) c (h1 : list A) (h2 : list B)
  (b1 : C09.Model.rb A) (b2 : C09.Model.rb B) idxs,
  0 < c -> C09.Proofs.Inv c h1 b1 -> C09.Proofs.Inv c h2 b2 -> length h1 = length h2 ->
  Forall (fun i => i < C09.Model.size b1) idxs ->
  C09.Model.size b2 = C09.Model.size b1 /\
  Forall (fun i => exists p x y, nth_error h1 p = Some x /\ nth_error h2 p = Some y /\ p mod c = i /\
                     nth i (C09.Model.store b1) None = Some x /\ nth i (C09.Model.store b2) None = Some y) idxs /\
  length (sample_from_indices b2 idxs) = length idxs.
Proof. exact @paired_rows_aligned_lemma. Qed.
Print Assumptions paired_rows_aligned.

(* add(): every new transition gets (highest priority seen so far)^alpha; the maximum is unchanged *)
Theorem new_gets_max : forall powa : Q -> Q, (forall x, (0 < x)%Q -> (0 < powa x)%Q) ->
  forall s n, per_inv s ->
  exists s', per_add QC powa s n = Some s' /\ per_inv s' /\ max_prio s' = max_prio s /\
    size s' = Nat.min (size s + n) (max_size s) /\
    forall j, j < n -> leaf 0%Q (tcap s') (sumt s') ((tree_ptr s + j) mod max_size s) = powa (max_prio s).
Proof. exact PerProofs.new_gets_max. Qed.
Print Assumptions new_gets_max.

(* update_priorities(): max_priority becomes the maximum of its old value and all (floored)
   priorities passed: it dominates them and is one of them *)
Theorem max_priority_is_running_max : forall powa : Q -> Q, (forall x, (0 < x)%Q -> (0 < powa x)%Q) ->
  forall ps s, per_inv s -> Forall (fun ip => fst ip < size s) ps ->
  exists s', per_update QC powa s ps = (s', false) /\ per_inv s' /\
    max_size s' = max_size s /\ tcap s' = tcap s /\ size s' = size s /\ tree_ptr s' = tree_ptr s /\
    (max_prio s <= max_prio s')%Q /\
    Forall (fun ip => (floor_prio QC (snd ip) <= max_prio s')%Q) ps /\
    (max_prio s' = max_prio s \/ exists ip, In ip ps /\ max_prio s' = floor_prio QC (snd ip)).
Proof. exact update_inv. Qed.
Print Assumptions max_priority_is_running_max.

(* update_priorities(): afterwards every addressed leaf holds max(priority, 1e-5)^alpha of the LAST
   priority passed for it (repeated indices), every other leaf is untouched — together with
   retrieve_interval: "after priorities are updated it samples index i with probability
   proportional to priority_i^alpha" *)
Theorem update_sets_leaves : forall powa : Q -> Q, (forall x, (0 < x)%Q -> (0 < powa x)%Q) ->
  forall ps s, per_inv s -> Forall (fun ip => fst ip < size s) ps ->
  forall i, i < tcap s ->
  leaf 0%Q (tcap (fst (per_update QC powa s ps))) (sumt (fst (per_update QC powa s ps))) i =
  match last_prio ps i with
  | Some p => powa (floor_prio QC p)
  | None => leaf 0%Q (tcap s) (sumt s) i
  end.
Proof. exact update_sets_leaves_lemma. Qed.
Print Assumptions update_sets_leaves.

(* importance weights: w_i = (N P(i))^-beta / max_j (N P(j))^-beta, the maximum is attained by a
   stored transition, every weight lies in (0, 1]; x -> x^-beta is any positive antitone function *)
Theorem weights_spec : forall powb : Q -> Q,
  (forall x, (0 < x)%Q -> (0 < powb x)%Q) ->
  (forall x y, (0 < x)%Q -> (x <= y)%Q -> (powb y <= powb x)%Q) ->
  forall s idxs, per_inv s -> 0 < size s -> Forall (fun i => i < size s) idxs ->
  exists maxw,
    calculate_weights QC powb s idxs = Some (map (fun i => powb (NP s i) / maxw)%Q idxs) /\
    (exists j, j < size s /\ maxw = powb (NP s j)) /\
    (forall k, k < size s -> (powb (NP s k) <= maxw)%Q) /\
    (forall i, i < size s -> (0 < powb (NP s i) / maxw)%Q /\ (powb (NP s i) / maxw <= 1)%Q).
Proof. exact PerProofs.weights_spec. Qed.
Print Assumptions weights_spec.

(* x ** alpha and x ** -beta are parameters of the model; every function that satisfies the algebraic
   definition of a rational power x^(a/b) resp. x^(-a/b) meets the hypotheses the theorems above put on
   them (the correspondence check certifies CPython's tables against the same definition, up to 2^-40) *)
Theorem power_is_admissible_powa : forall (a : Z) (b : positive) (f : Q -> Q), (0 <= a)%Z ->
  (forall x, (0 < x)%Q -> (0 <= f x)%Q /\ (f x ^ (Zpos b) == x ^ a)%Q) ->
  forall x, (0 < x)%Q -> (0 < f x)%Q.
Proof. exact positive_power_spec. Qed.
Print Assumptions power_is_admissible_powa.

Theorem power_is_admissible_powb : forall (a : Z) (b : positive) (f : Q -> Q), (0 <= a)%Z ->
  (forall x, (0 < x)%Q -> (0 < f x)%Q /\ (f x ^ (Zpos b) * x ^ a == 1)%Q) ->
  (forall x, (0 < x)%Q -> (0 < f x)%Q) /\ (forall x y, (0 < x)%Q -> (x <= y)%Q -> (f y <= f x)%Q).
Proof. exact negative_power_spec. Qed.
Print Assumptions power_is_admissible_powb.

(* ---- round 3 ---- *)
(* the root of a consistent tree depends only on its CURRENT leaves, for every carrier and operation (so
   also in binary64): whatever larger priorities a slot held before leave no residue in sum()/min() *)
Theorem root_depends_only_on_leaves : forall (T : Type) (op : T -> T -> T) (dflt : T) d (l l' : list T),
  Inv op dflt (2 ^ d) l -> Inv op dflt (2 ^ d) l' ->
  (forall k, k < 2 ^ d -> leaf dflt (2 ^ d) l k = leaf dflt (2 ^ d) l' k) ->
  root op dflt (2 ^ d) l = root op dflt (2 ^ d) l'.
Proof. exact @root_depends_only_on_leaves_lemma. Qed.
Print Assumptions root_depends_only_on_leaves.

Theorem overwrite_forgets : forall (T : Type) (op : T -> T -> T) (dflt : T) d (l : list T) idx v w,
  Inv op dflt (2 ^ d) l -> idx < 2 ^ d ->
  root op dflt (2 ^ d) (setitem op dflt (2 ^ d) (setitem op dflt (2 ^ d) l idx v) idx w) =
  root op dflt (2 ^ d) (setitem op dflt (2 ^ d) l idx w).
Proof. exact @overwrite_forgets_lemma. Qed.
Print Assumptions overwrite_forgets.

(* update_priorities(batch) followed by add(n): the n new transitions get powa(M), M = the maximum of the
   old running maximum and ALL floored priorities of the batch (it dominates them and is one of them),
   wherever the maximum stands in the batch *)
Theorem update_then_add : forall powa : Q -> Q, (forall x, (0 < x)%Q -> (0 < powa x)%Q) ->
  forall ps s n, per_inv s -> Forall (fun ip => fst ip < size s) ps ->
  exists s1 s2 M,
    per_update QC powa s ps = (s1, false) /\ per_add QC powa s1 n = Some s2 /\ per_inv s2 /\
    M = max_prio s1 /\ max_prio s2 = M /\
    (max_prio s <= M)%Q /\ Forall (fun ip => (floor_prio QC (snd ip) <= M)%Q) ps /\
    (M = max_prio s \/ exists ip, In ip ps /\ M = floor_prio QC (snd ip)) /\
    forall j, j < n -> leaf 0%Q (tcap s2) (sumt s2) ((tree_ptr s + j) mod max_size s) = powa M.
Proof. exact update_then_add_lemma. Qed.
Print Assumptions update_then_add.

(* for a multiplicative x -> x^-beta the quotient of two weights is the quotient of powb of the two
   priorities: len(buffer) and the total cancel *)
Theorem weight_ratio : forall powb : Q -> Q,
  (forall x, (0 < x)%Q -> (0 < powb x)%Q) -> Proper (Qeq ==> Qeq) powb ->
  (forall x y, (0 < x)%Q -> (0 < y)%Q -> (powb (x * y) == powb x * powb y)%Q) ->
  forall s i j, per_inv s -> 0 < size s -> i < size s -> j < size s ->
  (powb (NP s i) / powb (NP s j) ==
   powb (leaf 0%Q (tcap s) (sumt s) i) / powb (leaf 0%Q (tcap s) (sumt s) j))%Q.
Proof. exact weight_ratio_lemma. Qed.
Print Assumptions weight_ratio.

(* a raising update_priorities call caught by the caller (any carrier, repaired assertion): exactly the pairs
   before the first index that holds no transition were applied and the call reports the failure; by
   strict_invariant the buffer keeps its invariant and goes on working *)
Theorem raising_update_applies_prefix : forall (C : carrier) (powa : C -> C) ps1 (s : per C) i p r,
  Forall (fun ip => fst ip < size s) ps1 -> size s <= i ->
  per_update_g C powa true s (ps1 ++ (i, p) :: r) = (fst (per_update_g C powa true s ps1), true) /\
  snd (per_update_g C powa true s ps1) = false.
Proof. exact raising_update_applies_prefix_lemma. Qed.
Print Assumptions raising_update_applies_prefix.

Example raising_update_example :
  let s := per_run_g QC (fun x => x) true 4 [Add 2] in
  let '(s', raised) := per_update_g QC (fun x => x) true s [(1, 5%Q); (3, 9%Q); (0, 7%Q)] in
  raised = true /\ leaf 0%Q (tcap s') (sumt s') 1 = 5%Q /\ leaf 0%Q (tcap s') (sumt s') 0 = 1%Q /\
  leaf 0%Q (tcap s') (sumt s') 3 = 0%Q /\ max_prio s' = 5%Q.
Proof. vm_compute. repeat split. Qed.

(* non-vacuity: the binary64 sum tree after 1e17 and then 0.5 in the same slot has exactly the root of the
   tree that only ever saw 0.5 (1.5), and x -> 1/x meets the hypotheses of weight_ratio *)
Example overwrite_forgets_binary64 :
  let t0 := setitem PrimFloat.add 0%float 2 (setitem PrimFloat.add 0%float 2 (tree_init 0%float 2) 0 1%float) 1 1%float in
  let t := setitem PrimFloat.add 0%float 2 (setitem PrimFloat.add 0%float 2 t0 0 0x1.6345785d8ap+56%float) 0 0.5%float in
  PrimFloat.eqb (root PrimFloat.add 0%float 2 t) 1.5%float = true.
Proof. vm_compute. reflexivity. Qed.

Example weight_ratio_hypotheses_satisfiable : Proper (Qeq ==> Qeq) Qinv /\
  (forall x y, (0 < x)%Q -> (0 < y)%Q -> (/ (x * y) == / x * / y)%Q).
Proof. exact qinv_mult_proper. Qed.

(* clear(): afterwards the buffer behaves as a new one (trees, pointer and running maximum reset) *)
Theorem clear_fresh : forall (powa : Q -> Q) m ops1 ops2,
  per_run QC powa m (ops1 ++ Clear :: ops2) = per_run QC powa m ops2.
Proof. exact PerProofs.clear_fresh. Qed.
Print Assumptions clear_fresh.

(* the pinned (pre-fix e4816a7) clear() violated the property: after clear and one addition the
   buffer holds 1 transition but sample returns index 3 *)
Theorem pinned_clear_refuted : exists m ops us idxs,
  let s := per_run_pinned QC (fun x => x) m ops in
  option_map fst (per_sample QC Qinv s us) = Some idxs /\ exists i, In i idxs /\ size s <= i.
Proof.
  exists 4, [Add 3; Clear; Add 1], [(3 # 4)%Q], [3]. split; [vm_compute; reflexivity|].
  exists 3. split; [left; reflexivity|vm_compute; lia].
Qed.
Print Assumptions pinned_clear_refuted.

(* ---------------------------------------------------------------- non-vacuity, gaps -------- *)
Definition ex_ops : list (pop QC) :=
  [Add 2; @Update QC [(0, 3%Q); (1, (1 # 1000000)%Q); (0, 7%Q)]; Add 2; @Sample QC [0%Q; (1 # 2)%Q]; Add 1].

(* a wrapped, non-power-of-two buffer satisfies the hypotheses; the state and a sample, computed *)
Example inv_nonvacuous :
  run_ok (fun x => x) (per_init QC 3) ex_ops /\
  per_inv (per_run QC (fun x => x) 3 ex_ops) /\
  size (per_run QC (fun x => x) 3 ex_ops) = 3 /\ tree_ptr (per_run QC (fun x => x) 3 ex_ops) = 2 /\
  option_map fst (per_sample QC Qinv (per_run QC (fun x => x) 3 ex_ops) [0%Q; (1 # 2)%Q; (16777215 # 16777216)%Q])
    = Some [0; 1; 2].
Proof.
  assert (H : run_ok (fun x => x) (per_init QC 3) ex_ops).
  { cbn. repeat split; repeat constructor. }
  split; [exact H|]. split; [apply per_invariant; auto|]. repeat split; vm_compute; reflexivity.
Qed.

Example joint_nonvacuous :
  let ops := [JAdd [1; 2]; JUpdate [(0, 3%Q)]; JAdd [3; 4; 5]; JSample [0%Q]] in
  jrun_ok (fun x => x) 3 (jinit 3) ops /\
  C09.Model.store (fst (jrun (fun x => x) 3 ops)) = [Some 4; Some 5; Some 3] /\
  size (snd (jrun (fun x => x) 3 ops)) = 3 /\ jspec ops = [1; 2; 3; 4; 5].
Proof. cbn. repeat split; repeat constructor. Qed.

Example weight_function_exists : (forall x, (0 < x)%Q -> (0 < / x)%Q) /\
  (forall x y, (0 < x)%Q -> (x <= y)%Q -> (/ y <= / x)%Q).
Proof. exact qinv_pos_anti. Qed.

(* guard of the theorems: update_priorities on an index that is NOT stored (allowed by the code's
   assertion idx < max_size) gives an unstored slot a positive priority, and sample returns it *)
Example update_unstored_escapes :
  let s := per_run QC (fun x => x) 4 [Add 1; @Update QC [(2, 1%Q)]] in
  size s = 1 /\ option_map fst (per_sample QC Qinv s [(3 # 4)%Q]) = Some [2].
Proof. vm_compute. split; reflexivity. Qed.

(* named gap (binary64 only): fl(L+R) can exceed L+R, and a query mass within one ulp of the total
   descends into a leaf of priority 0. Needs a uniform draw within 2^-53 of 1; torch.rand returns
   multiples of 2^-24, so it is unreachable for batch sizes below 2^28. Not a finding. *)
Example retrieve_float_gap :
  let l := fold_left (fun l iv => setitem PrimFloat.add 0%float 4 l (fst iv) (snd iv))
             [(0, 0x1.0624dd2f1a9fcp-10%float); (1, 0x1.999999999999ap-3%float); (2, 0x1.6666666666666p-1%float)] (tree_init 0%float 4) in
  retrieve_go FC 4 1 4 l 0x1.cd4fdf3b645a1p-1%float = 3 /\
  PrimFloat.ltb 0x1.cd4fdf3b645a1p-1%float (get 0%float l 1) = true /\
  PrimFloat.eqb (leaf 0%float 4 l 3) 0%float = true.
Proof. vm_compute. repeat split. Qed.
