(* C12 — property theorems only. Each is closed by [exact] of a lemma proved in C12/Proofs*.v. *)
From Coq Require Import List Arith Bool ZArith.
Import ListNotations.
From AgileV Require Import Base.Prelude C12.Model C12.Proofs C12.ProofsShm C12.ProofsInfo C12.ProofsVec C12.ProofsReset C12.ProofsPinned C12.ProofsLoop.

(* Position i of every result of a vectorised run is what environment i returns when it is stepped
   alone (under auto-reset: [single_step] resets when no agent is left alive and returns the first
   observation of the new episode) with its own actions — for every number of environments, every
   family parameters (episode lengths, end modes, leavers: resets interleave arbitrarily), every
   observation kind and every sequence of action batches. [process_transition] only adds the
   placeholders of agents that have left (see fill_spec). The final state of sub-environment i is
   the state of the environment run alone: no other environment's episode end resets it. *)
Theorem vec_refines_singles : forall k agents Es actss st i E s,
  NoDup agents -> Forall (fun E => kind E = k) Es -> wf_vstate (length Es) k agents st ->
  Forall (actions_ok (length Es)) actss ->
  nth_error Es i = Some E -> nth_error (vstates st) i = Some s ->
  let acts_i := map (fun actions => nth i (transpose_actions agents actions 0%Z) []) actss in
  nth_error (vstates (fst (vec_run k agents Es st actss))) i = Some (fst (single_run single_step E s acts_i)) /\
  Forall2 (fun out ref => agrees_at k agents i out (process_transition k agents ref))
          (snd (vec_run k agents Es st actss)) (snd (single_run single_step E s acts_i)).
Proof. exact vec_refines_singles_lemma. Qed.
Print Assumptions vec_refines_singles.

(* The same for EVERY environment, not only the scripted family: an environment is any pair of
   step / reset functions over any state type; the contract is what the vector environment relies
   on — (1) the termination / truncation flags say "every listed agent has finished" exactly when
   the environment's agent list becomes empty, (2) observations have the sizes of the declared
   space, (3) info dicts have no duplicate keys (they are Python dicts). Then, from construction,
   position i of everything reset(seed) / step(actions) return is what environment i returns when it
   is reset alone with seed + i and stepped alone under auto-reset with its own actions. *)
Theorem vec_session_refines_any_env :
  forall (env state : Type)
         (e_step : env -> state -> list Z -> state * trans)
         (e_reset : env -> state -> rarg -> state * (dict obs_t * dict info_t))
         (e_kind : env -> okind) (e_live : state -> list nat) (s_init : state),
  (forall E s acts, all_done_keys (snd (e_step E s acts)) = g_no_agent_left e_live (fst (e_step E s acts))) ->
  (forall E s acts a ob, lookup a (tobs (snd (e_step E s acts))) = Some ob -> obs_ok (mshapes (e_kind E)) ob) ->
  (forall E s seed a ob, lookup a (fst (snd (e_reset E s seed))) = Some ob -> obs_ok (mshapes (e_kind E)) ob) ->
  (forall E s acts a d, lookup a (tinfo (snd (e_step E s acts))) = Some d -> NoDup (keys d)) ->
  (forall E s seed a d, lookup a (snd (snd (e_reset E s seed))) = Some d -> NoDup (keys d)) ->
  forall k agents Es sd opt actss i E,
  NoDup agents -> Forall (fun E0 => e_kind E0 = k) Es -> Forall (actions_ok (length Es)) actss ->
  seed_ok (length Es) sd -> nth_error Es i = Some E ->
  let st0 := fst (g_vec_reset (g_worker_reset e_reset e_kind) e_kind k agents Es (g_vec_init s_init k agents Es) sd opt) in
  let s0 := fst (e_reset E s_init (rarg_at (length Es) sd opt i)) in
  let acts_i := map (fun actions => nth i (transpose_actions agents actions 0%Z) []) actss in
  nth_error (vstates (fst (g_vec_run (g_worker_step e_step e_reset e_kind) e_kind k agents Es st0 actss))) i
    = Some (fst (g_run (g_single_step e_step e_reset e_live) E s0 acts_i)) /\
  Forall2 (fun out ref => agrees_at k agents i out (process_transition k agents ref))
          (snd (g_vec_run (g_worker_step e_step e_reset e_kind) e_kind k agents Es st0 actss))
          (snd (g_run (g_single_step e_step e_reset e_live) E s0 acts_i)).
Proof. exact @g_vec_session_refines. Qed.
Print Assumptions vec_session_refines_any_env.

(* ... and for ANY history of calls, reset(seed, options) and step(actions) in any order and any
   number (a reset in the middle of episodes, two resets in a row, ...): the state of sub-environment
   i is that of environment i after its own history, and every outcome agrees at position i *)
Theorem vec_events_refines_any_env :
  forall (env state : Type)
         (e_step : env -> state -> list Z -> state * trans)
         (e_reset : env -> state -> rarg -> state * (dict obs_t * dict info_t))
         (e_kind : env -> okind) (e_live : state -> list nat),
  (forall E s acts, all_done_keys (snd (e_step E s acts)) = g_no_agent_left e_live (fst (e_step E s acts))) ->
  (forall E s acts a ob, lookup a (tobs (snd (e_step E s acts))) = Some ob -> obs_ok (mshapes (e_kind E)) ob) ->
  (forall E s ra a ob, lookup a (fst (snd (e_reset E s ra))) = Some ob -> obs_ok (mshapes (e_kind E)) ob) ->
  (forall E s acts a d, lookup a (tinfo (snd (e_step E s acts))) = Some d -> NoDup (keys d)) ->
  (forall E s ra a d, lookup a (snd (snd (e_reset E s ra))) = Some d -> NoDup (keys d)) ->
  forall k agents Es evs (st : gvstate state) i E s,
  NoDup agents -> Forall (fun E0 => e_kind E0 = k) Es -> wf_vstate (length Es) k agents st ->
  Forall (event_ok (length Es)) evs ->
  nth_error Es i = Some E -> nth_error (vstates st) i = Some s ->
  let evs_i := map (event_at (length Es) agents i) evs in
  nth_error (vstates (fst (g_vec_events (g_worker_step e_step e_reset e_kind) (g_worker_reset e_reset e_kind)
                             e_kind k agents Es st evs))) i
    = Some (fst (g_events e_step e_reset e_live E s evs_i)) /\
  Forall2 (outcome_agrees k agents i)
          (snd (g_vec_events (g_worker_step e_step e_reset e_kind) (g_worker_reset e_reset e_kind)
                  e_kind k agents Es st evs))
          (snd (g_events e_step e_reset e_live E s evs_i)).
Proof. exact @g_vec_events_refines. Qed.
Print Assumptions vec_events_refines_any_env.

(* [outcome_agrees] and [event_at] spelled out *)
Theorem outcome_agrees_unfold : forall k agents i vo so,
  outcome_agrees k agents i vo so <->
  match vo, so with
  | OStep out, SoStep ref => agrees_at k agents i out (process_transition k agents ref)
  | OReset r, SoReset w =>
      forall a, In a agents ->
        obs_row i k (get a (fst r) []) = get a (fst w) (placeholder_obs k) /\
        (forall key, info_at (snd r) a key i = info_in (snd w) a key)
  | _, _ => False
  end.
Proof. exact (fun k agents i vo so => iff_refl _). Qed.
Print Assumptions outcome_agrees_unfold.

Theorem vec_events_refines : forall k agents Es evs (st : vstate) i E s,
  NoDup agents -> Forall (fun E => kind E = k) Es -> wf_vstate (length Es) k agents st ->
  Forall (event_ok (length Es)) evs ->
  nth_error Es i = Some E -> nth_error (vstates st) i = Some s ->
  let evs_i := map (event_at (length Es) agents i) evs in
  nth_error (vstates (fst (vec_events k agents Es st evs))) i = Some (fst (single_events E s evs_i)) /\
  Forall2 (outcome_agrees k agents i) (snd (vec_events k agents Es st evs)) (snd (single_events E s evs_i)).
Proof. exact vec_events_refines_lemma. Qed.
Print Assumptions vec_events_refines.

(* for every such environment the worker's step is the reference step followed by process_transition,
   and the single-environment wrapper is the reference step *)
Theorem worker_refines_single_any_env :
  forall (env state : Type) (e_step : env -> state -> list Z -> state * trans)
         (e_reset : env -> state -> rarg -> state * (dict obs_t * dict info_t))
         (e_kind : env -> okind) (e_live : state -> list nat),
  (forall E s acts, all_done_keys (snd (e_step E s acts)) = g_no_agent_left e_live (fst (e_step E s acts))) ->
  forall E agents s acts,
  g_worker_step e_step e_reset e_kind E agents s acts =
  (fst (g_single_step e_step e_reset e_live E s acts),
   process_transition (e_kind E) agents (snd (g_single_step e_step e_reset e_live E s acts))).
Proof. exact @g_worker_refines_single. Qed.
Print Assumptions worker_refines_single_any_env.

Theorem wrapper_same_condition_any_env :
  forall (env state : Type) (e_step : env -> state -> list Z -> state * trans)
         (e_reset : env -> state -> rarg -> state * (dict obs_t * dict info_t))
         (e_live : state -> list nat),
  (forall E s acts, all_done_keys (snd (e_step E s acts)) = g_no_agent_left e_live (fst (e_step E s acts))) ->
  forall E s acts, g_wrapper_step e_step e_reset E s acts = g_single_step e_step e_reset e_live E s acts.
Proof. exact @g_wrapper_same_condition. Qed.
Print Assumptions wrapper_same_condition_any_env.

(* the scripted family (the one K runs against the real code) meets the contract *)
Theorem scripted_family_meets_contract :
  (forall E s acts, all_done_keys (snd (raw_step E s acts)) = g_no_agent_left live (fst (raw_step E s acts))) /\
  (forall E s acts a ob, lookup a (tobs (snd (raw_step E s acts))) = Some ob -> obs_ok (mshapes (kind E)) ob) /\
  (forall E s seed a ob, lookup a (fst (snd (env_reset E s seed))) = Some ob -> obs_ok (mshapes (kind E)) ob) /\
  (forall E s acts a d, lookup a (tinfo (snd (raw_step E s acts))) = Some d -> NoDup (keys d)) /\
  (forall E s seed a d, lookup a (snd (snd (env_reset E s seed))) = Some d -> NoDup (keys d)).
Proof. exact (conj all_done_keys_spec (conj raw_obs_ok (conj reset_obs_ok (conj raw_info_nodup reset_info_nodup)))). Qed.
Print Assumptions scripted_family_meets_contract.

(* [agrees_at] spelled out (so that the statement above can be read without the proof files):
   observation row i, reward, termination, truncation at position i, and the info entries / agent
   mask that the masks declare present at position i *)
Theorem agrees_at_unfold : forall k agents i out w,
  agrees_at k agents i out w <->
  forall a, In a agents ->
    obs_row i k (get a (vobs out) []) = get a (tobs w) [] /\
    nth_error (get a (vrew out) []) i = Some (get a (trew w) 0%Z) /\
    nth_error (get a (vterm out) []) i = Some (get a (tterm w) false) /\
    nth_error (get a (vtrunc out) []) i = Some (get a (ttrunc w) false) /\
    (forall key, info_at (vinfos out) a key i = info_in (tinfo w) a key) /\
    mask_at (vinfos out) a i = has_agent (tinfo w) a.
Proof. exact (fun k agents i out w => iff_refl _). Qed.
Print Assumptions agrees_at_unfold.

(* the same from construction: vec_env = AsyncPettingZooVecEnv(fns); reset(seed); step* — position i is
   environment i reset alone with seed + i (no seed: None) and then stepped alone *)
Theorem vec_session_refines : forall k agents Es sd opt actss i E,
  NoDup agents -> Forall (fun E => kind E = k) Es -> Forall (actions_ok (length Es)) actss ->
  seed_ok (length Es) sd -> nth_error Es i = Some E ->
  let st0 := fst (vec_reset k agents Es (vec_init k agents Es) sd opt) in
  let s0 := fst (env_reset E init_state (rarg_at (length Es) sd opt i)) in
  let acts_i := map (fun actions => nth i (transpose_actions agents actions 0%Z) []) actss in
  nth_error (vstates (fst (vec_run k agents Es st0 actss))) i = Some (fst (single_run single_step E s0 acts_i)) /\
  Forall2 (fun out ref => agrees_at k agents i out (process_transition k agents ref))
          (snd (vec_run k agents Es st0 actss)) (snd (single_run single_step E s0 acts_i)).
Proof. exact vec_session_refines_lemma. Qed.
Print Assumptions vec_session_refines.

(* vec_env.reset(seed): observation / info at position i are those of environment i reset alone *)
Theorem vec_reset_refines : forall k agents Es st sd opt i E s,
  NoDup agents -> Forall (fun E => kind E = k) Es -> wf_vstate (length Es) k agents st ->
  seed_ok (length Es) sd ->
  nth_error Es i = Some E -> nth_error (vstates st) i = Some s ->
  let r := vec_reset k agents Es st sd opt in
  let w := worker_reset E agents s (rarg_at (length Es) sd opt i) in
  wf_vstate (length Es) k agents (fst r) /\
  nth_error (vstates (fst r)) i = Some (fst w) /\
  forall a, In a agents ->
    obs_row i k (get a (fst (snd r)) []) = get a (fst (snd w)) [] /\
    (forall key, info_at (snd (snd r)) a key i = info_in (snd (snd w)) a key) /\
    mask_at (snd (snd r)) a i = has_agent (snd (snd w)) a.
Proof. exact vec_reset_refines_lemma. Qed.
Print Assumptions vec_reset_refines.

(* what worker i receives from reset(seed, options): seed + i for an int seed, None for no seed, the
   i-th entry of a list of seeds; the options unchanged *)
Theorem reset_args_spec : forall n opt i,
  (forall z, i < n -> rarg_at n (SInt z) opt i = (Some (z + Z.of_nat i)%Z, opt)) /\
  (i < n -> rarg_at n SNone opt i = (None, opt)) /\
  (forall l z, nth_error l i = Some z -> rarg_at (length l) (SList l) opt i = (Some z, opt)).
Proof. exact (fun n opt i => conj (fun z H => rarg_at_int n z opt i H) (conj (rarg_at_none n opt i) (fun l z H => rarg_at_list l opt i z H))). Qed.
Print Assumptions reset_args_spec.

(* ... and the scripted family makes both visible: the seed in every observation (feature 1 = base +
   episode), options["opt"] in the info returned by reset (key 2) *)
Theorem reset_plumbing : forall E s seed opt a,
  a < nag E -> joins_late E a = false ->
  let r := env_reset E s (seed, opt) in
  base (fst r) = match seed with Some z => z | None => base s end /\
  info_in (snd (snd r)) a 2 = opt.
Proof. exact reset_plumbing_lemma. Qed.
Print Assumptions reset_plumbing.

(* when the last live agent of a sub-environment finishes, its worker resets it and the observation
   returned for every agent is the first observation of the new episode; otherwise nothing is reset *)
Theorem autoreset_first_obs : forall E agents s acts a,
  no_agent_left (fst (raw_step E s acts)) = true -> In a agents -> a < nag E -> joins_late E a = false ->
  let r := worker_step E agents s acts in
  fst r = fst (env_reset E (fst (raw_step E s acts)) no_rarg) /\
  ord (fst r) = S (ord s) /\ tm (fst r) = 0 /\
  get a (tobs (snd r)) [] = observe E (fst r) a 0%Z.
Proof. exact autoreset_first_obs_lemma. Qed.
Print Assumptions autoreset_first_obs.

Theorem no_reset_while_alive : forall E agents s acts,
  no_agent_left (fst (raw_step E s acts)) = false ->
  fst (worker_step E agents s acts) = fst (raw_step E s acts) /\
  snd (worker_step E agents s acts) = process_transition (kind E) agents (snd (raw_step E s acts)).
Proof. exact no_reset_while_alive_lemma. Qed.
Print Assumptions no_reset_while_alive.

(* _add_info: position i of every value array, read through its mask, is environment i's info *)
Theorem gather_info_spec : forall n infos a key i info,
  length infos <= n -> Forall info_wf infos -> nth_error infos i = Some info ->
  info_at (gather_info n infos) a key i = info_in info a key /\
  mask_at (gather_info n infos) a i = has_agent info a.
Proof. exact gather_info_spec_lemma. Qed.
Print Assumptions gather_info_spec.

(* the worker's step is the reference step followed by process_transition *)
Theorem worker_refines_single : forall E agents s acts,
  worker_step E agents s acts =
  (fst (single_step E s acts), process_transition (kind E) agents (snd (single_step E s acts))).
Proof. exact worker_refines_single_lemma. Qed.
Print Assumptions worker_refines_single.

(* agents returned by the environment keep their values; agents that left get the placeholders *)
Theorem fill_spec : forall k agents ref a,
  In a agents ->
  get a (tobs (process_transition k agents ref)) [] = get a (tobs ref) (placeholder_obs k) /\
  get a (trew (process_transition k agents ref)) 0%Z = get a (trew ref) 0%Z /\
  get a (tterm (process_transition k agents ref)) false = get a (tterm ref) true /\
  get a (ttrunc (process_transition k agents ref)) false = get a (ttrunc ref) false /\
  (forall key, info_in (tinfo (process_transition k agents ref)) a key = info_in (tinfo ref) a key) /\
  has_agent (tinfo (process_transition k agents ref)) a = true.
Proof. exact fill_spec_lemma. Qed.
Print Assumptions fill_spec.

(* shared memory: what worker i wrote is read at position i for every agent; every other position
   is unchanged — for all num_envs, all member structures/shapes of the family *)
Theorem shm_write_read : forall i j n k agents o m a,
  i < n -> j < n -> wf_mem n k agents m -> wf_obs k agents o -> In a agents ->
  row_of n k (write_shm i k o m) a j = if Nat.eqb j i then get a o [] else row_of n k m a j.
Proof. exact shm_write_read_lemma. Qed.
Print Assumptions shm_write_read.

(* the slice arithmetic for one buffer, for every size and every number of environments *)
Theorem slice_write_read : forall i j n size (row flat : list Z),
  i < n -> j < n -> length row = size -> length flat = n * size ->
  read_row j size (write_row i size row flat) = if Nat.eqb j i then row else read_row j size flat.
Proof. exact slice_write_read_lemma. Qed.
Print Assumptions slice_write_read.

(* write_to_shared_memory's loop over observation.items(), exactly as written, is the per-agent update
   [write_shm] used in the statements above *)
Theorem write_shm_loop_spec : forall i k (o : dict obs_t) (m : shm),
  NoDup (keys o) ->
  keys (write_shm_loop i k o m) = keys m /\
  forall a, lookup a (write_shm_loop i k o m) = lookup a (write_shm i k o m).
Proof. exact write_shm_loop_spec_lemma. Qed.
Print Assumptions write_shm_loop_spec.

(* the writes of two different workers commute: the sequential model covers every schedule *)
Theorem write_commute : forall i j n k agents o1 o2 m,
  i < n -> j < n -> i <> j -> wf_mem n k agents m -> wf_obs k agents o1 -> wf_obs k agents o2 ->
  write_shm i k o1 (write_shm j k o2 m) = write_shm j k o2 (write_shm i k o1 m).
Proof. exact write_commute_lemma. Qed.
Print Assumptions write_commute.

(* PettingZooVecEnv.step: entry (environment e, agent number j) of the transposed list is the action
   the caller gave for that agent and that environment *)
Theorem transpose_spec : forall (X : Type) agents (actions : dict (list X)) d e j a,
  e < n_actions actions -> nth_error agents j = Some a ->
  nth_error (nth e (transpose_actions agents actions d) []) j = Some (nth e (get a actions []) d).
Proof. exact @transpose_spec_lemma. Qed.
Print Assumptions transpose_spec.

(* the single-environment wrapper restarts episodes under the same condition as the reference *)
Theorem wrapper_same_condition : forall E s acts, wrapper_step E s acts = single_step E s acts.
Proof. exact wrapper_same_condition_lemma. Qed.
Print Assumptions wrapper_same_condition.

(* returned arrays: one per member of the space, shape (num_envs, *member shape), num_envs*size data *)
Theorem dtype_shape_decl : forall n k agents m a,
  wf_mem n k agents m -> In a agents ->
  exists arrs, lookup a (read_obs n k m) = Some arrs /\
    map fst arrs = map (fun sh => n :: ret_shape k sh) (mshapes k) /\
    Forall (fun sa => length (snd sa) = n * msize (fst sa)) (combine (mshapes k) (map snd arrs)).
Proof. exact shapes_decl_lemma. Qed.
Print Assumptions dtype_shape_decl.

(* behaviour before commit 8e2ceb2 (kept as models worker_step_pinned / wrapper_step_pinned) *)
Theorem autoreset_obs_refuted :
  exists E agents s acts,
    option_map tobs (snd (worker_step_pinned E agents s acts))
    <> Some (tobs (process_transition (kind E) agents (snd (single_step E s acts)))).
Proof. exact autoreset_obs_refuted_lemma. Qed.
Print Assumptions autoreset_obs_refuted.

Theorem leave_early_refuted :
  exists E agents s acts,
    snd (worker_step_pinned E agents s acts) = None /\
    keys (tobs (process_transition (kind E) agents (snd (single_step E s acts)))) = agents.
Proof. exact leave_early_refuted_lemma. Qed.
Print Assumptions leave_early_refuted.

Theorem wrapper_trunc_refuted :
  exists E s acts, fst (wrapper_step_pinned E s acts) <> fst (single_step E s acts).
Proof. exact wrapper_trunc_refuted_lemma. Qed.
Print Assumptions wrapper_trunc_refuted.

(* non-vacuity: a concrete vector environment (two sub-environments with different episode lengths,
   an agent that leaves early, Dict observations) satisfies the hypotheses of vec_refines_singles,
   and its run does reset sub-environment 0 while sub-environment 1 is mid-episode *)
Definition Ex_envs : list senv :=
  [ {| eid := 0; nag := 2; lens := [1]; mode := MTrunc; leave := [None; None]; kind := KDict; unaligned := false; join := [] |};
    {| eid := 1; nag := 2; lens := [3]; mode := MTerm; leave := [Some 1; None]; kind := KDict; unaligned := false; join := [] |} ].
Definition Ex_st : vstate := fst (vec_reset KDict [0; 1] Ex_envs (vec_init KDict [0; 1] Ex_envs) (SInt 5%Z) (Some 9%Z)).
Definition Ex_actions : list (dict (list Z)) := [ [(0, [1; 2]%Z); (1, [3; 4]%Z)]; [(0, [0; 1]%Z); (1, [2; 3]%Z)] ].
Example hypotheses_satisfiable :
  Forall (fun E => kind E = KDict) Ex_envs /\ wf_vstate (length Ex_envs) KDict [0; 1] Ex_st /\
  Forall (actions_ok (length Ex_envs)) Ex_actions /\
  map ord (vstates (fst (vec_run KDict [0; 1] Ex_envs Ex_st Ex_actions))) = [3; 1] /\
  map live (vstates (fst (vec_run KDict [0; 1] Ex_envs Ex_st Ex_actions))) = [[0; 1]; [1]].
Proof.
  split; [repeat constructor|]. split; [|split; [repeat constructor|vm_compute; auto]].
  split; [reflexivity|]. split; [reflexivity|]. vm_compute. repeat constructor.
Qed.

(* the positional test of the tree without fixes/C12-worker-done-test-by-key.patch is correct for
   environments whose dicts are aligned ... *)
Theorem worker_zip_aligned : forall E agents s acts,
  unaligned E = false -> worker_step_zip E agents s acts = worker_step E agents s acts.
Proof. exact worker_zip_aligned_lemma. Qed.
Print Assumptions worker_zip_aligned.

(* ... and misses the reset otherwise (finding: every agent has finished, the environment stepped
   alone restarts, the worker does not) *)
Theorem zip_autoreset_refuted :
  exists E agents s acts,
    no_agent_left (fst (raw_step E s acts)) = true /\
    ord (fst (worker_step_zip E agents s acts)) = ord s /\
    ord (fst (single_step E s acts)) = S (ord s).
Proof. exact zip_autoreset_refuted_lemma. Qed.
Print Assumptions zip_autoreset_refuted.

Theorem zip_condition_needs_aligned_dicts :
  exists tr, keys (tterm tr) = [0; 1] /\ keys (ttrunc tr) = [1; 0] /\
             all_done_keys tr = true /\ all_done_zip tr = false.
Proof. exact zip_condition_needs_aligned_dicts_lemma. Qed.
Print Assumptions zip_condition_needs_aligned_dicts.

(* agents that join late: absent from what reset returns, shown as placeholders by the vector environment *)
Theorem late_joiner_placeholder : forall E agents s ra a,
  In a agents -> joins_late E a = true ->
  get a (fst (snd (worker_reset E agents s ra))) [] = placeholder_obs (kind E) /\
  has_agent (snd (snd (env_reset E s ra))) a = false.
Proof. exact late_joiner_placeholder_lemma. Qed.
Print Assumptions late_joiner_placeholder.

(* non-vacuity of vec_events_refines: a history with a reset in the middle of sub-environment 1's episode
   (seeds given as a list), two resets in a row and a step after them satisfies the hypotheses *)
Definition Ex_events : list vevent :=
  [ EvReset (SInt 5%Z) (Some 9%Z); EvStep [(0, [1; 2]%Z); (1, [3; 4]%Z)];
    EvReset (SList [7; 3]%Z) None; EvReset SNone (Some 2%Z); EvStep [(1, [0; 1]%Z); (0, [2; 3]%Z)] ].
Example events_hypotheses_satisfiable :
  Forall (event_ok (length Ex_envs)) Ex_events /\
  wf_vstate (length Ex_envs) KDict [0; 1] (vec_init KDict [0; 1] Ex_envs) /\
  map (fun s => (base s, ord s, tm s)) (vstates (fst (vec_events KDict [0; 1] Ex_envs (vec_init KDict [0; 1] Ex_envs) Ex_events)))
  = [(7%Z, 5, 0); (3%Z, 3, 1)].
Proof.
  split; [repeat constructor|]. split; [apply vec_init_wf|]. vm_compute. reflexivity.
Qed.
