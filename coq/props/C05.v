(* C05 — property theorems only. Each is closed by [exact] of a lemma proved in C05/Proofs.v.
   Tournament selection keeps the fittest and builds a well-formed generation. *)
From Coq Require Import List Arith ZArith QArith.
Import ListNotations.
From AgileV Require Import Base.Prelude C05.Model C05.Proofs C05.SortModel C05.SortProofs C05.HeapModel C05.HeapProofs C05.PinnedModel C05.PinnedProofs C05.AnyRankProofs C05.WrapperPinnedModel C05.WrapperPinnedProofs C05.CachedModel C05.CachedProofs C05.Check.
Local Open Scope nat_scope.

(* np.argsort(x).argsort() with a stable sort is a valid ranking: a permutation of 0..n-1 that is
   strictly monotone in the means.  (NumPy's default sort may break ties differently; every theorem
   below is stated for an arbitrary valid ranking, so it covers any tie-breaking.) *)
Theorem ranks_perm : forall m : list Q, valid_ranking m (ranks m).
Proof. exact ranks_valid. Qed.
Print Assumptions ranks_perm.

(* the stable ranking breaks ties by position *)
Theorem ranks_ties_by_position : forall (m : list Q) i j, i < length m -> j < length m ->
  (nth i m 0 == nth j m 0)%Q -> i < j -> nth i (ranks m) 0 < nth j (ranks m) 0.
Proof. exact ranks_stable. Qed.
Print Assumptions ranks_ties_by_position.

(* the window mean is the mean (sum / count) of the last eval_loop scores, older scores are irrelevant *)
Theorem mean_is_sum_over_count : forall l : list Q, l <> [] ->
  (mean l * inject_Z (Z.of_nat (length l)) == sumQ l)%Q.
Proof. exact mean_spec. Qed.
Print Assumptions mean_is_sum_over_count.

Theorem mean_last_ignores_older : forall w (old recent : list Q), length recent = w ->
  mean_last w (old ++ recent) = mean_last w recent.
Proof. exact mean_last_window. Qed.
Print Assumptions mean_last_ignores_older.

(* elite: a copy (same fitness, same body, same index) of an agent whose window mean is maximal and
   whose rank is n-1; with elitism on, it is the first member of the new population *)
Theorem elite_is_best : forall (P : Type) rk c (pop : list (agent P)) draws e np,
  valid_ranking (means c pop) rk -> select_with rk c pop draws = Some (e, np) ->
  exists p parent, nth_error pop p = Some parent /\
    (forall j, j < length pop -> (nth j (means c pop) 0 <= nth p (means c pop) 0)%Q) /\
    nth p rk 0 = length pop - 1 /\
    copy_of e parent /\ a_index e = a_index parent /\
    (elitism c = true -> exists first others, np = first :: others /\
                           copy_of first parent /\ a_index first = a_index parent).
Proof. exact @elite_is_best_lemma. Qed.
Print Assumptions elite_is_best.

(* every other member is a copy of one of the agents drawn for its tournament, namely one whose rank
   (hence mean) is maximal among the drawn ones, and carries index max_id + 1 + i *)
Theorem winner_best_of_drawn : forall (P : Type) rk c (pop : list (agent P)) draws e np i,
  valid_ranking (means c pop) rk -> select_with rk c pop draws = Some (e, np) ->
  i < nsel c -> nth i draws [] <> [] -> (forall d, In d (nth i draws []) -> d < length pop) ->
  exists w child parent,
    nth_error np (off c + i) = Some child /\ In w (nth i draws []) /\ nth_error pop w = Some parent /\
    copy_of child parent /\ a_index child = (max_id pop + 1 + Z.of_nat i)%Z /\
    (forall d, In d (nth i draws []) -> nth d rk 0 <= nth w rk 0) /\
    (forall d, In d (nth i draws []) -> (nth d (means c pop) 0 <= nth w (means c pop) 0)%Q).
Proof. exact @winner_best_of_drawn_lemma. Qed.
Print Assumptions winner_best_of_drawn.

(* exactly population_size members, for any old size >= 1, both elitism settings, any ranking/draws *)
Theorem size_exact : forall (P : Type) rk c (pop : list (agent P)) draws e np,
  0 < psize c -> select_with rk c pop draws = Some (e, np) -> length np = psize c.
Proof. exact @size_exact_lemma. Qed.
Print Assumptions size_exact.

(* select fails only on an empty population *)
Theorem select_total : forall (P : Type) rk c (pop : list (agent P)) draws,
  select_with rk c pop draws = None <-> pop = [].
Proof. exact @select_none. Qed.
Print Assumptions select_total.

(* fresh indices: max_id+1 .. max_id+k, pairwise distinct, unused by the old population and by the
   elite; the elite keeps an old index; all indices of the new population are pairwise distinct *)
Theorem indices_fresh : forall (P : Type) rk c (pop : list (agent P)) draws e np,
  select_with rk c pop draws = Some (e, np) ->
  let fresh := skipn (off c) (map a_index np) in
  fresh = map (fun i => (max_id pop + 1 + Z.of_nat i)%Z) (seq 0 (nsel c)) /\
  NoDup fresh /\
  (forall x, In x fresh -> ~ In x (map a_index pop)) /\
  (forall x, In x fresh -> x <> a_index e) /\
  In (a_index e) (map a_index pop) /\
  NoDup (map a_index np).
Proof. exact @indices_fresh_lemma. Qed.
Print Assumptions indices_fresh.

(* every returned agent carries exactly the data of an agent of the old population *)
Theorem members_are_copies : forall (P : Type) rk c (pop : list (agent P)) draws e np,
  select_with rk c pop draws = Some (e, np) ->
  forall child, In child (e :: np) -> exists parent, In parent pop /\ copy_of child parent.
Proof. exact @members_are_copies_lemma. Qed.
Print Assumptions members_are_copies.

(* whatever the tie-breaking of the sort, the generation is the same up to the mean class of parents *)
Theorem select_tie_invariant : forall (P : Type) rk1 rk2 c (pop : list (agent P)) draws,
  valid_ranking (means c pop) rk1 -> valid_ranking (means c pop) rk2 -> pop <> [] ->
  (forall i, i < nsel c -> nth i draws [] <> [] /\ forall d, In d (nth i draws []) -> d < length pop) ->
  let p1 := select_plan rk1 c (max_id pop) draws in
  let p2 := select_plan rk2 c (max_id pop) draws in
  let ms := means c pop in
  (nth (p_elite p1) ms 0 == nth (p_elite p2) ms 0)%Q /\
  Forall2 (fun a b : nat * option Z => (nth (fst a) ms 0 == nth (fst b) ms 0)%Q /\ snd a = snd b)
          (p_members p1) (p_members p2).
Proof. exact @select_tie_invariant_lemma. Qed.
Print Assumptions select_tie_invariant.

(* over any number of generations (select, then an arbitrary mutation of everything but index and
   fitness, then scores appended to every member), with any ranking function, draws, mutations and scores: indices stay pairwise distinct and the size is population_size *)
Theorem indices_distinct_over_generations :
  forall (P : Type) (rkf : list Q -> list nat) c (gs : list (@generation P)),
  0 < psize c -> forall pop : list (agent P), pop <> [] -> NoDup (map a_index pop) ->
  let r := run_generations rkf c pop gs in
  NoDup (map a_index r) /\ r <> [] /\ (gs <> [] -> length r = psize c).
Proof. exact @generations_lemma. Qed.
Print Assumptions indices_distinct_over_generations.


(* over the whole history of populations ([trace]: before the first generation, after the first, ...):
   an index handed out as fresh in some generation never occurs in any earlier population *)
Theorem fresh_never_reused :
  forall (P : Type) (rkf : list Q -> list nat) c (gs : list (@generation P)),
  0 < psize c -> forall pop : list (agent P), pop <> [] ->
  forall g1 g2 p1 p2, g1 < g2 ->
    nth_error (trace rkf c pop gs) g1 = Some p1 -> nth_error (trace rkf c pop gs) g2 = Some p2 ->
    forall x, In x (fresh_of c p2) -> ~ In x (map a_index p1).
Proof. exact @fresh_never_reused_lemma. Qed.
Print Assumptions fresh_never_reused.

(* the literal transcription of np.argsort(x, kind="stable").argsort() (stable insertion sort of the
   positions, then the inverse permutation) equals the counting definition of the ranks *)
Theorem argsort_argsort_is_rank : forall m : list Q, ranks_lit m = ranks m.
Proof. exact ranks_lit_eq. Qed.
Print Assumptions argsort_argsort_is_rank.



(* selection invents no fitness: no member of the new generation has a window mean above the elite's *)
Theorem elite_dominates_generation : forall (P : Type) rk c (pop : list (agent P)) draws e np,
  valid_ranking (means c pop) rk -> select_with rk c pop draws = Some (e, np) ->
  forall child, In child np ->
    (mean_last (eval_loop c) (a_fitness child) <= mean_last (eval_loop c) (a_fitness e))%Q.
Proof. exact @elite_dominates_lemma. Qed.
Print Assumptions elite_dominates_generation.

(* ---- ownership level (HeapModel.v): agents own mutable objects in a heap; clone allocates ---- *)

(* the old population is left untouched: select writes no object that existed before the call, so
   every old agent (index, fitness list, every cell) reads exactly as before *)
Theorem old_untouched : forall rk c pop draws h e np h',
  wf_pop h pop -> select_h rk c pop draws h = Some (e, np, h') ->
  (forall l, l < next h -> store h' l = store h l) /\
  (forall a, In a pop -> abs h' a = abs h a).
Proof. exact old_untouched_lemma. Qed.
Print Assumptions old_untouched.

(* the elite and all members own fresh objects, pairwise disjoint and disjoint from the old ones *)
Theorem copies_are_fresh : forall rk c pop draws h e np h',
  wf_pop h pop -> select_h rk c pop draws h = Some (e, np, h') ->
  NoDup (concat (map owned (e :: np))) /\
  (forall l, In l (concat (map owned (e :: np))) -> next h <= l) /\
  (forall a l, In a pop -> In l (owned a) -> ~ In l (concat (map owned (e :: np)))).
Proof. exact copies_are_fresh_lemma. Qed.
Print Assumptions copies_are_fresh.

(* ... also when the children are subsequently trained, evaluated (scores appended in place to their
   fitness lists) or mutated: any sequence of in-place writes to objects the elite / members own *)
Theorem parents_survive_children : forall rk c pop draws h e np h',
  wf_pop h pop -> select_h rk c pop draws h = Some (e, np, h') ->
  forall ws, (forall w, In w ws -> In (fst w) (concat (map owned (e :: np)))) ->
  forall a, In a pop -> abs (writes h' ws) a = abs h a.
Proof. exact parents_survive_children_lemma. Qed.
Print Assumptions parents_survive_children.

(* reading values off the heap gives exactly the value-level model, so every theorem above
   (elite, winners, size, indices, faithful copies) holds of the ownership-level select as well *)
Theorem select_h_refines : forall rk c pop draws h e np h',
  wf_pop h pop -> select_h rk c pop draws h = Some (e, np, h') ->
  select_with rk c (map (abs h) pop) draws = Some (abs h' e, map (abs h') np).
Proof. exact select_h_refines_lemma. Qed.
Print Assumptions select_h_refines.


(* ---- pinned (pre-fix 72877d1) clone: optimizer state referenced, not copied ---- *)
(* [select_h_gen] is select with the clone operation as a parameter; with the repaired clone it is
   the model all theorems above are about ... *)
Theorem select_h_gen_repaired_is_select_h : forall rk c pop draws h,
  select_h_gen hclone rk c pop draws h = select_h rk c pop draws h.
Proof. exact select_h_gen_hclone. Qed.
Print Assumptions select_h_gen_repaired_is_select_h.

(* ... and with the pinned clone [copies_are_fresh] fails: a member owns an object of its parent *)
Theorem pinned_clone_shares_refuted :
  exists e np h', select_h_gen (hclone_pinned 1) [0; 1] pin_cfg pin_pop [[0]] pin_heap = Some (e, np, h') /\
    exists a l, In a pin_pop /\ In l (owned a) /\ In l (concat (map owned (e :: np))).
Proof. exact pinned_clone_shares. Qed.
Print Assumptions pinned_clone_shares_refuted.

(* ... so that training the child (a write to an object the child owns) changes the parent *)
Theorem pinned_training_changes_parent_refuted :
  exists e np h', select_h_gen (hclone_pinned 1) [0; 1] pin_cfg pin_pop [[0]] pin_heap = Some (e, np, h') /\
    exists ws a, (forall w, In w ws -> In (fst w) (concat (map owned (e :: np)))) /\ In a pin_pop /\
                 abs (writes h' ws) a <> abs pin_heap a.
Proof. exact pinned_training_changes_parent. Qed.
Print Assumptions pinned_training_changes_parent_refuted.

(* ---- deepening: the sort may break ties any way it likes ---- *)
(* whatever permutation np.argsort returns, as long as it sorts the means (weakly increasing along the
   permutation), np.argsort of it (its inverse permutation) is a valid ranking: all theorems above then apply.
   The only thing assumed of NumPy's unstable sort is that its output is a sorting permutation. *)
Theorem any_argsort_gives_valid_ranking : forall (m : list Q) (s : list nat),
  sorting_perm m s -> valid_ranking m (inverse_perm s).
Proof. exact any_argsort_valid_lemma. Qed.
Print Assumptions any_argsort_gives_valid_ranking.

Theorem stable_argsort_is_sorting_perm : forall m : list Q, sorting_perm m (argsort_stable m).
Proof. exact argsort_stable_sorting. Qed.
Print Assumptions stable_argsort_is_sorting_perm.

(* float means: a ranking valid for the scores the code actually computed (f) is valid for the exact window
   means (q) whenever f orders the agents like q — the per-case condition the harness checks with Fractions *)
Theorem valid_ranking_transfers_from_float_means : forall (q f : list Q) rk, length f = length q ->
  (forall i j, i < length q -> j < length q -> (nth i q 0 < nth j q 0)%Q -> (nth i f 0 < nth j f 0)%Q) ->
  valid_ranking f rk -> valid_ranking q rk.
Proof. exact valid_ranking_transfer_lemma. Qed.
Print Assumptions valid_ranking_transfers_from_float_means.

(* ---- seeded wrapper defect (round 2): clone through an AgentWrapper whose `index` is a pass-through
   property writes the parent's index over the fresh one ---- *)
Theorem select_with_gen_real_clone_is_select_with : forall (P : Type) rk c (pop : list (agent P)) draws,
  select_with_gen clone rk c pop draws = select_with rk c pop draws.
Proof. exact @select_with_gen_clone. Qed.
Print Assumptions select_with_gen_real_clone_is_select_with.

Theorem wrapper_index_overwritten_refuted :
  exists e np, select_with_gen clone_index_overwritten (ranks (means wp_cfg wp_pop)) wp_cfg wp_pop wp_draws = Some (e, np) /\
    map a_index np = [1; 1; 1; 4; 3]%Z /\ ~ NoDup (map a_index np) /\
    (exists x, In x (skipn (off wp_cfg) (map a_index np)) /\ In x (map a_index wp_pop)).
Proof. exact wrapper_index_overwritten. Qed.
Print Assumptions wrapper_index_overwritten_refuted.

(* ---- deepening 3: state kept on the selector object (seeded C05-t1 / C05-u2) ---- *)
(* a selector that remembers the highest index it handed out is indistinguishable from the real (stateless) one
   on a single lineage pop -> select -> mutate -> evaluate -> select ..., for any number of generations, any
   ranking function, draws, mutations and scores: the ordinary training loop can never show the difference *)
Theorem cached_counter_agrees_on_a_lineage :
  forall (P : Type) (rkf : list Q -> list nat) c (gs : list (@generation P)) (pop : list (agent P)),
  0 < psize c -> pop <> [] -> fst (run_cached rkf c pop gs) = run_generations rkf c pop gs.
Proof. exact @run_cached_agrees. Qed.
Print Assumptions cached_counter_agrees_on_a_lineage.

(* ... but handed a population it did not produce, it repeats the elite's index and hands out indices of agents
   it was given (the real select cannot: indices_fresh holds for every population passed in) *)
Theorem cached_counter_breaks_on_reuse_refuted :
  exists r1 st1 e np st2,
    select_cached None (ranks (means cd_cfg cd_first)) cd_cfg cd_first cd_draws = (r1, st1) /\
    select_cached st1 (ranks (means cd_cfg cd_second)) cd_cfg cd_second cd_draws = (Some (e, np), st2) /\
    map a_index np = [8; 7; 8; 9]%Z /\ ~ NoDup (map a_index np) /\
    (exists x, In x (skipn 1 (map a_index np)) /\ In x (map a_index cd_second)).
Proof. exact cached_reuse_breaks. Qed.
Print Assumptions cached_counter_breaks_on_reuse_refuted.

(* ---- non-vacuity: concrete populations with ties, negative and unequal-length histories ---- *)
Definition ex_pop : list (agent nat) :=
  [ {| a_index := 4; a_fitness := [1; 3]%Q;            a_body := 0 |};
    {| a_index := 9; a_fitness := [(-5); 2; 2]%Q;      a_body := 1 |};
    {| a_index := 2; a_fitness := [7; 2]%Q;            a_body := 2 |};
    {| a_index := 7; a_fitness := [(-1)]%Q;            a_body := 3 |} ].
Definition ex_cfg := {| tsize := 2; elitism := true; psize := 4; eval_loop := 2 |}.

Example ex_select :
  ranks (means ex_cfg ex_pop) = [1; 2; 3; 0] /\
  (exists e np, select ex_cfg ex_pop [[0; 1]; [3; 3]; [1; 2]] = Some (e, np) /\
     map a_body (e :: np) = [2; 2; 1; 3; 2] /\ map a_index (e :: np) = [2; 2; 10; 11; 12]%Z).
Proof. split; [vm_compute; reflexivity|]. eexists _, _. split; vm_compute; [reflexivity|split; reflexivity]. Qed.

Example ex_hypotheses_satisfiable :
  valid_ranking (means ex_cfg ex_pop) (ranks (means ex_cfg ex_pop)) /\
  (forall i, i < nsel ex_cfg ->
     nth i [[0; 1]; [3; 3]; [1; 2]] [] <> [] /\ forall d, In d (nth i [[0; 1]; [3; 3]; [1; 2]] []) -> d < length ex_pop).
Proof.
  split; [apply ranks_perm|].
  intros i Hi. change (nsel ex_cfg) with 3 in Hi.
  destruct i as [|[|[|i]]]; [| | |exfalso; apply Nat.succ_lt_mono in Hi; apply Nat.succ_lt_mono in Hi; apply Nat.succ_lt_mono in Hi; inversion Hi];
    (split; [discriminate|]); cbn; intros d Hd;
    repeat (destruct Hd as [<-|Hd]; [repeat constructor|]); destruct Hd.
Qed.

(* an unstable sort may rank the tied agents 0 and 1 the other way round: still a valid ranking *)
Example ex_other_ranking_valid : valid_ranking (means ex_cfg ex_pop) [2; 1; 3; 0].
Proof.
  repeat split.
  - repeat constructor; cbn; intuition discriminate.
  - cbn. intros x Hx. repeat (destruct Hx as [<-|Hx]; [repeat constructor|]). destruct Hx.
  - intros i j Hi Hj Hlt. change (length (means ex_cfg ex_pop)) with 4 in *.
    assert (D : forallb (fun i => forallb (fun j =>
                  implb (Qltb (nth i (means ex_cfg ex_pop) 0%Q) (nth j (means ex_cfg ex_pop) 0%Q))
                        (nth i [2; 1; 3; 0] 0 <? nth j [2; 1; 3; 0] 0)) (seq 0 4)) (seq 0 4) = true)
      by (vm_compute; reflexivity).
    rewrite forallb_forall in D. specialize (D i (proj2 (in_seq _ _ _) (conj (Nat.le_0_l _) Hi))).
    rewrite forallb_forall in D. specialize (D j (proj2 (in_seq _ _ _) (conj (Nat.le_0_l _) Hj))).
    apply Qltb_lt in Hlt. rewrite Hlt in D. apply Nat.ltb_lt. exact D.
Qed.

Example ex_argsort : argsort_stable [2; 2; (9#2); (-1)]%Q = [3; 0; 1; 2] /\ ranks_lit [2; 2; (9#2); (-1)]%Q = [1; 2; 3; 0].
Proof. split; vm_compute; reflexivity. Qed.

Example ex_heap :
  let '(hp, h) := build {| next := 0; store := fun _ => None |} ex_pop in
  wf_pop h hp /\ heap_verdict ex_cfg ex_pop [[0; 1]; [3; 3]; [1; 2]] = Some (false, false).
Proof.
  cbn [build ex_pop alloc]. split; [|vm_compute; reflexivity].
  intros a Ha l Hl. cbn in Ha.
  repeat (destruct Ha as [<-|Ha]; [cbn in Hl; cbn; repeat (destruct Hl as [<-|Hl]; [repeat constructor|]); destruct Hl|]).
  destruct Ha.
Qed.
