(* C01 — a cloned agent is a faithful and fully independent copy of its parent.
   Property theorems only; each is closed by [exact] of a lemma proved in Evo/EvoProofs.v or C01/Proofs.v.
   The model (Evo/Evo.v) is tied to /repo by the correspondence check of harness/c01.py. *)
From Coq Require Import List NArith QArith Bool.
Import ListNotations.
From AgileV Require Import Evo.Heap Evo.Evo Evo.EvoProofs C01.Model C01.Proofs.
Open Scope N_scope.

(* INDEPENDENT 1 — every location the copy owns (weights, hidden encoder copies, size lists, optimizer
   moments and step counters, RL-param objects, score lists, other tensors) is newly allocated, no
   location occurs twice in it, and making the copy writes nothing that existed before. *)
Theorem clone_fresh : forall (idx : option N) (s : store) (a : agent),
  let r := clone_agent idx s a in
  s_next s <= s_next (fst r) /\
  (forall l, In l (agent_locs (snd r)) -> s_next s <= l < s_next (fst r)) /\
  NoDup (agent_locs (snd r)) /\
  (forall l, l < s_next s -> rd (fst r) l = rd s l).
Proof. exact clone_spec. Qed.
Print Assumptions clone_fresh.

(* INDEPENDENT 2 — separation is an invariant of the evolutionary loop: from a population whose members
   share no location, every history of learn / score / act / clone / the five mutation kinds / tournament
   selection / discard (any arguments, any registry) leads to a population whose members share no location. *)
Theorem sep_preserved : forall (w : world) (ops : list op),
  (NoDup (all_locs w) /\ Forall (fun l => l < s_next (w_store w)) (all_locs w)) ->
  (NoDup (all_locs (run w ops)) /\ Forall (fun l => l < s_next (w_store (run w ops))) (all_locs (run w ops))).
Proof. exact (fun w ops => run_WF ops w). Qed.
Print Assumptions sep_preserved.

(* INDEPENDENT 3 (frame) — in every population reachable from a separated one, an operation aimed at one
   member (training, mutating, scoring it) or at none (cloning, selecting, discarding) never changes the
   content of any cell owned by another member ... *)
Theorem frame : forall (w0 : world) (ops : list op) (o : op) (j : nat) (b : agent) (l : loc),
  WF w0 -> nth_error (w_pop (run w0 ops)) j = Some b -> op_target o <> Some j ->
  In l (agent_locs b) -> rd (w_store (step (run w0 ops) o)) l = rd (w_store (run w0 ops)) l.
Proof. exact frame_reachable_lemma. Qed.
Print Assumptions frame.

(* ... nor its record: architecture descriptors, optimizers (references, lr), hyper-parameter values,
   registry, label, index and the identity of its cells. *)
Theorem frame_agent : forall (w0 : world) (ops : list op) (o : op) (j : nat) (b : agent),
  WF w0 -> nth_error (w_pop (run w0 ops)) j = Some b -> op_target o <> Some j ->
  match o with
  | Select _ _ _ | Discard _ => True
  | _ => nth_error (w_pop (step (run w0 ops) o)) j = Some b
  end.
Proof. exact frame_agent_reachable_lemma. Qed.
Print Assumptions frame_agent.

(* the building block of both: any agent-local transformer (the contract satisfied by learn, score, act,
   hooks, optimizer re-creation and every mutation kind) applied to member i leaves member j <> i alone *)
Theorem local_frame : forall (i : nat) (f : lstate -> lstate) (w : world) (j : nat) (b : agent),
  local_ok f -> WF w -> i <> j -> nth_error (w_pop w) j = Some b ->
  nth_error (w_pop (apply_local i f w)) j = Some b /\
  forall l, In l (agent_locs b) -> rd (w_store (apply_local i f w)) l = rd (w_store w) l.
Proof. exact apply_local_frame. Qed.
Print Assumptions local_frame.

(* FAITHFUL — for a registry without mutation hooks the copy has the same label, architecture descriptors,
   optimizer settings, hyper-parameter values, registry, and the same content in every cell of every block
   (weights, buffers, hidden tensors, size lists, optimizer moments and step counters, RL-param
   objects, score lists, other tensors) as its parent. *)
Theorem clone_faithful_nohooks : forall (idx : option N) (s : store) (a : agent),
  r_hooks (a_reg a) = [] -> Forall (fun l => l < s_next s) (agent_locs a) ->
  abs (fst (clone_agent idx s a)) (snd (clone_agent idx s a)) = abs s a.
Proof. exact clone_faithful_nohooks_lemma. Qed.
Print Assumptions clone_faithful_nohooks.

(* FAITHFUL, every registry — K = the blocks the registry's mutation hooks re-synchronise on a copy (DQN: the
   target network, the exception the property allows; shared encoders: the detached encoder copies, see
   clone_shared_encoder_refuted; bandits: the ext tensors) plus the ext block, which copy_attributes copies
   afterwards (third clause).  Outside K the copy has the parent's block structure and the parent's content in
   every cell; label, architectures, hyper-parameters, registry and optimizer settings are the parent's. *)
Theorem clone_faithful : forall (idx : option N) (s : store) (a : agent),
  Forall (fun l => l < s_next s) (agent_locs a) ->
  let r := clone_agent idx s a in
  let K := kExt :: resync_keys (a_reg a) in
  map fst (a_blocks (snd r)) = map fst (a_blocks a) /\
  contents (fst r) (keep_out K (a_blocks (snd r))) = contents s (keep_out K (a_blocks a)) /\
  (In kExt (map fst (a_blocks a)) -> map (rd (fst r)) (blk (snd r) kExt) = map (rd s) (blk a kExt)) /\
  (a_mut (snd r) = a_mut a /\ a_arch (snd r) = a_arch a /\ a_hps (snd r) = a_hps a /\ a_reg (snd r) = a_reg a /\
   map (fun o => (o_name o, o_lr o)) (a_opts (snd r)) = map (fun o => (o_name o, o_lr o)) (a_opts a)).
Proof. exact clone_faithful_lemma. Qed.
Print Assumptions clone_faithful.

(* FAITHFUL AT ANY POINT OF ITS LIFE — the same statement for every member of every population reachable from a
   separated one by any history of learn / score / act / clone / mutation / select / discard *)
Theorem clone_faithful_reachable : forall (w0 : world) (ops : list op) (i : nat) (a : agent) (idx : option N),
  WF w0 -> nth_error (w_pop (run w0 ops)) i = Some a ->
  let s := w_store (run w0 ops) in
  let r := clone_agent idx s a in
  let K := kExt :: resync_keys (a_reg a) in
  map fst (a_blocks (snd r)) = map fst (a_blocks a) /\
  contents (fst r) (keep_out K (a_blocks (snd r))) = contents s (keep_out K (a_blocks a)) /\
  (In kExt (map fst (a_blocks a)) -> map (rd (fst r)) (blk (snd r) kExt) = map (rd s) (blk a kExt)) /\
  (a_mut (snd r) = a_mut a /\ a_arch (snd r) = a_arch a /\ a_hps (snd r) = a_hps a /\ a_reg (snd r) = a_reg a /\
   map (fun o => (o_name o, o_lr o)) (a_opts (snd r)) = map (fun o => (o_name o, o_lr o)) (a_opts a)).
Proof. exact clone_faithful_reachable_lemma. Qed.
Print Assumptions clone_faithful_reachable.

(* THE ALLOWED EXCEPTION, made precise — a registry whose only hook re-synchronises a target network t with its online
   network e (DQN.init_hook): on the copy, the target holds exactly the content of the parent's (= the copy's) online
   network, tensor by tensor (parameters and buffers). *)
Theorem clone_target_resynced : forall (idx : option N) (s : store) (a : agent) (e t : name),
  r_hooks (a_reg a) = [HSync e t] -> e <> t -> Forall (fun l => l < s_next s) (agent_locs a) ->
  length (blk a (t, cEnc)) = length (blk a (e, cEnc)) ->
  length (blk a (t, cHead)) = length (blk a (e, cHead)) ->
  length (blk a (t, cBuf)) = length (blk a (e, cBuf)) ->
  let r := clone_agent idx s a in
  map (rd (fst r)) (blk (snd r) (t, cEnc)) = map (rd s) (blk a (e, cEnc)) /\
  map (rd (fst r)) (blk (snd r) (t, cHead)) = map (rd s) (blk a (e, cHead)) /\
  map (rd (fst r)) (blk (snd r) (t, cBuf)) = map (rd s) (blk a (e, cBuf)).
Proof. exact clone_target_resynced_lemma. Qed.
Print Assumptions clone_target_resynced.

(* hence any behaviour that is a function of that view — greedy action on an observation, the update
   computed from a batch — is the same for parent and copy *)
Theorem same_behaviour : forall (B : Type) (behaviour : view -> B) (idx : option N) (s : store) (a : agent),
  r_hooks (a_reg a) = [] -> Forall (fun l => l < s_next s) (agent_locs a) ->
  behaviour (abs (fst (clone_agent idx s a)) (snd (clone_agent idx s a))) = behaviour (abs s a).
Proof. exact same_behaviour_lemma. Qed.
Print Assumptions same_behaviour.

(* hence, under EVERY registry, behaviour that reads only what lies outside the re-synchronised blocks (the greedy action
   of DQN reads the online network, never the target) is the same for parent and copy *)
Theorem same_behaviour_outside : forall (B : Type)
  (behaviour : (N * list (name * N) * list (name * Q) * registry * list (name * Q)) * list (key * list cval) -> B)
  (idx : option N) (s : store) (a : agent),
  Forall (fun l => l < s_next s) (agent_locs a) ->
  behaviour (view_outside (fst (clone_agent idx s a)) (snd (clone_agent idx s a))) = behaviour (view_outside s a).
Proof. exact same_behaviour_outside_lemma. Qed.
Print Assumptions same_behaviour_outside.

(* INDEPENDENT 4 — tournament selection: every member of the returned population (the new generation and the elite
   object) owns only cells that did not exist before the tournament, whatever the draws: clones of one parent are
   disjoint from the parent, from the replaced generation and (by sep_preserved) from each other *)
Theorem select_fresh : forall (e : nat) (ws : list nat) (el : bool) (w : world) (a : agent) (l : loc),
  In a (w_pop (select e ws el w)) -> In l (agent_locs a) -> s_next (w_store w) <= l.
Proof. exact select_fresh_lemma. Qed.
Print Assumptions select_fresh.

(* GENERATIONS OF COPIES — a copy of a copy of ... a copy (tournament: elite = best.clone(), member = elite.clone();
   any number of generations) has the same view as the original, for hook-free registries; and it is made of new cells *)
Theorem clone_chain_faithful : forall (idxs : list (option N)) (s : store) (a : agent),
  r_hooks (a_reg a) = [] -> Forall (fun l => l < s_next s) (agent_locs a) ->
  abs (fst (clone_chain idxs s a)) (snd (clone_chain idxs s a)) = abs s a.
Proof. exact clone_chain_faithful_lemma. Qed.
Print Assumptions clone_chain_faithful.

Theorem clone_chain_fresh : forall (idxs : list (option N)) (s : store) (a : agent) (l : loc),
  idxs <> [] -> In l (agent_locs (snd (clone_chain idxs s a))) -> s_next s <= l.
Proof. exact clone_chain_fresh_lemma. Qed.
Print Assumptions clone_chain_fresh.

(* size of the population a tournament returns: one copy per scripted tournament, one more with elitism, plus the elite
   object (together with select_fresh and sep_preserved: that many pairwise disjoint, entirely new individuals) *)
Theorem select_length : forall (e : nat) (ws : list nat) (el : bool) (w : world),
  (e < length (w_pop w))%nat -> Forall (fun i => (i < length (w_pop w))%nat) ws ->
  length (w_pop (select e ws el w)) = (length ws + (if el then 1 else 0) + 1)%nat.
Proof. exact select_length_lemma. Qed.
Print Assumptions select_length.

(* REFUTED — the pinned behaviour (optimizer.load_state_dict of the parent's state dict without a deep
   copy) breaks separation: parent and copy share the optimizer state tensors *)
Theorem clone_aliasing_refuted :
  exists w i, WF w /\ ~ NoDup (all_locs (clone_into clone_agent_aliasing i None w)).
Proof. exact clone_aliasing_refuted_lemma. Qed.
Print Assumptions clone_aliasing_refuted.

(* REFUTED on the current tree (known finding C01 faithful:*+share:henc) — with a shared encoder the copy's
   critic holds a copy of the trained actor encoder while the parent's critic holds a stale one *)
Theorem clone_shared_encoder_refuted :
  exists w, WF w /\
    let w' := clone_into clone_agent 0 None w in
    match w_pop w' with
    | [p; c] => map (rd (w_store w')) (blk p (2, cHenc)) <> map (rd (w_store w')) (blk c (2, cHenc))
    | _ => False
    end.
Proof. exact clone_shared_encoder_refuted_lemma. Qed.
Print Assumptions clone_shared_encoder_refuted.

(* non-vacuity: a concrete 2-agent DQN-registry population is separated, and so is the population after
   learn / clone / architecture mutation / select (computed, and also given by the theorem) *)
Example world0_separated : WF world0.
Proof. apply sep_b_WF. vm_compute. reflexivity. Qed.
Example history_separated :
  let ops := [Learn 0 [(3, 4%nat)]; Clone 0 None;
              Mutate 1 MArch [mkShape 1 9 2 1 0 0 1 0] 5; Learn 2 [(3, 4%nat)]; Select 1 [0%nat] true] in
  sep_b (run world0 ops) = true /\ length (w_pop (run world0 ops)) = 3%nat /\ WF (run world0 ops).
Proof. split; [vm_compute; reflexivity|split; [vm_compute; reflexivity|]]. apply run_WF. exact world0_separated. Qed.


(* non-vacuity of the round-3 theorems: a hook-free agent (registry without hooks) of a separated world, three
   generations of copies: same view, and the last copy lies entirely above the old allocation pointer *)
Definition agent_nohook : agent :=
  mkAgent 0 0 [(1, 7); (2, 7)] [mkOpt 3 (1#1000)%Q [0; 1]] [(4, (1#1000)%Q)]
          (mkReg [mkGroup 1 [2] true] [mkOptCfg 3 [1] 4] [] [4] false) (a_blocks (agent0 0 0)).
Example clone_chain_nonvacuous :
  r_hooks (a_reg agent_nohook) = [] /\
  Forall (fun l => l < s_next (w_store world0)) (agent_locs agent_nohook) /\
  abs (fst (clone_chain [None; Some 5; None] (w_store world0) agent_nohook))
      (snd (clone_chain [None; Some 5; None] (w_store world0) agent_nohook)) = abs (w_store world0) agent_nohook /\
  forallb (fun l => N.leb (s_next (w_store world0)) l)
          (agent_locs (snd (clone_chain [None; Some 5; None] (w_store world0) agent_nohook))) = true.
Proof.
  split; [reflexivity|]. split; [repeat constructor|]. split.
  - apply clone_chain_faithful; [reflexivity|repeat constructor].
  - vm_compute. reflexivity.
Qed.
(* ... and a tournament on the example population returns only new cells *)
Example select_fresh_nonvacuous :
  forallb (fun a => forallb (fun l => N.leb (s_next (w_store world0)) l) (agent_locs a))
          (w_pop (select 1 [0%nat; 1%nat] true world0)) = true /\ length (w_pop (select 1 [0%nat; 1%nat] true world0)) = 4%nat.
Proof. split; vm_compute; reflexivity. Qed.
