(* C06 — property theorems only. Each is closed by [exact] of a lemma proved in C06/Proofs*.v. *)
From Coq Require Import List Arith Bool ZArith QArith Lia.
From Coq Require PrimFloat.   (* not imported: primitives must print qualified under Print Assumptions *)
Import ListNotations.
From AgileV Require Import C06.Model C06.Proofs C06.ProofsAgent C06.ProofsFloat.
Local Open Scope Q_scope.

(* ---------------- value level (RLParam(eter).mutate on exact rationals) ---------------- *)

(* Whatever the current value (even outside the range), the draw and the factors, the mutated value
   lies in [min, max]; for an int-typed hyperparameter this needs integer bounds (range_ok). *)
Theorem mutate_in_range : forall (p : param Q) (u v : Q),
  range_ok p -> p_min p <= mutate_value QOps p u v <= p_max p.
Proof. exact mutate_value_in_range. Qed.
Print Assumptions mutate_in_range.

(* The mutated value is the current value times the factor selected by the coin (shrink iff the draw
   is < 1/2), clipped to [min, max], converted to the configured number type. *)
Theorem mutate_is_scaled_clip : forall (p : param Q) (u v : Q),
  p_min p <= p_max p ->
  mutate_value QOps p u v == castQ p (clipQ (p_min p) (p_max p) (v * factor p u)).
Proof. exact mutate_value_is_cast_clip. Qed.
Print Assumptions mutate_is_scaled_clip.

Theorem int_cast_in_range : forall (mn mx : Z) (x : Q),
  inject_Z mn <= x <= inject_Z mx -> (mn <= qtrunc x <= mx)%Z.
Proof. exact Proofs.int_cast_in_range. Qed.
Print Assumptions int_cast_in_range.

(* int(x) is within one of x, toward zero *)
Theorem int_cast_near : forall x : Q, inject_Z (qtrunc x) - 1 < x /\ x < inject_Z (qtrunc x) + 1.
Proof. exact qtrunc_near. Qed.
Print Assumptions int_cast_near.

(* the integer-bounds hypothesis of mutate_in_range is necessary *)
Theorem int_cast_fractional_min_refuted :
  mutate_value QOps frac_min_param (1 # 4) 2 < p_min frac_min_param.
Proof. exact int_cast_refuted_for_fractional_min. Qed.
Print Assumptions int_cast_fractional_min_refuted.

(* a float-typed mutation really changes the value whenever the scaled value is strictly inside the range *)
Theorem mutate_float_takes_effect : forall (p : param Q) (u v : Q),
  p_int p = false -> p_min p <= p_max p -> p_min p <= v <= p_max p ->
  ~ v * factor p u == v -> p_min p < v * factor p u < p_max p ->
  ~ mutate_value QOps p u v == v.
Proof. exact mutate_value_float_effect. Qed.
Print Assumptions mutate_float_takes_effect.

(* drift: every value produced by any number of successive mutations is inside the range *)
Theorem drift_bounded : forall (p : param Q), range_ok p ->
  forall (us : list Q) (v : Q), Forall (fun r => p_min p <= r <= p_max p) (mutate_seq QOps p v us).
Proof. exact mutate_seq_in_range. Qed.
Print Assumptions drift_bounded.

(* ---------------- value level, binary64 instance (the arithmetic that actually runs) ---------------- *)
(* For a float-typed hyperparameter the binary64 result is never below min nor above max, whatever the
   rounding of the product did; likewise over any number of successive mutations.
   Depends on the specification of PrimFloat.ltb that the standard library assumes (ltb_spec). *)
Theorem float_mutate_in_range : forall (p : param PrimFloat.float) (u v : PrimFloat.float),
  p_int p = false -> PrimFloat.ltb (p_max p) (p_min p) = false ->
  PrimFloat.ltb (mutate_value FOps p u v) (p_min p) = false /\
  PrimFloat.ltb (p_max p) (mutate_value FOps p u v) = false.
Proof. exact float_mutate_in_range_lemma. Qed.
Print Assumptions float_mutate_in_range.

Theorem float_drift_bounded : forall (p : param PrimFloat.float),
  p_int p = false -> PrimFloat.ltb (p_max p) (p_min p) = false ->
  forall (us : list PrimFloat.float) (v : PrimFloat.float),
  Forall (fun r => PrimFloat.ltb r (p_min p) = false /\ PrimFloat.ltb (p_max p) r = false)
         (mutate_seq FOps p v us).
Proof. exact float_drift_bounded_lemma. Qed.
Print Assumptions float_drift_bounded.

(* ---------------- agent level (any number carrier: rationals AND binary64) ---------------- *)

(* Exactly one configured hyperparameter changes: the sampled one becomes the mutation of the
   individual's OWN current attribute value (not of a value cached from anybody else), every other
   attribute keeps its value, and the label names the mutated attribute. *)
Theorem exactly_one_changes_from_own_value :
  forall (T : Type) (O : numops T) (a : agent T) (k : nat) (u : T) (h : hpent T) (v : T),
  Wf a -> CacheOk a -> nth_error (a_hps a) k = Some h -> getv (a_vals a) (hp_name h) = Some v ->
  let a' := rl_hp_mutation O a k u in
  getv (a_vals a') (hp_name h) = Some (mutate_value O (hp_par h) u v) /\
  (forall m, m <> hp_name h -> getv (a_vals a') m = getv (a_vals a) m) /\
  a_mut a' = Some (hp_name h).
Proof. exact @hp_mutation_result. Qed.
Print Assumptions exactly_one_changes_from_own_value.

(* Repaired semantics (fixes/C06-mutate-from-own-attribute): NO hypothesis on the cached values is needed — stale,
   aliased or foreign caches cannot influence the result. *)
Theorem mutation_base_is_the_attribute :
  forall (T : Type) (O : numops T) (a : agent T) (k : nat) (u : T) (h : hpent T) (v : T),
  nth_error (a_hps a) k = Some h -> getv (a_vals a) (hp_name h) = Some v ->
  getv (a_vals (rl_hp_mutation O a k u)) (hp_name h) = Some (mutate_value O (hp_par h) u v) /\
  (forall m, m <> hp_name h -> getv (a_vals (rl_hp_mutation O a k u)) m = getv (a_vals a) m).
Proof. exact @hp_mutation_from_attribute. Qed.
Print Assumptions mutation_base_is_the_attribute.

(* The earlier code (cached value first) is the same function wherever the cache agrees with the attributes, hence on
   every reachable state of populations whose members own their configuration (invariant_over_histories) ... *)
Theorem cache_first_agrees_under_invariant :
  forall (T : Type) (O : numops T) (a : agent T) (k : nat) (u : T),
  CacheOk a -> rl_hp_mutation_cache_first O a k u = rl_hp_mutation O a k u.
Proof. exact @cache_first_agrees. Qed.
Print Assumptions cache_first_agrees_under_invariant.

(* ... and violates the property when one parameter object is configured under two names *)
Theorem aliased_parameter_refuted :
  let a1 := aliased_mutation QOps aliased_agent 0 1 1 (1 # 4) in
  let a2 := aliased_mutation QOps a1 0 1 0 (3 # 4) in
  exists own got, getv (a_vals a1) 0%nat = Some own /\ getv (a_vals a2) 0%nat = Some got /\
                  ~ got == mutate_value QOps lr_par (3 # 4) own.
Proof. exact aliased_parameter_refuted_lemma. Qed.
Print Assumptions aliased_parameter_refuted.

(* A mutated learning rate is the learning rate of every param group of every optimizer registered
   with that name (twin critics, per-agent optimizer lists); optimizers registered under another
   name are left exactly as they were. *)
Theorem lr_takes_effect :
  forall (T : Type) (O : numops T) (a : agent T) (k : nat) (u : T) (h : hpent T) (v : T),
  Wf a -> CacheOk a -> nth_error (a_hps a) k = Some h -> getv (a_vals a) (hp_name h) = Some v ->
  let a' := rl_hp_mutation O a k u in
  let nv := mutate_value O (hp_par h) u v in
  (forall o', In o' (a_opts a') -> o_cfg_lr o' = hp_name h ->
      o_wlr o' = nv /\ Forall (fun g => g = nv) (o_groups o')) /\
  (forall j o, nth_error (a_opts a) j = Some o -> o_cfg_lr o <> hp_name h ->
      nth_error (a_opts a') j = Some o) /\
  length (a_opts a') = length (a_opts a).
Proof. exact @lr_takes_effect_lemma. Qed.
Print Assumptions lr_takes_effect.

(* The invariant (registry well formed, cache = own attribute, every optimizer group runs with the
   attribute) survives every mutation, whatever the draws ... *)
Theorem base_is_own_value_invariant :
  forall (T : Type) (O : numops T) (a : agent T) (k : nat) (u : T), Inv a -> Inv (rl_hp_mutation O a k u).
Proof. exact @inv_rl_hp_mutation. Qed.
Print Assumptions base_is_own_value_invariant.

(* ... and therefore every history of mutation rounds, single mutations, clones, other mutation kinds, learn steps
   and checkpoint save/load (in place and as a new member), on every population *)
Theorem invariant_over_histories :
  forall (T : Type) (O : numops T) (ops : list (pop_op T)) (pop : list (agent T)),
  Forall Inv pop -> Forall Inv (pop_run O pop ops).
Proof. exact @pop_run_inv. Qed.
Print Assumptions invariant_over_histories.

(* The property in one statement. *)
Theorem property_after_any_history :
  forall (T : Type) (O : numops T) (pop : list (agent T)) (ops : list (pop_op T))
         (i : nat) (a : agent T) (k : nat) (u : T) (h : hpent T) (v : T),
  Forall Inv pop ->
  nth_error (pop_run O pop ops) i = Some a ->
  nth_error (a_hps a) k = Some h -> getv (a_vals a) (hp_name h) = Some v ->
  let a' := rl_hp_mutation O a k u in
  let nv := mutate_value O (hp_par h) u v in
  getv (a_vals a') (hp_name h) = Some nv /\
  (forall m, m <> hp_name h -> getv (a_vals a') m = getv (a_vals a) m) /\
  a_mut a' = Some (hp_name h) /\
  (forall o', In o' (a_opts a') -> o_cfg_lr o' = hp_name h ->
      o_wlr o' = nv /\ Forall (fun g => g = nv) (o_groups o')) /\
  Coherent a' /\
  nth_error (pop_step O (pop_run O pop ops) (MutOne i k u)) i = Some a' /\
  (forall j, j <> i ->
      nth_error (pop_step O (pop_run O pop ops) (MutOne i k u)) j = nth_error (pop_run O pop ops) j).
Proof. exact @property_after_any_history_lemma. Qed.
Print Assumptions property_after_any_history.

(* Architecture / parameter / activation mutations (which re-create every optimizer from the attributes)
   move no hyperparameter and, under the invariant, no learning rate of any param group. *)
Theorem other_mutations_keep_learning_rates :
  forall (T : Type) (a : agent T) (j : nat) (o : optim T),
  Inv a -> nth_error (a_opts a) j = Some o ->
  exists o' v, nth_error (a_opts (other_mutation a)) j = Some o' /\
             getv (a_vals a) (o_lr_name o) = Some v /\
             Forall (fun g => g = v) (o_groups o) /\ Forall (fun g => g = v) (o_groups o') /\
             length (o_groups o') = length (o_groups o) /\ a_vals (other_mutation a) = a_vals a.
Proof. exact @other_mutation_keeps_lrs. Qed.
Print Assumptions other_mutations_keep_learning_rates.

(* Restoring a checkpoint — in place over ANY loader, or as a new member — yields an individual with the SAVED
   individual's attributes, label, cached hyperparameter values and optimizer param-group learning rates, and
   the invariant holds for it: the next mutation starts from the restored value, not from the loader's. *)
Theorem load_restores_saved_state :
  forall (T : Type) (src dst : agent T),
  a_vals (loaded_into src dst) = a_vals src /\ a_hps (loaded_into src dst) = a_hps src /\
  a_mut (loaded_into src dst) = a_mut src /\
  map (@o_groups T) (a_opts (loaded_into src dst)) = map (@o_groups T) (a_opts src) /\
  map (@o_lr_name T) (a_opts (loaded_into src dst)) = map (@o_lr_name T) (a_opts src).
Proof. exact @loaded_into_state. Qed.
Print Assumptions load_restores_saved_state.

Theorem load_preserves_invariant :
  forall (T : Type) (src dst : agent T), Inv src -> Inv (loaded_into src dst).
Proof. exact @inv_loaded_into. Qed.
Print Assumptions load_preserves_invariant.

(* _registry_init accepts a configuration exactly when every configured name is an attribute of the agent *)
Theorem registry_init_guard :
  forall (T : Type) (vals : list (name * T)) (hps : list (hpent T)),
  registry_init_ok vals hps = true <-> (forall h, In h hps -> exists v, getv vals (hp_name h) = Some v).
Proof. exact @registry_init_guard_lemma. Qed.
Print Assumptions registry_init_guard.

(* a population as create_population builds it satisfies the invariant: the computed registry check,
   empty caches, optimizers created with the attribute values *)
Theorem fresh_population_invariant :
  forall (T : Type) (a : agent T),
  wf_agent a = true -> (forall h, In h (a_hps a) -> hp_cache h = None) -> Coherent a -> Inv a.
Proof. exact @fresh_inv. Qed.
Print Assumptions fresh_population_invariant.

(* No other agent's value moves: a mutation round acts on individual j with individual j's draws only,
   and a single mutation leaves all other individuals as they were. *)
Theorem round_is_local :
  forall (T : Type) (O : numops T) (pop : list (agent T)) (draws : list (nat * T)) (j : nat),
  nth_error (mutation_round O pop draws) j =
  match nth_error pop j, nth_error draws j with
  | Some a, Some (k, u) => Some (rl_hp_mutation O a k u)
  | Some a, None => Some a
  | None, _ => None
  end.
Proof. exact @mutation_round_nth. Qed.
Print Assumptions round_is_local.

Theorem other_agents_untouched :
  forall (T : Type) (O : numops T) (pop : list (agent T)) (i k : nat) (u : T) (j : nat),
  j <> i -> nth_error (pop_step O pop (MutOne i k u)) j = nth_error pop j.
Proof. exact @mutone_others. Qed.
Print Assumptions other_agents_untouched.

Theorem population_size_kept :
  forall (T : Type) (O : numops T) (ops : list (pop_op T)) (pop : list (agent T)),
  length (pop_run O pop ops) = length pop.
Proof. exact @pop_run_length. Qed.
Print Assumptions population_size_kept.

(* Over any history every configured hyperparameter of every individual stays inside its range
   (rational instance; RInv = Inv + range_ok of every configured range + current values in range). *)
Theorem population_drift_bounded :
  forall (ops : list (pop_op Q)) (pop : list (agent Q)),
  Forall RInv pop -> Forall RInv (pop_run QOps pop ops).
Proof. exact ProofsAgent.population_drift_bounded. Qed.
Print Assumptions population_drift_bounded.

(* The two pinned (pre-fix) behaviours violate the property. *)
(* only the first optimizer with the mutated lr name re-created: TD3-shaped registry, critic_2 keeps the old lr *)
Theorem first_optimizer_only_refuted :
  let a' := rl_hp_mutation_first_only QOps td3_like 0 (3 # 4) in
  exists o lr, In o (a_opts a') /\ getv (a_vals a') (o_lr_name o) = Some lr /\ ~ o_wlr o == lr.
Proof. exact first_only_refuted_lemma. Qed.
Print Assumptions first_optimizer_only_refuted.

(* one configuration object shared by the population: individual 1 is mutated from individual 0's cached value *)
Theorem shared_config_refuted :
  exists a1 own got,
    nth_error (snd (shared_round QOps shared_cfg two_agents [(0%nat, 3 # 4); (0%nat, 3 # 4)])) 1 = Some a1 /\
    nth_error two_agents 1 = Some own /\
    getv (a_vals a1) 0%nat = Some got /\
    match getv (a_vals own) 0%nat with
    | Some v => ~ got == mutate_value QOps (hp_par (hd (Build_hpent 0%nat (Build_param 0 0 0 0 false) None) shared_cfg)) (3 # 4) v
    | None => False end.
Proof. exact shared_config_refuted_lemma. Qed.
Print Assumptions shared_config_refuted.

(* non-vacuity: a default learning-rate range and a default batch-size range satisfy range_ok, and the
   model computes the expected values *)
Example range_ok_lr : range_ok {| p_min := 1 # 10000; p_max := 1 # 100; p_shrink := 8 # 10; p_grow := 12 # 10; p_int := false |}.
Proof. split; [cbn; unfold Qle; cbn; lia | intros H; discriminate H]. Qed.
Example range_ok_batch : range_ok {| p_min := 8; p_max := 512; p_shrink := 8 # 10; p_grow := 12 # 10; p_int := true |}.
Proof. split; [cbn; unfold Qle; cbn; lia | intros _; exists 8%Z, 512%Z; split; reflexivity]. Qed.
Example mutate_batch_64_shrinks_to_51 :
  mutate_value QOps {| p_min := 8; p_max := 512; p_shrink := 8 # 10; p_grow := 12 # 10; p_int := true |} (1 # 4) 64 == 51.
Proof. vm_compute. reflexivity. Qed.

(* the TD3-shaped agent satisfies the hypotheses of the agent-level theorems, and the current code
   re-creates both critics' optimizers on it *)
Example td3_like_inv : Inv td3_like.
Proof.
  apply fresh_population_invariant; [reflexivity| |].
  - intros h [<-|[]]; reflexivity.
  - intros o [<-|[<-|[<-|[]]]]; eexists; (split; [reflexivity|repeat constructor]).
Qed.
Example td3_like_all_follow :
  let a' := rl_hp_mutation QOps td3_like 0 (3 # 4) in
  forallb (fun o => match getv (a_vals a') (o_lr_name o) with
                    | Some lr => Qeq_bool (o_wlr o) lr && forallb (Qeq_bool lr) (o_groups o)
                    | None => false end) (a_opts a') = true.
Proof. exact all_reinit_on_td3_like. Qed.
