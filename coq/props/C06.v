(* C06 — property theorems only. Each is closed by [exact] of a lemma proved in C06/Proofs*.v. *)
From Coq Require Import List Arith Bool ZArith QArith Lia.
Import ListNotations.
From AgileV Require Import C06.Model C06.Proofs.
Local Open Scope Q_scope.

(* ---------------- value level (RLParameter.mutate on exact rationals) ---------------- *)

(* Whatever the current value (even outside the range), the draw and the factors, the mutated value
   lies in [min, max]; for an int-typed hyperparameter this needs integer bounds (range_ok). *)
Theorem mutate_in_range : forall (p : param Q) (u v : Q),
  range_ok p -> p_min p <= mutate_value QOps p u v <= p_max p.
Proof. exact mutate_value_in_range. Qed.
Print Assumptions mutate_in_range.

(* The mutated value is the current value times the factor selected by the coin (shrink iff the draw
   is < 1/2), clipped to [min, max], converted to the configured number type. *)
Theorem mutate_is_scaled_clip : forall (p : param Q) (u v : Q),
  p_min p <= p_max p ->
  mutate_value QOps p u v == castQ p (clipQ (p_min p) (p_max p) (v * factor p u)).
Proof. exact mutate_value_is_cast_clip. Qed.
Print Assumptions mutate_is_scaled_clip.

Theorem int_cast_in_range : forall (mn mx : Z) (x : Q),
  inject_Z mn <= x <= inject_Z mx -> (mn <= qtrunc x <= mx)%Z.
Proof. exact Proofs.int_cast_in_range. Qed.
Print Assumptions int_cast_in_range.

(* int(x) is within one of x, toward zero *)
Theorem int_cast_near : forall x : Q, inject_Z (qtrunc x) - 1 < x /\ x < inject_Z (qtrunc x) + 1.
Proof. exact qtrunc_near. Qed.
Print Assumptions int_cast_near.

(* the integer-bounds hypothesis of mutate_in_range is necessary *)
Theorem int_cast_fractional_min_refuted :
  mutate_value QOps frac_min_param (1 # 4) 2 < p_min frac_min_param.
Proof. exact int_cast_refuted_for_fractional_min. Qed.
Print Assumptions int_cast_fractional_min_refuted.

(* a float-typed mutation really changes the value whenever the scaled value is strictly inside the range *)
Theorem mutate_float_takes_effect : forall (p : param Q) (u v : Q),
  p_int p = false -> p_min p <= p_max p -> p_min p <= v <= p_max p ->
  ~ v * factor p u == v -> p_min p < v * factor p u < p_max p ->
  ~ mutate_value QOps p u v == v.
Proof. exact mutate_value_float_effect. Qed.
Print Assumptions mutate_float_takes_effect.

(* drift: every value produced by any number of successive mutations is inside the range *)
Theorem drift_bounded : forall (p : param Q), range_ok p ->
  forall (us : list Q) (v : Q), Forall (fun r => p_min p <= r <= p_max p) (mutate_seq QOps p v us).
Proof. exact mutate_seq_in_range. Qed.
Print Assumptions drift_bounded.

(* non-vacuity: a default learning-rate range and a default batch-size range satisfy range_ok, and the
   model computes the expected values *)
Example range_ok_lr : range_ok {| p_min := 1 # 10000; p_max := 1 # 100; p_shrink := 8 # 10; p_grow := 12 # 10; p_int := false |}.
Proof. split; [cbn; unfold Qle; cbn; lia | intros H; discriminate H]. Qed.
Example range_ok_batch : range_ok {| p_min := 8; p_max := 512; p_shrink := 8 # 10; p_grow := 12 # 10; p_int := true |}.
Proof. split; [cbn; unfold Qle; cbn; lia | intros _; exists 8%Z, 512%Z; split; reflexivity]. Qed.
Example mutate_batch_64_shrinks_to_51 :
  mutate_value QOps {| p_min := 8; p_max := 512; p_shrink := 8 # 10; p_grow := 12 # 10; p_int := true |} (1 # 4) 64 == 51.
Proof. vm_compute. reflexivity. Qed.
