(* C20 — property theorems only. Each is closed by [exact] of a lemma proved in C20/Proofs.v.
   The model (C20/Model.v) is the accounting skeleton of the six training loops; the fitness values, the
   tournament winners and the hyper-parameters individuals train with are inputs (an arbitrary stream [inp]). *)
From Coq Require Import List Arith Bool QArith Lia.
Import ListNotations.
From AgileV Require Import C20.Model C20.Proofs.
Open Scope nat_scope.

(* Steps per generation, every loop: what one individual's training phase adds to agent.steps[-1] is the closed
   form [steps_per_gen]; except in train_offline it equals the environment steps actually taken (step() calls x
   sub-environments); train_offline takes no environment step and makes evo_steps learn calls; the on-policy loops
   learn once per collected rollout. *)
Theorem rollout_counts : forall c h m,
  r_cnt (snd (rollout c h m)) = steps_per_gen c h /\
  (lp c <> Offline -> r_env (snd (rollout c h m)) = r_cnt (snd (rollout c h m))) /\
  (lp c = Offline -> r_env (snd (rollout c h m)) = 0 /\ r_learn (snd (rollout c h m)) = evo_steps c) /\
  ((lp c = On \/ lp c = MAOn) -> r_learn (snd (rollout c h m)) = cdiv (evo_steps c) (ls h)).
Proof. exact rollout_counts_lemma. Qed.
Print Assumptions rollout_counts.

(* When the loop returns, it has run exactly the generations g .. G-1: the returned state is the state after G - g
   generations, the guard (budget not yet met) held at the start of every one of them, and it fails in the returned
   state — the first generation boundary at which the budget is met — unless the last generation took the early stop. *)
Theorem stops_at_first_generation_budget_met : forall c inp fuel st g st' G,
  run fuel c st inp g = Some (st', G) ->
  exists n, G = g + n /\ st' = gens_n n c st inp g /\
            (forall k, k < n -> guard c (pop (gens_n k c st inp g)) = true) /\
            (guard c (pop st') = false \/
             (0 < n /\ o_stop (snd (gen c (gens_n (n - 1) c st inp g) (inp (G - 1)))) = true)).
Proof. exact run_is_gens_n. Qed.
Print Assumptions stops_at_first_generation_budget_met.

(* Per-agent budget, S > 0 steps per generation for whatever hyper-parameters come up, no early-stop target:
   the loop runs exactly G = ceil(max_steps / S) generations and every returned agent has steps[-1] = G * S. *)
Theorem terminates_at : forall c S0 inp pop0,
  lp c <> MAOn -> target c = None -> 0 < S0 -> 1 <= tour_pop c -> length pop0 = tour_pop c ->
  Forall (fun a => cur a = 0) pop0 ->
  stream_ok (hp_steps c S0) (tour_pop c) inp ->
  exists st' G, run (max_steps c + 1) c (init_state pop0) inp 0 = Some (st', G) /\
                Forall (fun a => cur a = G * S0) (pop st') /\
                max_steps c <= G * S0 /\ (G = 0 \/ (G - 1) * S0 < max_steps c).
Proof. exact terminates_at_lemma. Qed.
Print Assumptions terminates_at.

(* The multi-agent on-policy loop budgets the steps summed over the population (N = population size): exactly the
   first G with N * G * S >= max_steps generations. *)
Theorem terminates_at_summed_budget : forall c S0 inp pop0,
  lp c = MAOn -> target c = None -> 0 < S0 -> 1 <= tour_pop c -> length pop0 = tour_pop c ->
  Forall (fun a => cur a = 0) pop0 ->
  stream_ok (hp_steps c S0) (tour_pop c) inp ->
  exists st' G, run (max_steps c + 1) c (init_state pop0) inp 0 = Some (st', G) /\
                Forall (fun a => cur a = G * S0) (pop st') /\
                max_steps c <= tour_pop c * (G * S0) /\ (G = 0 \/ tour_pop c * ((G - 1) * S0) < max_steps c).
Proof. exact terminates_at_sum_lemma. Qed.
Print Assumptions terminates_at_summed_budget.

(* Any loop (also the population-summed budget of the multi-agent on-policy loop, heterogeneous learn_step, early
   stop): if every training phase adds at least one step, max_steps generations of fuel suffice. *)
Theorem terminates : forall c inp,
  1 <= tour_pop c -> stream_ok (hp_progress c) (tour_pop c) inp ->
  forall fuel st g,
  length (pop st) = tour_pop c -> Forall (fun a => g <= cur a) (pop st) -> max_steps c <= fuel + g ->
  exists st' G, run fuel c st inp g = Some (st', G).
Proof. exact run_terminates. Qed.
Print Assumptions terminates.

(* S = 0 (evo_steps < num_envs in the off-policy loops): counters never move and the loop never ends. *)
Theorem no_progress_never_terminates : forall c inp,
  target c = None -> 0 < max_steps c -> 1 <= tour_pop c -> stream_ok (hp_steps c 0) (tour_pop c) inp ->
  forall fuel st g, length (pop st) = tour_pop c -> Forall (fun a => cur a = 0) (pop st) ->
  run fuel c st inp g = None.
Proof. exact no_progress_never_terminates_lemma. Qed.
Print Assumptions no_progress_never_terminates.

(* Every returned agent's counter equals the environment steps taken by it and the ancestors it was cloned from. *)
Theorem steps_equal_env_steps : forall c inp fuel pop0 st' G,
  lp c <> Offline -> 1 <= tour_pop c -> length pop0 = tour_pop c ->
  (forall g, parents_ok (tour_pop c) (g_parents (inp g))) ->
  Forall (fun a => cur a = taken a) pop0 ->
  run fuel c (init_state pop0) inp 0 = Some (st', G) ->
  Forall (fun a => cur a = taken a) (pop st').
Proof. exact steps_equal_env_steps_lemma. Qed.
Print Assumptions steps_equal_env_steps.

(* One fitness entry and one steps entry per agent and generation (along every lineage). *)
Theorem one_fitness_per_generation : forall c inp fuel pop0 st' G,
  1 <= tour_pop c -> length pop0 = tour_pop c ->
  (forall g, parents_ok (tour_pop c) (g_parents (inp g))) ->
  Forall (fun a => length (fit a) = 0 /\ length (stp a) = 1) pop0 ->
  run fuel c (init_state pop0) inp 0 = Some (st', G) ->
  Forall (fun a => length (fit a) = G /\ length (stp a) = S G) (pop st').
Proof. exact one_fitness_per_generation_lemma. Qed.
Print Assumptions one_fitness_per_generation.

(* The returned population has the size it was given and pairwise distinct indices. *)
Theorem pop_size_and_indices : forall c inp fuel pop0 st' G,
  1 <= tour_pop c -> length pop0 = tour_pop c -> NoDup (map idx pop0) ->
  run fuel c (init_state pop0) inp 0 = Some (st', G) ->
  length (pop st') = length pop0 /\ NoDup (map idx (pop st')).
Proof. exact pop_size_and_indices_lemma. Qed.
Print Assumptions pop_size_and_indices.

(* With elitism member 0 of the selected population is the individual kept as elite, unchanged (same index, step
   history, fitness history, lineage), and — its position passing [elite_okb] — no individual has a greater mean
   fitness. (Which of several individuals with the same maximal mean is kept depends on np.argsort's tie order and is
   an input of the model.) *)
Theorem elite_carried : forall c pop ps,
  elitism c = true -> elite_okb c pop (nth 0 ps 0) = true ->
  let e := nth (nth 0 ps 0) pop dflt in
  hd dflt (select c pop ps) = e /\ In e pop /\
  forall a, In a pop -> (mean_last (eval_loop c) a <= mean_last (eval_loop c) e)%Q.
Proof. exact elite_carried_lemma. Qed.
Print Assumptions elite_carried.

(* the requirement on the elite is satisfiable for every non-empty population (the last maximal individual meets it) *)
Theorem elite_choice_exists : forall c pop, pop <> [] -> elite_okb c pop (elite_pos c pop) = true.
Proof. exact elite_pos_ok. Qed.
Print Assumptions elite_choice_exists.

(* ... and inside the loop: whenever selection with elitism ran and the generation reports a valid elite, the next
   generation starts with exactly that individual of the evaluated population in front, and nobody had a greater
   mean fitness. *)
Theorem elite_carried_into_next_generation : forall c st inp,
  elitism c = true -> o_evolved (snd (gen c st inp)) = true -> o_elite_ok (snd (gen c st inp)) = true ->
  let p2 := o_tested (snd (gen c st inp)) in
  let e := nth (nth 0 (g_parents inp) 0) p2 dflt in
  hd dflt (pop (fst (gen c st inp))) = e /\ In e p2 /\
  forall a, In a p2 -> (mean_last (eval_loop c) a <= mean_last (eval_loop c) e)%Q.
Proof. exact gen_elite_lemma. Qed.
Print Assumptions elite_carried_into_next_generation.

(* Learn-call schedule of one off-policy training phase (single- and multi-agent) whose memory is ready from the
   first stored transition on (batch_size transitions stored, learning_delay passed): learn_step > num_envs ->
   one learn() every learn_step // num_envs iterations starting with the first, i.e. ceil(n / (learn_step // num_envs))
   calls over the n = evo_steps // num_envs iterations; otherwise num_envs // learn_step calls in every iteration. *)
Theorem learn_schedule : forall c h m,
  (lp c = Off \/ lp c = MAOff) -> 1 <= num_envs c ->
  ready c h (mem_add c (num_envs c) (turn_start m)) = true ->
  r_learn (snd (rollout c h m)) =
    if num_envs c <? ls h then cdiv (evo_steps c / num_envs c) (ls h / num_envs c)
    else (evo_steps c / num_envs c) * (num_envs c / ls h).
Proof. exact learn_schedule_lemma. Qed.
Print Assumptions learn_schedule.

(* ... and nothing is learned in an iteration at which the memory is not ready (fewer than batch_size transitions,
   or learning_delay not passed). *)
Theorem no_learning_before_ready : forall c h i m, ready c h m = false -> learns_at c h i m = 0.
Proof. exact not_ready_no_learn. Qed.
Print Assumptions no_learning_before_ready.

(* train_bandits: once batch_size contexts are stored every step makes learn_step learn() calls. *)
Theorem bandit_learn_schedule : forall c h n m r,
  bs h <= mem_len c (mem_add c 1 m) ->
  r_learn (snd (rollout_bandit c h n m r)) = r_learn r + n * ls h.
Proof. exact bandit_schedule_lemma. Qed.
Print Assumptions bandit_learn_schedule.

(* Early stop: it is taken only when a target is set, every individual's mean over its last 10 fitness values exceeds
   it and member 0 has at least 100 steps entries (99 completed generations); the evaluated population is returned as is. *)
Theorem early_stop_sound : forall c st inp,
  o_stop (snd (gen c st inp)) = true ->
  let p2 := o_tested (snd (gen c st inp)) in
  pop (fst (gen c st inp)) = p2 /\
  exists t, target c = Some t /\
            (forall a, In a p2 -> (t < mean_last 10 a)%Q) /\
            100 <= length (stp (hd dflt p2)).
Proof. exact early_stop_sound_lemma. Qed.
Print Assumptions early_stop_sound.

(* Checkpoints (uniform loops, frequency k = checkpoint > 0): when the loop returns after G generations exactly
   min(G, G*S // k) checkpoints were written — one per crossed multiple of the frequency, at most one per generation. *)
Theorem checkpoint_count : forall c S0 inp pop0 fuel st' G,
  target c = None -> 0 < checkpoint c -> 1 <= tour_pop c -> length pop0 = tour_pop c ->
  Forall (fun a => cur a = 0) pop0 ->
  stream_ok (hp_steps c S0) (tour_pop c) inp ->
  run fuel c (init_state pop0) inp 0 = Some (st', G) ->
  ck_count st' = Nat.min G (G * S0 / checkpoint c).
Proof. exact checkpoint_count_lemma. Qed.
Print Assumptions checkpoint_count.

(* Learn-call schedule of ANY off-policy training phase, warm-up included (no readiness hypothesis): with w the
   number of leading iterations after which the memory is still not ready, nothing is learned in those w iterations
   and the steady schedule applies to the remaining ones, iteration indices counting from the start of the phase. *)
Theorem learn_schedule_warmup : forall c h m,
  (lp c = Off \/ lp c = MAOff) -> 1 <= num_envs c ->
  let n := evo_steps c / num_envs c in
  let w := warmup c h n (turn_start m) in
  r_learn (snd (rollout c h m)) =
    if num_envs c <? ls h then cdiv n (ls h / num_envs c) - cdiv w (ls h / num_envs c)
    else (n - w) * (num_envs c / ls h).
Proof. exact learn_schedule_warmup_lemma. Qed.
Print Assumptions learn_schedule_warmup.

(* what w is: the memory is not ready after each of the first w stored transitions and (if the phase is longer) ready
   after the next one *)
Theorem warmup_spec : forall c h n m,
  (forall j, j < warmup c h n m -> ready c h (adds c (S j) m) = false) /\
  (warmup c h n m < n -> ready c h (adds c (S (warmup c h n m)) m) = true).
Proof. exact warmup_spec_lemma. Qed.
Print Assumptions warmup_spec.

(* ... and without an n-step buffer readiness is a threshold: max(batch_size, learning_delay + 1) transitions held by
   the memory (multi-agent buffer: batch_size held and more than learning_delay ever stored) *)
Theorem ready_threshold : forall c h j m,
  nstep c = 0 ->
  ready c h (adds c j m) =
    if is_ma c
    then (bs h <=? Nat.min (mem_cap c) (added m + j * num_envs c)) && (delay c <? added m + j * num_envs c)
    else (Nat.max (bs h) (S (delay c)) <=? Nat.min (mem_cap c) (added m + j * num_envs c)).
Proof. exact ready_threshold_lemma. Qed.
Print Assumptions ready_threshold.

(* train_bandits, warm-up included: learn_step learn() calls in every step but the first w (fewer than batch_size
   contexts stored) *)
Theorem bandit_learn_schedule_warmup : forall c h n m r,
  r_learn (snd (rollout_bandit c h n m r)) = r_learn r + (n - warmup_bandit c h n m) * ls h.
Proof. exact bandit_schedule_warmup_lemma. Qed.
Print Assumptions bandit_learn_schedule_warmup.

(* Transitions stored per turn. The n-step window is emptied when the environment is reset at the start of EVERY
   individual's turn (every individual, every generation), so a turn of n = evo_steps // num_envs iterations stores
   (n - (n_step - 1)) x num_envs transitions in the memories (all n x num_envs without an n-step buffer) ... *)
Theorem turn_stores : forall c h m,
  (lp c = Off \/ lp c = MAOff) ->
  added (fst (rollout c h m)) = added m + (evo_steps c / num_envs c - (nstep c - 1)) * num_envs c.
Proof. exact turn_stores_lemma. Qed.
Print Assumptions turn_stores.

(* ... and during the first n_step - 1 iterations of a turn the memories hold exactly what they held when it started
   (this is the n-step part of the warm-up count w of [learn_schedule_warmup], repeated in every turn). *)
Theorem nstep_window_refills_every_turn : forall c m j,
  j < nstep c -> added (adds c j (turn_start m)) = added m.
Proof. exact adds_turn_start_lemma. Qed.
Print Assumptions nstep_window_refills_every_turn.

(* ---- calling a training function again: the stop rule, the counters and the histories are state ---- *)

(* Budget already met when the function is called (e.g. on the population a previous call returned, with the same
   max_steps): zero generations, the state comes back unchanged. *)
Theorem budget_already_met_runs_nothing : forall c st inp fuel g,
  guard c (pop st) = false -> run fuel c st inp g = Some (st, g).
Proof. exact budget_already_met_lemma. Qed.
Print Assumptions budget_already_met_runs_nothing.

(* Uniform loops from ARBITRARY equal counters s0 (0 for a fresh population, whatever a previous call left otherwise)
   and an arbitrary memory / history: exactly the first G generations with budget_used (s0 + G*S) >= max_steps, where
   budget_used is the counter itself, or tour_pop times it for the population-summed budget of the multi-agent
   on-policy loop. The budget counts the agents' counters, not the steps of this call. *)
Theorem terminates_at_from : forall c S0 s0 inp st,
  target c = None -> 0 < S0 -> 1 <= tour_pop c -> length (pop st) = tour_pop c ->
  Forall (fun a => cur a = s0) (pop st) ->
  stream_ok (hp_steps c S0) (tour_pop c) inp ->
  exists st' G, run (max_steps c + 1) c st inp 0 = Some (st', G) /\
                Forall (fun a => cur a = s0 + G * S0) (pop st') /\
                max_steps c <= budget_used c (s0 + G * S0) /\
                (G = 0 \/ budget_used c (s0 + (G - 1) * S0) < max_steps c).
Proof. exact terminates_at_from_lemma. Qed.
Print Assumptions terminates_at_from.

(* the accounting clauses from an arbitrary initial state (population with history, in any index order; filled memory) *)
Theorem steps_equal_env_steps_from : forall c inp fuel st st' G,
  lp c <> Offline -> 1 <= tour_pop c -> length (pop st) = tour_pop c ->
  (forall g, parents_ok (tour_pop c) (g_parents (inp g))) ->
  Forall (fun a => cur a = taken a) (pop st) ->
  run fuel c st inp 0 = Some (st', G) ->
  Forall (fun a => cur a = taken a) (pop st').
Proof. exact steps_equal_env_steps_from_lemma. Qed.
Print Assumptions steps_equal_env_steps_from.

Theorem one_fitness_per_generation_from : forall c inp fuel st st' G f0 s0,
  1 <= tour_pop c -> length (pop st) = tour_pop c ->
  (forall g, parents_ok (tour_pop c) (g_parents (inp g))) ->
  Forall (fun a => length (fit a) = f0 /\ length (stp a) = S s0) (pop st) ->
  run fuel c st inp 0 = Some (st', G) ->
  Forall (fun a => length (fit a) = f0 + G /\ length (stp a) = S (s0 + G)) (pop st').
Proof. exact one_fitness_per_generation_from_lemma. Qed.
Print Assumptions one_fitness_per_generation_from.

Theorem pop_size_and_indices_from : forall c inp fuel st st' G,
  1 <= tour_pop c -> length (pop st) = tour_pop c -> NoDup (map idx (pop st)) ->
  run fuel c st inp 0 = Some (st', G) ->
  length (pop st') = length (pop st) /\ NoDup (map idx (pop st')).
Proof. exact pop_size_and_indices_from_lemma. Qed.
Print Assumptions pop_size_and_indices_from.

(* How much the shared memory receives: one turn stores [stored_per_turn] transitions ((iterations - (n_step - 1)) x
   num_envs off-policy, episode_steps for the bandits, nothing in the on-policy / offline loops), and when a call
   returns after G generations the memory has received G x population x stored_per_turn — whatever the learn
   schedule, the selection outcomes and the hyper-parameters were. *)
Theorem rollout_stores : forall c h m,
  (lp c = Bandit -> nstep c = 0) ->
  added (fst (rollout c h m)) = added m + stored_per_turn c.
Proof. exact rollout_stores_lemma. Qed.
Print Assumptions rollout_stores.

Theorem memory_fill : forall c inp fuel st st' G,
  (lp c = Bandit -> nstep c = 0) -> 1 <= tour_pop c -> length (pop st) = tour_pop c ->
  run fuel c st inp 0 = Some (st', G) ->
  added (memo st') = added (memo st) + G * (tour_pop c * stored_per_turn c).
Proof. exact memory_fill_lemma. Qed.
Print Assumptions memory_fill.

(* train_bandits with tournament + mutation evolves when member 0 crosses a multiple of evo_steps: after G generations
   of S steps exactly min(G, G*S // evo_steps) evolutions happened (at most one per generation). *)
Theorem bandit_evolution_count : forall c S0 inp pop0 fuel st' G,
  lp c = Bandit -> evolve c = true -> target c = None -> 0 < evo_steps c -> 1 <= tour_pop c ->
  length pop0 = tour_pop c -> Forall (fun a => cur a = 0) pop0 ->
  stream_ok (hp_steps c S0) (tour_pop c) inp ->
  run fuel c (init_state pop0) inp 0 = Some (st', G) ->
  evo_count st' = Nat.min G (G * S0 / evo_steps c).
Proof. exact bandit_evolution_count_lemma. Qed.
Print Assumptions bandit_evolution_count.

(* ---- non-vacuity: concrete runs of the model ---- *)
Definition cfg_off : cfg :=
  {| lp := Off; num_envs := 2; evo_steps := 9; max_steps := 20; episode_steps := 0; delay := 0; mem_cap := 16;
     nstep := 0; checkpoint := 8; evolve := true; elitism := true; tour_pop := 2; eval_loop := 1; target := None |}.
Definition inp_off (g : nat) : ginput :=
  {| g_hps := [{| ls := 3; bs := 4 |}; {| ls := 1; bs := 4 |}]; g_fit := [1 # 2; 3 # 4]%Q; g_parents := [1; g mod 2] |}.

(* 9 // 2 * 2 = 8 steps per generation, budget 20 -> 3 generations, counters 24 *)
Example terminates_at_nonvacuous :
  exists st, run 21 cfg_off (init_state [fresh_agent 0; fresh_agent 1]) inp_off 0 = Some (st, 3) /\
             map cur (pop st) = [24; 24] /\ map idx (pop st) = [3; 4] /\ map taken (pop st) = [24; 24] /\
             ck_count st = 3.
Proof. eexists. vm_compute. repeat split. Qed.

Example stream_ok_nonvacuous : stream_ok (hp_steps cfg_off 8) 2 inp_off.
Proof.
  intros g. split.
  - intros h [<-|[<-|[<-|[]]]]; reflexivity.
  - intros j. unfold inp_off. cbn [g_parents]. destruct j as [|[|[|j]]]; cbn [nth]; try lia.
    pose proof (Nat.mod_upper_bound g 2). lia.
Qed.

(* learn schedule of the first individual: learn_step 3 > num_envs 2 -> every step (3 // 2 = 1) once 4 transitions
   are stored, i.e. from the second of its 4 steps on; the second individual learns 2 // 1 = 2 times per step *)
Example elite_ok_example :
  o_elite_ok (snd (gen cfg_off (init_state [fresh_agent 0; fresh_agent 1]) (inp_off 0))) = true /\
  elite_okb cfg_off (o_tested (snd (gen cfg_off (init_state [fresh_agent 0; fresh_agent 1]) (inp_off 0)))) 0 = false.
Proof. vm_compute. split; reflexivity. Qed.

(* first individual of the example below: 4 iterations, the memory holds 2 transitions after the first one (batch 4):
   one warm-up iteration, then iterations 1,2,3 with period 3 // 2 = 1 -> cdiv 4 1 - cdiv 1 1 = 3 learn calls *)
Example warmup_example :
  warmup cfg_off {| ls := 3; bs := 4 |} 4 {| added := 0; calls := 0 |} = 1.
Proof. vm_compute. reflexivity. Qed.

(* n-step window of length 3, 4 iterations of 2 sub-environments per turn: every turn stores (4 - 2) * 2 = 4 transitions,
   also the second individual's turn and the next generation's *)
Example turn_stores_example :
  let c := {| lp := Off; num_envs := 2; evo_steps := 8; max_steps := 16; episode_steps := 0; delay := 0; mem_cap := 64;
              nstep := 3; checkpoint := 0; evolve := false; elitism := true; tour_pop := 2; eval_loop := 1; target := None |} in
  exists st, run 20 c (init_state [fresh_agent 0; fresh_agent 1])
               (fun _ => {| g_hps := [{| ls := 1; bs := 2 |}; {| ls := 1; bs := 2 |}]; g_fit := [0; 0]%Q; g_parents := [] |}) 0
             = Some (st, 2) /\ added (memo st) = 16.
Proof. eexists. vm_compute. repeat split. Qed.

Example learn_schedule_example :
  map r_learn (o_roll (snd (gen cfg_off (init_state [fresh_agent 0; fresh_agent 1]) (inp_off 0)))) = [3; 8].
Proof. vm_compute. reflexivity. Qed.

(* the multi-agent on-policy loop budgets the sum over the population *)
Definition cfg_maon : cfg :=
  {| lp := MAOn; num_envs := 2; evo_steps := 8; max_steps := 33; episode_steps := 0; delay := 0; mem_cap := 0;
     nstep := 0; checkpoint := 0; evolve := false; elitism := true; tour_pop := 2; eval_loop := 1; target := None |}.
Example summed_budget_example :
  exists st, run 40 cfg_maon (init_state [fresh_agent 0; fresh_agent 1])
               (fun _ => {| g_hps := [{| ls := 4; bs := 4 |}; {| ls := 4; bs := 4 |}]; g_fit := [0; 0]%Q; g_parents := [] |}) 0
             = Some (st, 3) /\ map cur (pop st) = [24; 24].
Proof. eexists. vm_compute. repeat split. Qed.

Example no_progress_example :
  run 50 {| lp := Off; num_envs := 4; evo_steps := 3; max_steps := 10; episode_steps := 0; delay := 0; mem_cap := 8;
            nstep := 0; checkpoint := 0; evolve := false; elitism := true; tour_pop := 1; eval_loop := 1; target := None |}
      (init_state [fresh_agent 0]) (fun _ => {| g_hps := []; g_fit := []; g_parents := [] |}) 0 = None.
Proof. vm_compute. reflexivity. Qed.

(* early stop: fitness 1 > target 1/2 for everybody -> stops after 99 generations (len(steps) = 100), budget 150 not met *)
Example early_stop_example :
  exists st, run 200 {| lp := Bandit; num_envs := 1; evo_steps := 50; max_steps := 150; episode_steps := 1; delay := 0;
                         mem_cap := 64; nstep := 0; checkpoint := 0; evolve := false; elitism := true; tour_pop := 2;
                         eval_loop := 1; target := Some (1 # 2)%Q |}
               (init_state [fresh_agent 0; fresh_agent 1])
               (fun _ => {| g_hps := [{| ls := 1; bs := 4 |}; {| ls := 1; bs := 4 |}]; g_fit := [1; 1]%Q; g_parents := [] |}) 0
             = Some (st, 99) /\ map cur (pop st) = [99; 99].
Proof. eexists. vm_compute. repeat split. Qed.

(* the coordinator's demo: IPPO-like loop, 2 individuals, 8 steps per generation, summed budget. First call, budget 32 ->
   2 generations, counters 16; second call on the returned population, budget 48 -> ONE generation (32 + 16 >= 48);
   third call, budget 40 already met -> zero generations *)
Definition cfg_resume (mx : nat) : cfg :=
  {| lp := MAOn; num_envs := 2; evo_steps := 8; max_steps := mx; episode_steps := 0; delay := 0; mem_cap := 0;
     nstep := 0; checkpoint := 0; evolve := false; elitism := true; tour_pop := 2; eval_loop := 1; target := None |}.
Definition inp_resume (_ : nat) : ginput :=
  {| g_hps := [{| ls := 4; bs := 4 |}; {| ls := 4; bs := 4 |}]; g_fit := [0; 0]%Q; g_parents := [] |}.
Example resume_example :
  exists st1 st2,
    run 40 (cfg_resume 32) (init_state [fresh_agent 0; fresh_agent 1]) inp_resume 0 = Some (st1, 2) /\
    map cur (pop st1) = [16; 16] /\
    run 60 (cfg_resume 48) (init_state_from (pop st1) 0) inp_resume 0 = Some (st2, 1) /\
    map cur (pop st2) = [24; 24] /\ map (fun a => length (fit a)) (pop st2) = [3; 3] /\
    run 60 (cfg_resume 40) (init_state_from (pop st2) 0) inp_resume 0 = Some (init_state_from (pop st2) 0, 0).
Proof. eexists. eexists. vm_compute. repeat split. Qed.

(* a population handed over in permuted index order [1;3;0;2] with elitism: the new indices start above the maximum
   over the WHOLE population (3), whatever the last member's index is *)
Example permuted_indices_example :
  let c := {| lp := Off; num_envs := 2; evo_steps := 8; max_steps := 8; episode_steps := 0; delay := 0; mem_cap := 16;
              nstep := 0; checkpoint := 0; evolve := true; elitism := true; tour_pop := 4; eval_loop := 1; target := None |} in
  map idx (pop (fst (gen c (init_state [fresh_agent 1; fresh_agent 3; fresh_agent 0; fresh_agent 2])
                     {| g_hps := []; g_fit := [0; 1; 0; 0]%Q; g_parents := [1; 0; 2; 3] |}))) = [3; 4; 5; 6].
Proof. vm_compute. reflexivity. Qed.

(* bandits, 4 steps per generation, evo_steps 6, budget 17: 5 generations, evolutions after generations 2, 3 and 5
   (member 0 at 8, 12, 20 crosses 6, 12, 18): min(5, 20 // 6) = 3; the memory received 5 x 2 x 4 = 40 contexts *)
Example bandit_evolution_example :
  let c := {| lp := Bandit; num_envs := 1; evo_steps := 6; max_steps := 17; episode_steps := 4; delay := 0; mem_cap := 64;
              nstep := 0; checkpoint := 0; evolve := true; elitism := true; tour_pop := 2; eval_loop := 1; target := None |} in
  exists st, run 30 c (init_state [fresh_agent 0; fresh_agent 1])
               (fun _ => {| g_hps := [{| ls := 1; bs := 2 |}; {| ls := 1; bs := 2 |}]; g_fit := [1; 0]%Q; g_parents := [0; 1] |}) 0
             = Some (st, 5) /\ evo_count st = 3 /\ added (memo st) = 40.
Proof. eexists. vm_compute. repeat split. Qed.
