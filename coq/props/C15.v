(* C15 — property theorems only. Each is closed by [exact] of a lemma proved in C15/Proofs.v. *)
From Coq Require Import List Arith Bool ZArith QArith Lia.
Import ListNotations.
From AgileV Require Import C15.Model C15.Proofs.
Open Scope nat_scope.

(* maybe_add_batch_dim: for an input of shape lead ++ space_shape with at most two leading dimensions the result
   is [product of the leading dimensions] :: space_shape with the data untouched (unbatched -> 1, batch -> B,
   batch-of-one -> 1, (step, env) -> T*E, including T or E = 1 and rank-0 spaces). *)
Theorem add_batch_dim_spec : forall t s lead,
  shp t = lead ++ s -> length lead <= 2 -> (length lead = 2 -> prod s <> 0) ->
  add_batch_dim t s = Some (T (prod lead :: s) (dat t)).
Proof. exact Proofs.add_batch_dim_spec. Qed.
Print Assumptions add_batch_dim_spec.

(* prep_shape: for every leaf space kind and every supported input the prepared tensor is
   batch :: network input shape, batch = product of the leading dimensions.
   [mdf] selects the MultiDiscrete batching: false = the tree as it is (MultiDiscrete then needs <= 1 leading
   dimension, see prep_md_step_env_refuted), true = repaired. *)
Theorem prep_shape : forall mdf nz l lead t,
  supported mdf l lead t ->
  exists t', prep_leaf mdf nz l t = Some t' /\ shp t' = prod lead :: net_input_shape l.
Proof. exact prep_shape_lemma. Qed.
Print Assumptions prep_shape.

(* prep_rowwise: preparing a batch gives, row by row, what preparing each observation on its own gives
   (every row of the batch, cut out and handed in as an unbatched observation of the space's shape). *)
Theorem prep_rowwise : forall mdf nz l lead t,
  supported mdf l lead t ->
  exists t', prep_leaf mdf nz l t = Some t' /\
    Forall2 (fun row r_in => prep_leaf mdf nz l (T (space_shape l) r_in) = Some (T (1 :: net_input_shape l) row))
            (rows t') (chunks (prod (space_shape l)) (prod lead) (dat t)).
Proof. exact prep_rowwise_lemma. Qed.
Print Assumptions prep_rowwise.

(* every batch composition and ordering: the prepared row of an observation depends on that observation only —
   not on its position, not on the batch size or the (step, env) layout, not on the observations sharing the call *)
Theorem prep_row_determined : forall mdf nz l lead1 t1 lead2 t2 t1' t2' i j,
  supported mdf l lead1 t1 -> supported mdf l lead2 t2 ->
  prep_leaf mdf nz l t1 = Some t1' -> prep_leaf mdf nz l t2 = Some t2' ->
  i < prod lead1 -> j < prod lead2 ->
  nth i (chunks (prod (space_shape l)) (prod lead1) (dat t1)) [] = nth j (chunks (prod (space_shape l)) (prod lead2) (dat t2)) [] ->
  nth i (rows t1') [] = nth j (rows t2') [].
Proof. exact prep_row_determined_lemma. Qed.
Print Assumptions prep_row_determined.

(* Discrete, value level, for EVERY input shape: as long as at most two dimensions survive the squeeze
   (n > 1) / are present (n = 1), the result is [number of observations; n] and consists of the one-hot rows
   of the class indices in order: squeeze() never eats the batch dimension, also for n = 1, batch-of-one,
   (B,1) columns and (T,1)/(1,E) inputs. *)
Theorem prep_discrete_spec : forall n t,
  1 <= n -> classes_ok n (dat t) -> length (sq n (shp t)) <= 2 ->
  prep_discrete n t = Some (T [prod (shp t); n] (flat_map (one_hot_row n) (map qlong (dat t)))).
Proof. exact prep_discrete_spec_lemma. Qed.
Print Assumptions prep_discrete_spec.

Theorem prep_discrete_rejects : forall n t,
  2 < length (sq n (shp t)) -> prep_discrete n t = None.
Proof. exact prep_discrete_err_lemma. Qed.
Print Assumptions prep_discrete_rejects.

(* one_hot_correct: n entries, 1 at the class index, 0 elsewhere; the entries sum to 1 *)
Theorem one_hot_correct : forall n k,
  length (one_hot_row n k) = n /\
  forall j, j < n -> nth j (one_hot_row n k) 0%Q = if Z.eqb k (Z.of_nat j) then 1%Q else 0%Q.
Proof. exact one_hot_correct_lemma. Qed.
Print Assumptions one_hot_correct.

Theorem one_hot_sums_to_one : forall n k, class_ok n k = true -> qsum (one_hot_row n k) == 1%Q.
Proof. exact one_hot_sum_lemma. Qed.
Print Assumptions one_hot_sums_to_one.

(* MultiDiscrete: the prepared batch is the concatenation, row by row, of the one-hot encodings of the
   components in component order *)
Theorem prep_multidiscrete_spec : forall (fixed : bool) nvec t lead,
  shp t = lead ++ [length nvec] -> length nvec <> 0 -> sum nvec <> 0 ->
  length lead <= (if fixed then 2 else 1) ->
  Forall (md_ok nvec) (md_rows_in nvec lead t) ->
  prep_md fixed nvec t = Some (T [prod lead; sum nvec] (concat (map (md_enc nvec) (md_rows_in nvec lead t)))).
Proof. exact prep_md_spec_lemma. Qed.
Print Assumptions prep_multidiscrete_spec.

(* Box: values; image normalisation is (x - low) / (high - low) element by element with the bounds
   broadcast over the batch, and lands in [0, 1] for pixels inside the bounds *)
Theorem prep_box_spec : forall nz s b lo hi t lead,
  shp t = lead ++ s -> length lead <= 2 -> (length lead = 2 -> prod s <> 0) ->
  prep_box nz s b lo hi t = Some (T (prod lead :: s) (box_values nz s b lo hi (dat t))).
Proof. exact Proofs.prep_box_spec. Qed.
Print Assumptions prep_box_spec.

Theorem norm_correct : forall lo hi (rs : list (list Q)),
  length lo <> 0 -> Forall (fun r => length r = length lo) rs -> length hi = length lo ->
  norm_data lo hi (concat rs) = concat (map (norm_row lo hi) rs) /\
  forall r j, In r rs -> j < length r ->
    nth j (norm_row lo hi r) 0%Q == (nth j r 0%Q - nth j lo 0%Q) / (nth j hi 0%Q - nth j lo 0%Q).
Proof. exact norm_correct_lemma. Qed.
Print Assumptions norm_correct.

Theorem norm_in_unit : forall x l h, (l < h)%Q -> (l <= x)%Q -> (x <= h)%Q ->
  (0 <= (x - l) / (h - l) /\ (x - l) / (h - l) <= 1)%Q.
Proof. exact Proofs.norm_in_unit. Qed.
Print Assumptions norm_in_unit.

(* vect_dim_spec: a vectorised observation is recognised as such for every space kind (including
   MultiBinary), Dict (first entry of the observation) and Tuple (first member) *)
Theorem vect_dim_spec : forall sp o,
  match sp, o with
  | Leaf l, OLeaf t => forall lead, shp t = lead ++ space_shape l ->
        vect_dim true sp o = Some (match lead with [] => 1 | b :: _ => b end)
  | DictS fields, ODict ((k, t) :: _) => forall l lead, lookup k fields = Some l -> shp t = lead ++ space_shape l ->
        vect_dim true sp o = Some (match lead with [] => 1 | b :: _ => b end)
  | TupleS (l :: _), OTuple (t :: _) => forall lead, shp t = lead ++ space_shape l ->
        vect_dim true sp o = Some (match lead with [] => 1 | b :: _ => b end)
  | _, _ => True
  end.
Proof. exact vect_dim_spec_lemma. Qed.
Print Assumptions vect_dim_spec.

(* get_vect_dim before commit 6233bc3 (int compared with a tuple): no answer for MultiBinary *)
Theorem vect_dim_multibinary_pinned_refuted :
  exists n t, wf t /\ shp t = [4; n] /\ vect_dim_leaf false (MultiBinary n) t = None
              /\ vect_dim_leaf true (MultiBinary n) t = Some 4.
Proof. exact vect_dim_multibinary_pinned_refuted_lemma. Qed.
Print Assumptions vect_dim_multibinary_pinned_refuted.

(* the tree's MultiDiscrete branch rejects a legal (step, env, len nvec) observation; the repaired one prepares it *)
Theorem prep_md_step_env_refuted :
  exists nvec t, wf t /\ shp t = [2; 1; length nvec] /\
    prep_md false nvec t = None /\
    prep_md true nvec t = Some (T [2; sum nvec] [0;1;0;0;1; 1;0;0;1;0]%Q).
Proof. exact prep_md_step_env_refuted_lemma. Qed.
Print Assumptions prep_md_step_env_refuted.

(* ... and the two differ on rank-3 inputs only *)
Theorem prep_md_fixed_agrees : forall nvec t, rank t <> 3 -> prep_md false nvec t = prep_md true nvec t.
Proof. exact prep_md_fixed_agrees_lemma. Qed.
Print Assumptions prep_md_fixed_agrees.

(* disassemble_assemble: splitting the batched output of a shared policy gives every agent back exactly its
   own rows, for any number of agents and envs and any row width; and conversely *)
Theorem disassemble_assemble : forall (outs : list (list Q)) w,
  outs <> [] -> Forall (fun o => length o = w) outs ->
  disassemble (length outs) (assemble outs) = outs.
Proof. exact disassemble_assemble_lemma. Qed.
Print Assumptions disassemble_assemble.

Theorem assemble_disassemble : forall n (flat : list Q) w,
  length flat = n * w -> n <> 0 -> assemble (disassemble n flat) = flat.
Proof. exact assemble_disassemble_lemma. Qed.
Print Assumptions assemble_disassemble.

(* shared policies (IPPO): with the repaired grouping every agent receives the network's outputs on its own
   rows for EVERY order of the observation dict, every grouping and every number of envs ... *)
Theorem ippo_route_fixed_any_order : forall (R O : Type) (group : nat -> nat) (f : R -> O) agent_ids E od g,
  (forall a, In a agent_ids -> In a (map fst od)) ->
  (forall a, In a agent_ids -> length (lookup_rows a od) = E) ->
  ippo_route group true agent_ids E (map f) od g = route_spec group f agent_ids od g.
Proof. exact @Proofs.ippo_route_fixed_any_order. Qed.
Print Assumptions ippo_route_fixed_any_order.

(* ... the grouping of the tree does so when the dict lists the agents of the group in agent_ids order ... *)
Theorem ippo_route_pinned_same_order : forall (R O : Type) (group : nat -> nat) (f : R -> O) agent_ids E od g,
  NoDup (map fst od) ->
  map fst (filter (fun p => group (fst p) =? g) od) = members group g agent_ids ->
  (forall a, In a agent_ids -> length (lookup_rows a od) = E) ->
  ippo_route group false agent_ids E (map f) od g = route_spec group f agent_ids od g.
Proof. exact @Proofs.ippo_route_pinned_same_order. Qed.
Print Assumptions ippo_route_pinned_same_order.

(* ... and not otherwise: the result depends on the order of the observation dict *)
Theorem ippo_route_order_refuted :
  exists (group : nat -> nat) agent_ids od,
    NoDup (map fst od) /\ (forall a, In a agent_ids <-> In a (map fst od)) /\
    ippo_route group false agent_ids 1 (map (fun x : nat => x)) od 0
    <> route_spec group (fun x : nat => x) agent_ids od 0.
Proof. exact ippo_route_order_refuted_lemma. Qed.
Print Assumptions ippo_route_order_refuted.

(* MADDPG / MATD3 get_action: zip(agent_ids, dict values, actors) *)
Theorem maddpg_route_pinned_same_order : forall (R O : Type) (actor : nat -> list R -> list O) agent_ids od,
  NoDup (map fst od) -> map fst od = agent_ids ->
  maddpg_route false agent_ids actor od = map (fun a => (a, actor a (lookup_rows a od))) agent_ids.
Proof. exact @Proofs.maddpg_route_pinned_same_order. Qed.
Print Assumptions maddpg_route_pinned_same_order.

Theorem maddpg_route_order_refuted :
  exists agent_ids (od : list (nat * list nat)),
    NoDup (map fst od) /\ (forall a, In a agent_ids <-> In a (map fst od)) /\
    maddpg_route false agent_ids (fun _ x => x) od <> map (fun a => (a, lookup_rows a od)) agent_ids.
Proof. exact maddpg_route_order_refuted_lemma. Qed.
Print Assumptions maddpg_route_order_refuted.

(* Dict / Tuple observations are handled member by member: the result exists iff every member can be prepared
   with the space found under its key (Dict) / at its position (Tuple), and consists of exactly those results *)
Theorem prep_dict_member_by_member : forall mdf nz fields items ps,
  prep_dict mdf nz fields items = Some ps <->
  Forall2 (fun it p => fst it = fst p /\ exists l, lookup (fst it) fields = Some l /\ prep_leaf mdf nz l (snd it) = Some (snd p))
          items ps.
Proof. exact prep_dict_members. Qed.
Print Assumptions prep_dict_member_by_member.

Theorem prep_tuple_member_by_member : forall mdf nz members items ps,
  length items = length members ->
  (prep_tuple mdf nz members items = Some ps <->
   Forall2 (fun lt p => prep_leaf mdf nz (fst lt) (snd lt) = Some p) (combine members items) ps).
Proof. exact prep_tuple_members. Qed.
Print Assumptions prep_tuple_member_by_member.

(* ... so a Dict / Tuple observation whose members are supported inputs with the same leading dimensions is prepared
   into members of shape batch :: network input shape of the member's space *)
Theorem prep_shape_dict : forall mdf nz fields items lead,
  Forall (fun it => exists l, lookup (fst it) fields = Some l /\ supported mdf l lead (snd it)) items ->
  exists ps, prep_dict mdf nz fields items = Some ps /\
    Forall2 (fun it p => fst it = fst p /\ exists l, lookup (fst it) fields = Some l /\
                         shp (snd p) = prod lead :: net_input_shape l) items ps.
Proof. exact prep_dict_shape_lemma. Qed.
Print Assumptions prep_shape_dict.

Theorem prep_shape_tuple : forall mdf nz members items lead,
  Forall2 (fun l t => supported mdf l lead t) members items ->
  exists ps, prep_tuple mdf nz members items = Some ps /\
    Forall2 (fun l p => shp p = prod lead :: net_input_shape l) members ps.
Proof. exact prep_tuple_shape_lemma. Qed.
Print Assumptions prep_shape_tuple.

(* centralised critics: row b of the stacked input is made of the agents' rows b only (vector spaces: cat on dim 1;
   image spaces: stack on dim 2), for any number of agents, any batch size and any widths *)
Theorem stack_critic_vector_rows : forall ts b,
  ts <> [] -> Forall (fun t => exists w, shp t = [b; w] /\ wf t) ts ->
  exists t', stack_critic false ts = Some t' /\
    shp t' = [b; sum (map (fun t => prod (tl (shp t))) ts)] /\
    rows t' = map (fun j => concat (map (fun t => nth j (rows t) []) ts)) (seq 0 b).
Proof. exact cat1_rows_lemma. Qed.
Print Assumptions stack_critic_vector_rows.

Theorem stack_critic_image_planes : forall ts b c h w,
  ts <> [] -> Forall (fun t => shp t = [b; c; h; w] /\ wf t) ts ->
  exists t', stack_critic true ts = Some t' /\
    shp t' = [b; c; length ts; h; w] /\
    chunks (length ts * (h * w)) (b * c) (dat t')
    = map (fun j => concat (map (fun t => nth j (chunks (h * w) (b * c) (dat t)) []) ts)) (seq 0 (b * c)).
Proof. exact stack2_rows_lemma. Qed.
Print Assumptions stack_critic_image_planes.

(* rowwise_net => batch_independent: a network that treats rows independently (no BatchNorm in training mode)
   reports for each row of a prepared batch what it reports for that observation prepared alone *)
Theorem batch_independent : forall (O : Type) mdf nz l lead t (f : list Q -> O),
  supported mdf l lead t ->
  exists t', prep_leaf mdf nz l t = Some t' /\
    Forall2 (fun out r_in => exists row,
                 prep_leaf mdf nz l (T (space_shape l) r_in) = Some (T (1 :: net_input_shape l) row) /\ out = f row)
            (map f (rows t')) (chunks (prod (space_shape l)) (prod lead) (dat t)).
Proof. exact batch_independent_full. Qed.
Print Assumptions batch_independent.

(* ================= deepening round ================= *)
(* the generic Dict / Tuple handling used by the extended model is the original one; r0 = false is the original prep *)
Theorem prep_g_is_prep : forall mdf nz sp o, prep_g (prep_leaf mdf nz) sp o = prep mdf nz sp o.
Proof. exact prep_g_is_prep_lemma. Qed.
Print Assumptions prep_g_is_prep.

Theorem prep_r_false_is_prep : forall mdf nz sp o, prep_r false mdf nz sp o = prep mdf nz sp o.
Proof. exact prep_r_false_lemma. Qed.
Print Assumptions prep_r_false_is_prep.

(* with the feature axis for scalar Box spaces the prepared tensor is batch :: ENCODER input shape for every leaf kind *)
Theorem prep_shape_encoder : forall mdf nz l lead t,
  supported mdf l lead t ->
  exists t', prep_leaf_r true mdf nz l t = Some t' /\ shp t' = prod lead :: encoder_input_shape l.
Proof. exact prep_shape_r_lemma. Qed.
Print Assumptions prep_shape_encoder.

Theorem prep_rowwise_encoder : forall mdf nz l lead t,
  supported mdf l lead t ->
  exists t', prep_leaf_r true mdf nz l t = Some t' /\
    Forall2 (fun row r_in => prep_leaf_r true mdf nz l (T (space_shape l) r_in) = Some (T (1 :: encoder_input_shape l) row))
            (rows t') (chunks (prod (space_shape l)) (prod lead) (dat t)).
Proof. exact prep_rowwise_r_lemma. Qed.
Print Assumptions prep_rowwise_encoder.

(* single-agent get_action with a row-wise network: every supported batch is accepted by the network (no shape error)
   and the reports are f of the prepared rows, one per observation *)
Theorem get_action_accepts : forall (O : Type) mdf nz l lead t (f : list Q -> O),
  supported mdf l lead t ->
  exists t', prep_leaf_r true mdf nz l t = Some t' /\
             get_action_model true mdf nz l f t = Some (map f (rows t')).
Proof. exact @get_action_accepts_lemma. Qed.
Print Assumptions get_action_accepts.

(* the prepared tensor is well formed: as many data as batch * encoder input size *)
Theorem prep_wf : forall mdf nz l lead t,
  supported mdf l lead t ->
  exists t', prep_leaf_r true mdf nz l t = Some t' /\ shp t' = prod lead :: encoder_input_shape l /\ wf t'.
Proof. exact prep_wf_lemma. Qed.
Print Assumptions prep_wf.

(* the final clause of the property, end to end in the model (preparation + shape check of the network + row-wise network):
   the report for every observation of a batch is the report for that observation handed in alone — whatever the batch
   size, the (step, env) layout and the other observations sharing the call *)
Theorem get_action_batch_independent : forall (O : Type) mdf nz l lead t (f : list Q -> O),
  supported mdf l lead t ->
  exists outs, get_action_model true mdf nz l f t = Some outs /\
    Forall2 (fun out r_in => get_action_model true mdf nz l f (T (space_shape l) r_in) = Some [out])
            outs (chunks (prod (space_shape l)) (prod lead) (dat t)).
Proof. exact @get_action_batch_independent_lemma. Qed.
Print Assumptions get_action_batch_independent.

(* before the rank-0 repair: a batch of scalar Box observations is rejected by the one-feature encoder although each
   observation alone is served; with the repair the batch is served row by row *)
Theorem rank0_batch_pinned_refuted :
  exists b lo hi t, supported true (Box [] b lo hi) [3] t /\
    get_action_model false true true (Box [] b lo hi) (fun r => r) t = None /\
    Forall (fun x => get_action_model false true true (Box [] b lo hi) (fun r => r) (T [] [x]) = Some [[x]]) (dat t) /\
    get_action_model true true true (Box [] b lo hi) (fun r => r) t = Some (map (fun x => [x]) (dat t)).
Proof. exact rank0_batch_pinned_refuted_lemma. Qed.
Print Assumptions rank0_batch_pinned_refuted.

(* MultiBinary with several dimensions (shape = dims) is batched as a rank-1 space: an unbatched observation gets NO batch
   dimension, a batch is an error — the property fails for this space kind (known finding) *)
Theorem prep_mb_nd_refuted : forall dims t,
  length dims = 2 ->
  (shp t = dims -> prep_mb_nd dims t = Some t) /\
  (forall b, shp t = b :: dims -> prep_mb_nd dims t = None) /\
  (forall d, shp t = [d] -> prep_mb_nd dims t = Some (unsqueeze0 t)).
Proof. exact prep_mb_nd_refuted_lemma. Qed.
Print Assumptions prep_mb_nd_refuted.

(* ---- non-vacuity: concrete inputs satisfy the hypotheses and exercise the interesting branches ---- *)
Example supported_discrete_batch_of_one : supported false (Discrete 3) [1; 1] (T [1; 1] [2%Q]).
Proof. repeat split; cbn; auto; repeat constructor. Qed.
Example supported_image : supported false (Box [1; 2; 2] true [0;0;0;0]%Q [255#1;255#1;255#1;255#1]%Q) [2; 1]
                                    (T [2; 1; 1; 2; 2] [0; 51#1; 102#1; 255#1; 255#1; 0; 0; 0]%Q).
Proof. repeat split; cbn; auto; lia. Qed.
Example supported_md : supported false (MultiDiscrete [2; 3]) [2] (T [2; 2] [1; 2#1; 0; 1]%Q).
Proof. repeat split; cbn; auto; try lia; repeat constructor. Qed.
Example prep_image_value :
  prep_leaf false true (Box [1; 1; 2] true [0;0]%Q [255#1;255#1]%Q) (T [2; 1; 1; 2] [0; 51#1; 102#1; 255#1]%Q)
  = Some (T [2; 1; 1; 2] [0; 1#5; 2#5; 1]%Q).
Proof. reflexivity. Qed.
Example prep_discrete_T1 : prep_discrete 3 (T [2; 1] [2#1; 0]%Q) = Some (T [2; 3] [0;0;1; 1;0;0]%Q).
Proof. reflexivity. Qed.
Example prep_discrete_n1_batch : prep_discrete 1 (T [2; 3] [0;0;0;0;0;0]%Q) = Some (T [6; 1] [1;1;1;1;1;1]%Q).
Proof. reflexivity. Qed.
