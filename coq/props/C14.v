(* C14 — every selected action is a legal member of the action space.
   Property theorems only; each is closed by [exact] of a lemma proved in C14/Proofs*.v.
   Rows are lists of rationals of ANY length, masks are ANY boolean lists with >= 1 legal entry,
   draws are ANY rationals in the range the generator guarantees ([0,1) for uniforms). *)
From Coq Require Import List Bool Arith QArith.
Import ListNotations.
From AgileV Require Import C14.Model C14.Proofs C14.ProofsBox C14.ProofsSupport C14.ProofsMulti.
Local Open Scope Q_scope.

(* torch.argmax / np.argmax as modelled: an index of the list, maximal, and the first such *)
Theorem argmax_is_first_max : forall l : list ext, l <> [] -> is_first_max l (argmax_first l).
Proof. exact argmax_first_spec. Qed.
Print Assumptions argmax_is_first_max.

(* Greedy branch with a mask (DQN policy branch, NumPy masked argmax of Rainbow / CQN / bandits / MADDPG):
   the action is legal, its value is >= every legal value, every earlier legal action is strictly worse *)
Theorem greedy_legal_and_best : forall (q : list Q) (legal : list bool) (k : nat),
  length q = length legal -> nth_error legal k = Some true ->
  legal_best_first q legal (dqn_policy q legal) /\ legal_best_first q legal (ma_argmax q legal).
Proof. exact greedy_legal_and_best_lemma. Qed.
Print Assumptions greedy_legal_and_best.

(* Greedy choice with an optional mask (None = all actions allowed) *)
Theorem greedy_row_best : forall (v : list Q) (mask : option (list bool)),
  v <> [] -> mask_ok (length v) mask -> greedy_best v mask (greedy_row v mask).
Proof. exact greedy_row_best_lemma. Qed.
Print Assumptions greedy_row_best.

(* DQN exploration branch (as repaired: masked entries hold -1): legal for every draw in [0, inf) *)
Theorem random_legal : forall (u : list Q) (legal : list bool) (k : nat),
  length u = length legal -> nth_error legal k = Some true ->
  (forall j x, nth_error u j = Some x -> 0 <= x) ->
  nth_error legal (dqn_random u legal) = Some true.
Proof. exact dqn_random_legal_lemma. Qed.
Print Assumptions random_legal.

(* the pinned form argmax(rand * mask) picks a masked action when the legal draws are exactly 0 *)
Theorem dqn_random_zero_draw_refuted :
  exists u legal, In true legal /\ (forall x, In x u -> 0 <= x < 1) /\
                  nth_error legal (dqn_random_pinned u legal) = Some false.
Proof. exact dqn_random_pinned_refuted_lemma. Qed.
Print Assumptions dqn_random_zero_draw_refuted.

(* ... and is legal exactly under the hypothesis the zero draw breaks: some legal entry draws a positive number *)
Theorem random_pinned_legal_if_positive_draw : forall u legal k uk,
  length u = length legal -> nth_error legal k = Some true -> nth_error u k = Some uk -> 0 < uk ->
  nth_error legal (dqn_random_pinned u legal) = Some true.
Proof. exact dqn_random_pinned_legal_if_positive. Qed.
Print Assumptions random_pinned_legal_if_positive_draw.

(* DQN, whole batch, any epsilon and any coins: one action per row and every action legal *)
Theorem dqn_batch_shape : forall eps rows, length (dqn_get_action eps rows) = length rows.
Proof. exact dqn_batch_shape_lemma. Qed.
Print Assumptions dqn_batch_shape.

Theorem dqn_batch_legal : forall eps rows,
  Forall dqn_row_ok rows ->
  Forall2 (fun r a => nth_error (dq_legal r) a = Some true) rows (dqn_get_action eps rows).
Proof. exact dqn_batch_legal_lemma. Qed.
Print Assumptions dqn_batch_legal.

(* exploration switched off: every coin in [0,1) yields the best legal action *)
Theorem dqn_greedy_when_eps0 : forall q u coin eps legal k,
  eps <= 0 -> 0 <= coin -> length q = length legal -> nth_error legal k = Some true ->
  legal_best_first q legal (dqn_row q u coin eps legal).
Proof. exact dqn_greedy_when_eps0_lemma. Qed.
Print Assumptions dqn_greedy_when_eps0.

Theorem dqn_random_when_eps1 : forall q u coin eps legal,
  1 <= eps -> coin < 1 -> dqn_row q u coin eps legal = dqn_random u legal.
Proof. exact dqn_random_when_eps1_lemma. Qed.
Print Assumptions dqn_random_when_eps1.

(* the guard uniform_().gt(epsilon): epsilon = 0 and a coin of exactly 0 explores (legal, but not the best) *)
Theorem dqn_eps0_zero_coin_refuted :
  exists q u legal, let a := dqn_row_pinned q u 0 0 legal in
    nth_error legal a = Some true /\ exists j, nth_error legal j = Some true /\
    exists va vj, nth_error q a = Some va /\ nth_error q j = Some vj /\ va < vj.
Proof. exact dqn_eps0_pinned_refuted_lemma. Qed.
Print Assumptions dqn_eps0_zero_coin_refuted.

(* CQN: legal whatever the branch; greedy when epsilon = 0; one action per row *)
Theorem cqn_row_legal : forall explore q u r mask,
  q <> [] -> length u = length q -> mask_ok (length q) mask -> (r < length q)%nat ->
  (forall x, In x u -> 0 <= x) ->
  is_legal mask (length q) (cqn_row explore q u r mask).
Proof. exact cqn_row_legal_lemma. Qed.
Print Assumptions cqn_row_legal.

Theorem cqn_greedy_when_eps0 : forall coin eps rows,
  eps <= 0 -> 0 <= coin ->
  cqn_get_action coin eps rows = map (fun x => greedy_row (cq_q x) (cq_mask x)) rows.
Proof. exact cqn_greedy_when_eps0_lemma. Qed.
Print Assumptions cqn_greedy_when_eps0.

Theorem batch_shape : forall coin eps crow grows,
  length (cqn_get_action coin eps crow) = length crow /\ length (greedy_rows grows) = length grows.
Proof. exact batch_shape_lemma. Qed.
Print Assumptions batch_shape.

(* ---------------------------------------------------------------- continuous control *)
(* np.clip / torch.clamp with per-dimension bounds lo <= hi (either may be infinite) *)
Theorem clip_in_box : forall box xs,
  Forall wf_bounds box -> length xs = length box -> in_box box (clip_vec box xs).
Proof. exact clip_vec_in_box. Qed.
Print Assumptions clip_in_box.

Theorem clip_identity_inside : forall box xs, in_box box xs -> Forall2 Qeq (clip_vec box xs) xs.
Proof. exact clip_vec_id. Qed.
Print Assumptions clip_identity_inside.

(* DeterministicActor.rescale_action: squashed output in the activation's range, finite asymmetric
   per-dimension bounds => inside the box; guards as coded => identity *)
Theorem rescale_in_box : forall a box xs,
  squashing a = true -> finite_box box = true -> Forall wf_bounds box -> length xs = length box ->
  (forall x, In x xs -> in_act_range a x) -> in_box box (rescale_vec a box xs).
Proof. exact rescale_vec_in_box. Qed.
Print Assumptions rescale_in_box.

Theorem rescale_identity_guards : forall a box xs,
  rescale_vec ActOther box xs = xs /\ (finite_box box = false -> rescale_vec a box xs = xs).
Proof. exact rescale_identity_guards_lemma. Qed.
Print Assumptions rescale_identity_guards.

(* StochasticActor.scale_action *)
Theorem scale_action_in_box : forall box ts,
  finite_box box = true -> Forall wf_bounds box -> length ts = length box ->
  (forall t, In t ts -> -1 <= t <= 1) -> in_box box (scale_vec box ts).
Proof. exact scale_vec_in_box. Qed.
Print Assumptions scale_action_in_box.

(* DDPG / TD3 get_action: in the box for every network output, every noise, training or not *)
Theorem ddpg_action_in_box : forall training a box y noise,
  Forall wf_bounds box -> length y = length box -> length noise = length box ->
  in_box box (ddpg_row training a box y noise).
Proof. exact ddpg_row_in_box. Qed.
Print Assumptions ddpg_action_in_box.

(* ... and without noise the final clip leaves the policy's action untouched *)
Theorem ddpg_eval_is_policy_action : forall a box y noise,
  squashing a = true -> finite_box box = true -> Forall wf_bounds box -> length y = length box ->
  (forall x, In x y -> in_act_range a x) ->
  Forall2 Qeq (ddpg_row false a box y noise) (rescale_vec a box y).
Proof. exact ddpg_eval_is_policy. Qed.
Print Assumptions ddpg_eval_is_policy_action.

(* MADDPG / MATD3, continuous: per-dimension clamp when training; rescaled policy output otherwise *)
Theorem maddpg_clamp_per_dim : forall a box y noise,
  Forall wf_bounds box -> length y = length box -> length noise = length box ->
  in_box box (maddpg_cont_row true a box y noise).
Proof. exact maddpg_cont_train_in_box. Qed.
Print Assumptions maddpg_clamp_per_dim.

Theorem maddpg_eval_in_box : forall a box y noise,
  squashing a = true -> finite_box box = true -> Forall wf_bounds box -> length y = length box ->
  (forall x, In x y -> in_act_range a x) -> in_box box (maddpg_cont_row false a box y noise).
Proof. exact maddpg_cont_eval_in_box. Qed.
Print Assumptions maddpg_eval_in_box.

(* the evaluation-mode clamp of the repaired MADDPG/MATD3 guards against float rounding only: over the rationals it is the identity *)
Theorem maddpg_eval_clamp_is_identity : forall a box y noise,
  squashing a = true -> finite_box box = true -> Forall wf_bounds box -> length y = length box ->
  (forall x, In x y -> in_act_range a x) ->
  Forall2 Qeq (clip_vec box (maddpg_cont_row false a box y noise)) (maddpg_cont_row false a box y noise).
Proof. exact maddpg_eval_clamp_identity. Qed.
Print Assumptions maddpg_eval_clamp_is_identity.

(* greedy branch: filling masked entries with ANY finite constant (e.g. -1.0) lets a masked action win as soon as every
   allowed value lies below it; only -infinity (greedy_legal_and_best) is safe *)
Theorem finite_mask_fill_refuted : forall c : Q,
  exists v legal, In true legal /\ nth_error legal (argmax_first (fill_const c v legal)) = Some false.
Proof. exact finite_fill_refuted. Qed.
Print Assumptions finite_mask_fill_refuted.

(* the pinned scalar clamp (bounds of dimension 0 for every dimension) leaves the box *)
Theorem maddpg_clamp_refuted :
  exists box y noise, Forall wf_bounds box /\ length y = length box /\ length noise = length box /\
    ~ in_box box (maddpg_cont_row_pinned ActOther box y noise).
Proof. exact maddpg_clamp_pinned_refuted. Qed.
Print Assumptions maddpg_clamp_refuted.

(* MADDPG / MATD3, discrete: legal w.r.t. the agent's own mask whatever the noise; best legal in evaluation *)
Theorem maddpg_discrete_legal : forall training p noise mask,
  p <> [] -> length noise = length p -> mask_ok (length p) mask ->
  is_legal mask (length p) (maddpg_disc_row training p noise mask None).
Proof. exact maddpg_disc_legal. Qed.
Print Assumptions maddpg_discrete_legal.

Theorem maddpg_discrete_eval_best : forall p noise mask,
  p <> [] -> mask_ok (length p) mask -> greedy_best p mask (maddpg_disc_row false p noise mask None).
Proof. exact maddpg_disc_eval_best. Qed.
Print Assumptions maddpg_discrete_eval_best.

(* whole batches: every row of a DDPG/TD3 batch is in the box; every row of a Rainbow / bandit / CQN-greedy batch is the best legal action *)
Theorem ddpg_batch_in_box_thm : forall training a box rows,
  Forall wf_bounds box ->
  Forall (fun '(y, n) => length y = length box /\ length n = length box) rows ->
  Forall (in_box box) (ddpg_get_action training a box rows).
Proof. exact ddpg_batch_in_box. Qed.
Print Assumptions ddpg_batch_in_box_thm.

Theorem greedy_batch_legal : forall rows,
  Forall (fun '(v, m) => v <> [] /\ mask_ok (length v) m) rows ->
  Forall2 (fun '(v, m) a => greedy_best v m a) rows (greedy_rows rows).
Proof. exact greedy_batch_legal_lemma. Qed.
Print Assumptions greedy_batch_legal.

(* environment-defined actions replace exactly the entries they define *)
Theorem env_defined_overwrite : forall xs es i x e,
  nth_error xs i = Some x -> nth_error es i = Some e ->
  nth_error (overwrite xs es) i = Some (match e with Some v => v | None => x end).
Proof. exact overwrite_spec. Qed.
Print Assumptions env_defined_overwrite.

(* PPO / IPPO inference mode on Box spaces *)
Theorem ppo_eval_action_in_box : forall squash box s,
  Forall wf_bounds box -> length s = length box ->
  (squash = true -> finite_box box = true /\ forall t, In t s -> -1 <= t <= 1) ->
  in_box box (ppo_eval_row squash box s).
Proof. exact ppo_eval_in_box. Qed.
Print Assumptions ppo_eval_action_in_box.

(* ---------------------------------------------------------------- masked stochastic heads *)
(* Discrete: every index that can keep non-zero probability after -1e8 masking is legal *)
Theorem sample_in_support : forall l legal k xk,
  nth_error legal k = Some true -> nth_error l k = Some xk -> NEG + UNDERFLOW <= xk ->
  forall i, In i (masked_support l legal) -> nth_error legal i = Some true.
Proof. exact masked_support_legal_lemma. Qed.
Print Assumptions sample_in_support.

Theorem support_nonempty : forall l legal,
  l <> [] -> length l = length legal -> masked_support l legal <> [].
Proof. exact masked_support_nonempty_lemma. Qed.
Print Assumptions support_nonempty.

(* The sampler itself (torch.multinomial for one draw = exponential race argmax_i p_i / q_i, q_i > 0): for ALL positive
   draws the sampled index has positive probability ... *)
Theorem multinomial_sample_positive : forall p q k pk,
  length p = length q -> (forall x, In x q -> 0 < x) ->
  nth_error p k = Some pk -> 0 < pk ->
  exists pr, nth_error p (multinomial_exp p q) = Some pr /\ 0 < pr.
Proof. exact multinomial_positive_lemma. Qed.
Print Assumptions multinomial_sample_positive.

(* ... hence a masked head (weights zero outside the support of the masked logits) samples a LEGAL action for all draws *)
Theorem sampled_action_legal : forall l legal weights q k xk wk,
  length weights = length q -> (forall x, In x q -> 0 < x) ->
  nth_error legal k = Some true -> nth_error l k = Some xk -> NEG + UNDERFLOW <= xk ->
  In k (masked_support l legal) -> nth_error weights k = Some wk -> 0 < wk ->
  nth_error legal (sample_masked l legal weights q) = Some true.
Proof. exact sample_masked_legal_lemma. Qed.
Print Assumptions sampled_action_legal.

(* MultiDiscrete component-wise, MultiBinary bit-wise *)
Theorem multidiscrete_support_legal : forall nvec l legal,
  Forall (fun '(lc, mc) => comp_ok lc mc) (combine (split_by nvec l) (split_by nvec legal)) ->
  Forall2 (fun '(lc, mc) S => forall i, In i S -> nth_error mc i = Some true)
          (combine (split_by nvec l) (split_by nvec legal)) (multi_support nvec l legal).
Proof. exact multi_support_legal_lemma. Qed.
Print Assumptions multidiscrete_support_legal.

Theorem multibinary_masked_bit_zero : forall l legal i b,
  nth_error legal i = Some false -> nth_error (binary_support l legal) i = Some b -> b = false.
Proof. exact binary_masked_zero_lemma. Qed.
Print Assumptions multibinary_masked_bit_zero.

(* IPPO: masks of homogeneous agents are stacked agent-major; row i*B + r of the shared actor's batch is
   governed by the mask of agent i in environment r, and every action it can sample there is legal for it *)
Theorem ippo_stack_alignment : forall (A : Type) (per_agent : list (list A)) (B i r : nat),
  Forall (fun m => length m = B) per_agent -> (r < B)%nat ->
  nth_error (ippo_stack per_agent) (i * B + r) =
  match nth_error per_agent i with Some m => nth_error m r | None => None end.
Proof. exact @ippo_stack_row. Qed.
Print Assumptions ippo_stack_alignment.

Theorem ippo_rows_legal : forall l (masks : list (list (list bool))) B i r m S k xk,
  Forall (fun ms => length ms = B) masks -> (r < B)%nat ->
  nth_error masks i = Some m ->
  nth_error (ippo_supports l masks) (i * B + r) = Some S ->
  forall legal, nth_error m r = Some legal ->
  nth_error legal k = Some true -> nth_error l k = Some xk -> NEG + UNDERFLOW <= xk ->
  forall a, In a S -> nth_error legal a = Some true.
Proof. exact ippo_rows_legal_lemma. Qed.
Print Assumptions ippo_rows_legal.

(* a DQN call without a mask is the plain first-maximum argmax *)
Theorem dqn_policy_no_mask : forall q, dqn_policy q (repeat true (length q)) = argmax_first (map Some q).
Proof. exact dqn_policy_no_mask_lemma. Qed.
Print Assumptions dqn_policy_no_mask.

(* ---------------------------------------------------------------- numeric masks, batches, all agents *)
(* the learners invert a numeric mask as 1 - m: an entry counts as legal iff m == 1; on 0/1 masks of any numeric type this is
   exactly "m is non-zero", while a truthy entry other than 1 is treated as illegal *)
Theorem numeric_mask_inversion : forall m, legal_of_num m = true <-> m == 1.
Proof. exact legal_of_num_spec. Qed.
Print Assumptions numeric_mask_inversion.

Theorem numeric_mask_01 : forall ms,
  Forall (fun m => m == 0 \/ m == 1) ms -> legal_of_nums ms = map (fun m => negb (Qeq_bool m 0)) ms.
Proof. exact legal_of_nums_01. Qed.
Print Assumptions numeric_mask_01.

Theorem numeric_mask_truthy_refuted : exists m, ~ m == 0 /\ legal_of_num m = false.
Proof. exact legal_of_num_truthy_refuted. Qed.
Print Assumptions numeric_mask_truthy_refuted.

(* the action of one observation does not depend on the rest of the batch (DQN; Rainbow/bandits/CQN-greedy; DDPG/TD3) *)
Theorem batch_is_rowwise : forall eps rows1 rows2,
  dqn_get_action eps (rows1 ++ rows2) = dqn_get_action eps rows1 ++ dqn_get_action eps rows2.
Proof. exact dqn_batch_rowwise. Qed.
Print Assumptions batch_is_rowwise.

Theorem batch_row_is_single_call : forall eps rows i r grows v m training a box crows y n,
  (nth_error rows i = Some r ->
   nth_error (dqn_get_action eps rows) i = Some (dqn_row (dq_q r) (dq_u r) (dq_coin r) eps (dq_legal r))) /\
  (nth_error grows i = Some (v, m) -> nth_error (greedy_rows grows) i = Some (greedy_row v m)) /\
  (nth_error crows i = Some (y, n) ->
   nth_error (ddpg_get_action training a box crows) i = Some (ddpg_row training a box y n)).
Proof. intros. split; [apply dqn_batch_nth|split; [apply greedy_batch_nth|apply ddpg_batch_nth]]. Qed.
Print Assumptions batch_row_is_single_call.

(* every agent of MADDPG/MATD3 stays inside its OWN box *)
Theorem maddpg_every_agent_in_own_box : forall training a agents,
  Forall (fun '(box, y, n) => Forall wf_bounds box /\ length y = length box /\ length n = length box /\
            (training = false -> squashing a = true /\ finite_box box = true /\ forall x, In x y -> in_act_range a x)) agents ->
  Forall2 (fun '(box, _, _) out => in_box box out) agents (maddpg_cont_all training a agents).
Proof. exact maddpg_all_agents_in_box. Qed.
Print Assumptions maddpg_every_agent_in_own_box.

(* ---------------------------------------------------------------- non-vacuity *)
(* a tie between two legal maxima behind a masked larger value: first legal maximum wins *)
Example greedy_nonvacuous :
  dqn_policy [3; 9; 7; 7] [true; false; true; true] = 2%nat /\
  legal_best_first [3; 9; 7; 7] [true; false; true; true] 2.
Proof.
  split; [reflexivity|].
  exact (proj1 (greedy_legal_and_best [3; 9; 7; 7] [true; false; true; true] 0 eq_refl eq_refl)).
Qed.
(* the zero draw that defeated the pinned code is handled by the repaired branch *)
Example random_nonvacuous :
  dqn_random [1#2; 0] [false; true] = 1%nat /\ dqn_random_pinned [1#2; 0] [false; true] = 0%nat.
Proof. split; reflexivity. Qed.
(* per-dimension asymmetric bounds, noise pushing out on both sides *)
Example ddpg_nonvacuous :
  ddpg_row true ActPM1 [(Some 0, Some 2); (Some (-2), Some 5)] [1; -1] [3; -1] = [2; -2] /\
  in_box [(Some 0, Some 2); (Some (-2), Some 5)] (ddpg_row true ActPM1 [(Some 0, Some 2); (Some (-2), Some 5)] [1; -1] [3; -1]).
Proof.
  split; [reflexivity|]. apply ddpg_action_in_box; auto. repeat constructor; cbn; discriminate.
Qed.
(* bool / int8 / float masks all arrive as 0/1 numbers: [0;1;1] means "first action illegal"; 2 would be illegal too *)
Example numeric_mask_nonvacuous :
  legal_of_nums [0; 1; 1] = [false; true; true] /\ legal_of_nums [2; 1] = [false; true].
Proof. split; reflexivity. Qed.
Example support_nonvacuous :
  masked_support [50; -50; 0] [false; true; true] = [1%nat; 2%nat].
Proof. reflexivity. Qed.
(* the masked action has by far the largest logit and the smallest draw: it is still never sampled *)
Example sample_nonvacuous :
  sample_masked [50; -50; 0] [false; true; true] [9#10; 1#100; 9#100] [1#1000; 5; 3] = 2%nat.
Proof. reflexivity. Qed.
