(* C07 — a saved checkpoint restores an equivalent agent.
   Property theorems only; each is closed by [exact] of a lemma proved in C07/Proofs.v or C07/ProofsAbs.v.
   The model (Evo/Evo.v + C07/Model.v) is tied to /repo by the correspondence check of harness/c07.py. *)
From Coq Require Import List NArith QArith Bool Ascii Lia.
Import ListNotations.
From AgileV Require Import Evo.Heap Evo.Evo Evo.EvoProofs C07.Model C07.Proofs C07.ProofsAbs C07.ProofsInv C07.ProofsShare C07.ProofsHist C07.ProofsPrefix C07.ProofsHidden C07.ProofsIdem.
Open Scope N_scope.

(* LOAD_SAVE_ABS — for every agent a (ANY architecture descriptors, block sizes, contents, optimizers, hyper-parameters,
   bookkeeping: the state after any history) whose blocks have distinct keys of the known classes and distinct cells
   ([savable], computed by K on every agent that is saved), that holds no tensors outside state_dict ([no_hidden]) and whose
   registry has no encoder-sharing hook ([no_share]: every algorithm with un-shared encoders, DQN's target hook and the
   bandit hook included): the agent returned by Algo.load on the file written by save_checkpoint has the same view —
   index, label, architecture descriptors, optimizer names and learning rates, hyper-parameters, registry and the
   content of EVERY cell of every block: weights and buffers of every network incl. targets, size lists, optimizer
   moments and step counters, RL-param objects, scores / fitness / steps, other tensors. *)
Theorem load_save_abs : forall (s : store) (a : agent),
  savable a = true -> no_hidden a = true -> no_share (a_reg a) = true ->
  Forall (fun l => l < s_next s) (agent_locs a) ->
  abs (fst (roundtrip s a)) (snd (roundtrip s a)) = abs s a.
Proof. exact load_save_abs_lemma. Qed.
Print Assumptions load_save_abs.

(* AFTER ANY HISTORY — the side conditions of load_save_abs that do not depend on the algorithm hold for every member of
   every population reachable from a separated initial population whose members (and files) have one key list of
   distinct keys of the known classes, by ANY sequence of learn / score / act / clone / the five mutation kinds / selection /
   discard / save_checkpoint / Algo.load / load_checkpoint with any arguments (induction over the operation list): no
   operation changes the key list of an agent's blocks, and separation is an invariant. *)
Theorem reachable_savable : forall (KS : list key) (c : cworld) (ops : list cop) (a : agent),
  WF (cw c) -> all_keys KS c -> keys_good KS = true -> In a (w_pop (cw (crun c ops))) ->
  savable a = true /\ Forall (fun l => l < s_next (w_store (cw (crun c ops)))) (agent_locs a).
Proof. exact reachable_savable_lemma. Qed.
Print Assumptions reachable_savable.

(* FILES ARE IMMUTABLE — in a separated population whose files' cells are owned by nobody ([files_free]; true initially
   when there are no files), every history keeps that invariant, never writes a cell of a file that exists, and only
   appends to the list of files. *)
Theorem files_intact : forall (ops : list cop) (c : cworld),
  WF (cw c) -> files_free c ->
  files_free (crun c ops) /\
  (forall b l, In b (cw_files c) -> In l (locs_of (bl_blocks b)) ->
     rd (w_store (cw (crun c ops))) l = rd (w_store (cw c)) l) /\
  (exists extra, cw_files (crun c ops) = cw_files c ++ extra).
Proof. exact crun_files_intact_lemma. Qed.
Print Assumptions files_intact.

(* THE PROPERTY OVER WHOLE HISTORIES (histories x crash points) — from any separated initial population with one good key
   list: run ANY history ops1; save member i (any member whose registry has no encoder sharing and that holds no hidden
   tensors); run ANY further history ops2 (the saved agent may train on, be mutated, cloned, overwritten by another
   checkpoint, discarded; other files may be written and loaded); then Algo.load that file: the member that is appended
   has exactly the view member i had at the moment it was saved. *)
Theorem checkpoint_in_history : forall (KS : list key) (c0 : cworld) (ops1 ops2 : list cop) (i : nat) (a : agent),
  WF (cw c0) -> all_keys KS c0 -> keys_good KS = true -> files_free c0 ->
  let c1 := crun c0 ops1 in
  nth_error (w_pop (cw c1)) i = Some a -> no_hidden a = true -> no_share (a_reg a) = true ->
  let c2 := crun (cstep c1 (CSave i)) ops2 in
  let c3 := cstep c2 (CLoad (length (cw_files c1))) in
  exists r, w_pop (cw c3) = w_pop (cw c2) ++ [r] /\ abs (w_store (cw c3)) r = abs (w_store (cw c1)) a.
Proof. exact checkpoint_in_history_lemma. Qed.
Print Assumptions checkpoint_in_history.

(* ... and the load_checkpoint path: after ANY history save member i, continue with ANY history, then ANY member j of the
   population at that time (other architecture / weights / optimizer state / hyper-parameters, or the saved member itself,
   rolled back) loads the file: member j has exactly the view member i had when it was saved; all other members are the
   same records as before. *)
Theorem checkpoint_into_history : forall (KS : list key) (c0 : cworld) (ops1 ops2 : list cop) (i : nat) (a : agent) (j : nat) (t : agent),
  WF (cw c0) -> all_keys KS c0 -> keys_good KS = true -> files_free c0 ->
  let c1 := crun c0 ops1 in
  nth_error (w_pop (cw c1)) i = Some a -> no_hidden a = true -> no_share (a_reg a) = true ->
  let c2 := crun (cstep c1 (CSave i)) ops2 in
  nth_error (w_pop (cw c2)) j = Some t -> no_share (a_reg t) = true ->
  snd (load_checkpoint (snd (save (w_store (cw c1)) a)) (w_store (cw c2), t)) = true ->
  let c3 := cstep c2 (CLoadInto (length (cw_files c1)) j) in
  exists r, nth_error (w_pop (cw c3)) j = Some r /\ abs (w_store (cw c3)) r = abs (w_store (cw c1)) a /\
            (forall k, k <> j -> nth_error (w_pop (cw c3)) k = nth_error (w_pop (cw c2)) k).
Proof. exact checkpoint_into_history_lemma. Qed.
Print Assumptions checkpoint_into_history.

(* non-vacuity: a DQN-like member is trained and architecture-mutated, saved, trained on / scored / saved again, and
   the first file is then loaded: all hypotheses hold (computed) and the theorem yields the restored member *)
Example checkpoint_in_history_example :
  let c0 := mkCW (mkWorld store_dqn [agent_dqn]) [] in
  let ops1 := [CEvo (Learn 0 [(3, 2%nat)]); CEvo (Mutate 0 MArch [mkShape 1 9 2 1 0 0 1 0] 6)] in
  let ops2 := [CEvo (Learn 0 [(3, 2%nat)]); CEvo (Score 0); CSave 0; CEvo (Mutate 0 MParam [] 7)] in
  exists a r, nth_error (w_pop (cw (crun c0 ops1))) 0 = Some a /\
    w_pop (cw (cstep (crun (cstep (crun c0 ops1) (CSave 0)) ops2) (CLoad 0))) =
      w_pop (cw (crun (cstep (crun c0 ops1) (CSave 0)) ops2)) ++ [r] /\
    abs (w_store (cw (cstep (crun (cstep (crun c0 ops1) (CSave 0)) ops2) (CLoad 0)))) r =
      abs (w_store (cw (crun c0 ops1))) a.
Proof.
  intros c0 ops1 ops2.
  destruct (nth_error (w_pop (cw (crun c0 ops1))) 0) as [a|] eqn:E; [|vm_compute in E; discriminate].
  destruct (checkpoint_in_history (map fst (a_blocks agent_dqn)) c0 ops1 ops2 0 a) as (r & H1 & H2).
  - apply sep_b_WF. vm_compute. reflexivity.
  - split; [repeat constructor|constructor].
  - vm_compute. reflexivity.
  - constructor.
  - exact E.
  - vm_compute in E. injection E as <-. vm_compute. reflexivity.
  - vm_compute in E. injection E as <-. vm_compute. reflexivity.
  - exists a, r. split; [reflexivity|]. split; [exact H1|exact H2].
Qed.

(* ... crash-point form: the file may be loaded in any later store s' (the saved agent may have trained on, been mutated or
   discarded, other agents may have come and gone) as long as the file's own cells still hold what was written
   (see file_cell_intact): the restored agent has the view a had WHEN IT WAS SAVED. *)
Theorem load_later : forall (s : store) (a : agent) (s' : store),
  savable a = true -> no_hidden a = true -> no_share (a_reg a) = true ->
  Forall (fun l => l < s_next s) (agent_locs a) ->
  s_next (fst (save s a)) <= s_next s' ->
  (forall l, In l (locs_of (bl_blocks (snd (save s a)))) -> rd s' l = rd (fst (save s a)) l) ->
  abs (fst (load s' (snd (save s a)))) (snd (load s' (snd (save s a)))) = abs s a.
Proof. exact load_later_lemma. Qed.
Print Assumptions load_later.

(* ... and the same for load_checkpoint into ANY existing agent t of the same algorithm (same block keys; whatever its
   architectures, weights, optimizer state, hyper-parameters, bookkeeping were), when the registry comparison passes. *)
Theorem load_checkpoint_save_abs : forall (s : store) (a : agent) (s' : store) (t : agent),
  savable a = true -> no_hidden a = true -> no_share (a_reg a) = true ->
  Forall (fun l => l < s_next s) (agent_locs a) ->
  NoDup (agent_locs t) -> Forall (fun l => l < s_next s') (agent_locs t) ->
  map fst (a_blocks t) = map fst (a_blocks a) -> no_share (a_reg t) = true ->
  s_next (fst (save s a)) <= s_next s' ->
  (forall l, In l (locs_of (bl_blocks (snd (save s a)))) -> rd s' l = rd (fst (save s a)) l /\ ~ In l (agent_locs t)) ->
  snd (load_checkpoint (snd (save s a)) (s', t)) = true ->
  let r := fst (load_checkpoint (snd (save s a)) (s', t)) in
  abs (fst r) (snd r) = abs s a.
Proof. exact load_checkpoint_save_abs_lemma. Qed.
Print Assumptions load_checkpoint_save_abs.

(* the general statement behind the three: restoring any well-formed file b into any agent x0 with b's block keys gives
   exactly the view stored in the file *)
Theorem restore_abs : forall (b : blob) (x0 : lstate),
  okst x0 -> bfree (bl_blocks b) x0 -> map fst (a_blocks (snd x0)) = map fst (bl_blocks b) ->
  blob_ok b -> no_share (a_reg (snd x0)) = true ->
  abs (fst (restore b x0)) (snd (restore b x0)) = blob_view (fst x0) b.
Proof. exact restore_abs_lemma. Qed.
Print Assumptions restore_abs.

(* RESUME_SAME — hence any behaviour that is a function of the view (greedy action on an observation, the weights after
   any sequence of updates from given batches) is the same for the saved and the restored agent (determinism of torch
   given equal values is the trusted step; K checks it numerically) *)
Theorem resume_same : forall (Beh : Type) (behaviour : view -> Beh) (s : store) (a : agent),
  savable a = true -> no_hidden a = true -> no_share (a_reg a) = true ->
  Forall (fun l => l < s_next s) (agent_locs a) ->
  behaviour (abs (fst (roundtrip s a)) (snd (roundtrip s a))) = behaviour (abs s a).
Proof. exact resume_same_lemma. Qed.
Print Assumptions resume_same.

(* non-vacuity: a DQN-like agent with mutated architecture ids, a lagging target with its own (exposed) cells, optimizer
   state and score lists satisfies every hypothesis, and its restored view is computed to be equal as well *)
Example load_save_abs_hyps :
  savable agent_dqn = true /\ no_hidden agent_dqn = true /\ no_share (a_reg agent_dqn) = true /\
  Forall (fun l => l < s_next store_dqn) (agent_locs agent_dqn).
Proof. exact agent_dqn_hyps. Qed.
Example load_save_abs_computed :
  abs (fst (roundtrip store_dqn agent_dqn)) (snd (roundtrip store_dqn agent_dqn)) = abs store_dqn agent_dqn.
Proof. vm_compute. reflexivity. Qed.

(* SAVE — writing a checkpoint changes no existing cell; the file's cells are newly allocated, keep the agent's block
   structure and hold the value of every cell the agent exposes (hidden tensors are masked out); the plain fields of
   the file are the agent's. *)
Theorem save_spec : forall (s : store) (a : agent),
  let r := save s a in
  locs_of (bl_blocks (snd r)) = nseq (s_next s) (length (locs_of (mask_hidden (a_blocks a)))) /\
  s_next (fst r) = s_next s + N.of_nat (length (locs_of (mask_hidden (a_blocks a)))) /\
  map fst (bl_blocks (snd r)) = map fst (a_blocks a) /\
  (forall l, l < s_next s -> rd (fst r) l = rd s l) /\
  (Forall (fun l => l < s_next s) (agent_locs a) ->
     contents (fst r) (bl_blocks (snd r)) = contents s (mask_hidden (a_blocks a))) /\
  (bl_index (snd r) = a_index a /\ bl_mut (snd r) = a_mut a /\ bl_arch (snd r) = a_arch a /\
   bl_opts (snd r) = opt_view a /\ bl_hps (snd r) = a_hps a /\ bl_reg (snd r) = a_reg a).
Proof. exact save_spec_lemma. Qed.
Print Assumptions save_spec.

(* LOAD_FRESH — for every file and every store, every location of the agent returned by Algo.load is newly allocated,
   no location occurs twice in it, and loading writes nothing that existed before. *)
Theorem load_fresh : forall (s : store) (b : blob),
  let r := load s b in
  s_next s <= s_next (fst r) /\
  (forall l, In l (agent_locs (snd r)) -> s_next s <= l < s_next (fst r)) /\
  NoDup (agent_locs (snd r)) /\
  (forall l, l < s_next s -> rd (fst r) l = rd s l).
Proof. exact load_fresh_lemma. Qed.
Print Assumptions load_fresh.

(* load_checkpoint (with or without a registry mismatch) is an agent-local transformer: it may allocate, writes only
   cells of the agent it is called on, and the cells of the result are cells of that agent or newly allocated *)
Theorem load_checkpoint_local : forall b : blob, local_ok (fun x => fst (load_checkpoint b x)).
Proof. exact local_ok_load_checkpoint. Qed.
Print Assumptions load_checkpoint_local.

(* SEPARATION with files — from a population whose members share no location, every history of evolutionary-loop
   operations, save_checkpoint, Algo.load and load_checkpoint (any arguments, any registry, any files) leads to a
   population whose members share no location. *)
Theorem sep_preserved_with_files : forall (c : cworld) (ops : list cop),
  (NoDup (all_locs (cw c)) /\ Forall (fun l => l < s_next (w_store (cw c))) (all_locs (cw c))) ->
  (NoDup (all_locs (cw (crun c ops))) /\
   Forall (fun l => l < s_next (w_store (cw (crun c ops)))) (all_locs (cw (crun c ops)))).
Proof. exact (fun c ops => crun_WF_lemma ops c). Qed.
Print Assumptions sep_preserved_with_files.

(* FRAME — saving any member, loading a file into a new member, or loading a file into member k never changes the
   content of a cell owned by another member j (k <> j). *)
Theorem restore_frame : forall (c : cworld) (o : cop) (j : nat) (b : agent) (l : loc),
  WF (cw c) -> nth_error (w_pop (cw c)) j = Some b -> cop_target o <> Some j ->
  In l (agent_locs b) -> rd (w_store (cw (cstep c o))) l = rd (w_store (cw c)) l.
Proof. exact cstep_frame_lemma. Qed.
Print Assumptions restore_frame.

(* a file is immutable: any agent-local operation on an agent that does not own a (file) cell leaves it alone *)
Theorem file_cell_intact : forall (f : lstate -> lstate) (x : lstate) (l : loc),
  local_ok f -> l < s_next (fst x) -> ~ In l (agent_locs (snd x)) -> rd (fst (f x)) l = rd (fst x) l.
Proof. exact file_cell_intact_lemma. Qed.
Print Assumptions file_cell_intact.

(* PREFIX_SAFE 1 — for every dictionary, every name and suffix: filtering with k.startswith(name) first never changes
   what d[name + suffix] returns. *)
Theorem prefix_lookup_exact : forall (A : Type) (name suffix : str) (d : pdict A),
  lookup_entry name suffix d = dict_get (name ++ suffix) d.
Proof. exact @prefix_lookup_exact_lemma. Qed.
Print Assumptions prefix_lookup_exact.

(* PREFIX_SAFE 2 — for ALL attribute names: two (name, suffix) pairs of the module dictionary, or of the optimizer
   dictionary, that give the same key are the same pair, so no entry can overwrite or be mistaken for another one
   ("actor" / "actor_target", "critic" / "critics", ...). *)
Theorem checkpoint_keys_injective : forall (n1 n2 s1 s2 : str),
  (In s1 module_suffixes /\ In s2 module_suffixes) \/ (In s1 optimizer_suffixes /\ In s2 optimizer_suffixes) ->
  n1 ++ s1 = n2 ++ s2 -> n1 = n2 /\ s1 = s2.
Proof.
  exact (fun n1 n2 s1 s2 H E => match H with
         | or_introl (conj H1 H2) => key_inj_lemma module_suffixes module_suffixes_free n1 n2 s1 s2 H1 H2 E
         | or_intror (conj H1 H2) => key_inj_lemma optimizer_suffixes optimizer_suffixes_free n1 n2 s1 s2 H1 H2 E
         end).
Qed.
Print Assumptions checkpoint_keys_injective.

(* EVERY REGISTRY, shared encoders included (load_save_abs, partial form) — for every savable agent whose encoder blocks
   are empty exactly where the registry's share hooks hide them ([share_savedb], computed by K on every saved agent: every agent saved in its shared state; for
   registries without share hook the condition is void): the restored agent has the saved index, label, architecture
   descriptors, optimizer settings, hyper-parameters, registry, block structure, and the saved content in every cell of
   every block that is NOT hidden (all weights, targets, buffers, size lists, optimizer state, RL-param objects,
   bookkeeping, ext tensors).  The hidden encoder copies are the only thing a checkpoint loses
   (share_hidden_lost_refuted shows that they are lost). *)
Theorem load_save_visible : forall (s : store) (a : agent),
  savable a = true -> Forall (fun l => l < s_next s) (agent_locs a) -> share_savedb a = true ->
  let r := roundtrip s a in
  (a_index (snd r) = a_index a /\ a_mut (snd r) = a_mut a /\ a_arch (snd r) = a_arch a /\ opt_view (snd r) = opt_view a /\
   a_hps (snd r) = a_hps a /\ a_reg (snd r) = a_reg a) /\
  map fst (a_blocks (snd r)) = map fst (a_blocks a) /\
  (forall k, In k (map fst (a_blocks a)) -> is_hidden k = false ->
     map (rd (fst r)) (blk (snd r) k) = map (rd s) (blk a k)).
Proof. exact (fun s a SV B SS => load_save_visible_lemma s a SV B (share_savedb_sound a SS)). Qed.
Print Assumptions load_save_visible.

(* ... the same for Algo.load in any later store in which the file's cells are intact (crash point), every registry *)
Theorem load_later_visible : forall (s : store) (a : agent) (s' : store),
  savable a = true -> Forall (fun l => l < s_next s) (agent_locs a) -> share_savedb a = true ->
  s_next (fst (save s a)) <= s_next s' ->
  (forall l, In l (locs_of (bl_blocks (snd (save s a)))) -> rd s' l = rd (fst (save s a)) l) ->
  let r := load s' (snd (save s a)) in
  (a_index (snd r) = a_index a /\ a_mut (snd r) = a_mut a /\ a_arch (snd r) = a_arch a /\ opt_view (snd r) = opt_view a /\
   a_hps (snd r) = a_hps a /\ a_reg (snd r) = a_reg a) /\
  map fst (a_blocks (snd r)) = map fst (a_blocks a) /\
  (forall k, In k (map fst (a_blocks a)) -> is_hidden k = false ->
     map (rd (fst r)) (blk (snd r) k) = map (rd s) (blk a k)).
Proof. exact (fun s a s' SV B SS => load_later_visible_lemma s a s' SV B (share_savedb_sound a SS)). Qed.
Print Assumptions load_later_visible.

(* ... and for load_checkpoint into ANY agent t of the same algorithm (same block keys, same registry), every registry *)
Theorem load_checkpoint_save_visible : forall (s : store) (a : agent) (s' : store) (t : agent),
  savable a = true -> Forall (fun l => l < s_next s) (agent_locs a) -> share_savedb a = true ->
  NoDup (agent_locs t) -> Forall (fun l => l < s_next s') (agent_locs t) ->
  map fst (a_blocks t) = map fst (a_blocks a) -> a_reg t = a_reg a ->
  s_next (fst (save s a)) <= s_next s' ->
  (forall l, In l (locs_of (bl_blocks (snd (save s a)))) -> rd s' l = rd (fst (save s a)) l /\ ~ In l (agent_locs t)) ->
  snd (load_checkpoint (snd (save s a)) (s', t)) = true ->
  let r := fst (load_checkpoint (snd (save s a)) (s', t)) in
  (a_index (snd r) = a_index a /\ a_mut (snd r) = a_mut a /\ a_arch (snd r) = a_arch a /\ opt_view (snd r) = opt_view a /\
   a_hps (snd r) = a_hps a /\ a_reg (snd r) = a_reg a) /\
  map fst (a_blocks (snd r)) = map fst (a_blocks a) /\
  (forall k, In k (map fst (a_blocks a)) -> is_hidden k = false ->
     map (rd (fst r)) (blk (snd r) k) = map (rd s) (blk a k)).
Proof. exact (fun s a s' t SV B SS => load_checkpoint_save_visible_lemma s a s' t SV B (share_savedb_sound a SS)). Qed.
Print Assumptions load_checkpoint_save_visible.

(* non-vacuity: the PPO-like agent with a shared encoder used in the refutation satisfies the hypotheses *)
Example load_save_visible_hyps :
  savable agent_share = true /\ Forall (fun l => l < s_next store_share) (agent_locs agent_share) /\ share_savedb agent_share = true.
Proof.
  split; [vm_compute; reflexivity|]. split; [|vm_compute; reflexivity].
  apply Forall_forall. intros l Hl. vm_compute in Hl. vm_compute. repeat (destruct Hl as [<-|Hl]; [reflexivity|]). contradiction.
Qed.

(* PREFIX_SAFE — for ALL duplicate-free lists of network and optimizer attribute names: in the dictionaries built by
   get_checkpoint_dict (one d[name + suffix] = ... assignment per attribute and suffix, Python dict semantics) every lookup
   {k: v for k, v in d.items() if k.startswith(name)}[name + suffix] of load / load_checkpoint returns the entry that was
   stored for that very attribute and suffix — whatever prefixes the names are of each other. *)
Theorem prefix_safe : forall (net_names opt_names : list str),
  NoDup net_names -> NoDup opt_names -> prefix_ok net_names opt_names = true.
Proof. exact prefix_ok_lemma. Qed.
Print Assumptions prefix_safe.

(* REFUTED on the current tree (known finding restore:{DDPG,TD3,PPO}+share:*:henc) — with a shared encoder the
   critic's detached encoder copy is not in the file; the restored critic holds a copy of the newly constructed
   (random) actor encoder: neither the saved value nor the restored actor's encoder. *)
Theorem share_hidden_lost_refuted :
  exists s a, savable a = true /\ Forall (fun l => l < s_next s) (agent_locs a) /\
    let r := roundtrip s a in
    map (rd (fst r)) (blk (snd r) (2, cHenc)) <> map (rd s) (blk a (2, cHenc)) /\
    map (rd (fst r)) (blk (snd r) (2, cHenc)) <> map (rd (fst r)) (blk (snd r) (1, cEnc)).
Proof. exact share_hidden_lost_refuted_lemma. Qed.
Print Assumptions share_hidden_lost_refuted.

(* ROLL-BACK — restoring a well-formed file, then ANY agent-local operation f on the restored agent that keeps the block keys (learn,
   score, act, every mutation kind, another load_checkpoint ...), then restoring the SAME file again: the agent has the view
   stored in the file again, whatever f did. *)
Theorem restore_again : forall (b : blob) (x0 : lstate) (f : lstate -> lstate),
  okst x0 -> bfree (bl_blocks b) x0 -> map fst (a_blocks (snd x0)) = map fst (bl_blocks b) ->
  blob_ok b -> no_share (a_reg (snd x0)) = true ->
  local_ok f -> keys_ok f -> no_share (a_reg (snd (f (restore b x0)))) = true ->
  abs (fst (restore b (f (restore b x0)))) (snd (restore b (f (restore b x0)))) = blob_view (fst x0) b.
Proof. exact restore_again_lemma. Qed.
Print Assumptions restore_again.

(* IDENTICAL CONSECUTIVE CALLS — restoring the same file twice in a row is the same as restoring it once. *)
Theorem restore_idempotent : forall (b : blob) (x0 : lstate),
  okst x0 -> bfree (bl_blocks b) x0 -> map fst (a_blocks (snd x0)) = map fst (bl_blocks b) ->
  blob_ok b -> no_share (a_reg (snd x0)) = true -> no_share (bl_reg b) = true ->
  abs (fst (restore b (restore b x0))) (snd (restore b (restore b x0))) = abs (fst (restore b x0)) (snd (restore b x0)).
Proof. exact restore_idempotent_lemma. Qed.
Print Assumptions restore_idempotent.

(* ... and two consecutive saves of the same agent write files with the same view. *)
Theorem save_twice : forall (s : store) (a : agent),
  savable a = true -> no_hidden a = true -> Forall (fun l => l < s_next s) (agent_locs a) ->
  let r1 := save s a in let r2 := save (fst r1) a in
  blob_view (fst r2) (snd r2) = blob_view (fst r1) (snd r1).
Proof. exact save_twice_lemma. Qed.
Print Assumptions save_twice.

(* non-vacuity (computed on the DQN-like agent): save twice, load the second file, train, roll back with the first file *)
Example save_twice_restore_again_computed :
  let r1 := save store_dqn agent_dqn in let r2 := save (fst r1) agent_dqn in
  let x := load (fst r2) (snd r2) in
  let y := restore (snd r1) (learn_agent [(3, 2%nat)] x) in
  blob_view (fst r2) (snd r2) = blob_view (fst r1) (snd r1) /\ abs (fst y) (snd y) = abs store_dqn agent_dqn.
Proof. vm_compute. split; reflexivity. Qed.

(* WHAT IS LOST, for ALL agents — a registry whose hook shares the policy's encoder with duplicate-free targets: in the agent
   produced by restoring ANY well-formed file into ANY agent with the file's block keys, every target's hidden block has the size
   of the policy's encoder block and holds only contents issued DURING the restore (the constructor values of the rebuilt
   policy encoder, copied by the hook before any state dict is loaded). *)
Theorem restore_hidden_fresh : forall (b : blob) (x0 : lstate) (p : name) (others : list name) (o : name) (u : list loc),
  okst x0 -> map fst (a_blocks (snd x0)) = map fst (bl_blocks b) -> keys_nodupb (map fst (bl_blocks b)) = true ->
  r_hooks (a_reg (snd x0)) = [HShare p others] -> NoDup others -> ~ In p others -> In o others ->
  In ((p, cEnc), u) (bl_blocks b) -> In (o, cHenc) (map fst (bl_blocks b)) ->
  newer (s_fresh (fst x0)) (cont (restore b x0) (o, cHenc)) /\
  length (cont (restore b x0) (o, cHenc)) = length u.
Proof. exact restore_hidden_fresh_lemma. Qed.
Print Assumptions restore_hidden_fresh.

(* ... hence, in every store in which allocated cells hold issued content ids, for EVERY savable agent whose hook shares a
   non-empty policy encoder: the hidden encoder copy of every target of the restored agent differs from the saved one
   (the universal form of share_hidden_lost_refuted; known finding restore:{DDPG,TD3,PPO}+share:*:henc). *)
Theorem share_hidden_lost_always : forall (s : store) (a : agent) (p : name) (others : list name) (o : name),
  savable a = true -> Forall (fun l => l < s_next s) (agent_locs a) -> fresh_ok s ->
  r_hooks (a_reg a) = [HShare p others] -> NoDup others -> ~ In p others -> In o others ->
  blk a (p, cEnc) <> [] -> In (p, cEnc) (map fst (a_blocks a)) -> In (o, cHenc) (map fst (a_blocks a)) ->
  let r := roundtrip s a in
  map (rd (fst r)) (blk (snd r) (o, cHenc)) <> map (rd s) (blk a (o, cHenc)).
Proof. exact share_hidden_lost_always_lemma. Qed.
Print Assumptions share_hidden_lost_always.

(* non-vacuity: the PPO-like agent with a shared encoder satisfies the hypotheses of share_hidden_lost_always *)
Example share_hidden_lost_always_hyps :
  savable agent_share = true /\ fresh_ok store_share /\ r_hooks (a_reg agent_share) = [HShare 1 [2]] /\
  blk agent_share (1, cEnc) <> [] /\ In (1, cEnc) (map fst (a_blocks agent_share)) /\ In (2, cHenc) (map fst (a_blocks agent_share)).
Proof.
  split; [vm_compute; reflexivity|]. split.
  - intros l Hl. cbn in Hl. assert (H : l = 0 \/ l = 1 \/ l = 2 \/ l = 3) by lia.
    destruct H as [H|[H|[H|H]]]; subst l; vm_compute; reflexivity.
  - split; [reflexivity|]. split; [discriminate|]. split; vm_compute; tauto.
Qed.

(* REFUTED, pinned behaviour (before fix 3d1411a) — a DQN target whose tensors are outside state_dict is not saved. *)
Theorem dqn_pinned_target_lost_refuted :
  let r := roundtrip store_dqn agent_dqn_pinned in
  map (rd (fst r)) (blk (snd r) (2, cHenc)) <> map (rd store_dqn) (blk agent_dqn_pinned (2, cHenc)).
Proof. exact dqn_pinned_target_lost_refuted_lemma. Qed.
Print Assumptions dqn_pinned_target_lost_refuted.
