(* C02 — after any mutation an agent is coherent: optimizers, targets and critics follow.
   Property theorems only; each is closed by [exact] of a lemma proved in C02/Proofs.v.
   The model (Evo/Evo.v: mutate_kind / mutate_agent / reinit_opts / rebuild_shared / run_hooks / learn_agent / clone_agent /
   select, and C02/Model.v: wf_registry, Coherent, mutate_pop, arch_mutate) is tied to /repo by the correspondence check of
   harness/c02.py.

   [Coherent a] = every optimizer of [a] (i) is registered, (ii) references exactly the exposed parameter cells of the
   networks it is registered for ([same_refs]: same length, mutual inclusion) and (iii) carries the agent's current value
   of its learning-rate attribute; every shared/target network has the architecture id of the evaluation network it
   shadows; every network whose encoder is shared through a hook exposes no encoder parameters of its own.
   [wf_registry r] (computed on the registry extracted from every real algorithm at check time) = no optimizer is registered
   for a shared network; sharing encoders through a hook implies that activation mutations are skipped; optimizer names
   are unique; shared networks are not evaluation networks and shadow one network. *)
From Coq Require Import List NArith QArith Bool.
Import ListNotations.
From AgileV Require Import Evo.Heap Evo.Evo Evo.EvoProofs C02.Model C02.Proofs C02.ProofsFollow.
From AgileV Require C03.Model C02.ProofsArch.
From AgileV Require Import C02.ProofsAct.
Open Scope N_scope.

(* MUTATION COHERENT (one individual) — for every well-formed registry, every store, every mutation kind
   (none / architecture / parameters / activation incl. the skip for policy-gradient algorithms / any hyper-parameter with
   any new value), every shape of the mutated networks and every label: Mutations.mutation applied to a coherent
   individual (the drawn mutation function, then re-creation of every shared network, then the hooks) yields a coherent
   individual.  The fall-backs "no mutation methods" / "no activation" are the kinds MNone / MAct of the model. *)
Theorem mutation_coherent : forall (k : mkind) (sh : list netshape) (label : N) (s : store) (a : agent),
  wf_registry (a_reg a) = true -> Coherent a -> Coherent (snd (mutate_agent k sh label (s, a))).
Proof. exact mutate_agent_coherent. Qed.
Print Assumptions mutation_coherent.

(* ... for a whole population: Mutations.mutation(population) with any vector of draws ... *)
Theorem mutation_coherent_population : forall (ds : list draw) (w : world),
  WfRegs w -> AllCoherent w -> AllCoherent (mutate_pop ds w).
Proof. exact mutation_coherent_pop_lemma. Qed.
Print Assumptions mutation_coherent_population.

(* ... and lifted over every history: coherence (and well-formedness of the registries) is an invariant of every sequence
   of learn / score / act / clone / mutation (any kind, any member) / tournament selection / discard, hence of every
   sequence of generations (select, mutate, learn)^n of any length. *)
Theorem generations_coherent : forall (w : world) (ops : list op),
  WfRegs w -> AllCoherent w -> AllCoherent (run w ops) /\ WfRegs (run w ops).
Proof. exact generations_coherent_lemma. Qed.
Print Assumptions generations_coherent.

(* NO DANGLING REFERENCE — in a coherent agent every cell an optimizer references is a cell the agent owns now ... *)
Theorem opt_points_at_live_cells : forall a : agent, Coherent a -> refs_live a.
Proof. exact coherent_refs_live_lemma. Qed.
Print Assumptions opt_points_at_live_cells.

(* ... hence in every population reachable from a coherent one, after whatever mutations. *)
Theorem opt_points_at_live_cells_reachable : forall (w : world) (ops : list op),
  WfRegs w -> AllCoherent w -> forall a, In a (w_pop (run w ops)) -> refs_live a.
Proof. exact all_refs_live_lemma. Qed.
Print Assumptions opt_points_at_live_cells_reachable.

(* ... and, together with the separation invariant of C01, an optimizer never references a cell of ANOTHER member: in every
   population reachable from a separated, coherent one, every optimizer reference of member i is a cell of member i and
   of no member j <> i (so training one member cannot move another member's networks through a stale optimizer). *)
Theorem opt_refs_own_cells_only : forall (w : world) (ops : list op),
  WF w -> WfRegs w -> AllCoherent w ->
  forall i j a b o l, nth_error (w_pop (run w ops)) i = Some a -> nth_error (w_pop (run w ops)) j = Some b -> i <> j ->
  In o (a_opts a) -> In l (o_refs o) -> In l (agent_locs a) /\ ~ In l (agent_locs b).
Proof. exact refs_own_cells_only_lemma. Qed.
Print Assumptions opt_refs_own_cells_only.

(* LEARN MOVES THE TRAINED NETWORKS (footprint) — one learn() of a coherent agent whose optimizers are registered for
   network attributes it has writes every cell any of its optimizers references: afterwards the cell holds a content
   identifier that did not exist before the call. *)
Theorem learn_moves_trained : forall (st : list (name * nat)) (s : store) (a : agent) (o : opt) (l : loc),
  Coherent a -> (forall c n, In c (r_opts (a_reg a)) -> In n (oc_nets c) -> In n (net_names a)) ->
  Forall (fun l => l < s_next s) (agent_locs a) ->
  In o (a_opts a) -> In l (o_refs o) ->
  s_fresh s <= rd (fst (learn_agent st (s, a))) l.
Proof. exact learn_moves_lemma. Qed.
Print Assumptions learn_moves_trained.

(* MUTATE, THEN LEARN — for every well-formed registry, kind, shape list and store: after the mutation of a coherent
   individual whose optimizers are registered for network attributes it has, one learn step writes every cell that an
   optimizer of the MUTATED individual references (mutation_coherent + the invariance of the network attributes and of
   allocatedness under every mutation + learn_moves_trained). *)
Theorem learn_after_mutation_moves :
  forall (k : mkind) (sh : list netshape) (label : N) (st : list (name * nat)) (s : store) (a : agent),
  wf_registry (a_reg a) = true -> Coherent a ->
  (forall c n, In c (r_opts (a_reg a)) -> In n (oc_nets c) -> In n (net_names a)) ->
  Forall (fun l => l < s_next s) (agent_locs a) ->
  let x' := mutate_agent k sh label (s, a) in
  forall o l, In o (a_opts (snd x')) -> In l (o_refs o) ->
  s_fresh (fst x') <= rd (fst (learn_agent st x')) l.
Proof. exact learn_after_mutation_moves_lemma. Qed.
Print Assumptions learn_after_mutation_moves.

(* every mutation kind keeps the set of network attributes of the individual (no network appears or disappears) *)
Theorem mutation_keeps_network_attributes : forall (k : mkind) (sh : list netshape) (label : N) (x : lstate),
  net_names (snd (mutate_agent k sh label x)) = net_names (snd x).
Proof. exact (fun k sh label => akeep_mutate_agent k sh label). Qed.
Print Assumptions mutation_keeps_network_attributes.

(* members for which Mutations.mutation has no draw are returned exactly as they were (record and position) *)
Theorem mutation_leaves_undrawn_members : forall (ds : list draw) (w : world) (j : nat),
  (length ds <= j)%nat -> nth_error (w_pop (mutate_pop ds w)) j = nth_error (w_pop w) j.
Proof. exact (fun ds w j H => mutate_from_after ds 0%nat w j H). Qed.
Print Assumptions mutation_leaves_undrawn_members.

(* POPULATION SHAPE — Mutations.mutation(population) returns as many members, in the same order (same index sequence), and
   member j reports the label of the mutation it received. *)
Theorem population_shape : forall (ds : list draw) (w : world),
  length (w_pop (mutate_pop ds w)) = length (w_pop w) /\
  map a_index (w_pop (mutate_pop ds w)) = map a_index (w_pop w) /\
  (forall j d, nth_error ds j = Some d -> (j < length (w_pop w))%nat ->
               option_map a_mut (nth_error (w_pop (mutate_pop ds w)) j) = Some (snd d)).
Proof. exact population_shape_lemma. Qed.
Print Assumptions population_shape.

(* ARCHITECTURE FOLLOWS THE POLICY — architecture_mutate at descriptor level, for ANY meaning [net_apply] of the mutation
   methods: the policy's sampled method is resolved on the policy (result p', finally applied method, returned argument
   dictionary d); every other evaluation network receives exactly that resolved method with exactly d, or nothing at all
   when the policy's call was a no-op (bound hit). *)
Theorem arch_follows_policy : forall (arch meth args : Type)
  (net_apply : meth -> args -> arch -> arch * option meth * args) (no_args : args) (m : meth) (pol : arch) (others : list arch),
  exists d,
    net_apply m no_args pol = (fst (fst (arch_mutate net_apply no_args m pol others)),
                               snd (arch_mutate net_apply no_args m pol others), d) /\
    snd (fst (arch_mutate net_apply no_args m pol others)) =
      map (follow_one net_apply (snd (arch_mutate net_apply no_args m pol others)) d) others.
Proof. exact (@arch_follows_lemma). Qed.
Print Assumptions arch_follows_policy.

(* ... consequently (when replaying a resolved method with its returned arguments reproduces the result, which is C03's
   statement about the modules): as many networks as before; a no-op on the policy leaves every other network alone;
   a network that had the policy's architecture has the policy's new architecture. *)
Theorem arch_same_before_same_after : forall (arch meth args : Type)
  (net_apply : meth -> args -> arch -> arch * option meth * args) (no_args : args) (m : meth) (pol : arch) (others : list arch),
  replayable net_apply no_args ->
  let r := arch_mutate net_apply no_args m pol others in
  length (snd (fst r)) = length others /\
  (snd r = None -> snd (fst r) = others) /\
  (snd r <> None -> forall i, nth_error others i = Some pol -> nth_error (snd (fst r)) i = Some (fst (fst r))).
Proof. exact (@arch_same_before_same_after). Qed.
Print Assumptions arch_same_before_same_after.

(* ... and the hypothesis [replayable] is a THEOREM for EvolvableMLP as modelled by property C03 (C03/Model.v [mlp_step]:
   add_layer / remove_layer with their fall-back on add_node, add_node / remove_node with their hard limits): the method
   and argument list a call resolves to — what architecture_mutate replays — reproduce the result on the same hidden sizes
   for ANY other draws; in particular when add_layer / remove_layer fell back on add_node, whose randomly drawn layer
   index and node count travel only through the returned arguments. *)
Theorem mlp_methods_replayable : forall (c : C03.Model.mlp_cfg) (h : list Z) (m : C03.Model.mlp_meth) (r1 r2 : Z),
  (0 < C03.Model.zlen h)%Z -> C02.ProofsArch.meth_ok m ->
  let '(h', nm, ar) := C03.Model.mlp_step c h m r1 r2 in
  exists m', C02.ProofsArch.mlp_resolved nm ar = Some m' /\
             forall r1' r2', fst (fst (C03.Model.mlp_step c h m' r1' r2')) = h'.
Proof. exact C02.ProofsArch.mlp_replay_lemma. Qed.
Print Assumptions mlp_methods_replayable.

(* architecture_mutate over MLP networks (arch_mutate instantiated with C03's model): every other evaluation network that had
   the policy's hidden sizes has the policy's new hidden sizes, whatever it would have drawn itself. *)
Theorem mlp_arch_follows_policy : forall (c : C03.Model.mlp_cfg) (k : C02.ProofsArch.mlp_call) (pol : list Z) (others : list (list Z)),
  (0 < C03.Model.zlen pol)%Z -> C02.ProofsArch.meth_ok (C02.ProofsArch.c_meth k) ->
  let r := arch_mutate (C02.ProofsArch.mlp_net_apply c) tt k pol others in
  length (snd (fst r)) = length others /\
  forall i, nth_error others i = Some pol -> nth_error (snd (fst r)) i = Some (fst (fst r)).
Proof. exact C02.ProofsArch.mlp_arch_follow_lemma. Qed.
Print Assumptions mlp_arch_follows_policy.

(* "NONE" IS NOT THE IDENTITY — the model follows the code: also for the drawn mutation "None" every shared network is
   re-created and every mutation hook runs.  For a bandit registry (hook init_params) the individual stays coherent but its
   ext tensors (the learned confidence matrix sigma_inv) are re-initialised although it reports "None". *)
Theorem none_mutation_not_identity :
  exists s a label,
    wf_registry (a_reg a) = true /\ Coherent a /\
    let x' := mutate_agent MNone [] label (s, a) in
    Coherent (snd x') /\
    map (rd (fst x')) (blk (snd x') kExt) <> map (rd s) (blk a kExt).
Proof. exact C02.ProofsArch.none_mutation_not_identity_lemma. Qed.
Print Assumptions none_mutation_not_identity.

(* ACTIVATION MUTATION — Mutations._permutate_activation as modelled ([permutate]: candidates = a copy of the object's
   activation_selection minus the network's current activation): the new activation lies in the selection ... *)
Theorem permutate_in_selection : forall (sel : list N) (cur : N) (draw : nat),
  sel <> [] -> In (permutate sel cur draw) sel.
Proof. exact permutate_in_selection_lemma. Qed.
Print Assumptions permutate_in_selection.

(* ... and differs from the current one whenever the (duplicate-free) selection offers an alternative: an agent that
   reports "act" really has another activation. *)
Theorem permutate_changes : forall (sel : list N) (cur : N) (draw : nat),
  NoDup sel -> (2 <= length sel)%nat -> permutate sel cur draw <> cur.
Proof. exact permutate_changes_lemma. Qed.
Print Assumptions permutate_changes.

(* THE SELECTION IS CONSTANT STATE — over every history of activation mutations through one Mutations object (any number,
   any draws) the object's selection is the one it was created with and every activation taken lies in it. *)
Theorem selection_invariant : forall (draws : list nat) (sel : list N) (cur : N),
  sel <> [] ->
  fst (act_run (sel, cur) draws) = sel /\ (draws <> [] -> In (snd (act_run (sel, cur) draws)) sel).
Proof. exact act_run_spec. Qed.
Print Assumptions selection_invariant.

(* REFUTED — the variant without the copy (list.remove applied to the object's own list): with three activations, after
   two mutations the selection has one element left and the third mutation re-selects the activation the network already
   has (the agent would still report "act"). *)
Theorem act_selection_consumed_refuted :
  exists sel cur d1 d2 d3,
    NoDup sel /\ length sel = 3%nat /\
    let s2 := act_step_consuming (act_step_consuming (sel, cur) d1) d2 in
    let s3 := act_step_consuming s2 d3 in
    length (fst s2) = 1%nat /\ snd s3 = snd s2.
Proof. exact act_consuming_refuted_lemma. Qed.
Print Assumptions act_selection_consumed_refuted.

(* SHARED NETWORKS FOLLOW — right after Mutations.mutation the architecture id of every shared/target network is the one of
   the evaluation network it shadows, whatever the individual looked like before (no coherence hypothesis). *)
Theorem shared_arch_follows : forall (x : lstate),
  WfReg (a_reg (snd x)) -> arch_ok (snd (rebuild_shared x)).
Proof. exact rebuild_shared_arch_ok. Qed.
Print Assumptions shared_arch_follows.

(* SHARED WEIGHTS FOLLOW — right after Mutations.mutation re-created the shared networks of an individual (all of them, one
   after the other), every shared/target network holds, cell by cell, the contents of the evaluation network it shadows:
   head parameters, constants, size lists, registered buffers ([copied_class]).  For every well-formed registry and every
   individual whose cells are allocated and that has the shared network's block.  (The hooks that run afterwards only copy
   evaluation -> target again (DQN), replace the encoders / encoder buffers of hook-shared networks, or re-initialise the
   bandit tensors; the final state is compared by K.) *)
Theorem shared_weights_follow : forall (x : lstate) (c : N),
  copied_class c -> WfReg (a_reg (snd x)) ->
  Forall (fun l => l < s_next (fst x)) (agent_locs (snd x)) ->
  (forall s, In s (shared_names (a_reg (snd x))) -> has_key (s, c) x) ->
  forall g s, In g (r_groups (a_reg (snd x))) -> In s (g_shared g) ->
  map (rd (fst (rebuild_shared x))) (blk (snd (rebuild_shared x)) (s, c)) =
  map (rd (fst (rebuild_shared x))) (blk (snd (rebuild_shared x)) (g_eval g, c)).
Proof. exact shared_weights_follow_lemma. Qed.
Print Assumptions shared_weights_follow.

(* ... hence, for every registry WITHOUT mutation hooks (CQN, Rainbow, MADDPG, MATD3, IPPO, DDPG/TD3/PPO with unshared
   encoders), in the state right after the whole Mutations.mutation of an individual — any kind, any shapes —: *)
Theorem mutation_weights_follow_nohooks :
  forall (k : mkind) (sh : list netshape) (label : N) (s : store) (a : agent) (c : N),
  copied_class c -> wf_registry (a_reg a) = true -> r_hooks (a_reg a) = [] ->
  Forall (fun l => l < s_next s) (agent_locs a) ->
  (forall n, In n (shared_names (a_reg a)) -> In (n, c) (map fst (a_blocks a))) ->
  forall g n, In g (r_groups (a_reg a)) -> In n (g_shared g) ->
  let x' := mutate_agent k sh label (s, a) in
  map (rd (fst x')) (blk (snd x') (n, c)) = map (rd (fst x')) (blk (snd x') (g_eval g, c)).
Proof. exact mutation_weights_follow_nohooks_lemma. Qed.
Print Assumptions mutation_weights_follow_nohooks.

(* the mutation hooks leave every hook-shared network without exposed encoder parameters, from any state *)
Theorem hooks_establish_sharing : forall x : lstate, hooked (snd (run_hooks x)).
Proof. exact run_hooks_hooked. Qed.
Print Assumptions hooks_establish_sharing.

(* the executable coherence test used by the correspondence check on every state implies the predicate of the theorems *)
Theorem coherent_b_sound : forall a : agent, coherent_b a = true -> Coherent a.
Proof. exact coherent_b_sound. Qed.
Print Assumptions coherent_b_sound.

(* ... and conversely: the executable test is EXACTLY the predicate (so "all_coherent_b = true on every state of every
   history", which K demands of the model next to the agreement with the implementation, is the invariant of the theorems). *)
Theorem coherent_b_exact : forall a : agent, coherent_b a = true <-> Coherent a.
Proof. exact coherent_b_iff. Qed.
Print Assumptions coherent_b_exact.

(* REFUTED — the pinned rl_hyperparam_mutation (before fix 9c077e4: only the FIRST optimizer using the mutated learning
   rate is re-created) is not coherent: on a TD3-like registry the second critic's optimizer keeps the old learning rate;
   the repaired mutation of the same individual is coherent. *)
Theorem hp_first_only_refuted :
  exists s a h v label,
    wf_registry (a_reg a) = true /\ Coherent a /\
    ~ Coherent (snd (mutate_agent_first_only (MHp h v) [] label (s, a))) /\
    Coherent (snd (mutate_agent (MHp h v) [] label (s, a))).
Proof. exact hp_first_only_refuted_lemma. Qed.
Print Assumptions hp_first_only_refuted.

(* non-vacuity: concrete populations satisfy the hypotheses (TD3-like twin critics; DDPG-like shared encoders through a
   hook; DQN-like re-synchronised target), and a 14-operation history (architecture and lr mutations, training, selection,
   parameter / activation / no mutation, clone) ends coherent — computed, and also given by the theorem *)
Example ex_hypotheses : (WfRegs ex_world /\ AllCoherent ex_world) /\ (WfRegs ex_world_share /\ AllCoherent ex_world_share)
                        /\ (WfRegs ex_world_sync /\ AllCoherent ex_world_sync).
Proof. exact (conj ex_world_good (conj ex_world_share_good ex_world_sync_good)). Qed.
Example ex_world_separated : WF ex_world /\ WF ex_world_share /\ WF ex_world_sync.
Proof. repeat split; apply sep_b_WF; vm_compute; reflexivity. Qed.
Example ex_history_coherent :
  all_coherent_b (run ex_world ex_history) = true /\ length (w_pop (run ex_world ex_history)) = 3%nat /\
  AllCoherent (run ex_world ex_history).
Proof.
  split; [vm_compute; reflexivity|split; [vm_compute; reflexivity|]].
  apply generations_coherent; apply ex_world_good.
Qed.
Example ex_weights_follow_hypotheses :
  let x := (mkStore 22 100 hempty, ex_agent 0 0) in
  WfReg (a_reg (snd x)) /\ Forall (fun l => l < s_next (fst x)) (agent_locs (snd x)) /\
  (forall s, In s (shared_names (a_reg (snd x))) -> has_key (s, cHead) x).
Proof.
  cbv zeta. split; [apply wf_registry_WfReg; reflexivity|]. split.
  - apply Forall_forall. intros l Hl. apply N.ltb_lt. revert l Hl. apply Forall_forall. vm_compute. repeat constructor.
  - intros s Hs. cbn in Hs. unfold has_key. cbn. intuition (subst; tauto).
Qed.
Example ex_learn_after_mutation_hypotheses :
  let a := ex_agent 0 0 in
  wf_registry (a_reg a) = true /\ Coherent a /\
  (forall c n, In c (r_opts (a_reg a)) -> In n (oc_nets c) -> In n (net_names a)).
Proof.
  cbv zeta. split; [reflexivity|]. split; [apply coherent_b_sound; vm_compute; reflexivity|].
  intros c n Hc Hn. cbn in Hc. destruct Hc as [<-|[<-|[<-|[]]]]; cbn in Hn; destruct Hn as [<-|[]]; cbn; tauto.
Qed.
Example ex_share_mutations_coherent :
  all_coherent_b (run ex_world_share [Mutate 0 MArch [mkShape 1 5 2 1 0 0 1 0; mkShape 3 6 2 1 0 0 1 0] 5;
                                      Mutate 0 MAct [] 1; Mutate 0 (MHp 11 (1 # 50)) [] 6; Mutate 0 MParam [] 7]) = true.
Proof. vm_compute. reflexivity. Qed.
