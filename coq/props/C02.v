(* C02 — after any mutation an agent is coherent: optimizers, targets and critics follow.
   Property theorems only; each is closed by [exact] of a lemma proved in C02/Proofs.v.
   The model (Evo/Evo.v + C02/Model.v) is tied to /repo by the correspondence check of harness/c02.py. *)
From Coq Require Import List NArith QArith Bool.
Import ListNotations.
From AgileV Require Import Evo.Heap Evo.Evo Evo.EvoProofs C02.Model C02.Proofs.
Open Scope N_scope.

(* NO DANGLING REFERENCE — in a coherent agent every cell an optimizer references is a cell the agent owns now. *)
Theorem opt_points_at_live_cells : forall a : agent, Coherent a -> refs_live a.
Proof. exact coherent_refs_live_lemma. Qed.
Print Assumptions opt_points_at_live_cells.

(* POPULATION SHAPE — Mutations.mutation(population) returns as many members as it received. *)
Theorem population_size : forall (ds : list draw) (w : world),
  length (w_pop (mutate_pop ds w)) = length (w_pop w).
Proof. exact (fun ds w => mutate_from_length ds 0%nat w). Qed.
Print Assumptions population_size.
