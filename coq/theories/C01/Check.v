(* C01/Check.v — the correspondence check of C01 is the generic Evo shadow-execution check
   (alias partition, value refinement, structure, per state of the history): see Evo/EvoCheck.v. *)
From AgileV Require Export Evo.EvoCheck.
