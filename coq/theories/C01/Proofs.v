(* C01/Proofs.v — clone is faithful and independent: lemmas behind coq/props/C01.v.
   The population-level invariants (separation, frame) are proved once in Evo/EvoProofs.v;
   this file adds faithfulness of the copy and the two refutations. *)
From Coq Require Import List NArith QArith Lia Bool.
From AgileV Require Import Evo.Heap Evo.Evo Evo.EvoProofs C01.Model.
Import ListNotations.
Open Scope N_scope.

Definition contf (g : loc -> cval) (bs : blocks) : list (key * list cval) :=
  map (fun kv => (fst kv, map g (snd kv))) bs.

Lemma contents_contf s bs : contents s bs = contf (rd s) bs.
Proof. reflexivity. Qed.

Lemma contf_of_parts g g0 bs bs0 :
  map fst bs = map fst bs0 ->
  map (fun kv => map g (snd kv)) bs = map (fun kv => map g0 (snd kv)) bs0 ->
  contf g bs = contf g0 bs0.
Proof.
  revert bs0. induction bs as [|kv r IH]; intros [|kv0 r0] HK HC; cbn in *; try discriminate; auto.
  injection HK as K1 K2. injection HC as C1 C2. rewrite K1, C1. f_equal. apply IH; auto.
Qed.

(* replacing the first block k of a copy by cells whose contents equal the parent's block k *)
Lemma contf_setb : forall bs1 bs0 (g1 g3 g0 : loc -> cval) k ls,
  map fst bs1 = map fst bs0 ->
  map (fun kv => map g1 (snd kv)) bs1 = map (fun kv => map g0 (snd kv)) bs0 ->
  (forall l, In l (locs_of bs1) -> g3 l = g1 l) ->
  map g3 ls = map g0 (getb k bs0) ->
  contf g3 (setb k ls bs1) = contf g0 bs0.
Proof.
  unfold locs_of. induction bs1 as [|kv r IH]; intros [|kv0 r0] g1 g3 g0 k ls HK HC HF HL; cbn in *; try discriminate; auto.
  injection HK as K1 K2. injection HC as C1 C2. rewrite <- K1 in HL.
  destruct (key_eqb k (fst kv)) eqn:E.
  - cbn [contf map fst snd]. rewrite HL, K1. f_equal.
    apply contf_of_parts; auto. rewrite <- C2. apply map_ext_in. intros kv' Hkv. apply map_ext_in. intros x Hx.
    apply HF. apply in_or_app. right. apply in_concat. exists (snd kv'). split; auto. apply in_map; auto.
  - cbn [contf map fst snd]. rewrite K1. f_equal.
    + f_equal. rewrite <- C1. apply map_ext_in. intros x Hx. apply HF. apply in_or_app; auto.
    + apply (IH r0 g1 g3 g0 k ls); auto. intros l Hl. apply HF. apply in_or_app; auto.
Qed.

Lemma fix_refs_view a : map (fun o => (o_name o, o_lr o)) (a_opts (fix_refs a)) = map (fun o => (o_name o, o_lr o)) (a_opts a).
Proof.
  unfold fix_refs. cbn [with_opts a_opts]. rewrite map_map. apply map_ext. intros o.
  destruct (find_optcfg (a_reg a) (o_name o)); reflexivity.
Qed.

(* FAITHFUL (algorithms without mutation hooks: CQN, Rainbow DQN, MADDPG, MATD3, IPPO, and DDPG / TD3 / PPO
   with un-shared encoders): everything behaviour can depend on is equal for parent and copy *)
Theorem clone_faithful_nohooks_lemma idx s a :
  r_hooks (a_reg a) = [] -> bounded s (agent_locs a) ->
  abs (fst (clone_agent idx s a)) (snd (clone_agent idx s a)) = abs s a.
Proof.
  intros HH B. unfold clone_agent.
  destruct (copy_blocks_spec (a_blocks a) s) as (C1 & C2 & C3 & C4 & C5).
  destruct (copy_blocks s (a_blocks a)) as [s1 bs]. cbn [fst snd] in *.
  unfold run_hooks. cbn [snd with_blocks a_reg]. rewrite HH. cbn [map seqL fold_left].
  unfold pure, realloc. cbn [fst snd].
  pose proof (alloc_locs (map CopyOf (blk a kExt)) s1) as HL.
  pose proof (alloc_frame (map CopyOf (blk a kExt)) s1) as HF.
  assert (Bext : Forall (fun l => l < s_next s1) (blk a kExt)).
  { apply Forall_forall. intros l Hl. unfold bounded, agent_locs in B. rewrite Forall_forall in B.
    specialize (B l (getb_incl _ _ _ Hl)). lia. }
  pose proof (alloc_copy_content (blk a kExt) s1 Bext) as HC.
  destruct (alloc s1 (map CopyOf (blk a kExt))) as [s3 ls]. cbn [fst snd] in *.
  assert (Hcont : contents s3 (setb kExt ls bs) = contents s (a_blocks a)).
  { rewrite !contents_contf. apply (contf_setb bs (a_blocks a) (rd s1) (rd s3) (rd s) kExt ls).
    - exact C3.
    - exact (C5 B).
    - intros l Hl. apply HF. rewrite C1 in Hl. apply in_nseq in Hl. lia.
    - rewrite HC. apply map_ext_in. intros x Hx. apply C4.
      unfold bounded, agent_locs in B. rewrite Forall_forall in B. apply B. eapply getb_incl; eauto. }
  unfold abs. cbn [fst snd].
  destruct idx as [i|]; cbn [with_index with_blocks a_mut a_arch a_opts a_hps a_reg a_blocks fix_refs with_opts];
    rewrite Hcont; f_equal; apply (fix_refs_view (with_blocks a bs)).
Qed.

(* behaviour that depends only on the view is the same for parent and copy *)
Section SameBehaviour.
  Variable B : Type.
  Variable behaviour : view -> B.       (* greedy action on an observation, update computed from a batch, ... *)
  Lemma same_behaviour_lemma idx s a :
    r_hooks (a_reg a) = [] -> bounded s (agent_locs a) ->
    behaviour (abs (fst (clone_agent idx s a)) (snd (clone_agent idx s a))) = behaviour (abs s a).
  Proof. intros. rewrite clone_faithful_nohooks_lemma; auto. Qed.
End SameBehaviour.

(* FRESH: every location of the copy is newly allocated *)
Lemma clone_fresh_lemma idx s a l :
  In l (agent_locs (snd (clone_agent idx s a))) -> s_next s <= l /\ NoDup (agent_locs (snd (clone_agent idx s a))).
Proof.
  intros H. destruct (clone_spec idx s a) as (_ & C2 & C3 & _). split; auto. apply (C2 l H).
Qed.

(* ---- a tiny DQN-like world used by the examples and refutations -------------------------------- *)
Definition reg_dqn : registry :=
  mkReg [mkGroup 1 [2] true] [mkOptCfg 3 [1] 4] [HSync 1 2] [4] false.
Definition agent0 (base : N) (idx : N) : agent :=
  mkAgent idx 0 [(1, 7); (2, 7)] [mkOpt 3 (1#1000)%Q [base; base + 1]] [(4, (1#1000)%Q)] reg_dqn
          [((1, cEnc), [base]); ((1, cHead), [base + 1]); ((1, cHenc), []); ((1, cConst), []); ((1, cCfg), [base + 2]); ((1, cBuf), []);
           ((2, cEnc), [base + 3]); ((2, cHead), [base + 4]); ((2, cHenc), []); ((2, cConst), []); ((2, cCfg), [base + 5]); ((2, cBuf), []);
           ((3, cOst), []); (kReg, [base + 6]); (kBook, [base + 7; base + 8; base + 9]); (kExt, [])].
Definition heap0 : heap :=
  fold_left (fun h l => upd h l (l + 100)) (nseq 0 20) hempty.
Definition world0 : world := mkWorld (mkStore 20 1000 heap0) [agent0 0 0; agent0 10 1].

(* PPO-like registry with a shared encoder: critic (2) holds a detached copy of the actor's (1) encoder *)
Definition reg_share : registry :=
  mkReg [mkGroup 1 [] true; mkGroup 2 [] false] [mkOptCfg 3 [1; 2] 4] [HShare 1 [2]] [4] true.
Definition agent_share : agent :=
  mkAgent 0 0 [(1, 7); (2, 8)] [mkOpt 3 (1#1000)%Q [0; 1; 3]] [(4, (1#1000)%Q)] reg_share
          [((1, cEnc), [0]); ((1, cHead), [1]); ((1, cHenc), []); ((1, cConst), []); ((1, cCfg), []); ((1, cBuf), []);
           ((2, cEnc), []); ((2, cHead), [3]); ((2, cHenc), [2]); ((2, cConst), []); ((2, cCfg), []); ((2, cBuf), []);
           ((3, cOst), []); (kReg, []); (kBook, []); (kExt, [])].
Definition world_share : world :=
  mkWorld (mkStore 4 1000 (fold_left (fun h l => upd h l (if N.eqb l 2 then 100 else l + 100)) (nseq 0 4) hempty)) [agent_share].

(* REFUTED (pinned behaviour, before fix 72877d1): loading the parent's optimizer state dict without
   deep-copying it makes parent and copy share the state tensors *)
Lemma clone_aliasing_refuted_lemma :
  exists w i, WF w /\ ~ NoDup (all_locs (clone_into clone_agent_aliasing i None w)).
Proof.
  exists (step world0 (Learn 0 [(3, 4%nat)])), 0%nat. split.
  - apply step_WF. apply sep_b_WF. vm_compute. reflexivity.
  - intro H. apply nodupb_NoDup in H. vm_compute in H. discriminate.
Qed.

(* REFUTED on the current tree (known finding): with a shared encoder the copy's critic holds a fresh
   copy of the trained actor encoder, the parent's critic still holds the stale one *)
Lemma clone_shared_encoder_refuted_lemma :
  exists w, WF w /\
    let w' := clone_into clone_agent 0 None w in
    match w_pop w' with
    | [p; c] => map (rd (w_store w')) (blk p (2, cHenc)) <> map (rd (w_store w')) (blk c (2, cHenc))
    | _ => False
    end.
Proof.
  exists (step world_share (Learn 0 [(3, 9%nat)])). split.
  - apply step_WF. apply sep_b_WF. vm_compute. reflexivity.
  - vm_compute. intro H. discriminate.
Qed.

(* FRAME in every reachable population: after any history from a separated population, an operation
   aimed at one member (or at none: clone / select / discard) leaves the cells of every other member
   untouched *)
Lemma frame_reachable_lemma w0 ops o j b l :
  WF w0 -> nth_error (w_pop (run w0 ops)) j = Some b -> op_target o <> Some j ->
  In l (agent_locs b) -> rd (w_store (step (run w0 ops) o)) l = rd (w_store (run w0 ops)) l.
Proof. intros H. apply step_frame. apply run_WF; auto. Qed.

Lemma frame_agent_reachable_lemma w0 ops o j b :
  WF w0 -> nth_error (w_pop (run w0 ops)) j = Some b -> op_target o <> Some j ->
  match o with
  | Select _ _ _ | Discard _ => True
  | _ => nth_error (w_pop (step (run w0 ops) o)) j = Some b
  end.
Proof. intros H. apply step_frame_agent. apply run_WF; auto. Qed.

(* ---------------------------------------------------------------------------------------------- *)
(* FAITHFUL for every registry: outside the blocks the hooks re-synchronise, the copy equals the parent *)

Definition keep_out (K : list key) (bs : blocks) : blocks := filter (fun kv => negb (key_in (fst kv) K)) bs.

Definition same_meta (a a' : agent) : Prop :=
  a_mut a' = a_mut a /\ a_arch a' = a_arch a /\ a_hps a' = a_hps a /\ a_reg a' = a_reg a /\
  map (fun o => (o_name o, o_lr o)) (a_opts a') = map (fun o => (o_name o, o_lr o)) (a_opts a).

Definition keeps_at (K : list key) (f : lstate -> lstate) (x : lstate) : Prop :=
  NoDup (agent_locs (snd x)) -> bounded (fst x) (agent_locs (snd x)) ->
    map fst (a_blocks (snd (f x))) = map fst (a_blocks (snd x)) /\
    keep_out K (a_blocks (snd (f x))) = keep_out K (a_blocks (snd x)) /\
    (forall l, In l (locs_of (keep_out K (a_blocks (snd x)))) -> rd (fst (f x)) l = rd (fst x) l) /\
    same_meta (snd x) (snd (f x)).
Definition keeps (K : list key) (f : lstate -> lstate) : Prop := forall x, keeps_at K f x.

Lemma same_meta_refl a : same_meta a a.
Proof. repeat split. Qed.
Lemma same_meta_trans a b c : same_meta a b -> same_meta b c -> same_meta a c.
Proof. intros (A1 & A2 & A3 & A4 & A5) (B1 & B2 & B3 & B4 & B5). repeat split; congruence. Qed.

Lemma key_eqb_eq k k' : key_eqb k k' = true -> k = k'.
Proof.
  unfold key_eqb. rewrite andb_true_iff, !N.eqb_eq. destruct k, k'; cbn. intros [-> ->]; reflexivity.
Qed.

Lemma key_in_eqb k k' K : key_eqb k k' = true -> key_in k K = true -> key_in k' K = true.
Proof. intros E. apply key_eqb_eq in E. subst. auto. Qed.

Lemma keep_out_incl K bs l : In l (locs_of (keep_out K bs)) -> In l (locs_of bs).
Proof.
  unfold locs_of, keep_out. induction bs as [|kv r IH]; cbn [filter map concat]; auto.
  destruct (negb (key_in (fst kv) K)); cbn [map concat]; intros H.
  - apply in_app_or in H as [H|H]; apply in_or_app; auto.
  - apply in_or_app; auto.
Qed.

Lemma keep_out_setb K k v bs : key_in k K = true -> keep_out K (setb k v bs) = keep_out K bs.
Proof.
  intros HK. unfold keep_out. induction bs as [|kv r IH]; cbn [setb filter]; auto.
  destruct (key_eqb k (fst kv)) eqn:E; cbn [filter fst].
  - rewrite (key_in_eqb _ _ _ E HK). reflexivity.
  - rewrite IH. reflexivity.
Qed.

Lemma getb_keep_out_disjoint K k bs l : NoDup (locs_of bs) -> key_in k K = true ->
  In l (getb k bs) -> ~ In l (locs_of (keep_out K bs)).
Proof.
  unfold locs_of, keep_out. induction bs as [|kv r IH]; cbn [getb filter map concat]; intros ND HK Hg; auto.
  destruct (NoDup_app_inv _ _ ND) as (N1 & N2 & D).
  destruct (key_eqb k (fst kv)) eqn:E.
  - rewrite (key_in_eqb _ _ _ E HK). cbn [negb]. intro H. apply (D l Hg). apply (keep_out_incl K r l H).
  - destruct (negb (key_in (fst kv) K)); cbn [map concat]; intro H.
    + apply in_app_or in H as [H|H].
      * apply (D l H). apply (getb_incl k r l Hg).
      * apply (IH N2 HK Hg H).
    + apply (IH N2 HK Hg H).
Qed.

Lemma bounded_in s ls l : bounded s ls -> In l ls -> l < s_next s.
Proof. unfold bounded. rewrite Forall_forall. auto. Qed.

Lemma keeps_id K : keeps K (fun x => x).
Proof. intros x _ _. repeat split; auto. Qed.

Lemma keeps_comp K f g : local_ok f -> keeps K f -> keeps K g -> keeps K (fun x => g (f x)).
Proof.
  intros Lf Hf Hg x ND B.
  destruct (Hf x ND B) as (F1 & F2 & F3 & F4).
  destruct (Lf x) as (L1 & L2 & L3 & _).
  assert (ND' : NoDup (agent_locs (snd (f x)))) by (apply L3; auto).
  assert (B' : bounded (fst (f x)) (agent_locs (snd (f x)))).
  { apply Forall_forall. intros l Hl. destruct (L2 l Hl) as [H|H]; [pose proof (bounded_in _ _ _ B H)|]; lia. }
  destruct (Hg (f x) ND' B') as (G1 & G2 & G3 & G4).
  split; [congruence|]. split; [congruence|]. split.
  - intros l Hl. rewrite G3; [apply F3; auto|]. rewrite F2. auto.
  - eapply same_meta_trans; eauto.
Qed.

Lemma keeps_dep K (F : lstate -> lstate -> lstate) : (forall y, keeps K (F y)) -> keeps K (fun x => F x x).
Proof. intros H x. exact (H x x). Qed.

Lemma keeps_if K (b : lstate -> bool) f g : keeps K f -> keeps K g -> keeps K (fun x => if b x then f x else g x).
Proof. intros Hf Hg x. unfold keeps_at. destruct (b x); [apply Hf|apply Hg]. Qed.

Lemma keeps_seqL K fs : Forall (fun f => local_ok f /\ keeps K f) fs -> keeps K (seqL fs).
Proof.
  unfold seqL. induction fs as [|f r IH]; intros H; cbn [fold_left].
  - apply keeps_id.
  - inversion H as [|? ? [Lf Kf] Hr]; subst.
    apply (keeps_comp K f (fun x => fold_left (fun st g => g st) r x)); auto.
Qed.

Lemma keeps_realloc K k srcs : key_in k K = true -> keeps K (realloc k srcs).
Proof.
  intros HK [s a] ND B. unfold realloc. cbn [fst snd] in *.
  pose proof (alloc_frame srcs s) as HF.
  destruct (alloc s srcs) as [s' ls]. cbn [fst snd with_blocks a_blocks] in *.
  split; [apply setb_keys|]. split; [apply keep_out_setb; auto|]. split.
  - intros l Hl. apply HF. apply (bounded_in _ _ _ B). apply (keep_out_incl K _ l Hl).
  - repeat split.
Qed.

Lemma keeps_wfresh K k : key_in k K = true -> keeps K (wfresh k).
Proof.
  intros HK [s a] ND B. unfold wfresh. cbn [fst snd] in *. repeat split; auto.
  intros l Hl. apply write_fresh_frame. intro H. apply (getb_keep_out_disjoint K k _ l ND HK H Hl).
Qed.

Lemma keeps_wcopy K kd ks : key_in kd K = true -> keeps K (wcopy kd ks).
Proof.
  intros HK [s a] ND B. unfold wcopy. cbn [fst snd] in *.
  destruct (Nat.eqb _ _); cbn [fst snd]; repeat split; auto.
  intros l Hl. apply write_copy_frame. intro H. apply (getb_keep_out_disjoint K kd _ l ND HK H Hl).
Qed.

Lemma keeps_pure K f : (forall a, a_blocks (f a) = a_blocks a) -> (forall a, same_meta a (f a)) -> keeps K (pure f).
Proof. intros Hb Hm [s a] _ _. unfold pure. cbn [fst snd]. rewrite Hb. repeat split; auto; apply Hm. Qed.

Lemma key_in_cons k K k' : key_in k K = true -> key_in k (k' :: K) = true.
Proof. intros H. unfold key_in in *. cbn [existsb]. rewrite H. apply orb_true_r. Qed.

Lemma key_eqb_refl k : key_eqb k k = true.
Proof. unfold key_eqb. rewrite !N.eqb_refl. reflexivity. Qed.

Lemma key_in_In k K : In k K -> key_in k K = true.
Proof.
  unfold key_in. intros H. apply existsb_exists. exists k. split; auto. apply key_eqb_refl.
Qed.

Lemma keeps_run_hook K h : (forall k, In k (hook_keys h) -> key_in k K = true) -> local_ok (run_hook h) /\ keeps K (run_hook h).
Proof.
  intros HK. split; [apply local_ok_run_hook|].
  destruct h as [e t|p others|]; unfold run_hook; cbn [hook_keys] in HK.
  - apply (keeps_if K (fun x => Nat.eqb (length (blk (snd x) (t, cEnc))) (length (blk (snd x) (e, cEnc))) &&
                               Nat.eqb (length (blk (snd x) (t, cHead))) (length (blk (snd x) (e, cHead))) &&
                               Nat.eqb (length (blk (snd x) (t, cBuf))) (length (blk (snd x) (e, cBuf))))).
    + apply keeps_seqL.
      constructor; [split; [apply local_ok_wcopy|apply keeps_wcopy; apply HK; cbn; auto]|].
      constructor; [split; [apply local_ok_wcopy|apply keeps_wcopy; apply HK; cbn; auto]|].
      constructor; [split; [apply local_ok_wcopy|apply keeps_wcopy; apply HK; cbn; auto]|constructor].
    + apply keeps_id.
  - apply keeps_seqL. apply Forall_forall. intros f Hf. apply in_flat_map in Hf as (o & Ho & Hf).
    assert (K1 : key_in (o, cHenc) K = true) by (apply HK; apply in_flat_map; exists o; cbn; auto).
    assert (K2 : key_in (o, cEnc) K = true) by (apply HK; apply in_flat_map; exists o; cbn; auto).
    assert (K3 : key_in (o, cBuf) K = true) by (apply HK; apply in_flat_map; exists o; cbn; auto).
    destruct Hf as [<-|[<-|[<-|[]]]].
    + split.
      * apply (local_ok_dep (fun y => realloc (o, cHenc) (map CopyOf (blk (snd y) (p, cEnc))))). intros; apply local_ok_realloc.
      * apply (keeps_dep K (fun y => realloc (o, cHenc) (map CopyOf (blk (snd y) (p, cEnc))))). intros; apply keeps_realloc; auto.
    + split; [apply local_ok_realloc|apply keeps_realloc; auto].
    + split; [apply local_ok_wfresh|apply keeps_wfresh; auto].
  - apply (keeps_dep K (fun y => realloc kExt (map (fun _ => FreshV) (blk (snd y) kExt)))). intros; apply keeps_realloc.
    apply HK. cbn; auto.
Qed.

Lemma keeps_run_hooks_at K x : (forall k, In k (resync_keys (a_reg (snd x))) -> key_in k K = true) -> keeps_at K run_hooks x.
Proof.
  intros HK. unfold run_hooks.
  apply (keeps_seqL K (map run_hook (r_hooks (a_reg (snd x))))).
  apply Forall_forall. intros f Hf. apply in_map_iff in Hf as (h & <- & Hh).
  apply keeps_run_hook. intros k Hk. apply HK. unfold resync_keys. apply in_flat_map. exists h. auto.
Qed.

Lemma fix_refs_meta a : same_meta a (fix_refs a).
Proof. repeat split. apply fix_refs_view. Qed.

Lemma contf_keep_out K g g0 : forall bs bs0,
  map fst bs = map fst bs0 ->
  map (fun kv => map g (snd kv)) bs = map (fun kv => map g0 (snd kv)) bs0 ->
  contf g (keep_out K bs) = contf g0 (keep_out K bs0).
Proof.
  unfold keep_out. induction bs as [|kv r IH]; intros [|kv0 r0] HK HC; cbn in *; try discriminate; auto.
  injection HK as K1 K2. injection HC as C1 C2. rewrite K1.
  destruct (negb (key_in (fst kv0) K)); cbn [contf map]; [rewrite K1, C1; f_equal|]; apply IH; auto.
Qed.

Lemma getb_setb_same k v : forall bs, In k (map fst bs) -> getb k (setb k v bs) = v.
Proof.
  induction bs as [|kv r IH]; cbn [map In setb getb]; [contradiction|]. intros H.
  destruct (key_eqb k (fst kv)) eqn:E; cbn [getb fst snd].
  - rewrite E. reflexivity.
  - rewrite E. apply IH. destruct H as [H|H]; auto. subst. rewrite key_eqb_refl in E. discriminate.
Qed.

(* FAITHFUL, general form.  K = the blocks that the registry's hooks re-synchronise on a copy (DQN: the target
   network; shared encoders: the detached encoder copies; bandits: the ext tensors) plus the ext block, which
   is treated separately (third clause).  Outside K the copy has the same block structure and the same content
   in every cell as its parent; its label, architectures, hyper-parameters, registry and optimizer settings
   are the parent's. *)
Theorem clone_faithful_lemma idx s a :
  bounded s (agent_locs a) ->
  let r := clone_agent idx s a in
  let K := kExt :: resync_keys (a_reg a) in
  map fst (a_blocks (snd r)) = map fst (a_blocks a) /\
  contents (fst r) (keep_out K (a_blocks (snd r))) = contents s (keep_out K (a_blocks a)) /\
  (In kExt (map fst (a_blocks a)) -> map (rd (fst r)) (blk (snd r) kExt) = map (rd s) (blk a kExt)) /\
  same_meta a (snd r).
Proof.
  intros B. cbn zeta. rewrite clone_agent_unfold.
  destruct (copy_blocks_spec (a_blocks a) s) as (C1 & C2 & C3 & C4 & C5).
  set (s1 := fst (copy_blocks s (a_blocks a))) in *.
  set (bs := snd (copy_blocks s (a_blocks a))) in *.
  set (K := kExt :: resync_keys (a_reg a)).
  set (x0 := (s1, with_blocks a bs)).
  assert (ND0 : NoDup (agent_locs (snd x0))).
  { unfold x0, agent_locs. cbn [snd with_blocks a_blocks]. fold (locs_of bs). rewrite C1. apply nseq_NoDup. }
  assert (B0 : bounded (fst x0) (agent_locs (snd x0))).
  { unfold x0, agent_locs. cbn [fst snd with_blocks a_blocks]. fold (locs_of bs). rewrite C1.
    apply Forall_forall. intros l Hl. apply in_nseq in Hl. lia. }
  (* hooks *)
  assert (KH : keeps_at K run_hooks x0).
  { apply keeps_run_hooks_at. intros k Hk. apply key_in_cons. apply key_in_In. exact Hk. }
  destruct (KH ND0 B0) as (H1 & H2 & H3 & H4).
  destruct (local_ok_run_hooks x0) as (L1 & L2 & L3 & L4).
  set (x1 := run_hooks x0) in *.
  (* fix_refs, then the ext block is re-allocated as a copy of the parent's, then the index is set *)
  unfold clone_tail. fold x0. fold x1. unfold pure, realloc. cbn [fst snd].
  assert (Bext : Forall (fun l => l < s_next (fst x1)) (blk a kExt)).
  { apply Forall_forall. intros l Hl. pose proof (bounded_in _ _ _ B (getb_incl _ _ _ Hl)).
    assert (s_next s1 <= s_next (fst x1)) by exact L1. lia. }
  pose proof (alloc_frame (map CopyOf (blk a kExt)) (fst x1)) as HF.
  pose proof (alloc_copy_content (blk a kExt) (fst x1) Bext) as HC.
  destruct (alloc (fst x1) (map CopyOf (blk a kExt))) as [s3 ls]. cbn [fst snd] in *.
  assert (Hblocks : forall c, a_blocks (match idx with Some i => with_index c i | None => c end) = a_blocks c)
    by (intros c; destruct idx; reflexivity).
  assert (Hmeta : forall c, same_meta c (match idx with Some i => with_index c i | None => c end))
    by (intros c; destruct idx; repeat split).
  rewrite Hblocks. cbn [with_blocks a_blocks fix_refs with_opts].
  assert (B1 : forall l, In l (agent_locs (snd x1)) -> l < s_next (fst x1)).
  { intros l Hl. destruct (L2 l Hl) as [H|H]; [pose proof (bounded_in _ _ _ B0 H)|]; lia. }
  split; [|split; [|split]].
  - rewrite setb_keys, H1. exact C3.
  - rewrite keep_out_setb by (unfold K, key_in; cbn [existsb]; rewrite key_eqb_refl; reflexivity).
    rewrite H2. unfold x0. cbn [snd with_blocks a_blocks].
    rewrite !contents_contf.
    transitivity (contf (rd s1) (keep_out K bs)).
    + unfold contf. apply map_ext_in. intros kv Hkv. f_equal. apply map_ext_in. intros l Hl.
      assert (Hin : In l (locs_of (keep_out K bs))).
      { unfold locs_of. apply in_concat. exists (snd kv). split; auto. apply in_map; auto. }
      rewrite HF.
      * apply (H3 l). unfold x0. cbn [snd with_blocks a_blocks]. exact Hin.
      * apply B1. unfold agent_locs. rewrite <- (setb_keys (0,0) [] (a_blocks (snd x1))) in H1.
        assert (In l (locs_of (keep_out K (a_blocks (snd x1))))) by (rewrite H2; exact Hin).
        apply (keep_out_incl K _ l H).
    + apply contf_keep_out; auto.
  - intros Hk. unfold blk. rewrite ?Hblocks. cbn [with_blocks a_blocks].
    rewrite getb_setb_same by (rewrite H1; unfold x0; cbn [snd with_blocks a_blocks]; rewrite C3; exact Hk).
    rewrite HC. apply map_ext_in. intros l Hl.
    pose proof (bounded_in _ _ _ B (getb_incl _ _ _ Hl)) as Hb.
    rewrite L4.
    + apply C4; auto.
    + unfold x0. cbn [fst]. lia.
    + unfold x0, agent_locs. cbn [snd with_blocks a_blocks]. fold (locs_of bs). rewrite C1. intro H. apply in_nseq in H. lia.
  - eapply same_meta_trans; [|apply Hmeta].
    eapply same_meta_trans; [|apply (fix_refs_meta (snd x1))] .
    eapply same_meta_trans; [|exact H4]. unfold x0. cbn [snd]. repeat split.
Qed.

(* ---------------------------------------------------------------------------------------------- *)
(* The exception the property allows, made precise: with the DQN hook the copy's target network holds the
   content of the (copy's = parent's) online network *)

Lemma getb_parts (g g0 : loc -> cval) k : forall bs bs0 : blocks,
  map fst bs = map fst bs0 ->
  map (fun kv => map g (snd kv)) bs = map (fun kv => map g0 (snd kv)) bs0 ->
  map g (getb k bs) = map g0 (getb k bs0).
Proof.
  induction bs as [|kv r IH]; intros [|kv0 r0] HK HC; cbn in *; try discriminate; auto.
  injection HK as K1 K2. injection HC as C1 C2. rewrite K1. destruct (key_eqb k (fst kv0)); auto.
Qed.

Lemma getb_NoDup k bs : NoDup (locs_of bs) -> NoDup (getb k bs).
Proof.
  unfold locs_of. induction bs as [|kv r IH]; cbn [getb map concat]; intros ND; [constructor|].
  destruct (NoDup_app_inv _ _ ND) as (N1 & N2 & _). destruct (key_eqb k (fst kv)); auto.
Qed.

Lemma getb_disjoint k k' bs l : NoDup (locs_of bs) -> k <> k' -> In l (getb k bs) -> ~ In l (getb k' bs).
Proof.
  unfold locs_of. induction bs as [|kv r IH]; cbn [getb map concat]; intros ND Hne H; auto.
  destruct (NoDup_app_inv _ _ ND) as (N1 & N2 & D).
  destruct (key_eqb k (fst kv)) eqn:E, (key_eqb k' (fst kv)) eqn:E'.
  - apply key_eqb_eq in E. apply key_eqb_eq in E'. congruence.
  - intro H'. apply (D l H). apply (getb_incl k' r l H').
  - intro H'. apply (D l H'). apply (getb_incl k r l H).
  - apply IH; auto.
Qed.

Lemma getb_setb_other k k' v : forall bs, key_eqb k k' = false -> getb k (setb k' v bs) = getb k bs.
Proof.
  induction bs as [|kv r IH]; intros E; cbn [setb getb]; auto.
  destruct (key_eqb k' (fst kv)) eqn:E1; cbn [getb fst snd].
  - destruct (key_eqb k (fst kv)) eqn:E2; auto.
    apply key_eqb_eq in E1. apply key_eqb_eq in E2. subst. rewrite key_eqb_refl in E. discriminate.
  - rewrite IH; auto.
Qed.

Lemma wcopy_spec kd ks s a :
  NoDup (agent_locs a) -> length (blk a kd) = length (blk a ks) ->
  snd (wcopy kd ks (s, a)) = a /\
  s_next (fst (wcopy kd ks (s, a))) = s_next s /\
  map (rd (fst (wcopy kd ks (s, a)))) (blk a kd) = map (rd s) (blk a ks) /\
  (forall l, ~ In l (blk a kd) -> rd (fst (wcopy kd ks (s, a))) l = rd s l).
Proof.
  intros ND HL. unfold wcopy, blk in *. cbn [fst snd]. rewrite HL, Nat.eqb_refl. cbn [fst snd].
  split; auto. split; [apply write_copy_next|]. split.
  - apply write_copy_content; auto. apply getb_NoDup. exact ND.
  - intros l Hl. apply write_copy_frame; auto.
Qed.

Theorem clone_target_resynced_lemma idx s a e t :
  r_hooks (a_reg a) = [HSync e t] -> e <> t -> bounded s (agent_locs a) ->
  length (blk a (t, cEnc)) = length (blk a (e, cEnc)) ->
  length (blk a (t, cHead)) = length (blk a (e, cHead)) ->
  length (blk a (t, cBuf)) = length (blk a (e, cBuf)) ->
  let r := clone_agent idx s a in
  map (rd (fst r)) (blk (snd r) (t, cEnc)) = map (rd s) (blk a (e, cEnc)) /\
  map (rd (fst r)) (blk (snd r) (t, cHead)) = map (rd s) (blk a (e, cHead)) /\
  map (rd (fst r)) (blk (snd r) (t, cBuf)) = map (rd s) (blk a (e, cBuf)).
Proof.
  intros HH Hne B LE LH LB. cbn zeta. rewrite clone_agent_unfold.
  destruct (copy_blocks_spec (a_blocks a) s) as (C1 & C2 & C3 & C4 & C5).
  set (s1 := fst (copy_blocks s (a_blocks a))) in *.
  set (bs := snd (copy_blocks s (a_blocks a))) in *.
  set (a0 := with_blocks a bs).
  assert (ND0 : NoDup (agent_locs a0)).
  { unfold a0, agent_locs. cbn [with_blocks a_blocks]. fold (locs_of bs). rewrite C1. apply nseq_NoDup. }
  assert (Hlen : forall k, length (blk a0 k) = length (blk a k)).
  { intros k. unfold blk, a0. cbn [with_blocks a_blocks].
    rewrite <- (map_length (rd s1) (getb k bs)), <- (map_length (rd s) (getb k (a_blocks a))).
    f_equal. apply getb_parts; [exact C3|exact (C5 B)]. }
  assert (Hcont : forall k, map (rd s1) (blk a0 k) = map (rd s) (blk a k)).
  { intros k. unfold blk, a0. cbn [with_blocks a_blocks]. apply getb_parts; [exact C3|exact (C5 B)]. }
  (* the hook on the copy: three in-place copies *)
  assert (Hreg : a_reg a0 = a_reg a) by reflexivity.
  fold a0. unfold clone_tail, run_hooks. cbn [snd]. rewrite Hreg, HH. cbn [map seqL fold_left run_hook].
  cbn [snd].
  rewrite !Hlen, LE, LH, LB, !Nat.eqb_refl. cbn [andb seqL fold_left].
  destruct (wcopy_spec (t, cEnc) (e, cEnc) s1 a0 ND0) as (W1a & W1n & W1c & W1f); [rewrite !Hlen; auto|].
  set (x1 := wcopy (t, cEnc) (e, cEnc) (s1, a0)) in *.
  assert (E1 : x1 = (fst x1, a0)) by (rewrite <- W1a; destruct x1; reflexivity).
  rewrite E1.
  destruct (wcopy_spec (t, cHead) (e, cHead) (fst x1) a0 ND0) as (W2a & W2n & W2c & W2f); [rewrite !Hlen; auto|].
  set (x2 := wcopy (t, cHead) (e, cHead) (fst x1, a0)) in *.
  assert (E2 : x2 = (fst x2, a0)) by (rewrite <- W2a; destruct x2; reflexivity).
  rewrite E2.
  destruct (wcopy_spec (t, cBuf) (e, cBuf) (fst x2) a0 ND0) as (W3a & W3n & W3c & W3f); [rewrite !Hlen; auto|].
  set (x3 := wcopy (t, cBuf) (e, cBuf) (fst x2, a0)) in *.
  assert (E3 : x3 = (fst x3, a0)) by (rewrite <- W3a; destruct x3; reflexivity).
  rewrite E3.
  (* fix_refs, ext re-allocation, index: do not touch the network blocks *)
  unfold pure, realloc. cbn [fst snd].
  pose proof (alloc_frame (map CopyOf (blk a kExt)) (fst x3)) as HF.
  destruct (alloc (fst x3) (map CopyOf (blk a kExt))) as [s4 ls]. cbn [fst snd] in *.
  assert (Hb : forall c, c = cEnc \/ c = cHead \/ c = cBuf ->
            blk (match idx with Some i => with_index (with_blocks (fix_refs a0) (setb kExt ls (a_blocks (fix_refs a0)))) i
                          | None => with_blocks (fix_refs a0) (setb kExt ls (a_blocks (fix_refs a0))) end) (t, c) = blk a0 (t, c)).
  { intros c Hc. unfold blk. destruct idx; cbn [with_index with_blocks a_blocks fix_refs with_opts];
      apply getb_setb_other; destruct Hc as [ -> | [ -> | -> ] ]; unfold key_eqb; cbn [fst snd kExt]; apply andb_false_r. }
  assert (Hnext : s_next (fst x3) = s_next s1) by (rewrite W3n, W2n, W1n; reflexivity).
  assert (Hlt : forall k l, In l (blk a0 k) -> l < s_next (fst x3)).
  { intros k l Hl. rewrite Hnext. unfold blk, a0 in Hl. cbn [with_blocks a_blocks] in Hl.
    apply getb_incl in Hl. rewrite C1 in Hl. apply in_nseq in Hl. lia. }
  assert (Dis : forall k k' l, k <> k' -> In l (blk a0 k) -> ~ In l (blk a0 k')).
  { intros k k' l Hk Hl. unfold blk in *. apply (getb_disjoint k k' _ l ND0 Hk Hl). }
  assert (Hs : forall c c' : N, ((t, c) : key) <> (e, c')) by (intros c c' H; injection H; intros; congruence).
  split; [|split]; rewrite Hb by auto.
  - transitivity (map (rd (fst x1)) (blk a0 (t, cEnc))).
    + apply map_ext_in. intros l Hl. rewrite HF by (eapply Hlt; eauto).
      rewrite W3f by (apply (Dis (t, cEnc) (t, cBuf) l); [discriminate|auto]).
      apply W2f. apply (Dis (t, cEnc) (t, cHead) l); [discriminate|auto].
    + rewrite W1c. apply Hcont.
  - transitivity (map (rd (fst x2)) (blk a0 (t, cHead))).
    + apply map_ext_in. intros l Hl. rewrite HF by (eapply Hlt; eauto).
      apply W3f. apply (Dis (t, cHead) (t, cBuf) l); [discriminate|auto].
    + rewrite W2c. rewrite <- Hcont. apply map_ext_in. intros l Hl.
      apply W1f. apply (Dis (e, cHead) (t, cEnc) l); [intro H; apply (Hs cEnc cHead); symmetry; exact H|exact Hl].
  - transitivity (map (rd (fst x3)) (blk a0 (t, cBuf))).
    + apply map_ext_in. intros l Hl. apply HF. eapply Hlt; eauto.
    + rewrite W3c. rewrite <- Hcont. apply map_ext_in. intros l Hl.
      rewrite W2f by (apply (Dis (e, cBuf) (t, cHead) l); [intro H; apply (Hs cHead cBuf); symmetry; exact H|exact Hl]).
      apply W1f. apply (Dis (e, cBuf) (t, cEnc) l); [intro H; apply (Hs cEnc cBuf); symmetry; exact H|exact Hl].
Qed.

(* ---------------------------------------------------------------------------------------------- *)
(* Deepening: tournament selection produces a population made of new cells only; behaviour that does not read
   the re-synchronised blocks is the same for parent and copy under every registry *)

Definition tail_fresh (n : nat) (N0 : loc) (w : world) : Prop :=
  forall i a, (n <= i)%nat -> nth_error (w_pop w) i = Some a -> forall l, In l (agent_locs a) -> N0 <= l.

Lemma clone_into_tail_fresh n N0 i idx w :
  tail_fresh n N0 w -> N0 <= s_next (w_store w) -> (n <= length (w_pop w))%nat ->
  tail_fresh n N0 (clone_into clone_agent i idx w) /\
  N0 <= s_next (w_store (clone_into clone_agent i idx w)) /\
  (n <= length (w_pop (clone_into clone_agent i idx w)))%nat.
Proof.
  intros T HN HL. pose proof (clone_into_next i idx w) as Hnext.
  split; [|split; [lia|]].
  - unfold clone_into in *. destruct (nth_error (w_pop w) i) as [a|]; auto.
    destruct (clone_spec idx (w_store w) a) as (_ & C2 & _).
    destruct (clone_agent idx (w_store w) a) as [s' c]. cbn [fst snd w_pop w_store] in *.
    intros j b Hj Hb l Hl. cbn [w_pop] in Hb. destruct (Nat.lt_ge_cases j (length (w_pop w))) as [Hlt|Hge].
    + rewrite nth_error_app1 in Hb by auto. eapply T; eauto.
    + rewrite nth_error_app2 in Hb by auto. destruct (j - length (w_pop w))%nat as [|k]; cbn in Hb.
      * injection Hb as <-. specialize (C2 l Hl). lia.
      * destruct k; discriminate.
  - unfold clone_into. destruct (nth_error (w_pop w) i) as [a|]; auto.
    destruct (clone_agent idx (w_store w) a) as [s' c]. cbn [w_pop]. rewrite app_length. lia.
Qed.

Lemma clone_winners_tail_fresh n N0 : forall ws id old w,
  tail_fresh n N0 w -> N0 <= s_next (w_store w) -> (n <= length (w_pop w))%nat ->
  tail_fresh n N0 (clone_winners ws id old w).
Proof.
  induction ws as [|i r IH]; intros id old w T HN HL; cbn [clone_winners]; auto.
  destruct (clone_into_tail_fresh n N0 i (Some (N.succ id)) w T HN HL) as (T' & HN' & HL').
  apply IH; auto.
Qed.

Lemma in_skipn_nth {A} (x : A) : forall k l, In x (skipn k l) -> exists i, (k <= i)%nat /\ nth_error l i = Some x.
Proof.
  induction k as [|k IH]; intros l H.
  - apply In_nth_error in H as (i & Hi). exists i. split; [lia|auto].
  - destruct l as [|h t]; [contradiction|]. cbn [skipn] in H. destruct (IH t H) as (i & Hi & E).
    exists (S i). split; [lia|auto].
Qed.

Lemma in_firstn_in {A} (x : A) : forall k l, In x (firstn k l) -> In x l.
Proof. induction k as [|k IH]; intros [|h t] H; cbn in *; try contradiction. destruct H; auto. Qed.

(* every member of the population returned by a tournament (new population and elite) owns only cells that did
   not exist before the tournament: (clone, clone) and (parent, clone) pairs are disjoint from the old generation *)
Theorem select_fresh_lemma e ws el w a l :
  In a (w_pop (select e ws el w)) -> In l (agent_locs a) -> s_next (w_store w) <= l.
Proof.
  unfold select. cbn [w_pop]. set (n := length (w_pop w)). set (N0 := s_next (w_store w)).
  intros Ha Hl.
  assert (T0 : tail_fresh n N0 w).
  { intros i b Hi Hb. exfalso. assert (nth_error (w_pop w) i <> None) by congruence.
    apply nth_error_Some in H. unfold n in Hi. lia. }
  destruct (clone_into_tail_fresh n N0 e None w T0 (N.le_refl _) (Nat.le_refl _)) as (T1 & N1 & L1).
  set (w1 := clone_into clone_agent e None w) in *.
  assert (T2 : tail_fresh n N0 (if el then clone_into clone_agent n None w1 else w1) /\
               N0 <= s_next (w_store (if el then clone_into clone_agent n None w1 else w1)) /\
               (n <= length (w_pop (if el then clone_into clone_agent n None w1 else w1)))%nat).
  { destruct el; auto. apply clone_into_tail_fresh; auto. }
  destruct T2 as (T2 & N2 & L2).
  pose proof (clone_winners_tail_fresh n N0 ws (max_index (w_pop w)) n _ T2 N2 L2) as T3.
  set (w3 := clone_winners ws (max_index (w_pop w)) n (if el then clone_into clone_agent n None w1 else w1)) in *.
  apply in_app_or in Ha as [Ha|Ha].
  - destruct (in_skipn_nth a _ _ Ha) as (i & Hi & E). apply (T3 i a); auto; lia.
  - apply in_firstn_in in Ha. destruct (in_skipn_nth a _ _ Ha) as (i & Hi & E). apply (T3 i a); auto.
Qed.

(* behaviour that reads only what lies outside the re-synchronised blocks (e.g. the greedy action of DQN reads the
   online network, never the target) is the same for parent and copy under EVERY registry *)
Definition view_outside (s : store) (a : agent) : (N * list (name * N) * list (name * Q) * registry * list (name * Q)) * list (key * list cval) :=
  ((a_mut a, a_arch a, a_hps a, a_reg a, map (fun o => (o_name o, o_lr o)) (a_opts a)),
   contents s (keep_out (kExt :: resync_keys (a_reg a)) (a_blocks a))).

Section SameBehaviourOutside.
  Variable B : Type.
  Variable behaviour : (N * list (name * N) * list (name * Q) * registry * list (name * Q)) * list (key * list cval) -> B.
  Lemma same_behaviour_outside_lemma idx s a :
    bounded s (agent_locs a) ->
    behaviour (view_outside (fst (clone_agent idx s a)) (snd (clone_agent idx s a))) = behaviour (view_outside s a).
  Proof.
    intros Bd. destruct (clone_faithful_lemma idx s a Bd) as (_ & C & _ & (M1 & M2 & M3 & M4 & M5)).
    unfold view_outside. rewrite M1, M2, M3, M4, M5, C. reflexivity.
  Qed.
End SameBehaviourOutside.

(* "cloning any agent at any point of its life": the faithfulness theorem applies to every member of every
   population reachable from a separated one *)
Lemma reachable_bounded w0 ops i a :
  WF w0 -> nth_error (w_pop (run w0 ops)) i = Some a -> bounded (w_store (run w0 ops)) (agent_locs a).
Proof.
  intros H Hi. destruct (run_WF ops w0 H) as [_ B]. apply Forall_forall. intros l Hl.
  unfold bounded in B. rewrite Forall_forall in B. apply B. apply (in_all_locs _ i a l Hi Hl).
Qed.

Theorem clone_faithful_reachable_lemma w0 ops i a idx :
  WF w0 -> nth_error (w_pop (run w0 ops)) i = Some a ->
  let s := w_store (run w0 ops) in
  let r := clone_agent idx s a in
  let K := kExt :: resync_keys (a_reg a) in
  map fst (a_blocks (snd r)) = map fst (a_blocks a) /\
  contents (fst r) (keep_out K (a_blocks (snd r))) = contents s (keep_out K (a_blocks a)) /\
  (In kExt (map fst (a_blocks a)) -> map (rd (fst r)) (blk (snd r) kExt) = map (rd s) (blk a kExt)) /\
  same_meta a (snd r).
Proof. intros H Hi. apply clone_faithful_lemma. eapply reachable_bounded; eauto. Qed.

(* ---------------------------------------------------------------------------------------------- *)
(* Deepening round 3: generations of copies.  A copy of a copy (a training function called again on what it returned:
   elite = best.clone(); member = elite.clone()) is a faithful copy of the original, and so is any chain of copies *)

Lemma clone_bounded idx s a : bounded (fst (clone_agent idx s a)) (agent_locs (snd (clone_agent idx s a))).
Proof.
  destruct (clone_spec idx s a) as (_ & C2 & _). apply Forall_forall. intros l Hl. specialize (C2 l Hl). lia.
Qed.

Lemma clone_reg_nohooks idx s a : r_hooks (a_reg a) = [] -> bounded s (agent_locs a) ->
  a_reg (snd (clone_agent idx s a)) = a_reg a.
Proof.
  intros HH B. pose proof (clone_faithful_nohooks_lemma idx s a HH B) as E.
  apply (f_equal v_reg) in E. exact E.
Qed.

(* [clone_chain idxs s a]: clone a, clone the clone, ... once per element of idxs *)
Fixpoint clone_chain (idxs : list (option N)) (s : store) (a : agent) : store * agent :=
  match idxs with
  | [] => (s, a)
  | i :: r => let x := clone_agent i s a in clone_chain r (fst x) (snd x)
  end.

Theorem clone_chain_faithful_lemma : forall idxs s a,
  r_hooks (a_reg a) = [] -> bounded s (agent_locs a) ->
  abs (fst (clone_chain idxs s a)) (snd (clone_chain idxs s a)) = abs s a.
Proof.
  induction idxs as [|i r IH]; intros s a HH B; cbn [clone_chain fst snd]; auto.
  rewrite IH.
  - apply clone_faithful_nohooks_lemma; auto.
  - rewrite clone_reg_nohooks; auto.
  - apply clone_bounded.
Qed.

(* every copy in the chain is made of new cells *)
Theorem clone_chain_fresh_lemma : forall idxs s a l,
  idxs <> [] -> In l (agent_locs (snd (clone_chain idxs s a))) -> s_next s <= l.
Proof.
  induction idxs as [|i r IH]; intros s a l Hne Hl; [congruence|]. cbn [clone_chain] in Hl.
  destruct (clone_spec i s a) as (C1 & C2 & _).
  destruct r as [|j r'].
  - cbn [clone_chain snd] in Hl. specialize (C2 l Hl). lia.
  - assert (Hn : s_next (fst (clone_agent i s a)) <= l) by (apply (IH (fst (clone_agent i s a)) (snd (clone_agent i s a)) l); [discriminate|exact Hl]). lia.
Qed.

(* size of the population a tournament returns: one copy per draw, one more with elitism, plus the elite object *)
Lemma clone_into_length i idx w : (i < length (w_pop w))%nat ->
  length (w_pop (clone_into clone_agent i idx w)) = S (length (w_pop w)).
Proof.
  intros H. unfold clone_into. destruct (nth_error (w_pop w) i) as [a|] eqn:E.
  - destruct (clone_agent idx (w_store w) a) as [s' c]. cbn [w_pop]. rewrite app_length. cbn. lia.
  - apply nth_error_None in E. lia.
Qed.

Lemma clone_winners_length : forall ws id old w,
  Forall (fun i => (i < length (w_pop w))%nat) ws ->
  length (w_pop (clone_winners ws id old w)) = (length (w_pop w) + length ws)%nat.
Proof.
  induction ws as [|i r IH]; intros id old w H; cbn [clone_winners length]; [lia|].
  inversion H as [|? ? Hi Hr]; subst. rewrite IH.
  - rewrite clone_into_length by auto. lia.
  - rewrite clone_into_length by auto. eapply Forall_impl; [|exact Hr]. cbn beta. intros; lia.
Qed.

Theorem select_length_lemma e ws el w :
  (e < length (w_pop w))%nat -> Forall (fun i => (i < length (w_pop w))%nat) ws ->
  length (w_pop (select e ws el w)) = (length ws + (if el then 1 else 0) + 1)%nat.
Proof.
  intros He Hws. unfold select. cbn [w_pop]. set (n := length (w_pop w)) in *.
  set (w1 := clone_into clone_agent e None w).
  assert (L1 : length (w_pop w1) = S n) by (apply clone_into_length; auto).
  set (w2 := if el then clone_into clone_agent n None w1 else w1).
  assert (L2 : length (w_pop w2) = (S n + (if el then 1 else 0))%nat).
  { unfold w2. destruct el; [rewrite clone_into_length; lia|lia]. }
  assert (L3 : length (w_pop (clone_winners ws (max_index (w_pop w)) n w2)) = (length (w_pop w2) + length ws)%nat).
  { apply clone_winners_length. eapply Forall_impl; [|exact Hws]. cbn beta. intros; lia. }
  set (p3 := w_pop (clone_winners ws (max_index (w_pop w)) n w2)) in *.
  rewrite app_length, skipn_length, firstn_length, skipn_length. destruct el; lia.
Qed.
