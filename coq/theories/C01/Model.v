(* C01/Model.v — what "faithful copy" means on the Evo model (definitions only).
   The executable model of clone / learn / mutations / select is Evo/Evo.v (shared with C02, C07);
   this file adds the abstraction function used by the C01 theorems. *)
From Coq Require Import List NArith QArith Bool.
From AgileV Require Import Evo.Heap Evo.Evo.
Import ListNotations.
Open Scope N_scope.

(* contents of every block, keyed; locations are forgotten *)
Definition contents (s : store) (bs : blocks) : list (key * list cval) :=
  map (fun kv => (fst kv, map (rd s) (snd kv))) bs.

(* everything behaviour can depend on: hyper-parameters, architecture descriptors, the contents of
   every network / optimizer-state / bookkeeping cell, optimizer settings, registry, label.
   (the index is the agent's identity in the population and is deliberately not part of it) *)
Record view := mkView { v_mut : N; v_arch : list (name * N); v_opts : list (name * Q);
                        v_hps : list (name * Q); v_reg : registry; v_cont : list (key * list cval) }.
Definition abs (s : store) (a : agent) : view :=
  mkView (a_mut a) (a_arch a) (map (fun o => (o_name o, o_lr o)) (a_opts a)) (a_hps a) (a_reg a)
         (contents s (a_blocks a)).

(* block keys a hook re-synchronises on the copy (the property allows a re-synchronised target) *)
Definition hook_keys (h : hook) : list key :=
  match h with
  | HSync e t => [(t, cEnc); (t, cHead); (t, cBuf)]
  | HShare p others => flat_map (fun o => [(o, cHenc); (o, cEnc); (o, cBuf)]) others
  | HBandit => [kExt]
  end.
Definition resync_keys (r : registry) : list key := flat_map hook_keys (r_hooks r).
Definition key_in (k : key) (ks : list key) : bool := existsb (key_eqb k) ks.
Definition contents_except (ks : list key) (s : store) (bs : blocks) : list (key * list cval) :=
  contents s (filter (fun kv => negb (key_in (fst kv) ks)) bs).
