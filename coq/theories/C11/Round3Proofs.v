(* C11 — round 3: (1) the root of a tree depends only on its current leaves (any carrier, so also binary64:
   no rounding residue of earlier, larger priorities can survive — ancestors are recomputed, not adjusted);
   (2) an update batch followed by an add: the new transitions get the maximum of the batch wherever it
   stands in the batch; (3) for a multiplicative x -> x^-beta the importance weights depend only on the ratio
   of the priorities (the factor N / total cancels). *)
From Coq Require Import List Arith Lia Bool ZArith QArith Lqa Morphisms.
Import ListNotations.
From AgileV Require Import C11.Model C11.TreeProofs C11.SumProofs C11.MinProofs C11.PerProofs.
Local Open Scope nat_scope.

Section AnyCarrier.
Context {T : Type}.
Variable op : T -> T -> T.
Variable dflt : T.

Lemma bfold_ext c (l l' : list T) : forall h lo,
  (forall k, lo <= k < lo + 2 ^ h -> leaf dflt c l k = leaf dflt c l' k) ->
  bfold op dflt c l h lo = bfold op dflt c l' h lo.
Proof.
  induction h as [|h IH]; intros lo H.
  - cbn [bfold]. apply H. cbn. lia.
  - cbn [bfold]. rewrite Nat.pow_succ_r' in H. f_equal; apply IH; intros k Hk; apply H; lia.
Qed.

(* two consistent trees with the same leaves have the same root, whatever sequences of writes produced them *)
Theorem root_depends_only_on_leaves_lemma d (l l' : list T) :
  Inv op dflt (2 ^ d) l -> Inv op dflt (2 ^ d) l' ->
  (forall k, k < 2 ^ d -> leaf dflt (2 ^ d) l k = leaf dflt (2 ^ d) l' k) ->
  root op dflt (2 ^ d) l = root op dflt (2 ^ d) l'.
Proof.
  intros I1 I2 H. rewrite !(root_is_bfold op dflt d) by assumption.
  apply bfold_ext. intros k Hk. apply H. lia.
Qed.

(* in particular: overwriting a leaf twice leaves the root the tree would have had with the last value only *)
Corollary overwrite_forgets_lemma d (l : list T) idx v w :
  Inv op dflt (2 ^ d) l -> idx < 2 ^ d ->
  root op dflt (2 ^ d) (setitem op dflt (2 ^ d) (setitem op dflt (2 ^ d) l idx v) idx w) =
  root op dflt (2 ^ d) (setitem op dflt (2 ^ d) l idx w).
Proof.
  intros HI Hi.
  pose proof (setitem_inv op dflt _ l idx v HI Hi) as I1.
  pose proof (setitem_inv op dflt _ _ idx w I1 Hi) as I2.
  pose proof (setitem_inv op dflt _ l idx w HI Hi) as I3.
  apply root_depends_only_on_leaves_lemma; auto.
  intros k Hk. destruct (Nat.eq_dec k idx) as [->|Hne].
  - rewrite !setitem_leaf_same; auto; try apply I1; apply HI.
  - rewrite !setitem_leaf_other by auto. reflexivity.
Qed.
End AnyCarrier.

Section Batch.
Variable powa : Q -> Q.
Hypothesis powa_pos : forall x, (0 < x)%Q -> (0 < powa x)%Q.

(* update_priorities(ps) then add(n): every new transition gets powa(M) where M dominates the old maximum
   and every (floored) priority of the batch and is one of them — wherever the maximum stands in the batch *)
Theorem update_then_add_lemma ps s n : per_inv s -> Forall (fun ip => fst ip < size s) ps ->
  exists s1 s2 M,
    per_update QC powa s ps = (s1, false) /\ per_add QC powa s1 n = Some s2 /\ per_inv s2 /\
    M = max_prio s1 /\ max_prio s2 = M /\
    (max_prio s <= M)%Q /\ Forall (fun ip => (floor_prio QC (snd ip) <= M)%Q) ps /\
    (M = max_prio s \/ exists ip, In ip ps /\ M = floor_prio QC (snd ip)) /\
    forall j, j < n -> leaf 0%Q (tcap s2) (sumt s2) ((tree_ptr s + j) mod max_size s) = powa M.
Proof.
  intros HI HF.
  destruct (update_inv powa powa_pos ps s HI HF) as (s1 & E1 & HI1 & Hm1 & Ht1 & Hs1 & Hp1 & Hle & Hall & Hatt).
  destruct (add_inv powa powa_pos s1 n HI1) as (s2 & E2 & HI2 & _ & _ & _ & Hmp & Hnew & _).
  exists s1, s2, (max_prio s1).
  split; [exact E1|]. split; [exact E2|]. split; [exact HI2|]. split; [reflexivity|]. split; [exact Hmp|].
  split; [exact Hle|]. split; [exact Hall|]. split; [exact Hatt|].
  intros j Hj. rewrite <- Hp1, <- Hm1. apply Hnew. exact Hj.
Qed.
End Batch.

Section Ratio.
Variable powb : Q -> Q.
Hypothesis powb_pos : forall x, (0 < x)%Q -> (0 < powb x)%Q.
Hypothesis powb_proper : Proper (Qeq ==> Qeq) powb.
Hypothesis powb_mult : forall x y, (0 < x)%Q -> (0 < y)%Q -> (powb (x * y) == powb x * powb y)%Q.

(* the quotient of two weights is the quotient of powb of the two priorities: N and the total cancel,
   so the normalised weights do not depend on len(buffer) or on the other priorities *)
Theorem weight_ratio_lemma s i j : per_inv s -> 0 < size s -> i < size s -> j < size s ->
  (powb (NP s i) / powb (NP s j) ==
   powb (leaf 0%Q (tcap s) (sumt s) i) / powb (leaf 0%Q (tcap s) (sumt s) j))%Q.
Proof.
  intros HI Hs Hi Hj.
  pose proof (total_pos s HI Hs) as Htot.
  assert (HN : (0 < inject_Z (Z.of_nat (size s)))%Q).
  { change 0%Q with (inject_Z 0). rewrite <- Zlt_Qlt. lia. }
  pose proof (sh_max s (pi_shape s HI)) as Hmx. pose proof (pi_size s HI) as Hsz.
  assert (Pi : (0 < leaf 0%Q (tcap s) (sumt s) i)%Q) by (destruct (pi_leaves s HI i ltac:(lia)) as [H1 _]; apply H1; auto).
  assert (Pj : (0 < leaf 0%Q (tcap s) (sumt s) j)%Q) by (destruct (pi_leaves s HI j ltac:(lia)) as [H1 _]; apply H1; auto).
  set (K := (inject_Z (Z.of_nat (size s)) / root Qplus 0%Q (tcap s) (sumt s))%Q).
  assert (HK : (0 < K)%Q) by (unfold K; apply Qlt_shift_div_l; lra).
  assert (Ei : (NP s i == leaf 0%Q (tcap s) (sumt s) i * K)%Q) by (unfold NP, K; field; lra).
  assert (Ej : (NP s j == leaf 0%Q (tcap s) (sumt s) j * K)%Q) by (unfold NP, K; field; lra).
  rewrite Ei, Ej, !powb_mult by auto.
  pose proof (powb_pos _ HK). pose proof (powb_pos _ Pj).
  field. split; lra.
Qed.
End Ratio.

(* x -> 1/x (beta = 1) satisfies the three hypotheses *)
Lemma qinv_mult_proper : Proper (Qeq ==> Qeq) Qinv /\
  (forall x y, (0 < x)%Q -> (0 < y)%Q -> (/ (x * y) == / x * / y)%Q).
Proof. split; [exact Qinv_comp|]. intros x y _ _. apply Qinv_mult_distr. Qed.

(* ---- a raising update_priorities call that the caller catches: exactly the pairs before the first index that
   holds no transition were applied, nothing after it, and (strict_invariant) the buffer goes on working.
   Any carrier. ---- *)
From AgileV Require Import C11.Strict.

Section RaisingUpdate.
Variable C : carrier.
Variable powa : C -> C.

Lemma update_g_size s i p s' : update_priority_g C powa true s i p = Some s' -> size s' = size s /\ i < size s.
Proof.
  unfold update_priority_g, idx_bound. destruct (Nat.ltb_spec i (size s)); [|discriminate].
  intros E. inversion E. cbn. auto.
Qed.

Theorem raising_update_applies_prefix_lemma : forall ps1 s i p r,
  Forall (fun ip => fst ip < size s) ps1 -> size s <= i ->
  per_update_g C powa true s (ps1 ++ (i, p) :: r) = (fst (per_update_g C powa true s ps1), true) /\
  snd (per_update_g C powa true s ps1) = false.
Proof.
  induction ps1 as [|[j q] ps1 IH]; intros s i p r HF Hi.
  - cbn [app per_update_g fst snd]. unfold update_priority_g, idx_bound.
    destruct (Nat.ltb_spec i (size s)); [lia|]. auto.
  - apply Forall_cons_iff in HF. destruct HF as [Hj HF]. cbn [fst] in Hj.
    cbn [app per_update_g].
    destruct (update_priority_g C powa true s j (floor_prio C q)) as [s1|] eqn:E.
    + destruct (update_g_size _ _ _ _ E) as [Hs _].
      apply IH; rewrite Hs; auto.
    + exfalso. unfold update_priority_g, idx_bound in E.
      destruct (Nat.ltb_spec j (size s)); [discriminate|lia].
Qed.
End RaisingUpdate.
