(* C11 — update_priorities writes priority^alpha into the leaves it addresses (the last occurrence
   of a repeated index wins) and leaves every other leaf alone. *)
From Coq Require Import List Arith Lia Bool ZArith QArith Lqa.
Import ListNotations.
From AgileV Require Import C11.Model C11.TreeProofs C11.SumProofs C11.MinProofs C11.PerProofs.
Local Open Scope nat_scope.

(* the priority passed last for index i, if any *)
Fixpoint last_prio (ps : list (nat * Q)) (i : nat) : option Q :=
  match ps with
  | [] => None
  | (j, p) :: r => match last_prio r i with
                   | Some q => Some q
                   | None => if i =? j then Some p else None
                   end
  end.

Section UpdateFacts.
Variable powa : Q -> Q.
Hypothesis powa_pos : forall x, (0 < x)%Q -> (0 < powa x)%Q.

Lemma update_sets_leaves_lemma : forall ps s, per_inv s -> Forall (fun ip => fst ip < size s) ps ->
  forall i, i < tcap s ->
  leaf 0%Q (tcap (fst (per_update QC powa s ps))) (sumt (fst (per_update QC powa s ps))) i =
  match last_prio ps i with
  | Some p => powa (floor_prio QC p)
  | None => leaf 0%Q (tcap s) (sumt s) i
  end.
Proof.
  induction ps as [|[j p] r IH]; intros s HI HF i Hi.
  - reflexivity.
  - apply Forall_cons_iff in HF. destruct HF as [Hj HF']. cbn [fst] in Hj.
    pose proof HI as [Hsh Hsz Hptr Hps Hcur HL].
    cbn [per_update last_prio].
    destruct (update_priority_ok powa powa_pos s j (floor_prio QC p) _ Hsh ltac:(lia) (floor_pos p) HL)
      as (s1 & E1 & Hsh1 & (Fm & Ft & Fs & Fc) & Hp1 & Hm1 & HL1 & Hsame & Hoth).
    rewrite E1.
    assert (HI1 : per_inv s1).
    { constructor; auto; rewrite ?Fs, ?Fm, ?Hp1, ?Fc; auto.
      eapply leaves_ok_ext; [|exact HL1]. intros k. split; [intros [X|X]; lia|auto]. }
    rewrite (IH s1 HI1) by (rewrite ?Fs, ?Ft; auto).
    destruct (last_prio r i); [reflexivity|].
    destruct (Nat.eqb_spec i j) as [->|Hne].
    + exact Hsame.
    + exact (Hoth i Hne).
Qed.
End UpdateFacts.
