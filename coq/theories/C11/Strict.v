(* C11 — the buffer with the assertion of _update_priority as a parameter.
   strict = false : assert 0 <= idx < self.max_size   (the code as it is: Model.update_priority)
   strict = true  : assert 0 <= idx < self.size       (repair fixes/C11-update-priority-stored-index.patch:
                    only a slot that holds a transition can carry a priority)
   Definitions only. The [false] instance is definitionally the model of C11/Model.v. *)
From Coq Require Import List Arith Bool ZArith QArith.
Import ListNotations.
From AgileV Require Import C11.Model.
Local Open Scope nat_scope.

Section PERG.
Variable C : carrier.
Variable powa : C -> C.
Variable strict : bool.

Definition idx_bound (s : per C) : nat := if strict then size C s else max_size C s.

Definition update_priority_g (s : per C) (idx : nat) (p : C) : option (per C) :=
  if idx <? idx_bound s then
    let pa := powa p in
    Some {| max_size := max_size C s; tcap := tcap C s; size := size C s; cursor := cursor C s;
            tree_ptr := tree_ptr C s;
            max_prio := if c_ltb C (max_prio C s) p then p else max_prio C s;
            sumt := setitem (c_add C) (c_zero C) (tcap C s) (sumt C s) idx pa;
            mint := setitem (omin C) None (tcap C s) (mint C s) idx (Some pa) |}
  else None.

Fixpoint add_loop_g (n : nat) (s : per C) : option (per C) :=
  match n with
  | O => Some s
  | S k => match update_priority_g s (tree_ptr C s) (max_prio C s) with
           | Some s' => add_loop_g k (set_ptr C s' ((tree_ptr C s + 1) mod max_size C s))
           | None => None
           end
  end.

Definition per_add_g (s : per C) (n : nat) : option (per C) :=
  add_loop_g n {| max_size := max_size C s; tcap := tcap C s;
                  size := Nat.min (size C s + n) (max_size C s);
                  cursor := (cursor C s + n) mod max_size C s;
                  tree_ptr := tree_ptr C s; max_prio := max_prio C s; sumt := sumt C s; mint := mint C s |}.

Fixpoint per_update_g (s : per C) (ps : list (nat * C)) : per C * bool :=
  match ps with
  | [] => (s, false)
  | (i, p) :: r => match update_priority_g s i (floor_prio C p) with
                   | Some s' => per_update_g s' r
                   | None => (s, true)
                   end
  end.

Definition per_step_g (s : per C) (o : pop C) : per C * bool :=
  match o with
  | Add n => match per_add_g s n with Some s' => (s', false) | None => (s, true) end
  | Update ps => per_update_g s ps
  | Sample _ => (s, false)
  | Clear => (per_clear C s, false)
  end.

Definition per_run_g (m : nat) (ops : list (pop C)) : per C :=
  fold_left (fun s o => fst (per_step_g s o)) ops (per_init C m).
End PERG.
