(* C11 — what holds for EVERY carrier (so also for the binary64 instance FC that runs against the
   implementation): the structural part of the buffer invariant and the index range of retrieve.
   No ordered-field law is used; only 0 + 0 = 0 for the initial trees. *)
From Coq Require Import List Arith Lia Bool ZArith QArith PrimFloat.
Import ListNotations.
From AgileV Require Import C11.Model C11.TreeProofs C11.SumProofs C11.PerProofs.
Local Open Scope nat_scope.

Section Generic.
Variable C : carrier.
Variable powa : C -> C.
Hypothesis add_zero_zero : c_add C (c_zero C) (c_zero C) = c_zero C.

Notation gper := (per C).
Notation gsleaf s k := (leaf (c_zero C) (tcap s) (sumt s) k).
Notation gnleaf s k := (@leaf (option C) None (tcap s) (mint s) k).
Notation GSInv := (Inv (c_add C) (c_zero C)).
Notation GMInv := (@Inv (option C) (omin C) None).

(* ---------- retrieve never leaves the tree, whatever the arithmetic does ---------- *)
Lemma retrieve_go_in_tree c l : 0 < c -> forall h fuel idx ub,
  c <= idx * 2 ^ h -> (idx + 1) * 2 ^ h <= 2 * c -> h <= fuel ->
  retrieve_go C fuel idx c l ub < c.
Proof.
  intros Hc. induction h as [|h IH]; intros fuel idx ub H1 H2 Hf.
  - cbn [Nat.pow] in *. destruct fuel as [|f]; cbn [retrieve_go]; [lia|].
    destruct (Nat.ltb_spec idx c); lia.
  - destruct fuel as [|f]; [lia|]. rewrite Nat.pow_succ_r' in *. set (P := 2 ^ h) in *.
    assert (HP : 1 <= P) by (unfold P; apply pow2_ge_1).
    cbn [retrieve_go]. destruct (Nat.ltb_spec idx c) as [_|Hge]; [|nia].
    destruct (c_ltb C ub (get (c_zero C) l (2 * idx))); apply IH; fold P; try lia; nia.
Qed.

Theorem retrieve_in_tree d l ub r : retrieve C (2 ^ d) l ub = Some r -> r < 2 ^ d.
Proof.
  unfold retrieve. destruct (_ && _); [|discriminate]. intros E. inversion E; subst.
  pose proof (pow2_ge_1 d). apply (retrieve_go_in_tree (2 ^ d) l ltac:(lia) d); try lia. apply le_pow2.
Qed.

(* ---------- structural invariant ---------- *)
Definition gleaves_ok (s : gper) (P : nat -> Prop) : Prop :=
  forall k, k < tcap s ->
    (P k -> gnleaf s k = Some (gsleaf s k)) /\
    (~ P k -> gsleaf s k = c_zero C /\ gnleaf s k = None).

Lemma gleaves_ok_ext s P P' : (forall k, P k <-> P' k) -> gleaves_ok s P -> gleaves_ok s P'.
Proof.
  intros E H k Hk. destruct (H k Hk) as [H1 H2]. split; intro X.
  - apply H1, E, X.
  - apply H2. intro Y. apply X, E, Y.
Qed.

Record gshape (s : gper) : Prop := {
  gsh_pow : exists d, tcap s = 2 ^ d;
  gsh_max : 0 < max_size s <= tcap s;
  gsh_sum : GSInv (tcap s) (sumt s);
  gsh_min : GMInv (tcap s) (mint s)
}.

Definition gsame_frame (s s' : gper) : Prop :=
  max_size s' = max_size s /\ tcap s' = tcap s /\ size s' = size s /\ cursor s' = cursor s.

Lemma gupdate_priority_ok s idx p P :
  gshape s -> idx < max_size s -> gleaves_ok s P ->
  exists s', update_priority C powa s idx p = Some s' /\ gshape s' /\ gsame_frame s s' /\
    tree_ptr s' = tree_ptr s /\
    gleaves_ok s' (fun k => P k \/ k = idx) /\
    gsleaf s' idx = powa p.
Proof.
  intros [Hpow Hmax Hsum Hmin] Hidx HL.
  unfold update_priority. destruct (Nat.ltb_spec idx (max_size s)) as [_|]; [|lia].
  eexists. split; [reflexivity|]. unfold gleaves_ok, gsame_frame.
  cbn [max_size tcap size cursor tree_ptr max_prio sumt mint].
  assert (Hic : idx < tcap s) by lia.
  split; [|split; [|split; [|split]]].
  - constructor; cbn [max_size tcap size cursor tree_ptr max_prio sumt mint]; auto.
    + apply setitem_inv; auto.
    + apply setitem_inv; auto.
  - repeat split.
  - reflexivity.
  - intros k Hk. destruct (Nat.eq_dec k idx) as [->|Hne].
    + rewrite !setitem_leaf_same by (try apply Hsum; try apply Hmin; auto).
      split; [intros _; reflexivity|]. intros X. exfalso. apply X. auto.
    + rewrite !setitem_leaf_other by auto.
      destruct (HL k Hk) as [H1 H2]. split.
      * intros [X|X]; [auto|contradiction].
      * intros X. apply H2. intro Y. apply X. auto.
  - apply setitem_leaf_same; [apply Hsum|auto].
Qed.

Lemma gshape_set_ptr s p : gshape s -> gshape (set_ptr C s p).
Proof. intros [A B D E]. constructor; auto. Qed.

Lemma gadd_loop_ok : forall n s P,
  gshape s -> tree_ptr s < max_size s -> gleaves_ok s P ->
  exists s', add_loop C powa n s = Some s' /\ gshape s' /\ gsame_frame s s' /\
    tree_ptr s' = (tree_ptr s + n) mod max_size s /\
    gleaves_ok s' (fun k => P k \/ exists j, j < n /\ k = (tree_ptr s + j) mod max_size s).
Proof.
  induction n as [|n IH]; intros s P Hsh Hptr HL.
  - exists s. cbn [add_loop]. split; [reflexivity|]. split; [auto|]. split; [repeat split|].
    split; [rewrite Nat.add_0_r; symmetry; apply Nat.mod_small; auto|].
    eapply gleaves_ok_ext; [|exact HL]. intros k. split; [auto|]. intros [X|(j & Hj & _)]; [auto|lia].
  - cbn [add_loop].
    destruct (gupdate_priority_ok s (tree_ptr s) (max_prio s) P Hsh Hptr HL)
      as (s1 & E1 & Hsh1 & (Fm & Ft & Fs & Fc) & Hp1 & HL1 & _).
    rewrite E1.
    set (m := max_size s) in *.
    assert (Hm : 0 < m) by (unfold m; pose proof (gsh_max s Hsh); lia).
    assert (Hsh2 : gshape (set_ptr C s1 ((tree_ptr s + 1) mod m))) by (apply gshape_set_ptr; auto).
    assert (Hptr2 : tree_ptr (set_ptr C s1 ((tree_ptr s + 1) mod m)) < max_size (set_ptr C s1 ((tree_ptr s + 1) mod m))).
    { cbn. rewrite Fm. apply Nat.mod_upper_bound. lia. }
    destruct (IH _ (fun k => P k \/ k = tree_ptr s) Hsh2 Hptr2 HL1)
      as (s' & E' & Hsh' & (Gm & Gt & Gs & Gc) & Hp' & HL').
    exists s'. split; [exact E'|]. split; [auto|].
    cbn [set_ptr max_size tcap size cursor tree_ptr max_prio sumt mint] in *.
    split; [unfold gsame_frame, m in *; repeat split; congruence|].
    rewrite Fm in *.
    assert (Hshift : forall j, ((tree_ptr s + 1) mod m + j) mod m = (tree_ptr s + S j) mod m).
    { intros j. rewrite Nat.add_mod_idemp_l by lia. f_equal. lia. }
    split.
    { rewrite Hp'. rewrite Nat.add_mod_idemp_l by lia. f_equal. lia. }
    eapply gleaves_ok_ext; [|exact HL']. intros k. split.
    + intros [[X|X]|(j & Hj & X)].
      * auto.
      * right. exists 0. split; [lia|]. rewrite Nat.add_0_r, Nat.mod_small by auto. auto.
      * right. exists (S j). split; [lia|]. rewrite <- Hshift. auto.
    + intros [X|(j & Hj & X)]; [auto|].
      destruct j as [|j].
      * left. right. rewrite Nat.add_0_r, Nat.mod_small in X by auto. auto.
      * right. exists j. split; [lia|]. rewrite Hshift. auto.
Qed.

(* the carrier-independent part of the buffer invariant *)
Record gper_inv (s : gper) : Prop := {
  gpi_shape : gshape s;
  gpi_size : size s <= max_size s;
  gpi_ptr : tree_ptr s < max_size s;
  gpi_ptr_size : size s < max_size s -> tree_ptr s = size s;
  gpi_cursor : cursor s = tree_ptr s;
  gpi_leaves : gleaves_ok s (fun k => k < size s)
}.

Lemma ginit_inv m : 0 < m -> gper_inv (per_init C m).
Proof.
  intros Hm. destruct (tree_capacity_spec m) as (d & Hd & Hmd).
  constructor; cbn [per_init max_size tcap size cursor tree_ptr max_prio sumt mint]; try lia; auto.
  - constructor; cbn [per_init max_size tcap size cursor tree_ptr max_prio sumt mint].
    + exists d; auto.
    + lia.
    + apply init_inv. exact add_zero_zero.
    + apply init_inv. reflexivity.
  - intros k Hk. split; [lia|]. intros _. split; apply init_leaf.
Qed.

Lemma gadd_inv s n : gper_inv s ->
  exists s', per_add C powa s n = Some s' /\ gper_inv s' /\ max_size s' = max_size s.
Proof.
  intros [Hsh Hsz Hptr Hps Hcur HL]. unfold per_add.
  set (s0 := {| max_size := max_size s |}).
  assert (Hsh0 : gshape s0) by (destruct Hsh; constructor; auto).
  destruct (gadd_loop_ok n s0 (fun k => k < size s) Hsh0 Hptr HL)
    as (s' & E & Hsh' & (Gm & Gt & Gs & Gc) & Hp' & HL').
  cbn [s0 max_size tcap size cursor tree_ptr max_prio sumt mint] in *.
  exists s'. split; [exact E|].
  pose proof (gsh_max s Hsh) as Hmx.
  split; [|auto].
  constructor; auto.
  - rewrite Gs, Gm. lia.
  - rewrite Hp', Gm. apply Nat.mod_upper_bound. lia.
  - rewrite Gs, Gm, Hp'. intros H.
    assert (size s + n < max_size s) by lia.
    rewrite Hps by lia. rewrite Nat.mod_small by lia. lia.
  - rewrite Gc, Hp', Hcur. reflexivity.
  - eapply gleaves_ok_ext; [|exact HL']. intros k. rewrite Gs.
    apply add_support; auto; lia.
Qed.

Lemma gupdate_inv : forall ps s, gper_inv s -> Forall (fun ip => fst ip < size s) ps ->
  exists s', per_update C powa s ps = (s', false) /\ gper_inv s' /\ max_size s' = max_size s /\ size s' = size s.
Proof.
  induction ps as [|[i p] ps IH]; intros s HI HF.
  - exists s. split; [reflexivity|]. auto.
  - apply Forall_cons_iff in HF. destruct HF as [Hi HF']. cbn [fst] in Hi.
    destruct HI as [Hsh Hsz Hptr Hps Hcur HL].
    cbn [per_update].
    destruct (gupdate_priority_ok s i (floor_prio C p) _ Hsh ltac:(lia) HL)
      as (s1 & E1 & Hsh1 & (Fm & Ft & Fs & Fc) & Hp1 & HL1 & _).
    rewrite E1.
    assert (HI1 : gper_inv s1).
    { constructor; auto; rewrite ?Fs, ?Fm, ?Hp1, ?Fc; auto.
      eapply gleaves_ok_ext; [|exact HL1]. intros k. split; [intros [X|X]; lia|auto]. }
    destruct (IH s1 HI1) as (s' & E' & HI' & Gm & Gs).
    { rewrite Fs. exact HF'. }
    exists s'. split; [exact E'|]. split; [exact HI'|]. split; congruence.
Qed.

Definition gop_ok (s : gper) (o : pop C) : Prop :=
  match o with
  | Update ps => Forall (fun ip => fst ip < size s) ps
  | _ => True
  end.

Fixpoint grun_ok (s : gper) (ops : list (pop C)) : Prop :=
  match ops with
  | [] => True
  | o :: r => gop_ok s o /\ grun_ok (fst (per_step C powa s o)) r
  end.

Lemma gstep_inv s o : gper_inv s -> gop_ok s o ->
  gper_inv (fst (per_step C powa s o)) /\ snd (per_step C powa s o) = false.
Proof.
  intros HI Hok. destruct o as [n|ps|us|]; cbn [per_step].
  - destruct (gadd_inv s n HI) as (s' & E & HI' & _). rewrite E. auto.
  - destruct (gupdate_inv ps s HI Hok) as (s' & E & HI' & _). rewrite E. auto.
  - auto.
  - cbn [fst snd]. split; [|reflexivity].
    apply ginit_inv. pose proof (gsh_max s (gpi_shape s HI)). lia.
Qed.

Theorem grun_inv m : 0 < m -> forall ops, grun_ok (per_init C m) ops -> gper_inv (per_run C powa m ops).
Proof.
  intros Hm. unfold per_run.
  assert (G : forall ops s, gper_inv s -> grun_ok s ops ->
              gper_inv (fold_left (fun s o => fst (per_step C powa s o)) ops s)).
  { induction ops as [|o r IH]; intros s HI Hok; cbn [fold_left]; auto.
    destruct Hok as [H1 H2]. apply IH; auto. apply gstep_inv; auto. }
  intros ops Hok. apply G; auto. apply ginit_inv; auto.
Qed.

(* in ANY arithmetic a sampled index is inside the tree, and inside the buffer unless its leaf is 0 *)
Theorem gsampled_in_tree s us idxs ws powb : gper_inv s ->
  per_sample C powb s us = Some (idxs, ws) ->
  Forall (fun i => i < tcap s /\ (size s <= i -> gsleaf s i = c_zero C)) idxs.
Proof.
  intros HI E. unfold per_sample in E.
  destruct (sample_proportional C s us) as [ix|] eqn:Es; [|discriminate].
  destruct (calculate_weights C powb s ix); [|discriminate]. inversion E; subst ix ws. clear E.
  unfold sample_proportional in Es. destruct (gsh_pow s (gpi_shape s HI)) as (d & Hd).
  revert Es. generalize 0 as i0. generalize (c_div C (root (c_add C) (c_zero C) (tcap s) (sumt s)) (c_of_nat C (length us))) as seg.
  revert idxs. induction us as [|u us IH]; intros idxs seg i0 Es; cbn [sample_go] in Es.
  - inversion Es. constructor.
  - destruct (retrieve C (tcap s) (sumt s) (upper_bound C seg i0 u)) as [r|] eqn:Er; [|discriminate].
    destruct (sample_go C s seg (S i0) us) as [ks|] eqn:Ek; [|discriminate]. inversion Es; subst idxs.
    constructor; [|eapply IH; eauto].
    assert (Hr : r < tcap s) by (rewrite Hd in *; eapply retrieve_in_tree; eauto).
    split; [exact Hr|]. intros Hge. destruct (gpi_leaves s HI r Hr) as [_ H2]. apply H2. lia.
Qed.
End Generic.

(* the binary64 instance satisfies the only hypothesis *)
Lemma float_add_zero_zero : c_add FC (c_zero FC) (c_zero FC) = c_zero FC.
Proof. vm_compute. reflexivity. Qed.
