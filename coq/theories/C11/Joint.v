(* C11 — the prioritised buffer together with its storage: PrioritizedReplayBuffer.add first calls
   ReplayBuffer.add (model: C09.Model.rb_add — the TensorDict ring buffer) and then raises the
   priorities of the new slots. Definitions only. *)
From Coq Require Import List Arith QArith.
Import ListNotations.
From AgileV Require C09.Model.
From AgileV Require Import C11.Model.
Local Open Scope nat_scope.

Section Joint.
Context {A : Type}.
Variable powa : Q -> Q.

Inductive jop :=
| JAdd (xs : list A)                  (* add(data) with the transitions xs *)
| JUpdate (ps : list (nat * Q))       (* update_priorities *)
| JSample (us : list Q)               (* sample: no state change *)
| JClear.

Definition jstate := (C09.Model.rb A * per QC)%type.

Definition jinit (m : nat) : jstate := (C09.Model.rb_init m, per_init QC m).

Definition jstep (st : jstate) (o : jop) : jstate :=
  let '(b, s) := st in
  match o with
  | JAdd xs => (C09.Model.rb_add b xs, fst (per_step QC powa s (Add (length xs))))
  | JUpdate ps => (b, fst (per_step QC powa s (@Update QC ps)))
  | JSample _ => (b, s)
  | JClear => (C09.Model.rb_clear b, per_clear QC s)
  end.

Definition jrun (m : nat) (ops : list jop) : jstate := fold_left jstep ops (jinit m).

(* the abstract history: everything added since the last clear, oldest first *)
Definition jspec_step (h : list A) (o : jop) : list A :=
  match o with JAdd xs => h ++ xs | JClear => [] | _ => h end.
Definition jspec (ops : list jop) : list A := fold_left jspec_step ops [].
End Joint.
