(* C11 — the sum tree over exact rationals: root = sum of leaves, prefix-sum search. *)
From Coq Require Import List Arith Lia Bool ZArith QArith Lqa.
Import ListNotations.
From AgileV Require Import C11.Model C11.TreeProofs.
Local Open Scope nat_scope.

Notation qget := (get 0%Q).
Notation qleaf := (leaf 0%Q).
Notation QInv := (Inv Qplus 0%Q).

Lemma qltb_true (a b : Q) : c_ltb QC a b = true -> (a < b)%Q.
Proof.
  cbn. intros H. apply negb_true_iff in H. apply Qnot_le_lt. intro L.
  apply Qle_bool_iff in L. congruence.
Qed.
Lemma qltb_false (a b : Q) : c_ltb QC a b = false -> (b <= a)%Q.
Proof. cbn. intros H. apply negb_false_iff in H. apply Qle_bool_iff; auto. Qed.
Lemma qltb_of_lt (a b : Q) : (a < b)%Q -> c_ltb QC a b = true.
Proof. intros H. destruct (c_ltb QC a b) eqn:E; auto. apply qltb_false in E. lra. Qed.
Lemma qltb_of_le (a b : Q) : (b <= a)%Q -> c_ltb QC a b = false.
Proof. intros H. destruct (c_ltb QC a b) eqn:E; auto. apply qltb_true in E. lra. Qed.
Lemma qleb_of_le (a b : Q) : (a <= b)%Q -> c_leb QC a b = true.
Proof. cbn. apply Qle_bool_iff. Qed.

(* sum of n leaves starting at leaf lo *)
Fixpoint lsum (c : nat) (l : list Q) (lo n : nat) : Q :=
  match n with O => 0%Q | S m => (qleaf c l lo + lsum c l (S lo) m)%Q end.

Lemma lsum_app c l : forall n lo m, (lsum c l lo (n + m) == lsum c l lo n + lsum c l (lo + n) m)%Q.
Proof.
  induction n as [|n IH]; intros lo m; cbn [lsum Nat.add].
  - rewrite Nat.add_0_r. lra.
  - rewrite IH. replace (S lo + n) with (lo + S n) by lia. lra.
Qed.

Lemma lsum_nonneg c l : (forall k, k < c -> (0 <= qleaf c l k)%Q) ->
  forall n lo, lo + n <= c -> (0 <= lsum c l lo n)%Q.
Proof.
  intros Hnn; induction n as [|n IH]; intros lo H; cbn [lsum]; [lra|].
  specialize (Hnn lo ltac:(lia)). specialize (IH (S lo) ltac:(lia)). lra.
Qed.

Lemma lsum_ext c l l' : (forall k, k < c -> qleaf c l' k = qleaf c l k) ->
  forall n lo, lo + n <= c -> lsum c l' lo n = lsum c l lo n.
Proof.
  intros H; induction n as [|n IH]; intros lo Hn; cbn [lsum]; auto.
  rewrite H by lia. rewrite IH by lia. reflexivity.
Qed.

Lemma bfold_sum c l : forall h lo, (bfold Qplus 0%Q c l h lo == lsum c l lo (2 ^ h))%Q.
Proof.
  induction h as [|h IH]; intros lo.
  - cbn [bfold Nat.pow lsum]. lra.
  - cbn [bfold]. rewrite Nat.pow_succ_r'. replace (2 * 2 ^ h) with (2 ^ h + 2 ^ h) by lia.
    rewrite lsum_app, !IH. reflexivity.
Qed.

Lemma node_sum c l : QInv c l -> forall h idx lo,
  idx * 2 ^ h = c + lo -> lo + 2 ^ h <= c -> (qget l idx == lsum c l lo (2 ^ h))%Q.
Proof.
  intros HI h idx lo E R. rewrite (node_val Qplus 0%Q c l HI h idx lo E R). apply bfold_sum.
Qed.

(* "the running total agrees with a direct computation over the stored priorities" *)
Theorem root_is_sum d l : QInv (2 ^ d) l ->
  (root Qplus 0%Q (2 ^ d) l == lsum (2 ^ d) l 0 (2 ^ d))%Q.
Proof.
  intros HI. rewrite root_is_node1. apply (node_sum _ _ HI); lia.
Qed.

(* the descent of SumSegmentTree.retrieve *)
Theorem retrieve_go_spec c l : QInv c l ->
  (forall k, k < c -> (0 <= qleaf c l k)%Q) ->
  forall h fuel idx lo ub,
  idx * 2 ^ h = c + lo -> lo + 2 ^ h <= c -> h <= fuel ->
  (0 <= ub)%Q -> (ub < qget l idx)%Q ->
  let r := retrieve_go QC fuel idx c l ub in
  (lo <= r < lo + 2 ^ h) /\
  (lsum c l lo (r - lo) <= ub)%Q /\ (ub < lsum c l lo (r - lo) + qleaf c l r)%Q.
Proof.
  intros HI Hnn; induction h as [|h IH]; intros fuel idx lo ub E R Hf Hub0 Hub r.
  - cbn [Nat.pow] in *. assert (idx = c + lo) by lia. subst idx.
    assert (Hr : r = lo).
    { unfold r. destruct fuel; cbn [retrieve_go]; [lia|].
      destruct (Nat.ltb_spec (c + lo) c); lia. }
    rewrite Hr. replace (lo - lo) with 0 by lia. cbn [lsum]. unfold leaf.
    split; [lia|]. split; lra.
  - destruct fuel as [|f]; [lia|].
    rewrite Nat.pow_succ_r' in *. set (P := 2 ^ h) in *.
    assert (1 <= P) by (unfold P; apply pow2_ge_1).
    assert (Hidx : 1 <= idx < c) by nia.
    pose proof HI as [Hlen Heq]. pose proof (Heq idx Hidx) as Hn. unfold eqn in Hn.
    assert (HL : (qget l (2 * idx) == lsum c l lo P)%Q).
    { apply (node_sum c l HI h); fold P; nia. }
    assert (HR : (qget l (2 * idx + 1) == lsum c l (lo + P) P)%Q).
    { apply (node_sum c l HI h); fold P; nia. }
    assert (HRnn : (0 <= lsum c l (lo + P) P)%Q) by (apply lsum_nonneg; auto; lia).
    unfold r; cbn [retrieve_go]. cbn [T QC c_zero c_sub].
    destruct (Nat.ltb_spec idx c) as [_|]; [|lia].
    destruct (c_ltb QC ub (qget l (2 * idx))) eqn:Hcmp.
    + apply qltb_true in Hcmp.
      destruct (IH f (2 * idx) lo ub) as [Hr Hs]; try (fold P; nia); try lia; auto.
      fold P in Hr. split; [lia|exact Hs].
    + apply qltb_false in Hcmp.
      assert (Hub' : (ub - qget l (2 * idx) < qget l (2 * idx + 1))%Q).
      { rewrite Hn in Hub. lra. }
      destruct (IH f (2 * idx + 1) (lo + P) (c_sub QC ub (qget l (2 * idx)))) as [Hr [Hs1 Hs2]];
        try (fold P; nia); try lia; cbn [c_sub QC]; auto; try lra.
      fold P in Hr. cbn [c_sub QC] in *.
      set (r' := retrieve_go QC f (2 * idx + 1) c l (ub - qget l (2 * idx))%Q) in *.
      split; [lia|].
      replace (r' - lo) with (P + (r' - (lo + P))) by lia.
      rewrite lsum_app. split; lra.
Qed.

Lemma le_pow2 d : d <= 2 ^ d.
Proof. induction d; cbn [Nat.pow]; [lia|]. pose proof (pow2_ge_1 d). lia. Qed.

(* top level, capacity 2^d: every query mass 0 <= ub < total ends in the leaf whose prefix-sum
   interval contains it; that leaf has positive priority *)
Theorem retrieve_spec d l ub : let c := 2 ^ d in
  QInv c l -> (forall k, k < c -> (0 <= qleaf c l k)%Q) ->
  (0 <= ub)%Q -> (ub < root Qplus 0%Q c l)%Q ->
  exists r, retrieve QC c l ub = Some r /\ r < c /\
    (lsum c l 0 r <= ub)%Q /\ (ub < lsum c l 0 r + qleaf c l r)%Q /\ (0 < qleaf c l r)%Q.
Proof.
  intros c HI Hnn H0 Hub.
  pose proof (le_pow2 d) as Hd. fold c in Hd.
  rewrite root_is_node1 in Hub.
  destruct (retrieve_go_spec c l HI Hnn d c 1 0 ub) as [Hr [Hs1 Hs2]]; try (fold c; lia); auto.
  exists (retrieve_go QC c 1 c l ub). rewrite Nat.sub_0_r in *.
  unfold retrieve. cbn [c_zero c_add c_eps QC].
  rewrite root_is_node1.
  rewrite (qleb_of_le 0%Q ub H0). rewrite qleb_of_le.
  2:{ change (T QC) with Q in *. unfold eps_Q. assert (0 <= 5902958103587057 # 590295810358705651712)%Q by (unfold Qle; cbn; lia). lra. }
  cbn [andb]. split; [reflexivity|]. fold c in Hr. split; [lia|]. split; [exact Hs1|]. split; [exact Hs2|]. lra.
Qed.

(* converse: the set of query masses mapped to leaf i is exactly its prefix-sum interval, whose
   length is the priority of i — "index i is sampled with probability proportional to priority_i^alpha" *)
Lemma lsum_mono c l : (forall k, k < c -> (0 <= qleaf c l k)%Q) ->
  forall a b, a <= b -> b <= c -> (lsum c l 0 a <= lsum c l 0 b)%Q.
Proof.
  intros Hnn a b Hab Hb. replace b with (a + (b - a)) by lia. rewrite lsum_app.
  pose proof (lsum_nonneg c l Hnn (b - a) (0 + a) ltac:(lia)). lra.
Qed.

Lemma lsum_succ c l a : (lsum c l 0 (S a) == lsum c l 0 a + qleaf c l a)%Q.
Proof. replace (S a) with (a + 1) by lia. rewrite lsum_app. cbn [lsum Nat.add]. lra. Qed.

Theorem retrieve_interval d l ub i : let c := 2 ^ d in
  QInv c l -> (forall k, k < c -> (0 <= qleaf c l k)%Q) ->
  i < c -> (lsum c l 0 i <= ub)%Q -> (ub < lsum c l 0 i + qleaf c l i)%Q ->
  retrieve QC c l ub = Some i.
Proof.
  intros c HI Hnn Hi H1 H2.
  assert (H0 : (0 <= ub)%Q).
  { pose proof (lsum_nonneg c l Hnn i 0 ltac:(lia)). lra. }
  assert (Hub : (ub < root Qplus 0%Q c l)%Q).
  { unfold c. rewrite root_is_sum by exact HI. fold c.
    pose proof (lsum_mono c l Hnn (S i) c ltac:(lia) ltac:(lia)) as Hm. rewrite lsum_succ in Hm. lra. }
  destruct (retrieve_spec d l ub HI Hnn H0 Hub) as (r & Hr & Hrc & Hs1 & Hs2 & _). fold c in Hr, Hrc, Hs1, Hs2.
  rewrite Hr. f_equal.
  destruct (lt_eq_lt_dec r i) as [[Hlt|Heq]|Hgt]; auto; exfalso.
  - pose proof (lsum_mono c l Hnn (S r) i ltac:(lia) ltac:(lia)) as Hm. rewrite lsum_succ in Hm. lra.
  - pose proof (lsum_mono c l Hnn (S i) r ltac:(lia) ltac:(lia)) as Hm. rewrite lsum_succ in Hm. lra.
Qed.
