(* C11 — executable model of agilerl.components.segment_tree (SegmentTree / SumSegmentTree /
   MinSegmentTree) and of agilerl.components.replay_buffer.PrioritizedReplayBuffer.
   Model only (no proofs) so that it still runs when a proof breaks.

   The tree code is generic in the carrier of the node values; the buffer is generic in a
   [carrier] record (the arithmetic Python performs on `float`s). Two instances:
     QC  exact rationals           -> the instance the theorems are about
     FC  binary64 (PrimFloat)      -> bit-exact with CPython floats, used by the correspondence check
   x ** alpha and x ** -beta are parameters (powa, powb): CPython computes them, the harness
   passes the values used as a table. *)
From Coq Require Import List Arith Bool ZArith QArith PrimFloat Uint63.
Import ListNotations.
Local Open Scope nat_scope.

(* ------------------------------------------------------------------------------------------ *)
(* SegmentTree: self.tree is an array of length 2*capacity, node i has children 2i and 2i+1,  *)
(* leaves are capacity .. 2*capacity-1                                                        *)
(* ------------------------------------------------------------------------------------------ *)
Section Tree.
Context {T : Type}.
Variable op : T -> T -> T.       (* self.operation *)
Variable dflt : T.               (* init_value *)

Definition get (l : list T) (i : nat) : T := nth i l dflt.

Fixpoint upd (l : list T) (i : nat) (v : T) : list T :=
  match l, i with
  | [], _ => []
  | _ :: t, O => v :: t
  | h :: t, S j => h :: upd t j v
  end.

(* __init__: self.tree = [init_value for _ in range(2 * capacity)] *)
Definition tree_init (c : nat) : list T := repeat dflt (2 * c).

(* __setitem__:   idx //= 2
                  while idx >= 1:
                      self.tree[idx] = self.operation(self.tree[2 * idx], self.tree[2 * idx + 1])
                      idx //= 2                                                             *)
Fixpoint fixup (fuel i : nat) (l : list T) : list T :=
  match fuel with
  | O => l
  | S f => if i <? 1 then l
           else fixup f (i / 2) (upd l i (op (get l (2 * i)) (get l (2 * i + 1))))
  end.

(* idx += self.capacity; self.tree[idx] = val; then the climb *)
Definition setitem (c : nat) (l : list T) (idx : nat) (v : T) : list T :=
  let p := idx + c in fixup p (p / 2) (upd l p v).

(* __getitem__ *)
Definition leaf (c : nat) (l : list T) (idx : nat) : T := get l (c + idx).

(* _operate_helper(start, end, node, node_start, node_end); [end] inclusive *)
Fixpoint operate_helper (fuel : nat) (l : list T) (s e node ns ne : nat) : T :=
  match fuel with
  | O => get l node
  | S f =>
      if (s =? ns) && (e =? ne) then get l node
      else
        let mid := (ns + ne) / 2 in
        if e <=? mid then operate_helper f l s e (2 * node) ns mid
        else if mid + 1 <=? s then operate_helper f l s e (2 * node + 1) (mid + 1) ne
        else op (operate_helper f l s mid (2 * node) ns mid)
                (operate_helper f l (mid + 1) e (2 * node + 1) (mid + 1) ne)
  end.

(* operate(start, end): if end <= 0: end += capacity;  end -= 1 *)
Definition operate (c : nat) (l : list T) (s e : nat) : T :=
  let e' := (if e =? 0 then e + c else e) - 1 in
  operate_helper (S c) l s e' 1 0 (c - 1).

(* sum() / min() with the default arguments *)
Definition root (c : nat) (l : list T) : T := operate c l 0 0.
End Tree.

(* ------------------------------------------------------------------------------------------ *)
(* the arithmetic of Python floats that the buffer uses                                       *)
(* ------------------------------------------------------------------------------------------ *)
Record carrier := {
  T :> Type;
  c_add : T -> T -> T; c_sub : T -> T -> T; c_mul : T -> T -> T; c_div : T -> T -> T;
  c_ltb : T -> T -> bool;          (* a < b  *)
  c_leb : T -> T -> bool;          (* a <= b *)
  c_zero : T; c_one : T;
  c_eps : T;                       (* the literal 1e-5 *)
  c_of_nat : nat -> T              (* int -> float conversion in mixed arithmetic *)
}.

Section PER.
Variable C : carrier.
Variable powa : C -> C.            (* x ** self.alpha *)
Variable powb : C -> C.            (* x ** -beta *)

Notation add := (c_add C). Notation sub := (c_sub C). Notation mul := (c_mul C).
Notation div := (c_div C). Notation ltb := (c_ltb C). Notation leb := (c_leb C).
Notation zero := (c_zero C). Notation one := (c_one C).

(* MinSegmentTree: operation = min, init_value = float("inf"); inf is represented by None.
   Python's min(a, b) returns b if b < a else a. *)
Definition omin (a b : option C) : option C :=
  match a, b with
  | _, None => a
  | None, Some _ => b
  | Some x, Some y => if ltb y x then b else a
  end.

(* SumSegmentTree.retrieve *)
Fixpoint retrieve_go (fuel idx c : nat) (l : list C) (ub : C) : nat :=
  match fuel with
  | O => idx - c
  | S f =>
      if idx <? c then                                   (* while idx < self.capacity *)
        let left := 2 * idx in
        if ltb ub (get zero l left)                      (* if self.tree[left] > upperbound *)
        then retrieve_go f left c l ub
        else retrieve_go f (left + 1) c l (sub ub (get zero l left))
      else idx - c
  end.

Definition retrieve (c : nat) (l : list C) (ub : C) : option nat :=
  (* assert 0 <= upperbound <= self.sum() + 1e-5 *)
  if leb zero ub && leb ub (add (root add zero c l) (c_eps C))
  then Some (retrieve_go c 1 c l ub) else None.

Record per := {
  max_size : nat;  tcap : nat;
  size : nat;  cursor : nat;                 (* ReplayBuffer._size / _cursor *)
  tree_ptr : nat;  max_prio : C;
  sumt : list C;  mint : list (option C)
}.

(* tree_capacity = 1; while tree_capacity < max_size: tree_capacity *= 2 *)
Fixpoint tcap_go (fuel c m : nat) : nat :=
  match fuel with O => c | S f => if c <? m then tcap_go f (2 * c) m else c end.
Definition tree_capacity (m : nat) : nat := tcap_go m 1 m.

Definition per_init (m : nat) : per :=
  let c := tree_capacity m in
  {| max_size := m; tcap := c; size := 0; cursor := 0; tree_ptr := 0; max_prio := one;
     sumt := tree_init zero c; mint := tree_init None c |}.

(* _update_priority(idx, priority); None = the assert 0 <= idx < self.max_size fails *)
Definition update_priority (s : per) (idx : nat) (p : C) : option per :=
  if idx <? max_size s then
    let pa := powa p in
    Some {| max_size := max_size s; tcap := tcap s; size := size s; cursor := cursor s;
            tree_ptr := tree_ptr s;
            max_prio := if ltb (max_prio s) p then p else max_prio s;   (* max(self.max_priority, priority) *)
            sumt := setitem add zero (tcap s) (sumt s) idx pa;
            mint := setitem omin None (tcap s) (mint s) idx (Some pa) |}
  else None.

Definition set_ptr (s : per) (p : nat) : per :=
  {| max_size := max_size s; tcap := tcap s; size := size s; cursor := cursor s;
     tree_ptr := p; max_prio := max_prio s; sumt := sumt s; mint := mint s |}.

(* for i in range(n): self._update_priority(self.tree_ptr, self.max_priority)
                      self.tree_ptr = (self.tree_ptr + 1) % self.max_size *)
Fixpoint add_loop (n : nat) (s : per) : option per :=
  match n with
  | O => Some s
  | S k => match update_priority s (tree_ptr s) (max_prio s) with
           | Some s' => add_loop k (set_ptr s' ((tree_ptr s + 1) mod max_size s))
           | None => None
           end
  end.

(* add(data) with data.shape[0] = n: ReplayBuffer.add (cursor, size) then the priority loop *)
Definition per_add (s : per) (n : nat) : option per :=
  add_loop n {| max_size := max_size s; tcap := tcap s;
                size := Nat.min (size s + n) (max_size s);
                cursor := (cursor s + n) mod max_size s;
                tree_ptr := tree_ptr s; max_prio := max_prio s; sumt := sumt s; mint := mint s |}.

(* update_priorities(indices, priorities): priority = max(priority.item(), 1e-5).
   Returns the state reached and whether an assertion stopped the loop. *)
Definition floor_prio (p : C) : C := if ltb p (c_eps C) then c_eps C else p.

Fixpoint per_update (s : per) (ps : list (nat * C)) : per * bool :=
  match ps with
  | [] => (s, false)
  | (i, p) :: r => match update_priority s i (floor_prio p) with
                   | Some s' => per_update s' r
                   | None => (s, true)
                   end
  end.

Definition per_clear (s : per) : per := per_init (max_size s).

(* _sample_proportional(batch_size), the draws of torch.rand(1).item() given as [us] *)
Definition upper_bound (seg : C) (i : nat) (u : C) : C :=
  let a := mul seg (c_of_nat C i) in
  let b := mul seg (c_of_nat C (i + 1)) in
  add (mul u (sub b a)) a.

Fixpoint sample_go (s : per) (seg : C) (i : nat) (us : list C) : option (list nat) :=
  match us with
  | [] => Some []
  | u :: r => match retrieve (tcap s) (sumt s) (upper_bound seg i u) with
              | Some k => match sample_go s seg (S i) r with Some ks => Some (k :: ks) | None => None end
              | None => None
              end
  end.

Definition sample_proportional (s : per) (us : list C) : option (list nat) :=
  let total := root add zero (tcap s) (sumt s) in
  let seg := div total (c_of_nat C (length us)) in
  sample_go s seg 0 us.

(* _calculate_weights(indices, beta) *)
Definition weight_of (s : per) (total maxw : C) (idx : nat) : C :=
  let p_sample := div (leaf zero (tcap s) (sumt s) idx) total in
  div (powb (mul p_sample (c_of_nat C (size s)))) maxw.

Definition calculate_weights (s : per) (idxs : list nat) : option (list C) :=
  match root omin None (tcap s) (mint s) with
  | None => None                                   (* min() = inf: empty buffer, outside the guard *)
  | Some m =>
      let total := root add zero (tcap s) (sumt s) in
      let p_min := div m total in
      let maxw := powb (mul p_min (c_of_nat C (size s))) in
      if forallb (fun i => i <? tcap s) idxs       (* assert 0 <= idx < self.capacity *)
      then Some (map (weight_of s total maxw) idxs) else None
  end.

Definition per_sample (s : per) (us : list C) : option (list nat * list C) :=
  match sample_proportional s us with
  | Some idxs => match calculate_weights s idxs with
                 | Some ws => Some (idxs, ws)
                 | None => None
                 end
  | None => None
  end.

Inductive pop := Add (n : nat) | Update (ps : list (nat * C)) | Sample (us : list C) | Clear.

(* one operation: new state, "an assertion fired" *)
Definition per_step (s : per) (o : pop) : per * bool :=
  match o with
  | Add n => match per_add s n with Some s' => (s', false) | None => (s, true) end
  | Update ps => per_update s ps
  | Sample _ => (s, false)
  | Clear => (per_clear s, false)
  end.

Definition per_run (m : nat) (ops : list pop) : per :=
  fold_left (fun s o => fst (per_step s o)) ops (per_init m).

(* the behaviour BEFORE fix e4816a7: clear() was inherited from ReplayBuffer and reset only
   _size/_cursor/_storage; trees, tree_ptr and max_priority survived. Kept for the refutation. *)
Definition per_clear_pinned (s : per) : per :=
  {| max_size := max_size s; tcap := tcap s; size := 0; cursor := 0;
     tree_ptr := tree_ptr s; max_prio := max_prio s; sumt := sumt s; mint := mint s |}.
Definition per_step_pinned (s : per) (o : pop) : per * bool :=
  match o with Clear => (per_clear_pinned s, false) | _ => per_step s o end.
Definition per_run_pinned (m : nat) (ops : list pop) : per :=
  fold_left (fun s o => fst (per_step_pinned s o)) ops (per_init m).
End PER.

Arguments Add {C}. Arguments Update {C}. Arguments Sample {C}. Arguments Clear {C}.

(* ------------------------------------------------------------------------------------------ *)
(* instances                                                                                  *)
(* ------------------------------------------------------------------------------------------ *)
(* the double nearest to 1e-5, exactly: 0x1.4f8b588e368f1p-17 *)
Definition eps_Q : Q := (5902958103587057 # 590295810358705651712)%Q.

Definition QC : carrier :=
  {| T := Q; c_add := Qplus; c_sub := Qminus; c_mul := Qmult; c_div := Qdiv;
     c_ltb := fun a b => negb (Qle_bool b a); c_leb := Qle_bool;
     c_zero := 0%Q; c_one := 1%Q; c_eps := eps_Q;
     c_of_nat := fun n => inject_Z (Z.of_nat n) |}.

Definition FC : carrier :=
  {| T := float; c_add := PrimFloat.add; c_sub := PrimFloat.sub; c_mul := PrimFloat.mul; c_div := PrimFloat.div;
     c_ltb := PrimFloat.ltb; c_leb := PrimFloat.leb;
     c_zero := 0%float; c_one := 1%float; c_eps := 0x1.4f8b588e368f1p-17%float;
     c_of_nat := fun n => PrimFloat.of_uint63 (Uint63.of_Z (Z.of_nat n)) |}.

(* x ** alpha / x ** -beta as computed by CPython: a finite table of the arguments that occur *)
Definition tab_pow (tab : list (float * float)) (x : float) : float :=
  match find (fun p => PrimFloat.eqb (fst p) x) tab with
  | Some p => snd p
  | None => nan
  end.
