(* C11 — SegmentTree.operate / _operate_helper: the recursive range query returns the sum
   (resp. a lower bound that is attained: the minimum) of the leaves start .. end-1. *)
From Coq Require Import List Arith Lia Bool ZArith QArith Lqa.
Import ListNotations.
From AgileV Require Import C11.Model C11.TreeProofs C11.SumProofs C11.MinProofs.
Local Open Scope nat_scope.

Lemma mid_of_node ns P : 1 <= P -> (ns + (ns + 2 * P - 1)) / 2 = ns + P - 1.
Proof.
  intros HP. replace (ns + (ns + 2 * P - 1)) with (1 + (ns + P - 1) * 2) by lia.
  rewrite Nat.div_add by lia. cbn. lia.
Qed.

(* node covers the leaves ns .. ne = ns + 2^h - 1; the query [s, e] lies inside *)
Lemma operate_helper_sum c l : QInv c l ->
  forall h fuel node ns s e,
  node * 2 ^ h = c + ns -> ns + 2 ^ h <= c -> h < fuel ->
  ns <= s -> s <= e -> e <= ns + 2 ^ h - 1 ->
  (operate_helper Qplus 0%Q fuel l s e node ns (ns + 2 ^ h - 1) == lsum c l s (e - s + 1))%Q.
Proof.
  intros HI. induction h as [|h IH]; intros fuel node ns s e E R Hf H1 H2 H3.
  - cbn [Nat.pow] in *. assert (s = ns) by lia. assert (e = ns) by lia. subst s e.
    destruct fuel as [|f]; [lia|]. cbn [operate_helper].
    replace (ns + 1 - 1) with ns by lia. rewrite !Nat.eqb_refl. cbn [andb].
    replace (ns - ns + 1) with (2 ^ 0) by (cbn; lia). apply (node_sum c l HI 0); cbn [Nat.pow]; lia.
  - destruct fuel as [|f]; [lia|]. cbn [operate_helper].
    rewrite Nat.pow_succ_r' in *. set (P := 2 ^ h) in *.
    assert (HP : 1 <= P) by (unfold P; apply pow2_ge_1).
    destruct ((s =? ns) && (e =? ns + 2 * P - 1)) eqn:Efull.
    + apply andb_true_iff in Efull. destruct Efull as [A B].
      apply Nat.eqb_eq in A. apply Nat.eqb_eq in B. subst s e.
      replace (ns + 2 * P - 1 - ns + 1) with (2 ^ S h) by (rewrite Nat.pow_succ_r'; fold P; lia).
      apply (node_sum c l HI (S h)); rewrite Nat.pow_succ_r'; fold P; lia.
    + rewrite mid_of_node by exact HP.
      assert (Hidx : 1 <= node) by nia.
      destruct (Nat.leb_spec e (ns + P - 1)) as [Hl|Hl].
      * replace (ns + P - 1) with (ns + 2 ^ h - 1) by (fold P; lia).
        apply IH; fold P; try lia; nia.
      * replace (ns + P - 1 + 1) with (ns + P) by lia.
        destruct (Nat.leb_spec (ns + P) s) as [Hr|Hr].
        -- replace (ns + 2 * P - 1) with ((ns + P) + 2 ^ h - 1) by (fold P; lia).
           apply IH; fold P; try lia; nia.
        -- replace (ns + 2 * P - 1) with ((ns + P) + P - 1) by lia.
           rewrite (IH f (2 * node) ns s (ns + P - 1)) by (try lia; nia).
           rewrite (IH f (2 * node + 1) (ns + P) (ns + P) e) by (try lia; nia).
           assert (Hsplit : (lsum c l s (e - s + 1) == lsum c l s (ns + P - s) + lsum c l (ns + P) (e - (ns + P) + 1))%Q).
           { replace (e - s + 1) with ((ns + P - s) + (e - (ns + P) + 1)) by lia.
             rewrite lsum_app. replace (s + (ns + P - s)) with (ns + P) by lia. reflexivity. }
           rewrite Hsplit. replace (ns + P - 1 - s + 1) with (ns + P - s) by lia. reflexivity.
Qed.

(* sum(start, end) with Python's conventions: end exclusive, end = 0 means "up to capacity" *)
Theorem operate_is_range_sum d l s e : let c := 2 ^ d in
  QInv c l -> s < e -> e <= c ->
  (operate Qplus 0%Q c l s e == lsum c l s (e - s))%Q /\
  (operate Qplus 0%Q c l s 0 == lsum c l s (c - s))%Q.
Proof.
  intros c HI Hse Hec.
  pose proof (le_pow2 d) as Hd. fold c in Hd.
  assert (Hc : 0 + 2 ^ d - 1 = c - 1) by (fold c; lia).
  unfold operate. split.
  - destruct (Nat.eqb_spec e 0); [lia|].
    pose proof (operate_helper_sum c l HI d (S c) 1 0 s (e - 1)) as H. rewrite Hc in H.
    rewrite H; fold c; try lia.
    replace (e - 1 - s + 1) with (e - s) by lia. reflexivity.
  - cbn [Nat.eqb Nat.add].
    pose proof (operate_helper_sum c l HI d (S c) 1 0 s (c - 1)) as H. rewrite Hc in H.
    rewrite H; fold c; try lia.
    replace (c - 1 - s + 1) with (c - s) by lia. reflexivity.
Qed.

(* the min tree: the range query is below every leaf of the range and is one of them *)
Lemma node_min c l : MInv c l -> forall h idx lo,
  idx * 2 ^ h = c + lo -> lo + 2 ^ h <= c ->
  (forall k, lo <= k < lo + 2 ^ h -> ole (get None l idx) (mleaf c l k)) /\
  (exists k, lo <= k < lo + 2 ^ h /\ get None l idx = mleaf c l k).
Proof.
  intros HI h idx lo E R. pose proof (node_val qomin None c l HI h idx lo E R) as Hv.
  change (T QC) with Q in Hv. rewrite Hv. split.
  - intros k Hk. apply bfold_min_le; auto.
  - apply bfold_min_attained.
Qed.

Lemma operate_helper_min c l : MInv c l ->
  forall h fuel node ns s e,
  node * 2 ^ h = c + ns -> ns + 2 ^ h <= c -> h < fuel ->
  ns <= s -> s <= e -> e <= ns + 2 ^ h - 1 ->
  let r := operate_helper qomin None fuel l s e node ns (ns + 2 ^ h - 1) in
  (forall k, s <= k <= e -> ole r (mleaf c l k)) /\ (exists k, s <= k <= e /\ r = mleaf c l k).
Proof.
  intros HI. induction h as [|h IH]; intros fuel node ns s e E R Hf H1 H2 H3.
  - cbn [Nat.pow] in *. assert (s = ns) by lia. assert (e = ns) by lia. subst s e.
    destruct fuel as [|f]; [lia|]. cbn [operate_helper].
    replace (ns + 1 - 1) with ns by lia. rewrite !Nat.eqb_refl. cbn [andb].
    destruct (node_min c l HI 0 node ns) as [A (k & Hk & B)]; cbn [Nat.pow]; try lia.
    cbn [Nat.pow] in *. split.
    + intros k' Hk'. apply A. lia.
    + exists k. split; [lia|auto].
  - destruct fuel as [|f]; [lia|]. cbn [operate_helper].
    rewrite Nat.pow_succ_r' in *. set (P := 2 ^ h) in *.
    assert (HP : 1 <= P) by (unfold P; apply pow2_ge_1).
    destruct ((s =? ns) && (e =? ns + 2 * P - 1)) eqn:Efull.
    + apply andb_true_iff in Efull. destruct Efull as [A B].
      apply Nat.eqb_eq in A. apply Nat.eqb_eq in B. subst s e.
      destruct (node_min c l HI (S h) node ns) as [A (k & Hk & B)]; rewrite ?Nat.pow_succ_r'; fold P; try lia.
      rewrite Nat.pow_succ_r' in *. fold P in A, Hk. split.
      * intros k' Hk'. apply A. lia.
      * exists k. split; [lia|auto].
    + rewrite mid_of_node by exact HP.
      assert (Hidx : 1 <= node) by nia.
      destruct (Nat.leb_spec e (ns + P - 1)) as [Hl|Hl].
      * replace (ns + P - 1) with (ns + 2 ^ h - 1) by (fold P; lia).
        apply IH; fold P; try lia; nia.
      * replace (ns + P - 1 + 1) with (ns + P) by lia.
        destruct (Nat.leb_spec (ns + P) s) as [Hr|Hr].
        -- replace (ns + 2 * P - 1) with ((ns + P) + 2 ^ h - 1) by (fold P; lia).
           apply IH; fold P; try lia; nia.
        -- replace (ns + 2 * P - 1) with ((ns + P) + P - 1) by lia.
           destruct (IH f (2 * node) ns s (ns + P - 1)) as [A1 (k1 & Hk1 & B1)]; try (try lia; nia).
           destruct (IH f (2 * node + 1) (ns + P) (ns + P) e) as [A2 (k2 & Hk2 & B2)]; try (try lia; nia).
           set (x := operate_helper qomin None f l s (ns + P - 1) (2 * node) ns (ns + P - 1)) in *.
           set (y := operate_helper qomin None f l (ns + P) e (2 * node + 1) (ns + P) (ns + P + P - 1)) in *.
           split.
           ++ intros k Hk. destruct (Nat.le_gt_cases k (ns + P - 1)).
              ** eapply ole_trans; [apply omin_l|]. apply A1. lia.
              ** eapply ole_trans; [apply omin_r|]. apply A2. lia.
           ++ destruct (omin_either x y) as [Eo|Eo]; rewrite Eo.
              ** exists k1. split; [lia|auto].
              ** exists k2. split; [lia|auto].
Qed.

Theorem operate_is_range_min d l s e : let c := 2 ^ d in
  MInv c l -> s < e -> e <= c ->
  let r := operate qomin None c l s e in
  (forall k, s <= k < e -> ole r (mleaf c l k)) /\ (exists k, s <= k < e /\ r = mleaf c l k).
Proof.
  intros c HI Hse Hec.
  pose proof (le_pow2 d) as Hd. fold c in Hd.
  assert (Hc : 0 + 2 ^ d - 1 = c - 1) by (fold c; lia).
  unfold operate. destruct (Nat.eqb_spec e 0); [lia|].
  pose proof (operate_helper_min c l HI d (S c) 1 0 s (e - 1)) as H. rewrite Hc in H.
  destruct H as [A (k & Hk & B)]; fold c; try lia.
  split.
  - intros k' Hk'. apply A. lia.
  - exists k. split; [lia|auto].
Qed.
