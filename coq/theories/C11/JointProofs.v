(* C11 — sampled indices address stored transitions: composition of the C09 ring-buffer invariant
   with the C11 priority invariant. *)
From Coq Require Import List Arith Lia Bool ZArith QArith Lqa Permutation.
Import ListNotations.
From AgileV Require Import Base.Prelude.
From AgileV Require C09.Model C09.Proofs.
From AgileV Require Import C11.Model C11.TreeProofs C11.SumProofs C11.MinProofs C11.PerProofs C11.Joint.
Local Open Scope nat_scope.

Module R := AgileV.C09.Model.
Module RP := AgileV.C09.Proofs.

(* every slot below len holds one of the last min(cap, k) additions *)
Lemma stored_row {A} c (h : list A) (b : R.rb A) i : 0 < c -> RP.Inv c h b -> i < R.size b ->
  exists x, nth i (R.store b) None = Some x /\ In x (lastn (Nat.min (length h) c) h).
Proof.
  intros Hc HI Hi.
  pose proof (RP.sample_sound_lemma c h b (seq 0 (R.size b)) (R.size b) Hc HI (Permutation_refl _)) as H.
  unfold R.rb_sample in H.
  assert (E : firstn (R.size b) (seq 0 (R.size b)) = seq 0 (R.size b)).
  { rewrite <- (seq_length (R.size b) 0) at 1. apply firstn_all. }
  rewrite E in H. destruct H as (_ & _ & _ & HF).
  rewrite Forall_map in HF. rewrite Forall_forall in HF.
  apply (HF i). apply in_seq. lia.
Qed.

Section JointFacts.
Context {A : Type}.
Variable powa : Q -> Q.
Hypothesis powa_pos : forall x, (0 < x)%Q -> (0 < powa x)%Q.

Definition jop_ok (m : nat) (st : @jstate A) (o : @jop A) : Prop :=
  match o with
  | JAdd xs => length xs <= m                                    (* batch no wider than the buffer *)
  | JUpdate ps => Forall (fun ip => fst ip < size (snd st)) ps   (* priorities of stored transitions *)
  | _ => True
  end.

Fixpoint jrun_ok (m : nat) (st : @jstate A) (ops : list (@jop A)) : Prop :=
  match ops with
  | [] => True
  | o :: r => jop_ok m st o /\ jrun_ok m (jstep powa st o) r
  end.

Record JInv (m : nat) (h : list A) (st : @jstate A) : Prop := {
  j_rb : RP.Inv m h (fst st);
  j_per : per_inv (snd st);
  j_max : max_size (snd st) = m;
  j_size : R.size (fst st) = size (snd st);          (* len(buffer) is the ring buffer's size *)
  j_cursor : R.cursor (fst st) = tree_ptr (snd st)   (* the slot written next is the leaf written next *)
}.

Lemma jinit_inv m : 0 < m -> JInv m [] (jinit m).
Proof.
  intros Hm. constructor; cbn [jinit fst snd].
  - apply RP.inv_init; auto.
  - apply init_inv_per; auto.
  - reflexivity.
  - reflexivity.
  - reflexivity.
Qed.

Lemma jstep_inv m h st o : 0 < m -> JInv m h st -> jop_ok m st o ->
  JInv m (jspec_step h o) (jstep powa st o).
Proof.
  intros Hm [Hrb Hper Hmax Hsize Hcur] Hok. destruct st as [b s]. cbn [fst snd] in *.
  destruct o as [xs|ps|us|]; cbn [jstep jspec_step jop_ok] in *.
  - destruct (add_inv powa powa_pos s (length xs) Hper) as (s' & E & HI' & Hm' & _ & Hs' & _ & _ & Hc').
    cbn [per_step]. rewrite E. cbn [fst snd].
    constructor; cbn [fst snd].
    + apply RP.inv_add; auto.
    + exact HI'.
    + congruence.
    + unfold R.rb_add. cbn [R.size]. rewrite (RP.inv_cap _ _ _ Hrb), Hs', Hmax, Hsize. reflexivity.
    + unfold R.rb_add. cbn [R.cursor]. rewrite (RP.inv_cap _ _ _ Hrb).
      rewrite <- (pi_cursor s' HI'), Hc', Hmax, (pi_cursor s Hper), Hcur. reflexivity.
  - destruct (update_inv powa powa_pos ps s Hper Hok) as (s' & E & HI' & Hm' & _ & Hs' & Hp' & _).
    cbn [per_step]. rewrite E. cbn [fst snd].
    constructor; cbn [fst snd]; auto; congruence.
  - constructor; auto.
  - constructor; cbn [fst snd].
    + unfold R.rb_clear. rewrite (RP.inv_cap _ _ _ Hrb). apply RP.inv_init; auto.
    + unfold per_clear. rewrite Hmax. apply init_inv_per; auto.
    + unfold per_clear. rewrite Hmax. reflexivity.
    + reflexivity.
    + reflexivity.
Qed.

Lemma jfold_inv m : 0 < m -> forall ops h st, JInv m h st -> jrun_ok m st ops ->
  JInv m (fold_left jspec_step ops h) (fold_left (jstep powa) ops st).
Proof.
  intros Hm. induction ops as [|o r IH]; intros h st HI Hok; cbn [fold_left]; auto.
  destruct Hok as [H1 H2]. apply IH; auto. apply jstep_inv; auto.
Qed.

Theorem jrun_inv m ops : 0 < m -> jrun_ok m (jinit m) ops -> JInv m (jspec ops) (jrun powa m ops).
Proof. intros Hm Hok. apply jfold_inv; auto. apply jinit_inv; auto. Qed.

(* the rows behind the sampled indices are stored transitions: each is one of the last
   min(max_size, k) additions since the last clear *)
Theorem sampled_rows_are_stored_lemma (powb : Q -> Q) m ops us : 0 < m -> jrun_ok m (jinit m) ops ->
  let '(b, s) := jrun powa m ops in
  let h := jspec ops in
  0 < size s -> Forall draw_ok us ->
  exists idxs ws, per_sample QC powb s us = Some (idxs, ws) /\ length idxs = length us /\
    Forall (fun i => i < R.size b /\
              exists x, nth i (R.store b) None = Some x /\ In x (lastn (Nat.min (length h) m) h)) idxs.
Proof.
  intros Hm Hok. pose proof (jrun_inv m ops Hm Hok) as HJ.
  destruct (jrun powa m ops) as [b s]. destruct HJ as [Hrb Hper Hmax Hsize Hcur]. cbn [fst snd] in *.
  intros Hs HF.
  destruct (sample_ok powb s us Hper Hs HF) as (idxs & ws & E & Hl & _ & Hst & _).
  exists idxs, ws. split; [exact E|]. split; [exact Hl|].
  rewrite Forall_forall in *. intros i Hi. specialize (Hst i Hi).
  split; [lia|]. apply (stored_row m); auto. lia.
Qed.
End JointFacts.

(* ---------- the n-step buffer paired with the prioritised buffer ----------
   train_off_policy feeds both buffers in lockstep (the n-step buffer stores the fused record when it hands
   out the 1-step transition that goes into the prioritised buffer) and gathers the n-step rows with the
   indices sampled from the prioritised buffer: sample_from_indices(idxs) = storage[idxs]. *)
Definition sample_from_indices {A} (b : R.rb A) (idxs : list nat) : list (option A) :=
  map (fun i => nth i (R.store b) None) idxs.

Lemma slot_pos c k i : 0 < c -> i < Nat.min k c ->
  exists p, p < k /\ k <= p + c /\ p mod c = i.
Proof.
  intros Hc Hi. destruct (Nat.le_gt_cases k c) as [Hk|Hk].
  - exists i. repeat split; try lia. apply Nat.mod_small. lia.
  - destruct (RP.mod_decomp c k Hc) as (q & r & Ek & Hr & _ & _).
    assert (1 <= q) by nia.
    destruct (Nat.lt_ge_cases i r).
    + exists (q * c + i). repeat split; try nia. apply RP.mod_qr. lia.
    + exists ((q - 1) * c + i). repeat split; try nia. apply RP.mod_qr. lia.
Qed.

(* two ring buffers of the same capacity whose histories have the same length (written in lockstep):
   every index below len addresses, in BOTH, the record of one and the same stream position p *)
Theorem paired_rows_aligned_lemma {A B} c (h1 : list A) (h2 : list B) (b1 : R.rb A) (b2 : R.rb B) idxs :
  0 < c -> RP.Inv c h1 b1 -> RP.Inv c h2 b2 -> length h1 = length h2 ->
  Forall (fun i => i < R.size b1) idxs ->
  R.size b2 = R.size b1 /\
  Forall (fun i => exists p x y, nth_error h1 p = Some x /\ nth_error h2 p = Some y /\ p mod c = i /\
                     nth i (R.store b1) None = Some x /\ nth i (R.store b2) None = Some y) idxs /\
  length (sample_from_indices b2 idxs) = length idxs.
Proof.
  intros Hc I1 I2 Hlen HF. split; [rewrite (RP.inv_size _ _ _ I1), (RP.inv_size _ _ _ I2); lia|].
  split; [|unfold sample_from_indices; apply map_length].
  rewrite Forall_forall in *. intros i Hi. specialize (HF i Hi).
  rewrite (RP.inv_size _ _ _ I1) in HF.
  destruct (slot_pos c (length h1) i Hc HF) as (p & Hp & Hw & Hm).
  destruct (nth_error h1 p) as [x|] eqn:E1; [|apply nth_error_None in E1; lia].
  destruct (nth_error h2 p) as [y|] eqn:E2; [|apply nth_error_None in E2; lia].
  exists p, x, y. repeat split; auto.
  - rewrite <- Hm. apply (RP.inv_recent _ _ _ I1); auto.
  - rewrite <- Hm. apply (RP.inv_recent _ _ _ I2); auto. lia.
Qed.
