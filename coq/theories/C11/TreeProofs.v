(* C11 — carrier-generic facts about the array segment tree (no algebra needed: plain equality).
   They hold for every carrier and every operation, in particular for the binary64 instance. *)
From Coq Require Import List Arith Lia Bool.
Import ListNotations.
From AgileV Require Import C11.Model.

Section TreeFacts.
Context {T : Type}.
Variable op : T -> T -> T.
Variable dflt : T.
Notation get := (get dflt).
Notation setitem := (setitem op dflt).
Notation fixup := (fixup op dflt).

Lemma upd_length (l : list T) i v : length (upd l i v) = length l.
Proof. revert i; induction l as [|a l IH]; intros [|i]; simpl; auto. Qed.
Lemma get_upd_same (l : list T) i v : i < length l -> get (upd l i v) i = v.
Proof. unfold Model.get; revert i; induction l as [|a l IH]; intros [|i] H; simpl in *; try lia; auto. apply IH; lia. Qed.
Lemma get_upd_other (l : list T) i j v : i <> j -> get (upd l i v) j = get l j.
Proof. unfold Model.get; revert i j; induction l as [|a l IH]; intros [|i] [|j] H; simpl; auto; try congruence. Qed.

(* the equation of internal node j *)
Definition eqn (l : list T) (j : nat) : Prop := get l j = op (get l (2 * j)) (get l (2 * j + 1)).
(* tree invariant: right length, every internal node is the operation applied to its children *)
Definition Inv (c : nat) (l : list T) : Prop :=
  length l = 2 * c /\ forall j, 1 <= j < c -> eqn l j.

Inductive anc : nat -> nat -> Prop :=
| anc_refl i : anc i i
| anc_step i j : 1 <= i -> anc (i / 2) j -> anc i j.

Lemma anc0 j : anc 0 j -> j = 0.
Proof. inversion 1; subst; auto; lia. Qed.

Lemma fixup_length fuel : forall i l, length (fixup fuel i l) = length l.
Proof.
  induction fuel as [|f IH]; intros i l; cbn [Model.fixup]; auto.
  destruct (i <? 1); auto. rewrite IH, upd_length; auto.
Qed.

Lemma half_of_double k : (2 * k) / 2 = k.
Proof. rewrite Nat.mul_comm. apply Nat.div_mul. lia. Qed.
Lemma half_of_double1 k : (2 * k + 1) / 2 = k.
Proof. rewrite Nat.mul_comm, Nat.div_add_l by lia. cbn. lia. Qed.

Lemma fixup_ok c fuel : forall i l,
  length l = 2 * c -> i < c -> i <= fuel ->
  (forall j, 1 <= j < c -> ~ anc i j -> eqn l j) ->
  forall j, 1 <= j < c -> eqn (fixup fuel i l) j.
Proof.
  induction fuel as [|f IH]; intros i l Hlen Hi Hf H j Hj; cbn [Model.fixup].
  - apply H; auto. intro A. assert (i = 0) by lia. subst. apply anc0 in A. lia.
  - destruct (Nat.ltb_spec i 1) as [Hlt|Hge].
    + apply H; auto. intro A. assert (i = 0) by lia. subst. apply anc0 in A. lia.
    + assert (Hdiv : i / 2 < i) by (apply Nat.div_lt; lia).
      apply IH; [rewrite upd_length; exact Hlen | lia | lia | | exact Hj].
      intros k Hk Hna. unfold eqn.
      destruct (Nat.eq_dec k i) as [->|Hne].
      * rewrite get_upd_same by lia.
        rewrite !get_upd_other by lia. reflexivity.
      * assert (Hnk : ~ anc i k).
        { intro A. inversion A; subst; auto. }
        specialize (H k Hk Hnk). unfold eqn in H.
        rewrite get_upd_other by auto.
        assert (2 * k <> i).
        { intro E. apply Hna. replace (i / 2) with k. constructor. subst i. symmetry. apply half_of_double. }
        assert (2 * k + 1 <> i).
        { intro E. apply Hna. replace (i / 2) with k. constructor. subst i. symmetry. apply half_of_double1. }
        rewrite !get_upd_other by auto. exact H.
Qed.

(* __setitem__ re-establishes the invariant (the climb repairs exactly the ancestors of the leaf) *)
Lemma setitem_inv c l idx v : Inv c l -> idx < c -> Inv c (setitem c l idx v).
Proof.
  intros [Hlen H] Hidx. unfold Model.setitem. split.
  - rewrite fixup_length, upd_length; auto.
  - assert (Hp : (idx + c) / 2 < c) by (apply Nat.div_lt_upper_bound; lia).
    apply fixup_ok.
    + rewrite upd_length; auto.
    + exact Hp.
    + apply Nat.div_le_upper_bound; lia.
    + intros j Hj Hna. unfold eqn.
      rewrite get_upd_other by lia.
      assert (2 * j <> idx + c).
      { intro E. apply Hna. rewrite <- E. rewrite half_of_double. constructor. }
      assert (2 * j + 1 <> idx + c).
      { intro E. apply Hna. rewrite <- E. rewrite half_of_double1. constructor. }
      rewrite !get_upd_other by auto. apply H; auto.
Qed.

Lemma get_repeat (x : T) n i : nth i (repeat x n) x = x.
Proof. revert i; induction n; intros [|i]; cbn; auto. Qed.

Lemma init_inv c : op dflt dflt = dflt -> Inv c (tree_init dflt c).
Proof.
  intros H. split.
  - unfold tree_init. apply repeat_length.
  - intros j _. unfold eqn, Model.get, tree_init. rewrite !get_repeat. auto.
Qed.

Lemma init_leaf c k : leaf dflt c (tree_init dflt c) k = dflt.
Proof. unfold leaf, Model.get, tree_init. apply get_repeat. Qed.

(* leaves are not touched by the climb *)
Lemma fixup_leaves c fuel : forall i l k, i < c -> c <= k -> get (fixup fuel i l) k = get l k.
Proof.
  induction fuel as [|f IH]; intros i l k Hi Hk; cbn [Model.fixup]; auto.
  destruct (Nat.ltb_spec i 1); auto.
  assert (i / 2 < i) by (apply Nat.div_lt; lia).
  rewrite IH by lia. apply get_upd_other. lia.
Qed.

Lemma setitem_leaf_same c l idx v : length l = 2 * c -> idx < c ->
  leaf dflt c (setitem c l idx v) idx = v.
Proof.
  intros Hl Hi. unfold leaf, Model.setitem.
  assert ((idx + c) / 2 < c) by (apply Nat.div_lt_upper_bound; lia).
  rewrite (fixup_leaves c) by lia.
  replace (c + idx) with (idx + c) by lia. apply get_upd_same. lia.
Qed.

Lemma setitem_leaf_other c l idx v k : idx < c -> k <> idx ->
  leaf dflt c (setitem c l idx v) k = leaf dflt c l k.
Proof.
  intros Hi Hne. unfold leaf, Model.setitem.
  assert ((idx + c) / 2 < c) by (apply Nat.div_lt_upper_bound; lia).
  rewrite (fixup_leaves c) by lia. apply get_upd_other. lia.
Qed.

Lemma setitem_length c l idx v : length (setitem c l idx v) = length l.
Proof. unfold Model.setitem. rewrite fixup_length, upd_length. auto. Qed.

(* value of a node = the balanced (pairwise) fold of the leaves below it *)
Fixpoint bfold (c : nat) (l : list T) (h lo : nat) : T :=
  match h with
  | O => leaf dflt c l lo
  | S h' => op (bfold c l h' lo) (bfold c l h' (lo + 2 ^ h'))
  end.

Lemma node_val c l : Inv c l -> forall h idx lo,
  idx * 2 ^ h = c + lo -> lo + 2 ^ h <= c -> get l idx = bfold c l h lo.
Proof.
  intros [Hlen H]; induction h as [|h IH]; intros idx lo E R.
  - cbn [Nat.pow bfold] in *. unfold leaf. replace idx with (c + lo) by lia. reflexivity.
  - cbn [bfold]. rewrite Nat.pow_succ_r' in *. set (P := 2 ^ h) in *.
    assert (1 <= P) by (unfold P; pose proof (Nat.pow_nonzero 2 h); lia).
    assert (1 <= idx < c) by nia.
    rewrite (H idx) by auto.
    rewrite (IH (2 * idx) lo) by (fold P; nia).
    rewrite (IH (2 * idx + 1) (lo + P)) by (fold P; nia).
    reflexivity.
Qed.

(* sum() / min() with default arguments read the root *)
Lemma root_is_node1 c l : root op dflt c l = get l 1.
Proof.
  unfold root, operate. cbn [operate_helper].
  rewrite Nat.eqb_refl. cbn [andb Nat.eqb Nat.add].
  replace (c - 1 =? c - 1) with true by (symmetry; apply Nat.eqb_refl). reflexivity.
Qed.

Lemma pow2_ge_1 d : 1 <= 2 ^ d.
Proof. pose proof (Nat.pow_nonzero 2 d). lia. Qed.

Theorem root_is_bfold d l : Inv (2 ^ d) l -> root op dflt (2 ^ d) l = bfold (2 ^ d) l d 0.
Proof.
  intros HI. rewrite root_is_node1. apply (node_val _ _ HI); lia.
Qed.
End TreeFacts.
