(* C11 — boolean comparison of the model with observations of the implementation (used by K only). *)
From Coq Require Import List Arith Bool ZArith QArith Qabs PrimFloat FloatOps SpecFloat.
Import ListNotations.
From AgileV Require Import C11.Model C11.Strict.
Local Open Scope nat_scope.

Fixpoint list_eqb {A} (eqb : A -> A -> bool) (a b : list A) : bool :=
  match a, b with
  | [], [] => true
  | x :: a', y :: b' => eqb x y && list_eqb eqb a' b'
  | _, _ => false
  end.
Definition opt_eqb {A} (eqb : A -> A -> bool) (a b : option A) : bool :=
  match a, b with Some x, Some y => eqb x y | None, None => true | _, _ => false end.

Section Chk.
Variable C : carrier.
Variables powa powb : C -> C.
Variable eqb : C -> C -> bool.            (* exact equality of carrier values *)
Variable wclose : C -> C -> bool.         (* model weight vs observed weight (stored as float32 by the code) *)
Variable strict : bool.                   (* which assertion _update_priority makes: idx < max_size (false) or idx < len (true) *)

(* after one op: len(buffer), tree_ptr, max_priority, optionally both tree arrays,
   "an AssertionError was raised", result of sample (indices, weights),
   then range queries made after the op: (start, end, sum_tree.sum(start, end), min_tree.min(start, end)) *)
Definition rng1 := (nat * nat * C * option C)%type.
Definition obs1 := (nat * nat * C * option (list C * list (option C)) * bool * option (list nat * list C) * list rng1)%type.

Definition check_range (s : per C) (r : rng1) : bool :=
  let '(a, b, sv, mv) := r in
  eqb sv (operate (c_add C) (c_zero C) (tcap C s) (sumt C s) a b) &&
  opt_eqb eqb mv (operate (omin C) None (tcap C s) (mint C s) a b).

Definition check_one (s : per C) (o : pop C) (ob : obs1) : per C * bool :=
  let '(len, ptr, maxp, trees, raised, smp, rngs) := ob in
  let '(s', mraised) := per_step_g C powa strict s o in
  let base :=
    Nat.eqb len (size C s') && Nat.eqb ptr (tree_ptr C s') && eqb maxp (max_prio C s') &&
    match trees with
    | None => true
    | Some (st, mt) => list_eqb eqb st (sumt C s') && list_eqb (opt_eqb eqb) mt (mint C s')
    end in
  let rest :=
    match o with
    | Sample us =>
        match per_sample C powb s' us, smp with
        | Some (mi, mw), Some (oi, ow) =>
            negb raised && list_eqb Nat.eqb oi mi && list_eqb wclose mw ow
        | None, None => raised
        | _, _ => false
        end
    | _ => Bool.eqb raised mraised && match smp with None => true | Some _ => false end
    end in
  (s', base && rest && forallb (check_range s') rngs).

Fixpoint check_trace (s : per C) (ops : list (pop C)) (obs : list obs1) : bool :=
  match ops, obs with
  | [], [] => true
  | o :: ops', ob :: obs' => let '(s', ok) := check_one s o ob in ok && check_trace s' ops' obs'
  | _, _ => false
  end.
End Chk.

(* ---- binary64 instance: bit-exact state, weights within float32 rounding ---- *)
Definition feqb (a b : float) : bool := PrimFloat.eqb a b.
(* the code stores weight / max_weight (a double) into a float32 tensor: relative error <= 2^-24 *)
Definition fclose32 (m o : float) : bool :=
  PrimFloat.leb (PrimFloat.abs (PrimFloat.sub m o)) (PrimFloat.mul (PrimFloat.abs m) 0x1p-23%float).

(* ---- the tables of x ** alpha and x ** -beta handed over by the harness (computed by CPython) are certified
   here against the algebraic definition of a rational power: for alpha = a/b the entry (x, v) must satisfy
   |v^b - x^a| <= x^a * 2^-40 (resp. |v^b * x^a - 1| <= 2^-40 for the exponent -a/b), in exact arithmetic ---- *)
Definition float_to_Q (f : float) : option Q :=
  match Prim2SF f with
  | S754_zero _ => Some 0%Q
  | S754_finite s m e => let q := (inject_Z (Zpos m) * Qpower 2 e)%Q in Some (if s then Qopp q else q)
  | _ => None
  end.
Definition pow_tol : Q := (1 # 1099511627776)%Q.
Definition pow_entry_ok (a : Z) (b : positive) (neg : bool) (xv : float * float) : bool :=
  match float_to_Q (fst xv), float_to_Q (snd xv) with
  | Some qx, Some qv =>
      let xa := Qpower qx a in let vb := Qpower qv (Zpos b) in
      Qle_bool 0 qv &&
      if neg then Qle_bool (Qabs (vb * xa - 1)) pow_tol
      else Qle_bool (Qabs (vb - xa)) (xa * pow_tol)
  | _, _ => false
  end.
Definition pow_tab_ok (e : option (Z * positive)) (neg : bool) (tab : list (float * float)) : bool :=
  match e with
  | Some (a, b) => forallb (pow_entry_ok a b neg) tab
  | None => true                    (* exponent not a small rational: table taken on trust *)
  end.

Definition check_float (strict : bool) (m : nat) (ea eb : option (Z * positive)) (tabA tabB : list (float * float))
           (ops : list (@pop FC)) (obs : list (obs1 FC)) : bool :=
  pow_tab_ok ea false tabA && pow_tab_ok eb true tabB &&
  check_trace FC (tab_pow tabA) (tab_pow tabB) feqb fclose32 strict (per_init FC m) ops obs.

(* ---- exact instance (alpha = 1, weights not compared) ---- *)
Definition check_exact (strict : bool) (m : nat) (ops : list (@pop QC)) (obs : list (obs1 QC)) : bool :=
  check_trace QC (fun x => x) (fun _ => 1%Q) Qeq_bool (fun _ _ => true) strict (per_init QC m) ops obs.

(* constructors with the carrier fixed, for generated case files *)
Definition FAdd (n : nat) : pop FC := Add n.
Definition FUpd (ps : list (nat * float)) : pop FC := @Update FC ps.
Definition FSmp (us : list float) : pop FC := @Sample FC us.
Definition FClr : pop FC := Clear.
Definition QAdd (n : nat) : pop QC := Add n.
Definition QUpd (ps : list (nat * Q)) : pop QC := @Update QC ps.
Definition QSmp (us : list Q) : pop QC := @Sample QC us.
Definition QClr : pop QC := Clear.
