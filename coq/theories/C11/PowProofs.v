(* C11 — x ** alpha and x ** -beta are parameters of the model. Any function that satisfies the algebraic
   definition of a rational power meets the hypotheses the theorems put on them:
   f(x)^b = x^a            (f = x^(a/b),  a >= 0)  is positive on positives              (powa of per_invariant)
   f(x)^b * x^a = 1        (f = x^(-a/b), a >= 0)  is positive and antitone on positives  (powb of weights_spec)
   The correspondence check certifies the tables CPython produces against the same definition (Check.pow_entry_ok). *)
From Coq Require Import ZArith QArith Qpower Lqa Lia.
Local Open Scope Q_scope.

Lemma qpp_lt : forall p v w, 0 <= v -> v < w ->
  Qpower_positive v p < Qpower_positive w p /\ 0 <= Qpower_positive v p.
Proof.
  induction p using Pos.peano_ind; intros v w Hv Hvw.
  - cbn. split; lra.
  - rewrite <- Pos.add_1_r. rewrite !Qpower_plus_positive.
    destruct (IHp v w Hv Hvw) as [H1 H2].
    change (Qpower_positive v 1) with v. change (Qpower_positive w 1) with w.
    set (vp := Qpower_positive v p) in *. set (wp := Qpower_positive w p) in *. clearbody vp wp.
    split; nra.
Qed.

Lemma qpow_lt (b : positive) v w : 0 <= v -> v < w -> v ^ (Zpos b) < w ^ (Zpos b).
Proof. intros. cbn. apply qpp_lt; auto. Qed.

Lemma qpow_pos (a : Z) x : (0 <= a)%Z -> 0 < x -> 0 < x ^ a.
Proof.
  intros Ha Hx. destruct a as [|p|p]; cbn; try lra; [|lia].
  destruct (qpp_lt p 0 x ltac:(lra) Hx) as [H1 H2]. lra.
Qed.

Lemma qpow_le (a : Z) x y : (0 <= a)%Z -> 0 < x -> x <= y -> x ^ a <= y ^ a.
Proof.
  intros Ha Hx Hxy. destruct a as [|p|p]; cbn; try lra; [|lia].
  destruct (Qlt_le_dec x y) as [L|L].
  - destruct (qpp_lt p x y ltac:(lra) L). lra.
  - assert (E : x == y) by lra. rewrite E. lra.
Qed.

Theorem positive_power_spec (a : Z) (b : positive) (f : Q -> Q) : (0 <= a)%Z ->
  (forall x, 0 < x -> 0 <= f x /\ f x ^ (Zpos b) == x ^ a) ->
  forall x, 0 < x -> 0 < f x.
Proof.
  intros Ha H x Hx. destruct (H x Hx) as [H0 E].
  destruct (Qlt_le_dec 0 (f x)) as [L|L]; auto. exfalso.
  assert (Z0 : f x == 0) by lra.
  pose proof (qpow_pos a x Ha Hx) as P. rewrite <- E, Z0 in P.
  cbn in P. destruct (qpp_lt b 0 1 ltac:(lra) ltac:(lra)) as [_ Q0].
  assert (Qpower_positive 0 b == 0).
  { clear. induction b using Pos.peano_ind; [reflexivity|].
    rewrite <- Pos.add_1_r, Qpower_plus_positive. change (Qpower_positive 0 1) with 0. ring. }
  lra.
Qed.

Theorem negative_power_spec (a : Z) (b : positive) (f : Q -> Q) : (0 <= a)%Z ->
  (forall x, 0 < x -> 0 < f x /\ f x ^ (Zpos b) * x ^ a == 1) ->
  (forall x, 0 < x -> 0 < f x) /\ (forall x y, 0 < x -> x <= y -> f y <= f x).
Proof.
  intros Ha H. split; [intros x Hx; apply H; auto|].
  intros x y Hx Hxy.
  destruct (H x Hx) as [Fx Ex]. destruct (H y ltac:(lra)) as [Fy Ey].
  destruct (Qlt_le_dec (f x) (f y)) as [L|L]; auto. exfalso.
  pose proof (qpow_lt b (f x) (f y) ltac:(lra) L) as P1.
  pose proof (qpow_le a x y Ha Hx Hxy) as P2.
  pose proof (qpow_pos a x Ha Hx) as P3.
  assert (0 < f x ^ (Zpos b)) by (apply qpow_pos; [lia|auto]).
  set (A := f x ^ Z.pos b) in *. set (B := f y ^ Z.pos b) in *. set (X := x ^ a) in *. set (Y := y ^ a) in *.
  clearbody A B X Y. nra.
Qed.
