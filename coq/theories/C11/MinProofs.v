(* C11 — the min tree (carrier option Q, None = float("inf")) and the stratified query masses. *)
From Coq Require Import List Arith Lia Bool ZArith QArith Lqa.
Import ListNotations.
From AgileV Require Import C11.Model C11.TreeProofs C11.SumProofs.
Local Open Scope nat_scope.

Notation qomin := (omin QC).
Notation mleaf := (@leaf (option Q) None).
Notation MInv := (@Inv (option Q) qomin None).

(* a <= b on priorities extended with +infinity *)
Definition ole (a b : option Q) : Prop :=
  match a, b with
  | _, None => True
  | None, Some _ => False
  | Some x, Some y => (x <= y)%Q
  end.

Lemma ole_refl a : ole a a.
Proof. destruct a; cbn; auto. lra. Qed.

Lemma ole_trans a b c : ole a b -> ole b c -> ole a c.
Proof. destruct a, b, c; cbn; auto; try tauto. intros; lra. Qed.

Lemma omin_l a b : ole (qomin a b) a.
Proof.
  destruct a as [x|], b as [y|]; cbn [omin ole]; auto; try lra.
  destruct (c_ltb QC y x) eqn:E; cbn [ole].
  - apply qltb_true in E. lra.
  - lra.
Qed.

Lemma omin_r a b : ole (qomin a b) b.
Proof.
  destruct a as [x|], b as [y|]; cbn [omin ole]; auto; try lra.
  destruct (c_ltb QC y x) eqn:E; cbn [ole].
  - lra.
  - apply qltb_false in E. lra.
Qed.

Lemma omin_either a b : qomin a b = a \/ qomin a b = b.
Proof.
  destruct a as [x|], b as [y|]; cbn [omin]; auto.
  destruct (c_ltb QC y x); auto.
Qed.

(* the balanced fold with min is below every leaf of its range and is one of them *)
Lemma bfold_min_le c l : forall h lo k, lo <= k < lo + 2 ^ h ->
  ole (bfold qomin None c l h lo) (mleaf c l k).
Proof.
  induction h as [|h IH]; intros lo k Hk.
  - cbn [Nat.pow bfold] in *. replace k with lo by lia. apply ole_refl.
  - cbn [bfold]. rewrite Nat.pow_succ_r' in Hk.
    destruct (Nat.lt_ge_cases k (lo + 2 ^ h)).
    + eapply ole_trans; [apply omin_l|]. apply IH. lia.
    + eapply ole_trans; [apply omin_r|]. apply IH. lia.
Qed.

Lemma bfold_min_attained c l : forall h lo, exists k, lo <= k < lo + 2 ^ h /\
  bfold qomin None c l h lo = mleaf c l k.
Proof.
  induction h as [|h IH]; intros lo.
  - exists lo. cbn [Nat.pow bfold]. split; [lia|reflexivity].
  - cbn [bfold]. rewrite Nat.pow_succ_r'.
    destruct (omin_either (bfold qomin None c l h lo) (bfold qomin None c l h (lo + 2 ^ h))) as [E|E]; rewrite E.
    + destruct (IH lo) as (k & Hk & Ek). exists k. split; [lia|auto].
    + destruct (IH (lo + 2 ^ h)) as (k & Hk & Ek). exists k. split; [lia|auto].
Qed.

(* "the running minimum agrees with a direct computation over the stored priorities" *)
Theorem root_is_min d l : MInv (2 ^ d) l ->
  (forall k, k < 2 ^ d -> ole (root qomin None (2 ^ d) l) (mleaf (2 ^ d) l k)) /\
  (exists k, k < 2 ^ d /\ root qomin None (2 ^ d) l = mleaf (2 ^ d) l k).
Proof.
  intros HI. rewrite (root_is_bfold qomin None d l HI). split.
  - intros k Hk. apply bfold_min_le. lia.
  - destruct (bfold_min_attained (2 ^ d) l d 0) as (k & Hk & E). exists k. split; [lia|auto].
Qed.

(* ---- stratified query masses of _sample_proportional ---- *)
Lemma inject_nat_succ k : (inject_Z (Z.of_nat (k + 1)) == inject_Z (Z.of_nat k) + 1)%Q.
Proof. rewrite Nat2Z.inj_add, inject_Z_plus. reflexivity. Qed.

Lemma inject_nat_nonneg k : (0 <= inject_Z (Z.of_nat k))%Q.
Proof. change 0%Q with (inject_Z 0). rewrite <- Zle_Qle. lia. Qed.

Lemma inject_nat_lt k B : k < B -> (inject_Z (Z.of_nat k) + 1 <= inject_Z (Z.of_nat B))%Q.
Proof.
  intros H. change 1%Q with (inject_Z 1). rewrite <- inject_Z_plus, <- Zle_Qle. lia.
Qed.

(* for every batch size B >= 1, stratum k < B and draw 0 <= u < 1 (u = 0 included), the query mass
   lies in stratum k = [k*total/B, (k+1)*total/B), hence in [0, total) *)
Theorem stratum_bounds (total : Q) (B k : nat) (u : Q) :
  (0 < total)%Q -> k < B -> (0 <= u)%Q -> (u < 1)%Q ->
  let seg := c_div QC total (c_of_nat QC B) in
  let ub := upper_bound QC seg k u in
  (seg * inject_Z (Z.of_nat k) <= ub)%Q /\ (ub < seg * inject_Z (Z.of_nat (k + 1)))%Q /\
  (0 <= ub)%Q /\ (ub < total)%Q.
Proof.
  intros Ht Hk Hu0 Hu1 seg ub.
  unfold ub, upper_bound. cbn [c_mul c_add c_sub c_of_nat QC]. change (T QC) with Q in *.
  pose proof (inject_nat_succ k) as HS. pose proof (inject_nat_nonneg k) as HK0.
  pose proof (inject_nat_lt k B Hk) as HKB.
  set (K1 := inject_Z (Z.of_nat (k + 1))) in *. set (K := inject_Z (Z.of_nat k)) in *.
  assert (HN : (0 < inject_Z (Z.of_nat B))%Q) by lra.
  assert (Hseg : (seg * inject_Z (Z.of_nat B) == total)%Q).
  { unfold seg. cbn [c_div c_of_nat QC]. field. lra. }
  assert (Hpos : (0 < seg)%Q).
  { unfold seg. cbn [c_div c_of_nat QC]. apply Qlt_shift_div_l; lra. }
  set (N := inject_Z (Z.of_nat B)) in *. clearbody K K1 N seg.
  rewrite HS.
  assert (E : (u * (seg * (K + 1) - seg * K) + seg * K == u * seg + seg * K)%Q) by ring.
  rewrite E.
  assert (0 <= u * seg)%Q by nra.
  assert (u * seg < seg)%Q by nra.
  assert (0 <= seg * K)%Q by nra.
  assert (seg * (K + 1) <= seg * N)%Q by nra.
  repeat split; nra.
Qed.
