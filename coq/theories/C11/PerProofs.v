(* C11 — the PrioritizedReplayBuffer state machine over exact rationals: invariant of every
   interleaving of add / update_priorities / sample / clear, and what it implies. *)
From Coq Require Import List Arith Lia Bool ZArith QArith Lqa.
Import ListNotations.
From AgileV Require Import C11.Model C11.TreeProofs C11.SumProofs C11.MinProofs.
Local Open Scope nat_scope.

Arguments max_size {C} _. Arguments tcap {C} _. Arguments size {C} _. Arguments cursor {C} _.
Arguments tree_ptr {C} _. Arguments max_prio {C} _. Arguments sumt {C} _. Arguments mint {C} _.

Notation qper := (per QC).
Notation sleaf s k := (leaf 0%Q (tcap s) (sumt s) k).
Notation nleaf s k := (@leaf (option Q) None (tcap s) (mint s) k).
Notation total s := (root Qplus 0%Q (tcap s) (sumt s)).

(* ---------- arithmetic helpers ---------- *)
Lemma tcap_go_spec m : forall fuel c k, c = 2 ^ k -> m <= c + fuel ->
  exists d, tcap_go fuel c m = 2 ^ d /\ m <= 2 ^ d.
Proof.
  induction fuel as [|f IH]; intros c k Hc Hm; cbn [tcap_go].
  - exists k. subst. split; auto. lia.
  - destruct (Nat.ltb_spec c m).
    + apply (IH (2 * c) (S k)); [subst; rewrite Nat.pow_succ_r'; reflexivity|].
      pose proof (pow2_ge_1 k). lia.
    + exists k. subst; split; auto.
Qed.

Lemma tree_capacity_spec m : exists d, tree_capacity m = 2 ^ d /\ m <= 2 ^ d.
Proof. unfold tree_capacity. apply (tcap_go_spec m m 1 0); cbn; lia. Qed.

Lemma add_support size m ptr n k : 0 < m -> size <= m -> ptr < m -> (size < m -> ptr = size) ->
  ((k < size \/ exists j, j < n /\ k = (ptr + j) mod m) <-> k < Nat.min (size + n) m).
Proof.
  intros Hm Hs Hp Hps. split.
  - intros [H|(j & Hj & ->)]; [lia|].
    pose proof (Nat.mod_upper_bound (ptr + j) m ltac:(lia)).
    destruct (Nat.eq_dec size m) as [->|Hne]; [lia|].
    rewrite Hps in * by lia.
    destruct (Nat.lt_ge_cases (size + j) m).
    + rewrite Nat.mod_small by lia. lia.
    + lia.
  - intros H. destruct (Nat.lt_ge_cases k size); [left; auto|right].
    exists (k - size). split; [lia|].
    rewrite Hps by lia. replace (size + (k - size)) with k by lia.
    symmetry. apply Nat.mod_small. lia.
Qed.

Lemma eps_pos : (0 < eps_Q)%Q.
Proof. unfold eps_Q, Qlt; cbn; lia. Qed.

Section PerFacts.
Variable powa : Q -> Q.
Hypothesis powa_pos : forall x, (0 < x)%Q -> (0 < powa x)%Q.

Notation update_priority := (update_priority QC powa).
Notation add_loop := (add_loop QC powa).
Notation per_add := (per_add QC powa).
Notation per_update := (per_update QC powa).
Notation per_step := (per_step QC powa).
Notation per_run := (per_run QC powa).

(* exactly the leaves in P carry a (positive) priority, in both trees; the others are 0 / inf *)
Definition leaves_ok (s : qper) (P : nat -> Prop) : Prop :=
  forall k, k < tcap s ->
    (P k -> (0 < sleaf s k)%Q /\ nleaf s k = Some (sleaf s k)) /\
    (~ P k -> sleaf s k = 0%Q /\ nleaf s k = None).

Lemma leaves_ok_ext s P P' : (forall k, P k <-> P' k) -> leaves_ok s P -> leaves_ok s P'.
Proof.
  intros E H k Hk. destruct (H k Hk) as [H1 H2]. split; intro X.
  - apply H1, E, X.
  - apply H2. intro Y. apply X, E, Y.
Qed.

Record shape (s : qper) : Prop := {
  sh_pow : exists d, tcap s = 2 ^ d;
  sh_max : 0 < max_size s <= tcap s;
  sh_sum : QInv (tcap s) (sumt s);
  sh_min : MInv (tcap s) (mint s);
  sh_maxp : (1 <= max_prio s)%Q
}.

Definition same_frame (s s' : qper) : Prop :=
  max_size s' = max_size s /\ tcap s' = tcap s /\ size s' = size s /\ cursor s' = cursor s.

(* ---------- _update_priority ---------- *)
Lemma update_priority_ok s idx p P :
  shape s -> idx < max_size s -> (0 < p)%Q -> leaves_ok s P ->
  exists s', update_priority s idx p = Some s' /\ shape s' /\ same_frame s s' /\
    tree_ptr s' = tree_ptr s /\
    max_prio s' = (if c_ltb QC (max_prio s) p then p else max_prio s) /\
    leaves_ok s' (fun k => P k \/ k = idx) /\
    sleaf s' idx = powa p /\
    (forall k, k <> idx -> sleaf s' k = sleaf s k).
Proof.
  intros [Hpow Hmax Hsum Hmin Hmp] Hidx Hp HL.
  unfold Model.update_priority. destruct (Nat.ltb_spec idx (max_size s)) as [_|]; [|lia].
  eexists. split; [reflexivity|]. unfold leaves_ok, same_frame.
  cbn [max_size tcap size cursor tree_ptr max_prio sumt mint].
  change (c_add QC) with Qplus in *. change (c_zero QC) with 0%Q in *. change (T QC) with Q in *.
  assert (Hic : idx < tcap s) by lia.
  split; [|split; [|split; [|split; [|split; [|split]]]]].
  - constructor; cbn [max_size tcap size cursor tree_ptr max_prio sumt mint]; auto.
    + apply setitem_inv; auto.
    + apply setitem_inv; auto.
    + destruct (c_ltb QC (max_prio s) p) eqn:E; auto. apply qltb_true in E. lra.
  - repeat split.
  - reflexivity.
  - reflexivity.
  - intros k Hk. destruct (Nat.eq_dec k idx) as [->|Hne].
    + rewrite !setitem_leaf_same by (try apply Hsum; try apply Hmin; auto).
      split; [intros _; split; [apply powa_pos; auto|reflexivity]|].
      intros X. exfalso. apply X. auto.
    + rewrite !setitem_leaf_other by auto.
      destruct (HL k Hk) as [H1 H2]. split.
      * intros [X|X]; [auto|contradiction].
      * intros X. apply H2. intro Y. apply X. auto.
  - apply setitem_leaf_same; [apply Hsum|auto].
  - intros k Hne. apply setitem_leaf_other; auto.
Qed.

Lemma shape_set_ptr s p : shape s -> shape (set_ptr QC s p).
Proof. intros [A B C D E]. constructor; auto. Qed.

(* ---------- the loop of add() ---------- *)
Lemma add_loop_ok : forall n s P,
  shape s -> tree_ptr s < max_size s -> leaves_ok s P ->
  exists s', add_loop n s = Some s' /\ shape s' /\ same_frame s s' /\
    tree_ptr s' = (tree_ptr s + n) mod max_size s /\
    max_prio s' = max_prio s /\
    leaves_ok s' (fun k => P k \/ exists j, j < n /\ k = (tree_ptr s + j) mod max_size s) /\
    (forall k, k < tcap s -> sleaf s k = powa (max_prio s) -> sleaf s' k = powa (max_prio s)) /\
    (forall j, j < n -> sleaf s' ((tree_ptr s + j) mod max_size s) = powa (max_prio s)).
Proof.
  induction n as [|n IH]; intros s P Hsh Hptr HL.
  - exists s. cbn [Model.add_loop]. split; [reflexivity|]. split; [auto|]. split; [repeat split|].
    split; [rewrite Nat.add_0_r; symmetry; apply Nat.mod_small; auto|]. split; [reflexivity|].
    split; [|split; [auto|intros j Hj; lia]].
    eapply leaves_ok_ext; [|exact HL]. intros k. split; [auto|]. intros [X|(j & Hj & _)]; [auto|lia].
  - cbn [Model.add_loop].
    assert (Hmp : (0 < max_prio s)%Q) by (pose proof (sh_maxp s Hsh); lra).
    destruct (update_priority_ok s (tree_ptr s) (max_prio s) P Hsh Hptr Hmp HL)
      as (s1 & E1 & Hsh1 & (Fm & Ft & Fs & Fc) & Hp1 & Hm1 & HL1 & Hsame & Hoth).
    rewrite E1.
    assert (Hm1' : max_prio s1 = max_prio s) by (rewrite Hm1; destruct (c_ltb QC (max_prio s) (max_prio s)); auto).
    set (m := max_size s) in *.
    assert (Hm : 0 < m) by (unfold m; pose proof (sh_max s Hsh); lia).
    set (s2 := set_ptr QC s1 ((tree_ptr s + 1) mod m)).
    assert (Hsh2 : shape s2) by (apply shape_set_ptr; auto).
    assert (Hptr2 : tree_ptr s2 < max_size s2).
    { cbn. rewrite Fm. apply Nat.mod_upper_bound. fold m. lia. }
    destruct (IH s2 (fun k => P k \/ k = tree_ptr s) Hsh2 Hptr2 HL1)
      as (s' & E' & Hsh' & (Gm & Gt & Gs & Gc) & Hp' & Hm' & HL' & Hkeep & Hnew).
    exists s'. split; [exact E'|]. split; [auto|].
    unfold s2 in *. cbn [set_ptr max_size tcap size cursor tree_ptr max_prio sumt mint] in *.
    split; [unfold same_frame, m in *; repeat split; congruence|].
    rewrite Fm in *. fold m in Hp', HL', Hnew.
    split.
    { rewrite Hp'. rewrite Nat.add_mod_idemp_l by lia. f_equal. lia. }
    split; [congruence|].
    assert (Hshift : forall j, ((tree_ptr s + 1) mod m + j) mod m = (tree_ptr s + S j) mod m).
    { intros j. rewrite Nat.add_mod_idemp_l by lia. f_equal. lia. }
    split; [|split].
    + eapply leaves_ok_ext; [|exact HL']. intros k. split.
      * intros [[X|X]|(j & Hj & X)].
        -- auto.
        -- right. exists 0. split; [lia|]. rewrite Nat.add_0_r, Nat.mod_small by (fold m; auto). auto.
        -- right. exists (S j). split; [lia|]. rewrite <- Hshift. auto.
      * intros [X|(j & Hj & X)]; [auto|].
        destruct j as [|j].
        -- left. right. rewrite Nat.add_0_r, Nat.mod_small in X by auto. auto.
        -- right. exists j. split; [lia|]. rewrite Hshift. auto.
    + intros k Hk Hv. rewrite Hm1' in Hkeep. apply Hkeep; [congruence|].
      rewrite Ft. destruct (Nat.eq_dec k (tree_ptr s)) as [->|Hne]; [rewrite <- Ft; exact Hsame|].
      rewrite <- Ft, Hoth by auto. exact Hv.
    + intros j Hj. rewrite Hm1' in Hnew, Hkeep. destruct j as [|j].
      * rewrite Nat.add_0_r, Nat.mod_small by auto. apply Hkeep; [rewrite Ft; pose proof (sh_max s Hsh) as Hx; fold m in Hx; lia|].
        exact Hsame.
      * rewrite <- Hshift. apply Hnew. lia.
Qed.

(* ---------- the invariant of the buffer ---------- *)
Record per_inv (s : qper) : Prop := {
  pi_shape : shape s;
  pi_size : size s <= max_size s;
  pi_ptr : tree_ptr s < max_size s;
  pi_ptr_size : size s < max_size s -> tree_ptr s = size s;
  pi_cursor : cursor s = tree_ptr s;
  pi_leaves : leaves_ok s (fun k => k < size s)       (* positive priority <-> stored *)
}.

Lemma init_inv_per m : 0 < m -> per_inv (per_init QC m).
Proof.
  intros Hm. destruct (tree_capacity_spec m) as (d & Hd & Hmd).
  constructor; cbn [per_init max_size tcap size cursor tree_ptr max_prio sumt mint]; try lia; auto.
  - constructor; cbn [per_init max_size tcap size cursor tree_ptr max_prio sumt mint].
    + exists d; auto.
    + lia.
    + apply init_inv. reflexivity.
    + apply init_inv. reflexivity.
    + cbn. lra.
  - intros k Hk. split; [lia|]. intros _. split; apply init_leaf.
Qed.

(* add(n transitions) *)
Lemma add_inv s n : per_inv s ->
  exists s', per_add s n = Some s' /\ per_inv s' /\
    max_size s' = max_size s /\ tcap s' = tcap s /\
    size s' = Nat.min (size s + n) (max_size s) /\
    max_prio s' = max_prio s /\
    (forall j, j < n -> sleaf s' ((tree_ptr s + j) mod max_size s) = powa (max_prio s)) /\
    cursor s' = (cursor s + n) mod max_size s.
Proof.
  intros [Hsh Hsz Hptr Hps Hcur HL]. unfold Model.per_add.
  set (s0 := {| max_size := max_size s |}).
  assert (Hsh0 : shape s0) by (destruct Hsh; constructor; auto).
  destruct (add_loop_ok n s0 (fun k => k < size s) Hsh0 Hptr HL)
    as (s' & E & Hsh' & (Gm & Gt & Gs & Gc) & Hp' & Hm' & HL' & _ & Hnew).
  cbn [s0 max_size tcap size cursor tree_ptr max_prio sumt mint] in *.
  exists s'. split; [exact E|].
  pose proof (sh_max s Hsh) as Hmx.
  split; [|repeat split; auto].
  constructor; auto.
  - rewrite Gs, Gm. lia.
  - rewrite Hp', Gm. apply Nat.mod_upper_bound. lia.
  - rewrite Gs, Gm, Hp'. intros H.
    assert (size s + n < max_size s) by lia.
    rewrite Hps by lia. rewrite Nat.mod_small by lia. lia.
  - rewrite Gc, Hp', Hcur. reflexivity.
  - eapply leaves_ok_ext; [|exact HL']. intros k. rewrite Gs.
    apply add_support; auto; lia.
Qed.

(* update_priorities on indices of stored transitions *)
Lemma floor_pos p : (0 < floor_prio QC p)%Q.
Proof.
  unfold floor_prio. cbn [c_eps QC]. destruct (c_ltb QC p eps_Q) eqn:E.
  - apply eps_pos.
  - apply qltb_false in E. pose proof eps_pos. lra.
Qed.

Lemma update_inv : forall ps s, per_inv s -> Forall (fun ip => fst ip < size s) ps ->
  exists s', per_update s ps = (s', false) /\ per_inv s' /\
    max_size s' = max_size s /\ tcap s' = tcap s /\ size s' = size s /\ tree_ptr s' = tree_ptr s /\
    (max_prio s <= max_prio s')%Q /\
    Forall (fun ip => (floor_prio QC (snd ip) <= max_prio s')%Q) ps /\
    (max_prio s' = max_prio s \/ exists ip, In ip ps /\ max_prio s' = floor_prio QC (snd ip)).
Proof.
  induction ps as [|[i p] ps IH]; intros s HI HF.
  - exists s. split; [reflexivity|]. split; [auto|]. repeat split; auto. apply Qle_refl.
  - inversion HF as [|? ? Hi HF']; subst. cbn [fst] in Hi.
    destruct HI as [Hsh Hsz Hptr Hps Hcur HL].
    cbn [Model.per_update].
    destruct (update_priority_ok s i (floor_prio QC p) _ Hsh ltac:(lia) (floor_pos p) HL)
      as (s1 & E1 & Hsh1 & (Fm & Ft & Fs & Fc) & Hp1 & Hm1 & HL1 & _ & _).
    rewrite E1.
    assert (HI1 : per_inv s1).
    { constructor; auto; rewrite ?Fs, ?Fm, ?Hp1, ?Fc; auto.
      eapply leaves_ok_ext; [|exact HL1]. intros k. split; [intros [X|X]; lia|auto]. }
    destruct (IH s1 HI1) as (s' & E' & HI' & Gm & Gt & Gs & Gp & Hle & Hall & Hatt).
    { rewrite Fs. exact HF'. }
    exists s'. split; [exact E'|]. split; [exact HI'|].
    assert (Hstep : (max_prio s <= max_prio s1)%Q /\ (floor_prio QC p <= max_prio s1)%Q /\
                    (max_prio s1 = max_prio s \/ max_prio s1 = floor_prio QC p)).
    { rewrite Hm1. destruct (c_ltb QC (max_prio s) (floor_prio QC p)) eqn:E.
      - apply qltb_true in E. repeat split; auto; lra.
      - apply qltb_false in E. repeat split; auto; lra. }
    destruct Hstep as (S1 & S2 & S3).
    repeat split; try congruence.
    + lra.
    + constructor; [cbn [snd]; lra|exact Hall].
    + destruct Hatt as [X|(ip & Hin & X)].
      * destruct S3 as [Y|Y]; [left; congruence|right]. exists (i, p). split; [left; auto|cbn [snd]; congruence].
      * right. exists ip. split; [right; auto|auto].
Qed.

(* ---------- every interleaving keeps the invariant ---------- *)
Definition op_ok (s : qper) (o : pop QC) : Prop :=
  match o with
  | Update ps => Forall (fun ip => fst ip < size s) ps     (* priorities of stored transitions *)
  | _ => True
  end.

Fixpoint run_ok (s : qper) (ops : list (pop QC)) : Prop :=
  match ops with
  | [] => True
  | o :: r => op_ok s o /\ run_ok (fst (per_step s o)) r
  end.

Lemma step_inv s o : per_inv s -> op_ok s o ->
  per_inv (fst (per_step s o)) /\ snd (per_step s o) = false /\
  max_size (fst (per_step s o)) = max_size s.
Proof.
  intros HI Hok. destruct o as [n|ps|us|]; cbn [Model.per_step].
  - destruct (add_inv s n HI) as (s' & E & HI' & Hm & _). rewrite E. auto.
  - destruct (update_inv ps s HI Hok) as (s' & E & HI' & Hm & _). rewrite E. auto.
  - auto.
  - cbn [fst snd]. split; [|split; reflexivity].
    apply init_inv_per. pose proof (sh_max s (pi_shape s HI)). lia.
Qed.

Lemma run_inv : forall ops s, per_inv s -> run_ok s ops ->
  per_inv (fold_left (fun s o => fst (per_step s o)) ops s).
Proof.
  induction ops as [|o r IH]; intros s HI Hok; cbn [fold_left]; auto.
  destruct Hok as [H1 H2]. apply IH; auto. apply step_inv; auto.
Qed.

Theorem per_run_inv m ops : 0 < m -> run_ok (per_init QC m) ops -> per_inv (per_run m ops).
Proof. intros Hm Hok. unfold Model.per_run. apply run_inv; auto. apply init_inv_per; auto. Qed.

(* ---------- sampling ---------- *)
Lemma leaves_nonneg s : per_inv s -> forall k, k < tcap s -> (0 <= sleaf s k)%Q.
Proof.
  intros HI k Hk. destruct (pi_leaves s HI k Hk) as [H1 H2].
  destruct (Nat.lt_ge_cases k (size s)) as [X|X].
  - destruct (H1 X). lra.
  - destruct (H2 ltac:(lia)) as [E _]. rewrite E. lra.
Qed.

Lemma total_pos s : per_inv s -> 0 < size s -> (0 < total s)%Q.
Proof.
  intros HI Hs. pose proof (pi_shape s HI) as Hsh. destruct (sh_pow s Hsh) as (d & Hd).
  pose proof (sh_sum s Hsh) as HS. pose proof (sh_max s Hsh) as Hmx. pose proof (pi_size s HI) as Hsz.
  pose proof (leaves_nonneg s HI) as Hnn.
  destruct (pi_leaves s HI 0 ltac:(lia)) as [H1 _]. destruct (H1 Hs) as [Hp _].
  rewrite Hd in *. rewrite root_is_sum by exact HS.
  pose proof (lsum_mono (2 ^ d) (sumt s) Hnn 1 (2 ^ d) ltac:(lia) ltac:(lia)) as Hm.
  rewrite lsum_succ in Hm. cbn [lsum] in Hm. lra.
Qed.

(* what one stratified draw returns *)
Definition hit (s : qper) (B k : nat) (u : Q) (r : nat) : Prop :=
  let c := tcap s in
  let seg := c_div QC (total s) (c_of_nat QC B) in
  let ub := upper_bound QC seg k u in
  r < size s /\                                                        (* a stored transition *)
  (lsum c (sumt s) 0 r <= ub)%Q /\ (ub < lsum c (sumt s) 0 r + sleaf s r)%Q /\   (* its prefix-sum interval *)
  (seg * inject_Z (Z.of_nat k) <= ub)%Q /\ (ub < seg * inject_Z (Z.of_nat (k + 1)))%Q.  (* stratum k *)

Definition draw_ok (u : Q) : Prop := (0 <= u)%Q /\ (u < 1)%Q.

Lemma sample_go_spec s B : per_inv s -> 0 < size s ->
  forall us i, i + length us = B -> Forall draw_ok us ->
  exists idxs, sample_go QC s (c_div QC (total s) (c_of_nat QC B)) i us = Some idxs /\
    length idxs = length us /\
    forall j u, nth_error us j = Some u -> exists r, nth_error idxs j = Some r /\ hit s B (i + j) u r.
Proof.
  intros HI Hs. pose proof (pi_shape s HI) as Hsh. destruct (sh_pow s Hsh) as (d & Hd).
  pose proof (total_pos s HI Hs) as Htot.
  induction us as [|u us IH]; intros i Hlen HF.
  - exists []. cbn. split; [auto|split; [auto|]]. intros [|j] u; cbn; discriminate.
  - apply Forall_cons_iff in HF. destruct HF as [[Hu0 Hu1] HF']. cbn [length] in Hlen.
    cbn [sample_go].
    destruct (stratum_bounds (total s) B i u Htot ltac:(lia) Hu0 Hu1) as (B1 & B2 & B3 & B4).
    set (seg := c_div QC (total s) (c_of_nat QC B)) in *.
    set (ub := upper_bound QC seg i u) in *.
    pose proof (sh_sum s Hsh) as HS.
    assert (Hret : exists r, retrieve QC (tcap s) (sumt s) ub = Some r /\ r < tcap s /\
       (lsum (tcap s) (sumt s) 0 r <= ub)%Q /\ (ub < lsum (tcap s) (sumt s) 0 r + sleaf s r)%Q /\ (0 < sleaf s r)%Q).
    { pose proof (leaves_nonneg s HI) as Hnn. clearbody ub. rewrite Hd in *. apply SumProofs.retrieve_spec; auto. }
    destruct Hret as (r & Er & Hrc & R1 & R2 & R3).
    rewrite Er.
    destruct (IH (S i) ltac:(lia) HF') as (idxs & E & Hl & Hall).
    rewrite E. exists (r :: idxs). split; [reflexivity|]. split; [cbn; lia|].
    intros [|j] u' Hn; cbn [nth_error] in *.
    + inversion Hn; subst u'. exists r. split; [reflexivity|]. rewrite Nat.add_0_r.
      unfold hit. fold seg. fold ub. repeat split; auto.
      destruct (Nat.lt_ge_cases r (size s)) as [X|X]; auto.
      destruct (pi_leaves s HI r Hrc) as [_ H2]. destruct (H2 ltac:(lia)) as [E0 _]. rewrite E0 in R3. lra.
    + destruct (Hall j u' Hn) as (r' & Hr' & Hh). exists r'. split; [auto|].
      replace (i + S j) with (S i + j) by lia. exact Hh.
Qed.

Lemma min_root_some s : per_inv s -> 0 < size s ->
  exists j, j < size s /\ root qomin None (tcap s) (mint s) = Some (sleaf s j) /\
    forall k, k < size s -> (sleaf s j <= sleaf s k)%Q.
Proof.
  intros HI Hs. pose proof (pi_shape s HI) as Hsh. destruct (sh_pow s Hsh) as (d & Hd).
  pose proof (sh_min s Hsh) as HM. pose proof (sh_max s Hsh) as Hmx. pose proof (pi_size s HI) as Hsz.
  pose proof (pi_leaves s HI) as HL.
  rewrite Hd in HM. destruct (root_is_min d (mint s) HM) as [Hle (j & Hj & Ej)].
  rewrite <- Hd in *.
  assert (Hjs : j < size s).
  { destruct (Nat.lt_ge_cases j (size s)) as [X|X]; auto. exfalso.
    destruct (HL j Hj) as [_ H2]. destruct (H2 ltac:(lia)) as [_ En].
    destruct (HL 0 ltac:(lia)) as [H1 _]. destruct (H1 Hs) as [_ E0].
    specialize (Hle 0 ltac:(lia)). rewrite Ej, En, E0 in Hle. exact Hle. }
  exists j. split; [auto|].
  destruct (HL j Hj) as [H1 _]. destruct (H1 Hjs) as [_ Enj].
  split; [rewrite Ej; exact Enj|].
  intros k Hk. destruct (HL k ltac:(lia)) as [K1 _]. destruct (K1 Hk) as [_ Enk].
  specialize (Hle k ltac:(lia)). rewrite Ej, Enj, Enk in Hle. exact Hle.
Qed.

Section Weights.
Variable powb : Q -> Q.

Lemma weights_some s idxs : per_inv s -> 0 < size s -> Forall (fun i => i < size s) idxs ->
  exists ws, calculate_weights QC powb s idxs = Some ws /\ length ws = length idxs.
Proof.
  intros HI Hs HF. destruct (min_root_some s HI Hs) as (j & Hj & Ej & _).
  unfold calculate_weights. rewrite Ej.
  assert (Hfb : forallb (fun i => i <? tcap s) idxs = true).
  { apply forallb_forall. intros i Hi. rewrite Forall_forall in HF. specialize (HF i Hi).
    pose proof (sh_max s (pi_shape s HI)). pose proof (pi_size s HI). apply Nat.ltb_lt. lia. }
  rewrite Hfb. eexists. split; [reflexivity|]. apply map_length.
Qed.

(* sample(batch_size = |us|) on a non-empty buffer, for every draw of the uniform variates in [0,1):
   succeeds, returns |us| indices of STORED transitions, the k-th one being the index whose
   prefix-sum interval contains the query mass of stratum k *)
Theorem sample_ok s us : per_inv s -> 0 < size s -> Forall draw_ok us ->
  exists idxs ws, per_sample QC powb s us = Some (idxs, ws) /\
    length idxs = length us /\ length ws = length us /\
    Forall (fun i => i < size s) idxs /\
    forall k u, nth_error us k = Some u -> exists r, nth_error idxs k = Some r /\ hit s (length us) k u r.
Proof.
  intros HI Hs HF.
  destruct (sample_go_spec s (length us) HI Hs us 0 ltac:(lia) HF) as (idxs & E & Hl & Hall).
  assert (Hst : Forall (fun i => i < size s) idxs).
  { apply Forall_forall. intros i Hi. destruct (In_nth_error _ _ Hi) as (k & Hk).
    assert (Hkl : k < length us) by (rewrite <- Hl; apply nth_error_Some; congruence).
    destruct (nth_error us k) as [u|] eqn:Eu; [|apply nth_error_None in Eu; lia].
    destruct (Hall k u Eu) as (r & Hr & Hh). cbn in Hh. rewrite Hk in Hr. inversion Hr; subst. apply Hh. }
  destruct (weights_some s idxs HI Hs Hst) as (ws & Ew & Hlw).
  exists idxs, ws. unfold per_sample, sample_proportional. change (c_add QC) with Qplus. change (c_zero QC) with 0%Q. change (T QC) with Q in *. rewrite E, Ew.
  split; [reflexivity|]. split; [auto|]. split; [congruence|]. split; [auto|]. exact Hall.
Qed.

(* ---------- importance weights ---------- *)
Hypothesis powb_pos : forall x, (0 < x)%Q -> (0 < powb x)%Q.
Hypothesis powb_anti : forall x y, (0 < x)%Q -> (x <= y)%Q -> (powb y <= powb x)%Q.

(* N * P(i) as the code computes it *)
Definition NP (s : qper) (i : nat) : Q := (sleaf s i / total s * inject_Z (Z.of_nat (size s)))%Q.

Lemma scale_le a b t n : (0 < t)%Q -> (0 <= n)%Q -> (a <= b)%Q -> (a / t * n <= b / t * n)%Q.
Proof.
  intros Ht Hn Hab. apply Qmult_le_compat_r; auto. unfold Qdiv. apply Qmult_le_compat_r; auto.
  apply Qinv_le_0_compat. lra.
Qed.
Lemma scale_pos a t n : (0 < t)%Q -> (0 < n)%Q -> (0 < a)%Q -> (0 < a / t * n)%Q.
Proof.
  intros Ht Hn Ha. apply Qmult_lt_0_compat; auto. unfold Qdiv. apply Qmult_lt_0_compat; auto.
  apply Qinv_lt_0_compat; auto.
Qed.

(* weights = (N P(i))^-beta / max_j (N P(j))^-beta, each in (0, 1]; the maximum is attained by a
   stored transition (the one of minimal priority, read from the min tree) *)
Theorem weights_spec s idxs : per_inv s -> 0 < size s -> Forall (fun i => i < size s) idxs ->
  exists maxw,
    calculate_weights QC powb s idxs = Some (map (fun i => powb (NP s i) / maxw)%Q idxs) /\
    (exists j, j < size s /\ maxw = powb (NP s j)) /\
    (forall k, k < size s -> (powb (NP s k) <= maxw)%Q) /\
    (forall i, i < size s -> (0 < powb (NP s i) / maxw)%Q /\ (powb (NP s i) / maxw <= 1)%Q).
Proof.
  intros HI Hs HF. destruct (min_root_some s HI Hs) as (j & Hj & Ej & Hmin).
  pose proof (total_pos s HI Hs) as Htot.
  assert (HN : (0 < inject_Z (Z.of_nat (size s)))%Q).
  { change 0%Q with (inject_Z 0). rewrite <- Zlt_Qlt. lia. }
  assert (Hpos : forall k, k < size s -> (0 < NP s k)%Q).
  { intros k Hk. unfold NP. apply scale_pos; auto.
    pose proof (sh_max s (pi_shape s HI)). pose proof (pi_size s HI).
    destruct (pi_leaves s HI k ltac:(lia)) as [H1 _]. apply H1; auto. }
  assert (Hle : forall k, k < size s -> (powb (NP s k) <= powb (NP s j))%Q).
  { intros k Hk. apply powb_anti; [apply Hpos; auto|]. unfold NP. apply scale_le; auto; lra. }
  exists (powb (NP s j)).
  split.
  { unfold calculate_weights. rewrite Ej.
    assert (Hfb : forallb (fun i => i <? tcap s) idxs = true).
    { apply forallb_forall. intros i Hi. rewrite Forall_forall in HF. specialize (HF i Hi).
      pose proof (sh_max s (pi_shape s HI)). pose proof (pi_size s HI). apply Nat.ltb_lt. lia. }
    rewrite Hfb. reflexivity. }
  split; [exists j; auto|]. split; [exact Hle|].
  intros i Hi. pose proof (powb_pos _ (Hpos j Hj)) as Hmw. pose proof (powb_pos _ (Hpos i Hi)) as Hwi.
  split.
  - apply Qlt_shift_div_l; auto. lra.
  - apply Qle_shift_div_r; auto. specialize (Hle i Hi). lra.
Qed.
End Weights.

(* ---------- a new transition gets the highest priority seen so far ---------- *)
Theorem new_gets_max s n : per_inv s ->
  exists s', per_add s n = Some s' /\ per_inv s' /\ max_prio s' = max_prio s /\
    size s' = Nat.min (size s + n) (max_size s) /\
    forall j, j < n -> sleaf s' ((tree_ptr s + j) mod max_size s) = powa (max_prio s).
Proof.
  intros HI. destruct (add_inv s n HI) as (s' & E & HI' & _ & _ & Hs & Hm & Hnew & _).
  exists s'. split; [exact E|]. split; [exact HI'|]. split; [exact Hm|]. split; [exact Hs|exact Hnew].
Qed.

(* ---------- clear() ---------- *)
Lemma run_app ops1 ops2 s :
  fold_left (fun s o => fst (per_step s o)) (ops1 ++ ops2) s =
  fold_left (fun s o => fst (per_step s o)) ops2 (fold_left (fun s o => fst (per_step s o)) ops1 s).
Proof. apply fold_left_app. Qed.

Lemma step_max_size s o : max_size (fst (per_step s o)) = max_size s.
Proof.
  destruct o as [n|ps|us|]; cbn [Model.per_step]; auto.
  - unfold Model.per_add.
    set (s0 := {| max_size := max_size s |}).
    assert (H : forall n t t', add_loop n t = Some t' -> max_size t' = max_size t).
    { induction n0 as [|k IH]; intros t t' E; cbn [Model.add_loop] in E.
      - inversion E; auto.
      - unfold Model.update_priority in E. destruct (tree_ptr t <? max_size t); [|discriminate].
        apply IH in E. cbn in E. exact E. }
    destruct (add_loop n s0) eqn:E; cbn [fst]; auto. apply H in E. exact E.
  - assert (H : forall ps t, max_size (fst (per_update t ps)) = max_size t).
    { induction ps0 as [|[i p] r IH]; intros t; cbn [Model.per_update fst]; auto.
      unfold Model.update_priority. destruct (i <? max_size t); cbn [fst]; auto.
      rewrite IH. reflexivity. }
    apply H.
Qed.

Lemma run_max_size : forall ops s, max_size (fold_left (fun s o => fst (per_step s o)) ops s) = max_size s.
Proof. induction ops as [|o r IH]; intros s; cbn [fold_left]; auto. rewrite IH. apply step_max_size. Qed.

(* after clear() the buffer behaves as a new one *)
Theorem clear_fresh m ops1 ops2 : per_run m (ops1 ++ Clear :: ops2) = per_run m ops2.
Proof.
  unfold Model.per_run. rewrite run_app. cbn [fold_left Model.per_step fst]. unfold per_clear.
  rewrite run_max_size. reflexivity.
Qed.
End PerFacts.

(* after ANY interleaving of add / update_priorities (of stored indices) / sample / clear, sample()
   returns indices of stored transitions only, one per stratum, each with its prefix-sum interval *)
Theorem sampled_are_stored_lemma (powa powb : Q -> Q) :
  (forall x, (0 < x)%Q -> (0 < powa x)%Q) ->
  forall m ops us, 0 < m -> run_ok powa (per_init QC m) ops ->
  let s := per_run QC powa m ops in
  0 < size s -> Forall draw_ok us ->
  exists idxs ws, per_sample QC powb s us = Some (idxs, ws) /\
    length idxs = length us /\ length ws = length us /\
    Forall (fun i => i < size s) idxs /\
    forall k u, nth_error us k = Some u -> exists r, nth_error idxs k = Some r /\ hit s (length us) k u r.
Proof.
  intros Hp m ops us Hm Hok s Hs HF. apply sample_ok; auto.
  apply per_run_inv; auto.
Qed.

(* x -> 1/x is an admissible weight function (beta = 1): the hypotheses of weights_spec are satisfiable *)
Lemma qinv_pos_anti : (forall x, (0 < x)%Q -> (0 < / x)%Q) /\
  (forall x y, (0 < x)%Q -> (x <= y)%Q -> (/ y <= / x)%Q).
Proof.
  split; [intros x Hx; apply Qinv_lt_0_compat; auto|].
  intros x y Hx Hxy.
  assert (Hy : (0 < y)%Q) by lra.
  pose proof (Qinv_lt_0_compat x Hx) as Hix. pose proof (Qinv_lt_0_compat y Hy) as Hiy.
  assert (Ex : (x * / x == 1)%Q) by (apply Qmult_inv_r; lra).
  assert (Ey : (y * / y == 1)%Q) by (apply Qmult_inv_r; lra).
  set (ix := (/ x)%Q) in *. set (iy := (/ y)%Q) in *. clearbody ix iy.
  assert (H1 : (iy * x * ix <= iy * y * ix)%Q).
  { apply Qmult_le_compat_r; [|lra]. rewrite !(Qmult_comm iy). apply Qmult_le_compat_r; lra. }
  assert (E1 : (iy * x * ix == iy)%Q) by (rewrite <- Qmult_assoc, Ex; ring).
  assert (E2 : (iy * y * ix == ix)%Q) by (rewrite (Qmult_comm iy y), Ey; ring).
  lra.
Qed.
