(* C11 — the repaired assertion (idx < len): the invariant and "sampled indices are stored" hold for
   EVERY interleaving, whatever indices update_priorities is given (bad ones raise and change nothing
   after the processed prefix). With strict = false the parametrised model is the model of Model.v. *)
From Coq Require Import List Arith Lia Bool ZArith QArith Lqa.
Import ListNotations.
From AgileV Require Import C11.Model C11.Strict C11.TreeProofs C11.SumProofs C11.MinProofs C11.PerProofs.
Local Open Scope nat_scope.

Section Any.
Variable C : carrier.
Variable powa : C -> C.

Lemma update_priority_g_false s idx p : update_priority_g C powa false s idx p = update_priority C powa s idx p.
Proof. reflexivity. Qed.

Lemma add_loop_g_false n s : add_loop_g C powa false n s = add_loop C powa n s.
Proof. reflexivity. Qed.

Lemma per_update_g_false ps s : per_update_g C powa false s ps = per_update C powa s ps.
Proof. reflexivity. Qed.

Lemma per_step_g_false s o : per_step_g C powa false s o = per_step C powa s o.
Proof. destruct o; reflexivity. Qed.

(* the code as it is = the parametrised model at strict = false *)
Theorem per_run_g_false m ops : per_run_g C powa false m ops = per_run C powa m ops.
Proof.
  unfold per_run_g, per_run. generalize (per_init C m). induction ops as [|o r IH]; intros s; cbn [fold_left]; auto.
Qed.

Lemma add_loop_strict_eq : forall n s, 0 < max_size s -> tree_ptr s < max_size s ->
  (forall j, j < n -> (tree_ptr s + j) mod max_size s < size s) ->
  add_loop_g C powa true n s = add_loop C powa n s.
Proof.
  induction n as [|n IH]; intros s Hm Hp H; cbn [add_loop_g add_loop]; auto.
  pose proof (H 0 ltac:(lia)) as H0. rewrite Nat.add_0_r, Nat.mod_small in H0 by auto.
  unfold update_priority_g, update_priority, idx_bound.
  destruct (Nat.ltb_spec (tree_ptr s) (size s)); [|lia].
  destruct (Nat.ltb_spec (tree_ptr s) (max_size s)); [|lia].
  apply IH; cbn [set_ptr max_size tree_ptr size]; auto.
  - apply Nat.mod_upper_bound. lia.
  - intros j Hj. rewrite Nat.add_mod_idemp_l by lia.
    replace (tree_ptr s + 1 + j) with (tree_ptr s + S j) by lia. apply H. lia.
Qed.
End Any.

Section StrictQ.
Variable powa : Q -> Q.
Hypothesis powa_pos : forall x, (0 < x)%Q -> (0 < powa x)%Q.

Lemma add_strict_eq s n : per_inv s -> per_add_g QC powa true s n = per_add QC powa s n.
Proof.
  intros [Hsh Hsz Hptr Hps Hcur HL]. unfold per_add_g, per_add.
  pose proof (sh_max s Hsh) as Hmx.
  apply add_loop_strict_eq; cbn [max_size tree_ptr size]; try lia.
  intros j Hj. apply (add_support (size s) (max_size s) (tree_ptr s) n); auto; try lia.
  right. exists j. auto.
Qed.

Lemma update_strict_inv : forall ps s, per_inv s ->
  per_inv (fst (per_update_g QC powa true s ps)) /\
  max_size (fst (per_update_g QC powa true s ps)) = max_size s /\
  size (fst (per_update_g QC powa true s ps)) = size s.
Proof.
  induction ps as [|[i p] ps IH]; intros s HI; cbn [per_update_g fst]; auto.
  unfold update_priority_g, idx_bound.
  destruct (Nat.ltb_spec i (size s)) as [Hi|Hi]; [|cbn [fst]; auto].
  pose proof HI as [Hsh Hsz Hptr Hps Hcur HL].
  destruct (update_priority_ok powa powa_pos s i (floor_prio QC p) _ Hsh ltac:(lia) (floor_pos p) HL)
    as (s1 & E1 & Hsh1 & (Fm & Ft & Fs & Fc) & Hp1 & Hm1 & HL1 & _ & _).
  unfold update_priority in E1. destruct (Nat.ltb_spec i (max_size s)); [|lia].
  assert (Inj : forall X : per QC, Some X = Some s1 -> X = s1) by (intros X H'; inversion H'; auto).
  match goal with |- context [per_update_g QC powa true ?X ps] => rewrite (Inj X E1) end.
  assert (HI1 : per_inv s1).
  { constructor; auto; rewrite ?Fs, ?Fm, ?Hp1, ?Fc; auto.
    eapply leaves_ok_ext; [|exact HL1]. intros k. split; [intros [X|X]; lia|auto]. }
  destruct (IH s1 HI1) as (A & B & D). split; [exact A|]. split; congruence.
Qed.

(* EVERY operation keeps the invariant: no condition on the indices passed to update_priorities *)
Lemma strict_step_inv s o : per_inv s ->
  per_inv (fst (per_step_g QC powa true s o)) /\ max_size (fst (per_step_g QC powa true s o)) = max_size s.
Proof.
  intros HI. destruct o as [n|ps|us|]; cbn [per_step_g].
  - rewrite add_strict_eq by exact HI.
    destruct (add_inv powa powa_pos s n HI) as (s' & E & HI' & Hm & _). rewrite E. auto.
  - destruct (update_strict_inv ps s HI) as (A & B & _). auto.
  - auto.
  - cbn [fst]. split; [|reflexivity].
    apply init_inv_per. pose proof (sh_max s (pi_shape s HI)). lia.
Qed.

Theorem strict_run_inv m ops : 0 < m -> per_inv (per_run_g QC powa true m ops).
Proof.
  intros Hm. unfold per_run_g.
  assert (G : forall ops s, per_inv s -> per_inv (fold_left (fun s o => fst (per_step_g QC powa true s o)) ops s)).
  { induction ops0 as [|o r IH]; intros s HI; cbn [fold_left]; auto. apply IH. apply strict_step_inv; auto. }
  apply G. apply init_inv_per; auto.
Qed.

Theorem strict_sampled_are_stored (powb : Q -> Q) m ops us : 0 < m ->
  let s := per_run_g QC powa true m ops in
  0 < size s -> Forall draw_ok us ->
  exists idxs ws, per_sample QC powb s us = Some (idxs, ws) /\
    length idxs = length us /\ Forall (fun i => i < size s) idxs.
Proof.
  intros Hm s Hs HF.
  destruct (sample_ok powb s us (strict_run_inv m ops Hm) Hs HF) as (idxs & ws & E & Hl & _ & Hst & _).
  exists idxs, ws. auto.
Qed.

(* an update of an index that holds no transition is rejected and changes nothing *)
Lemma strict_rejects_unstored s i p r : size s <= i ->
  per_update_g QC powa true s ((i, p) :: r) = (s, true).
Proof.
  intros Hi. cbn [per_update_g]. unfold update_priority_g, idx_bound.
  destruct (Nat.ltb_spec i (size s)); [lia|reflexivity].
Qed.
End StrictQ.
