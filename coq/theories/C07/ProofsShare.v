(* C07/ProofsShare.v — every registry, shared encoders included: everything EXCEPT the hidden tensors is restored.
   With share_encoder_parameters the critics' detached encoder copies (class henc) are not in the file
   (share_hidden_lost_refuted); this file proves that they are the only thing that is lost: for every registry
   (any list of HSync / HShare / HBandit hooks) the restored agent has the saved fields and the saved content in every
   cell of every block that is not hidden — provided the file has no encoder entries for the networks whose encoder
   the share hook hides ([share_compat]; true for every agent saved in its shared state, checked by K). *)
From Coq Require Import List NArith QArith Lia Bool.
From AgileV Require Import Evo.Heap Evo.Evo Evo.EvoProofs C07.Model C07.Proofs C07.ProofsAbs.
Import ListNotations.
Open Scope N_scope.

Definition share_compat (r : registry) (B : blocks) : Prop := forall o, In o (share_targets r) -> getb (o, cEnc) B = [].

(* ---- block-level effect of hooks --------------------------------------------------------------- *)
Definition bk_ok (K : key -> bool) (f : lstate -> lstate) : Prop :=
  forall x k, K k = false -> getb k (a_blocks (snd (f x))) = getb k (a_blocks (snd x)).

Lemma bk_ok_id K : bk_ok K (fun x => x).
Proof. intros x k _. reflexivity. Qed.
Lemma bk_ok_comp K f g : bk_ok K f -> bk_ok K g -> bk_ok K (fun x => g (f x)).
Proof. intros Hf Hg x k Hk. rewrite Hg, Hf; auto. Qed.
Lemma bk_ok_seqL K fs : Forall (bk_ok K) fs -> bk_ok K (seqL fs).
Proof.
  unfold seqL. induction fs as [|f r IH]; intros H; cbn [fold_left]; [apply bk_ok_id|].
  inversion H; subst. apply (bk_ok_comp K f (fun x => fold_left (fun st g => g st) r x)); auto.
Qed.
Lemma bk_ok_dep K (F : lstate -> lstate -> lstate) : (forall y, bk_ok K (F y)) -> bk_ok K (fun x => F x x).
Proof. intros H x. exact (H x x). Qed.
Lemma bk_ok_if K (b : lstate -> bool) f g : bk_ok K f -> bk_ok K g -> bk_ok K (fun x => if b x then f x else g x).
Proof. intros Hf Hg x. destruct (b x); [apply Hf|apply Hg]. Qed.
Lemma bk_ok_weaken (K K' : key -> bool) f : (forall k, K k = true -> K' k = true) -> bk_ok K f -> bk_ok K' f.
Proof. intros HK Hf x k Hk. apply Hf. destruct (K k) eqn:E; auto. rewrite (HK k E) in Hk. discriminate. Qed.
Lemma bk_ok_realloc k' srcs : bk_ok (key_eqb k') (realloc k' srcs).
Proof.
  intros [s a] k Hk. unfold realloc. cbn [fst snd]. destruct (alloc s srcs) as [s' ls]. cbn [snd with_blocks a_blocks].
  apply getb_setb_other; auto.
Qed.
Lemma bk_ok_same K f : (forall x, a_blocks (snd (f x)) = a_blocks (snd x)) -> bk_ok K f.
Proof. intros H x k _. rewrite H. reflexivity. Qed.
Lemma wcopy_blocks kd ks x : a_blocks (snd (wcopy kd ks x)) = a_blocks (snd x).
Proof. destruct x as [s a]. unfold wcopy. cbn [fst snd]. destruct (Nat.eqb _ _); reflexivity. Qed.

Definition is_target (os : list name) (k : key) : bool := N.eqb (snd k) cEnc && existsb (N.eqb (fst k)) os.
Definition shareK (os : list name) (k : key) : bool := is_hidden k || key_eqb kExt k || is_target os k.

Lemma is_target_in os o : In o os -> is_target os (o, cEnc) = true.
Proof.
  intros H. unfold is_target. cbn [fst snd]. rewrite N.eqb_refl. cbn [andb]. apply existsb_exists. exists o. split; auto. apply N.eqb_refl.
Qed.
Lemma is_target_app os os' k : is_target os k = true \/ is_target os' k = true -> is_target (os ++ os') k = true.
Proof.
  unfold is_target. rewrite existsb_app. intros [H|H]; apply andb_true_iff in H as [H1 H2]; apply andb_true_iff; split; auto;
    apply orb_true_iff; auto.
Qed.

Lemma bk_ok_run_hook h : bk_ok (shareK (hook_targets h)) (run_hook h).
Proof.
  destruct h as [e t|p others|]; unfold run_hook; cbn [hook_targets].
  - apply (bk_ok_if _ (fun x => Nat.eqb (length (blk (snd x) (t, cEnc))) (length (blk (snd x) (e, cEnc))) &&
                                 Nat.eqb (length (blk (snd x) (t, cHead))) (length (blk (snd x) (e, cHead))) &&
                                 Nat.eqb (length (blk (snd x) (t, cBuf))) (length (blk (snd x) (e, cBuf))))); [|apply bk_ok_id].
    apply bk_ok_seqL. repeat (apply Forall_cons; [apply bk_ok_same; intros; apply wcopy_blocks|]). apply Forall_nil.
  - apply bk_ok_seqL. induction others as [|o r IH]; cbn [flat_map]; [constructor|].
    assert (W : forall k, shareK r k = true -> shareK (o :: r) k = true).
    { intros k. unfold shareK, is_target. cbn [existsb]. intros H. apply orb_true_iff in H as [H|H]; [rewrite H; auto|].
      apply andb_true_iff in H as [H1 H2]. rewrite H1, H2. rewrite !orb_true_r. reflexivity. }
    apply Forall_cons; [|apply Forall_cons; [|apply Forall_cons]].
    + apply (bk_ok_dep _ (fun y => realloc (o, cHenc) (map CopyOf (blk (snd y) (p, cEnc))))). intros y.
      eapply bk_ok_weaken; [|apply bk_ok_realloc]. intros k Hk. apply key_eqb_eq in Hk. subst k. reflexivity.
    + eapply bk_ok_weaken; [|apply bk_ok_realloc]. intros k Hk. apply key_eqb_eq in Hk. subst k.
      unfold shareK. apply orb_true_iff. right. apply is_target_in. left; reflexivity.
    + apply bk_ok_same. intros; reflexivity.
    + eapply Forall_impl; [|exact IH]. intros f Hf. eapply bk_ok_weaken; [exact W|exact Hf].
  - apply (bk_ok_dep _ (fun y => realloc kExt (map (fun _ => FreshV) (blk (snd y) kExt)))). intros y.
    eapply bk_ok_weaken; [|apply bk_ok_realloc]. intros k Hk. unfold shareK. rewrite Hk. rewrite orb_true_r. reflexivity.
Qed.

Lemma bk_ok_hooks_list hs : bk_ok (shareK (flat_map hook_targets hs)) (seqL (map run_hook hs)).
Proof.
  apply bk_ok_seqL. induction hs as [|h r IH]; cbn [map flat_map]; constructor.
  - eapply bk_ok_weaken; [|apply bk_ok_run_hook]. intros k. unfold shareK. intros H.
    apply orb_true_iff in H as [H|H]; [rewrite H; auto|]. rewrite (is_target_app _ _ k (or_introl H)). apply orb_true_r.
  - eapply Forall_impl; [|exact IH]. intros f Hf. eapply bk_ok_weaken; [|exact Hf]. intros k. unfold shareK. intros H.
    apply orb_true_iff in H as [H|H]; [rewrite H; auto|]. rewrite (is_target_app _ _ k (or_intror H)). apply orb_true_r.
Qed.

Lemma getb_setb_cases k v : forall bs, getb k (setb k v bs) = v \/ getb k (setb k v bs) = getb k bs.
Proof.
  induction bs as [|kv r IH]; cbn [setb getb]; auto.
  destruct (key_eqb k (fst kv)) eqn:E; cbn [getb fst snd]; rewrite E; auto.
Qed.

(* an encoder block, once empty, stays empty; and the share hook empties the encoder block of each of its targets *)
Lemma shareK_nil_enc o : shareK [] (o, cEnc) = false.
Proof. unfold shareK, is_hidden, cls_in, key_eqb, kExt, is_target. cbn. rewrite andb_false_r. reflexivity. Qed.

Lemma hook_keeps_empty h x o : getb (o, cEnc) (a_blocks (snd x)) = [] -> getb (o, cEnc) (a_blocks (snd (run_hook h x))) = [].
Proof.
  intros HE. destruct (shareK (hook_targets h) (o, cEnc)) eqn:E.
  - destruct h as [e t|p others|]; cbn [hook_targets] in E; try (rewrite shareK_nil_enc in E; discriminate).
    unfold run_hook. revert x HE. unfold seqL. induction others as [|o' r IH]; intros x HE; cbn [flat_map map fold_left app]; auto.
    assert (E' : shareK r (o, cEnc) = true \/ shareK r (o, cEnc) = false) by (destruct (shareK r (o, cEnc)); auto).
    set (x1 := realloc (o', cHenc) (map CopyOf (blk (snd x) (p, cEnc))) x).
    set (x2 := realloc (o', cEnc) [] x1). set (x3 := wfresh (o', cBuf) x2).
    assert (H3 : getb (o, cEnc) (a_blocks (snd x3)) = []).
    { unfold x3, wfresh. cbn [snd].
      assert (H1 : getb (o, cEnc) (a_blocks (snd x1)) = []).
      { unfold x1. rewrite (bk_ok_realloc (o', cHenc) _ x (o, cEnc)); auto. unfold key_eqb. cbn. rewrite andb_false_r. reflexivity. }
      unfold x2, realloc. destruct x1 as [s1 a1]. cbn [fst snd] in *. cbn [alloc snd with_blocks a_blocks].
      destruct (key_eqb (o', cEnc) (o, cEnc)) eqn:EK.
      - apply key_eqb_eq in EK. injection EK as ->.
        destruct (getb_setb_cases (o, cEnc) [] (a_blocks a1)) as [C|C]; [exact C|etransitivity; [exact C|exact H1]].
      - rewrite getb_setb_other; auto. }
    destruct E' as [E'|E'].
    + apply (IH E' x3 H3).
    + (* o is not among the remaining targets: the remaining steps keep the block *)
      pose proof (bk_ok_run_hook (HShare p r)) as BK. cbn [hook_targets] in BK. unfold run_hook, seqL in BK.
      etransitivity; [exact (BK x3 (o, cEnc) E')|exact H3].
  - rewrite (bk_ok_run_hook h x (o, cEnc) E). exact HE.
Qed.

Lemma share_step_keys p o' x :
  map fst (a_blocks (snd (wfresh (o', cBuf) (realloc (o', cEnc) [] (realloc (o', cHenc) (map CopyOf (blk (snd x) (p, cEnc))) x))))) =
  map fst (a_blocks (snd x)).
Proof.
  pose proof (struct_ok_fields _ x (struct_ok_realloc (o', cHenc) (map CopyOf (blk (snd x) (p, cEnc))))) as (_ & _ & _ & _ & _ & _ & K1).
  set (x1 := realloc (o', cHenc) (map CopyOf (blk (snd x) (p, cEnc))) x) in *.
  pose proof (struct_ok_fields _ x1 (struct_ok_realloc (o', cEnc) [])) as (_ & _ & _ & _ & _ & _ & K2).
  unfold wfresh. cbn [snd]. rewrite K2, K1. reflexivity.
Qed.

Lemma hook_empties_target p : forall others x o, In o others -> In (o, cEnc) (map fst (a_blocks (snd x))) ->
  getb (o, cEnc) (a_blocks (snd (run_hook (HShare p others) x))) = [].
Proof.
  induction others as [|o' r IH]; intros x o Hin Hk; [contradiction|].
  unfold run_hook, seqL. cbn [flat_map map fold_left app].
  set (x1 := realloc (o', cHenc) (map CopyOf (blk (snd x) (p, cEnc))) x).
  set (x2 := realloc (o', cEnc) [] x1). set (x3 := wfresh (o', cBuf) x2).
  assert (K3 : map fst (a_blocks (snd x3)) = map fst (a_blocks (snd x))) by apply share_step_keys.
  change (getb (o, cEnc) (a_blocks (snd (run_hook (HShare p r) x3))) = []).
  destruct (N.eqb_spec o' o) as [->|Hne].
  - apply hook_keeps_empty. unfold x3, wfresh. cbn [snd]. unfold x2, realloc. destruct x1 as [s1 a1] eqn:E1. cbn [fst snd alloc with_blocks a_blocks].
    apply getb_setb_same.
    pose proof (struct_ok_fields _ x (struct_ok_realloc (o, cHenc) (map CopyOf (blk (snd x) (p, cEnc))))) as (_ & _ & _ & _ & _ & _ & K1).
    fold x1 in K1. rewrite E1 in K1. cbn [snd] in K1. rewrite K1. exact Hk.
  - destruct Hin as [Hin|Hin]; [congruence|]. apply IH; auto. rewrite K3. exact Hk.
Qed.

Lemma hooks_keep_empty : forall hs x o, getb (o, cEnc) (a_blocks (snd x)) = [] ->
  getb (o, cEnc) (a_blocks (snd (seqL (map run_hook hs) x))) = [].
Proof.
  unfold seqL. induction hs as [|h r IH]; intros x o H; cbn [map fold_left]; auto. apply IH. apply hook_keeps_empty; auto.
Qed.

Lemma hooks_target_empty : forall hs x o, In o (flat_map hook_targets hs) -> In (o, cEnc) (map fst (a_blocks (snd x))) ->
  getb (o, cEnc) (a_blocks (snd (seqL (map run_hook hs) x))) = [].
Proof.
  induction hs as [|h r IH]; intros x o Hin Hk; [contradiction|].
  cbn [flat_map] in Hin. unfold seqL. cbn [map fold_left].
  change (getb (o, cEnc) (a_blocks (snd (seqL (map run_hook r) (run_hook h x)))) = []).
  destruct (in_dec N.eq_dec o (hook_targets h)) as [Hh|Hn].
  - apply hooks_keep_empty. destruct h as [e t|p others|]; cbn [hook_targets] in Hh; try contradiction.
    apply hook_empties_target; auto.
  - apply in_app_or in Hin as [Hin|Hin]; [contradiction|]. apply IH; auto.
    destruct (struct_ok_fields _ x (struct_ok_run_hook h)) as (_ & _ & _ & _ & _ & _ & K). rewrite K. exact Hk.
Qed.

Lemma is_target_true os k : is_target os k = true -> exists o, k = (o, cEnc) /\ In o os.
Proof.
  unfold is_target. intros H. apply andb_true_iff in H as [H1 H2]. apply N.eqb_eq in H1.
  apply existsb_exists in H2 as (o & Ho & E). apply N.eqb_eq in E. exists o. split; auto.
  destruct k as [n c]. cbn [fst snd] in *. subst. reflexivity.
Qed.

(* length of a state_dict block after the hooks, for a file that is compatible with the sharing *)
Lemma hooks_sd_len x k u B : is_sd k = true -> In k (map fst (a_blocks (snd x))) ->
  share_compat (a_reg (snd x)) B -> getb k B = u ->
  length (getb k (a_blocks (snd x))) = length u ->
  length (getb k (a_blocks (snd (run_hooks x)))) = length u.
Proof.
  intros Hsd Hk SC HB HL. unfold run_hooks.
  destruct (is_target (share_targets (a_reg (snd x))) k) eqn:T.
  - apply is_target_true in T as (o & Ek & Ho).
    assert (E : getb k (a_blocks (snd (seqL (map run_hook (r_hooks (a_reg (snd x)))) x))) = []).
    { pose proof (hooks_target_empty (r_hooks (a_reg (snd x))) x o Ho) as HE. subst k. apply HE. exact Hk. }
    assert (E2 : getb k B = []) by (pose proof (SC o Ho) as HS; subst k; exact HS).
    rewrite E, <- HB, E2. reflexivity.
  - rewrite (bk_ok_hooks_list (r_hooks (a_reg (snd x))) x k); auto.
    unfold shareK. fold (share_targets (a_reg (snd x))). rewrite T.
    destruct (cls_sd_not k Hsd) as (_ & _ & _ & Hh & _). rewrite Hh, (cls_sd_ext k Hsd). reflexivity.
Qed.

(* contents: hooks write only state_dict blocks, hidden blocks and the ext block *)
Definition hookK2 (k : key) : bool := is_sd k || key_eqb kExt k || is_hidden k.

Lemma hookK2_share o : hookK2 (o, cHenc) = true /\ hookK2 (o, cEnc) = true /\ hookK2 (o, cBuf) = true.
Proof. unfold hookK2, is_sd, is_hidden, cls_in. cbn [snd existsb]. repeat split; cbn; rewrite ?orb_true_r; reflexivity. Qed.

Lemma wr_ok_run_hook_any h : wr_ok hookK2 (run_hook h).
Proof.
  destruct h as [e t|p others|]; unfold run_hook.
  - apply (wr_ok_if hookK2 (fun x => Nat.eqb (length (blk (snd x) (t, cEnc))) (length (blk (snd x) (e, cEnc))) &&
                                     Nat.eqb (length (blk (snd x) (t, cHead))) (length (blk (snd x) (e, cHead))) &&
                                     Nat.eqb (length (blk (snd x) (t, cBuf))) (length (blk (snd x) (e, cBuf))))).
    + apply wr_ok_seqL; [repeat (apply Forall_cons; [apply local_ok_wcopy|]); apply Forall_nil|].
      repeat (apply Forall_cons;
        [eapply wr_ok_weaken; [|apply wr_ok_wcopy]; intros k Hk; apply key_eqb_eq in Hk; subst k; reflexivity|]).
      apply Forall_nil.
    + apply wr_ok_id.
  - apply wr_ok_seqL.
    + apply Forall_flat_map_ok. intros o. constructor; [|constructor; [|constructor; [|constructor]]].
      * apply (local_ok_dep (fun y => realloc (o, cHenc) (map CopyOf (blk (snd y) (p, cEnc))))). intros; apply local_ok_realloc.
      * apply local_ok_realloc.
      * apply local_ok_wfresh.
    + apply Forall_flat_map_gen. intros o. constructor; [|constructor; [|constructor; [|constructor]]].
      * apply (wr_ok_dep hookK2 (fun y => realloc (o, cHenc) (map CopyOf (blk (snd y) (p, cEnc))))). intros y.
        eapply wr_ok_weaken; [|apply wr_ok_realloc]. intros k Hk. apply key_eqb_eq in Hk. subst k. apply (hookK2_share o).
      * eapply wr_ok_weaken; [|apply wr_ok_realloc]. intros k Hk. apply key_eqb_eq in Hk. subst k. apply (hookK2_share o).
      * eapply wr_ok_weaken; [|apply wr_ok_wfresh]. intros k Hk. apply key_eqb_eq in Hk. subst k. apply (hookK2_share o).
  - apply (wr_ok_dep hookK2 (fun y => realloc kExt (map (fun _ => FreshV) (blk (snd y) kExt)))). intros y.
    eapply wr_ok_weaken; [|apply wr_ok_realloc]. intros k Hk. unfold hookK2. rewrite Hk. rewrite orb_true_r. reflexivity.
Qed.
Lemma wr_ok_run_hooks_any : wr_ok hookK2 run_hooks.
Proof.
  unfold run_hooks. apply (wr_ok_dep hookK2 (fun y => seqL (map run_hook (r_hooks (a_reg (snd y)))))). intros y.
  apply wr_ok_seqL; [apply Forall_map_ok; apply local_ok_run_hook|apply Forall_map_gen; apply wr_ok_run_hook_any].
Qed.

Lemma cls_cc_not2 k : is_cc k = true -> hookK2 k = false.
Proof. unfold hookK2. intros H. destruct (cls_cc_not k H) as (_ & _ & Hs & Hh & _ & Hd). unfold hookK in Hh. 
  apply orb_false_iff in Hh as [_ He]. rewrite Hs, He, Hd. reflexivity. Qed.

(* ---- the visible part of the view ---------------------------------------------------------------- *)
Definition visible (bs : blocks) : blocks := filter (fun kv => negb (is_hidden (fst kv))) bs.
Definition blob_ok2 (b : blob) : Prop :=
  keys_nodupb (map fst (bl_blocks b)) = true /\
  (forall kv, In kv (bl_blocks b) -> is_net (fst kv) || is_ost (fst kv) || is_attr (fst kv) = true).

Theorem restore_visible_lemma b x0 :
  okst x0 -> bfree (bl_blocks b) x0 -> map fst (a_blocks (snd x0)) = map fst (bl_blocks b) ->
  blob_ok2 b -> share_compat (a_reg (snd x0)) (bl_blocks b) ->
  let r := restore b x0 in
  (a_index (snd r) = bl_index b /\ a_mut (snd r) = bl_mut b /\ a_arch (snd r) = bl_arch b /\ opt_view (snd r) = bl_opts b /\
   a_hps (snd r) = bl_hps b /\ a_reg (snd r) = bl_reg b) /\
  map fst (a_blocks (snd r)) = map fst (bl_blocks b) /\
  (forall k u, In (k, u) (bl_blocks b) -> is_hidden k = false ->
     map (rd (fst r)) (getb k (a_blocks (snd r))) = map (rd (fst x0)) u).
Proof.
  intros OK0 BF0 KE0 (KN & KC) SC. cbn zeta.
  set (B := bl_blocks b) in *. set (s0 := fst x0). set (KS := map fst B) in *.
  assert (ND : NoDup KS) by (apply keys_nodupb_NoDup; auto).
  rewrite restore_unfold. fold B.
  set (x1 := rebuild_nets B x0).
  set (x2 := pure (fun a => with_arch a (bl_arch b)) x1).
  set (x3 := run_hooks x2).
  set (x4 := load_states B x3).
  set (x5 := adopt is_ost B x4).
  set (x6 := new_opts b x5).
  set (x7 := adopt is_attr B x6).
  set (x8 := set_attrs b x7).
  assert (I0 : inv B s0 KS x0) by (split; [exact OK0|split; [exact BF0|split; [intros; reflexivity|exact KE0]]]).
  assert (I1 : inv B s0 KS x1) by (apply inv_struct; auto; [apply local_ok_rebuild_nets|apply struct_ok_rebuild_nets]).
  assert (I2 : inv B s0 KS x2) by (apply inv_pure; auto).
  assert (I3 : inv B s0 KS x3) by (apply inv_struct; auto; [apply local_ok_run_hooks|apply struct_ok_run_hooks]).
  assert (I4 : inv B s0 KS x4) by (apply inv_struct; auto; [apply local_ok_load_states|apply struct_ok_load_states]).
  assert (I5 : inv B s0 KS x5) by (apply inv_struct; auto; [apply local_ok_adopt|apply struct_ok_adopt]).
  assert (I6 : inv B s0 KS x6) by (apply inv_pure; auto).
  assert (I7 : inv B s0 KS x7) by (apply inv_struct; auto; [apply local_ok_adopt|apply struct_ok_adopt]).
  assert (I8 : inv B s0 KS x8) by (apply inv_pure; auto).
  assert (R2 : a_reg (snd x2) = a_reg (snd x0)).
  { unfold x2, pure. cbn [snd with_arch a_reg]. apply (struct_ok_fields _ x0 (struct_ok_rebuild_nets B)). }
  split; [|split].
  - (* fields *)
    assert (F7 : a_arch (snd x7) = bl_arch b /\ opt_view (snd x7) = bl_opts b).
    { destruct (struct_ok_fields _ x6 (struct_ok_adopt is_attr B)) as (_ & _ & A7 & O7 & _). fold x7 in A7, O7.
      unfold opt_view. rewrite A7, O7. unfold x6, new_opts, pure. cbn [snd with_opts a_arch a_opts].
      destruct (struct_ok_fields _ x4 (struct_ok_adopt is_ost B)) as (_ & _ & A5 & _). fold x5 in A5. rewrite A5.
      destruct (struct_ok_fields _ x3 (struct_ok_load_states B)) as (_ & _ & A4 & _). fold x4 in A4. rewrite A4.
      destruct (struct_ok_fields _ x2 struct_ok_run_hooks) as (_ & _ & A3 & _). fold x3 in A3. rewrite A3.
      split; [reflexivity|]. rewrite map_map. cbn [o_name o_lr]. rewrite <- (map_id (bl_opts b)) at 2.
      apply map_ext. intros [n q]. reflexivity. }
    destruct F7 as [A7 O7]. unfold x8, set_attrs, pure, opt_view in *. cbn [snd a_index a_mut a_arch a_hps a_reg a_opts]. repeat split; auto.
  - apply I8.
  - intros k u Hin Hvis. change (cont x8 k = map (rd s0) u).
    assert (Hk : forall x, inv B s0 KS x -> In k (map fst (a_blocks (snd x)))).
    { intros x (_ & _ & _ & E). rewrite E. apply (in_map fst _ _ Hin). }
    assert (Hrd : forall x, inv B s0 KS x -> map (rd (fst x)) u = map (rd s0) u).
    { intros x (_ & _ & RD & _). apply map_ext_in. intros l Hl. apply RD. eapply in_locs_of; eauto. }
    assert (Hbd : forall x, inv B s0 KS x -> forall l, In l u -> l < s_next (fst x)).
    { intros x (_ & BF & _ & _) l Hl. eapply bfree_bound; eauto. }
    pose proof (KC (k, u) Hin) as Cls. cbn [fst] in Cls.
    apply orb_true_iff in Cls as [Cls|Cat]; [apply orb_true_iff in Cls as [Cnet|Cost]|].
    + destruct (cls_net_split k Cnet) as [Csd|[Ccc|Chid]]; [| |congruence].
      * destruct (cls_sd_not k Csd) as (No & Na & _ & _ & _).
        unfold x8, set_attrs. rewrite pure_cont by reflexivity.
        unfold x7. rewrite (cont_keep is_attr _ x6 k (wr_ok_adopt is_attr B) (proj1 I6) Na).
        unfold x6, new_opts. rewrite pure_cont by reflexivity.
        unfold x5. rewrite (cont_keep is_ost _ x4 k (wr_ok_adopt is_ost B) (proj1 I4) No).
        unfold x4. rewrite (load_states_at B x3 k u (proj1 I3) ND Hin Csd).
        -- apply Hrd; auto.
        -- unfold x3. apply (hooks_sd_len x2 k u B Csd (Hk x2 I2)).
           ++ rewrite R2. exact SC.
           ++ apply getb_in; auto.
           ++ unfold x2. rewrite pure_getb by reflexivity. unfold x1, rebuild_nets.
              rewrite (pass_len is_net ctor_src B x0 k u OK0 ND Hin Cnet (Hk x0 I0)). apply ctor_src_sd; auto.
        -- intros kv l Hkv Hl. apply (proj1 (proj2 I3)). unfold locs_of. apply in_concat. exists (snd kv). split; auto. apply in_map; auto.
      * destruct (cls_cc_not k Ccc) as (No & Na & Ns & _ & _ & _).
        unfold x8, set_attrs. rewrite pure_cont by reflexivity.
        unfold x7. rewrite (cont_keep is_attr _ x6 k (wr_ok_adopt is_attr B) (proj1 I6) Na).
        unfold x6, new_opts. rewrite pure_cont by reflexivity.
        unfold x5. rewrite (cont_keep is_ost _ x4 k (wr_ok_adopt is_ost B) (proj1 I4) No).
        unfold x4. rewrite (cont_keep is_sd _ x3 k (wr_ok_load_states B) (proj1 I3) Ns).
        unfold x3. rewrite (cont_keep hookK2 _ x2 k wr_ok_run_hooks_any (proj1 I2) (cls_cc_not2 k Ccc)).
        unfold x2. rewrite pure_cont by reflexivity.
        unfold x1. apply (pass_copy is_net ctor_src B x0 k u OK0 ND Hin Cnet (Hk x0 I0) (ctor_src_cc k u Ccc) (Hbd x0 I0)).
    + destruct (cls_ost_not k Cost) as (_ & Na & _ & _).
      unfold x8, set_attrs. rewrite pure_cont by reflexivity.
      unfold x7. rewrite (cont_keep is_attr _ x6 k (wr_ok_adopt is_attr B) (proj1 I6) Na).
      unfold x6, new_opts. rewrite pure_cont by reflexivity.
      unfold x5, adopt. rewrite (pass_copy is_ost (fun _ u => map CopyOf u) B x4 k u (proj1 I4) ND Hin Cost (Hk x4 I4) eq_refl (Hbd x4 I4)).
      apply Hrd; auto.
    + unfold x8, set_attrs. rewrite pure_cont by reflexivity.
      unfold x7, adopt. rewrite (pass_copy is_attr (fun _ u => map CopyOf u) B x6 k u (proj1 I6) ND Hin Cat (Hk x6 I6) eq_refl (Hbd x6 I6)).
      apply Hrd; auto.
Qed.

(* ---- save then load, every registry ---------------------------------------------------------------- *)
Lemma contents_getb g g' k : forall bs bs', contf g bs = contf g' bs' -> map g (getb k bs) = map g' (getb k bs').
Proof.
  unfold contf. induction bs as [|kv r IH]; intros [|kv' r'] H; cbn [map getb] in *; try discriminate; auto.
  injection H as K1 C1 T. rewrite K1. destruct (key_eqb k (fst kv')); auto.
Qed.

Lemma getb_mask_visible k : is_hidden k = false -> forall bs, getb k (mask_hidden bs) = getb k bs.
Proof.
  intros Hv. unfold mask_hidden. induction bs as [|kv r IH]; cbn [map getb]; auto.
  destruct (is_hidden (fst kv)) eqn:E; cbn [fst snd]; destruct (key_eqb k (fst kv)) eqn:EK; auto.
  apply key_eqb_eq in EK. subst k. congruence.
Qed.

Definition share_saved (a : agent) : Prop := forall o, In o (share_targets (a_reg a)) -> blk a (o, cEnc) = [].
Lemma share_savedb_sound a : share_savedb a = true -> share_saved a.
Proof.
  unfold share_savedb, share_saved. rewrite forallb_forall. intros H o Ho. specialize (H o Ho).
  cbv beta in H. match type of H with (match ?t with _ => _ end) = true => destruct t eqn:E end; [exact E|discriminate].
Qed.

Lemma enc_visible o : is_hidden (o, cEnc) = false.
Proof. reflexivity. Qed.

Theorem load_save_visible_lemma s a :
  savable a = true -> bounded s (agent_locs a) -> share_saved a ->
  let r := roundtrip s a in
  (a_index (snd r) = a_index a /\ a_mut (snd r) = a_mut a /\ a_arch (snd r) = a_arch a /\ opt_view (snd r) = opt_view a /\
   a_hps (snd r) = a_hps a /\ a_reg (snd r) = a_reg a) /\
  map fst (a_blocks (snd r)) = map fst (a_blocks a) /\
  (forall k, In k (map fst (a_blocks a)) -> is_hidden k = false ->
     map (rd (fst r)) (blk (snd r) k) = map (rd s) (blk a k)).
Proof.
  intros SV B SS. cbn zeta. unfold roundtrip.
  destruct (save_spec_lemma s a) as (S1 & S2 & S3 & S4 & S5 & F1 & F2 & F3 & F4 & F5 & F6).
  specialize (S5 B).
  destruct (save s a) as [s1 b]. cbn [fst snd] in *.
  unfold savable in SV. apply andb_true_iff in SV as [SV KC]. apply andb_true_iff in SV as [KN LN].
  assert (BO : blob_ok2 b).
  { split; [rewrite S3; exact KN|]. intros kv Hkv.
    assert (Hk : In (fst kv) (map fst (a_blocks a))) by (rewrite <- S3; apply in_map; auto).
    apply in_map_iff in Hk as (kv' & E & Hin'). unfold known_cls in KC. rewrite forallb_forall in KC. rewrite <- E. apply KC; auto. }
  assert (Hget : forall k, is_hidden k = false -> map (rd s1) (getb k (bl_blocks b)) = map (rd s) (blk a k)).
  { intros k Hv. unfold blk. rewrite <- (getb_mask_visible k Hv (a_blocks a)). apply contents_getb. exact S5. }
  assert (SC : share_compat (bl_reg b) (bl_blocks b)).
  { intros o Ho. rewrite F6 in Ho. pose proof (Hget (o, cEnc) (enc_visible o)) as H. rewrite (SS o Ho) in H. cbn [map] in H.
    destruct (getb (o, cEnc) (bl_blocks b)); auto. discriminate. }
  assert (ND : NoDup (map fst (bl_blocks b))) by (apply keys_nodupb_NoDup; apply BO).
  unfold load.
  destruct (restore_visible_lemma b (s1, skeleton b)) as (RF & RK & RC); auto.
  - split; cbn [fst snd]; rewrite skeleton_no_locs; [constructor|apply Forall_nil].
  - intros l Hl. cbn [fst snd]. rewrite skeleton_no_locs. split; [|intros []]. rewrite S1 in Hl. apply in_nseq in Hl. lia.
  - cbn [snd skeleton a_blocks]. rewrite map_map. reflexivity.
  - cbn zeta in *. split; [|split].
    + rewrite <- F1, <- F2, <- F3, <- F4, <- F5, <- F6. exact RF.
    + rewrite RK. exact S3.
    + intros k Hk Hv. rewrite <- S3 in Hk. apply in_map_iff in Hk as ([k' u] & E & Hin). cbn [fst] in E. subst k'.
      unfold blk at 1. rewrite (RC k u Hin Hv). cbn [fst]. rewrite <- (getb_in k u (bl_blocks b) ND Hin). apply Hget; auto.
Qed.


(* what a file written from a savable agent in its shared state provides (every registry) *)
Lemma save_visible_facts s a : savable a = true -> bounded s (agent_locs a) -> share_saved a ->
  let r := save s a in
  blob_ok2 (snd r) /\ share_compat (a_reg a) (bl_blocks (snd r)) /\
  map fst (bl_blocks (snd r)) = map fst (a_blocks a) /\
  (forall l, In l (locs_of (bl_blocks (snd r))) -> s_next s <= l < s_next (fst r)) /\
  (forall k, is_hidden k = false -> map (rd (fst r)) (getb k (bl_blocks (snd r))) = map (rd s) (blk a k)) /\
  (bl_index (snd r) = a_index a /\ bl_mut (snd r) = a_mut a /\ bl_arch (snd r) = a_arch a /\
   bl_opts (snd r) = opt_view a /\ bl_hps (snd r) = a_hps a /\ bl_reg (snd r) = a_reg a).
Proof.
  intros SV B SS. cbn zeta.
  destruct (save_spec_lemma s a) as (S1 & S2 & S3 & S4 & S5 & FF).
  specialize (S5 B).
  destruct (save s a) as [s1 b]. cbn [fst snd] in *.
  unfold savable in SV. apply andb_true_iff in SV as [SV KC]. apply andb_true_iff in SV as [KN LN].
  assert (Hget : forall k, is_hidden k = false -> map (rd s1) (getb k (bl_blocks b)) = map (rd s) (blk a k)).
  { intros k Hv. unfold blk. rewrite <- (getb_mask_visible k Hv (a_blocks a)). apply contents_getb. exact S5. }
  split; [|split; [|split; [|split; [|split]]]]; auto.
  - split; [rewrite S3; exact KN|]. intros kv Hkv.
    assert (Hk : In (fst kv) (map fst (a_blocks a))) by (rewrite <- S3; apply in_map; auto).
    apply in_map_iff in Hk as (kv' & E & Hin'). unfold known_cls in KC. rewrite forallb_forall in KC. rewrite <- E. apply KC; auto.
  - intros o Ho. pose proof (Hget (o, cEnc) (enc_visible o)) as H. rewrite (SS o Ho) in H. cbn [map] in H.
    destruct (getb (o, cEnc) (bl_blocks b)); auto. discriminate.
  - intros l Hl. rewrite S1 in Hl. apply in_nseq in Hl. lia.
Qed.

(* load_checkpoint into ANY agent t of the same algorithm (same block keys, same registry), possibly later (crash point),
   every registry: everything that is not hidden comes back *)
Theorem load_checkpoint_save_visible_lemma s a s' t :
  savable a = true -> bounded s (agent_locs a) -> share_saved a ->
  NoDup (agent_locs t) -> bounded s' (agent_locs t) ->
  map fst (a_blocks t) = map fst (a_blocks a) -> a_reg t = a_reg a ->
  s_next (fst (save s a)) <= s_next s' ->
  (forall l, In l (locs_of (bl_blocks (snd (save s a)))) -> rd s' l = rd (fst (save s a)) l /\ ~ In l (agent_locs t)) ->
  snd (load_checkpoint (snd (save s a)) (s', t)) = true ->
  let r := fst (load_checkpoint (snd (save s a)) (s', t)) in
  (a_index (snd r) = a_index a /\ a_mut (snd r) = a_mut a /\ a_arch (snd r) = a_arch a /\ opt_view (snd r) = opt_view a /\
   a_hps (snd r) = a_hps a /\ a_reg (snd r) = a_reg a) /\
  map fst (a_blocks (snd r)) = map fst (a_blocks a) /\
  (forall k, In k (map fst (a_blocks a)) -> is_hidden k = false ->
     map (rd (fst r)) (blk (snd r) k) = map (rd s) (blk a k)).
Proof.
  intros SV B SS NDt Bt KEt RGt HN HR OKc. cbn zeta.
  destruct (save_visible_facts s a SV B SS) as (BO & SC & KE & BL & Hget & F1 & F2 & F3 & F4 & F5 & F6). cbn zeta in *.
  set (b := snd (save s a)) in *. set (s1 := fst (save s a)) in *.
  assert (ND : NoDup (map fst (bl_blocks b))) by (apply keys_nodupb_NoDup; apply BO).
  unfold load_checkpoint in *.
  destruct (reg_eqb (bl_reg b) (a_reg (snd (restore_nets_opts b (s', t))))); cbn [fst snd] in *; [|discriminate].
  change (restore_attrs b (restore_nets_opts b (s', t))) with (restore b (s', t)).
  destruct (restore_visible_lemma b (s', t)) as (RF & RK & RC); auto.
  - split; auto.
  - intros l Hl. cbn [fst snd]. split; [specialize (BL l Hl); lia|apply (HR l Hl)].
  - cbn [snd]. rewrite KEt, KE. reflexivity.
  - cbn [snd]. rewrite RGt. exact SC.
  - cbn zeta in *. split; [|split].
    + rewrite <- F1, <- F2, <- F3, <- F4, <- F5, <- F6. exact RF.
    + rewrite RK. exact KE.
    + intros k Hk Hv. rewrite <- KE in Hk. apply in_map_iff in Hk as ([k' u] & E & Hin). cbn [fst] in E. subst k'.
      unfold blk at 1. rewrite (RC k u Hin Hv). cbn [fst]. rewrite <- (getb_in k u (bl_blocks b) ND Hin).
      rewrite <- (Hget k Hv). apply map_ext_in. intros l Hl. apply HR.
      unfold locs_of. apply in_concat. exists (getb k (bl_blocks b)). split; auto.
      rewrite (getb_in k u (bl_blocks b) ND Hin). apply (in_map snd _ _ Hin).
Qed.

(* Algo.load in any later store in which the file's cells are intact (crash point), every registry *)
Theorem load_later_visible_lemma s a s' :
  savable a = true -> bounded s (agent_locs a) -> share_saved a ->
  s_next (fst (save s a)) <= s_next s' ->
  (forall l, In l (locs_of (bl_blocks (snd (save s a)))) -> rd s' l = rd (fst (save s a)) l) ->
  let r := load s' (snd (save s a)) in
  (a_index (snd r) = a_index a /\ a_mut (snd r) = a_mut a /\ a_arch (snd r) = a_arch a /\ opt_view (snd r) = opt_view a /\
   a_hps (snd r) = a_hps a /\ a_reg (snd r) = a_reg a) /\
  map fst (a_blocks (snd r)) = map fst (a_blocks a) /\
  (forall k, In k (map fst (a_blocks a)) -> is_hidden k = false ->
     map (rd (fst r)) (blk (snd r) k) = map (rd s) (blk a k)).
Proof.
  intros SV B SS HN HR. cbn zeta.
  destruct (save_visible_facts s a SV B SS) as (BO & SC & KE & BL & Hget & F1 & F2 & F3 & F4 & F5 & F6). cbn zeta in *.
  set (b := snd (save s a)) in *. set (s1 := fst (save s a)) in *.
  assert (ND : NoDup (map fst (bl_blocks b))) by (apply keys_nodupb_NoDup; apply BO).
  unfold load.
  destruct (restore_visible_lemma b (s', skeleton b)) as (RF & RK & RC); auto.
  - split; cbn [fst snd]; rewrite skeleton_no_locs; [constructor|apply Forall_nil].
  - intros l Hl. cbn [fst snd]. rewrite skeleton_no_locs. split; [|intros []]. specialize (BL l Hl). lia.
  - cbn [snd skeleton a_blocks]. rewrite map_map. reflexivity.
  - cbn [snd skeleton a_reg]. rewrite F6. exact SC.
  - cbn zeta in *. split; [|split].
    + rewrite <- F1, <- F2, <- F3, <- F4, <- F5, <- F6. exact RF.
    + rewrite RK. exact KE.
    + intros k Hk Hv. rewrite <- KE in Hk. apply in_map_iff in Hk as ([k' u] & E & Hin). cbn [fst] in E. subst k'.
      unfold blk at 1. rewrite (RC k u Hin Hv). cbn [fst]. rewrite <- (getb_in k u (bl_blocks b) ND Hin).
      rewrite <- (Hget k Hv). apply map_ext_in. intros l Hl. apply HR.
      unfold locs_of. apply in_concat. exists (getb k (bl_blocks b)). split; auto.
      rewrite (getb_in k u (bl_blocks b) ND Hin). apply (in_map snd _ _ Hin).
Qed.
