(* C07/ProofsShare.v — every registry, shared encoders included: everything EXCEPT the hidden tensors is restored.
   With share_encoder_parameters the critics' detached encoder copies (class henc) are not in the file
   (share_hidden_lost_refuted); this file proves that they are the only thing that is lost: for every registry
   (any list of HSync / HShare / HBandit hooks) the restored agent has the saved fields and the saved content in every
   cell of every block that is not hidden — provided the file has no encoder entries for the networks whose encoder
   the share hook hides ([share_compat]; true for every agent saved in its shared state, checked by K). *)
From Coq Require Import List NArith QArith Lia Bool.
From AgileV Require Import Evo.Heap Evo.Evo Evo.EvoProofs C07.Model C07.Proofs C07.ProofsAbs.
Import ListNotations.
Open Scope N_scope.

Definition hook_targets (h : hook) : list name := match h with HShare _ others => others | _ => [] end.
Definition share_targets (r : registry) : list name := flat_map hook_targets (r_hooks r).
Definition share_compat (r : registry) (B : blocks) : Prop := forall o, In o (share_targets r) -> getb (o, cEnc) B = [].

(* ---- block-level effect of hooks --------------------------------------------------------------- *)
Definition bk_ok (K : key -> bool) (f : lstate -> lstate) : Prop :=
  forall x k, K k = false -> getb k (a_blocks (snd (f x))) = getb k (a_blocks (snd x)).

Lemma bk_ok_id K : bk_ok K (fun x => x).
Proof. intros x k _. reflexivity. Qed.
Lemma bk_ok_comp K f g : bk_ok K f -> bk_ok K g -> bk_ok K (fun x => g (f x)).
Proof. intros Hf Hg x k Hk. rewrite Hg, Hf; auto. Qed.
Lemma bk_ok_seqL K fs : Forall (bk_ok K) fs -> bk_ok K (seqL fs).
Proof.
  unfold seqL. induction fs as [|f r IH]; intros H; cbn [fold_left]; [apply bk_ok_id|].
  inversion H; subst. apply (bk_ok_comp K f (fun x => fold_left (fun st g => g st) r x)); auto.
Qed.
Lemma bk_ok_dep K (F : lstate -> lstate -> lstate) : (forall y, bk_ok K (F y)) -> bk_ok K (fun x => F x x).
Proof. intros H x. exact (H x x). Qed.
Lemma bk_ok_if K (b : lstate -> bool) f g : bk_ok K f -> bk_ok K g -> bk_ok K (fun x => if b x then f x else g x).
Proof. intros Hf Hg x. destruct (b x); [apply Hf|apply Hg]. Qed.
Lemma bk_ok_weaken (K K' : key -> bool) f : (forall k, K k = true -> K' k = true) -> bk_ok K f -> bk_ok K' f.
Proof. intros HK Hf x k Hk. apply Hf. destruct (K k) eqn:E; auto. rewrite (HK k E) in Hk. discriminate. Qed.
Lemma bk_ok_realloc k' srcs : bk_ok (key_eqb k') (realloc k' srcs).
Proof.
  intros [s a] k Hk. unfold realloc. cbn [fst snd]. destruct (alloc s srcs) as [s' ls]. cbn [snd with_blocks a_blocks].
  apply getb_setb_other; auto.
Qed.
Lemma bk_ok_same K f : (forall x, a_blocks (snd (f x)) = a_blocks (snd x)) -> bk_ok K f.
Proof. intros H x k _. rewrite H. reflexivity. Qed.
Lemma wcopy_blocks kd ks x : a_blocks (snd (wcopy kd ks x)) = a_blocks (snd x).
Proof. destruct x as [s a]. unfold wcopy. cbn [fst snd]. destruct (Nat.eqb _ _); reflexivity. Qed.

Definition is_target (os : list name) (k : key) : bool := N.eqb (snd k) cEnc && existsb (N.eqb (fst k)) os.
Definition shareK (os : list name) (k : key) : bool := is_hidden k || key_eqb kExt k || is_target os k.

Lemma is_target_in os o : In o os -> is_target os (o, cEnc) = true.
Proof.
  intros H. unfold is_target. cbn [fst snd]. rewrite N.eqb_refl. cbn [andb]. apply existsb_exists. exists o. split; auto. apply N.eqb_refl.
Qed.
Lemma is_target_app os os' k : is_target os k = true \/ is_target os' k = true -> is_target (os ++ os') k = true.
Proof.
  unfold is_target. rewrite existsb_app. intros [H|H]; apply andb_true_iff in H as [H1 H2]; apply andb_true_iff; split; auto;
    apply orb_true_iff; auto.
Qed.

Lemma bk_ok_run_hook h : bk_ok (shareK (hook_targets h)) (run_hook h).
Proof.
  destruct h as [e t|p others|]; unfold run_hook; cbn [hook_targets].
  - apply (bk_ok_if _ (fun x => Nat.eqb (length (blk (snd x) (t, cEnc))) (length (blk (snd x) (e, cEnc))) &&
                                 Nat.eqb (length (blk (snd x) (t, cHead))) (length (blk (snd x) (e, cHead))) &&
                                 Nat.eqb (length (blk (snd x) (t, cBuf))) (length (blk (snd x) (e, cBuf))))); [|apply bk_ok_id].
    apply bk_ok_seqL. repeat (apply Forall_cons; [apply bk_ok_same; intros; apply wcopy_blocks|]). apply Forall_nil.
  - apply bk_ok_seqL. induction others as [|o r IH]; cbn [flat_map]; [constructor|].
    assert (W : forall k, shareK r k = true -> shareK (o :: r) k = true).
    { intros k. unfold shareK, is_target. cbn [existsb]. intros H. apply orb_true_iff in H as [H|H]; [rewrite H; auto|].
      apply andb_true_iff in H as [H1 H2]. rewrite H1, H2. rewrite !orb_true_r. reflexivity. }
    apply Forall_cons; [|apply Forall_cons; [|apply Forall_cons]].
    + apply (bk_ok_dep _ (fun y => realloc (o, cHenc) (map CopyOf (blk (snd y) (p, cEnc))))). intros y.
      eapply bk_ok_weaken; [|apply bk_ok_realloc]. intros k Hk. apply key_eqb_eq in Hk. subst k. reflexivity.
    + eapply bk_ok_weaken; [|apply bk_ok_realloc]. intros k Hk. apply key_eqb_eq in Hk. subst k.
      unfold shareK. apply orb_true_iff. right. apply is_target_in. left; reflexivity.
    + apply bk_ok_same. intros; reflexivity.
    + eapply Forall_impl; [|exact IH]. intros f Hf. eapply bk_ok_weaken; [exact W|exact Hf].
  - apply (bk_ok_dep _ (fun y => realloc kExt (map (fun _ => FreshV) (blk (snd y) kExt)))). intros y.
    eapply bk_ok_weaken; [|apply bk_ok_realloc]. intros k Hk. unfold shareK. rewrite Hk. rewrite orb_true_r. reflexivity.
Qed.

Lemma bk_ok_hooks_list hs : bk_ok (shareK (flat_map hook_targets hs)) (seqL (map run_hook hs)).
Proof.
  apply bk_ok_seqL. induction hs as [|h r IH]; cbn [map flat_map]; constructor.
  - eapply bk_ok_weaken; [|apply bk_ok_run_hook]. intros k. unfold shareK. intros H.
    apply orb_true_iff in H as [H|H]; [rewrite H; auto|]. rewrite (is_target_app _ _ k (or_introl H)). apply orb_true_r.
  - eapply Forall_impl; [|exact IH]. intros f Hf. eapply bk_ok_weaken; [|exact Hf]. intros k. unfold shareK. intros H.
    apply orb_true_iff in H as [H|H]; [rewrite H; auto|]. rewrite (is_target_app _ _ k (or_intror H)). apply orb_true_r.
Qed.

Lemma getb_setb_cases k v : forall bs, getb k (setb k v bs) = v \/ getb k (setb k v bs) = getb k bs.
Proof.
  induction bs as [|kv r IH]; cbn [setb getb]; auto.
  destruct (key_eqb k (fst kv)) eqn:E; cbn [getb fst snd]; rewrite E; auto.
Qed.

(* an encoder block, once empty, stays empty; and the share hook empties the encoder block of each of its targets *)
Lemma shareK_nil_enc o : shareK [] (o, cEnc) = false.
Proof. unfold shareK, is_hidden, cls_in, key_eqb, kExt, is_target. cbn. rewrite andb_false_r. reflexivity. Qed.

Lemma hook_keeps_empty h x o : getb (o, cEnc) (a_blocks (snd x)) = [] -> getb (o, cEnc) (a_blocks (snd (run_hook h x))) = [].
Proof.
  intros HE. destruct (shareK (hook_targets h) (o, cEnc)) eqn:E.
  - destruct h as [e t|p others|]; cbn [hook_targets] in E; try (rewrite shareK_nil_enc in E; discriminate).
    unfold run_hook. revert x HE. unfold seqL. induction others as [|o' r IH]; intros x HE; cbn [flat_map map fold_left app]; auto.
    assert (E' : shareK r (o, cEnc) = true \/ shareK r (o, cEnc) = false) by (destruct (shareK r (o, cEnc)); auto).
    set (x1 := realloc (o', cHenc) (map CopyOf (blk (snd x) (p, cEnc))) x).
    set (x2 := realloc (o', cEnc) [] x1). set (x3 := wfresh (o', cBuf) x2).
    assert (H3 : getb (o, cEnc) (a_blocks (snd x3)) = []).
    { unfold x3, wfresh. cbn [snd].
      assert (H1 : getb (o, cEnc) (a_blocks (snd x1)) = []).
      { unfold x1. rewrite (bk_ok_realloc (o', cHenc) _ x (o, cEnc)); auto. unfold key_eqb. cbn. rewrite andb_false_r. reflexivity. }
      unfold x2, realloc. destruct x1 as [s1 a1]. cbn [fst snd] in *. cbn [alloc snd with_blocks a_blocks].
      destruct (key_eqb (o', cEnc) (o, cEnc)) eqn:EK.
      - apply key_eqb_eq in EK. injection EK as ->.
        destruct (getb_setb_cases (o, cEnc) [] (a_blocks a1)) as [C|C]; [exact C|etransitivity; [exact C|exact H1]].
      - rewrite getb_setb_other; auto. }
    destruct E' as [E'|E'].
    + apply (IH E' x3 H3).
    + (* o is not among the remaining targets: the remaining steps keep the block *)
      pose proof (bk_ok_run_hook (HShare p r)) as BK. cbn [hook_targets] in BK. unfold run_hook, seqL in BK.
      etransitivity; [exact (BK x3 (o, cEnc) E')|exact H3].
  - rewrite (bk_ok_run_hook h x (o, cEnc) E). exact HE.
Qed.
