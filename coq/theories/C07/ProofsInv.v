(* C07/ProofsInv.v — "after ANY history": the side conditions of load_save_abs that do not depend on the run
   ([savable]: distinct block keys of the known classes, distinct cells; boundedness) hold for every member of every
   population reachable from a well-formed initial population by learn / score / act / clone / the five mutation
   kinds / selection / discard / save / load / load_checkpoint, because no operation ever changes the key list of an
   agent's blocks ([keys_ok]) and separation is an invariant ([crun_WF_lemma]). *)
From Coq Require Import List NArith QArith Lia Bool.
From AgileV Require Import Evo.Heap Evo.Evo Evo.EvoProofs C07.Model C07.Proofs C07.ProofsAbs.
Import ListNotations.
Open Scope N_scope.

Definition keys_of (a : agent) : list key := map fst (a_blocks a).
Definition keys_ok (f : lstate -> lstate) : Prop := forall x, keys_of (snd (f x)) = keys_of (snd x).

Lemma keys_ok_id : keys_ok (fun x => x).
Proof. intros x; reflexivity. Qed.
Lemma keys_ok_comp f g : keys_ok f -> keys_ok g -> keys_ok (fun x => g (f x)).
Proof. intros Hf Hg x. rewrite Hg, Hf. reflexivity. Qed.
Lemma keys_ok_seqL fs : Forall keys_ok fs -> keys_ok (seqL fs).
Proof.
  unfold seqL. induction fs as [|f r IH]; intros H; cbn [fold_left]; [apply keys_ok_id|].
  inversion H; subst. apply (keys_ok_comp f (fun x => fold_left (fun st g => g st) r x)); auto.
Qed.
Lemma keys_ok_dep (F : lstate -> lstate -> lstate) : (forall y, keys_ok (F y)) -> keys_ok (fun x => F x x).
Proof. intros H x. exact (H x x). Qed.
Lemma keys_ok_if (b : lstate -> bool) f g : keys_ok f -> keys_ok g -> keys_ok (fun x => if b x then f x else g x).
Proof. intros Hf Hg x. destruct (b x); [apply Hf|apply Hg]. Qed.
Lemma keys_ok_struct f : struct_ok f -> keys_ok f.
Proof. intros H x. apply (struct_ok_fields f x H). Qed.
Lemma keys_ok_pure g : (forall a, a_blocks (g a) = a_blocks a) -> keys_ok (pure g).
Proof. intros H x. unfold keys_of, pure. cbn [snd]. rewrite H. reflexivity. Qed.
Lemma keys_ok_realloc k srcs : keys_ok (realloc k srcs).
Proof. apply keys_ok_struct, struct_ok_realloc. Qed.
Lemma keys_ok_wfresh k : keys_ok (wfresh k).
Proof. apply keys_ok_struct, struct_ok_wfresh. Qed.

Ltac kok :=
  repeat first
    [ apply keys_ok_realloc | apply keys_ok_wfresh | apply keys_ok_id
    | apply keys_ok_struct; apply struct_ok_wcopy
    | apply keys_ok_pure; intros; reflexivity
    | apply keys_ok_seqL
    | apply Forall_nil
    | apply Forall_cons
    | apply Forall_app; split ].

Lemma keys_ok_reinit_opts w : keys_ok (reinit_opts w).
Proof.
  unfold reinit_opts. apply (keys_ok_dep (fun y => seqL (map reinit_one (filter w (r_opts (a_reg (snd y))))))).
  intros y. apply keys_ok_seqL. apply Forall_map_gen. intros c. unfold reinit_one. kok.
Qed.
Lemma keys_ok_run_hooks : keys_ok run_hooks.
Proof. apply keys_ok_struct, struct_ok_run_hooks. Qed.

Lemma keys_ok_learn st : keys_ok (learn_agent st).
Proof.
  unfold learn_agent.
  apply (keys_ok_dep (fun y => seqL (flat_map (fun n => [wfresh (n, cEnc); wfresh (n, cHead); wfresh (n, cBuf)]) (net_names (snd y))
                                     ++ [wfresh kExt] ++ map learn_opt st))).
  intros y. apply keys_ok_seqL. apply Forall_app. split; [|apply Forall_app; split].
  - apply Forall_flat_map_gen. intros n. kok.
  - kok.
  - apply Forall_map_gen. intros ok. unfold learn_opt.
    apply (keys_ok_if (fun x => Nat.eqb (length (blk (snd x) (fst ok, cOst))) (snd ok))); kok.
Qed.
Lemma keys_ok_act : keys_ok act_agent.
Proof.
  unfold act_agent. apply (keys_ok_dep (fun y => seqL (map (fun n => wfresh (n, cBuf)) (net_names (snd y)) ++ [wfresh kExt]))).
  intros y. apply keys_ok_seqL. apply Forall_app. split; [apply Forall_map_gen; intros; kok|kok].
Qed.
Lemma keys_ok_rebuild_eval sh : keys_ok (rebuild_eval sh).
Proof. unfold rebuild_eval. kok. Qed.
Lemma keys_ok_rebuild_shared : keys_ok rebuild_shared.
Proof.
  unfold rebuild_shared.
  apply (keys_ok_dep (fun y => seqL (flat_map (fun g => map (fun s z => rebuild_shared_one (g_eval g) s z) (g_shared g))
                                              (r_groups (a_reg (snd y)))))).
  intros y. apply keys_ok_seqL. apply Forall_flat_map_gen. intros g. apply Forall_map_gen. intros s.
  unfold rebuild_shared_one.
  apply (keys_ok_dep (fun y0 => seqL
     [ realloc (s, cEnc) (map CopyOf (blk (snd y0) (g_eval g, cEnc)) ++ repeat FreshV (length (blk (snd y0) (g_eval g, cHenc))));
       realloc (s, cHead) (map CopyOf (blk (snd y0) (g_eval g, cHead)));
       realloc (s, cHenc) [];
       realloc (s, cConst) (map CopyOf (blk (snd y0) (g_eval g, cConst)));
       realloc (s, cCfg) (map CopyOf (blk (snd y0) (g_eval g, cCfg)));
       realloc (s, cBuf) (map CopyOf (blk (snd y0) (g_eval g, cBuf)));
       pure (fun a' => with_arch a' (setN s (lookupN 0 (g_eval g) (a_arch a')) (a_arch a'))) ])).
  intros y0. kok.
Qed.
Lemma keys_ok_mutate k sh label : keys_ok (mutate_agent k sh label).
Proof.
  unfold mutate_agent. apply keys_ok_seqL.
  constructor; [|constructor; [apply keys_ok_rebuild_shared|constructor; [apply keys_ok_run_hooks|constructor; [kok|constructor]]]].
  destruct k; unfold mutate_kind.
  - apply keys_ok_id.
  - apply keys_ok_seqL. apply Forall_app. split.
    + apply Forall_map_gen. apply keys_ok_rebuild_eval.
    + constructor; [apply keys_ok_run_hooks|constructor; [apply keys_ok_reinit_opts|constructor]].
  - apply (keys_ok_dep (fun y => seqL [wfresh (policy_name (a_reg (snd y)), cEnc); wfresh (policy_name (a_reg (snd y)), cHead);
                                       wfresh (policy_name (a_reg (snd y)), cBuf); reinit_opts (fun _ => true)])).
    intros y. apply keys_ok_seqL. repeat (constructor; try apply keys_ok_wfresh; try apply keys_ok_reinit_opts).
  - apply (keys_ok_if (fun x => r_act_skip (a_reg (snd x)))); [apply keys_ok_id|].
    apply keys_ok_seqL. apply Forall_app. split.
    + apply Forall_map_gen. apply keys_ok_rebuild_eval.
    + constructor; [apply keys_ok_reinit_opts|constructor].
  - apply keys_ok_seqL. constructor; [kok|]. constructor; [kok|]. constructor; [apply keys_ok_reinit_opts|constructor].
Qed.

Lemma keys_clone idx s a : keys_of (snd (clone_agent idx s a)) = keys_of a.
Proof.
  rewrite clone_agent_unfold.
  destruct (copy_blocks_spec (a_blocks a) s) as (_ & _ & C3 & _).
  assert (K : keys_ok (clone_tail idx (blk a kExt))).
  { unfold clone_tail.
    apply (keys_ok_comp (fun x0 => realloc kExt (map CopyOf (blk a kExt)) (pure fix_refs (run_hooks x0)))).
    - apply (keys_ok_comp (fun x0 => pure fix_refs (run_hooks x0))).
      + apply (keys_ok_comp run_hooks); [apply keys_ok_run_hooks|apply keys_ok_pure; intros; reflexivity].
      + apply keys_ok_realloc.
    - apply keys_ok_pure. intros c. destruct idx; reflexivity. }
  rewrite K. unfold keys_of. cbn [snd with_blocks a_blocks]. exact C3.
Qed.

Lemma keys_ok_restore b : keys_ok (restore b).
Proof.
  unfold restore, restore_nets_opts, restore_attrs, new_opts, set_attrs. apply keys_ok_seqL.
  constructor; [|constructor; [|constructor]]; apply keys_ok_seqL.
  - constructor; [apply keys_ok_struct, struct_ok_rebuild_nets|].
    constructor; [apply keys_ok_pure; intros; reflexivity|].
    constructor; [apply keys_ok_run_hooks|].
    constructor; [apply keys_ok_struct, struct_ok_load_states|].
    constructor; [apply keys_ok_struct, struct_ok_adopt|].
    constructor; [apply keys_ok_pure; intros; reflexivity|constructor].
  - constructor; [apply keys_ok_struct, struct_ok_adopt|].
    constructor; [apply keys_ok_pure; intros; reflexivity|constructor].
Qed.
Lemma keys_ok_load_checkpoint b : keys_ok (fun x => fst (load_checkpoint b x)).
Proof.
  intros x. unfold load_checkpoint.
  destruct (reg_eqb (bl_reg b) (a_reg (snd (restore_nets_opts b x)))); cbn [fst].
  - apply (keys_ok_restore b x).
  - unfold restore_nets_opts, new_opts.
    assert (K : keys_ok (seqL [rebuild_nets (bl_blocks b); pure (fun a => with_arch a (bl_arch b)); run_hooks;
                               load_states (bl_blocks b); adopt is_ost (bl_blocks b);
                               pure (fun a => with_opts a (map (fun nl => mkOpt (fst nl) (snd nl)
                                   (match find_optcfg (a_reg a) (fst nl) with Some c => want_refs a c | None => [] end)) (bl_opts b)))])).
    { apply keys_ok_seqL.
      constructor; [apply keys_ok_struct, struct_ok_rebuild_nets|].
      constructor; [apply keys_ok_pure; intros; reflexivity|].
      constructor; [apply keys_ok_run_hooks|].
      constructor; [apply keys_ok_struct, struct_ok_load_states|].
      constructor; [apply keys_ok_struct, struct_ok_adopt|].
      constructor; [apply keys_ok_pure; intros; reflexivity|constructor]. }
    apply K.
Qed.

(* ---- populations with files -------------------------------------------------------------------- *)
Definition all_keys (KS : list key) (c : cworld) : Prop :=
  Forall (fun a => keys_of a = KS) (w_pop (cw c)) /\ Forall (fun b => map fst (bl_blocks b) = KS) (cw_files c).

Lemma Forall_update {A} (P : A -> Prop) (l : list A) : forall i x, Forall P l -> P x -> Forall P (update i x l).
Proof. induction l as [|h t IH]; intros [|i] x H Hx; cbn [update]; auto; inversion H; subst; constructor; auto. Qed.
Lemma Forall_remove_nth {A} (P : A -> Prop) (l : list A) : forall i, Forall P l -> Forall P (remove_nth i l).
Proof. induction l as [|h t IH]; intros [|i] H; cbn [remove_nth]; auto; inversion H; subst; auto. Qed.
Lemma Forall_skipn {A} (P : A -> Prop) : forall n (l : list A), Forall P l -> Forall P (skipn n l).
Proof. induction n as [|n IH]; intros [|h t] H; cbn [skipn]; auto. inversion H; subst. auto. Qed.
Lemma Forall_firstn {A} (P : A -> Prop) : forall n (l : list A), Forall P l -> Forall P (firstn n l).
Proof. induction n as [|n IH]; intros [|h t] H; cbn [firstn]; auto. inversion H; subst. constructor; auto. Qed.

Lemma apply_local_keys KS i f w : keys_ok f -> Forall (fun a => keys_of a = KS) (w_pop w) ->
  Forall (fun a => keys_of a = KS) (w_pop (apply_local i f w)).
Proof.
  intros Hf H. unfold apply_local. destruct (nth_error (w_pop w) i) as [a|] eqn:E; auto. cbn [w_pop].
  apply Forall_update; auto. rewrite (Hf (w_store w, a)). cbn [snd].
  rewrite Forall_forall in H. apply H. eapply nth_error_In; eauto.
Qed.
Lemma clone_into_keys KS i idx w : Forall (fun a => keys_of a = KS) (w_pop w) ->
  Forall (fun a => keys_of a = KS) (w_pop (clone_into clone_agent i idx w)).
Proof.
  intros H. unfold clone_into. destruct (nth_error (w_pop w) i) as [a|] eqn:E; auto.
  pose proof (keys_clone idx (w_store w) a) as K. destruct (clone_agent idx (w_store w) a) as [s' c]. cbn [snd w_pop] in *.
  apply Forall_app. split; auto. constructor; [|constructor]. rewrite K.
  rewrite Forall_forall in H. apply H. eapply nth_error_In; eauto.
Qed.
Lemma clone_winners_keys KS : forall ws id old w, Forall (fun a => keys_of a = KS) (w_pop w) ->
  Forall (fun a => keys_of a = KS) (w_pop (clone_winners ws id old w)).
Proof. induction ws as [|i r IH]; intros; cbn [clone_winners]; auto. apply IH. apply clone_into_keys; auto. Qed.

Lemma step_keys KS w o : Forall (fun a => keys_of a = KS) (w_pop w) -> Forall (fun a => keys_of a = KS) (w_pop (step w o)).
Proof.
  intros H. destruct o; cbn [step].
  - apply apply_local_keys; auto. apply keys_ok_learn.
  - apply apply_local_keys; auto. unfold score_agent. apply keys_ok_wfresh.
  - apply apply_local_keys; auto. apply keys_ok_act.
  - apply clone_into_keys; auto.
  - apply apply_local_keys; auto. apply keys_ok_mutate.
  - unfold select. cbn [w_pop]. apply Forall_app. split; [apply Forall_skipn|apply Forall_firstn, Forall_skipn];
      apply clone_winners_keys; destruct elitism; repeat apply clone_into_keys; auto.
  - cbn [w_pop]. apply Forall_remove_nth; auto.
Qed.

Theorem cstep_keys_lemma KS c o : all_keys KS c -> all_keys KS (cstep c o).
Proof.
  intros [HP HF]. destruct o as [o'|i|f|f j]; cbn [cstep].
  - split; cbn [cw cw_files]; auto. apply step_keys; auto.
  - destruct (nth_error (w_pop (cw c)) i) as [a|] eqn:E; [|split; auto].
    destruct (save_spec_lemma (w_store (cw c)) a) as (_ & _ & S3 & _).
    destruct (save (w_store (cw c)) a) as [s' b]. cbn [fst snd cw cw_files w_pop] in *. split; auto.
    apply Forall_app. split; auto. constructor; [|constructor]. rewrite S3.
    rewrite Forall_forall in HP. apply (HP a). eapply nth_error_In; eauto.
  - destruct (nth_error (cw_files c) f) as [b|] eqn:E; [|split; auto].
    pose proof (keys_ok_restore b (w_store (cw c), skeleton b)) as K. unfold load.
    destruct (restore b (w_store (cw c), skeleton b)) as [s' a]. cbn [fst snd cw cw_files w_pop] in *. split; auto.
    apply Forall_app. split; auto. constructor; [|constructor]. rewrite K.
    unfold keys_of, skeleton. cbn [a_blocks]. rewrite map_map. cbn [fst].
    rewrite Forall_forall in HF. apply (HF b). eapply nth_error_In; eauto.
  - destruct (nth_error (cw_files c) f) as [b|]; [|split; auto]. split; cbn [cw cw_files]; auto.
    apply apply_local_keys; auto. apply keys_ok_load_checkpoint.
Qed.

Theorem crun_keys_lemma KS ops : forall c, all_keys KS c -> all_keys KS (crun c ops).
Proof. unfold crun. induction ops as [|o r IH]; intros c H; cbn [fold_left]; auto. apply IH. apply cstep_keys_lemma; auto. Qed.

(* ---- every member of every reachable population can be saved ------------------------------------- *)
Definition keys_good (KS : list key) : bool :=
  keys_nodupb KS && forallb (fun k => is_net k || is_ost k || is_attr k) KS.

Lemma member_NoDup : forall (p : list agent) a, In a p -> NoDup (concat (map agent_locs p)) -> NoDup (agent_locs a).
Proof.
  induction p as [|h t IH]; intros a Hin ND; [contradiction|]. cbn [map concat] in ND.
  destruct (NoDup_app_inv _ _ ND) as (N1 & N2 & _). destruct Hin as [->|Hin]; auto.
Qed.

Theorem reachable_savable_lemma KS c ops a :
  WF (cw c) -> all_keys KS c -> keys_good KS = true -> In a (w_pop (cw (crun c ops))) ->
  savable a = true /\ bounded (w_store (cw (crun c ops))) (agent_locs a).
Proof.
  intros W AK KG Hin.
  destruct (crun_WF_lemma ops c W) as [ND B]. destruct (crun_keys_lemma KS ops c AK) as [HP _].
  rewrite Forall_forall in HP. specialize (HP a Hin). unfold keys_of in HP.
  unfold keys_good in KG. apply andb_true_iff in KG as [K1 K2]. split.
  - unfold savable. rewrite HP, K1. cbn [andb]. apply andb_true_iff. split.
    + apply nodupb_NoDup. apply (member_NoDup _ a Hin ND).
    + unfold known_cls. rewrite forallb_forall in *. intros kv Hkv. apply K2. rewrite <- HP. apply in_map; auto.
  - apply Forall_forall. intros l Hl. unfold bounded in B. rewrite Forall_forall in B. apply B.
    unfold all_locs. apply in_concat. exists (agent_locs a). split; auto. apply in_map; auto.
Qed.
