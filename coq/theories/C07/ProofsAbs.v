(* C07/ProofsAbs.v — the restored agent has the saved agent's view (load_save_abs and friends).

   Structure:
   1. keys and blocks: [getb] / [setb] on distinct keys, disjointness of blocks, contents by key;
   2. three contracts for agent-local transformers, closed under sequencing:
        [struct_ok f]  f changes only the blocks of the agent record and keeps the key list,
        [wr_ok K f]    blocks whose key is outside K keep their cells and the contents of their cells,
      (the third one is [local_ok] of Evo/EvoProofs.v) and the primitives / hooks / block-wise passes satisfy them;
   3. what a block-wise pass establishes: [on_blocks_realloc_copy], [on_blocks_realloc_len], [load_states_at];
   4. [restore_abs_lemma]: the view after [restore b] is the view stored in the file;
   5. corollaries: load (save a), loading an old file later (crash point), load_checkpoint into any agent. *)
From Coq Require Import List NArith QArith Lia Bool.
From AgileV Require Import Evo.Heap Evo.Evo Evo.EvoProofs C07.Model C07.Proofs.
Import ListNotations.
Open Scope N_scope.

(* ---------------------------------------------------------------------------------------------- *)
(* 1. keys and blocks *)

Lemma key_eqb_eq a b : key_eqb a b = true <-> a = b.
Proof.
  unfold key_eqb. rewrite andb_true_iff, !N.eqb_eq. destruct a, b; cbn. split; [intros [-> ->]; auto|intros E; inversion E; auto].
Qed.
Lemma key_eqb_refl a : key_eqb a a = true.
Proof. apply key_eqb_eq; auto. Qed.
Lemma key_eqb_sym a b : key_eqb a b = key_eqb b a.
Proof. unfold key_eqb. rewrite (N.eqb_sym (fst a)), (N.eqb_sym (snd a)). reflexivity. Qed.
Lemma key_eqb_neq a b : key_eqb a b = false <-> a <> b.
Proof. rewrite <- key_eqb_eq. destruct (key_eqb a b); split; congruence. Qed.

Lemma getb_setb_same k v : forall bs, In k (map fst bs) -> getb k (setb k v bs) = v.
Proof.
  induction bs as [|kv r IH]; cbn [map In setb getb]; [contradiction|].
  intros H. destruct (key_eqb k (fst kv)) eqn:E; cbn [getb fst snd]; rewrite E; auto.
  apply IH. destruct H as [H|H]; auto. subst k. rewrite key_eqb_refl in E. discriminate.
Qed.

Lemma getb_setb_other k k' v : key_eqb k' k = false -> forall bs, getb k (setb k' v bs) = getb k bs.
Proof.
  intros N. induction bs as [|kv r IH]; cbn [setb getb]; auto.
  destruct (key_eqb k' (fst kv)) eqn:E; cbn [getb fst snd].
  - apply key_eqb_eq in E. subst k'. rewrite key_eqb_sym in N. rewrite N. reflexivity.
  - destruct (key_eqb k (fst kv)); auto.
Qed.

Lemma getb_notin k : forall bs, ~ In k (map fst bs) -> getb k bs = [].
Proof.
  induction bs as [|kv r IH]; cbn [map In getb]; auto. intros H.
  destruct (key_eqb k (fst kv)) eqn:E.
  - apply key_eqb_eq in E. exfalso. apply H. left; auto.
  - apply IH. intro; apply H; right; auto.
Qed.

Lemma getb_NoDup k bs : NoDup (locs_of bs) -> NoDup (getb k bs).
Proof.
  unfold locs_of. induction bs as [|kv r IH]; cbn [getb map concat]; intros ND; [constructor|].
  destruct (NoDup_app_inv _ _ ND) as (N1 & N2 & _). destruct (key_eqb k (fst kv)); auto.
Qed.

(* blocks with different keys are disjoint in a duplicate-free agent *)
Lemma getb_disjoint k k' l : key_eqb k k' = false -> forall bs, NoDup (locs_of bs) ->
  In l (getb k bs) -> ~ In l (getb k' bs).
Proof.
  intros N. unfold locs_of. induction bs as [|kv r IH]; cbn [getb map concat]; intros ND H; auto.
  destruct (NoDup_app_inv _ _ ND) as (N1 & N2 & D).
  destruct (key_eqb k (fst kv)) eqn:E1, (key_eqb k' (fst kv)) eqn:E2.
  - apply key_eqb_eq in E1, E2. subst. rewrite key_eqb_refl in N. discriminate.
  - intro H'. apply (D l H). apply (getb_incl k' r l H').
  - intro H'. apply (D l H'). apply (getb_incl k r l H).
  - apply IH; auto.
Qed.

Lemma keys_nodupb_NoDup ks : keys_nodupb ks = true -> NoDup ks.
Proof.
  induction ks as [|k r IH]; cbn [keys_nodupb]; intros H; constructor.
  - apply andb_true_iff in H as [H _]. apply negb_true_iff in H. intro Hin.
    assert (existsb (key_eqb k) r = true); [|congruence].
    apply existsb_exists. exists k. split; auto. apply key_eqb_refl.
  - apply IH. apply andb_true_iff in H as [_ H]. auto.
Qed.

Lemma getb_in k u : forall bs, NoDup (map fst bs) -> In (k, u) bs -> getb k bs = u.
Proof.
  induction bs as [|kv r IH]; cbn [map In getb]; [contradiction|]. intros ND H. inversion ND as [|? ? Hn ND']; subst.
  destruct H as [H|H].
  - subst kv. cbn [fst snd]. rewrite key_eqb_refl. reflexivity.
  - destruct (key_eqb k (fst kv)) eqn:E; auto.
    apply key_eqb_eq in E. exfalso. apply Hn. rewrite <- E. apply (in_map fst _ _ H).
Qed.

Definition contf (g : loc -> cval) (bs : blocks) : list (key * list cval) :=
  map (fun kv => (fst kv, map g (snd kv))) bs.

Lemma contf_by_keys g g' : forall bs bs',
  map fst bs' = map fst bs -> NoDup (map fst bs) ->
  (forall k, In k (map fst bs) -> map g' (getb k bs') = map g (getb k bs)) ->
  contf g' bs' = contf g bs.
Proof.
  induction bs as [|kv r IH]; intros [|kv' r'] HK ND H; cbn [map contf] in *; try discriminate; auto.
  injection HK as K1 K2. inversion ND as [|? ? Hn ND']; subst.
  f_equal.
  - rewrite K1. f_equal. specialize (H (fst kv) (or_introl eq_refl)).
    cbn [getb] in H. rewrite K1, key_eqb_refl in H. exact H.
  - apply IH; auto. intros k Hk. specialize (H k (or_intror Hk)). cbn [getb] in H.
    assert (E : key_eqb k (fst kv) = false).
    { apply key_eqb_neq. intro. subst k. contradiction. }
    rewrite K1, E in H. exact H.
Qed.

(* ---------------------------------------------------------------------------------------------- *)
(* 2. contracts *)

Definition okst (x : lstate) : Prop := NoDup (agent_locs (snd x)) /\ bounded (fst x) (agent_locs (snd x)).

Lemma okst_step f x : local_ok f -> okst x -> okst (f x).
Proof.
  intros Hf [ND B]. destruct (Hf x) as (F1 & F2 & F3 & _). split; auto.
  apply Forall_forall. intros l Hl. destruct (F2 l Hl) as [H|H]; [|lia].
  unfold bounded in B. rewrite Forall_forall in B. specialize (B l H). lia.
Qed.

Definition struct_ok (f : lstate -> lstate) : Prop :=
  forall x, exists bs', snd (f x) = with_blocks (snd x) bs' /\ map fst bs' = map fst (a_blocks (snd x)).

Lemma with_blocks_id a : with_blocks a (a_blocks a) = a.
Proof. destruct a; reflexivity. Qed.
Lemma with_blocks_twice a b1 b2 : with_blocks (with_blocks a b1) b2 = with_blocks a b2.
Proof. reflexivity. Qed.

Lemma struct_ok_id : struct_ok (fun x => x).
Proof. intros x. exists (a_blocks (snd x)). rewrite with_blocks_id. auto. Qed.
Lemma struct_ok_comp f g : struct_ok f -> struct_ok g -> struct_ok (fun x => g (f x)).
Proof.
  intros Hf Hg x. destruct (Hf x) as (b1 & E1 & K1). destruct (Hg (f x)) as (b2 & E2 & K2).
  exists b2. rewrite E2, E1, with_blocks_twice. split; auto. rewrite K2, E1. cbn [with_blocks a_blocks]. auto.
Qed.
Lemma struct_ok_seqL fs : Forall struct_ok fs -> struct_ok (seqL fs).
Proof.
  unfold seqL. induction fs as [|f r IH]; intros H; cbn [fold_left]; [apply struct_ok_id|].
  inversion H; subst. apply (struct_ok_comp f (fun x => fold_left (fun st g => g st) r x)); auto.
Qed.
Lemma struct_ok_dep (F : lstate -> lstate -> lstate) : (forall y, struct_ok (F y)) -> struct_ok (fun x => F x x).
Proof. intros H x. exact (H x x). Qed.
Lemma struct_ok_if (b : lstate -> bool) f g : struct_ok f -> struct_ok g -> struct_ok (fun x => if b x then f x else g x).
Proof. intros Hf Hg x. destruct (b x); [apply Hf|apply Hg]. Qed.

Lemma struct_ok_realloc k srcs : struct_ok (realloc k srcs).
Proof.
  intros [s a]. unfold realloc. cbn [fst snd]. destruct (alloc s srcs) as [s' ls]. cbn [snd].
  exists (setb k ls (a_blocks a)). split; auto. apply setb_keys.
Qed.
Lemma struct_ok_same f : (forall x, snd (f x) = snd x) -> struct_ok f.
Proof. intros H x. exists (a_blocks (snd x)). rewrite H, with_blocks_id. auto. Qed.
Lemma struct_ok_wfresh k : struct_ok (wfresh k).
Proof. apply struct_ok_same. intros; reflexivity. Qed.
Lemma struct_ok_wcopy kd ks : struct_ok (wcopy kd ks).
Proof. apply struct_ok_same. intros [s a]. unfold wcopy. cbn [fst snd]. destruct (Nat.eqb _ _); reflexivity. Qed.
Lemma struct_ok_wfrom k u : struct_ok (wfrom k u).
Proof. apply struct_ok_same. intros [s a]. unfold wfrom. cbn [fst snd]. destruct (Nat.eqb _ _); reflexivity. Qed.

Lemma Forall_map_gen {A} (P : (lstate -> lstate) -> Prop) (g : A -> lstate -> lstate) l :
  (forall a, P (g a)) -> Forall P (map g l).
Proof. intros H. induction l; cbn; constructor; auto. Qed.
Lemma Forall_flat_map_gen {A} (P : (lstate -> lstate) -> Prop) (g : A -> list (lstate -> lstate)) l :
  (forall a, Forall P (g a)) -> Forall P (flat_map g l).
Proof. intros H. induction l; cbn [flat_map]; [constructor|]. apply Forall_app. split; auto. Qed.

Lemma struct_ok_on_blocks p f B : (forall k u, struct_ok (f k u)) -> struct_ok (on_blocks p f B).
Proof. intros H. unfold on_blocks. apply struct_ok_seqL. apply Forall_map_gen. intros kv. apply H. Qed.

Lemma struct_ok_run_hook h : struct_ok (run_hook h).
Proof.
  destruct h as [e t|p others|]; unfold run_hook.
  - apply (struct_ok_if (fun x => Nat.eqb (length (blk (snd x) (t, cEnc))) (length (blk (snd x) (e, cEnc))) &&
                                   Nat.eqb (length (blk (snd x) (t, cHead))) (length (blk (snd x) (e, cHead))) &&
                                   Nat.eqb (length (blk (snd x) (t, cBuf))) (length (blk (snd x) (e, cBuf))))).
    + apply struct_ok_seqL. repeat (apply Forall_cons; [apply struct_ok_wcopy|]). apply Forall_nil.
    + apply struct_ok_id.
  - apply struct_ok_seqL. apply Forall_flat_map_gen. intros o. constructor; [|constructor; [|constructor; [|constructor]]].
    + apply (struct_ok_dep (fun y => realloc (o, cHenc) (map CopyOf (blk (snd y) (p, cEnc))))). intros; apply struct_ok_realloc.
    + apply struct_ok_realloc.
    + apply struct_ok_wfresh.
  - apply (struct_ok_dep (fun y => realloc kExt (map (fun _ => FreshV) (blk (snd y) kExt)))). intros; apply struct_ok_realloc.
Qed.
Lemma struct_ok_run_hooks : struct_ok run_hooks.
Proof.
  unfold run_hooks. apply (struct_ok_dep (fun y => seqL (map run_hook (r_hooks (a_reg (snd y)))))).
  intros y. apply struct_ok_seqL. apply Forall_map_gen. apply struct_ok_run_hook.
Qed.

(* what [struct_ok] gives about the record *)
Lemma struct_ok_fields f x : struct_ok f ->
  a_index (snd (f x)) = a_index (snd x) /\ a_mut (snd (f x)) = a_mut (snd x) /\ a_arch (snd (f x)) = a_arch (snd x) /\
  a_opts (snd (f x)) = a_opts (snd x) /\ a_hps (snd (f x)) = a_hps (snd x) /\ a_reg (snd (f x)) = a_reg (snd x) /\
  map fst (a_blocks (snd (f x))) = map fst (a_blocks (snd x)).
Proof. intros H. destruct (H x) as (bs' & E & K). rewrite E. cbn. repeat split; auto. Qed.

(* blocks outside K keep their cells and the contents of their cells *)
Definition wr_ok (K : key -> bool) (f : lstate -> lstate) : Prop :=
  forall x, okst x -> forall k, K k = false ->
    getb k (a_blocks (snd (f x))) = getb k (a_blocks (snd x)) /\
    (forall l, In l (getb k (a_blocks (snd x))) -> rd (fst (f x)) l = rd (fst x) l).

Lemma wr_ok_id K : wr_ok K (fun x => x).
Proof. intros x _ k _. split; auto. Qed.
Lemma wr_ok_comp K f g : local_ok f -> wr_ok K f -> wr_ok K g -> wr_ok K (fun x => g (f x)).
Proof.
  intros Lf Hf Hg x OK k Hk. destruct (Hf x OK k Hk) as [F1 F2].
  destruct (Hg (f x) (okst_step f x Lf OK) k Hk) as [G1 G2]. split.
  - rewrite G1, F1. reflexivity.
  - intros l Hl. rewrite G2 by (rewrite F1; auto). apply F2; auto.
Qed.
Lemma wr_ok_seqL K fs : Forall local_ok fs -> Forall (wr_ok K) fs -> wr_ok K (seqL fs).
Proof.
  unfold seqL. induction fs as [|f r IH]; intros HL HW; cbn [fold_left]; [apply wr_ok_id|].
  inversion HL; inversion HW; subst. apply (wr_ok_comp K f (fun x => fold_left (fun st g => g st) r x)); auto.
Qed.
Lemma wr_ok_dep K (F : lstate -> lstate -> lstate) : (forall y, wr_ok K (F y)) -> wr_ok K (fun x => F x x).
Proof. intros H x. exact (H x x). Qed.
Lemma wr_ok_weaken (K K' : key -> bool) f : (forall k, K k = true -> K' k = true) -> wr_ok K f -> wr_ok K' f.
Proof.
  intros HK Hf x OK k Hk. apply Hf; auto. destruct (K k) eqn:E; auto. rewrite (HK k E) in Hk. discriminate.
Qed.
Lemma wr_ok_if K (b : lstate -> bool) f g : wr_ok K f -> wr_ok K g -> wr_ok K (fun x => if b x then f x else g x).
Proof. intros Hf Hg x. destruct (b x); [apply Hf|apply Hg]. Qed.

Lemma okst_getb_bounded x k l : okst x -> In l (getb k (a_blocks (snd x))) -> l < s_next (fst x).
Proof.
  intros [_ B] H. unfold bounded, agent_locs in B. rewrite Forall_forall in B. apply B. eapply getb_incl; eauto.
Qed.

Lemma wr_ok_realloc k' srcs : wr_ok (key_eqb k') (realloc k' srcs).
Proof.
  intros [s a] OK k Hk. unfold realloc. cbn [fst snd] in *.
  pose proof (alloc_frame srcs s) as HF. destruct (alloc s srcs) as [s' ls]. cbn [fst snd with_blocks a_blocks] in *.
  split.
  - apply getb_setb_other; auto.
  - intros l Hl. apply HF. apply (okst_getb_bounded (s, a) k l OK Hl).
Qed.

Lemma wr_ok_write (k' : key) (f : lstate -> lstate) :
  (forall x, snd (f x) = snd x) ->
  (forall x l, ~ In l (getb k' (a_blocks (snd x))) -> rd (fst (f x)) l = rd (fst x) l) ->
  wr_ok (key_eqb k') f.
Proof.
  intros H1 H2 x [ND B] k Hk. rewrite H1. split; auto.
  intros l Hl. apply H2. rewrite key_eqb_sym in Hk. apply (getb_disjoint k k' l Hk (a_blocks (snd x)) ND Hl).
Qed.
Lemma wr_ok_wfresh k' : wr_ok (key_eqb k') (wfresh k').
Proof.
  apply wr_ok_write; [intros; reflexivity|]. intros [s a] l Hn. unfold wfresh. cbn [fst snd] in *. apply write_fresh_frame; auto.
Qed.
Lemma wr_ok_wcopy k' ks : wr_ok (key_eqb k') (wcopy k' ks).
Proof.
  apply wr_ok_write.
  - intros [s a]. unfold wcopy. cbn [fst snd]. destruct (Nat.eqb _ _); reflexivity.
  - intros [s a] l Hn. unfold wcopy. cbn [fst snd] in *. destruct (Nat.eqb _ _); cbn [fst]; auto. apply write_copy_frame; auto.
Qed.
Lemma wr_ok_wfrom k' u : wr_ok (key_eqb k') (wfrom k' u).
Proof.
  apply wr_ok_write.
  - intros [s a]. unfold wfrom. cbn [fst snd]. destruct (Nat.eqb _ _); reflexivity.
  - intros [s a] l Hn. unfold wfrom. cbn [fst snd] in *. destruct (Nat.eqb _ _); cbn [fst]; auto. apply write_copy_frame; auto.
Qed.
Lemma wr_ok_pure K g : (forall a, a_blocks (g a) = a_blocks a) -> wr_ok K (pure g).
Proof. intros H x _ k _. unfold pure. cbn [fst snd]. rewrite H. split; auto. Qed.

Lemma wr_ok_on_blocks p f B :
  (forall k u, local_ok (f k u)) -> (forall k u, wr_ok (key_eqb k) (f k u)) -> wr_ok p (on_blocks p f B).
Proof.
  intros HL HW. unfold on_blocks. apply wr_ok_seqL.
  - apply Forall_map_gen. intros kv. apply HL.
  - induction B as [|kv r IH]; cbn [filter map]; [constructor|].
    destruct (p (fst kv)) eqn:E; auto. cbn [map]. constructor; auto.
    apply (wr_ok_weaken (key_eqb (fst kv))); auto.
    intros k Hk. apply key_eqb_eq in Hk. subst k. exact E.
Qed.

(* ---- classes ---- *)
Definition is_cc (k : key) : bool := cls_in k [cCfg; cConst].
Definition hookK (k : key) : bool := is_sd k || key_eqb kExt k.

Ltac solve_cls :=
  intros; repeat match goal with k : key |- _ => destruct k as [? ?] end;
  unfold hookK, is_cc, is_sd, is_ost, is_attr, is_hidden, is_net, cls_in, key_eqb, kExt,
         cEnc, cHead, cHenc, cConst, cCfg, cOst, cReg, cBook, cExt, cBuf in *;
  cbn [fst snd existsb] in *;
  repeat match goal with
         | |- context[N.eqb ?c ?n] => is_var c; destruct (N.eqb_spec c n); [subst c|]
         | H : context[N.eqb ?c ?n] |- _ => is_var c; destruct (N.eqb_spec c n); [subst c|]
         end;
  cbn in *; try discriminate; try lia; auto.

Lemma cls_sd_not k : is_sd k = true -> is_ost k = false /\ is_attr k = false /\ is_cc k = false /\ is_hidden k = false /\ is_net k = true.
Proof. solve_cls. Qed.
Lemma cls_cc_not k : is_cc k = true -> is_ost k = false /\ is_attr k = false /\ is_sd k = false /\ hookK k = false /\ is_net k = true /\ is_hidden k = false.
Proof. solve_cls. Qed.
Lemma cls_hidden_not k : is_hidden k = true -> is_ost k = false /\ is_attr k = false /\ is_sd k = false /\ hookK k = false /\ is_net k = true /\ is_cc k = false.
Proof. solve_cls. Qed.
Lemma cls_ost_not k : is_ost k = true -> is_net k = false /\ is_attr k = false /\ is_sd k = false /\ hookK k = false.
Proof. solve_cls. Qed.
Lemma cls_attr_not k : is_attr k = true -> is_net k = false /\ is_ost k = false /\ is_sd k = false.
Proof. solve_cls. Qed.
Lemma cls_net_split k : is_net k = true -> is_sd k = true \/ is_cc k = true \/ is_hidden k = true.
Proof. solve_cls. Qed.
Lemma cls_sd_ext k : is_sd k = true -> key_eqb kExt k = false.
Proof. solve_cls. Qed.

(* hooks of a registry without encoder sharing *)
Definition hook_plain (h : hook) : bool := match h with HShare _ _ => false | _ => true end.

Lemma wr_ok_run_hook_plain h : hook_plain h = true -> wr_ok hookK (run_hook h).
Proof.
  destruct h as [e t|p others|]; cbn [hook_plain]; intros H; try discriminate; unfold run_hook.
  - apply (wr_ok_if hookK (fun x => Nat.eqb (length (blk (snd x) (t, cEnc))) (length (blk (snd x) (e, cEnc))) &&
                                    Nat.eqb (length (blk (snd x) (t, cHead))) (length (blk (snd x) (e, cHead))) &&
                                    Nat.eqb (length (blk (snd x) (t, cBuf))) (length (blk (snd x) (e, cBuf))))).
    + apply wr_ok_seqL; [repeat (apply Forall_cons; [apply local_ok_wcopy|]); apply Forall_nil|].
      repeat (apply Forall_cons;
        [eapply wr_ok_weaken; [|apply wr_ok_wcopy]; intros k Hk; apply key_eqb_eq in Hk; subst k; reflexivity|]).
      apply Forall_nil.
    + apply wr_ok_id.
  - apply (wr_ok_dep hookK (fun y => realloc kExt (map (fun _ => FreshV) (blk (snd y) kExt)))). intros y.
    eapply wr_ok_weaken; [|apply wr_ok_realloc]. intros k Hk. unfold hookK. rewrite Hk. apply orb_true_r.
Qed.

Lemma wr_ok_hooks_list hs : forallb hook_plain hs = true -> wr_ok hookK (seqL (map run_hook hs)).
Proof.
  intros H. apply wr_ok_seqL.
  - apply Forall_map_ok. apply local_ok_run_hook.
  - induction hs as [|h r IH]; cbn [map]; constructor.
    + apply wr_ok_run_hook_plain. cbn [forallb] in H. apply andb_true_iff in H as [H _]. auto.
    + apply IH. cbn [forallb] in H. apply andb_true_iff in H as [_ H]. auto.
Qed.

(* a plain hook keeps every block except the ext block (its cells may be written, the block itself stays) *)
Lemma run_hook_plain_blocks h x k : hook_plain h = true -> key_eqb kExt k = false ->
  getb k (a_blocks (snd (run_hook h x))) = getb k (a_blocks (snd x)).
Proof.
  destruct h as [e t|p others|]; cbn [hook_plain]; intros H Hk; try discriminate; unfold run_hook.
  - destruct (_ && _); auto. unfold seqL. cbn [fold_left]. destruct x as [s a].
    unfold wcopy. cbn [fst snd]. repeat (destruct (Nat.eqb _ _); cbn [fst snd]); reflexivity.
  - destruct x as [s a]. unfold realloc. cbn [fst snd]. destruct (alloc s _) as [s' ls]. cbn [snd with_blocks a_blocks].
    apply getb_setb_other; auto.
Qed.
Lemma run_hooks_list_blocks hs k : forallb hook_plain hs = true -> key_eqb kExt k = false ->
  forall x, getb k (a_blocks (snd (seqL (map run_hook hs) x))) = getb k (a_blocks (snd x)).
Proof.
  intros H Hk. unfold seqL. induction hs as [|h r IH]; intros x; cbn [map fold_left]; auto.
  cbn [forallb] in H. apply andb_true_iff in H as [H1 H2]. rewrite (IH H2). apply run_hook_plain_blocks; auto.
Qed.

(* ---------------------------------------------------------------------------------------------- *)
(* 3. what the block-wise passes establish *)

(* the cells of the file: allocated, owned by nobody *)
Definition bfree (B : blocks) (x : lstate) : Prop :=
  forall l, In l (locs_of B) -> l < s_next (fst x) /\ ~ In l (agent_locs (snd x)).

Lemma bfree_step B f x : local_ok f -> bfree B x ->
  bfree B (f x) /\ forall l, In l (locs_of B) -> rd (fst (f x)) l = rd (fst x) l.
Proof.
  intros Hf HB. destruct (Hf x) as (F1 & F2 & _ & F4). split.
  - intros l Hl. destruct (HB l Hl) as [H1 H2]. split; [lia|].
    intro Hin. destruct (F2 l Hin) as [H|H]; [contradiction|lia].
  - intros l Hl. destruct (HB l Hl) as [H1 H2]. apply F4; auto.
Qed.

Lemma in_locs_of k u B l : In (k, u) B -> In l u -> In l (locs_of B).
Proof. intros H Hl. unfold locs_of. apply in_concat. exists u. split; auto. apply (in_map snd _ _ H). Qed.

Definition cont (x : lstate) (k : key) : list cval := map (rd (fst x)) (getb k (a_blocks (snd x))).

Lemma has_key_step f x k : struct_ok f -> In k (map fst (a_blocks (snd x))) -> In k (map fst (a_blocks (snd (f x)))).
Proof. intros H Hk. destruct (struct_ok_fields f x H) as (_ & _ & _ & _ & _ & _ & E). rewrite E. auto. Qed.

Section Realloc.
  Variable p : key -> bool.
  Variable src : key -> list loc -> list src.
  Let pass (B : blocks) := on_blocks p (fun k u => realloc k (src k u)) B.

  Lemma pass_cons kv B x : pass (kv :: B) x = if p (fst kv) then pass B (realloc (fst kv) (src (fst kv) (snd kv)) x) else pass B x.
  Proof. unfold pass, on_blocks. cbn [filter]. destruct (p (fst kv)); reflexivity. Qed.

  Lemma local_ok_pass B : local_ok (pass B).
  Proof. apply local_ok_on_blocks. intros; apply local_ok_realloc. Qed.
  Lemma struct_ok_pass B : struct_ok (pass B).
  Proof. apply struct_ok_on_blocks. intros; apply struct_ok_realloc. Qed.

  (* a key that does not occur in B keeps its block and contents *)
  Lemma pass_other : forall B x k, okst x -> ~ In k (map fst B) ->
    getb k (a_blocks (snd (pass B x))) = getb k (a_blocks (snd x)) /\
    (forall l, In l (getb k (a_blocks (snd x))) -> rd (fst (pass B x)) l = rd (fst x) l).
  Proof.
    induction B as [|kv r IH]; intros x k OK Hn.
    - unfold pass, on_blocks. cbn. split; auto.
    - rewrite pass_cons. cbn [map In] in Hn.
      assert (Hr : ~ In k (map fst r)) by (intro; apply Hn; right; auto).
      destruct (p (fst kv)); [|apply IH; auto].
      assert (E : key_eqb (fst kv) k = false) by (apply key_eqb_neq; intro; apply Hn; left; auto).
      destruct (wr_ok_realloc (fst kv) (src (fst kv) (snd kv)) x OK k E) as [W1 W2].
      destruct (IH (realloc (fst kv) (src (fst kv) (snd kv)) x) k (okst_step _ x (local_ok_realloc _ _) OK) Hr) as [I1 I2].
      split.
      + rewrite I1, W1. reflexivity.
      + intros l Hl. rewrite I2 by (rewrite W1; auto). apply W2; auto.
  Qed.

  (* the block of a key of B has as many cells as its source list *)
  Lemma pass_len : forall B x k u, okst x -> NoDup (map fst B) -> In (k, u) B -> p k = true ->
    In k (map fst (a_blocks (snd x))) ->
    length (getb k (a_blocks (snd (pass B x)))) = length (src k u).
  Proof.
    induction B as [|kv r IH]; intros x k u OK ND Hin Hp Hk; [contradiction|].
    rewrite pass_cons. cbn [map] in ND. inversion ND as [|? ? Hn ND']; subst.
    destruct Hin as [Hin|Hin].
    - subst kv. cbn [fst snd] in *. rewrite Hp.
      set (x' := realloc k (src k u) x).
      destruct (pass_other r x' k (okst_step _ x (local_ok_realloc _ _) OK) Hn) as [P1 _]. rewrite P1.
      unfold x', realloc. destruct x as [s a]. cbn [fst snd] in *.
      pose proof (alloc_locs (src k u) s) as HL. destruct (alloc s (src k u)) as [s' ls]. cbn [snd with_blocks a_blocks] in *.
      rewrite getb_setb_same by auto. rewrite HL. apply nseq_length.
    - destruct (p (fst kv)); [|apply (IH x k u); auto].
      apply (IH _ k u); auto.
      + apply okst_step; auto. apply local_ok_realloc.
      + apply has_key_step; auto. apply struct_ok_realloc.
  Qed.

  (* copies: the block of a key of B holds the contents of its file cells *)
  Lemma pass_copy : forall B x k u, okst x -> NoDup (map fst B) -> In (k, u) B -> p k = true ->
    In k (map fst (a_blocks (snd x))) -> src k u = map CopyOf u -> (forall l, In l u -> l < s_next (fst x)) ->
    cont (pass B x) k = map (rd (fst x)) u.
  Proof.
    induction B as [|kv r IH]; intros x k u OK ND Hin Hp Hk Hs Hb; [contradiction|].
    rewrite pass_cons. cbn [map] in ND. inversion ND as [|? ? Hn ND']; subst.
    destruct Hin as [Hin|Hin].
    - subst kv. cbn [fst snd] in *. rewrite Hp.
      set (x' := realloc k (src k u) x).
      destruct (pass_other r x' k (okst_step _ x (local_ok_realloc _ _) OK) Hn) as [P1 P2].
      unfold cont. rewrite P1.
      rewrite (map_ext_in _ (rd (fst x'))) by (intros l Hl; apply P2; auto).
      unfold x', realloc. destruct x as [s a]. cbn [fst snd] in *. rewrite Hs.
      assert (Hall : Forall (fun l => l < s_next s) u) by (apply Forall_forall; auto).
      pose proof (alloc_copy_content u s Hall) as HC.
      destruct (alloc s (map CopyOf u)) as [s' ls]. cbn [fst snd with_blocks a_blocks] in *.
      rewrite getb_setb_same by auto. exact HC.
    - destruct (p (fst kv)) eqn:Ep; [|apply (IH x k u); auto].
      set (x' := realloc (fst kv) (src (fst kv) (snd kv)) x).
      assert (Hx' : forall l, l < s_next (fst x) -> rd (fst x') l = rd (fst x) l /\ l < s_next (fst x')).
      { intros l Hl. unfold x', realloc. destruct x as [s a]. cbn [fst snd] in *.
        pose proof (alloc_frame (src (fst kv) (snd kv)) s l Hl) as HF.
        pose proof (alloc_next (src (fst kv) (snd kv)) s) as HN.
        destruct (alloc s (src (fst kv) (snd kv))) as [s' ls]. cbn [fst snd] in *. split; auto. lia. }
      rewrite (IH x' k u); auto.
      + apply map_ext_in. intros l Hl. apply Hx'. auto.
      + apply okst_step; auto. apply local_ok_realloc.
      + apply has_key_step; auto. apply struct_ok_realloc.
      + intros l Hl. apply Hx'. auto.
  Qed.
End Realloc.

(* load_state_dict pass *)
Lemma ls_cons kv B x : load_states (kv :: B) x = if is_sd (fst kv) then load_states B (wfrom (fst kv) (snd kv) x) else load_states B x.
Proof. unfold load_states, on_blocks. cbn [filter]. destruct (is_sd (fst kv)); reflexivity. Qed.

Lemma ls_other : forall B x k, okst x -> ~ In k (map fst B) ->
  getb k (a_blocks (snd (load_states B x))) = getb k (a_blocks (snd x)) /\
  (forall l, In l (getb k (a_blocks (snd x))) -> rd (fst (load_states B x)) l = rd (fst x) l).
Proof.
  induction B as [|kv r IH]; intros x k OK Hn.
  - unfold load_states, on_blocks. cbn. split; auto.
  - rewrite ls_cons. cbn [map In] in Hn.
    assert (Hr : ~ In k (map fst r)) by (intro; apply Hn; right; auto).
    destruct (is_sd (fst kv)); [|apply IH; auto].
    assert (E : key_eqb (fst kv) k = false) by (apply key_eqb_neq; intro; apply Hn; left; auto).
    destruct (wr_ok_wfrom (fst kv) (snd kv) x OK k E) as [W1 W2].
    destruct (IH (wfrom (fst kv) (snd kv) x) k (okst_step _ x (local_ok_wfrom _ _) OK) Hr) as [I1 I2].
    split.
    + rewrite I1, W1. reflexivity.
    + intros l Hl. rewrite I2 by (rewrite W1; auto). apply W2; auto.
Qed.

Lemma wfrom_blocks k u x : a_blocks (snd (wfrom k u x)) = a_blocks (snd x).
Proof. destruct x as [s a]. unfold wfrom. cbn [fst snd]. destruct (Nat.eqb _ _); reflexivity. Qed.

Lemma load_states_at : forall B x k u, okst x -> NoDup (map fst B) -> In (k, u) B -> is_sd k = true ->
  length (getb k (a_blocks (snd x))) = length u ->
  (forall kv l, In kv B -> In l (snd kv) -> l < s_next (fst x) /\ ~ In l (agent_locs (snd x))) ->
  cont (load_states B x) k = map (rd (fst x)) u.
Proof.
  induction B as [|kv r IH]; intros x k u OK ND Hin Hp HL HB; [contradiction|].
  cbn [map] in ND. inversion ND as [|? ? Hn ND']; subst.
  destruct Hin as [Hin|Hin].
  - subst kv. rewrite ls_cons. cbn [fst snd] in *. rewrite Hp.
    set (x' := wfrom k u x).
    destruct (ls_other r x' k (okst_step _ x (local_ok_wfrom _ _) OK) Hn) as [P1 P2].
    unfold cont. rewrite P1. rewrite (map_ext_in _ (rd (fst x'))) by (intros l Hl; apply P2; auto).
    unfold x'. rewrite wfrom_blocks. destruct x as [s a]. unfold wfrom. cbn [fst snd] in *.
    rewrite HL, Nat.eqb_refl. cbn [fst]. apply write_copy_content; auto.
    apply getb_NoDup. apply OK.
  - rewrite ls_cons. match goal with |- context[if ?c then _ else _] => destruct c eqn:Ep end.
    + match goal with |- context[load_states r ?y] => set (x' := y) end.
      assert (Hx' : forall kv' l, In kv' r -> In l (snd kv') -> rd (fst x') l = rd (fst x) l).
      { intros kv' l Hkv Hl. destruct (HB kv' l (or_intror Hkv) Hl) as [H1 H2].
        unfold x'. destruct x as [s a]. unfold wfrom. cbn [fst snd] in *. destruct (Nat.eqb _ _); cbn [fst]; auto.
        apply write_copy_frame. intro H. apply H2. eapply getb_incl; eauto. }
      rewrite (IH x' k u); auto.
      * apply map_ext_in. intros l Hl. apply (Hx' (k, u) l Hin Hl).
      * apply okst_step; auto. apply local_ok_wfrom.
      * unfold x'. rewrite wfrom_blocks. auto.
      * intros kv' l Hkv Hl. destruct (HB kv' l (or_intror Hkv) Hl) as [H1 H2].
        unfold x'. destruct x as [s a]. unfold wfrom, agent_locs. cbn [fst snd] in *.
        destruct (Nat.eqb _ _); cbn [fst snd]; [rewrite write_copy_next|]; auto.
    + apply (IH x k u); auto. intros kv' l Hkv Hl. apply (HB kv' l (or_intror Hkv) Hl).
Qed.

(* ---------------------------------------------------------------------------------------------- *)
(* 4. the view after [restore b] is the view stored in the file *)

Definition blob_ok (b : blob) : Prop :=
  keys_nodupb (map fst (bl_blocks b)) = true /\
  (forall kv, In kv (bl_blocks b) -> is_net (fst kv) || is_ost (fst kv) || is_attr (fst kv) = true) /\
  (forall kv, In kv (bl_blocks b) -> is_hidden (fst kv) = true -> snd kv = []).

Definition blob_view (s : store) (b : blob) : view :=
  mkView (bl_index b) (bl_mut b) (bl_arch b) (bl_opts b) (bl_hps b) (bl_reg b) (contents s (bl_blocks b)).

Lemma cont_keep K f x k : wr_ok K f -> okst x -> K k = false -> cont (f x) k = cont x k.
Proof.
  intros W OK Hk. destruct (W x OK k Hk) as [W1 W2]. unfold cont. rewrite W1. apply map_ext_in. intros l Hl. apply W2; auto.
Qed.
Lemma getb_keep K f x k : wr_ok K f -> okst x -> K k = false -> getb k (a_blocks (snd (f x))) = getb k (a_blocks (snd x)).
Proof. intros W OK Hk. apply (W x OK k Hk). Qed.

Definition inv (B : blocks) (s0 : store) (KS : list key) (x : lstate) : Prop :=
  okst x /\ bfree B x /\ (forall l, In l (locs_of B) -> rd (fst x) l = rd s0 l) /\ map fst (a_blocks (snd x)) = KS.

Lemma inv_step B s0 KS f x : local_ok f -> map fst (a_blocks (snd (f x))) = map fst (a_blocks (snd x)) ->
  inv B s0 KS x -> inv B s0 KS (f x).
Proof.
  intros Lf HK (OK & BF & RD & KE). destruct (bfree_step B f x Lf BF) as [BF' RD'].
  split; [apply okst_step; auto|]. split; auto. split; [|congruence].
  intros l Hl. rewrite RD' by auto. apply RD; auto.
Qed.
Lemma inv_struct B s0 KS f x : local_ok f -> struct_ok f -> inv B s0 KS x -> inv B s0 KS (f x).
Proof. intros Lf Sf. apply inv_step; auto. apply (struct_ok_fields f x Sf). Qed.
Lemma inv_pure B s0 KS g x : (forall a, a_blocks (g a) = a_blocks a) -> inv B s0 KS x -> inv B s0 KS (pure g x).
Proof. intros H. apply inv_step; [apply local_ok_pure; auto|]. unfold pure. cbn [snd]. rewrite H. reflexivity. Qed.

Lemma pure_cont g x k : (forall a, a_blocks (g a) = a_blocks a) -> cont (pure g x) k = cont x k.
Proof. intros H. unfold cont, pure. cbn [fst snd]. rewrite H. reflexivity. Qed.
Lemma pure_getb g x k : (forall a, a_blocks (g a) = a_blocks a) -> getb k (a_blocks (snd (pure g x))) = getb k (a_blocks (snd x)).
Proof. intros H. unfold pure. cbn [fst snd]. rewrite H. reflexivity. Qed.

Lemma wr_ok_load_states B : wr_ok is_sd (load_states B).
Proof. apply wr_ok_on_blocks; intros; [apply local_ok_wfrom|apply wr_ok_wfrom]. Qed.
Lemma wr_ok_adopt p B : wr_ok p (adopt p B).
Proof. apply wr_ok_on_blocks; intros; [apply local_ok_realloc|apply wr_ok_realloc]. Qed.
Lemma struct_ok_load_states B : struct_ok (load_states B).
Proof. apply struct_ok_on_blocks. intros; apply struct_ok_wfrom. Qed.
Lemma struct_ok_adopt p B : struct_ok (adopt p B).
Proof. apply struct_ok_on_blocks. intros; apply struct_ok_realloc. Qed.
Lemma struct_ok_rebuild_nets B : struct_ok (rebuild_nets B).
Proof. apply struct_ok_on_blocks. intros; apply struct_ok_realloc. Qed.

Lemma wr_ok_run_hooks_at x : no_share (a_reg (snd x)) = true -> forall k, okst x -> hookK k = false ->
  getb k (a_blocks (snd (run_hooks x))) = getb k (a_blocks (snd x)) /\ cont (run_hooks x) k = cont x k.
Proof.
  intros NS k OK Hk. unfold run_hooks.
  pose proof (wr_ok_hooks_list (r_hooks (a_reg (snd x))) NS) as W. split.
  - apply (getb_keep hookK _ x k W OK Hk).
  - apply (cont_keep hookK _ x k W OK Hk).
Qed.

Lemma restore_unfold b x :
  restore b x =
  set_attrs b (adopt is_attr (bl_blocks b) (new_opts b (adopt is_ost (bl_blocks b) (load_states (bl_blocks b)
    (run_hooks (pure (fun a => with_arch a (bl_arch b)) (rebuild_nets (bl_blocks b) x))))))).
Proof. reflexivity. Qed.

Lemma bfree_bound B x k u l : bfree B x -> In (k, u) B -> In l u -> l < s_next (fst x).
Proof. intros BF Hin Hl. apply (BF l). eapply in_locs_of; eauto. Qed.

Lemma ctor_src_cc k u : is_cc k = true -> ctor_src k u = map CopyOf u.
Proof. unfold ctor_src, is_cc. intros ->. reflexivity. Qed.
Lemma ctor_src_hidden k u : is_hidden k = true -> ctor_src k u = [].
Proof.
  intros H. destruct (cls_hidden_not k H) as (_ & _ & _ & _ & _ & C). unfold ctor_src. unfold is_cc in C. rewrite C.
  unfold is_hidden in H. rewrite H. reflexivity.
Qed.
Lemma ctor_src_sd k u : is_sd k = true -> length (ctor_src k u) = length u.
Proof.
  intros H. destruct (cls_sd_not k H) as (_ & _ & C & Hh & _). unfold ctor_src. unfold is_cc in C. rewrite C.
  unfold is_hidden in Hh. rewrite Hh. apply repeat_length.
Qed.

Theorem restore_abs_lemma b x0 :
  okst x0 -> bfree (bl_blocks b) x0 -> map fst (a_blocks (snd x0)) = map fst (bl_blocks b) ->
  blob_ok b -> no_share (a_reg (snd x0)) = true ->
  abs (fst (restore b x0)) (snd (restore b x0)) = blob_view (fst x0) b.
Proof.
  intros OK0 BF0 KE0 (KN & KC & KH) NS.
  set (B := bl_blocks b) in *. set (s0 := fst x0). set (KS := map fst B) in *.
  assert (ND : NoDup KS) by (apply keys_nodupb_NoDup; auto).
  rewrite restore_unfold. fold B.
  set (x1 := rebuild_nets B x0).
  set (x2 := pure (fun a => with_arch a (bl_arch b)) x1).
  set (x3 := run_hooks x2).
  set (x4 := load_states B x3).
  set (x5 := adopt is_ost B x4).
  set (x6 := new_opts b x5).
  set (x7 := adopt is_attr B x6).
  set (x8 := set_attrs b x7).
  assert (I0 : inv B s0 KS x0) by (split; [exact OK0|split; [exact BF0|split; [intros; reflexivity|exact KE0]]]).
  assert (I1 : inv B s0 KS x1) by (apply inv_struct; auto; [apply local_ok_rebuild_nets|apply struct_ok_rebuild_nets]).
  assert (I2 : inv B s0 KS x2) by (apply inv_pure; auto).
  assert (I3 : inv B s0 KS x3) by (apply inv_struct; auto; [apply local_ok_run_hooks|apply struct_ok_run_hooks]).
  assert (I4 : inv B s0 KS x4) by (apply inv_struct; auto; [apply local_ok_load_states|apply struct_ok_load_states]).
  assert (I5 : inv B s0 KS x5) by (apply inv_struct; auto; [apply local_ok_adopt|apply struct_ok_adopt]).
  assert (I6 : inv B s0 KS x6) by (apply inv_pure; auto).
  assert (I7 : inv B s0 KS x7) by (apply inv_struct; auto; [apply local_ok_adopt|apply struct_ok_adopt]).
  assert (I8 : inv B s0 KS x8) by (apply inv_pure; auto).
  assert (R2 : a_reg (snd x2) = a_reg (snd x0)).
  { unfold x2, pure. cbn [snd with_arch a_reg]. apply (struct_ok_fields _ x0 (struct_ok_rebuild_nets B)). }
  assert (NS2 : no_share (a_reg (snd x2)) = true) by (rewrite R2; auto).
  (* contents, key by key *)
  assert (Hkey : forall k u, In (k, u) B -> cont x8 k = map (rd s0) u).
  { intros k u Hin.
    assert (Hk : forall x, inv B s0 KS x -> In k (map fst (a_blocks (snd x)))).
    { intros x (_ & _ & _ & E). rewrite E. apply (in_map fst _ _ Hin). }
    assert (Hrd : forall x, inv B s0 KS x -> map (rd (fst x)) u = map (rd s0) u).
    { intros x (_ & _ & RD & _). apply map_ext_in. intros l Hl. apply RD. eapply in_locs_of; eauto. }
    assert (Hbd : forall x, inv B s0 KS x -> forall l, In l u -> l < s_next (fst x)).
    { intros x (_ & BF & _ & _) l Hl. eapply bfree_bound; eauto. }
    pose proof (KC (k, u) Hin) as Cls. cbn [fst] in Cls.
    apply orb_true_iff in Cls as [Cls|Cat]; [apply orb_true_iff in Cls as [Cnet|Cost]|].
    - destruct (cls_net_split k Cnet) as [Csd|[Ccc|Chid]].
      + (* state_dict entries: written by load_states *)
        destruct (cls_sd_not k Csd) as (No & Na & _ & _ & _).
        unfold x8, set_attrs. rewrite pure_cont by reflexivity.
        unfold x7. rewrite (cont_keep is_attr _ x6 k (wr_ok_adopt is_attr B) (proj1 I6) Na).
        unfold x6, new_opts. rewrite pure_cont by reflexivity.
        unfold x5. rewrite (cont_keep is_ost _ x4 k (wr_ok_adopt is_ost B) (proj1 I4) No).
        unfold x4. rewrite (load_states_at B x3 k u (proj1 I3) ND Hin Csd).
        * apply Hrd; auto.
        * unfold x3. unfold run_hooks. rewrite (run_hooks_list_blocks (r_hooks (a_reg (snd x2))) k NS2 (cls_sd_ext k Csd)).
          unfold x2. rewrite pure_getb by reflexivity. unfold x1, rebuild_nets.
          rewrite (pass_len is_net ctor_src B x0 k u OK0 ND Hin Cnet (Hk x0 I0)). apply ctor_src_sd; auto.
        * intros kv l Hkv Hl. apply (proj1 (proj2 I3)). unfold locs_of. apply in_concat. exists (snd kv). split; auto. apply in_map; auto.
      + (* size lists / constants: rebuilt by the constructor with the saved values *)
        destruct (cls_cc_not k Ccc) as (No & Na & Ns & Nh & _ & _).
        unfold x8, set_attrs. rewrite pure_cont by reflexivity.
        unfold x7. rewrite (cont_keep is_attr _ x6 k (wr_ok_adopt is_attr B) (proj1 I6) Na).
        unfold x6, new_opts. rewrite pure_cont by reflexivity.
        unfold x5. rewrite (cont_keep is_ost _ x4 k (wr_ok_adopt is_ost B) (proj1 I4) No).
        unfold x4. rewrite (cont_keep is_sd _ x3 k (wr_ok_load_states B) (proj1 I3) Ns).
        unfold x3. rewrite (proj2 (wr_ok_run_hooks_at x2 NS2 k (proj1 I2) Nh)).
        unfold x2. rewrite pure_cont by reflexivity.
        unfold x1. apply (pass_copy is_net ctor_src B x0 k u OK0 ND Hin Cnet (Hk x0 I0) (ctor_src_cc k u Ccc) (Hbd x0 I0)).
      + (* hidden blocks: empty in the file and in the restored agent *)
        destruct (cls_hidden_not k Chid) as (No & Na & Ns & Nh & _ & _).
        pose proof (KH (k, u) Hin Chid) as Hu. cbn [snd] in Hu. subst u. cbn [map].
        unfold cont. replace (getb k (a_blocks (snd x8))) with (@nil loc); [reflexivity|]. symmetry.
        unfold x8, set_attrs. rewrite pure_getb by reflexivity.
        unfold x7. rewrite (getb_keep is_attr _ x6 k (wr_ok_adopt is_attr B) (proj1 I6) Na).
        unfold x6, new_opts. rewrite pure_getb by reflexivity.
        unfold x5. rewrite (getb_keep is_ost _ x4 k (wr_ok_adopt is_ost B) (proj1 I4) No).
        unfold x4. rewrite (getb_keep is_sd _ x3 k (wr_ok_load_states B) (proj1 I3) Ns).
        unfold x3. rewrite (proj1 (wr_ok_run_hooks_at x2 NS2 k (proj1 I2) Nh)).
        unfold x2. rewrite pure_getb by reflexivity.
        pose proof (pass_len is_net ctor_src B x0 k [] OK0 ND Hin Cnet (Hk x0 I0)) as HL.
        rewrite (ctor_src_hidden k [] Chid) in HL. cbn [length] in HL. unfold x1, rebuild_nets.
        destruct (getb k _); auto. discriminate.
    - (* optimizer state: adopted from the file *)
      destruct (cls_ost_not k Cost) as (_ & Na & _ & _).
      unfold x8, set_attrs. rewrite pure_cont by reflexivity.
      unfold x7. rewrite (cont_keep is_attr _ x6 k (wr_ok_adopt is_attr B) (proj1 I6) Na).
      unfold x6, new_opts. rewrite pure_cont by reflexivity.
      unfold x5, adopt. rewrite (pass_copy is_ost (fun _ u => map CopyOf u) B x4 k u (proj1 I4) ND Hin Cost (Hk x4 I4) eq_refl (Hbd x4 I4)).
      apply Hrd; auto.
    - (* plain attributes: adopted from the file *)
      unfold x8, set_attrs. rewrite pure_cont by reflexivity.
      unfold x7, adopt. rewrite (pass_copy is_attr (fun _ u => map CopyOf u) B x6 k u (proj1 I6) ND Hin Cat (Hk x6 I6) eq_refl (Hbd x6 I6)).
      apply Hrd; auto. }
  (* assemble the view *)
  unfold abs, blob_view. fold B. fold s0.
  assert (Hcont : contents (fst x8) (a_blocks (snd x8)) = contents s0 B).
  { apply (contf_by_keys (rd s0) (rd (fst x8)) B (a_blocks (snd x8))).
    - apply I8.
    - exact ND.
    - intros k Hk. apply in_map_iff in Hk as ([k' u] & E & Hin). cbn [fst] in E. subst k'.
      rewrite (getb_in k u B ND Hin). apply (Hkey k u Hin). }
  rewrite Hcont.
  assert (F7 : a_arch (snd x7) = bl_arch b /\ opt_view (snd x7) = bl_opts b).
  { destruct (struct_ok_fields _ x6 (struct_ok_adopt is_attr B)) as (_ & _ & A7 & O7 & _). fold x7 in A7, O7.
    unfold opt_view. rewrite A7, O7. unfold x6, new_opts, pure. cbn [snd with_opts a_arch a_opts].
    destruct (struct_ok_fields _ x4 (struct_ok_adopt is_ost B)) as (_ & _ & A5 & _). fold x5 in A5. rewrite A5.
    destruct (struct_ok_fields _ x3 (struct_ok_load_states B)) as (_ & _ & A4 & _). fold x4 in A4. rewrite A4.
    destruct (struct_ok_fields _ x2 struct_ok_run_hooks) as (_ & _ & A3 & _). fold x3 in A3. rewrite A3.
    split; [reflexivity|]. rewrite map_map. cbn [o_name o_lr]. rewrite <- (map_id (bl_opts b)) at 2.
    apply map_ext. intros [n q]. reflexivity. }
  destruct F7 as [A7 O7].
  unfold x8 at 1 2 3 4 5 6, set_attrs, pure. cbn [snd a_index a_mut a_arch a_hps a_reg]. unfold opt_view in *. cbn [a_opts].
  rewrite A7, O7. reflexivity.
Qed.

(* ---------------------------------------------------------------------------------------------- *)
(* 5. corollaries: save then load / load later / load_checkpoint into any agent *)

Lemma mask_hidden_id a : no_hidden a = true -> mask_hidden (a_blocks a) = a_blocks a.
Proof.
  unfold no_hidden, mask_hidden. induction (a_blocks a) as [|kv r IH]; cbn [forallb map]; auto.
  intros H. apply andb_true_iff in H as [H1 H2]. rewrite IH by auto. f_equal.
  destruct (is_hidden (fst kv)); auto. cbn [negb orb] in H1. destruct kv as [k [|l u]]; [reflexivity|discriminate].
Qed.

Lemma copy_blocks_shape : forall bs s,
  map (fun kv => (fst kv, length (snd kv))) (snd (copy_blocks s bs)) = map (fun kv => (fst kv, length (snd kv))) bs.
Proof.
  induction bs as [|kv r IH]; intros s; cbn [copy_blocks map]; auto.
  pose proof (alloc_locs (map CopyOf (snd kv)) s) as HL.
  destruct (alloc s (map CopyOf (snd kv))) as [s1 ls]. cbn [snd] in HL.
  specialize (IH s1). destruct (copy_blocks s1 r) as [s2 out]. cbn [snd map fst] in *.
  rewrite IH. f_equal. rewrite HL, nseq_length, map_length. reflexivity.
Qed.

Lemma blob_view_ext s s' b : (forall l, In l (locs_of (bl_blocks b)) -> rd s' l = rd s l) -> blob_view s' b = blob_view s b.
Proof.
  intros H. unfold blob_view. f_equal. unfold contents. apply map_ext_in. intros kv Hkv. f_equal.
  apply map_ext_in. intros l Hl. apply H. unfold locs_of. apply in_concat. exists (snd kv). split; auto. apply in_map; auto.
Qed.

Lemma save_blob_facts s a : savable a = true -> no_hidden a = true -> bounded s (agent_locs a) ->
  let r := save s a in
  blob_ok (snd r) /\ blob_view (fst r) (snd r) = abs s a /\
  map fst (bl_blocks (snd r)) = map fst (a_blocks a) /\
  (forall l, In l (locs_of (bl_blocks (snd r))) -> s_next s <= l < s_next (fst r)) /\
  bl_reg (snd r) = a_reg a.
Proof.
  intros SV NH B. cbn zeta.
  destruct (save_spec_lemma s a) as (S1 & S2 & S3 & S4 & S5 & F1 & F2 & F3 & F4 & F5 & F6).
  unfold savable in SV. apply andb_true_iff in SV as [SV KC]. apply andb_true_iff in SV as [KN LN].
  assert (Shape : map (fun kv => (fst kv, length (snd kv))) (bl_blocks (snd (save s a))) =
                  map (fun kv => (fst kv, length (snd kv))) (a_blocks a)).
  { unfold save. pose proof (copy_blocks_shape (mask_hidden (a_blocks a)) s) as CS.
    destruct (copy_blocks s (mask_hidden (a_blocks a))) as [s1 bs]. cbn [snd bl_blocks] in *.
    rewrite CS, (mask_hidden_id a NH). reflexivity. }
  split; [|split; [|split; [|split]]]; auto.
  - split; [rewrite S3; exact KN|]. split.
    + intros kv Hkv. assert (Hk : In (fst kv) (map fst (a_blocks a))) by (rewrite <- S3; apply in_map; auto).
      apply in_map_iff in Hk as (kv' & E & Hin'). unfold known_cls in KC. rewrite forallb_forall in KC.
      rewrite <- E. apply KC; auto.
    + intros kv Hkv Hh.
      assert (Hs : In (fst kv, length (snd kv)) (map (fun kv => (fst kv, length (snd kv))) (a_blocks a))).
      { rewrite <- Shape. apply (in_map (fun kv => (fst kv, length (snd kv))) _ _ Hkv). }
      apply in_map_iff in Hs as (kv' & E & Hin'). injection E as E1 E2.
      unfold no_hidden in NH. rewrite forallb_forall in NH. specialize (NH kv' Hin'). rewrite E1, Hh in NH. cbn [negb orb] in NH.
      destruct (snd kv'); [|discriminate]. cbn in E2. destruct (snd kv); auto. discriminate.
  - unfold blob_view, abs. rewrite F1, F2, F3, F4, F5, F6. f_equal. rewrite (S5 B), (mask_hidden_id a NH). reflexivity.
  - intros l Hl. rewrite S1 in Hl. apply in_nseq in Hl. lia.
Qed.

(* LOAD_SAVE_ABS, crash-point form: the file written from agent a in store s, loaded in ANY later store s' in which the
   file's cells still hold what was written, gives an agent with the view a had when it was saved *)
Theorem load_later_lemma s a s' :
  savable a = true -> no_hidden a = true -> no_share (a_reg a) = true -> bounded s (agent_locs a) ->
  s_next (fst (save s a)) <= s_next s' ->
  (forall l, In l (locs_of (bl_blocks (snd (save s a)))) -> rd s' l = rd (fst (save s a)) l) ->
  abs (fst (load s' (snd (save s a)))) (snd (load s' (snd (save s a)))) = abs s a.
Proof.
  intros SV NH NS B HN HR.
  destruct (save_blob_facts s a SV NH B) as (BO & BV & KE & BL & RG). cbn zeta in *.
  set (b := snd (save s a)) in *. set (s1 := fst (save s a)) in *.
  unfold load. rewrite (restore_abs_lemma b (s', skeleton b)).
  - cbn [fst]. rewrite (blob_view_ext s1 s' b HR). exact BV.
  - split; cbn [fst snd]; rewrite skeleton_no_locs; [constructor|apply Forall_nil].
  - intros l Hl. cbn [fst snd]. rewrite skeleton_no_locs. split; [|intros []]. specialize (BL l Hl). lia.
  - cbn [snd skeleton a_blocks]. rewrite map_map. reflexivity.
  - exact BO.
  - cbn [snd skeleton a_reg]. rewrite RG. exact NS.
Qed.

Theorem load_save_abs_lemma s a :
  savable a = true -> no_hidden a = true -> no_share (a_reg a) = true -> bounded s (agent_locs a) ->
  abs (fst (roundtrip s a)) (snd (roundtrip s a)) = abs s a.
Proof.
  intros SV NH NS B. unfold roundtrip.
  pose proof (load_later_lemma s a (fst (save s a)) SV NH NS B) as H.
  destruct (save s a) as [s1 b]. cbn [fst snd] in *. apply H; auto. lia.
Qed.

(* the same for load_checkpoint into ANY agent t of the same algorithm (same block keys, a registry without encoder
   sharing), whatever its architecture, weights, optimizer state, hyper-parameters and bookkeeping were *)
Theorem load_checkpoint_save_abs_lemma s a s' t :
  savable a = true -> no_hidden a = true -> no_share (a_reg a) = true -> bounded s (agent_locs a) ->
  NoDup (agent_locs t) -> bounded s' (agent_locs t) ->
  map fst (a_blocks t) = map fst (a_blocks a) -> no_share (a_reg t) = true ->
  s_next (fst (save s a)) <= s_next s' ->
  (forall l, In l (locs_of (bl_blocks (snd (save s a)))) -> rd s' l = rd (fst (save s a)) l /\ ~ In l (agent_locs t)) ->
  snd (load_checkpoint (snd (save s a)) (s', t)) = true ->
  let r := fst (load_checkpoint (snd (save s a)) (s', t)) in
  abs (fst r) (snd r) = abs s a.
Proof.
  intros SV NH NS B NDt Bt KEt NSt HN HR OKc. cbn zeta.
  destruct (save_blob_facts s a SV NH B) as (BO & BV & KE & BL & RG). cbn zeta in *.
  set (b := snd (save s a)) in *. set (s1 := fst (save s a)) in *.
  unfold load_checkpoint in *.
  destruct (reg_eqb (bl_reg b) (a_reg (snd (restore_nets_opts b (s', t))))); cbn [fst snd] in *; [|discriminate].
  change (restore_attrs b (restore_nets_opts b (s', t))) with (restore b (s', t)).
  rewrite (restore_abs_lemma b (s', t)).
  - cbn [fst]. rewrite (blob_view_ext s1 s' b); [exact BV|]. intros l Hl. apply (HR l Hl).
  - split; auto.
  - intros l Hl. cbn [fst snd]. split; [specialize (BL l Hl); lia|apply (HR l Hl)].
  - cbn [snd]. rewrite KEt, KE. reflexivity.
  - exact BO.
  - exact NSt.
Qed.

(* RESUME_SAME: any behaviour that is a function of the view (greedy action on an observation, the sequence of
   updates computed from given batches) is the same for the saved agent and the restored one *)
Section Resume.
  Variable Beh : Type.
  Variable behaviour : view -> Beh.
  Lemma resume_same_lemma s a :
    savable a = true -> no_hidden a = true -> no_share (a_reg a) = true -> bounded s (agent_locs a) ->
    behaviour (abs (fst (roundtrip s a)) (snd (roundtrip s a))) = behaviour (abs s a).
  Proof. intros. rewrite load_save_abs_lemma; auto. Qed.
End Resume.

(* non-vacuity: the DQN-like agent of C07/Proofs.v (mutated architecture ids, lagging target with its own cells,
   optimizer state, score lists) satisfies every hypothesis *)
Lemma agent_dqn_hyps :
  savable agent_dqn = true /\ no_hidden agent_dqn = true /\ no_share (a_reg agent_dqn) = true /\
  bounded store_dqn (agent_locs agent_dqn).
Proof.
  repeat split; try (vm_compute; reflexivity).
  apply Forall_forall. intros l Hl. vm_compute in Hl. vm_compute.
  repeat (destruct Hl as [<-|Hl]; [reflexivity|]). contradiction.
Qed.
