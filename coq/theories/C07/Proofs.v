(* C07/Proofs.v — checkpoints: locality / freshness of the restored agent, separation of populations with files,
   prefix lookups, and the refutations.  (Equality of the restored view is in C07/ProofsAbs.v.)
   Pure stdlib style; builds on Evo/EvoProofs.v ([local_ok], [apply_local_WF], [copy_blocks_spec] ...). *)
From Coq Require Import List NArith QArith Lia Bool Ascii.
From AgileV Require Import Evo.Heap Evo.Evo Evo.EvoProofs C07.Model.
Import ListNotations.
Open Scope N_scope.

(* ---------------------------------------------------------------------------------------------- *)
(* 1. restoring is an agent-local transformer *)

Lemma local_ok_wfrom k u : local_ok (wfrom k u).
Proof.
  intros [s a]. unfold wfrom. cbn [fst snd].
  destruct (Nat.eqb _ _); cbn [fst snd]; [rewrite write_copy_next|]; repeat split; auto; try lia.
  intros l _ Hn. apply write_copy_frame. intro H. apply Hn. eapply getb_incl; eauto.
Qed.

Lemma local_ok_on_blocks p f B : (forall k u, local_ok (f k u)) -> local_ok (on_blocks p f B).
Proof.
  intros H. unfold on_blocks. apply local_ok_seqL. apply Forall_map_ok. intros kv. apply H.
Qed.

Lemma local_ok_rebuild_nets B : local_ok (rebuild_nets B).
Proof. apply local_ok_on_blocks. intros; apply local_ok_realloc. Qed.
Lemma local_ok_load_states B : local_ok (load_states B).
Proof. apply local_ok_on_blocks. intros; apply local_ok_wfrom. Qed.
Lemma local_ok_adopt p B : local_ok (adopt p B).
Proof. apply local_ok_on_blocks. intros; apply local_ok_realloc. Qed.

Lemma local_ok_restore_nets_opts b : local_ok (restore_nets_opts b).
Proof.
  unfold restore_nets_opts. apply local_ok_seqL.
  repeat first [ apply Forall_cons | apply Forall_nil ];
    first [ apply local_ok_rebuild_nets | apply local_ok_run_hooks | apply local_ok_load_states
          | apply local_ok_adopt | apply local_ok_pure; intros; reflexivity ].
Qed.

Lemma local_ok_restore_attrs b : local_ok (restore_attrs b).
Proof.
  unfold restore_attrs. apply local_ok_seqL.
  repeat first [ apply Forall_cons | apply Forall_nil ];
    first [ apply local_ok_adopt | apply local_ok_pure; intros; reflexivity ].
Qed.

Lemma local_ok_restore b : local_ok (restore b).
Proof.
  unfold restore. apply local_ok_seqL.
  repeat first [ apply Forall_cons | apply Forall_nil ]; [apply local_ok_restore_nets_opts|apply local_ok_restore_attrs].
Qed.

Lemma local_ok_load_checkpoint b : local_ok (fun x => fst (load_checkpoint b x)).
Proof.
  intros x. unfold load_checkpoint.
  destruct (reg_eqb (bl_reg b) (a_reg (snd (restore_nets_opts b x)))); cbn [fst].
  - apply (local_ok_comp (restore_nets_opts b) (restore_attrs b) (local_ok_restore_nets_opts b) (local_ok_restore_attrs b) x).
  - apply local_ok_restore_nets_opts.
Qed.

(* ---------------------------------------------------------------------------------------------- *)
(* 2. save: the file's cells are new, hold the saved values, and saving writes nothing that existed *)

Lemma mask_hidden_keys bs : map fst (mask_hidden bs) = map fst bs.
Proof. unfold mask_hidden. rewrite map_map. apply map_ext. intros kv. destruct (is_hidden (fst kv)); reflexivity. Qed.

Lemma mask_hidden_incl bs l : In l (locs_of (mask_hidden bs)) -> In l (locs_of bs).
Proof.
  unfold locs_of, mask_hidden. induction bs as [|kv r IH]; cbn [map concat]; auto.
  intros H. apply in_app_or in H as [H|H]; apply in_or_app.
  - destruct (is_hidden (fst kv)); cbn [snd] in H; [contradiction|auto].
  - right; auto.
Qed.

Theorem save_spec_lemma s a :
  let r := save s a in
  locs_of (bl_blocks (snd r)) = nseq (s_next s) (length (locs_of (mask_hidden (a_blocks a)))) /\
  s_next (fst r) = s_next s + N.of_nat (length (locs_of (mask_hidden (a_blocks a)))) /\
  map fst (bl_blocks (snd r)) = map fst (a_blocks a) /\
  (forall l, l < s_next s -> rd (fst r) l = rd s l) /\
  (bounded s (agent_locs a) ->
     contents (fst r) (bl_blocks (snd r)) = contents s (mask_hidden (a_blocks a))) /\
  (bl_index (snd r) = a_index a /\ bl_mut (snd r) = a_mut a /\ bl_arch (snd r) = a_arch a /\
   bl_opts (snd r) = opt_view a /\ bl_hps (snd r) = a_hps a /\ bl_reg (snd r) = a_reg a).
Proof.
  cbn zeta. unfold save.
  destruct (copy_blocks_spec (mask_hidden (a_blocks a)) s) as (C1 & C2 & C3 & C4 & C5).
  destruct (copy_blocks s (mask_hidden (a_blocks a))) as [s1 bs]. cbn [fst snd bl_blocks bl_index bl_mut bl_arch bl_opts bl_hps bl_reg] in *.
  split; [exact C1|]. split; [exact C2|]. split; [rewrite C3; apply mask_hidden_keys|]. split; [exact C4|].
  split; [|repeat split].
  intros B. assert (B' : bounded s (locs_of (mask_hidden (a_blocks a)))).
  { apply Forall_forall. intros l Hl. unfold bounded, agent_locs in B. rewrite Forall_forall in B. apply B.
    apply mask_hidden_incl; auto. }
  specialize (C5 B'). unfold contents.
  revert C3 C5. generalize (mask_hidden (a_blocks a)) as m. clear.
  induction bs as [|kv r IH]; intros [|kv0 r0] HK HC; cbn in *; try discriminate; auto.
  injection HK as K1 K2. injection HC as E1 E2. rewrite K1, E1. f_equal. apply IH; auto.
Qed.

(* ---------------------------------------------------------------------------------------------- *)
(* 3. load: every location of the restored agent is newly allocated *)

Lemma skeleton_no_locs b : agent_locs (skeleton b) = [].
Proof.
  unfold agent_locs, skeleton. cbn [a_blocks]. induction (bl_blocks b) as [|kv r IH]; cbn; auto.
Qed.

Theorem load_fresh_lemma s b :
  let r := load s b in
  s_next s <= s_next (fst r) /\
  (forall l, In l (agent_locs (snd r)) -> s_next s <= l < s_next (fst r)) /\
  NoDup (agent_locs (snd r)) /\
  (forall l, l < s_next s -> rd (fst r) l = rd s l).
Proof.
  cbn zeta. unfold load.
  destruct (local_ok_restore b (s, skeleton b)) as (L1 & L2 & L3 & L4). cbn [fst snd] in *.
  rewrite skeleton_no_locs in *.
  split; [exact L1|]. split; [|split].
  - intros l Hl. destruct (L2 l Hl) as [H|H]; [contradiction|exact H].
  - apply L3; [constructor|apply Forall_nil].
  - intros l Hl. apply L4; auto.
Qed.

(* ---------------------------------------------------------------------------------------------- *)
(* 4. populations with files: separation is preserved, nobody else is touched *)

Theorem cstep_WF_lemma c o : WF (cw c) -> WF (cw (cstep c o)).
Proof.
  intros H. destruct o as [o'|i|f|f j]; cbn [cstep].
  - cbn [cw]. apply step_WF; auto.
  - destruct (nth_error (w_pop (cw c)) i) as [a|]; auto.
    pose proof (save_spec_lemma (w_store (cw c)) a) as S. cbn zeta in S.
    destruct (save (w_store (cw c)) a) as [s' b]. cbn [fst snd cw] in *.
    destruct S as (_ & S2 & _). destruct H as [ND B]. split; auto.
    unfold bounded, all_locs in *. cbn [w_pop w_store]. eapply Forall_impl; [|exact B]. cbn beta. intros; lia.
  - destruct (nth_error (cw_files c) f) as [b|]; auto.
    pose proof (load_fresh_lemma (w_store (cw c)) b) as L. cbn zeta in L.
    destruct (load (w_store (cw c)) b) as [s' a]. cbn [fst snd cw] in *.
    destruct L as (L1 & L2 & L3 & L4). destruct H as [ND B].
    unfold WF, all_locs in *. cbn [w_pop w_store]. rewrite map_app, concat_app. cbn [map concat]. rewrite app_nil_r.
    unfold bounded in *. rewrite Forall_forall in B. split.
    + apply NoDup_app_intro; auto. intros x Hx Hc. specialize (B x Hx). specialize (L2 x Hc). lia.
    + apply Forall_app. split; apply Forall_forall; intros x Hx.
      * specialize (B x Hx). lia.
      * specialize (L2 x Hx). lia.
  - destruct (nth_error (cw_files c) f) as [b|]; auto. cbn [cw].
    apply apply_local_WF; auto. apply local_ok_load_checkpoint.
Qed.

Theorem crun_WF_lemma ops : forall c, WF (cw c) -> WF (cw (crun c ops)).
Proof. unfold crun. induction ops as [|o r IH]; intros c H; cbn [fold_left]; auto. apply IH. apply cstep_WF_lemma; auto. Qed.

(* the member a checkpoint operation is aimed at *)
Definition cop_target (o : cop) : option nat :=
  match o with CEvo o' => op_target o' | CLoadInto _ j => Some j | CSave _ | CLoad _ => None end.

Theorem cstep_frame_lemma c o j b l : WF (cw c) -> nth_error (w_pop (cw c)) j = Some b -> cop_target o <> Some j ->
  In l (agent_locs b) -> rd (w_store (cw (cstep c o))) l = rd (w_store (cw c)) l.
Proof.
  intros H Hj Ht Hl.
  assert (Hb : l < s_next (w_store (cw c))).
  { destruct H as [_ B]. unfold bounded in B. rewrite Forall_forall in B. apply B. apply (in_all_locs (cw c) j b l Hj Hl). }
  destruct o as [o'|i|f|f k]; cbn [cstep cop_target] in *.
  - cbn [cw]. apply (step_frame (cw c) o' j b l); auto.
  - destruct (nth_error (w_pop (cw c)) i) as [a|]; auto.
    pose proof (save_spec_lemma (w_store (cw c)) a) as S. cbn zeta in S.
    destruct (save (w_store (cw c)) a) as [s' bb]. cbn [fst snd cw w_store] in *.
    destruct S as (_ & _ & _ & S4 & _). apply S4; auto.
  - destruct (nth_error (cw_files c) f) as [bb|]; auto.
    pose proof (load_fresh_lemma (w_store (cw c)) bb) as L. cbn zeta in L.
    destruct (load (w_store (cw c)) bb) as [s' a]. cbn [fst snd cw w_store] in *.
    destruct L as (_ & _ & _ & L4). apply L4; auto.
  - destruct (nth_error (cw_files c) f) as [bb|]; auto. cbn [cw].
    apply (apply_local_frame k _ (cw c) j b (local_ok_load_checkpoint bb)); auto; congruence.
Qed.

(* a file is immutable: an agent-local operation (learn, mutate, score, act, load_checkpoint ...) on any agent that
   does not own the cell, and every allocation-only operation, leave a cell of the file alone *)
Theorem file_cell_intact_lemma f x l : local_ok f -> l < s_next (fst x) -> ~ In l (agent_locs (snd x)) ->
  rd (fst (f x)) l = rd (fst x) l.
Proof. intros Hf Hl Hn. destruct (Hf x) as (_ & _ & _ & F4). apply F4; auto. Qed.

(* ---------------------------------------------------------------------------------------------- *)
(* 5. dictionary keys and prefix lookups *)

Lemma ascii_eqb_eq a b : ascii_eqb a b = true <-> a = b.
Proof. unfold ascii_eqb. destruct (ascii_dec a b); split; auto; discriminate. Qed.

Lemma str_eqb_eq : forall a b, str_eqb a b = true <-> a = b.
Proof.
  induction a as [|x r IH]; intros [|y s]; cbn [str_eqb]; split; auto; try discriminate.
  - rewrite andb_true_iff, ascii_eqb_eq, IH. intros [-> ->]; auto.
  - intros E. injection E as -> ->. rewrite andb_true_iff, ascii_eqb_eq, IH. auto.
Qed.

Lemma starts_with_app : forall p s, starts_with p (p ++ s) = true.
Proof.
  induction p as [|x r IH]; intros s; cbn [starts_with app]; auto.
  rewrite IH, andb_true_r. apply ascii_eqb_eq; auto.
Qed.

Lemma dict_get_filter {A} (p : str * A -> bool) k : forall d : pdict A,
  (forall kv, In kv d -> fst kv = k -> p kv = true) ->
  dict_get k (filter p d) = dict_get k d.
Proof.
  induction d as [|[k' v] r IH]; intros H; cbn [filter dict_get]; auto.
  destruct (str_eqb k k') eqn:E.
  - apply str_eqb_eq in E. subst k'. rewrite (H (k, v)); [|left; auto|reflexivity].
    cbn [dict_get]. destruct (str_eqb k k) eqn:E2; auto.
    assert (str_eqb k k = true) by (apply str_eqb_eq; auto). congruence.
  - destruct (p (k', v)); cbn [dict_get]; [rewrite E|]; apply IH; intros kv Hin; apply H; right; auto.
Qed.

(* filtering the dictionary with k.startswith(name) never changes what  d[name + suffix]  returns *)
Theorem prefix_lookup_exact_lemma {A} (name suffix : str) (d : pdict A) :
  lookup_entry name suffix d = dict_get (name ++ suffix) d.
Proof.
  unfold lookup_entry, sub_dict. apply dict_get_filter. intros kv _ E. rewrite E. apply starts_with_app.
Qed.

(* no suffix of the set is a proper suffix of another one *)
Definition suffix_free (S : list str) : Prop :=
  forall s1 s2 t, In s1 S -> In s2 S -> s2 = t ++ s1 -> t = [].

Lemma key_inj_lemma (S : list str) : suffix_free S -> forall n1 n2 s1 s2,
  In s1 S -> In s2 S -> n1 ++ s1 = n2 ++ s2 -> n1 = n2 /\ s1 = s2.
Proof.
  intros SF n1 n2 s1 s2 H1 H2 E. destruct (app_eq_app _ _ _ _ E) as [t [[E1 E2]|[E1 E2]]].
  - pose proof (SF s1 s2 t H1 H2 E2). subst t. rewrite app_nil_r in E1. cbn in E2. auto.
  - pose proof (SF s2 s1 t H2 H1 E2). subst t. rewrite app_nil_r in E1. cbn in E2. auto.
Qed.

Definition is_suffixb (s1 s2 : str) : bool :=        (* s2.endswith(s1), on reversed strings *)
  starts_with (rev s1) (rev s2).

Lemma is_suffixb_app t s : is_suffixb s (t ++ s) = true.
Proof. unfold is_suffixb. rewrite rev_app_distr. apply starts_with_app. Qed.

Definition suffix_freeb (S : list str) : bool :=
  forallb (fun s1 => forallb (fun s2 => str_eqb s1 s2 || negb (is_suffixb s1 s2)) S) S.

Lemma suffix_freeb_sound S : suffix_freeb S = true -> suffix_free S.
Proof.
  unfold suffix_freeb, suffix_free. rewrite forallb_forall. intros H s1 s2 t H1 H2 E.
  specialize (H s1 H1). rewrite forallb_forall in H. specialize (H s2 H2).
  apply orb_true_iff in H as [H|H].
  - apply str_eqb_eq in H. subst s2.
    assert (L : length s1 = (length t + length s1)%nat) by (rewrite <- app_length, <- E; auto).
    destruct t; auto. cbn in L. lia.
  - subst s2. rewrite is_suffixb_app in H. discriminate.
Qed.

Lemma module_suffixes_free : suffix_free module_suffixes.
Proof. apply suffix_freeb_sound. vm_compute. reflexivity. Qed.
Lemma optimizer_suffixes_free : suffix_free optimizer_suffixes.
Proof. apply suffix_freeb_sound. vm_compute. reflexivity. Qed.

(* ---------------------------------------------------------------------------------------------- *)
(* 6. examples and refutations *)

(* PPO-like registry with a shared encoder: the critic (2) holds a detached copy (cell 2, hidden) of the actor's (1) encoder *)
Definition reg_share : registry :=
  mkReg [mkGroup 1 [] true; mkGroup 2 [] false] [mkOptCfg 3 [1; 2] 4] [HShare 1 [2]] [4] true.
Definition agent_share : agent :=
  mkAgent 0 0 [(1, 7); (2, 8)] [mkOpt 3 (1#1000)%Q [0; 1; 3]] [(4, (1#1000)%Q)] reg_share
          [((1, cEnc), [0]); ((1, cHead), [1]); ((1, cHenc), []); ((1, cConst), []); ((1, cCfg), []); ((1, cBuf), []);
           ((2, cEnc), []); ((2, cHead), [3]); ((2, cHenc), [2]); ((2, cConst), []); ((2, cCfg), []); ((2, cBuf), []);
           ((3, cOst), []); (kReg, []); (kBook, []); (kExt, [])].
Definition store_share : store :=
  mkStore 4 1000 (fold_left (fun h l => upd h l (l + 100)) (nseq 0 4) hempty).

(* DQN-like registry; [agent_dqn] is the current tree (target parameters registered), [agent_dqn_pinned] the layout
   before fix 3d1411a: init_hook had turned the target's parameters into plain attributes, i.e. hidden cells *)
Definition reg_dqn : registry := mkReg [mkGroup 1 [2] true] [mkOptCfg 3 [1] 4] [HSync 1 2] [4] false.
Definition agent_dqn : agent :=
  mkAgent 0 5 [(1, 7); (2, 7)] [mkOpt 3 (1#1000)%Q [0; 1]] [(4, (1#1000)%Q)] reg_dqn
          [((1, cEnc), [0]); ((1, cHead), [1]); ((1, cHenc), []); ((1, cConst), []); ((1, cCfg), [2]); ((1, cBuf), []);
           ((2, cEnc), [3]); ((2, cHead), [4]); ((2, cHenc), []); ((2, cConst), []); ((2, cCfg), [5]); ((2, cBuf), []);
           ((3, cOst), [10; 11]); (kReg, [6]); (kBook, [7; 8; 9]); (kExt, [])].
Definition agent_dqn_pinned : agent :=
  mkAgent 0 5 [(1, 7); (2, 7)] [mkOpt 3 (1#1000)%Q [0; 1]] [(4, (1#1000)%Q)] reg_dqn
          [((1, cEnc), [0]); ((1, cHead), [1]); ((1, cHenc), []); ((1, cConst), []); ((1, cCfg), [2]); ((1, cBuf), []);
           ((2, cEnc), []); ((2, cHead), []); ((2, cHenc), [3; 4]); ((2, cConst), []); ((2, cCfg), [5]); ((2, cBuf), []);
           ((3, cOst), [10; 11]); (kReg, [6]); (kBook, [7; 8; 9]); (kExt, [])].
Definition store_dqn : store :=
  mkStore 12 1000 (fold_left (fun h l => upd h l (l + 100)) (nseq 0 12) hempty).

Definition roundtrip (s : store) (a : agent) : store * agent :=
  let '(s1, b) := save s a in load s1 b.

(* REFUTED on the current tree (known finding restore:*+share:*:henc): with a shared encoder the file does not contain
   the critic's detached encoder copy, and the restored critic holds a copy of the NEWLY CONSTRUCTED actor encoder *)
Theorem share_hidden_lost_refuted_lemma :
  exists s a, savable a = true /\ bounded s (agent_locs a) /\
    let r := roundtrip s a in
    map (rd (fst r)) (blk (snd r) (2, cHenc)) <> map (rd s) (blk a (2, cHenc)) /\
    map (rd (fst r)) (blk (snd r) (2, cHenc)) <> map (rd (fst r)) (blk (snd r) (1, cEnc)).
Proof.
  exists store_share, agent_share. split; [vm_compute; reflexivity|]. split.
  - apply Forall_forall. intros l Hl. vm_compute in Hl. vm_compute.
    repeat (destruct Hl as [<-|Hl]; [reflexivity|]). contradiction.
  - vm_compute. split; intro H; discriminate.
Qed.

(* REFUTED, pinned behaviour (before fix 3d1411a): the DQN target's tensors are not in its state_dict, so the
   lagging target is not in the file and the restored target differs from the saved one *)
Theorem dqn_pinned_target_lost_refuted_lemma :
  let r := roundtrip store_dqn agent_dqn_pinned in
  map (rd (fst r)) (blk (snd r) (2, cHenc)) <> map (rd store_dqn) (blk agent_dqn_pinned (2, cHenc)).
Proof. vm_compute. intro H; discriminate. Qed.
