(* C07/ProofsPrefix.v — prefix_safe in full: the dictionaries that get_checkpoint_dict builds (Python dict semantics:
   d[k] = v overwrites or appends) and the lookups of both load paths ({k: v ... if k.startswith(name)}[name + suffix]). *)
From Coq Require Import List NArith QArith Lia Bool Ascii.
From AgileV Require Import Evo.Heap Evo.Evo Evo.EvoProofs C07.Model C07.Proofs.
Import ListNotations.

(* ---------------------------------------------------------------------------------------------- *)
(* the dictionaries built by get_checkpoint_dict: every lookup of both load paths returns the entry stored for that
   very (attribute, suffix) pair, for ALL duplicate-free lists of attribute names *)

Lemma str_eqb_refl k : str_eqb k k = true.
Proof. apply str_eqb_eq; auto. Qed.
Lemma str_eqb_neq a b : a <> b -> str_eqb a b = false.
Proof. intros H. destruct (str_eqb a b) eqn:E; auto. apply str_eqb_eq in E. contradiction. Qed.

Lemma dict_get_set_same {A} k (v : A) : forall d, dict_get k (dict_set k v d) = Some v.
Proof.
  induction d as [|[k' v'] r IH]; cbn [dict_set dict_get].
  - rewrite str_eqb_refl. reflexivity.
  - destruct (str_eqb k k') eqn:E; cbn [dict_get]; rewrite E; auto.
Qed.
Lemma dict_get_set_other {A} k k' (v : A) : k <> k' -> forall d, dict_get k (dict_set k' v d) = dict_get k d.
Proof.
  intros N. induction d as [|[k2 v2] r IH]; cbn [dict_set dict_get].
  - rewrite (str_eqb_neq k k' N). reflexivity.
  - destruct (str_eqb k' k2) eqn:E; cbn [dict_get].
    + apply str_eqb_eq in E. subst k2. rewrite (str_eqb_neq k k' N). reflexivity.
    + destruct (str_eqb k k2); auto.
Qed.

(* d[k] = v for a list of assignments with pairwise different keys *)
Definition assign {A} (d : pdict A) (kv : str * A) : pdict A := dict_set (fst kv) (snd kv) d.
Lemma assign_all_get {A} : forall (kvs : list (str * A)) d k v,
  NoDup (map fst kvs) -> In (k, v) kvs -> dict_get k (fold_left assign kvs d) = Some v.
Proof.
  induction kvs as [|[k0 v0] r IH]; intros d k v ND Hin; [contradiction|].
  cbn [fold_left map] in *. inversion ND as [|? ? Hn ND']; subst. destruct Hin as [Hin|Hin].
  - injection Hin as -> ->. clear IH.
    assert (G : forall (l : list (str * A)) d', ~ In k (map fst l) -> dict_get k (fold_left assign l d') = dict_get k d').
    { induction l as [|[k1 v1] l' IHl]; intros d' Hn'; cbn [fold_left]; auto.
      rewrite IHl by (intro; apply Hn'; right; auto). unfold assign. cbn [fst snd].
      apply dict_get_set_other. intro; subst. apply Hn'. left; auto. }
    rewrite G by auto. unfold assign. cbn [fst snd]. apply dict_get_set_same.
  - apply IH; auto.
Qed.

Definition entries (suffixes names : list str) : list (str * (nat * nat)) :=
  flat_map (fun ni => map (fun sj => (snd ni ++ snd sj, (fst ni, fst sj))) (combine (seq 0 (length suffixes)) suffixes))
           (combine (seq 0 (length names)) names).

Lemma inner_fold (ni : nat * str) : forall (ss : list (nat * str)) (d : pdict (nat * nat)),
  fold_left (fun d' sj => dict_set (snd ni ++ snd sj) (fst ni, fst sj) d') ss d =
  fold_left assign (map (fun sj : nat * str => (snd ni ++ snd sj, (fst ni, fst sj))) ss) d.
Proof. induction ss as [|sj t IHs]; intros d; cbn [fold_left map]; auto. Qed.

Lemma build_dict_entries suffixes names : build_dict suffixes names = fold_left assign (entries suffixes names) [].
Proof.
  unfold build_dict, entries. generalize (@nil (str * (nat * nat))) as d.
  generalize (combine (seq 0 (length names)) names) as ns. generalize (combine (seq 0 (length suffixes)) suffixes) as ss.
  intros ss. induction ns as [|ni r IH]; intros d; cbn [fold_left flat_map]; auto.
  rewrite fold_left_app. rewrite <- IH. f_equal. apply inner_fold.
Qed.

Lemma in_combine_seq {A} (l : list A) : forall start i x, In (i, x) (combine (seq start (length l)) l) -> In x l.
Proof. induction l as [|h t IH]; intros start i x H; cbn in *; [contradiction|]. destruct H as [H|H]; [injection H as _ ->; auto|right; eapply IH; eauto]. Qed.

Lemma combine_seq_fst_NoDup {A} (l : list A) start : NoDup (map fst (combine (seq start (length l)) l)).
Proof.
  assert (E : map fst (combine (seq start (length l)) l) = seq start (length l)).
  { revert start. induction l as [|h t IH]; intros start; cbn; auto. f_equal. apply IH. }
  rewrite E. apply seq_NoDup.
Qed.

Lemma combine_seq_snd {A} (l : list A) start : map snd (combine (seq start (length l)) l) = l.
Proof. revert start. induction l as [|h t IH]; intros start; cbn; auto. f_equal. apply IH. Qed.

Lemma NoDup_map_snd_inj {A B} (l : list (A * B)) : NoDup (map snd l) -> forall p q, In p l -> In q l -> snd p = snd q -> p = q.
Proof.
  induction l as [|h t IH]; intros ND p q Hp Hq E; [contradiction|]. cbn [map] in ND. inversion ND as [|? ? Hn ND']; subst.
  destruct Hp as [->|Hp], Hq as [->|Hq]; auto.
  - exfalso. apply Hn. rewrite E. apply in_map; auto.
  - exfalso. apply Hn. rewrite <- E. apply in_map; auto.
Qed.

Lemma entries_keys_NoDup suffixes names : suffix_free suffixes -> NoDup suffixes -> NoDup names ->
  NoDup (map fst (entries suffixes names)).
Proof.
  intros SF NS NN. unfold entries.
  set (ss := combine (seq 0 (length suffixes)) suffixes). set (ns := combine (seq 0 (length names)) names).
  assert (Hs : forall sj, In sj ss -> In (snd sj) suffixes) by (intros [j s] H; eapply in_combine_seq; eauto).
  assert (NSs : NoDup (map snd ss)) by (unfold ss; rewrite combine_seq_snd; auto).
  assert (NNs : NoDup (map snd ns)) by (unfold ns; rewrite combine_seq_snd; auto).
  clearbody ns. induction ns as [|ni r IH]; cbn [flat_map map]; [constructor|].
  cbn [map] in NNs. inversion NNs as [|? ? Hn NNr]; subst.
  rewrite map_app. apply NoDup_app_intro.
  - rewrite map_map. cbn [fst].
    assert (Inj : forall l, NoDup (map snd l) -> (forall sj, In sj l -> In (snd sj) suffixes) -> NoDup (map (fun sj : nat * str => snd ni ++ snd sj) l)).
    { induction l as [|h t IHl]; intros ND Hin; cbn [map]; constructor.
      - cbn [map] in ND. inversion ND as [|? ? Hn' _]; subst. intro H. apply in_map_iff in H as (q & E & Hq).
        apply app_inv_head in E. apply Hn'. rewrite <- E. apply in_map; auto.
      - cbn [map] in ND. inversion ND; subst. apply IHl; auto. intros; apply Hin; right; auto. }
    apply Inj; auto.
  - apply IH; auto.
  - intros k Hk Hk'. rewrite map_map in Hk. cbn [fst] in Hk. apply in_map_iff in Hk as (sj & <- & Hsj).
    apply in_map_iff in Hk' as ([k2 v2] & E & Hin2). cbn [fst] in E. subst k2.
    apply in_flat_map in Hin2 as (ni' & Hni' & Hin3). apply in_map_iff in Hin3 as (sj' & E3 & Hsj').
    injection E3 as E3 _.
    destruct (key_inj_lemma suffixes SF (snd ni') (snd ni) (snd sj') (snd sj) (Hs sj' Hsj') (Hs sj Hsj) E3) as [En _].
    apply Hn. rewrite <- En. apply in_map; auto.
Qed.

Theorem lookups_ok_lemma suffixes names : suffix_free suffixes -> NoDup suffixes -> NoDup names ->
  lookups_ok suffixes names = true.
Proof.
  intros SF NS NN. unfold lookups_ok. rewrite forallb_forall. intros ni Hni. rewrite forallb_forall. intros sj Hsj.
  rewrite prefix_lookup_exact_lemma, build_dict_entries.
  rewrite (assign_all_get (entries suffixes names) [] (snd ni ++ snd sj) (fst ni, fst sj)).
  - rewrite !Nat.eqb_refl. reflexivity.
  - apply entries_keys_NoDup; auto.
  - unfold entries. apply in_flat_map. exists ni. split; auto. apply in_map_iff. exists sj. split; auto.
Qed.

Lemma module_suffixes_NoDup : NoDup module_suffixes.
Proof. repeat constructor; cbn; intuition discriminate. Qed.
Lemma optimizer_suffixes_NoDup : NoDup optimizer_suffixes.
Proof. repeat constructor; cbn; intuition discriminate. Qed.

Theorem prefix_ok_lemma nets opts : NoDup nets -> NoDup opts -> prefix_ok nets opts = true.
Proof.
  intros N1 N2. unfold prefix_ok.
  rewrite (lookups_ok_lemma module_suffixes nets module_suffixes_free module_suffixes_NoDup N1).
  rewrite (lookups_ok_lemma optimizer_suffixes opts optimizer_suffixes_free optimizer_suffixes_NoDup N2). reflexivity.
Qed.
