(* C07/ProofsIdem.v — calls repeated on the same objects: restoring the same file again (identical consecutive load_checkpoint
   calls, roll-back after any agent-local operation) and saving the same agent twice. *)
From Coq Require Import List NArith QArith Lia Bool.
From AgileV Require Import Evo.Heap Evo.Evo Evo.EvoProofs C07.Model C07.Proofs C07.ProofsAbs C07.ProofsInv.
Import ListNotations.
Open Scope N_scope.

(* IDEMPOTENCE OF RESTORING — loading the same file again (identical consecutive calls, or a roll-back after the agent has
   been trained, mutated ... by any agent-local operation f) gives the same view again *)
Theorem restore_again_lemma b x0 f :
  okst x0 -> bfree (bl_blocks b) x0 -> map fst (a_blocks (snd x0)) = map fst (bl_blocks b) ->
  blob_ok b -> no_share (a_reg (snd x0)) = true ->
  local_ok f -> keys_ok f -> no_share (a_reg (snd (f (restore b x0)))) = true ->
  abs (fst (restore b (f (restore b x0)))) (snd (restore b (f (restore b x0)))) = blob_view (fst x0) b.
Proof.
  intros OK0 BF0 KE0 BO NS Lf Kf NS2.
  set (x1 := restore b x0). set (x2 := f x1).
  assert (OK1 : okst x1) by (apply okst_step; auto; apply local_ok_restore).
  assert (OK2 : okst x2) by (apply okst_step; auto).
  destruct (bfree_step (bl_blocks b) (restore b) x0 (local_ok_restore b) BF0) as [BF1 RD1]. fold x1 in BF1, RD1.
  destruct (bfree_step (bl_blocks b) f x1 Lf BF1) as [BF2 RD2]. fold x2 in BF2, RD2.
  assert (K1 : map fst (a_blocks (snd x1)) = map fst (bl_blocks b)).
  { pose proof (keys_ok_restore b x0) as K. unfold keys_of in K. fold x1 in K. congruence. }
  assert (K2 : map fst (a_blocks (snd x2)) = map fst (bl_blocks b)).
  { pose proof (Kf x1) as K. unfold keys_of in K. fold x2 in K. congruence. }
  rewrite (restore_abs_lemma b x2 OK2 BF2 K2 BO NS2).
  apply blob_view_ext. intros l Hl. rewrite RD2 by auto. apply RD1; auto.
Qed.

Theorem restore_idempotent_lemma b x0 :
  okst x0 -> bfree (bl_blocks b) x0 -> map fst (a_blocks (snd x0)) = map fst (bl_blocks b) ->
  blob_ok b -> no_share (a_reg (snd x0)) = true -> no_share (bl_reg b) = true ->
  abs (fst (restore b (restore b x0))) (snd (restore b (restore b x0))) = abs (fst (restore b x0)) (snd (restore b x0)).
Proof.
  intros OK0 BF0 KE0 BO NS NSb.
  rewrite (restore_abs_lemma b x0 OK0 BF0 KE0 BO NS).
  apply (restore_again_lemma b x0 (fun x => x)); auto;
    try apply local_ok_id; try apply keys_ok_id.
  all: cbn beta; pose proof (restore_abs_lemma b x0 OK0 BF0 KE0 BO NS) as H;
    apply (f_equal v_reg) in H; cbn [abs v_reg blob_view] in H; rewrite H; exact NSb.
Qed.

(* SAVING TWICE — two consecutive saves of the same agent write files with the same view (save changes nothing it reads) *)
Theorem save_twice_lemma s a :
  savable a = true -> no_hidden a = true -> bounded s (agent_locs a) ->
  let r1 := save s a in let r2 := save (fst r1) a in
  blob_view (fst r2) (snd r2) = blob_view (fst r1) (snd r1).
Proof.
  intros SV NH B. cbn zeta.
  destruct (save_blob_facts s a SV NH B) as (_ & BV1 & _). cbn zeta in BV1.
  destruct (save_spec_lemma s a) as (_ & S2 & _ & S4 & _).
  set (s1 := fst (save s a)) in *.
  assert (B1 : bounded s1 (agent_locs a)).
  { apply Forall_forall. intros l Hl. unfold bounded in B. rewrite Forall_forall in B. specialize (B l Hl). lia. }
  destruct (save_blob_facts s1 a SV NH B1) as (_ & BV2 & _). cbn zeta in BV2.
  rewrite BV2, BV1. unfold abs. f_equal. unfold contents. apply map_ext_in. intros kv Hkv. f_equal.
  apply map_ext_in. intros l Hl. apply S4. unfold bounded, agent_locs in B. rewrite Forall_forall in B. apply B.
  apply in_concat. exists (snd kv). split; auto. apply in_map; auto.
Qed.
