(* C07/ProofsHist.v — files are immutable along every history, and the property stated over whole histories:
   save a member after ANY history, continue with ANY history, then load the file: the new member has the view the
   saved member had when it was saved ([checkpoint_in_history_lemma]).
   1. [unowned]: a cell that is allocated and owned by no member is never written, and stays unowned, under every
      operation of the evolutionary loop and every checkpoint operation ([step_unowned], [cstep_unowned]);
   2. [files_free]: every file's cells are unowned — an invariant ([cstep_files_free_lemma]); hence no cell of a file
      is ever written ([crun_files_intact_lemma]);
   3. the allocation pointer only grows ([crun_next_mono]);
   4. combination with [reachable_savable_lemma] and [load_later_lemma]. *)
From Coq Require Import List NArith QArith Lia Bool.
From AgileV Require Import Evo.Heap Evo.Evo Evo.EvoProofs C07.Model C07.Proofs C07.ProofsAbs C07.ProofsInv.
Import ListNotations.
Open Scope N_scope.

(* ---------------------------------------------------------------------------------------------- *)
(* files are immutable along every history *)

(* a cell that is allocated and owned by no member *)
Definition unowned (w : world) (l : loc) : Prop := l < s_next (w_store w) /\ ~ In l (all_locs w).

Lemma in_all_locs_sub (p q : list agent) l : (forall a, In a q -> In a p) -> In l (concat (map agent_locs q)) -> In l (concat (map agent_locs p)).
Proof.
  intros H Hl. apply in_concat in Hl as (x & Hx & Hlx). apply in_map_iff in Hx as (a & <- & Ha).
  apply in_concat. exists (agent_locs a). split; auto. apply in_map. auto.
Qed.
Lemma in_skipn {A} (x : A) : forall n l, In x (skipn n l) -> In x l.
Proof. induction n as [|n IH]; intros [|h t] H; cbn [skipn] in *; auto. right. apply IH; auto. Qed.
Lemma in_firstn {A} (x : A) : forall n l, In x (firstn n l) -> In x l.
Proof. induction n as [|n IH]; intros [|h t] H; cbn [firstn] in *; auto; try contradiction. destruct H as [H|H]; [left; auto|right; apply IH; auto]. Qed.
Lemma in_remove_nth {A} (x : A) : forall (l : list A) i, In x (remove_nth i l) -> In x l.
Proof. induction l as [|h t IH]; intros [|i] H; cbn [remove_nth] in *; auto; try contradiction; [right; auto|]. destruct H as [H|H]; [left; auto|right; eapply IH; eauto]. Qed.

Lemma apply_local_unowned i f w l : local_ok f -> WF w -> unowned w l ->
  unowned (apply_local i f w) l /\ rd (w_store (apply_local i f w)) l = rd (w_store w) l.
Proof.
  intros Hf [ND B] [Hl Hn]. unfold apply_local. destruct (nth_error (w_pop w) i) as [a|] eqn:Hi; [|split; [split|]; auto].
  destruct (Hf (w_store w, a)) as (F1 & F2 & F3 & F4). cbn [fst snd w_pop w_store] in *.
  assert (Ha : ~ In l (agent_locs a)) by (intro H; apply Hn; apply (in_all_locs w i a l Hi H)).
  split; [split|].
  - cbn [w_store]. lia.
  - unfold all_locs. cbn [w_pop]. rewrite map_update. intro H.
    assert (Hm : nth_error (map agent_locs (w_pop w)) i = Some (agent_locs a)) by (rewrite nth_error_map, Hi; reflexivity).
    destruct (concat_update_incl _ i _ _ l Hm H) as [H'|H']; [|contradiction].
    destruct (F2 l H') as [H''|H'']; [contradiction|lia].
  - apply F4; auto.
Qed.

Lemma clone_into_unowned i idx w l : WF w -> unowned w l ->
  unowned (clone_into clone_agent i idx w) l /\ rd (w_store (clone_into clone_agent i idx w)) l = rd (w_store w) l.
Proof.
  intros W [Hl Hn]. split; [split|].
  - pose proof (clone_into_next i idx w). lia.
  - unfold clone_into. destruct (nth_error (w_pop w) i) as [a|] eqn:Hi; auto.
    destruct (clone_spec idx (w_store w) a) as (C1 & C2 & C3 & C4).
    destruct (clone_agent idx (w_store w) a) as [s' c]. cbn [fst snd] in *.
    unfold all_locs. cbn [w_pop]. rewrite map_app, concat_app. cbn [map concat]. rewrite app_nil_r.
    intro H. apply in_app_or in H as [H|H]; [contradiction|]. specialize (C2 l H). lia.
  - apply clone_into_old_cells; auto.
Qed.

Lemma clone_winners_unowned : forall ws id old w l, WF w -> unowned w l ->
  unowned (clone_winners ws id old w) l /\ rd (w_store (clone_winners ws id old w)) l = rd (w_store w) l.
Proof.
  induction ws as [|i r IH]; intros id old w l W U; cbn [clone_winners]; [split; auto|].
  destruct (clone_into_unowned i (Some (N.succ id)) w l W U) as [U' R'].
  destruct (IH (N.succ id) old _ l (clone_into_WF i _ w W) U') as [U'' R'']. split; auto. congruence.
Qed.

Lemma step_unowned w o l : WF w -> unowned w l -> unowned (step w o) l /\ rd (w_store (step w o)) l = rd (w_store w) l.
Proof.
  intros W U. destruct o; cbn [step].
  - apply apply_local_unowned; auto. apply local_ok_learn.
  - apply apply_local_unowned; auto. apply local_ok_score.
  - apply apply_local_unowned; auto. apply local_ok_act.
  - apply clone_into_unowned; auto.
  - apply apply_local_unowned; auto. apply local_ok_mutate.
  - unfold select.
    set (n := length (w_pop w)).
    set (w1 := clone_into clone_agent elite None w).
    set (w2 := if elitism then clone_into clone_agent n None w1 else w1).
    set (w3 := clone_winners winners (max_index (w_pop w)) n w2).
    destruct (clone_into_unowned elite None w l W U) as [U1 R1]. fold w1 in U1, R1.
    assert (W1 : WF w1) by (apply clone_into_WF; auto).
    assert (H2 : WF w2 /\ unowned w2 l /\ rd (w_store w2) l = rd (w_store w) l).
    { unfold w2. destruct elitism; [|auto].
      destruct (clone_into_unowned n None w1 l W1 U1) as [U2 R2]. split; [apply clone_into_WF; auto|]. split; auto. congruence. }
    destruct H2 as (W2 & U2 & R2).
    destruct (clone_winners_unowned winners (max_index (w_pop w)) n w2 l W2 U2) as [U3 R3]. fold w3 in U3, R3.
    cbn [w_store]. split; [|congruence]. destruct U3 as [L3 N3]. split; auto.
    unfold all_locs. cbn [w_pop]. intro H. apply N3. unfold all_locs.
    eapply (in_all_locs_sub (w_pop w3)); [|exact H].
    intros a Ha. apply in_app_or in Ha as [Ha|Ha]; [apply (in_skipn a _ _ Ha)|apply (in_skipn a n); apply (in_firstn a _ _ Ha)].
  - cbn [w_store]. split; auto. destruct U as [L N]. split; auto. unfold all_locs. cbn [w_pop]. intro H. apply N.
    eapply (in_all_locs_sub (w_pop w)); [|exact H]. intros a Ha. apply (in_remove_nth a _ _ Ha).
Qed.

Definition file_free (w : world) (b : blob) : Prop := forall l, In l (locs_of (bl_blocks b)) -> unowned w l.
Definition files_free (c : cworld) : Prop := Forall (file_free (cw c)) (cw_files c).

Lemma cstep_unowned c o l : WF (cw c) -> unowned (cw c) l ->
  unowned (cw (cstep c o)) l /\ rd (w_store (cw (cstep c o))) l = rd (w_store (cw c)) l.
Proof.
  intros W U. destruct o as [o'|i|f|f j]; cbn [cstep].
  - cbn [cw]. apply step_unowned; auto.
  - destruct (nth_error (w_pop (cw c)) i) as [a|]; [|split; auto].
    destruct (save_spec_lemma (w_store (cw c)) a) as (_ & S2 & _ & S4 & _).
    destruct (save (w_store (cw c)) a) as [s' b]. cbn [fst snd cw w_store] in *. destruct U as [L N].
    split; [split|]; auto. cbn [w_store]. lia.
  - destruct (nth_error (cw_files c) f) as [b|]; [|split; auto].
    pose proof (load_fresh_lemma (w_store (cw c)) b) as LF. cbn zeta in LF.
    destruct (load (w_store (cw c)) b) as [s' a]. cbn [fst snd cw w_store] in *. destruct LF as (L1 & L2 & _ & L4). destruct U as [L N].
    split; [split|]; auto.
    + cbn [w_store]. lia.
    + unfold all_locs. cbn [w_pop]. rewrite map_app, concat_app. cbn [map concat]. rewrite app_nil_r.
      intro H. apply in_app_or in H as [H|H]; [contradiction|]. specialize (L2 l H). lia.
  - destruct (nth_error (cw_files c) f) as [b|]; [|split; auto]. cbn [cw].
    apply apply_local_unowned; auto. apply local_ok_load_checkpoint.
Qed.

Lemma cstep_files_prefix c o : exists extra, cw_files (cstep c o) = cw_files c ++ extra.
Proof.
  destruct o as [o'|i|f|f j]; cbn [cstep].
  - exists []. cbn. rewrite app_nil_r. auto.
  - destruct (nth_error (w_pop (cw c)) i) as [a|]; [|exists []; rewrite app_nil_r; auto].
    destruct (save (w_store (cw c)) a) as [s' b]. cbn [cw_files]. eexists; eauto.
  - destruct (nth_error (cw_files c) f) as [b|]; [|exists []; rewrite app_nil_r; auto].
    destruct (load (w_store (cw c)) b) as [s' a]. cbn [cw_files]. exists []. rewrite app_nil_r. auto.
  - destruct (nth_error (cw_files c) f) as [b|]; exists []; rewrite app_nil_r; auto.
Qed.

(* the invariant: every file's cells are allocated and owned by nobody *)
Theorem cstep_files_free_lemma c o : WF (cw c) -> files_free c -> files_free (cstep c o).
Proof.
  intros W FF. unfold files_free in *.
  assert (Old : Forall (file_free (cw (cstep c o))) (cw_files c)).
  { eapply Forall_impl; [|exact FF]. intros b Hb l Hl. apply (cstep_unowned c o l W (Hb l Hl)). }
  destruct o as [o'|i|f|f j]; cbn [cstep] in *; auto.
  - destruct (nth_error (w_pop (cw c)) i) as [a|] eqn:Hi; auto.
    destruct (save_spec_lemma (w_store (cw c)) a) as (S1 & S2 & _).
    destruct (save (w_store (cw c)) a) as [s' b]. cbn [fst snd cw cw_files w_store] in *.
    apply Forall_app. split; auto. constructor; [|constructor].
    intros l Hl. rewrite S1 in Hl. apply in_nseq in Hl. split; [cbn [w_store]; lia|].
    unfold all_locs. cbn [w_pop]. intro H. destruct W as [_ B]. unfold bounded, all_locs in B. rewrite Forall_forall in B.
    specialize (B l H). lia.
  - destruct (nth_error (cw_files c) f) as [b|]; auto.
  - destruct (nth_error (cw_files c) f) as [b|]; auto.
Qed.

(* ... and along any history no cell of a file that exists now is ever written *)
Theorem crun_files_intact_lemma ops : forall c, WF (cw c) -> files_free c ->
  files_free (crun c ops) /\
  (forall b l, In b (cw_files c) -> In l (locs_of (bl_blocks b)) ->
     rd (w_store (cw (crun c ops))) l = rd (w_store (cw c)) l) /\
  (exists extra, cw_files (crun c ops) = cw_files c ++ extra).
Proof.
  unfold crun. induction ops as [|o r IH]; intros c W FF; cbn [fold_left].
  - split; auto. split; auto. exists []. rewrite app_nil_r. auto.
  - destruct (IH (cstep c o) (cstep_WF_lemma c o W) (cstep_files_free_lemma c o W FF)) as (I1 & I2 & (e2 & I3)).
    destruct (cstep_files_prefix c o) as (e1 & P1).
    split; auto. split.
    + intros b l Hb Hl. rewrite (I2 b l); [|rewrite P1; apply in_or_app; auto|auto].
      unfold files_free in FF. rewrite Forall_forall in FF. apply (cstep_unowned c o l W (FF b Hb l Hl)).
    + exists (e1 ++ e2). rewrite I3, P1, app_assoc. reflexivity.
Qed.

Lemma cstep_next_mono c o : s_next (w_store (cw c)) <= s_next (w_store (cw (cstep c o))).
Proof.
  destruct o as [o'|i|f|f j]; cbn [cstep].
  - cbn [cw]. destruct o'; cbn [step]; try (unfold apply_local; destruct (nth_error _ _); cbn [w_store]; [|lia]).
    + match goal with |- context[learn_agent ?st ?x] => destruct (local_ok_learn st x) as (F & _) end. exact F.
    + match goal with |- context[score_agent ?x] => destruct (local_ok_score x) as (F & _) end. exact F.
    + match goal with |- context[act_agent ?x] => destruct (local_ok_act x) as (F & _) end. exact F.
    + apply clone_into_next.
    + match goal with |- context[mutate_agent ?k ?sh ?lb ?x] => destruct (local_ok_mutate k sh lb x) as (F & _) end. exact F.
    + unfold select. cbn [w_store].
      assert (CW : forall ws id old w, s_next (w_store w) <= s_next (w_store (clone_winners ws id old w))).
      { induction ws as [|q ws' IHw]; intros; cbn [clone_winners]; [lia|]. etransitivity; [|apply IHw]. apply clone_into_next. }
      etransitivity; [|apply CW]. destruct elitism; [etransitivity; [|apply clone_into_next]|]; apply clone_into_next.
    + cbn [w_store]. lia.
  - destruct (nth_error (w_pop (cw c)) i) as [a'|]; [|lia].
    destruct (save_spec_lemma (w_store (cw c)) a') as (_ & S2 & _). destruct (save (w_store (cw c)) a') as [s'' b']. cbn [fst cw w_store] in *. rewrite S2. apply N.le_add_r.
  - destruct (nth_error (cw_files c) f) as [b'|]; [|lia].
    pose proof (load_fresh_lemma (w_store (cw c)) b') as LF. cbn zeta in LF. destruct (load (w_store (cw c)) b') as [s'' a']. cbn [fst cw w_store] in *. destruct LF as (L1 & _). exact L1.
  - destruct (nth_error (cw_files c) f) as [b'|]; [|lia]. cbn [cw]. unfold apply_local. destruct (nth_error _ _); cbn [w_store]; [|lia].
    match goal with |- context[load_checkpoint ?bb ?x] => destruct (local_ok_load_checkpoint bb x) as (F & _) end. exact F.
Qed.
Lemma crun_next_mono ops : forall c, s_next (w_store (cw c)) <= s_next (w_store (cw (crun c ops))).
Proof.
  unfold crun. induction ops as [|o r IH]; intros c; cbn [fold_left]; [lia|].
  etransitivity; [apply (cstep_next_mono c o)|apply IH].
Qed.

(* ---------------------------------------------------------------------------------------------- *)
(* the property over whole histories: save member i after ANY history, continue with ANY history (the saved agent may
   train on, be mutated, be discarded ...), then load the file: the new member has the view member i had when it was saved *)
Theorem checkpoint_in_history_lemma KS c0 ops1 ops2 i a :
  WF (cw c0) -> all_keys KS c0 -> keys_good KS = true -> files_free c0 ->
  let c1 := crun c0 ops1 in
  nth_error (w_pop (cw c1)) i = Some a -> no_hidden a = true -> no_share (a_reg a) = true ->
  let c2 := crun (cstep c1 (CSave i)) ops2 in
  let c3 := cstep c2 (CLoad (length (cw_files c1))) in
  exists r, w_pop (cw c3) = w_pop (cw c2) ++ [r] /\ abs (w_store (cw c3)) r = abs (w_store (cw c1)) a.
Proof.
  intros W0 AK KG FF0. cbn zeta. intros Hi NH NS.
  set (c1 := crun c0 ops1) in *.
  assert (W1 : WF (cw c1)) by (apply crun_WF_lemma; auto).
  destruct (crun_files_intact_lemma ops1 c0 W0 FF0) as (FF1 & _ & _). fold c1 in FF1.
  destruct (reachable_savable_lemma KS c0 ops1 a W0 AK KG (nth_error_In _ _ Hi)) as [SV B]. fold c1 in B.
  set (cs := cstep c1 (CSave i)).
  assert (Ws : WF (cw cs)) by (apply cstep_WF_lemma; auto).
  assert (FFs : files_free cs) by (apply cstep_files_free_lemma; auto).
  assert (Es : cw_files cs = cw_files c1 ++ [snd (save (w_store (cw c1)) a)] /\ w_store (cw cs) = fst (save (w_store (cw c1)) a)).
  { unfold cs. cbn [cstep]. rewrite Hi. destruct (save (w_store (cw c1)) a) as [s' b]. cbn. auto. }
  destruct Es as [Efs Ess].
  set (b := snd (save (w_store (cw c1)) a)) in *.
  destruct (crun_files_intact_lemma ops2 cs Ws FFs) as (FF2 & RD2 & (e2 & P2)).
  set (c2 := crun cs ops2) in *.
  assert (W2 : WF (cw c2)) by (apply crun_WF_lemma; auto).
  assert (Hf : nth_error (cw_files c2) (length (cw_files c1)) = Some b).
  { rewrite P2, Efs, <- app_assoc. rewrite nth_error_app2 by lia. rewrite Nat.sub_diag. reflexivity. }
  cbn [cstep]. rewrite Hf.
  pose proof (load_later_lemma (w_store (cw c1)) a (w_store (cw c2)) SV NH NS B) as LL. fold b in LL.
  destruct (load (w_store (cw c2)) b) as [s' r] eqn:EL. cbn [fst snd cw w_pop w_store] in *.
  exists r. split; auto. apply LL.
  - rewrite <- Ess. apply crun_next_mono.
  - intros l Hl. rewrite <- Ess. apply (RD2 b l); auto. rewrite Efs. apply in_or_app. right. left. reflexivity.
Qed.


Lemma nth_error_update_eq {A} (l : list A) : forall i x y, nth_error l i = Some y -> nth_error (update i x l) i = Some x.
Proof. induction l as [|h t IH]; intros [|i] x y H; cbn in *; try discriminate; auto. eapply IH; eauto. Qed.

(* the property over whole histories, load_checkpoint path: save member i after ANY history, continue with ANY history, then
   member j (ANY member of the population at that time: other architecture, weights, optimizer state, hyper-parameters,
   possibly the saved member itself rolled back) loads the file: member j then has the view member i had when it was saved,
   and every other member is the same record as before *)
Theorem checkpoint_into_history_lemma KS c0 ops1 ops2 i a j t :
  WF (cw c0) -> all_keys KS c0 -> keys_good KS = true -> files_free c0 ->
  let c1 := crun c0 ops1 in
  nth_error (w_pop (cw c1)) i = Some a -> no_hidden a = true -> no_share (a_reg a) = true ->
  let c2 := crun (cstep c1 (CSave i)) ops2 in
  nth_error (w_pop (cw c2)) j = Some t -> no_share (a_reg t) = true ->
  snd (load_checkpoint (snd (save (w_store (cw c1)) a)) (w_store (cw c2), t)) = true ->
  let c3 := cstep c2 (CLoadInto (length (cw_files c1)) j) in
  exists r, nth_error (w_pop (cw c3)) j = Some r /\ abs (w_store (cw c3)) r = abs (w_store (cw c1)) a /\
            (forall k, k <> j -> nth_error (w_pop (cw c3)) k = nth_error (w_pop (cw c2)) k).
Proof.
  intros W0 AK KG FF0. cbn zeta. intros Hi NH NS Hj NSt OKc.
  set (c1 := crun c0 ops1) in *.
  assert (W1 : WF (cw c1)) by (apply crun_WF_lemma; auto).
  destruct (crun_files_intact_lemma ops1 c0 W0 FF0) as (FF1 & _ & _). fold c1 in FF1.
  destruct (reachable_savable_lemma KS c0 ops1 a W0 AK KG (nth_error_In _ _ Hi)) as [SV B]. fold c1 in B.
  assert (AK1 : all_keys KS c1) by (apply crun_keys_lemma; auto).
  set (cs := cstep c1 (CSave i)) in *.
  assert (Ws : WF (cw cs)) by (apply cstep_WF_lemma; auto).
  assert (FFs : files_free cs) by (apply cstep_files_free_lemma; auto).
  assert (AKs : all_keys KS cs) by (apply cstep_keys_lemma; auto).
  assert (Es : cw_files cs = cw_files c1 ++ [snd (save (w_store (cw c1)) a)] /\ w_store (cw cs) = fst (save (w_store (cw c1)) a)).
  { unfold cs. cbn [cstep]. rewrite Hi. destruct (save (w_store (cw c1)) a) as [s' b]. cbn. auto. }
  destruct Es as [Efs Ess].
  set (b := snd (save (w_store (cw c1)) a)) in *.
  destruct (crun_files_intact_lemma ops2 cs Ws FFs) as (FF2 & RD2 & (e2 & P2)).
  set (c2 := crun cs ops2) in *.
  assert (W2 : WF (cw c2)) by (apply crun_WF_lemma; auto).
  assert (AK2 : all_keys KS c2) by (apply crun_keys_lemma; auto).
  assert (Hf : nth_error (cw_files c2) (length (cw_files c1)) = Some b).
  { rewrite P2, Efs, <- app_assoc. rewrite nth_error_app2 by lia. rewrite Nat.sub_diag. reflexivity. }
  assert (Hb : In b (cw_files c2)) by (eapply nth_error_In; eauto).
  assert (Ht : In t (w_pop (cw c2))) by (eapply nth_error_In; eauto).
  cbn [cstep]. rewrite Hf. cbn [cw]. unfold apply_local. rewrite Hj. cbn [w_pop w_store].
  exists (snd (fst (load_checkpoint b (w_store (cw c2), t)))). split; [|split].
  - eapply nth_error_update_eq; eauto.
  - destruct W2 as [ND2 B2].
    apply (load_checkpoint_save_abs_lemma (w_store (cw c1)) a (w_store (cw c2)) t SV NH NS B); auto.
    + apply (member_NoDup _ t Ht ND2).
    + apply Forall_forall. intros l Hl. unfold bounded in B2. rewrite Forall_forall in B2. apply B2.
      unfold all_locs. apply in_concat. exists (agent_locs t). split; auto. apply in_map; auto.
    + destruct AK2 as [HP2 _]. destruct AK1 as [HP1 _]. rewrite Forall_forall in HP1, HP2.
      pose proof (HP2 t Ht) as K2. pose proof (HP1 a (nth_error_In _ _ Hi)) as K1. unfold keys_of in *. congruence.
    + fold b. rewrite <- Ess. apply crun_next_mono.
    + fold b. intros l Hl. split.
      * rewrite <- Ess. apply (RD2 b l); auto. rewrite Efs. apply in_or_app. right. left. reflexivity.
      * unfold files_free in FF2. rewrite Forall_forall in FF2. destruct (FF2 b Hb l Hl) as [_ Hn].
        intro H. apply Hn. unfold all_locs. apply in_concat. exists (agent_locs t). split; auto. apply in_map; auto.
  - intros k Hk. apply nth_error_update_ne. auto.
Qed.
