(* C07/Check.v — comparison functions of the correspondence check (K) of C07; nothing here is used by a theorem.
   A case = initial world (real initial population), a list of operations [cop] (evolutionary-loop operations,
   save_checkpoint, Algo.load, agent.load_checkpoint) and one observation per state.  Per state the generic Evo
   comparison [state_ok] (Evo/EvoCheck.v) is used: alias partition over all owned slots (exact), value partition
   (equal model content ids => equal observed values, threaded through the whole run: a restored cell carries the
   content id of the saved cell, so the implementation must have restored exactly the saved value), index, label,
   architecture ids, optimizer <-> parameter identity, lr, hyper-parameter values, block sizes.
   In addition: the lr of EVERY param_group of every optimizer equals the model's lr of that optimizer ([lrs_ok]); every saved agent must satisfy the side conditions of the theorems ([savable], [share_savedb]), every
   load_checkpoint must pass the registry comparison, the real network / optimizer names must pass [prefix_ok],
   and the initial world must be separated ([sep_b]). *)
From Coq Require Import List NArith QArith Bool FMapPositive.
From AgileV Require Import Evo.Heap Evo.Evo C07.Model.
From AgileV Require Export Evo.EvoCheck.
Import ListNotations.
Open Scope N_scope.

Definition pre_ok (c : cworld) (o : cop) : bool :=
  match o with
  | CSave i => match nth_error (w_pop (cw c)) i with Some a => savable a && share_savedb a | None => false end
  | CLoad f => match nth_error (cw_files c) f with Some _ => true | None => false end
  | CLoadInto f j =>
      match nth_error (cw_files c) f, nth_error (w_pop (cw c)) j with
      | Some b, Some a => snd (load_checkpoint b (w_store (cw c), a))
      | _, _ => false
      end
  | CEvo _ => true
  end.

(* every param_group of every optimizer of every member trains at the learning rate the model holds for that optimizer
   (Evo's [state_ok] compares the first group only); t = per member, per optimizer, the lr of each param_group *)
Definition lrs_ok (w : world) (t : list (list (list Q))) : bool :=
  list_eqb (fun a ta => list_eqb (fun o lo => forallb (Qeq_bool (o_lr o)) lo) (a_opts a) ta) (w_pop w) t.

(* every allocated cell of the initial store holds a content id that has been issued (hypothesis [fresh_ok] of
   share_hidden_lost_always) *)
Definition fresh_okb (s : store) : bool :=
  forallb (fun l => N.ltb (rd s l) (s_fresh s)) (nseq 0 (N.to_nat (s_next s))).

(* the observation of a state may be omitted ([None]: the state after an operation inside a run of consecutive learn / act
   operations; the model still performs the step, the state at the end of the run is compared) *)
Fixpoint ccheck_steps (c : cworld) (ops : list cop) (os : list (option obs)) (ls : list (list (list (list Q)))) (m : PositiveMap.t N) : bool :=
  match ops, os, ls with
  | [], [], [] => true
  | o :: r, ob :: obr, lt :: lr =>
      if pre_ok c o then
        let c' := cstep c o in
        if lrs_ok (cw c') lt then
          match ob with
          | None => ccheck_steps c' r obr lr m
          | Some ob' =>
              match state_ok (cw c') ob' m with
              | Some m' => ccheck_steps c' r obr lr m'
              | None => false
              end
          end
        else false
      else false
  | _, _, _ => false
  end.

Definition ccheck_run (w : world) (ops : list cop) (os : list (option obs)) (ls : list (list (list (list Q)))) (nets opts : list str) : bool :=
  match os, ls with
  | Some o0 :: r, l0 :: lr =>
      prefix_ok nets opts && sep_b w && fresh_okb (w_store w) && lrs_ok w l0 &&
      match state_ok w o0 (PositiveMap.empty N) with
      | Some m => ccheck_steps (mkCW w []) ops r lr m
      | None => false
      end
  | _, _ => false
  end.

(* index of the first state on which model and implementation disagree (diagnostics only) *)
Fixpoint cfirst_bad (c : cworld) (ops : list cop) (os : list (option obs)) (m : PositiveMap.t N) (k : nat) : nat :=
  match ops, os with
  | o :: r, ob :: obr =>
      if pre_ok c o then
        let c' := cstep c o in
        match ob with
        | None => cfirst_bad c' r obr m (S k)
        | Some ob' =>
            match state_ok (cw c') ob' m with
            | Some m' => cfirst_bad c' r obr m' (S k)
            | None => k
            end
        end
      else (k + 1000)%nat
  | _, _ => 9999%nat
  end.
