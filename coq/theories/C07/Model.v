(* C07/Model.v — checkpoints on the Evo model: save / load / load_checkpoint (definitions only, no proofs).

   Code modelled (agilerl/algorithms/core/base.py): get_checkpoint_dict + save_checkpoint (torch.save),
   EvolvableAlgorithm.load (classmethod) and EvolvableAlgorithm.load_checkpoint (in place);
   agilerl/wrappers/agent.py AgentWrapper.save_checkpoint / load_checkpoint add wrapper tensors (ext cells).

   THE FILE.  A checkpoint is a [blob]: the plain fields of the dictionary (index, mut, architecture
   descriptors = class + init_dict of every network, optimizer names with the lr of their saved param_groups,
   hyper-parameter attributes, registry) and, per block of the agent, the pickled tensors / lists.  The pickled
   objects are cells of the store that nobody owns ([bl_blocks]; [save] allocates them as copies, torch.save
   serialises values).  What get_checkpoint_dict stores per network is module.state_dict(): the EXPOSED tensors
   only (classes enc, head, buf).  Tensors held outside state_dict (class henc: the detached encoder copies that
   share_encoder_parameters installs) are NOT in the file: [mask_hidden].

   RESTORING ([restore], shared by both load paths, in the order of the code):
     1. module_cls( **init_dict ) for every network name of the file: all tensors of the network are new objects
        with constructor values; the size lists of init_dict and the constants are rebuilt with the saved values;
        nothing is hidden yet                                                         [rebuild_nets, set arch]
     2. self.mutation_hook()                                                           [Evo.run_hooks]
     3. module.load_state_dict(saved state_dict) for every network: values are copied into the existing
        cells, block by block; a size mismatch raises (modelled as: nothing written)  [load_states / wfrom]
     4. OptimizerWrapper(...) over the restored networks + optimizer.load_state_dict(saved): state tensors
        are the unpickled ones (new objects holding the saved values), lr of the saved param_groups,
        references = the exposed parameters of the restored networks                  [adopt is_ost, new_opts]
     5. (load_checkpoint only) the saved registry must equal the agent's, else ValueError   [reg_eqb]
     6. setattr(self, attr, checkpoint[attr]) for the plain attributes: registry (RL-param objects), scores /
        fitness / steps, tensors (ext), hyper-parameters, index, mut                 [adopt is_attr, set_attrs]
   [load] runs this on a newly constructed agent of the class (all of whose own objects are replaced, so they
   are not modelled as cells), [load_checkpoint] on an existing agent.
   Unpickling creates new objects each time; adopting an unpickled object is therefore modelled as allocating
   a new cell with the file's content.

   NAMES.  The dictionary keys are strings  name ++ "_cls" / "_init_dict" / "_state_dict" (modules) and
   name ++ "_cls" / "_state_dict" / "_networks" / "_lr" / "_kwargs" / "_multiagent" (optimizers); both load
   paths first filter the dictionary with  k.startswith(name)  and then index it with the full key.  This
   is modelled literally over character lists ([pdict], [sub_dict], [lookup_entry]); [prefix_ok] is the
   per-instance check the harness evaluates on the real network / optimizer names. *)
From Coq Require Import List NArith QArith Bool Ascii.
From Coq Require String.
Import String.StringSyntax.
Delimit Scope string_scope with string.
From AgileV Require Import Evo.Heap Evo.Evo.
Import ListNotations.
Open Scope N_scope.

(* ---- the file ---------------------------------------------------------------------------------- *)
Record blob := mkBlob { bl_index : N; bl_mut : N; bl_arch : list (name * N); bl_opts : list (name * Q);
                        bl_hps : list (name * Q); bl_reg : registry; bl_blocks : blocks }.

Definition cls_in (k : key) (cs : list N) : bool := existsb (N.eqb (snd k)) cs.
Definition is_hidden (k : key) : bool := cls_in k [cHenc].
Definition is_sd (k : key) : bool := cls_in k [cEnc; cHead; cBuf].                       (* state_dict entries *)
Definition is_net (k : key) : bool := cls_in k [cEnc; cHead; cHenc; cConst; cCfg; cBuf]. (* rebuilt with the module *)
Definition is_ost (k : key) : bool := cls_in k [cOst].
Definition is_attr (k : key) : bool := cls_in k [cReg; cBook; cExt].

Definition mask_hidden (bs : blocks) : blocks :=
  map (fun kv => if is_hidden (fst kv) then (fst kv, []) else kv) bs.

Definition opt_view (a : agent) : list (name * Q) := map (fun o => (o_name o, o_lr o)) (a_opts a).

(* get_checkpoint_dict + torch.save *)
Definition save (s : store) (a : agent) : store * blob :=
  let '(s1, bs) := copy_blocks s (mask_hidden (a_blocks a)) in
  (s1, mkBlob (a_index a) (a_mut a) (a_arch a) (opt_view a) (a_hps a) (a_reg a) bs).

(* pinned behaviour of a network whose parameters were turned into plain attributes (DQN target before fix
   3d1411a): its tensors are held outside state_dict, i.e. they are hidden cells; see [agent_dqn_pinned] in
   C07/Proofs.v *)

(* ---- restoring --------------------------------------------------------------------------------- *)
(* block k := contents of the given cells (in place), when the sizes agree: module.load_state_dict *)
Definition wfrom (k : key) (srcs : list loc) (x : lstate) : lstate :=
  let d := getb k (a_blocks (snd x)) in
  if Nat.eqb (length d) (length srcs) then (write_copy (fst x) d srcs, snd x) else x.

(* what the module constructor creates for block k of a network, given the saved block u *)
Definition ctor_src (k : key) (u : list loc) : list src :=
  if cls_in k [cCfg; cConst] then map CopyOf u          (* size lists of init_dict are copied; constants recomputed *)
  else if cls_in k [cHenc] then []                     (* nothing is hidden in a newly built network *)
  else repeat FreshV (length u).                        (* parameters / buffers: constructor values *)

Definition on_blocks (p : key -> bool) (f : key -> list loc -> lstate -> lstate) (B : blocks) : lstate -> lstate :=
  seqL (map (fun kv => f (fst kv) (snd kv)) (filter (fun kv => p (fst kv)) B)).

Definition rebuild_nets : blocks -> lstate -> lstate := on_blocks is_net (fun k u => realloc k (ctor_src k u)).
Definition load_states : blocks -> lstate -> lstate := on_blocks is_sd wfrom.
Definition adopt (p : key -> bool) : blocks -> lstate -> lstate := on_blocks p (fun k u => realloc k (map CopyOf u)).

Definition new_opts (b : blob) : lstate -> lstate :=
  pure (fun a => with_opts a (map (fun nl => mkOpt (fst nl) (snd nl)
                                      (match find_optcfg (a_reg a) (fst nl) with Some c => want_refs a c | None => [] end))
                                  (bl_opts b))).
Definition set_attrs (b : blob) : lstate -> lstate :=
  pure (fun a => mkAgent (bl_index b) (bl_mut b) (a_arch a) (a_opts a) (bl_hps b) (bl_reg b) (a_blocks a)).

Definition restore_nets_opts (b : blob) : lstate -> lstate :=
  seqL [ rebuild_nets (bl_blocks b); pure (fun a => with_arch a (bl_arch b)); run_hooks;
         load_states (bl_blocks b); adopt is_ost (bl_blocks b); new_opts b ].
Definition restore_attrs (b : blob) : lstate -> lstate :=
  seqL [ adopt is_attr (bl_blocks b); set_attrs b ].
Definition restore (b : blob) : lstate -> lstate := seqL [restore_nets_opts b; restore_attrs b].

(* the agent that cls( **class_init_dict ) + self.registry = checkpoint["registry"] produces, as far as it
   survives: every object it creates is replaced by [restore] *)
Definition skeleton (b : blob) : agent :=
  mkAgent (bl_index b) 0 (bl_arch b) [] (bl_hps b) (bl_reg b) (map (fun kv => (fst kv, [])) (bl_blocks b)).

(* EvolvableAlgorithm.load(path) *)
Definition load (s : store) (b : blob) : store * agent := restore b (s, skeleton b).

(* ---- registry equality (checkpoint["registry"] != self.registry) -------------------------------- *)
Fixpoint leqb {A} (f : A -> A -> bool) (l m : list A) : bool :=
  match l, m with
  | [], [] => true
  | a :: r, b :: s => f a b && leqb f r s
  | _, _ => false
  end.
Definition group_eqb (g h : group) : bool :=
  N.eqb (g_eval g) (g_eval h) && leqb N.eqb (g_shared g) (g_shared h) && Bool.eqb (g_policy g) (g_policy h).
Definition optcfg_eqb (c d : optcfg) : bool :=
  N.eqb (oc_name c) (oc_name d) && leqb N.eqb (oc_nets c) (oc_nets d) && N.eqb (oc_lr c) (oc_lr d).
Definition hook_eqb (h k : hook) : bool :=
  match h, k with
  | HSync e t, HSync e' t' => N.eqb e e' && N.eqb t t'
  | HShare p o, HShare p' o' => N.eqb p p' && leqb N.eqb o o'
  | HBandit, HBandit => true
  | _, _ => false
  end.
(* MutationRegistry.__eq__ compares the network groups (dataclass equality) and the optimizer configurations
   (OptimizerConfig.__eq__: name and networks only); hooks and the hyper-parameter configuration are NOT compared *)
Definition optcfg_same (c d : optcfg) : bool := N.eqb (oc_name c) (oc_name d) && leqb N.eqb (oc_nets c) (oc_nets d).
Definition reg_eqb (r q : registry) : bool :=
  leqb group_eqb (r_groups r) (r_groups q) && leqb optcfg_same (r_opts r) (r_opts q).

(* agent.load_checkpoint(path): networks and optimizers are replaced first; a registry mismatch then raises
   (second component false) and leaves the agent half restored *)
Definition load_checkpoint (b : blob) (x : lstate) : lstate * bool :=
  let x1 := restore_nets_opts b x in
  if reg_eqb (bl_reg b) (a_reg (snd x1)) then (restore_attrs b x1, true) else (x1, false).

(* ---- worlds with files ---------------------------------------------------------------------------- *)
Record cworld := mkCW { cw : world; cw_files : list blob }.

Inductive cop :=
| CEvo (o : op)                      (* any operation of the evolutionary loop (Evo.step) *)
| CSave (i : nat)                    (* pop[i].save_checkpoint(path_k), k = number of files so far *)
| CLoad (f : nat)                    (* pop.append(Algo.load(path_f)) *)
| CLoadInto (f : nat) (j : nat).     (* pop[j].load_checkpoint(path_f) *)

Definition cstep (c : cworld) (o : cop) : cworld :=
  match o with
  | CEvo o' => mkCW (step (cw c) o') (cw_files c)
  | CSave i =>
      match nth_error (w_pop (cw c)) i with
      | Some a => let '(s', b) := save (w_store (cw c)) a in mkCW (mkWorld s' (w_pop (cw c))) (cw_files c ++ [b])
      | None => c
      end
  | CLoad f =>
      match nth_error (cw_files c) f with
      | Some b => let '(s', a) := load (w_store (cw c)) b in mkCW (mkWorld s' (w_pop (cw c) ++ [a])) (cw_files c)
      | None => c
      end
  | CLoadInto f j =>
      match nth_error (cw_files c) f with
      | Some b => mkCW (apply_local j (fun x => fst (load_checkpoint b x)) (cw c)) (cw_files c)
      | None => c
      end
  end.
Definition crun (c : cworld) (ops : list cop) : cworld := fold_left cstep ops c.

(* ---- what "equivalent agent" means ------------------------------------------------------------------ *)
Definition contents (s : store) (bs : blocks) : list (key * list cval) :=
  map (fun kv => (fst kv, map (rd s) (snd kv))) bs.

(* everything behaviour can depend on: index, label, architecture descriptors, optimizer settings,
   hyper-parameters, registry and the content of every cell of every block (weights of every network incl.
   targets, buffers, hidden tensors, size lists, optimizer moments and step counters, RL-param objects,
   score / fitness / step lists, other tensors); locations are forgotten *)
Record view := mkView { v_index : N; v_mut : N; v_arch : list (name * N); v_opts : list (name * Q);
                        v_hps : list (name * Q); v_reg : registry; v_cont : list (key * list cval) }.
Definition abs (s : store) (a : agent) : view :=
  mkView (a_index a) (a_mut a) (a_arch a) (opt_view a) (a_hps a) (a_reg a) (contents s (a_blocks a)).

(* computable side conditions of the theorems (evaluated by K on every saved agent) *)
Fixpoint keys_nodupb (ks : list key) : bool :=
  match ks with [] => true | k :: r => negb (existsb (key_eqb k) r) && keys_nodupb r end.
Definition no_hidden (a : agent) : bool :=
  forallb (fun kv => negb (is_hidden (fst kv)) || match snd kv with [] => true | _ => false end) (a_blocks a).
Definition no_share (r : registry) : bool :=
  forallb (fun h => match h with HShare _ _ => false | _ => true end) (r_hooks r).
Definition known_cls (a : agent) : bool :=
  forallb (fun kv => is_net (fst kv) || is_ost (fst kv) || is_attr (fst kv)) (a_blocks a).
Definition opts_named (a : agent) : bool :=
  forallb (fun o => match find_optcfg (a_reg a) (o_name o) with Some _ => true | None => false end) (a_opts a).
(* networks whose encoder the registry's share hooks hide; an agent saved in its shared state exposes no encoder
   parameters for them (hypothesis of load_save_visible, evaluated by K on every saved agent) *)
Definition hook_targets (h : hook) : list name := match h with HShare _ others => others | _ => [] end.
Definition share_targets (r : registry) : list name := flat_map hook_targets (r_hooks r).
Definition share_savedb (a : agent) : bool :=
  forallb (fun o => match blk a (o, cEnc) with [] => true | _ => false end) (share_targets (a_reg a)).
Definition savable (a : agent) : bool :=
  keys_nodupb (map fst (a_blocks a)) && nodupb (agent_locs a) && known_cls a.

(* ---- dictionary keys and prefix lookups ------------------------------------------------------------ *)
Definition str := list ascii.
Definition ascii_eqb (a b : ascii) : bool := if ascii_dec a b then true else false.
Fixpoint str_eqb (a b : str) : bool :=
  match a, b with
  | [], [] => true
  | x :: r, y :: s => ascii_eqb x y && str_eqb r s
  | _, _ => false
  end.
Fixpoint starts_with (p s : str) : bool :=       (* s.startswith(p) *)
  match p, s with
  | [], _ => true
  | x :: r, y :: t => ascii_eqb x y && starts_with r t
  | _ :: _, [] => false
  end.
Definition pdict (A : Type) := list (str * A).
Fixpoint dict_get {A} (k : str) (d : pdict A) : option A :=
  match d with [] => None | (k', v) :: r => if str_eqb k k' then Some v else dict_get k r end.
(* d[k] = v : overwrite in place or append *)
Fixpoint dict_set {A} (k : str) (v : A) (d : pdict A) : pdict A :=
  match d with
  | [] => [(k, v)]
  | (k', v') :: r => if str_eqb k k' then (k', v) :: r else (k', v') :: dict_set k v r
  end.
Definition sub_dict {A} (name : str) (d : pdict A) : pdict A := filter (fun kv => starts_with name (fst kv)) d.
(* {k: v for k, v in d.items() if k.startswith(name)}[name + suffix] *)
Definition lookup_entry {A} (name suffix : str) (d : pdict A) : option A := dict_get (name ++ suffix) (sub_dict name d).

Definition s_of (s : String.string) : str := String.list_ascii_of_string s.
Definition module_suffixes : list str := map s_of ["_cls"; "_init_dict"; "_state_dict"]%string.
Definition optimizer_suffixes : list str :=
  map s_of ["_cls"; "_state_dict"; "_networks"; "_lr"; "_kwargs"; "_multiagent"]%string.

(* network_info[...].update({f"{attr}{suffix}": ...}) for every attribute in order; the payload recorded here
   is (attribute position, suffix position), so a lookup that returns somebody else's entry is visible *)
Definition build_dict (suffixes : list str) (names : list str) : pdict (nat * nat) :=
  fold_left (fun d ni => fold_left (fun d' sj => dict_set (snd ni ++ snd sj) (fst ni, fst sj) d')
                                   (combine (seq 0 (length suffixes)) suffixes) d)
            (combine (seq 0 (length names)) names) [].
Definition lookups_ok (suffixes : list str) (names : list str) : bool :=
  let d := build_dict suffixes names in
  forallb (fun ni => forallb (fun sj =>
             match lookup_entry (snd ni) (snd sj) d with
             | Some (i, j) => Nat.eqb i (fst ni) && Nat.eqb j (fst sj)
             | None => false
             end) (combine (seq 0 (length suffixes)) suffixes))
          (combine (seq 0 (length names)) names).
Definition prefix_ok (net_names opt_names : list str) : bool :=
  lookups_ok module_suffixes net_names && lookups_ok optimizer_suffixes opt_names.
